(* C10 - the only thing the scheduling theorem needs of the hand-off queue: it is lossless and first-in-first-out.
   With an abstraction `qabs` of the queue as the list of contents in flight:
     (empty)  qabs qempty = []
     (push)   qabs (qpush c q) = qabs q ++ [c]          nothing is dropped, new contents go to the back
     (pop)    qpop q = Some (c, q') -> qabs q = c :: qabs q'      the oldest content is received, the rest stays
   (a receive that finds nothing changes nothing - no law is needed for it)
   every interleaving emits a prefix of the single-thread sequence, and the whole sequence once drained. *)
Require Import List NArith Bool Lia.
Require Import KV.Rsp10.Model KV.Rsp10.QueueModel KV.Rsp10.SchedProofs.
Import ListNotations.

Section QueueLaws.
  Variable row : Type.
  Variable row_eqb : row -> row -> bool.
  Variable infer : list triple -> list triple.
  Variable query : list triple -> list row.
  Variable norules : bool.
  Variable op : sop.
  Variable fixed : bool.
  Variable Q : Type.
  Variable qempty : Q.
  Variable qpush : list triple -> Q -> Q.
  Variable qpop : Q -> option (list triple * Q).
  Variable qabs : Q -> list (list triple).
  Hypothesis law_empty : qabs qempty = [].
  Hypothesis law_push : forall c q, qabs (qpush c q) = qabs q ++ [c].
  Hypothesis law_pop_some : forall q c q', qpop q = Some (c, q') -> qabs q = c :: qabs q'.

  Notation qmt := (qmt row Q).
  Notation qmt_step := (qmt_step row row_eqb infer query norules op fixed Q qpush qpop).
  Notation qmt_run := (qmt_run row row_eqb infer query norules op fixed Q qempty qpush qpop).
  Notation st_emits := (st_emits row row_eqb infer query norules op fixed).
  Notation emits_from := (emits_from row row_eqb infer query norules op fixed).

  Definition QInv (inputs : list (list triple)) (m : qmt) : Prop :=
    st_emits inputs = q_out _ _ m ++ emits_from (q_worker _ _ m) (qabs (q_queue _ _ m) ++ q_pending _ _ m).

  Lemma QInv_step : forall inputs m a, QInv inputs m -> QInv inputs (qmt_step m a).
  Proof.
    intros inputs m a H; unfold QInv in *. destruct a; unfold QueueModel.qmt_step.
    - destruct (q_pending _ _ m) as [|c p] eqn:E; [rewrite E; assumption|].
      cbn [q_out q_worker q_queue q_pending]. rewrite H, law_push, <- app_assoc. reflexivity.
    - destruct (qpop (q_queue _ _ m)) as [[c q]|] eqn:E; [|assumption].
      rewrite H, (law_pop_some _ _ _ E). rewrite <- app_comm_cons, emits_from_cons.
      destruct (fire row row_eqb infer query norules op fixed c (q_worker _ _ m)) as [e' [rw o]].
      cbn [fst snd q_out q_worker q_queue q_pending]. rewrite <- app_assoc. reflexivity.
  Qed.

  Theorem queue_laws_suffice : forall (inputs : list (list triple)) (sched : list act),
    let m := qmt_run inputs sched in
    exists rest, st_emits inputs = q_out _ _ m ++ rest /\
                 (q_pending _ _ m = [] -> qabs (q_queue _ _ m) = [] -> rest = []).
  Proof.
    intros inputs sched m.
    assert (H : QInv inputs m).
    { subst m. unfold QueueModel.qmt_run.
      assert (G : forall s m0, QInv inputs m0 -> QInv inputs (fold_left qmt_step s m0)).
      { induction s as [|a s IH]; intros m0 H0; simpl; [assumption | apply IH, QInv_step; assumption]. }
      apply G. unfold QInv, qmt_init; cbn [q_out q_worker q_queue q_pending]. rewrite law_empty. reflexivity. }
    unfold QInv in H. eexists; split; [exact H|]. intros Hp Hq; rewrite Hp, Hq; reflexivity.
  Qed.
End QueueLaws.

(* the unbounded list queue of Model.mt_step satisfies the laws *)
Lemma fifo_laws :
  (forall c q, (fun q : list (list triple) => q) (fifo_push c q) = q ++ [c]) /\
  (forall q c q', fifo_pop q = Some (c, q') -> q = c :: q') /\
  (forall q, fifo_pop q = None -> q = []).
Proof.
  split; [reflexivity|]. split.
  - intros [|x q] c q' H; simpl in H; [discriminate | inversion H; reflexivity].
  - intros [|x q] H; simpl in H; [reflexivity | discriminate].
Qed.
