(* C10 - the executable evaluators of Eval.v satisfy what the pipeline theorems assume about the reasoner and the
   plan executor: the inferred facts depend only on the set of stored triples, are new and are listed once; the
   answers of a basic graph pattern are a function of the stored multiset (here: invariant under permutation). *)
Require Import List NArith Bool Lia Permutation.
Require Import KV.Rsp10.Model KV.Rsp10.Eval KV.Rsp10.StoreProofs.
Import ListNotations.
Local Open Scope N_scope.

Lemma binding_eqb_eq : forall a b, binding_eqb a b = true <-> a = b.
Proof.
  induction a as [|[k x] a IH]; intros [|[k' y] b]; simpl; try (split; [discriminate|discriminate]); try tauto.
  rewrite andb_true_iff, IH. unfold pair_eqb; simpl. rewrite andb_true_iff, !N.eqb_eq. split.
  - intros [[H1 H2] H3]; subst; reflexivity.
  - intros H; inversion H; subst; auto.
Qed.

(* ---- answers of a basic graph pattern ------------------------------------------------------------ *)
Lemma flat_map_perm_ext : forall (A B : Type) (f g : A -> list B) (l : list A),
  (forall x, Permutation (f x) (g x)) -> Permutation (flat_map f l) (flat_map g l).
Proof.
  intros A B f g l H; induction l as [|x l IH]; simpl; [constructor|].
  apply Permutation_app; [apply H | assumption].
Qed.

Lemma extend_perm : forall p S S' sols sols',
  Permutation S S' -> Permutation sols sols' -> Permutation (extend p S sols) (extend p S' sols').
Proof.
  intros p S S' sols sols' HS Hs. unfold extend.
  eapply Permutation_trans.
  - apply Permutation_flat_map; exact Hs.
  - apply flat_map_perm_ext. intros b. apply Permutation_flat_map; exact HS.
Qed.

Lemma eval_from_perm : forall pats S S' sols sols',
  Permutation S S' -> Permutation sols sols' ->
  Permutation (eval_from pats S sols) (eval_from pats S' sols').
Proof.
  induction pats as [|p ps IH]; intros S S' sols sols' HS Hs; simpl; [assumption|].
  apply IH; [assumption | apply extend_perm; assumption].
Qed.

Theorem eval_bgp_perm : forall pats S S', Permutation S S' -> Permutation (eval_bgp pats S) (eval_bgp pats S').
Proof. intros; unfold eval_bgp; apply eval_from_perm; [assumption | apply Permutation_refl]. Qed.

(* ---- membership only depends on the set of triples --------------------------------------------------- *)
Lemma opt_list_In : forall (A : Type) (o : option A) x, In x (opt_list o) <-> o = Some x.
Proof. intros A [y|] x; simpl; split; try tauto; try discriminate; [intros [->|[]]; reflexivity | intros H; inversion H; auto]. Qed.

Lemma extend_In : forall p S sols b',
  In b' (extend p S sols) <-> exists b t, In b sols /\ In t S /\ match_pat p t b = Some b'.
Proof.
  intros p S sols b'; unfold extend. rewrite in_flat_map. split.
  - intros [b [Hb H]]. apply in_flat_map in H. destruct H as [t [Ht H]]. apply opt_list_In in H.
    exists b, t; auto.
  - intros [b [t [Hb [Ht H]]]]. exists b; split; [assumption|]. apply in_flat_map. exists t; split; [assumption|].
    apply opt_list_In; assumption.
Qed.

Definition seteq {A} (l l' : list A) : Prop := forall x, In x l <-> In x l'.

Lemma eval_from_set : forall pats S S' sols sols',
  seteq S S' -> seteq sols sols' -> seteq (eval_from pats S sols) (eval_from pats S' sols').
Proof.
  induction pats as [|p ps IH]; intros S S' sols sols' HS Hs; simpl; [assumption|].
  apply IH; [assumption|]. intros b'. rewrite !extend_In. split.
  - intros [b [t [H1 [H2 H3]]]]; exists b, t; repeat split; [apply Hs | apply HS |]; assumption.
  - intros [b [t [H1 [H2 H3]]]]; exists b, t; repeat split; [apply Hs | apply HS |]; assumption.
Qed.

Lemma eval_bgp_set : forall pats S S', seteq S S' -> seteq (eval_bgp pats S) (eval_bgp pats S').
Proof. intros; unfold eval_bgp; apply eval_from_set; [assumption | intros x; tauto]. Qed.

Lemma conseq_In : forall rules S t,
  In t (conseq rules S) <-> exists r b, In r rules /\ In b (eval_bgp (prem r) S) /\ inst (concl r) b = Some t.
Proof.
  intros rules S t; unfold conseq. rewrite in_flat_map. split.
  - intros [r [Hr H]]. apply in_flat_map in H. destruct H as [b [Hb H]]. apply opt_list_In in H. exists r, b; auto.
  - intros [r [b [Hr [Hb H]]]]. exists r; split; [assumption|]. apply in_flat_map. exists b; split; [assumption|].
    apply opt_list_In; assumption.
Qed.

Lemma conseq_set : forall rules S S', seteq S S' -> seteq (conseq rules S) (conseq rules S').
Proof.
  intros rules S S' H t. rewrite !conseq_In. split.
  - intros [r [b [H1 [H2 H3]]]]; exists r, b; repeat split; try assumption. apply (eval_bgp_set _ _ _ H); assumption.
  - intros [r [b [H1 [H2 H3]]]]; exists r, b; repeat split; try assumption. apply (eval_bgp_set _ _ _ H); assumption.
Qed.

Definition fresh (rules : list rule) (all : list triple) : list triple :=
  tdedup (filter (fun t => negb (tmem t all)) (conseq rules all)).

Lemma fresh_In : forall rules all t, In t (fresh rules all) <-> In t (conseq rules all) /\ ~ In t all.
Proof.
  intros rules all t; unfold fresh. rewrite tdedup_In, filter_In, negb_true_iff, tmem_false. tauto.
Qed.

Lemma fresh_set : forall rules all all', seteq all all' -> seteq (fresh rules all) (fresh rules all').
Proof.
  intros rules all all' H t. rewrite !fresh_In. rewrite (conseq_set rules _ _ H t), (H t). tauto.
Qed.

Lemma seteq_app : forall (A : Type) (a a' b b' : list A), seteq a a' -> seteq b b' -> seteq (a ++ b) (a' ++ b').
Proof. intros A a a' b b' H1 H2 x; rewrite !in_app_iff, (H1 x), (H2 x); tauto. Qed.

Lemma seteq_nil : forall (A : Type) (l : list A), seteq [] l -> l = [].
Proof. intros A [|x l] H; [reflexivity|]. exfalso. apply (H x). left; reflexivity. Qed.

Lemma derive_unfold : forall n rules S acc,
  derive (Datatypes.S n) rules S acc =
  match fresh rules (S ++ acc) with
  | [] => acc
  | _ => derive n rules S (acc ++ fresh rules (S ++ acc))
  end.
Proof. reflexivity. Qed.

Lemma derive_set : forall fuel rules S S' acc acc',
  seteq S S' -> seteq acc acc' -> seteq (derive fuel rules S acc) (derive fuel rules S' acc').
Proof.
  induction fuel as [|n IH]; intros rules S S' acc acc' HS Ha; [exact Ha|].
  rewrite !derive_unfold.
  pose proof (fresh_set rules _ _ (seteq_app _ _ _ _ _ HS Ha)) as Hf.
  destruct (fresh rules (S ++ acc)) as [|x l] eqn:E1.
  - apply seteq_nil in Hf. rewrite Hf. exact Ha.
  - destruct (fresh rules (S' ++ acc')) as [|x' l'] eqn:E2.
    + exfalso. apply (Hf x). left; reflexivity.
    + apply IH; [assumption | apply seteq_app; assumption].
Qed.

Theorem infer_c_set : forall fuel rules S S',
  (forall t, In t S <-> In t S') -> forall t, In t (infer_c fuel rules S) <-> In t (infer_c fuel rules S').
Proof. intros fuel rules S S' H; unfold infer_c; apply derive_set; [exact H | intros x; tauto]. Qed.

(* ---- the inferred facts are new, and listed once ------------------------------------------------------- *)
Lemma NoDup_app_disjoint : forall (A : Type) (a b : list A),
  NoDup a -> NoDup b -> (forall x, In x b -> ~ In x a) -> NoDup (a ++ b).
Proof.
  induction a as [|x a IH]; intros b Ha Hb Hd; simpl; [assumption|].
  inversion Ha; subst. constructor.
  - rewrite in_app_iff. intros [H|H]; [contradiction | apply (Hd x H); left; reflexivity].
  - apply IH; try assumption. intros y Hy Hya; apply (Hd y Hy); right; assumption.
Qed.

Lemma derive_new : forall fuel rules S acc,
  (forall t, In t acc -> ~ In t S) -> NoDup acc ->
  (forall t, In t (derive fuel rules S acc) -> ~ In t S) /\ NoDup (derive fuel rules S acc).
Proof.
  induction fuel as [|n IH]; intros rules S acc Hd Hn; [split; assumption|].
  rewrite derive_unfold. destruct (fresh rules (S ++ acc)) as [|x l] eqn:E; [split; assumption|].
  rewrite <- E. apply IH.
  - intros t Ht. apply in_app_iff in Ht. destruct Ht as [Ht|Ht]; [apply Hd; assumption|].
    apply fresh_In in Ht. destruct Ht as [_ Ht]. intros Hs; apply Ht, in_app_iff; left; assumption.
  - apply NoDup_app_disjoint; [assumption | unfold fresh; apply tdedup_NoDup |].
    intros t Ht Ha. apply fresh_In in Ht. apply (proj2 Ht), in_app_iff; right; assumption.
Qed.

Theorem infer_c_new : forall fuel rules S t, In t (infer_c fuel rules S) -> ~ In t S.
Proof. intros fuel rules S; unfold infer_c; apply derive_new; [intros t [] | constructor]. Qed.

Theorem infer_c_NoDup : forall fuel rules S, NoDup (infer_c fuel rules S).
Proof. intros fuel rules S; unfold infer_c; apply derive_new; [intros t [] | constructor]. Qed.

(* every inferred fact is an immediate consequence of the input facts and earlier inferred facts *)
Lemma derive_sound : forall fuel rules S acc t,
  In t (derive fuel rules S acc) -> In t acc \/ exists all, (forall u, In u all -> In u S \/ In u (derive fuel rules S acc)) /\ In t (conseq rules all).
Proof.
  induction fuel as [|n IH]; intros rules S acc t Ht; [left; assumption|].
  rewrite derive_unfold in *. destruct (fresh rules (S ++ acc)) as [|x l] eqn:E; [left; assumption|].
  rewrite <- E in *. destruct (IH _ _ _ _ Ht) as [H|H]; [|right; assumption].
  apply in_app_iff in H. destruct H as [H|H]; [left; assumption|]. right.
  exists (S ++ acc). split.
  - intros u Hu. apply in_app_iff in Hu. destruct Hu as [Hu|Hu]; [left; assumption|]. right.
    clear - Hu. generalize (fresh rules (S ++ acc)) as fr. revert acc Hu.
    induction n as [|n IHn]; intros acc Hu fr; [apply in_app_iff; left; assumption|].
    rewrite derive_unfold. destruct (fresh rules (S ++ acc ++ fr)) eqn:E2.
    + apply in_app_iff; left; assumption.
    + rewrite <- E2. rewrite <- app_assoc. apply IHn. assumption.
  - apply fresh_In in H. tauto.
Qed.
