(* C10 - executable instances of the pipeline's two parameters for the shapes the correspondence check
   generates: basic graph patterns (window blocks) and positive rules with a basic-graph-pattern body.
   `eval_bgp` stands for ExecutionEngine::execute on a window plan, `infer_c` for
   Reasoner::infer_new_facts_semi_naive (all consequences, only the new facts, each once).
   No proofs in this file. *)
Require Import List NArith Bool.
Require Import KV.Rsp10.Model.
Import ListNotations.
Local Open Scope N_scope.

Inductive term := V (n : N) | C (n : N).
Definition pat := (term * term * term)%type.

(* a solution: variable -> value, kept sorted by variable (the code sorts each row by variable name) *)
Definition binding := list (N * N).

Fixpoint lookup (v : N) (b : binding) : option N :=
  match b with
  | [] => None
  | (k, x) :: b' => if k =? v then Some x else lookup v b'
  end.

Fixpoint insert (v x : N) (b : binding) : binding :=
  match b with
  | [] => [(v, x)]
  | (k, y) :: b' => if v <? k then (v, x) :: b else (k, y) :: insert v x b'
  end.

Definition bind_term (t : term) (x : N) (b : binding) : option binding :=
  match t with
  | C c => if c =? x then Some b else None
  | V v => match lookup v b with
           | Some y => if y =? x then Some b else None
           | None => Some (insert v x b)
           end
  end.

Definition match_pat (p : pat) (t : triple) (b : binding) : option binding :=
  match p, t with
  | (ps, pp, po), (s, pr, o) =>
      match bind_term ps s b with
      | None => None
      | Some b1 =>
          match bind_term pp pr b1 with
          | None => None
          | Some b2 => bind_term po o b2
          end
      end
  end.

Definition opt_list {A} (o : option A) : list A := match o with Some x => [x] | None => [] end.

Definition extend (p : pat) (S : list triple) (sols : list binding) : list binding :=
  flat_map (fun b => flat_map (fun t => opt_list (match_pat p t b)) S) sols.

Fixpoint eval_from (pats : list pat) (S : list triple) (sols : list binding) : list binding :=
  match pats with
  | [] => sols
  | p :: ps => eval_from ps S (extend p S sols)
  end.

(* all solutions of a basic graph pattern over a set of triples (a multiset of bindings) *)
Definition eval_bgp (pats : list pat) (S : list triple) : list binding := eval_from pats S [[]].

Definition pair_eqb (a b : N * N) : bool := (fst a =? fst b) && (snd a =? snd b).
Fixpoint binding_eqb (a b : binding) : bool :=
  match a, b with
  | [], [] => true
  | x :: a', y :: b' => pair_eqb x y && binding_eqb a' b'
  | _, _ => false
  end.

(* rules *)
Record rule := mkRule { prem : list pat; concl : pat }.

Definition inst_term (t : term) (b : binding) : option N :=
  match t with C c => Some c | V v => lookup v b end.

Definition inst (p : pat) (b : binding) : option triple :=
  match p with
  | (s, pr, o) =>
      match inst_term s b, inst_term pr b, inst_term o b with
      | Some x, Some y, Some z => Some (x, y, z)
      | _, _, _ => None
      end
  end.

(* immediate consequences of the rules over a set of facts *)
Definition conseq (rules : list rule) (S : list triple) : list triple :=
  flat_map (fun r => flat_map (fun b => opt_list (inst (concl r) b)) (eval_bgp (prem r) S)) rules.

(* rounds of inference; `acc` = the facts derived so far (none of them in S); stops at the first round
   that derives nothing new, or when the fuel is used up *)
Fixpoint derive (fuel : nat) (rules : list rule) (S acc : list triple) : list triple :=
  match fuel with
  | O => acc
  | Datatypes.S n =>
      let all := S ++ acc in
      let new := tdedup (filter (fun t => negb (tmem t all)) (conseq rules all)) in
      match new with
      | [] => acc
      | _ => derive n rules S (acc ++ new)
      end
  end.

Definition infer_c (fuel : nat) (rules : list rule) (S : list triple) : list triple :=
  derive fuel rules S [].

(* the fuel was enough: the result is closed under the rules *)
Definition closedb (rules : list rule) (all : list triple) : bool :=
  forallb (fun t => tmem t all) (conseq rules all).
