(* C10 - lemmas about the triple store (a duplicate-free list) and about the R2R operator's add / remove. *)
Require Import List NArith Bool Lia.
Require Import KV.Rsp10.Model.
Import ListNotations.
Local Open Scope N_scope.

Lemma teqb_eq : forall a b, teqb a b = true <-> a = b.
Proof.
  intros [[s1 p1] o1] [[s2 p2] o2]; unfold teqb.
  rewrite !andb_true_iff, !N.eqb_eq. split.
  - intros [[H1 H2] H3]; subst; reflexivity.
  - intros H; inversion H; subst; auto.
Qed.

Lemma teqb_refl : forall a, teqb a a = true.
Proof. intros a; apply teqb_eq; reflexivity. Qed.

Lemma teqb_neq : forall a b, teqb a b = false <-> a <> b.
Proof.
  intros a b; split.
  - intros H E; apply teqb_eq in E; congruence.
  - intros H; destruct (teqb a b) eqn:E; auto. apply teqb_eq in E; contradiction.
Qed.

Lemma triple_eq_dec : forall a b : triple, {a = b} + {a <> b}.
Proof.
  intros a b; destruct (teqb a b) eqn:E.
  - left; apply teqb_eq; assumption.
  - right; apply teqb_neq; assumption.
Qed.

Lemma tmem_In : forall t S, tmem t S = true <-> In t S.
Proof.
  intros t S; unfold tmem; rewrite existsb_exists; split.
  - intros [x [Hx He]]; apply teqb_eq in He; subst; assumption.
  - intros H; exists t; split; [assumption | apply teqb_refl].
Qed.

Lemma tmem_false : forall t S, tmem t S = false <-> ~ In t S.
Proof.
  intros t S; split.
  - intros H Hi; apply tmem_In in Hi; congruence.
  - intros H; destruct (tmem t S) eqn:E; auto. apply tmem_In in E; contradiction.
Qed.

Lemma In_dec_t : forall (t : triple) S, In t S \/ ~ In t S.
Proof. intros t S; destruct (tmem t S) eqn:E; [left; apply tmem_In | right; apply tmem_false]; assumption. Qed.

(* add_triple / del_triple *)
Lemma add_triple_In : forall t S u, In u (add_triple t S) <-> u = t \/ In u S.
Proof.
  intros t S u; unfold add_triple; destruct (tmem t S) eqn:E.
  - apply tmem_In in E; split; [auto | intros [->|H]; auto].
  - rewrite in_app_iff; simpl; split; intros H.
    + destruct H as [H|[H|[]]]; auto.
    + destruct H as [H|H]; auto.
Qed.

Lemma NoDup_snoc : forall (A : Type) (S : list A) (t : A), NoDup S -> ~ In t S -> NoDup (S ++ [t]).
Proof.
  induction S as [|x S IH]; intros t H Hn; simpl.
  - constructor; [intros []|constructor].
  - inversion H; subst. constructor.
    + rewrite in_app_iff; simpl. intros [Hx|[Hx|[]]]; [contradiction | subst; apply Hn; left; reflexivity].
    + apply IH; [assumption | intros Hi; apply Hn; right; assumption].
Qed.

Lemma add_triple_NoDup : forall t S, NoDup S -> NoDup (add_triple t S).
Proof.
  intros t S H; unfold add_triple; destruct (tmem t S) eqn:E; [assumption|].
  apply tmem_false in E. apply NoDup_snoc; assumption.
Qed.

Lemma del_triple_In : forall t S u, In u (del_triple t S) <-> In u S /\ u <> t.
Proof.
  intros t S u; unfold del_triple; rewrite filter_In, negb_true_iff, teqb_neq.
  split; intros [H1 H2]; split; auto.
Qed.

Lemma del_triple_NoDup : forall t S, NoDup S -> NoDup (del_triple t S).
Proof. intros; unfold del_triple; apply NoDup_filter; assumption. Qed.

Lemma fold_del_In : forall L S u,
  In u (fold_left (fun s t => del_triple t s) L S) <-> In u S /\ ~ In u L.
Proof.
  induction L as [|t L IH]; intros S u; simpl.
  - tauto.
  - rewrite IH, del_triple_In. split.
    + intros [[H1 H2] H3]; split; [assumption | intros [H|H]; [subst; auto | auto]].
    + intros [H1 H2]; split; [split; [assumption | intros ->; apply H2; auto] | intros H; apply H2; auto].
Qed.

Lemma fold_del_NoDup : forall L S, NoDup S -> NoDup (fold_left (fun s t => del_triple t s) L S).
Proof. induction L; intros S H; simpl; auto using del_triple_NoDup. Qed.

Lemma fold_add_In : forall L S u,
  In u (fold_left (fun s t => add_triple t s) L S) <-> In u S \/ In u L.
Proof.
  induction L as [|t L IH]; intros S u; simpl.
  - tauto.
  - rewrite IH, add_triple_In. split.
    + intros [[H|H]|H]; auto.
    + intros [H|[H|H]]; auto.
Qed.

Lemma fold_add_NoDup : forall L S, NoDup S -> NoDup (fold_left (fun s t => add_triple t s) L S).
Proof. induction L; intros S H; simpl; auto using add_triple_NoDup. Qed.

Lemma tdedup_In : forall l u, In u (tdedup l) <-> In u l.
Proof.
  induction l as [|x l IH]; intros u; simpl; [tauto|].
  destruct (tmem x l) eqn:E.
  - rewrite IH. apply tmem_In in E. split; [auto | intros [->|H]; auto].
  - simpl. rewrite IH. tauto.
Qed.

Lemma tdedup_NoDup : forall l, NoDup (tdedup l).
Proof.
  induction l as [|x l IH]; simpl; [constructor|].
  destruct (tmem x l) eqn:E; [assumption|].
  constructor; [|assumption]. rewrite tdedup_In. apply tmem_false; assumption.
Qed.

(* the R2R operator: remove / add over a whole content *)
Lemma fold_remove_store : forall L r,
  store (fold_left (fun r t => r2r_remove t r) L r) = fold_left (fun s t => del_triple t s) L (store r).
Proof. induction L; intros r; simpl; [reflexivity | rewrite IHL; reflexivity]. Qed.

Lemma fold_remove_derived : forall L r,
  derived (fold_left (fun r t => r2r_remove t r) L r) = derived r.
Proof. induction L; intros r; simpl; [reflexivity | rewrite IHL; reflexivity]. Qed.

Lemma r2r_add_derived_In : forall t r u, In u (derived (r2r_add t r)) <-> In u (derived r) /\ u <> t.
Proof.
  intros t r u; unfold r2r_add; cbn [derived]. destruct (derived r) as [|d ds].
  - simpl; tauto.
  - rewrite filter_In, negb_true_iff, teqb_neq. split; intros [H1 H2]; split; auto.
Qed.

Lemma fold_add_store : forall L r,
  store (fold_left (fun r t => r2r_add t r) L r) = fold_left (fun s t => add_triple t s) L (store r).
Proof. induction L; intros r; simpl; [reflexivity | rewrite IHL; reflexivity]. Qed.

Lemma fold_add_derived_In : forall L r u,
  In u (derived (fold_left (fun r t => r2r_add t r) L r)) <-> In u (derived r) /\ ~ In u L.
Proof.
  induction L as [|t L IH]; intros r u; simpl.
  - tauto.
  - rewrite IH, r2r_add_derived_In. split.
    + intros [[H1 H2] H3]; split; [assumption | intros [H|H]; [subst; auto | auto]].
    + intros [H1 H2]; split; [split; [assumption | intros ->; apply H2; auto] | intros H; apply H2; auto].
Qed.
