(* C10 - the specification: what a firing of a single-window continuous query must produce.
   "The results produced at a firing are the query answers over exactly that window's content plus what
   the rules derive from it, passed through the declared stream operator."
   Nothing here refers to the store, to earlier contents or to the pipeline's state: the rows of a firing
   are a function of that firing's window content alone, and an emission is a function of the rows of
   this firing and of the previous one.  No proofs in this file. *)
Require Import List NArith Bool.
Require Import KV.Rsp10.Model.
Import ListNotations.

Section Spec.
  Variable row : Type.
  Variable row_eqb : row -> row -> bool.
  Variable infer : list triple -> list triple.
  Variable query : list triple -> list row.
  Variable norules : bool.
  Variable op : sop.

  (* what the rules derive from a content *)
  Definition infer_eff (c : list triple) : list triple := if norules then [] else infer c.

  (* the set of triples a firing with content c may see *)
  Definition visible (c : list triple) (t : triple) : Prop := In t c \/ In t (infer_eff c).

  (* executable: that set as a duplicate-free list, and the answers over it *)
  Definition spec_store (c : list triple) : list triple := tdedup (c ++ infer_eff c).
  Definition spec_rows (c : list triple) : list row := query (spec_store c).

  (* RSTREAM: all rows; ISTREAM: the rows that were not among the previous firing's rows;
     DSTREAM: the previous firing's rows (as a set) that are not among this firing's rows *)
  Definition spec_emit (prev rows : list row) : list row :=
    match op with
    | RSTREAM => rows
    | ISTREAM => filter (fun r => negb (rmem row row_eqb r prev)) rows
    | DSTREAM => filter (fun r => negb (rmem row row_eqb r rows)) (dedup row row_eqb prev)
    end.

  Fixpoint spec_emits (prev : list row) (rs : list (list row)) : list (list row) :=
    match rs with
    | [] => []
    | r :: rs' => spec_emit prev r :: spec_emits r rs'
    end.

  (* the emission sequence for a sequence of window contents; before the first firing there are no rows *)
  Definition spec_run (h : list (list triple)) : list (list row) := spec_emits [] (map spec_rows h).
End Spec.
