(* C10 - the store after every firing is exactly the current content plus what the rules derive from it,
   for every firing history; the rows and the emissions are those of the specification. *)
Require Import List NArith Bool Lia Permutation.
Require Import KV.Rsp10.Model KV.Rsp10.Spec KV.Rsp10.StoreProofs.
Import ListNotations.

Lemma Permutation_filter_c : forall (A : Type) (f : A -> bool) (l l' : list A),
  Permutation l l' -> Permutation (filter f l) (filter f l').
Proof.
  intros A f l l' H; induction H; simpl.
  - constructor.
  - destruct (f x); [constructor|]; assumption.
  - destruct (f x), (f y); try apply Permutation_refl; apply perm_swap.
  - eapply Permutation_trans; eassumption.
Qed.

Section PipelineProofs.
  Variable row : Type.
  Variable row_eqb : row -> row -> bool.
  Hypothesis row_eqb_eq : forall a b, row_eqb a b = true <-> a = b.
  Variable infer : list triple -> list triple.
  Variable query : list triple -> list row.
  Variable norules : bool.
  Variable op : sop.
  (* what the pipeline needs to know about the reasoner and the plan executor *)
  Hypothesis infer_set : forall S S', (forall t, In t S <-> In t S') -> forall t, In t (infer S) <-> In t (infer S').
  Hypothesis query_perm : forall S S', Permutation S S' -> Permutation (query S) (query S').

  Notation engine := (engine row).
  Notation fire := (fire row row_eqb infer query norules op true).
  Notation run := (run row row_eqb infer query norules op true).
  Notation materialize := (materialize infer norules).
  Notation rmem := (rmem row row_eqb).
  Notation dedup := (dedup row row_eqb).
  Notation visible := (visible infer norules).
  Notation spec_rows := (spec_rows row infer query norules).
  Notation spec_emit := (spec_emit row row_eqb op).
  Notation spec_emits := (spec_emits row row_eqb op).

  (* ---- rows as a set -------------------------------------------------------------------------- *)
  Lemma rmem_In : forall r l, rmem r l = true <-> In r l.
  Proof.
    intros r l; unfold Model.rmem; rewrite existsb_exists; split.
    - intros [x [Hx He]]; apply row_eqb_eq in He; subst; assumption.
    - intros H; exists r; split; [assumption | apply row_eqb_eq; reflexivity].
  Qed.

  Lemma rmem_ext : forall r l l', (forall x, In x l <-> In x l') -> rmem r l = rmem r l'.
  Proof.
    intros r l l' H. destruct (rmem r l) eqn:E1, (rmem r l') eqn:E2; auto.
    - apply rmem_In, H, rmem_In in E1; congruence.
    - apply rmem_In, H, rmem_In in E2; congruence.
  Qed.

  Lemma dedup_In : forall l x, In x (dedup l) <-> In x l.
  Proof.
    induction l as [|y l IH]; intros x; simpl; [tauto|].
    destruct (rmem y l) eqn:E.
    - rewrite IH. apply rmem_In in E. split; [auto | intros [->|H]; auto].
    - simpl. rewrite IH. tauto.
  Qed.

  Lemma dedup_NoDup : forall l, NoDup (dedup l).
  Proof.
    induction l as [|y l IH]; simpl; [constructor|].
    destruct (rmem y l) eqn:E; [assumption|].
    constructor; [|assumption]. rewrite dedup_In. intros H; apply rmem_In in H; congruence.
  Qed.

  (* ---- materialize ---------------------------------------------------------------------------- *)
  Definition evicted (r : r2r) : list triple := fold_left (fun s t => del_triple t s) (derived r) (store r).

  Lemma materialize_store_In : forall r u,
    In u (store (materialize r)) <->
    (In u (store r) /\ ~ In u (derived r)) \/ (norules = false /\ In u (infer (evicted r))).
  Proof.
    intros r u; unfold Model.materialize; fold (evicted r). destruct norules; cbn [store].
    - unfold evicted; rewrite fold_del_In. split; [auto | intros [H|[H _]]; [assumption | discriminate]].
    - rewrite fold_add_In. unfold evicted at 1; rewrite fold_del_In. split.
      + intros [H|H]; auto.
      + intros [H|[_ H]]; auto.
  Qed.

  Lemma materialize_derived : forall r,
    derived (materialize r) = if norules then [] else infer (evicted r).
  Proof. intros r; unfold Model.materialize; fold (evicted r); destruct norules; reflexivity. Qed.

  Lemma materialize_NoDup : forall r, NoDup (store r) -> NoDup (store (materialize r)).
  Proof.
    intros r H; unfold Model.materialize; destruct norules; cbn [store].
    - apply fold_del_NoDup; assumption.
    - apply fold_add_NoDup, fold_del_NoDup; assumption.
  Qed.

  (* ---- one firing ----------------------------------------------------------------------------- *)
  (* the invariant between firings: the store holds nothing but the previous content and the facts
     derived from it *)
  Definition Inv (e : engine) : Prop :=
    NoDup (store (e_r2r _ e)) /\
    forall t, In t (store (e_r2r _ e)) -> In t (e_prev _ e) \/ In t (derived (e_r2r _ e)).

  Lemma Inv_init : Inv (engine_init row).
  Proof. split; simpl; [constructor | intros t []]. Qed.

  Definition loaded (c : list triple) (e : engine) : r2r :=
    fold_left (fun r t => r2r_add t r) c (fold_left (fun r t => r2r_remove t r) (e_prev _ e) (e_r2r _ e)).

  Lemma fire_r2r : forall c e, e_r2r _ (fst (fire c e)) = materialize (loaded c e).
  Proof.
    intros c e; unfold Model.fire; fold (loaded c e).
    destruct (r2s_eval _ _ _ _ _); reflexivity.
  Qed.

  Lemma fire_prev : forall c e, e_prev _ (fst (fire c e)) = c.
  Proof. intros c e; unfold Model.fire. destruct (r2s_eval _ _ _ _ _); reflexivity. Qed.

  Lemma fire_rows : forall c e, fst (snd (fire c e)) = query (store (e_r2r _ (fst (fire c e)))).
  Proof. intros c e; unfold Model.fire. destruct (r2s_eval _ _ _ _ _); reflexivity. Qed.

  (* after eviction of the previous content, loading of the current one and eviction of last cycle's
     derived facts, the store is the current content - whatever happened before *)
  Lemma loaded_evicted : forall c e, Inv e -> forall t, In t (evicted (loaded c e)) <-> In t c.
  Proof.
    intros c e [_ Hsub] t. unfold evicted, loaded.
    rewrite fold_del_In, fold_add_store, fold_add_In, fold_add_derived_In.
    rewrite fold_remove_store, fold_remove_derived, fold_del_In.
    split.
    - intros [[[Hs Hp]|Hc] Hn]; [|assumption].
      destruct (In_dec_t t c) as [Hc|Hc]; [assumption|].
      exfalso. destruct (Hsub t Hs) as [H|H]; [contradiction | apply Hn; split; assumption].
    - intros Hc; split; [right; assumption | intros [_ Hn]; contradiction].
  Qed.

  Lemma loaded_NoDup : forall c e, Inv e -> NoDup (store (loaded c e)).
  Proof.
    intros c e [Hnd _]; unfold loaded. rewrite fold_add_store, fold_remove_store.
    apply fold_add_NoDup, fold_del_NoDup; assumption.
  Qed.

  Lemma loaded_store_In : forall c e t, In t (store (loaded c e)) <-> (In t (store (e_r2r _ e)) /\ ~ In t (e_prev _ e)) \/ In t c.
  Proof. intros c e t; unfold loaded. rewrite fold_add_store, fold_add_In, fold_remove_store, fold_del_In; tauto. Qed.

  Lemma fire_store : forall c e, Inv e ->
    forall t, In t (store (e_r2r _ (fst (fire c e)))) <-> visible c t.
  Proof.
    intros c e HI t. rewrite fire_r2r, materialize_store_In.
    pose proof (loaded_evicted c e HI) as Hev.
    assert (Hcore : (In t (store (loaded c e)) /\ ~ In t (derived (loaded c e))) <-> In t c).
    { rewrite <- (Hev t). unfold evicted. rewrite fold_del_In. tauto. }
    rewrite Hcore. unfold Spec.visible, infer_eff. destruct norules.
    - simpl. split; [intros [H|[H _]]; [auto | discriminate] | intros [H|[]]; auto].
    - rewrite (infer_set _ _ Hev t). split; [intros [H|[_ H]]; auto | intros [H|H]; auto].
  Qed.

  Lemma fire_Inv : forall c e, Inv e -> Inv (fst (fire c e)).
  Proof.
    intros c e HI; split.
    - rewrite fire_r2r. apply materialize_NoDup, loaded_NoDup; assumption.
    - intros t Ht. rewrite fire_prev. pose proof (proj1 (fire_store c e HI t) Ht) as Hv.
      rewrite fire_r2r, materialize_derived.
      unfold Spec.visible, infer_eff in Hv. destruct norules.
      + destruct Hv as [H|[]]; auto.
      + destruct Hv as [H|H]; [auto|]. right.
        apply (infer_set _ _ (loaded_evicted c e HI) t); assumption.
  Qed.

  (* ---- every history ---------------------------------------------------------------------------- *)
  Lemma run_cons : forall e c h,
    run e (c :: h) = (fst (run (fst (fire c e)) h), snd (fire c e) :: snd (run (fst (fire c e)) h)).
  Proof.
    intros e c h; simpl. destruct (fire c e) as [e1 o]; simpl. destruct (run e1 h); reflexivity.
  Qed.

  Lemma run_app1 : forall h e c,
    fst (run e (h ++ [c])) = fst (fire c (fst (run e h))) /\
    snd (run e (h ++ [c])) = snd (run e h) ++ [snd (fire c (fst (run e h)))].
  Proof.
    induction h as [|c0 h IH]; intros e c.
    - simpl. destruct (fire c e); simpl; auto.
    - rewrite <- app_comm_cons, !run_cons. cbn [fst snd].
      destruct (IH (fst (fire c0 e)) c) as [H1 H2]. rewrite H1, H2. split; reflexivity.
  Qed.

  Lemma run_Inv : forall h e, Inv e -> Inv (fst (run e h)).
  Proof.
    induction h as [|c h IH]; intros e HI; [assumption|].
    rewrite run_cons; cbn [fst]. apply IH, fire_Inv; assumption.
  Qed.

  Theorem store_exact : forall (h : list (list triple)) (c : list triple),
    let e := fst (run (engine_init row) (h ++ [c])) in
    NoDup (store (e_r2r _ e)) /\ forall t, In t (store (e_r2r _ e)) <-> visible c t.
  Proof.
    intros h c e. subst e. destruct (run_app1 h (engine_init row) c) as [H1 _]. rewrite H1.
    pose proof (run_Inv h _ Inv_init) as HI. split.
    - apply (proj1 (fire_Inv c _ HI)).
    - apply fire_store; assumption.
  Qed.

  (* the rows of every firing are the answers over exactly that firing's visible set *)
  Lemma spec_store_In : forall c t, In t (spec_store infer norules c) <-> visible c t.
  Proof. intros c t; unfold spec_store. rewrite tdedup_In, in_app_iff. reflexivity. Qed.

  Lemma fire_rows_spec : forall c e, Inv e -> Permutation (fst (snd (fire c e))) (spec_rows c).
  Proof.
    intros c e HI. rewrite fire_rows. unfold Spec.spec_rows. apply query_perm.
    apply NoDup_Permutation.
    - apply (proj1 (fire_Inv c e HI)).
    - apply tdedup_NoDup.
    - intros t. rewrite fire_store by assumption. symmetry; apply spec_store_In.
  Qed.

  Lemma run_rows_spec : forall h e, Inv e ->
    Forall2 (@Permutation row) (map fst (snd (run e h))) (map spec_rows h).
  Proof.
    induction h as [|c h IH]; intros e HI.
    - constructor.
    - rewrite run_cons; cbn [snd map]. constructor.
      + apply fire_rows_spec; assumption.
      + apply IH, fire_Inv; assumption.
  Qed.

  Theorem rows_exact : forall h,
    Forall2 (@Permutation row) (st_rows row row_eqb infer query norules op true h) (map spec_rows h).
  Proof. intros h; unfold st_rows, st_trace. apply run_rows_spec, Inv_init. Qed.

  (* ---- relation-to-stream ----------------------------------------------------------------------- *)
  Definition R2SInv (e : engine) (prev : list row) : Prop := op = RSTREAM \/ e_last _ e = dedup prev.

  Lemma fire_emit : forall c e prev, R2SInv e prev ->
    snd (snd (fire c e)) = spec_emit prev (fst (snd (fire c e))) /\
    R2SInv (fst (fire c e)) (fst (snd (fire c e))).
  Proof.
    intros c e prev HR. unfold Model.fire, r2s_eval, Spec.spec_emit, R2SInv in *.
    destruct op; cbn [fst snd e_last].
    - split; [reflexivity | left; reflexivity].
    - destruct HR as [HR|HR]; [discriminate|]. split; [|right; reflexivity].
      rewrite HR. apply filter_ext. intros r. f_equal. apply rmem_ext. intros x; apply dedup_In.
    - destruct HR as [HR|HR]; [discriminate|]. split; [|right; reflexivity].
      rewrite HR. reflexivity.
  Qed.

  Lemma run_emits : forall h e prev, R2SInv e prev ->
    map snd (snd (run e h)) = spec_emits prev (map fst (snd (run e h))).
  Proof.
    induction h as [|c h IH]; intros e prev HR; [reflexivity|].
    rewrite run_cons; cbn [snd map Spec.spec_emits].
    destruct (fire_emit c e prev HR) as [H1 H2]. rewrite H1. f_equal. apply IH; assumption.
  Qed.

  Theorem r2s_exact : forall h,
    st_emits row row_eqb infer query norules op true h =
    spec_emits [] (st_rows row row_eqb infer query norules op true h).
  Proof.
    intros h; unfold st_emits, st_rows, st_trace. apply run_emits. right; reflexivity.
  Qed.

  (* what the three operators emit, in terms of sets of rows *)
  Lemma spec_emit_R : op = RSTREAM -> forall prev rows, spec_emit prev rows = rows.
  Proof. intros H prev rows; unfold Spec.spec_emit; rewrite H; reflexivity. Qed.

  Lemma spec_emit_I : op = ISTREAM -> forall prev rows,
    spec_emit prev rows = filter (fun r => negb (rmem r prev)) rows /\
    forall r, In r (spec_emit prev rows) <-> In r rows /\ ~ In r prev.
  Proof.
    intros H prev rows; unfold Spec.spec_emit; rewrite H. split; [reflexivity|].
    intros r. rewrite filter_In, negb_true_iff. split; intros [H1 H2]; split; auto.
    - intros Hi; apply rmem_In in Hi; congruence.
    - destruct (rmem r prev) eqn:E; auto. apply rmem_In in E; contradiction.
  Qed.

  Lemma spec_emit_D : op = DSTREAM -> forall prev rows,
    NoDup (spec_emit prev rows) /\
    forall r, In r (spec_emit prev rows) <-> In r prev /\ ~ In r rows.
  Proof.
    intros H prev rows; unfold Spec.spec_emit; rewrite H. split.
    - apply NoDup_filter, dedup_NoDup.
    - intros r. rewrite filter_In, negb_true_iff, dedup_In. split; intros [H1 H2]; split; auto.
      + intros Hi; apply rmem_In in Hi; congruence.
      + destruct (rmem r rows) eqn:E; auto. apply rmem_In in E; contradiction.
  Qed.

  (* the operators respect multiset equality of their inputs *)
  Lemma perm_In_iff : forall (l l' : list row), Permutation l l' -> forall x, In x l <-> In x l'.
  Proof. intros l l' H x; split; intros Hx; [eapply Permutation_in; eauto | eapply Permutation_in; [apply Permutation_sym|]; eauto]. Qed.

  Lemma spec_emit_perm : forall prev prev' rows rows',
    Permutation prev prev' -> Permutation rows rows' ->
    Permutation (spec_emit prev rows) (spec_emit prev' rows').
  Proof.
    intros prev prev' rows rows' Hp Hr. unfold Spec.spec_emit. destruct op.
    - assumption.
    - rewrite (filter_ext (fun r => negb (rmem r prev)) (fun r => negb (rmem r prev'))).
      + apply Permutation_filter_c; assumption.
      + intros r; f_equal; apply rmem_ext, perm_In_iff; assumption.
    - rewrite (filter_ext (fun r => negb (rmem r rows)) (fun r => negb (rmem r rows'))).
      + apply Permutation_filter_c. apply NoDup_Permutation; try apply dedup_NoDup.
        intros x; rewrite !dedup_In. apply perm_In_iff; assumption.
      + intros r; f_equal; apply rmem_ext, perm_In_iff; assumption.
  Qed.

  Lemma spec_emits_perm : forall rs rs' prev prev',
    Permutation prev prev' -> Forall2 (@Permutation row) rs rs' ->
    Forall2 (@Permutation row) (spec_emits prev rs) (spec_emits prev' rs').
  Proof.
    induction rs as [|r rs IH]; intros rs' prev prev' Hp HF; inversion HF; subst; simpl.
    - constructor.
    - constructor; [apply spec_emit_perm; assumption | apply IH; assumption].
  Qed.

  (* end to end: the emission sequence is the specification's, firing by firing, up to the order of
     the rows inside one firing *)
  Theorem emits_exact : forall h,
    Forall2 (@Permutation row) (st_emits row row_eqb infer query norules op true h)
            (spec_run row row_eqb infer query norules op h).
  Proof.
    intros h. rewrite r2s_exact. unfold spec_run.
    apply spec_emits_perm; [apply Permutation_refl | apply rows_exact].
  Qed.
End PipelineProofs.
