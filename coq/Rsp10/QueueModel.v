(* C10 - the multi-thread pipeline over an ABSTRACT hand-off queue.
   Model.mt_step hard-wires the queue of register_window!(MultiThread) / CSPARQLWindow::register as an unbounded
   list (std::sync::mpsc::channel: `send` never fails while the receiver lives, `recv` returns the oldest
   message).  Here the queue is a parameter (type, push, pop), so that the queue discipline the scheduling theorem
   relies on can be stated as laws (QueueProofs.v), and a queue that violates them can be plugged in:
   `lossy_push cap` is `sync_channel(cap)` + `try_send` (a full queue drops the content).  No proofs in this file. *)
Require Import List NArith Bool.
Require Import KV.Rsp10.Model.
Import ListNotations.

Section QueuePipeline.
  Variable row : Type.
  Variable row_eqb : row -> row -> bool.
  Variable infer : list triple -> list triple.
  Variable query : list triple -> list row.
  Variable norules : bool.
  Variable op : sop.
  Variable fixed : bool.
  (* the hand-off queue *)
  Variable Q : Type.
  Variable qempty : Q.
  Variable qpush : list triple -> Q -> Q.                    (* the producer's send *)
  Variable qpop : Q -> option (list triple * Q).             (* the worker's recv: None = nothing to receive *)

  Record qmt := mkQmt {
    q_pending : list (list triple);
    q_queue : Q;
    q_worker : engine row;
    q_out : list (list row)
  }.

  Definition qmt_init (inputs : list (list triple)) : qmt := mkQmt inputs qempty (engine_init row) [].

  Definition qmt_step (m : qmt) (a : act) : qmt :=
    match a with
    | Push =>
        match q_pending m with
        | [] => m
        | c :: p => mkQmt p (qpush c (q_queue m)) (q_worker m) (q_out m)
        end
    | Pop =>
        match qpop (q_queue m) with
        | None => m
        | Some (c, q) =>
            let '(e', (_, o)) := fire row row_eqb infer query norules op fixed c (q_worker m) in
            mkQmt (q_pending m) q e' (q_out m ++ [o])
        end
    end.

  Definition qmt_run (inputs : list (list triple)) (sched : list act) : qmt :=
    fold_left qmt_step sched (qmt_init inputs).
End QueuePipeline.

(* two concrete queues over lists *)
Definition fifo_push (c : list triple) (q : list (list triple)) : list (list triple) := q ++ [c].
Definition fifo_pop (q : list (list triple)) : option (list triple * list (list triple)) :=
  match q with [] => None | c :: q' => Some (c, q') end.
(* sync_channel(cap) + try_send: a full queue silently drops what is sent *)
Definition lossy_push (cap : nat) (c : list triple) (q : list (list triple)) : list (list triple) :=
  if Nat.ltb (length q) cap then q ++ [c] else q.
