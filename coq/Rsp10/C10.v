(* C10 - Each firing of a continuous query sees exactly the current window, nothing older.
   Only the property theorems; each is closed by `exact <lemma>` and followed by Print Assumptions.

   The pipeline model (Model.v) is parametric in the reasoner `infer` (the NEW facts the rules derive from a
   set of stored triples) and the plan executor `query`; the theorems hold for every reasoner whose result
   depends only on the SET of stored triples and every executor that is a function of the stored triples
   (invariant under permutation of the duplicate-free store).  `true` selects the code's `SimpleR2R::add`
   (after fix 5fcd651); `false` the earlier one, kept for the refutation witness. *)
Require Import List NArith Bool Permutation.
Require Import KV.Rsp10.Model KV.Rsp10.Eval KV.Rsp10.Spec KV.Rsp10.Run.
Require Import KV.Rsp10.StoreProofs KV.Rsp10.PipelineProofs KV.Rsp10.SchedProofs KV.Rsp10.EvalProofs.
Require Import KV.Rsp10.QueueModel KV.Rsp10.QueueProofs.
Import ListNotations.
Local Open Scope N_scope.

Definition infer_respects_sets (infer : list triple -> list triple) : Prop :=
  forall S S', (forall t, In t S <-> In t S') -> forall t, In t (infer S) <-> In t (infer S').
Definition query_respects_perm {row} (query : list triple -> list row) : Prop :=
  forall S S', Permutation S S' -> Permutation (query S) (query S').

(* After the last firing of EVERY firing history h ++ [c] (any contents before, in any overlap pattern) the
   store is duplicate-free and holds exactly the triples of the current content c and the facts the rules
   derive from c: no triple of an evicted item, no fact derived in an earlier firing.  Unconditional. *)
Theorem C10_store_exact :
  forall (row : Type) (row_eqb : row -> row -> bool) (infer : list triple -> list triple)
         (query : list triple -> list row) (norules : bool) (op : sop),
    infer_respects_sets infer ->
    forall (h : list (list triple)) (c : list triple),
      let e := fst (run row row_eqb infer query norules op true (engine_init row) (h ++ [c])) in
      NoDup (store (e_r2r row e)) /\
      forall t, In t (store (e_r2r row e)) <-> In t c \/ In t (if norules then [] else infer c).
Proof. exact store_exact. Qed.
Print Assumptions C10_store_exact.

(* Hence the rows of every firing are the answers over exactly that firing's content plus its consequences
   (Spec.spec_rows is a function of that one content), as multisets. *)
Theorem C10_rows_exact :
  forall (row : Type) (row_eqb : row -> row -> bool) (infer : list triple -> list triple)
         (query : list triple -> list row) (norules : bool) (op : sop),
    infer_respects_sets infer -> query_respects_perm query ->
    forall h : list (list triple),
      Forall2 (@Permutation row) (st_rows row row_eqb infer query norules op true h)
              (map (spec_rows row infer query norules) h).
Proof. exact rows_exact. Qed.
Print Assumptions C10_rows_exact.

(* The stream operator: the k-th emission is spec_emit (rows of firing k-1) (rows of firing k), with no rows
   before the first firing; RSTREAM emits the rows, ISTREAM the rows that are not among the previous rows,
   DSTREAM the previous rows (each once) that are not among the current rows. *)
Theorem C10_r2s :
  forall (row : Type) (row_eqb : row -> row -> bool),
    (forall a b, row_eqb a b = true <-> a = b) ->
    forall (infer : list triple -> list triple) (query : list triple -> list row) (norules : bool) (op : sop),
      (forall h : list (list triple),
         st_emits row row_eqb infer query norules op true h =
         spec_emits row row_eqb op [] (st_rows row row_eqb infer query norules op true h)) /\
      (op = RSTREAM -> forall prev rows, spec_emit row row_eqb op prev rows = rows) /\
      (op = ISTREAM -> forall prev rows,
         spec_emit row row_eqb op prev rows = filter (fun r => negb (rmem row row_eqb r prev)) rows /\
         forall r, In r (spec_emit row row_eqb op prev rows) <-> In r rows /\ ~ In r prev) /\
      (op = DSTREAM -> forall prev rows,
         NoDup (spec_emit row row_eqb op prev rows) /\
         forall r, In r (spec_emit row row_eqb op prev rows) <-> In r prev /\ ~ In r rows).
Proof.
  intros row row_eqb Heq infer query norules op.
  exact (conj (r2s_exact row row_eqb Heq infer query norules op)
        (conj (spec_emit_R row row_eqb op)
        (conj (spec_emit_I row row_eqb Heq op) (spec_emit_D row row_eqb Heq op)))).
Qed.
Print Assumptions C10_r2s.

(* End to end, for every firing history: the emission sequence of the pipeline is the specification's
   (Spec.spec_run: per-content answers passed through the stream operator), firing by firing, up to the
   order of the rows inside one firing. *)
Theorem C10_emits :
  forall (row : Type) (row_eqb : row -> row -> bool),
    (forall a b, row_eqb a b = true <-> a = b) ->
    forall (infer : list triple -> list triple) (query : list triple -> list row) (norules : bool) (op : sop),
      infer_respects_sets infer -> query_respects_perm query ->
      forall h : list (list triple),
        Forall2 (@Permutation row) (st_emits row row_eqb infer query norules op true h)
                (spec_run row row_eqb infer query norules op h).
Proof. exact emits_exact. Qed.
Print Assumptions C10_emits.

(* Multi-thread mode as a transition system (producer -> FIFO channel -> worker): under EVERY interleaving of
   sends and receives the emissions so far are a prefix of the single-thread emission sequence; they are the
   whole sequence once nothing is pending or queued; and every schedule can be completed to such a state.
   PARTIAL with respect to the property text ("under every thread schedule" of the real threads): that
   std::sync::mpsc is FIFO, that the detached worker is scheduled and that the store's mutex serialises
   firings are runtime facts outside the model; they are exercised by the hook-perturbed runs. *)
Theorem C10_sched_partial :
  forall (row : Type) (row_eqb : row -> row -> bool) (infer : list triple -> list triple)
         (query : list triple -> list row) (norules : bool) (op : sop) (fixed : bool)
         (inputs : list (list triple)) (sched : list act),
    let m := mt_run row row_eqb infer query norules op fixed inputs sched in
    (exists rest, st_emits row row_eqb infer query norules op fixed inputs = m_out row m ++ rest /\
                  (m_pending row m = [] -> m_queue row m = [] -> rest = [])) /\
    m_out row (mt_run row row_eqb infer query norules op fixed inputs
                      (sched ++ repeat Push (length inputs) ++ repeat Pop (length inputs)))
    = st_emits row row_eqb infer query norules op fixed inputs.
Proof.
  intros row row_eqb infer query norules op fixed inputs sched.
  exact (conj (sched_prefix row row_eqb infer query norules op fixed inputs sched)
              (sched_completion row row_eqb infer query norules op fixed inputs sched)).
Qed.
Print Assumptions C10_sched_partial.

(* The instances the correspondence check executes (Run.model_run / Run.spec_run_c) satisfy the hypotheses:
   for every rule set, window block, stream operator and firing history the executed model emits what the
   executed specification emits. *)
Theorem C10_executed_model :
  forall (rules : list rule) (pats : list pat) (op : sop) (h : list (list triple)),
    Forall2 (@Permutation binding) (model_run rules pats op h) (spec_run_c rules pats op h).
Proof.
  intros rules pats op h. unfold model_run, spec_run_c.
  exact (emits_exact binding binding_eqb binding_eqb_eq (infer_c FUEL rules) (eval_bgp pats) (norules_of rules) op
                     (infer_c_set FUEL rules) (eval_bgp_perm pats) h).
Qed.
Print Assumptions C10_executed_model.

(* The defect repaired by fix 5fcd651, on the model of the earlier `add` (fixed := false): rule
   ?x 11 ?y => ?x 12 3; content 1 = {(1,11,2)}, content 2 = {(1,12,3)} - a raw triple that the previous firing
   only derived.  The raw triple is not in the store after the second firing, and the firing has no row. *)
Definition witness_rules : list rule := [mkRule [(V 0, C 11, V 1)] (V 0, C 12, C 3)].
Definition witness_pats : list pat := [(V 0, C 12, V 1)].
Definition witness_history : list (list triple) := [[(1, 11, 2)]; [(1, 12, 3)]].

(* The queue discipline is the ONLY assumption of the scheduling theorem about the hand-off between producer and
   worker: for ANY queue implementation (type Q, push, pop) that is lossless and first-in-first-out - stated as laws
   about an abstraction qabs of the queue as the list of contents in flight - every interleaving of sends and
   receives emits a prefix of the single-thread sequence, and all of it once nothing is pending or in flight.
   C10_sched_partial is the instance Q = list, push = append at the back, pop = take the head (an unbounded
   std::sync::mpsc::channel). *)
Theorem C10_sched_queue_laws :
  forall (row : Type) (row_eqb : row -> row -> bool) (infer : list triple -> list triple)
         (query : list triple -> list row) (norules : bool) (op : sop) (fixed : bool)
         (Q : Type) (qempty : Q) (qpush : list triple -> Q -> Q) (qpop : Q -> option (list triple * Q))
         (qabs : Q -> list (list triple)),
    qabs qempty = [] ->
    (forall c q, qabs (qpush c q) = qabs q ++ [c]) ->
    (forall q c q', qpop q = Some (c, q') -> qabs q = c :: qabs q') ->
    forall (inputs : list (list triple)) (sched : list act),
      let m := qmt_run row row_eqb infer query norules op fixed Q qempty qpush qpop inputs sched in
      exists rest, st_emits row row_eqb infer query norules op fixed inputs = q_out row Q m ++ rest /\
                   (q_pending row Q m = [] -> qabs (q_queue row Q m) = [] -> rest = []).
Proof. exact queue_laws_suffice. Qed.
Print Assumptions C10_sched_queue_laws.

(* A bounded queue that drops on overflow (sync_channel(cap) + try_send - seeded change 3) violates the push law,
   and the conclusion fails: capacity 1, three window contents, the producer sends all three before the worker
   receives anything; the queue is drained, yet only the first firing was emitted. *)
Theorem C10_lossy_queue_refuted :
  let inputs := [[(1, 12, 3)]; [(2, 12, 3)]; [(4, 12, 3)]] in
  let sched := [Push; Push; Push; Pop; Pop; Pop] in
  let m := qmt_run binding binding_eqb (infer_c FUEL []) (eval_bgp witness_pats) true RSTREAM true
                   (list (list triple)) [] (lossy_push 1) fifo_pop inputs sched in
  q_pending _ _ m = [] /\ q_queue _ _ m = [] /\
  q_out _ _ m = [[[(0, 1); (1, 3)]]] /\
  st_emits binding binding_eqb (infer_c FUEL []) (eval_bgp witness_pats) true RSTREAM true inputs
    = [[[(0, 1); (1, 3)]]; [[(0, 2); (1, 3)]]; [[(0, 4); (1, 3)]]] /\
  (exists c q, lossy_push 1 c q <> q ++ [c]).
Proof.
  vm_compute. repeat split. exists [(2, 12, 3)], [[(1, 12, 3)]]. vm_compute. discriminate.
Qed.
Print Assumptions C10_lossy_queue_refuted.

Theorem C10_rederive_refuted_before_fix :
  let e := fst (run binding binding_eqb (infer_c FUEL witness_rules) (eval_bgp witness_pats) false RSTREAM false
                    (engine_init binding) witness_history) in
  ~ In (1, 12, 3) (store (e_r2r binding e)) /\
  model_run_unfixed witness_rules witness_pats RSTREAM witness_history = [[[(0, 1); (1, 3)]]; []] /\
  model_run witness_rules witness_pats RSTREAM witness_history = [[[(0, 1); (1, 3)]]; [[(0, 1); (1, 3)]]].
Proof.
  split; [|split]; [|vm_compute; reflexivity|vm_compute; reflexivity].
  vm_compute. intros H; exact H.
Qed.
Print Assumptions C10_rederive_refuted_before_fix.

(* non-vacuity: a history with overlap, eviction, re-derivation and all three operators *)
Example C10_example :
  let h := [[(1, 11, 2); (2, 11, 2)]; [(2, 11, 2); (1, 12, 3)]; [(3, 11, 1)]] in
  model_run witness_rules witness_pats RSTREAM h =
    [[[(0, 1); (1, 3)]; [(0, 2); (1, 3)]]; [[(0, 1); (1, 3)]; [(0, 2); (1, 3)]]; [[(0, 3); (1, 3)]]] /\
  model_run witness_rules witness_pats ISTREAM h =
    [[[(0, 1); (1, 3)]; [(0, 2); (1, 3)]]; []; [[(0, 3); (1, 3)]]] /\
  model_run witness_rules witness_pats DSTREAM h =
    [[]; []; [[(0, 1); (1, 3)]; [(0, 2); (1, 3)]]].
Proof. vm_compute. repeat split. Qed.

Example C10_sched_example :
  let h := [[(1, 11, 2)]; [(1, 12, 3)]; [(2, 11, 2)]] in
  fst (model_mt witness_rules witness_pats RSTREAM h [false; true; true; false; true; false; false])
  = model_run witness_rules witness_pats RSTREAM h.
Proof. vm_compute. reflexivity. Qed.
