(* C10 - executable model of the single-window continuous-query pipeline of Kolibrie's RSP engine.

   Rust anchors (model the code that exists, HEAD incl. fix 5fcd651):
     kolibrie/src/rsp/simple_r2r.rs   SimpleR2R::{add, remove, materialize, execute_query}
     kolibrie/src/rsp_engine.rs       create_window_processor! (prev_window_triples), register_window!
     kolibrie/src/rsp/r2s.rs          Relation2StreamOperator::eval

   The store (`SparqlDatabase` behind `add_triple`/`delete_triple`) is a set of triples: a duplicate-free
   list; `add_triple` is idempotent (property C04 is about the store itself and is not re-modelled).
   `infer` (the reasoner: facts the rules derive that are not in the store) and `query` (plan execution)
   are parameters of the pipeline; Eval.v gives executable instances for the generated shapes.
   No proofs in this file. *)
Require Import List NArith Bool.
Import ListNotations.
Local Open Scope N_scope.

Definition triple := (N * N * N)%type.

Definition teqb (a b : triple) : bool :=
  match a, b with
  | (s1, p1, o1), (s2, p2, o2) => (s1 =? s2) && (p1 =? p2) && (o1 =? o2)
  end.

Definition tmem (t : triple) (S : list triple) : bool := existsb (teqb t) S.

Fixpoint tdedup (l : list triple) : list triple :=
  match l with
  | [] => []
  | x :: l' => if tmem x l' then tdedup l' else x :: tdedup l'
  end.

(* SparqlDatabase::add_triple / delete_triple on the default graph *)
Definition add_triple (t : triple) (S : list triple) : list triple :=
  if tmem t S then S else S ++ [t].
Definition del_triple (t : triple) (S : list triple) : list triple :=
  filter (fun u => negb (teqb t u)) S.

(* SimpleR2R: `item` (the store) and `derived_triples` *)
Record r2r := mkR2R { store : list triple; derived : list triple }.

Definition r2r_init : r2r := mkR2R [] [].

(* fn add: a triple that the previous cycle only derived is raw content now (fix 5fcd651):
     if !self.derived_triples.is_empty() { self.derived_triples.retain(|d| d != &data); }
     self.item.add_triple(data); *)
Definition r2r_add (t : triple) (r : r2r) : r2r :=
  mkR2R (add_triple t (store r))
        (match derived r with
         | [] => []
         | d => filter (fun u => negb (teqb t u)) d
         end).

(* the code before fix 5fcd651 (kept only for the refutation witness / mutation documentation) *)
Definition r2r_add_unfixed (t : triple) (r : r2r) : r2r :=
  mkR2R (add_triple t (store r)) (derived r).

(* fn remove *)
Definition r2r_remove (t : triple) (r : r2r) : r2r :=
  mkR2R (del_triple t (store r)) (derived r).

Inductive sop := RSTREAM | ISTREAM | DSTREAM.

Section Pipeline.
  Variable row : Type.
  Variable row_eqb : row -> row -> bool.
  (* reasoner.infer_new_facts_semi_naive() on a copy of the store: the new facts only *)
  Variable infer : list triple -> list triple.
  (* ExecutionEngine::execute(plan, store) *)
  Variable query : list triple -> list row.
  (* self.rules.is_empty() *)
  Variable norules : bool.
  Variable op : sop.
  (* which `add` the processor calls: the code's (true) or the pre-fix one (false) *)
  Variable fixed : bool.

  Definition rmem (r : row) (l : list row) : bool := existsb (row_eqb r) l.

  (* collecting into a HashSet: first occurrences *)
  Fixpoint dedup (l : list row) : list row :=
    match l with
    | [] => []
    | x :: l' => if rmem x l' then dedup l' else x :: dedup l'
    end.

  (* fn materialize: evict last cycle's derived triples; stop if there are no rules; otherwise add the
     newly inferred facts and remember them *)
  Definition materialize (r : r2r) : r2r :=
    let s1 := fold_left (fun s t => del_triple t s) (derived r) (store r) in
    if norules then mkR2R s1 []
    else
      let new := infer s1 in
      mkR2R (fold_left (fun s t => add_triple t s) new s1) new.

  (* Relation2StreamOperator::eval (the timestamp argument is unused by the code) : (emitted, last_result') *)
  Definition r2s_eval (rows last : list row) : list row * list row :=
    match op with
    | RSTREAM => (rows, last)
    | ISTREAM => (filter (fun r => negb (rmem r last)) rows, dedup rows)
    | DSTREAM => (filter (fun r => negb (rmem r rows)) last, dedup rows)
    end.

  (* state of one window's pipeline: the R2R operator, the processor's `prev_window_triples`,
     the R2S operator's `last_result` *)
  Record engine := mkEngine { e_r2r : r2r; e_prev : list triple; e_last : list row }.

  Definition engine_init : engine := mkEngine r2r_init [] [].

  (* one firing = one call of the closure built by create_window_processor! (no joins, no cross-window):
     evict the previous content, load the current one, materialise, query, R2S.
     Result: new state, the rows of this firing, the emitted rows. *)
  Definition fire (content : list triple) (e : engine) : engine * (list row * list row) :=
    let r1 := fold_left (fun r t => r2r_remove t r) (e_prev e) (e_r2r e) in
    let r2 := fold_left (fun r t => if fixed then r2r_add t r else r2r_add_unfixed t r) content r1 in
    let r3 := materialize r2 in
    let rows := query (store r3) in
    let '(out, last') := r2s_eval rows (e_last e) in
    (mkEngine r3 content last', (rows, out)).

  (* SingleThread mode: the window calls the processor synchronously, firing after firing *)
  Fixpoint run (e : engine) (h : list (list triple)) : engine * list (list row * list row) :=
    match h with
    | [] => (e, [])
    | c :: h' =>
        let '(e1, o) := fire c e in
        let '(e2, os) := run e1 h' in
        (e2, o :: os)
    end.

  Definition st_trace (h : list (list triple)) : list (list row * list row) := snd (run engine_init h).
  Definition st_emits (h : list (list triple)) : list (list row) := map snd (st_trace h).
  Definition st_rows (h : list (list triple)) : list (list row) := map fst (st_trace h).

  (* MultiThread mode as a transition system: the producer (the caller's thread, inside add_to_window)
     sends the next content into the channel; the detached worker receives the oldest content and runs
     the processor.  An action that is not enabled leaves the state unchanged (the worker blocks in recv). *)
  Inductive act := Push | Pop.

  Record mt := mkMt {
    m_pending : list (list triple);      (* contents the window has not produced yet *)
    m_queue : list (list triple);        (* the mpsc channel *)
    m_worker : engine;                   (* state owned by the worker's processor closure *)
    m_out : list (list row)              (* emissions so far, in order *)
  }.

  Definition mt_init (inputs : list (list triple)) : mt := mkMt inputs [] engine_init [].

  Definition mt_step (m : mt) (a : act) : mt :=
    match a with
    | Push =>
        match m_pending m with
        | [] => m
        | c :: p => mkMt p (m_queue m ++ [c]) (m_worker m) (m_out m)
        end
    | Pop =>
        match m_queue m with
        | [] => m
        | c :: q =>
            let '(e', (_, o)) := fire c (m_worker m) in
            mkMt (m_pending m) q e' (m_out m ++ [o])
        end
    end.

  Definition mt_run (inputs : list (list triple)) (sched : list act) : mt :=
    fold_left mt_step sched (mt_init inputs).
End Pipeline.
