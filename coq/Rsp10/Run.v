(* Entry points of the correspondence check for C10: the model pipeline, the specification and the
   multi-thread transition system, instantiated with the executable evaluators of Eval.v. *)
Require Import List NArith Bool.
Require Import KV.Rsp10.Model KV.Rsp10.Eval KV.Rsp10.Spec.
Import ListNotations.

Definition FUEL : nat := 200%nat.

Definition norules_of (rules : list rule) : bool := match rules with [] => true | _ => false end.

(* emissions of the single-thread pipeline, one list of rows per firing *)
Definition model_run (rules : list rule) (pats : list pat) (op : sop) (h : list (list triple)) : list (list binding) :=
  st_emits binding binding_eqb (infer_c FUEL rules) (eval_bgp pats) (norules_of rules) op true h.

(* the same with the pre-fix `add` (documents what reverting fix 5fcd651 does) *)
Definition model_run_unfixed (rules : list rule) (pats : list pat) (op : sop) (h : list (list triple)) : list (list binding) :=
  st_emits binding binding_eqb (infer_c FUEL rules) (eval_bgp pats) (norules_of rules) op false h.

(* the specification's emissions *)
Definition spec_run_c (rules : list rule) (pats : list pat) (op : sop) (h : list (list triple)) : list (list binding) :=
  spec_run binding binding_eqb (infer_c FUEL rules) (eval_bgp pats) (norules_of rules) op h.

(* the fuel of infer_c was sufficient on every content of the history *)
Definition closed_all (rules : list rule) (h : list (list triple)) : bool :=
  forallb (fun c => closedb rules (c ++ infer_c FUEL rules c)) h.

(* the multi-thread transition system under a given schedule (true = Push, false = Pop):
   (emissions, pending contents, queued contents) *)
Definition model_mt (rules : list rule) (pats : list pat) (op : sop) (h : list (list triple)) (sched : list bool)
  : list (list binding) * (N * N) :=
  let m := mt_run binding binding_eqb (infer_c FUEL rules) (eval_bgp pats) (norules_of rules) op true h
                  (map (fun b : bool => if b then Push else Pop) sched) in
  (m_out _ m, (N.of_nat (length (m_pending _ m)), N.of_nat (length (m_queue _ m)))).

Definition check_case (rules : list rule) (pats : list pat) (op : sop) (h : list (list triple)) (sched : list bool) :=
  (model_run rules pats op h, spec_run_c rules pats op h, closed_all rules h, model_mt rules pats op h sched).
