(* C10 - the multi-thread pipeline (producer -> FIFO channel -> worker) emits, under every interleaving of
   sends and receives, a prefix of the single-thread emission sequence, and exactly that sequence once the
   channel is drained.  Nothing is assumed about the reasoner, the plan executor or the stream operator. *)
Require Import List NArith Bool Lia.
Require Import KV.Rsp10.Model.
Import ListNotations.

Section Sched.
  Variable row : Type.
  Variable row_eqb : row -> row -> bool.
  Variable infer : list triple -> list triple.
  Variable query : list triple -> list row.
  Variable norules : bool.
  Variable op : sop.
  Variable fixed : bool.

  Notation engine := (engine row).
  Notation fire := (fire row row_eqb infer query norules op fixed).
  Notation run := (run row row_eqb infer query norules op fixed).
  Notation mt := (mt row).
  Notation mt_step := (mt_step row row_eqb infer query norules op fixed).
  Notation mt_run := (mt_run row row_eqb infer query norules op fixed).
  Notation st_emits := (st_emits row row_eqb infer query norules op fixed).

  Definition emits_from (e : engine) (h : list (list triple)) : list (list row) := map snd (snd (run e h)).

  Lemma emits_from_cons : forall e c h,
    emits_from e (c :: h) = snd (snd (fire c e)) :: emits_from (fst (fire c e)) h.
  Proof.
    intros e c h; unfold emits_from; simpl.
    destruct (fire c e) as [e1 o]; simpl. destruct (run e1 h); reflexivity.
  Qed.

  (* what is still to be emitted is determined by the worker's state and the contents in flight *)
  Definition SInv (inputs : list (list triple)) (m : mt) : Prop :=
    st_emits inputs = m_out _ m ++ emits_from (m_worker _ m) (m_queue _ m ++ m_pending _ m).

  Lemma SInv_init : forall inputs, SInv inputs (mt_init row inputs).
  Proof. intros inputs; unfold SInv; reflexivity. Qed.

  Lemma SInv_step : forall inputs m a, SInv inputs m -> SInv inputs (mt_step m a).
  Proof.
    intros inputs m a H; unfold SInv in *. destruct a; unfold Model.mt_step.
    - destruct (m_pending _ m) as [|c p] eqn:E; [rewrite E; assumption|].
      cbn [m_out m_worker m_queue m_pending]. rewrite H, <- app_assoc. reflexivity.
    - destruct (m_queue _ m) as [|c q] eqn:E; [rewrite E; assumption|].
      rewrite H. rewrite <- app_comm_cons, emits_from_cons.
      destruct (fire c (m_worker _ m)) as [e' [rw o]]; cbn [fst snd m_out m_worker m_queue m_pending].
      rewrite <- app_assoc. reflexivity.
  Qed.

  Lemma SInv_run : forall sched inputs m, SInv inputs m -> SInv inputs (fold_left mt_step sched m).
  Proof. induction sched as [|a s IH]; intros inputs m H; simpl; [assumption | apply IH, SInv_step; assumption]. Qed.

  Theorem sched_prefix : forall (inputs : list (list triple)) (sched : list act),
    let m := mt_run inputs sched in
    exists rest, st_emits inputs = m_out _ m ++ rest /\
                 (m_pending _ m = [] -> m_queue _ m = [] -> rest = []).
  Proof.
    intros inputs sched m. pose proof (SInv_run sched inputs _ (SInv_init inputs)) as H.
    fold (mt_run inputs sched) in H. fold m in H. unfold SInv in H.
    eexists; split; [exact H|]. intros Hp Hq; rewrite Hp, Hq; reflexivity.
  Qed.

  Corollary sched_drained : forall inputs sched,
    let m := mt_run inputs sched in
    m_pending _ m = [] -> m_queue _ m = [] -> m_out _ m = st_emits inputs.
  Proof.
    intros inputs sched m Hp Hq. destruct (sched_prefix inputs sched) as [rest [H1 H2]].
    fold m in H1, H2. rewrite H1, (H2 Hp Hq), app_nil_r. reflexivity.
  Qed.

  (* every schedule can be continued to a drained state: let the producer finish, then let the worker
     receive as many contents as were sent *)
  Lemma push_all : forall n m, (length (m_pending _ m) <= n)%nat ->
    let m' := fold_left mt_step (repeat Push n) m in
    m_pending _ m' = [] /\ m_queue _ m' = m_queue _ m ++ m_pending _ m.
  Proof.
    induction n as [|n IH]; intros m Hl.
    - simpl. destruct (m_pending _ m); [rewrite app_nil_r; auto | simpl in Hl; lia].
    - cbn [repeat fold_left].
      assert (Hs : mt_step m Push = match m_pending _ m with
                                    | [] => m
                                    | c :: p => mkMt row p (m_queue _ m ++ [c]) (m_worker _ m) (m_out _ m)
                                    end) by reflexivity.
      rewrite Hs; clear Hs. destruct (m_pending _ m) as [|c p] eqn:E.
      + destruct (IH m) as [H1 H2]; [rewrite E; simpl; lia|]. rewrite E in H2. auto.
      + destruct (IH (mkMt row p (m_queue _ m ++ [c]) (m_worker _ m) (m_out _ m))) as [H1 H2];
          [cbn [m_pending]; simpl in Hl; lia|].
        cbn [m_pending m_queue] in H2. rewrite <- app_assoc in H2. auto.
  Qed.

  Lemma pop_all : forall n m, m_pending _ m = [] -> (length (m_queue _ m) <= n)%nat ->
    let m' := fold_left mt_step (repeat Pop n) m in
    m_pending _ m' = [] /\ m_queue _ m' = [].
  Proof.
    induction n as [|n IH]; intros m Hp Hl.
    - simpl. destruct (m_queue _ m); [auto | simpl in Hl; lia].
    - cbn [repeat fold_left].
      assert (Hs : mt_step m Pop = match m_queue _ m with
                                   | [] => m
                                   | c :: q => let '(e', (_, o)) := fire c (m_worker _ m) in
                                               mkMt row (m_pending _ m) q e' (m_out _ m ++ [o])
                                   end) by reflexivity.
      rewrite Hs; clear Hs. destruct (m_queue _ m) as [|c q] eqn:E.
      + apply IH; [assumption | rewrite E; simpl; lia].
      + destruct (fire c (m_worker _ m)) as [e' [rw o]]. apply IH; cbn [m_pending m_queue]; [assumption | simpl in Hl; lia].
  Qed.

  Lemma pending_queue_bound : forall sched inputs,
    let m := mt_run inputs sched in
    (length (m_pending _ m) + length (m_queue _ m) <= length inputs)%nat.
  Proof.
    intros sched inputs. unfold Model.mt_run.
    assert (G : forall s m, (length (m_pending _ m) + length (m_queue _ m) <= length inputs)%nat ->
                (length (m_pending _ (fold_left mt_step s m)) + length (m_queue _ (fold_left mt_step s m)) <= length inputs)%nat).
    { induction s as [|a s IH]; intros m H; simpl; [assumption|]. apply IH.
      destruct a; unfold Model.mt_step.
      - destruct (m_pending _ m) as [|c p] eqn:E; [rewrite E; assumption|].
        cbn [m_pending m_queue]. rewrite app_length; simpl in *; lia.
      - destruct (m_queue _ m) as [|c q] eqn:E; [rewrite E; assumption|].
        destruct (fire c (m_worker _ m)) as [e' [rw o]]. cbn [m_pending m_queue]. simpl in *; lia. }
    apply G. simpl; lia.
  Qed.

  Theorem sched_completion : forall inputs sched,
    let n := length inputs in
    m_out _ (mt_run inputs (sched ++ repeat Push n ++ repeat Pop n)) = st_emits inputs.
  Proof.
    intros inputs sched n.
    apply sched_drained; unfold Model.mt_run; rewrite !fold_left_app;
      fold (mt_run inputs sched);
      pose proof (pending_queue_bound sched inputs) as Hb; cbv zeta in Hb;
      destruct (push_all n (mt_run inputs sched)) as [H1 H2]; try (subst n; lia);
      cbv zeta in H1, H2;
      destruct (pop_all n (fold_left mt_step (repeat Push n) (mt_run inputs sched))) as [H3 H4];
        try assumption; try (rewrite H2, app_length; subst n; lia).
  Qed.
End Sched.
