(* Syntax of the programs the provenance materialisation runs on, and the (abstracted) join.

   facts      : Triple {subject, predicate, object} of dictionary ids (u32 modelled as unbounded N)
   terms      : Term::Variable(name) | Term::Constant(id)      (variable names are numbers, rendered "X<n>")
   rules      : shared::rule::Rule with premise / conclusion (positive part; filters are not modelled,
                negative_premise is handled by Negation.v)
   solutions  : what ProvenanceSemiNaiveStrategy::find_premise_solutions_with_triples returns for one rule:
                for every premise index i, premise i joined against the delta and the other premises
                against all facts; every binding is turned into (matched premise triples, instantiated
                conclusions); duplicates (same binding, hence same matched triples) are dropped by
                `seen_derivations`.

   ABSTRACTION (trusted base, see notes/C06.md): the bucketed string-binding hash join of
   shared/src/join_algorithm.rs (perform_hash_join_for_rules) is replaced by a nested-loop matcher
   that returns the same set of bindings; that the real join computes exactly this set is property
   C05's theorem (join_bucketed_eq_nested), not re-proved here.  The order in which solutions are
   produced differs from the real code; the final tags do not depend on it (they are a least fixpoint),
   and the check compares final tags only.  Quoted-triple terms are outside the model. *)
Require Export List NArith Bool Lia.
Export ListNotations.
Open Scope N_scope.

Definition fact := (N * N * N)%type.
Inductive term := V (x : N) | C (c : N).
Definition atom := (term * term * term)%type.
Record rule := Rule { prem : list atom; concl : list atom }.

Definition fact_eqb (f g : fact) : bool :=
  let '(a, b, c) := f in let '(a', b', c') := g in (a =? a') && (b =? b') && (c =? c').
Definition mem (f : fact) (l : list fact) : bool := existsb (fact_eqb f) l.

Fixpoint facts_eqb (l m : list fact) : bool :=
  match l, m with
  | [], [] => true
  | f :: l', g :: m' => fact_eqb f g && facts_eqb l' m'
  | _, _ => false
  end.

(* binding rows: variable -> id (BTreeMap<String,String> whose values are dictionary strings) *)
Definition bind := list (N * N).
Fixpoint lookup (x : N) (b : bind) : option N :=
  match b with
  | [] => None
  | (y, v) :: b' => if x =? y then Some v else lookup x b'
  end.

Definition match_term (t : term) (v : N) (b : bind) : option bind :=
  match t with
  | C c => if c =? v then Some b else None
  | V x => match lookup x b with
           | Some v' => if v' =? v then Some b else None
           | None => Some ((x, v) :: b)
           end
  end.

Definition match_atom (a : atom) (f : fact) (b : bind) : option bind :=
  let '(ts, tp, to) := a in
  let '(s, p, o) := f in
  match match_term ts s b with
  | None => None
  | Some b1 => match match_term tp p b1 with
               | None => None
               | Some b2 => match_term to o b2
               end
  end.

(* join_premise_with_hash_join premise facts rows: every extension of a row by a matching fact *)
Definition join (a : atom) (facts : list fact) (bs : list bind) : list bind :=
  flat_map (fun f => flat_map (fun b => match match_atom a f b with Some b' => [b'] | None => [] end) bs) facts.

Definition remove_nth {A} (i : nat) (l : list A) : list A := firstn i l ++ skipn (S i) l.

(* the bindings found with premise i on the delta and the others, in order, on all facts *)
Definition sols_at (ps : list atom) (all delta : list fact) (i : nat) : list bind :=
  match nth_error ps i with
  | None => []
  | Some a => fold_left (fun bs a' => join a' all bs) (remove_nth i ps) (join a delta [[]])
  end.

(* resolve_term / resolve_premise_triples / replace_variables_with_bound_values.  An unbound variable
   cannot occur for a safe rule after all premises were joined; the value 0 stands for the engine's
   "ml_output_placeholder" entry and is never reached under the [safe] hypothesis of the theorems. *)
Definition subst_term (b : bind) (t : term) : N :=
  match t with C c => c | V x => match lookup x b with Some v => v | None => 0 end end.
Definition subst_atom (b : bind) (a : atom) : fact :=
  let '(ts, tp, to) := a in (subst_term b ts, subst_term b tp, subst_term b to).

(* one solution = (matched premise triples, instantiated conclusions) *)
Definition sol := (list fact * list fact)%type.

Fixpoint memL (k : list fact) (seen : list (list fact)) : bool :=
  match seen with [] => false | k' :: s => facts_eqb k k' || memL k s end.

(* seen_derivations: keep the first solution for every key *)
Fixpoint dedup (seen : list (list fact)) (l : list sol) : list sol :=
  match l with
  | [] => []
  | s :: l' => if memL (fst s) seen then dedup seen l' else s :: dedup (fst s :: seen) l'
  end.

Definition solutions (r : rule) (all delta : list fact) : list sol :=
  dedup []
    (flat_map (fun i => map (fun b => (map (subst_atom b) (prem r), map (subst_atom b) (concl r)))
                            (sols_at (prem r) all delta i))
              (seq 0 (length (prem r)))).

(* variables, safety *)
Definition term_vars (t : term) : list N := match t with V x => [x] | C _ => [] end.
Definition atom_vars (a : atom) : list N := let '(s, p, o) := a in term_vars s ++ term_vars p ++ term_vars o.
Definition nmem (x : N) (l : list N) : bool := existsb (N.eqb x) l.
(* at least one premise (a rule without premises is never fired by the semi-naive round, which joins
   premise i against the delta for i in 0..n), and every conclusion variable occurs in a premise *)
Definition safe_rule (r : rule) : bool :=
  negb (match prem r with [] => true | _ => false end) &&
  forallb (fun x => nmem x (flat_map atom_vars (prem r))) (flat_map atom_vars (concl r)).
Definition safe (P : list rule) : bool := forallb safe_rule P.
