(* Model of the single negative stratum pass (provenance_semi_naive.rs: semi_naive_with_initial_tags,
   run_negative_stratum_pass).  Rules with a non-empty negative_premise are run ONCE, after the positive rules
   reached their fixpoint, over the facts of that fixpoint (a snapshot: all_facts / all_facts_set):
     bindings      all positive premises joined, in order, against the snapshot
     pos_tag       fold of conjunction over the tags of the matched positive premises; skipped when zero
     neg_tag       fold of conjunction over the negated atoms: negate(tag) when the instantiated atom is in the
                   snapshot, one when it is absent, zero when a variable is unbound; the loop breaks at zero
     conclusion    conjunction(pos_tag, neg_tag); skipped when zero; a conclusion that is neither in the snapshot
                   nor derived earlier in this pass gets set_tag and is appended, otherwise update_disjunction.
   A rule with negation is a positive rule plus its negated atoms. *)
Require Export KV.Prov.Model.

Record nrule := NRule { nbase : rule; nneg : list atom }.

Definition atom_bound (b : bind) (a : atom) : bool :=
  forallb (fun x => match lookup x b with Some _ => true | None => false end) (atom_vars a).

Definition all_bindings (ps : list atom) (all : list fact) : list bind :=
  fold_left (fun bs a => join a all bs) ps [[]].

Section NegPass.
  Context {K : Type} (SR : semiring K) (neg : K -> K).

  Definition neg_contrib (all : list fact) (ts : tstore) (b : bind) (a : atom) : K :=
    if atom_bound b a then
      let t := subst_atom b a in
      if mem t all then neg (get_tag SR ts t) else one SR
    else zero SR.

  (* `for neg_pat in negative_premise { neg_tag = conjunction(neg_tag, contrib); if neg_tag == zero { break } }` *)
  Fixpoint neg_fold (all : list fact) (ts : tstore) (b : bind) (acc : K) (negs : list atom) : K :=
    match negs with
    | [] => acc
    | a :: rest => let acc' := times SR acc (neg_contrib all ts b a) in
                   if eqb SR acc' (zero SR) then acc' else neg_fold all ts b acc' rest
    end.

  Definition nstate := (tstore (K:=K) * list fact)%type.      (* tag store, new_derived *)

  Definition neg_concl (all : list fact) (ctag : K) (st : nstate) (c : fact) : nstate :=
    let '(ts, nd) := st in
    if negb (mem c all) && negb (mem c nd) then (set_tag SR ts c ctag, nd ++ [c])
    else (fst (update_disjunction SR ts c ctag), nd).

  Definition neg_binding (all : list fact) (r : nrule) (st : nstate) (b : bind) : nstate :=
    let ts := fst st in
    let pos_tag := conj_tags SR ts (map (subst_atom b) (prem (nbase r))) in
    if eqb SR pos_tag (zero SR) then st
    else
      let ntag := neg_fold all ts b (one SR) (nneg r) in
      let ctag := times SR pos_tag ntag in
      if eqb SR ctag (zero SR) then st
      else fold_left (neg_concl all ctag) (map (subst_atom b) (concl (nbase r))) st.

  Definition neg_rule (all : list fact) (st : nstate) (r : nrule) : nstate :=
    fold_left (neg_binding all r) (all_bindings (prem (nbase r)) all) st.

  Definition neg_pass (nrules : list nrule) (all : list fact) (ts : tstore) : nstate :=
    fold_left (neg_rule all) nrules (ts, []).
End NegPass.

(* Reasoner::infer_new_facts_with_provenance for a program with positive rules and rules with negation *)
Definition infer_neg {K} (P : provenance K) (neg : K -> K) (fuel : nat) (rules : list rule) (nrules : list nrule)
           (facts : list fact) (seeds : list (fact * Q)) : option (list fact * tstore (K:=K)) :=
  match infer P fuel rules facts seeds with
  | None => None
  | Some (all, ts) =>
      match nrules with
      | [] => Some (all, ts)
      | _ => let '(ts', nd) := neg_pass P neg nrules all ts in Some (all ++ nd, ts')
      end
  end.
