(* Executable model of the provenance semi-naive materialisation:
     shared/src/tag_store.rs                                  (TagStore: get_tag / set_tag / update_disjunction)
     datalog/.../provenance_semi_naive.rs                     (ProvenanceSemiNaiveStrategy::infer_round,
                                                               Reasoner::infer_new_facts_with_provenance)
     datalog/.../provenance_infer_generic.rs                  (infer_with_provenance_strategy_and_rules)
   generic in the provenance (Semiring.v).  No proofs here.

   State components and their order of update follow the code:
     tag store       HashMap<Triple, Tag>, "absent = one", set_tag removes the entry when the tag equals one
     all_facts       Vec<Triple> (grows by the new facts of each round), known_facts = the same as a set
     strategy        first_round, start_idx_for_delta, delta_improved
     one round       effective delta = all facts (first round) | all_facts[start_idx..] ++ delta_improved;
                     for every rule, for every solution (matched premise triples): conclusion tag = fold of
                     conjunction over the tags of the matched triples starting from one; skipped when equal
                     to zero; for every conclusion: new and not yet produced this round -> set_tag + new_facts;
                     otherwise update_disjunction, and if the tag changed on a fact that was already known the
                     fact is pushed to improved_this_round and tag_changed is set
     driver          loops until a round yields no new fact and no changed tag (fuel instead of `loop`;
                     None = fuel exhausted, excluded in the theorems by hypothesis, never totalised)
   HashSet iteration order of new_facts is modelled by discovery order (the result does not depend on it). *)
Require Export KV.Prov.Semiring.

Section Model.
  Context {K : Type} (SR : semiring K).

  (* ---- TagStore ------------------------------------------------------------------------------ *)
  Definition tstore := list (fact * K).

  Fixpoint ts_find (ts : tstore) (f : fact) : option K :=
    match ts with
    | [] => None
    | (g, k) :: ts' => if fact_eqb f g then Some k else ts_find ts' f
    end.
  Fixpoint ts_remove (ts : tstore) (f : fact) : tstore :=
    match ts with
    | [] => []
    | (g, k) :: ts' => if fact_eqb f g then ts_remove ts' f else (g, k) :: ts_remove ts' f
    end.
  Definition ts_put (ts : tstore) (f : fact) (k : K) : tstore := (f, k) :: ts_remove ts f.

  Definition get_tag (ts : tstore) (f : fact) : K :=
    match ts_find ts f with Some k => k | None => one SR end.
  Definition set_tag (ts : tstore) (f : fact) (k : K) : tstore :=
    if eqb SR k (one SR) then ts_remove ts f else ts_put ts f k.
  Definition update_disjunction (ts : tstore) (f : fact) (k : K) : tstore * bool :=
    let old := get_tag ts f in
    let combined := plus SR old k in
    if eqb SR old combined then (ts, false) else (set_tag ts f combined, true).

  (* ---- one round ------------------------------------------------------------------------------- *)
  Record rstate := RState {
    rs_ts : tstore;
    rs_new : list fact;         (* new_facts *)
    rs_changed : bool;          (* tag_changed *)
    rs_impr : list fact         (* improved_this_round *)
  }.

  Definition conj_tags (ts : tstore) (ms : list fact) : K :=
    fold_left (fun acc m => times SR acc (get_tag ts m)) ms (one SR).

  Definition do_concl (known : list fact) (ctag : K) (st : rstate) (c : fact) : rstate :=
    let is_new := negb (mem c known) in
    if is_new && negb (mem c (rs_new st)) then
      RState (set_tag (rs_ts st) c ctag) (rs_new st ++ [c]) (rs_changed st) (rs_impr st)
    else
      let '(ts', ch) := update_disjunction (rs_ts st) c ctag in
      if ch && negb is_new then RState ts' (rs_new st) true (rs_impr st ++ [c])
      else RState ts' (rs_new st) (rs_changed st) (rs_impr st).

  Definition do_sol (known : list fact) (st : rstate) (s : sol) : rstate :=
    let ctag := conj_tags (rs_ts st) (fst s) in
    if eqb SR ctag (zero SR) then st else fold_left (do_concl known ctag) (snd s) st.

  Section Round.
    (* the join, as a parameter: [sols r all delta] (instantiated with Syntax.solutions) *)
    Variable sols : rule -> list fact -> list fact -> list sol.

    Definition do_rule (all delta : list fact) (st : rstate) (r : rule) : rstate :=
      fold_left (do_sol all) (sols r all delta) st.

    Definition round (rules : list rule) (all delta : list fact) (ts : tstore) : rstate :=
      fold_left (do_rule all delta) rules (RState ts [] false []).

    (* ---- strategy state + driver loop ---------------------------------------------------------- *)
    Record strat := Strat { first_round : bool; start_idx : nat; improved : list fact }.

    Definition eff_delta (st : strat) (all : list fact) : list fact :=
      if first_round st then all else skipn (start_idx st) all ++ improved st.

    Fixpoint drive (fuel : nat) (rules : list rule) (all : list fact) (st : strat) (ts : tstore)
      : option (list fact * tstore) :=
      match fuel with
      | O => None
      | S fuel' =>
          let r := round rules all (eff_delta st all) ts in
          let all' := all ++ rs_new r in
          match rs_new r, rs_changed r with
          | [], false => Some (all', rs_ts r)
          | _, _ => drive fuel' rules all' (Strat false (length all) (rs_impr r)) (rs_ts r)
          end
      end.

    Definition init_strat : strat := Strat true 0 [].
  End Round.
End Model.

Arguments RState {K}. Arguments rs_ts {K}. Arguments rs_new {K}. Arguments rs_changed {K}. Arguments rs_impr {K}.

(* ---- Reasoner::infer_new_facts_with_provenance -------------------------------------------------
   seeds: probability_seeds sorted by triple (derive(Ord): subject, predicate, object), numbered 0.. in
   that order; every seed's tag is tag_from_probability_with_id(prob, id).  The probability table the
   DNF / SDD provenances fill is [map Qclamp01 probabilities] in the same order. *)
Definition fact_ltb (f g : fact) : bool :=
  let '(a, b, c) := f in let '(a', b', c') := g in
  (a <? a') || ((a =? a') && ((b <? b') || ((b =? b') && (c <? c')))).

Fixpoint seed_insert (s : fact * Q) (l : list (fact * Q)) : list (fact * Q) :=
  match l with
  | [] => [s]
  | t :: l' => if fact_ltb (fst s) (fst t) then s :: l else t :: seed_insert s l'
  end.
Definition sort_seeds (seeds : list (fact * Q)) : list (fact * Q) := fold_right seed_insert [] seeds.

Section Infer.
  Context {K : Type} (P : provenance K).

  Fixpoint seed_store (seeds : list (fact * Q)) (id : N) (ts : tstore) : tstore :=
    match seeds with
    | [] => ts
    | (f, p) :: rest => seed_store rest (N.succ id) (set_tag P ts f (from_prob P p id))
    end.

  Definition prob_table (sorted : list (fact * Q)) : list Q := map (fun s => Qclamp01 (snd s)) sorted.

  (* facts: dataset_index.query(None,None,None) before inference (every seed triple is among them);
     result: (all facts afterwards, number of facts before, final tag store, probability table, seed order) *)
  Definition infer (fuel : nat) (rules : list rule) (facts : list fact) (seeds : list (fact * Q))
    : option (list fact * tstore (K:=K)) :=
    let sorted := sort_seeds seeds in
    drive P solutions fuel rules facts init_strat (seed_store sorted 0 []).

  Definition fact_prob (seeds : list (fact * Q)) (ts : tstore) (f : fact) : Q :=
    recover P (prob_table (sort_seeds seeds)) (get_tag P ts f).
End Infer.
