(* Entry points for the correspondence check: run the model in one mode and render what the driver
   (harness/src/bin/c06.rs) observes: all facts, facts with an explicit tag, per-fact probability as a
   reduced fraction, and (DNF mode) the tag as a list of (positive mask, negative mask). *)
Require Import KV.Prov.Model KV.Prov.Instances KV.Prov.Spec.

Definition rq (q : Q) : Z * N := let r := Qred q in (Qnum r, Npos (Qden r)).

Section Render.
  Context {K : Type} (P : provenance K) (rtag : K -> list (N * N)).
  Definition run_mode (fuel : nat) (rules : list rule) (facts : list fact) (seeds : list (fact * Q)) :=
    match infer P fuel rules facts seeds with
    | None => None
    | Some (all, ts) =>
        Some (all, map fst ts,
              map (fun f => (f, rq (fact_prob P seeds ts f), rtag (get_tag P ts f))) all)
    end.
End Render.

Definition run_bool := run_mode bool_prov (fun b => [(if b then 1 else 0, 0)]).
Definition run_minmax := run_mode minmax_prov (fun _ => []).
Definition run_dnf := run_mode dnf_prov (fun t => t).
Definition run_tt fuel rules facts (seeds : list (fact * Q)) :=
  run_mode (tt_prov (N.of_nat (length seeds))) (fun _ => []) fuel rules facts seeds.

Definition seed_order (seeds : list (fact * Q)) : list fact := map fst (sort_seeds seeds).

(* the Spec oracles on a list of facts *)
Definition spec_probs fuel rules facts seeds (fs : list fact) :=
  map (fun f => (f, rq (spec_prob fuel rules facts seeds f))) fs.
Definition spec_minmaxs fuel rules facts seeds (fs : list fact) :=
  map (fun f => (f, rq (spec_minmax fuel rules facts seeds f))) fs.
Definition spec_closure fuel rules facts := naive_close fuel rules facts.

(* function-level stream for the DNF operations *)
Definition dnf_ops (table : list Q) (a b : dnf) :=
  (dnf_disj a b, dnf_conj a b, dnf_negate a,
   [rq (dnf_recover table a); rq (dnf_recover table b); rq (dnf_recover table (dnf_disj a b));
    rq (dnf_recover table (dnf_conj a b)); rq (dnf_recover table (dnf_negate a))],
   dnf_eqb a b).
