(* The mathematical objects property C06 talks about.

   Deriv rules base f      f is derivable from the facts satisfying [base] by ground instances of the rules
   worlds / weight         the 2^n subsets of the n uncertain inputs (bit masks) and their weights
                           prod_i (p_i if i in W else 1 - p_i)   (independent inputs)
   world_prob table g      sum over all worlds W of weight W * g W
   in_world                the input facts present in world W: every certain input, and the i-th seed iff bit i of W

   and an executable brute-force oracle (naive closure in every world) used by the check on small cases. *)
Require Export KV.Prov.Model KV.Prov.Instances.

(* total substitutions *)
Definition sub_term (s : N -> N) (t : term) : N := match t with C c => c | V x => s x end.
Definition sub_atom (s : N -> N) (a : atom) : fact :=
  let '(ts, tp, to) := a in (sub_term s ts, sub_term s tp, sub_term s to).

(* (ms, cs) is a ground instance of a rule: matched premises ms, conclusions cs *)
Definition GI (rules : list rule) (ms cs : list fact) : Prop :=
  exists r s, In r rules /\ ms = map (sub_atom s) (prem r) /\ cs = map (sub_atom s) (concl r).

Inductive Deriv (rules : list rule) (base : fact -> Prop) : fact -> Prop :=
| d_base : forall f, base f -> Deriv rules base f
| d_rule : forall ms cs c, GI rules ms cs -> (forall m, In m ms -> Deriv rules base m) -> In c cs ->
                           Deriv rules base c.

(* ---- worlds ------------------------------------------------------------------------------------ *)
Fixpoint worlds (i : N) (ps : list Q) : list N :=
  match ps with
  | [] => [0]
  | _ :: ps' => let ws := worlds (N.succ i) ps' in map (fun W => N.setbit W i) ws ++ ws
  end.

(* [Qred] keeps the running sum in lowest terms (Qred q == q); see SpecFacts.sumQ_plain *)
Definition sumQ (l : list Q) : Q := fold_right (fun x acc => Qred (x + acc)) 0%Q l.
Definition world_prob (table : list Q) (g : N -> Q) : Q :=
  sumQ (map (fun W => (weight 0 table W * g W)%Q) (worlds 0 table)).
Definition ind (b : bool) : Q := if b then 1%Q else 0%Q.

(* position and probability of a fact among the sorted seeds *)
Fixpoint seed_find (sorted : list (fact * Q)) (f : fact) (i : N) : option (N * Q) :=
  match sorted with
  | [] => None
  | (g, p) :: rest => if fact_eqb f g then Some (i, p) else seed_find rest f (N.succ i)
  end.

Definition in_worldb (facts : list fact) (sorted : list (fact * Q)) (W : N) (f : fact) : bool :=
  mem f facts && match seed_find sorted f 0 with None => true | Some (i, _) => N.testbit W i end.
Definition in_world facts sorted W f : Prop := in_worldb facts sorted W f = true.

(* the probability an input fact carries: its (clamped) seed probability, 1 for a certain fact *)
Definition prob_of (sorted : list (fact * Q)) (f : fact) : Q :=
  match seed_find sorted f 0 with None => 1%Q | Some (_, p) => Qclamp01 p end.

(* class of the known finding C06-zero-probability-boolean: some input fact carries probability 0 *)
Definition has_zero_seed (seeds : list (fact * Q)) : bool := existsb (fun s => Qle_bool (snd s) 0) seeds.

(* ---- executable oracle ------------------------------------------------------------------------- *)
Definition add_new (acc : list fact) (cs : list fact) : list fact :=
  fold_left (fun a c => if mem c a then a else a ++ [c]) cs acc.
Definition naive_step (rules : list rule) (facts : list fact) : list fact :=
  fold_left (fun acc r => fold_left (fun acc' s => add_new acc' (snd s)) (solutions r facts facts) acc) rules facts.
Fixpoint naive_close (fuel : nat) (rules : list rule) (facts : list fact) : option (list fact) :=
  match fuel with
  | O => None
  | S fuel' => let facts' := naive_step rules facts in
               if (length facts' =? length facts)%nat then Some facts else naive_close fuel' rules facts'
  end.

Definition derivable_b (fuel : nat) (rules : list rule) (facts : list fact) (f : fact) : bool :=
  match naive_close fuel rules facts with Some l => mem f l | None => false end.

Definition spec_prob (fuel : nat) (rules : list rule) (facts : list fact) (seeds : list (fact * Q)) (f : fact) : Q :=
  let sorted := sort_seeds seeds in
  world_prob (prob_table sorted)
             (fun W => ind (derivable_b fuel rules (filter (in_worldb facts sorted W) facts) f)).

(* min-max: the largest threshold t among the input probabilities (and 1) such that f is derivable from the
   inputs whose probability is at least t; 0 if there is none *)
Definition spec_minmax (fuel : nat) (rules : list rule) (facts : list fact) (seeds : list (fact * Q)) (f : fact) : Q :=
  let sorted := sort_seeds seeds in
  fold_left (fun best t =>
               if Qle_bool t best then best
               else if derivable_b fuel rules (filter (fun g => Qle_bool t (prob_of sorted g)) facts) f then t else best)
            (1%Q :: prob_table sorted) 0%Q.
