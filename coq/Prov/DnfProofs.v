(* dnf_sem_*: every operation of DnfWmcProvenance denotes the Boolean operation, in every world:
     disjunction = or, conjunction = and, negate = not; remove_subsumed and remove_contradictory preserve
     the denotation; dnf_eqb (set equality) implies equal denotation. *)
Require Import Wf_nat.
Require Import KV.Prov.Dnf.

(* ---- bit-level facts ---------------------------------------------------------------------------- *)
Lemma N_zero_bits : forall n, (n =? 0) = true <-> forall j, N.testbit n j = false.
Proof.
  intros n; rewrite N.eqb_eq; split.
  - intros ->; apply N.bits_0.
  - apply N.bits_inj_0.
Qed.

Lemma N_nonzero_bit : forall n, (n =? 0) = false -> exists j, N.testbit n j = true.
Proof. intros n H; apply N.eqb_neq in H. exists (N.log2 n). apply N.bit_log2; exact H. Qed.

Lemma ldiff_zero : forall a b, (N.ldiff a b =? 0) = true <-> forall j, N.testbit a j = true -> N.testbit b j = true.
Proof.
  intros a b; rewrite N_zero_bits; split; intros H j.
  - specialize (H j). rewrite N.ldiff_spec in H. intros Ha; rewrite Ha in H.
    destruct (N.testbit b j); [reflexivity | discriminate].
  - rewrite N.ldiff_spec. destruct (N.testbit a j) eqn:Ha; [rewrite (H j Ha)|]; reflexivity.
Qed.

Lemma land_zero : forall a b, (N.land a b =? 0) = true <-> forall j, N.testbit a j = true -> N.testbit b j = false.
Proof.
  intros a b; rewrite N_zero_bits; split; intros H j.
  - specialize (H j). rewrite N.land_spec in H. intros Ha; rewrite Ha in H. exact H.
  - rewrite N.land_spec. destruct (N.testbit a j) eqn:Ha; [rewrite (H j Ha)|]; reflexivity.
Qed.

(* ---- clauses -------------------------------------------------------------------------------------- *)
Definition cl_holds (W : N) (c : clause) : Prop :=
  (forall j, N.testbit (fst c) j = true -> N.testbit W j = true) /\
  (forall j, N.testbit (snd c) j = true -> N.testbit W j = false).

Lemma sem_cl_spec : forall W c, sem_cl W c = true <-> cl_holds W c.
Proof. intros W c; unfold sem_cl, cl_holds. rewrite andb_true_iff, ldiff_zero, land_zero. reflexivity. Qed.

Lemma cl_eqb_eq : forall c d, cl_eqb c d = true <-> c = d.
Proof.
  intros [a b] [a' b']; unfold cl_eqb; simpl. rewrite andb_true_iff, !N.eqb_eq.
  split; [intros [-> ->]; reflexivity | intros H; inversion H; auto].
Qed.

Definition cl_sub (c d : clause) : Prop :=
  (forall j, N.testbit (fst c) j = true -> N.testbit (fst d) j = true) /\
  (forall j, N.testbit (snd c) j = true -> N.testbit (snd d) j = true).

Lemma cl_subset_spec : forall c d, cl_subset c d = true <-> cl_sub c d.
Proof. intros c d; unfold cl_subset, cl_sub. rewrite andb_true_iff, !ldiff_zero. reflexivity. Qed.

Lemma cl_sub_refl : forall c, cl_sub c c. Proof. intros c; split; auto. Qed.
Lemma cl_sub_trans : forall a b c, cl_sub a b -> cl_sub b c -> cl_sub a c.
Proof. intros a b c [H1 H2] [H3 H4]; split; auto. Qed.
Lemma cl_sub_antisym : forall c d, cl_sub c d -> cl_sub d c -> c = d.
Proof.
  intros [a b] [a' b'] [H1 H2] [H3 H4]; simpl in *. f_equal; apply N.bits_inj; intros j.
  - destruct (N.testbit a j) eqn:E; [symmetry; apply H1; exact E|].
    destruct (N.testbit a' j) eqn:E'; [rewrite (H3 j E') in E; discriminate | reflexivity].
  - destruct (N.testbit b j) eqn:E; [symmetry; apply H2; exact E|].
    destruct (N.testbit b' j) eqn:E'; [rewrite (H4 j E') in E; discriminate | reflexivity].
Qed.
Lemma cl_sub_holds : forall W c d, cl_sub c d -> cl_holds W d -> cl_holds W c.
Proof. intros W c d [H1 H2] [H3 H4]; split; auto. Qed.

Lemma sem_cl_union : forall W c d, sem_cl W (cl_union c d) = sem_cl W c && sem_cl W d.
Proof.
  intros W c d. apply Bool.eq_iff_eq_true. rewrite andb_true_iff, !sem_cl_spec.
  unfold cl_holds, cl_union; simpl. split.
  - intros [H1 H2]; split; split; intros j Hj; [apply H1 | apply H2 | apply H1 | apply H2]; rewrite N.lor_spec, Hj;
      auto using orb_true_r.
  - intros [[H1 H2] [H3 H4]]; split; intros j Hj; rewrite N.lor_spec in Hj; apply orb_true_iff in Hj as [Hj|Hj]; auto.
Qed.

Lemma sem_cl_empty : forall W, sem_cl W cl_empty = true.
Proof. intros W; apply sem_cl_spec; split; intros j Hj; cbn [cl_empty fst snd] in Hj; rewrite N.bits_0 in Hj; discriminate. Qed.

Lemma cl_contra_false : forall W c, cl_contra c = true -> sem_cl W c = false.
Proof.
  intros W c H. unfold cl_contra in H. apply negb_true_iff in H. apply N_nonzero_bit in H as [j Hj].
  rewrite N.land_spec in Hj. apply andb_true_iff in Hj as [H1 H2].
  destruct (sem_cl W c) eqn:E; [|reflexivity]. apply sem_cl_spec in E as [E1 E2].
  specialize (E1 j H1). specialize (E2 j H2). congruence.
Qed.

(* ---- formulas ------------------------------------------------------------------------------------- *)
Lemma sem_spec : forall W phi, sem W phi = true <-> exists c, In c phi /\ sem_cl W c = true.
Proof. intros; unfold sem; apply existsb_exists. Qed.

Lemma f_mem_In : forall c phi, f_mem c phi = true <-> In c phi.
Proof.
  intros c phi; unfold f_mem; rewrite existsb_exists; split.
  - intros [d [Hd E]]; apply cl_eqb_eq in E; subst; exact Hd.
  - intros H; exists c; split; [exact H | apply cl_eqb_eq; reflexivity].
Qed.

Lemma In_f_add : forall x c phi, In x (f_add c phi) <-> x = c \/ In x phi.
Proof.
  intros x c phi; unfold f_add. destruct (f_mem c phi) eqn:E.
  - apply f_mem_In in E. split; [auto | intros [->|H]; assumption].
  - rewrite in_app_iff; simpl. split; [intros [H|[H|[]]]; auto | intros [H|H]; auto].
Qed.

Lemma In_f_union : forall x b a, In x (f_union a b) <-> In x a \/ In x b.
Proof.
  intros x b; unfold f_union; induction b as [|c b IH]; intros a; simpl; [tauto|].
  rewrite IH, In_f_add. split; [intros [[->|H]|H]; auto | intros [H|[<-|H]]; auto].
Qed.

Lemma In_product_inner : forall x ca b acc,
    In x (fold_left (fun acc' cb => f_add (cl_union ca cb) acc') b acc) <->
    In x acc \/ exists cb, In cb b /\ x = cl_union ca cb.
Proof.
  intros x ca b; induction b as [|cb b IH]; intros acc; simpl.
  - split; [auto | intros [H|[cb [[] _]]]; exact H].
  - rewrite IH, In_f_add. split.
    + intros [[->|H]|[cb' [H1 H2]]]; [right; exists cb; auto | auto | right; exists cb'; auto].
    + intros [H|[cb' [[<-|H1] H2]]]; [auto | auto | right; exists cb'; auto].
Qed.

Lemma In_product_gen : forall x b a acc,
    In x (fold_left (fun acc ca => fold_left (fun acc' cb => f_add (cl_union ca cb) acc') b acc) a acc) <->
    In x acc \/ exists ca cb, In ca a /\ In cb b /\ x = cl_union ca cb.
Proof.
  intros x b a; induction a as [|ca a IH]; intros acc; simpl.
  - split; [auto | intros [H|[ca [cb [[] _]]]]; exact H].
  - rewrite IH, In_product_inner. split.
    + intros [[H|[cb [H1 H2]]]|[ca' [cb [H1 [H2 H3]]]]]; [auto | right; exists ca, cb; auto | right; exists ca', cb; auto].
    + intros [H|[ca' [cb [[<-|H1] [H2 H3]]]]]; [auto | left; right; exists cb; auto | right; exists ca', cb; auto].
Qed.

Lemma In_product : forall x a b, In x (product a b) <-> exists ca cb, In ca a /\ In cb b /\ x = cl_union ca cb.
Proof. intros; unfold product; rewrite In_product_gen; simpl; tauto. Qed.

Lemma sem_f_union : forall W a b, sem W (f_union a b) = sem W a || sem W b.
Proof.
  intros W a b. apply Bool.eq_iff_eq_true. rewrite orb_true_iff, !sem_spec. split.
  - intros [c [Hc Hs]]. apply In_f_union in Hc as [Hc|Hc]; [left | right]; exists c; auto.
  - intros [[c [Hc Hs]]|[c [Hc Hs]]]; exists c; rewrite In_f_union; auto.
Qed.

Lemma sem_product : forall W a b, sem W (product a b) = sem W a && sem W b.
Proof.
  intros W a b. apply Bool.eq_iff_eq_true. rewrite andb_true_iff, !sem_spec. split.
  - intros [c [Hc Hs]]. apply In_product in Hc as [ca [cb [H1 [H2 ->]]]].
    rewrite sem_cl_union in Hs. apply andb_true_iff in Hs as [Ha Hb]. split; [exists ca | exists cb]; auto.
  - intros [[ca [H1 Ha]] [cb [H2 Hb]]]. exists (cl_union ca cb). split.
    + apply In_product; exists ca, cb; auto.
    + rewrite sem_cl_union, Ha, Hb; reflexivity.
Qed.

Theorem dnf_sem_remove_contradictory : forall W phi, sem W (remove_contradictory phi) = sem W phi.
Proof.
  intros W phi. apply Bool.eq_iff_eq_true. rewrite !sem_spec. unfold remove_contradictory. split.
  - intros [c [Hc Hs]]. apply filter_In in Hc as [Hc _]. exists c; auto.
  - intros [c [Hc Hs]]. exists c; split; [|exact Hs]. apply filter_In; split; [exact Hc|].
    destruct (cl_contra c) eqn:E; [|reflexivity]. rewrite (cl_contra_false W c E) in Hs; discriminate.
Qed.

(* ---- subsumption: a minimal clause below any clause survives ------------------------------------------ *)
Definition strictly_below (c2 c1 : clause) : bool := negb (cl_eqb c2 c1) && cl_subset c2 c1.

Lemma strictly_below_spec : forall c2 c1, strictly_below c2 c1 = true <-> c2 <> c1 /\ cl_sub c2 c1.
Proof.
  intros; unfold strictly_below. rewrite andb_true_iff, negb_true_iff, cl_subset_spec. split; intros [H1 H2]; split; auto.
  - intros E; apply cl_eqb_eq in E; congruence.
  - destruct (cl_eqb c2 c1) eqn:E; [apply cl_eqb_eq in E; contradiction | reflexivity].
Qed.

Lemma filter_length_lt : forall {A} (p q : A -> bool) (l : list A),
    (forall x, p x = true -> q x = true) -> (exists y, In y l /\ q y = true /\ p y = false) ->
    (length (filter p l) < length (filter q l))%nat.
Proof.
  intros A p q l Hpq; induction l as [|a l IH]; intros [y [Hy [Hq Hp]]]; [destruct Hy|].
  assert (Hle : forall l', (length (filter p l') <= length (filter q l'))%nat).
  { induction l' as [|b l' IHl]; simpl; [lia|]. destruct (p b) eqn:Eb; [rewrite (Hpq b Eb); simpl; lia|].
    destruct (q b); simpl; lia. }
  simpl. destruct Hy as [->|Hy].
  - rewrite Hq, Hp. simpl. specialize (Hle l). lia.
  - assert (IH' := IH (ex_intro _ y (conj Hy (conj Hq Hp)))).
    destruct (p a) eqn:Ea; [rewrite (Hpq a Ea); simpl; lia|]. destruct (q a); simpl; lia.
Qed.

Lemma minimal_below : forall phi c, In c phi ->
    exists c', In c' phi /\ cl_sub c' c /\ existsb (fun c2 => strictly_below c2 c') phi = false.
Proof.
  intros phi c. remember (length (filter (fun x => strictly_below x c) phi)) as n eqn:Hn.
  revert c Hn. induction n as [n IH] using lt_wf_ind. intros c Hn Hc.
  destruct (existsb (fun c2 => strictly_below c2 c) phi) eqn:E.
  - apply existsb_exists in E as [c2 [Hc2 Hb]].
    pose proof Hb as Hb'. apply strictly_below_spec in Hb' as [Hne Hsub].
    destruct (IH (length (filter (fun x => strictly_below x c2) phi))) with (c := c2) as [c' [H1 [H2 H3]]]; auto.
    + subst n. apply filter_length_lt.
      * intros x Hx. apply strictly_below_spec in Hx as [Hx1 Hx2]. apply strictly_below_spec. split.
        -- intros ->. apply Hne. apply cl_sub_antisym; assumption.
        -- eapply cl_sub_trans; eauto.
      * exists c2; split; [exact Hc2|]. split; [exact Hb|].
        destruct (strictly_below c2 c2) eqn:E2; [|reflexivity]. apply strictly_below_spec in E2 as [E2 _]; congruence.
    + exists c'; split; [exact H1|]. split; [eapply cl_sub_trans; eauto | exact H3].
  - exists c; split; [exact Hc|]. split; [apply cl_sub_refl | exact E].
Qed.

Theorem dnf_sem_remove_subsumed : forall W phi, sem W (remove_subsumed phi) = sem W phi.
Proof.
  intros W phi. apply Bool.eq_iff_eq_true. rewrite !sem_spec. unfold remove_subsumed. split.
  - intros [c [Hc Hs]]. apply filter_In in Hc as [Hc _]. exists c; auto.
  - intros [c [Hc Hs]]. destruct (minimal_below phi c Hc) as [c' [H1 [H2 H3]]].
    exists c'; split.
    + apply filter_In; split; [exact H1|]. fold (strictly_below). 
      change (negb (existsb (fun c2 => strictly_below c2 c') phi) = true). rewrite H3; reflexivity.
    + apply sem_cl_spec. eapply cl_sub_holds; [exact H2 | apply sem_cl_spec; exact Hs].
Qed.

Theorem dnf_sem_zero : forall W, sem W dnf_zero = false. Proof. reflexivity. Qed.
Theorem dnf_sem_one : forall W, sem W dnf_one = true.
Proof. intros W; apply sem_spec; exists cl_empty; split; [left; reflexivity | apply sem_cl_empty]. Qed.

Theorem dnf_sem_disj : forall W a b, sem W (dnf_disj a b) = sem W a || sem W b.
Proof. intros; unfold dnf_disj; rewrite dnf_sem_remove_subsumed, sem_f_union; reflexivity. Qed.

Theorem dnf_sem_conj : forall W a b, sem W (dnf_conj a b) = sem W a && sem W b.
Proof.
  intros W a b; unfold dnf_conj. destruct a as [|ca a]; [reflexivity|]. destruct b as [|cb b]; [rewrite andb_false_r; reflexivity|].
  rewrite dnf_sem_remove_subsumed, dnf_sem_remove_contradictory, sem_product; reflexivity.
Qed.

Lemma f_incl_sem : forall W a b, f_incl a b = true -> sem W a = true -> sem W b = true.
Proof.
  intros W a b Hi Hs. apply sem_spec in Hs as [c [Hc Hs]]. apply sem_spec. exists c; split; [|exact Hs].
  unfold f_incl in Hi. rewrite forallb_forall in Hi. apply f_mem_In. apply Hi; exact Hc.
Qed.

Theorem dnf_sem_eqb : forall W a b, dnf_eqb a b = true -> sem W a = sem W b.
Proof.
  intros W a b H; unfold dnf_eqb in H. apply andb_true_iff in H as [H1 H2].
  apply Bool.eq_iff_eq_true; split; apply f_incl_sem; assumption.
Qed.

Lemma bit_spec : forall v j, N.testbit (bit v) j = (j =? v).
Proof. intros v j; unfold bit. rewrite N.shiftl_1_l. rewrite N.pow2_bits_eqb. apply N.eqb_sym. Qed.

Theorem dnf_sem_lit : forall W v, sem W (dnf_lit v) = N.testbit W v.
Proof.
  intros W v. apply Bool.eq_iff_eq_true. rewrite sem_spec. unfold dnf_lit. split.
  - intros [c [[<-|[]] Hs]]. apply sem_cl_spec in Hs as [H _]. apply H. cbn [fst]. rewrite bit_spec. apply N.eqb_refl.
  - intros H. exists (bit v, 0); split; [left; reflexivity|]. apply sem_cl_spec. split; intros j Hj; cbn [fst snd] in Hj.
    + rewrite bit_spec in Hj; apply N.eqb_eq in Hj; subst; exact H.
    + rewrite N.bits_0 in Hj; discriminate.
Qed.

(* ---- variables stay below n ---------------------------------------------------------------------------- *)
Definition cl_bounded (n : N) (c : clause) : Prop :=
  forall j, N.testbit (fst c) j = true \/ N.testbit (snd c) j = true -> j < n.
Definition dnf_bounded (n : N) (phi : dnf) : Prop := forall c, In c phi -> cl_bounded n c.

Lemma remove_subsumed_incl : forall phi c, In c (remove_subsumed phi) -> In c phi.
Proof. intros phi c H; apply filter_In in H; apply H. Qed.

Lemma dnf_bounded_disj : forall n a b, dnf_bounded n a -> dnf_bounded n b -> dnf_bounded n (dnf_disj a b).
Proof.
  intros n a b Ha Hb c Hc. apply remove_subsumed_incl in Hc. apply In_f_union in Hc as [Hc|Hc]; auto.
Qed.

Lemma dnf_bounded_conj : forall n a b, dnf_bounded n a -> dnf_bounded n b -> dnf_bounded n (dnf_conj a b).
Proof.
  intros n a b Ha Hb c Hc. unfold dnf_conj in Hc.
  destruct a as [|ca a]; [destruct Hc|]. destruct b as [|cb b]; [destruct Hc|].
  apply remove_subsumed_incl in Hc. apply filter_In in Hc as [Hc _].
  apply In_product in Hc as [x [y [Hx [Hy ->]]]].
  intros j Hj; unfold cl_union in Hj; simpl in Hj. rewrite !N.lor_spec in Hj.
  destruct Hj as [Hj|Hj]; apply orb_true_iff in Hj as [Hj|Hj]; [apply (Ha x Hx j) | apply (Hb y Hy j) | apply (Ha x Hx j) | apply (Hb y Hy j)]; auto.
Qed.

Lemma dnf_bounded_one : forall n, dnf_bounded n dnf_one.
Proof. intros n c [<-|[]] j [H|H]; cbn [cl_empty fst snd] in H; rewrite N.bits_0 in H; discriminate. Qed.

Lemma dnf_bounded_lit : forall n v, v < n -> dnf_bounded n (dnf_lit v).
Proof.
  intros n v Hv c [<-|[]] j [H|H]; cbn [fst snd] in H; [rewrite bit_spec in H; apply N.eqb_eq in H; subst; exact Hv | rewrite N.bits_0 in H; discriminate].
Qed.

(* ---- negate -------------------------------------------------------------------------------------------- *)
Lemma testbit_one : forall j, N.testbit 1 j = true <-> j = 0.
Proof.
  intros j; split; [|intros ->; reflexivity].
  destruct j as [|p]; [reflexivity|]. intros H. exfalso.
  assert (E : N.testbit 1 (N.pos p) = false) by (apply N.bits_above_log2; simpl; lia). congruence.
Qed.

Lemma In_pos_bits : forall p i v, In v (pos_bits p i) <-> exists j, v = i + j /\ N.testbit (Npos p) j = true.
Proof.
  induction p as [p IH|p IH|]; intros i v; simpl pos_bits.
  - change (Npos p~1) with (2 * Npos p + 1). simpl In. rewrite IH. split.
    + intros [<-|[j [-> Hj]]].
      * exists 0; split; [lia | apply N.testbit_odd_0].
      * exists (N.succ j); split; [lia | rewrite N.testbit_odd_succ by lia; exact Hj].
    + intros [j [-> Hj]]. destruct (N.eq_0_gt_0_cases j) as [->|Hpos]; [left; lia|].
      right. exists (N.pred j). rewrite <- (N.succ_pred_pos j Hpos) in Hj at 1.
      rewrite N.testbit_odd_succ in Hj by lia. split; [lia | exact Hj].
  - change (Npos p~0) with (2 * Npos p). rewrite IH. split.
    + intros [j [-> Hj]]. exists (N.succ j); split; [lia | rewrite N.double_bits_succ; exact Hj].
    + intros [j [-> Hj]]. destruct (N.eq_0_gt_0_cases j) as [->|Hpos]; [rewrite N.testbit_even_0 in Hj; discriminate|].
      exists (N.pred j). rewrite <- (N.succ_pred_pos j Hpos) in Hj at 1.
      rewrite N.double_bits_succ in Hj. split; [lia | exact Hj].
  - simpl In. split.
    + intros [<-|[]]. exists 0; split; [lia | reflexivity].
    + intros [j [-> Hj]]. apply testbit_one in Hj; subst. left; lia.
Qed.

Lemma In_bits : forall n v, In v (bits n) <-> N.testbit n v = true.
Proof.
  intros [|p] v; simpl bits.
  - rewrite N.bits_0. split; [intros [] | discriminate].
  - rewrite In_pos_bits. split; [intros [j [-> Hj]]; exact Hj | intros H; exists v; split; [lia | exact H]].
Qed.

Lemma sem_cl_neg_lit : forall W v, sem_cl W (0, bit v) = negb (N.testbit W v).
Proof.
  intros W v. apply Bool.eq_iff_eq_true. rewrite sem_cl_spec, negb_true_iff. unfold cl_holds; cbn [fst snd]. split.
  - intros [_ H]. apply H. rewrite bit_spec. apply N.eqb_refl.
  - intros H; split; intros j Hj; [rewrite N.bits_0 in Hj; discriminate|].
    rewrite bit_spec in Hj. apply N.eqb_eq in Hj; subst; exact H.
Qed.

Lemma sem_cl_pos_lit : forall W v, sem_cl W (bit v, 0) = N.testbit W v.
Proof.
  intros W v. apply Bool.eq_iff_eq_true. rewrite sem_cl_spec. unfold cl_holds; cbn [fst snd]. split.
  - intros [H _]. apply H. rewrite bit_spec. apply N.eqb_refl.
  - intros H; split; intros j Hj; [|rewrite N.bits_0 in Hj; discriminate].
    rewrite bit_spec in Hj. apply N.eqb_eq in Hj; subst; exact H.
Qed.

Lemma sem_neg_clause : forall W c, sem W (neg_clause c) = negb (sem_cl W c).
Proof.
  intros W c. apply Bool.eq_iff_eq_true. rewrite negb_true_iff, sem_spec. unfold neg_clause. split.
  - intros [y [Hy Hs]]. destruct (sem_cl W c) eqn:E; [|reflexivity]. exfalso.
    apply sem_cl_spec in E as [E1 E2]. apply in_app_or in Hy as [Hy|Hy]; apply in_map_iff in Hy as [v [<- Hv]]; apply In_bits in Hv.
    + rewrite sem_cl_neg_lit, (E1 v Hv) in Hs. discriminate.
    + rewrite sem_cl_pos_lit, (E2 v Hv) in Hs. discriminate.
  - intros H. unfold sem_cl in H. apply andb_false_iff in H as [H|H]; apply N_nonzero_bit in H as [j Hj].
    + rewrite N.ldiff_spec in Hj. apply andb_true_iff in Hj as [H1 H2]. apply negb_true_iff in H2.
      exists (0, bit j); split; [apply in_or_app; left; apply in_map_iff; exists j; split; [reflexivity | apply In_bits; exact H1]|].
      rewrite sem_cl_neg_lit, H2; reflexivity.
    + rewrite N.land_spec in Hj. apply andb_true_iff in Hj as [H1 H2].
      exists (bit j, 0); split; [apply in_or_app; right; apply in_map_iff; exists j; split; [reflexivity | apply In_bits; exact H1]|].
      rewrite sem_cl_pos_lit; exact H2.
Qed.

Lemma negate_fold : forall W cs res,
    sem W (fold_left (fun r c => match r with [] => [] | _ => dnf_conj r (neg_clause c) end) cs res) =
    sem W res && forallb (fun c => negb (sem_cl W c)) cs.
Proof.
  intros W cs; induction cs as [|c cs IH]; intros res; simpl; [rewrite andb_true_r; reflexivity|].
  rewrite IH. assert (Hstep : (match res with [] => [] | _ => dnf_conj res (neg_clause c) end) = dnf_conj res (neg_clause c)).
  { destruct res; reflexivity. }
  rewrite Hstep, dnf_sem_conj, sem_neg_clause, andb_assoc. reflexivity.
Qed.

Theorem dnf_sem_negate : forall W a, sem W (dnf_negate a) = negb (sem W a).
Proof.
  intros W a; unfold dnf_negate. destruct a as [|c a]; [rewrite dnf_sem_one; reflexivity|].
  set (phi := c :: a). destruct (f_mem cl_empty phi) eqn:E.
  - assert (Hs : sem W phi = true) by (apply sem_spec; exists cl_empty; split; [apply f_mem_In; exact E | apply sem_cl_empty]).
    rewrite Hs. reflexivity.
  - rewrite negate_fold, dnf_sem_one, andb_true_l. unfold sem. clearbody phi. clear E.
    induction phi as [|x l IH]; simpl; [reflexivity|]. rewrite IH, negb_orb. reflexivity.
Qed.
