(* Elementary facts about fact equality, membership and the tag store. *)
Require Import KV.Prov.Model.

Lemma fact_eqb_eq : forall f g, fact_eqb f g = true <-> f = g.
Proof.
  intros [[a b] c] [[a' b'] c']; unfold fact_eqb; rewrite !andb_true_iff, !N.eqb_eq.
  split; [intros [[-> ->] ->]; reflexivity | intros H; inversion H; auto].
Qed.
Lemma fact_eqb_refl : forall f, fact_eqb f f = true.
Proof. intros; apply fact_eqb_eq; reflexivity. Qed.
Lemma fact_eqb_neq : forall f g, fact_eqb f g = false <-> f <> g.
Proof.
  intros f g; split; intros H.
  - intros E; apply fact_eqb_eq in E; congruence.
  - destruct (fact_eqb f g) eqn:E; [apply fact_eqb_eq in E; contradiction | reflexivity].
Qed.
Lemma mem_In : forall f l, mem f l = true <-> In f l.
Proof.
  intros f l; unfold mem; rewrite existsb_exists; split.
  - intros [g [Hg E]]; apply fact_eqb_eq in E; subst; exact Hg.
  - intros H; exists f; split; [exact H | apply fact_eqb_refl].
Qed.
Lemma mem_false : forall f l, mem f l = false <-> ~ In f l.
Proof.
  intros f l; split; intros H.
  - intros I; apply mem_In in I; congruence.
  - destruct (mem f l) eqn:E; [apply mem_In in E; contradiction | reflexivity].
Qed.
Lemma fact_eq_dec : forall f g : fact, {f = g} + {f <> g}.
Proof. intros f g; destruct (fact_eqb f g) eqn:E; [left; apply fact_eqb_eq; exact E | right; apply fact_eqb_neq; exact E]. Qed.

Section TagStore.
  Context {K : Type} (SR : semiring K).

  Lemma ts_find_remove : forall (ts : tstore (K:=K)) f g,
      ts_find (ts_remove ts f) g = if fact_eqb g f then None else ts_find ts g.
  Proof.
    induction ts as [|[h k] ts IH]; intros f g; simpl.
    - destruct (fact_eqb g f); reflexivity.
    - destruct (fact_eqb f h) eqn:Efh.
      + apply fact_eqb_eq in Efh; subst h. rewrite IH.
        destruct (fact_eqb g f); reflexivity.
      + simpl. rewrite IH. destruct (fact_eqb g h) eqn:Egh.
        * apply fact_eqb_eq in Egh; subst h.
          destruct (fact_eqb g f) eqn:Egf; [|reflexivity].
          apply fact_eqb_eq in Egf; subst g. rewrite fact_eqb_refl in Efh; discriminate.
        * reflexivity.
  Qed.

  Lemma get_tag_set_tag : forall ts f k g,
      get_tag SR (set_tag SR ts f k) g =
      if fact_eqb g f then (if eqb SR k (one SR) then one SR else k) else get_tag SR ts g.
  Proof.
    intros ts f k g; unfold get_tag, set_tag, ts_put.
    destruct (eqb SR k (one SR)); simpl; rewrite ?ts_find_remove; destruct (fact_eqb g f); reflexivity.
  Qed.

  Lemma get_tag_set_tag_other : forall ts f k g, g <> f -> get_tag SR (set_tag SR ts f k) g = get_tag SR ts g.
  Proof. intros; rewrite get_tag_set_tag. apply fact_eqb_neq in H; rewrite H; reflexivity. Qed.

  Lemma conj_tags_ext : forall ts ts' ms,
      (forall m, In m ms -> get_tag SR ts' m = get_tag SR ts m) -> conj_tags SR ts' ms = conj_tags SR ts ms.
  Proof.
    intros ts ts' ms; unfold conj_tags. generalize (one SR) as acc.
    induction ms as [|m ms IH]; intros acc H; simpl; [reflexivity|].
    rewrite (H m (or_introl eq_refl)). apply IH. intros; apply H; right; assumption.
  Qed.
End TagStore.

Lemma forall_or_exists {A} (P Q : A -> Prop) : forall l : list A,
    (forall x, In x l -> P x \/ Q x) -> (forall x, In x l -> P x) \/ (exists x, In x l /\ Q x).
Proof.
  induction l as [|a l IH]; intros H; [left; intros x []|].
  destruct (H a (or_introl eq_refl)) as [Pa|Qa].
  - destruct IH as [All|[x [Hx Qx]]]; [intros; apply H; right; assumption | |].
    + left; intros x [->|Hx]; auto.
    + right; exists x; split; [right|]; assumption.
  - right; exists a; split; [left; reflexivity | assumption].
Qed.
