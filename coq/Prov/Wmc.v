(* shannon_wmc / DnfWmcProvenance::recover_probability (shared/src/provenance.rs) on exact rationals.
     empty formula -> 0; contains the empty clause -> 1; otherwise x = the smallest variable id occurring,
     px = table[x] (1.0 when out of range),
       phi_true  = { c \ {x} | c in phi, (x,false) not in c },  phi_false = { c \ {x} | c in phi, (x,true) not in c },
       px * wmc(phi_true) + (1 - px) * wmc(phi_false).
   The HashMap memo of the code is a cache of this function's results and is not modelled.
   Recursion is on fuel (each step removes the smallest variable; [length table] steps suffice, see
   WmcProofs.wmc_correct); the out-of-fuel answer 0 is excluded by the theorem's hypothesis.
   f64 arithmetic is replaced by Q (trusted base: tolerance 1e-9 in the check); [Qred] only keeps the
   fractions in lowest terms (Qred q == q) so that the model stays executable. *)
Require Export KV.Prov.Dnf KV.Prov.Semiring.

(* index of the lowest set bit *)
Fixpoint ctz (p : positive) : N :=
  match p with
  | xO p' => N.succ (ctz p')
  | _ => 0
  end.
Definition cl_mask (c : clause) : N := N.lor (fst c) (snd c).
Definition cl_minvar (c : clause) : option N :=
  match cl_mask c with N0 => None | Npos p => Some (ctz p) end.
Definition omin (a : option N) (b : option N) : option N :=
  match a, b with
  | None, _ => b
  | _, None => a
  | Some x, Some y => Some (N.min x y)
  end.
Definition minvar (phi : dnf) : option N := fold_right (fun c acc => omin (cl_minvar c) acc) None phi.

Definition cl_clear (x : N) (c : clause) : clause := (N.clearbit (fst c) x, N.clearbit (snd c) x).
(* condition on x := b *)
Definition cond (phi : dnf) (x : N) (b : bool) : dnf :=
  fold_left (fun acc c => f_add (cl_clear x c) acc)
            (filter (fun c => negb (N.testbit (if b then snd c else fst c) x)) phi) [].

Definition table_get (table : list Q) (x : N) : Q := nth (N.to_nat x) table 1%Q.

Fixpoint wmc (fuel : nat) (table : list Q) (phi : dnf) : Q :=
  match phi with
  | [] => 0
  | _ =>
      if f_mem cl_empty phi then 1
      else match fuel with
           | O => 0
           | S fuel' =>
               match minvar phi with
               | None => 0
               | Some x =>
                   let px := table_get table x in
                   Qred (px * wmc fuel' table (cond phi x true) + (1 - px) * wmc fuel' table (cond phi x false))
               end
           end
  end%Q.

Definition dnf_recover (table : list Q) (phi : dnf) : Q := Qclamp01 (wmc (length table) table phi).
