(* The generic theorem specialised to tag structures that come with a family of Boolean homomorphisms
   [den w : K -> bool] (w ranges over "worlds"): Boolean tags (one world), min-max tags (w = a threshold),
   DNF tags / decision diagrams / truth tables (w = a possible world).

   hom_exact : when the driver returns, for every admissible w and every fact f,
       f is stored and den w (tag f) = true   <->   f is derivable from the input facts g with den w (tag0 g) = true.
   hom_fixpoint : the final tags are the least pre-fixpoint of the annotated consequence operator for the order
       a <= b := forall w, den w a -> den w b. *)
Require Import KV.Prov.Model KV.Prov.Spec KV.Prov.Annot KV.Prov.BasicFacts KV.Prov.ProvProofs.

Section Hom.
  Context {K : Type} (SR : semiring K) (sols : matcher) (rules : list rule).
  Hypothesis Hspec : sols_spec sols rules.
  Hypothesis Hne : nonempty_prems rules.

  Variables (W : Type) (okw : W -> Prop) (den : W -> K -> bool).
  Hypothesis den_zero : forall w, okw w -> den w (zero SR) = false.
  Hypothesis den_one : forall w, okw w -> den w (one SR) = true.
  Hypothesis den_plus : forall w a b, okw w -> den w (plus SR a b) = den w a || den w b.
  Hypothesis den_times : forall w a b, okw w -> den w (times SR a b) = den w a && den w b.
  Hypothesis den_eqb : forall w a b, okw w -> eqb SR a b = true -> den w a = den w b.

  Notation tag := (get_tag SR).

  Definition hle (a b : K) : Prop := forall w, okw w -> den w a = true -> den w b = true.

  Lemma hle_refl : forall a, hle a a. Proof. intros a w _ H; exact H. Qed.
  Lemma hle_trans : forall a b c, hle a b -> hle b c -> hle a c.
  Proof. intros a b c H1 H2 w Hw H; apply H2; [exact Hw | apply H1; assumption]. Qed.
  Lemma hle_plus_l : forall a b, hle a (plus SR a b).
  Proof. intros a b w Hw H; rewrite den_plus, H by exact Hw; reflexivity. Qed.
  Lemma hle_plus_r : forall a b, hle b (plus SR a b).
  Proof. intros a b w Hw H; rewrite den_plus, H by exact Hw; apply orb_true_r. Qed.
  Lemma hle_plus_lub : forall a b c, hle a c -> hle b c -> hle (plus SR a b) c.
  Proof.
    intros a b c H1 H2 w Hw H; rewrite den_plus in H by exact Hw.
    apply orb_true_iff in H as [H|H]; [apply H1 | apply H2]; assumption.
  Qed.
  Lemma hle_times_mono : forall a a' b b', hle a a' -> hle b b' -> hle (times SR a b) (times SR a' b').
  Proof.
    intros a a' b b' H1 H2 w Hw H; rewrite den_times in * by exact Hw.
    apply andb_true_iff in H as [Ha Hb]. rewrite (H1 w Hw Ha), (H2 w Hw Hb); reflexivity.
  Qed.
  Lemma hle_zero : forall a, hle (zero SR) a.
  Proof. intros a w Hw H; rewrite den_zero in H by exact Hw; discriminate. Qed.
  Lemma hle_times_zero_r : forall a, hle (times SR a (zero SR)) (zero SR).
  Proof. intros a w Hw H; rewrite den_times, den_zero, andb_false_r in H by exact Hw; discriminate. Qed.
  Lemma hle_times_zero_l : forall a, hle (times SR (zero SR) a) (zero SR).
  Proof. intros a w Hw H; rewrite den_times, den_zero in H by exact Hw; discriminate. Qed.
  Lemma hle_eqb : forall a b, eqb SR a b = true -> hle a b /\ hle b a.
  Proof.
    intros a b E; split; intros w Hw H; [rewrite <- (den_eqb w a b Hw E) | rewrite (den_eqb w a b Hw E)]; exact H.
  Qed.

  Lemma den_fold : forall w (tg : fact -> K) ms acc, okw w ->
      den w (fold_left (fun a m => times SR a (tg m)) ms acc) = den w acc && forallb (fun m => den w (tg m)) ms.
  Proof.
    intros w tg ms; induction ms as [|m ms IH]; intros acc Hw; simpl; [rewrite andb_true_r; reflexivity|].
    rewrite IH, den_times by exact Hw. rewrite andb_assoc; reflexivity.
  Qed.

  Lemma den_prod : forall w (tg : fact -> K) ms, okw w ->
      den w (prod_tags SR tg ms) = forallb (fun m => den w (tg m)) ms.
  Proof. intros; unfold prod_tags; rewrite den_fold, den_one by assumption; reflexivity. Qed.

  Section Run.
    Variables (fuel : nat) (all0 : list fact) (ts0 : tstore (K:=K)) (all' : list fact) (ts' : tstore (K:=K)).
    Hypothesis Hrun : drive SR sols fuel rules all0 init_strat ts0 = Some (all', ts').

    Definition base (w : W) (g : fact) : Prop := In g all0 /\ den w (tag ts0 g) = true.

    Lemma Gen_den : forall w, okw w -> forall f k,
        Gen SR rules all0 (tag ts0) f k -> den w k = true -> Deriv rules (base w) f.
    Proof.
      intros w Hw f k HG; induction HG as [f Hf|ms cs c tg HGI Hm IH Hc Hz|f a b _ IHa _ IHb|f a _ IH E]; intros Hd.
      - apply d_base; split; assumption.
      - rewrite den_prod in Hd by exact Hw. rewrite forallb_forall in Hd.
        eapply d_rule; eauto.
      - rewrite den_plus in Hd by exact Hw. apply orb_true_iff in Hd as [Hd|Hd]; auto.
      - apply IH. rewrite (den_eqb w a (one SR) Hw E). apply den_one; exact Hw.
    Qed.

    Theorem hom_exact : forall w, okw w -> forall f,
        (In f all' /\ den w (tag ts' f) = true) <-> Deriv rules (base w) f.
    Proof.
      intros w Hw f.
      destruct (drive_complete SR sols rules Hspec hle hle_refl hle_trans hle_plus_l hle_plus_r hle_eqb
                               fuel all0 ts0 all' ts' Hne Hrun) as [Hinc [Hmono Hclosed]].
      split.
      - intros [Hf Hd].
        apply (Gen_den w Hw f (tag ts' f)); [|exact Hd].
        apply (drive_sound SR sols rules Hspec all0 (tag ts0) fuel ts0 all' ts'); auto.
      - intros HD; induction HD as [f [Hf Hd]|ms cs c HGI Hm IH Hc].
        + split; [apply Hinc; exact Hf | apply (Hmono f Hf w Hw Hd)].
        + assert (Hall : incl ms all') by (intros m Hm'; apply IH; exact Hm').
          assert (Hv : den w (conj_tags SR ts' ms) = true).
          { rewrite conj_tags_prod, den_prod by exact Hw. apply forallb_forall. intros m Hm'. apply IH; exact Hm'. }
          assert (Hz : eqb SR (conj_tags SR ts' ms) (zero SR) = false).
          { destruct (eqb SR (conj_tags SR ts' ms) (zero SR)) eqn:E; [|reflexivity].
            rewrite (den_eqb w _ _ Hw E), den_zero in Hv by exact Hw. discriminate. }
          destruct (Hclosed ms cs HGI Hall Hz c Hc) as [H1 H2]. split; [exact H1 | apply (H2 w Hw Hv)].
    Qed.

    (* every stored fact's tag satisfies any invariant of the generated values *)
    Theorem stored_tag_generated : forall f, In f all' -> Gen SR rules all0 (tag ts0) f (tag ts' f).
    Proof. intros f Hf. apply (drive_sound SR sols rules Hspec all0 (tag ts0) fuel ts0 all' ts'); auto. Qed.

    Theorem hom_fixpoint :
        prefix SR rules all0 (tag ts0) hle (tagx SR all' ts') /\
        (forall T, prefix SR rules all0 (tag ts0) hle T -> forall f, hle (tagx SR all' ts' f) (T f)).
    Proof.
      apply (semiring_fixpoint SR sols rules Hspec hle hle_refl hle_trans hle_plus_l hle_plus_r hle_plus_lub
                               hle_times_mono hle_zero hle_times_zero_r hle_times_zero_l hle_eqb
                               all0 (tag ts0) fuel ts0 all' ts' Hne); auto.
    Qed.
  End Run.
End Hom.
