(* Termination for the instances of property C06: an explicit fuel bound after which [infer] returns.
     universe rules facts   all triples over the constants of the program and of the input facts (|consts|^3 facts),
                            closed under the ground instances of safe rules
     Boolean   height 1            fuel  |U| * 2 + 1
     min-max   height |{0,1} ∪ seed probabilities|      fuel  |U| * (|seeds| + 3) + 1
     DNF       height 2^n (number of worlds in which the tag is true; tags are antichains of positive clauses,
               for which equal denotation implies equal clause sets)      fuel  |U| * (2^n + 1) + 1 *)
Require Import Lqa.
Require Import KV.Prov.Model KV.Prov.Instances KV.Prov.Spec KV.Prov.Annot KV.Prov.BasicFacts KV.Prov.ProvProofs
        KV.Prov.DnfProofs KV.Prov.SpecFacts KV.Prov.SeedProofs KV.Prov.MatcherProofs KV.Prov.InstProofs
        KV.Prov.TTProofs KV.Prov.TermProofs.
Open Scope N_scope.

(* ---- the universe ------------------------------------------------------------------------------------------ *)
Definition fact_consts (f : fact) : list N := let '(a, b, c) := f in [a; b; c].
Definition term_consts (t : term) : list N := match t with C c => [c] | V _ => [] end.
Definition atom_consts (a : atom) : list N := let '(s, p, o) := a in term_consts s ++ term_consts p ++ term_consts o.
Definition consts (rules : list rule) (facts : list fact) : list N :=
  flat_map fact_consts facts ++ flat_map (fun r => flat_map atom_consts (prem r ++ concl r)) rules.
Definition triples (cs : list N) : list fact :=
  flat_map (fun a => flat_map (fun b => map (fun c => (a, b, c)) cs) cs) cs.
Definition universe (rules : list rule) (facts : list fact) : list fact := triples (consts rules facts).

Lemma In_triples : forall cs a b c, In (a, b, c) (triples cs) <-> In a cs /\ In b cs /\ In c cs.
Proof.
  intros cs a b c; unfold triples. rewrite in_flat_map. split.
  - intros [a' [Ha H]]. apply in_flat_map in H as [b' [Hb H]]. apply in_map_iff in H as [c' [E Hc]].
    inversion E; subst. auto.
  - intros [Ha [Hb Hc]]. exists a; split; [exact Ha|]. apply in_flat_map. exists b; split; [exact Hb|].
    apply in_map_iff. exists c; auto.
Qed.

Lemma triples_length : forall cs, length (triples cs) = (length cs * (length cs * length cs))%nat.
Proof.
  intros cs; unfold triples.
  assert (H1 : forall (l : list N) (g : N -> list fact) k, (forall x, length (g x) = k) -> length (flat_map g l) = (length l * k)%nat).
  { induction l as [|x l IH]; intros g k Hg; simpl; [reflexivity|]. rewrite app_length, (IH g k Hg), Hg. lia. }
  apply H1. intros a. apply H1. intros b. apply map_length.
Qed.

Lemma facts_in_universe : forall rules facts, incl facts (universe rules facts).
Proof.
  intros rules facts [[a b] c] Hf. apply In_triples.
  assert (H : forall x, In x [a; b; c] -> In x (consts rules facts)).
  { intros x Hx. unfold consts. apply in_or_app; left. apply in_flat_map. exists (a, b, c); auto. }
  repeat split; apply H; simpl; auto.
Qed.

Lemma sub_term_in : forall s t (cs : list N),
    (forall c, In c (term_consts t) -> In c cs) -> (forall x, In x (term_vars t) -> In (s x) cs) -> In (sub_term s t) cs.
Proof. intros s [x|c] cs H1 H2; simpl; [apply H2 | apply H1]; left; reflexivity. Qed.

Lemma universe_closed : forall rules facts, safe rules = true ->
    forall ms cs, GI rules ms cs -> incl ms (universe rules facts) -> incl cs (universe rules facts).
Proof.
  intros rules facts Hsafe ms cs [r [s [Hr [-> ->]]]] Hms c Hc.
  apply in_map_iff in Hc as [a [<- Ha]].
  assert (Hsr : safe_rule r = true) by (unfold safe in Hsafe; rewrite forallb_forall in Hsafe; apply Hsafe; exact Hr).
  set (cs := consts rules facts).
  assert (Hconst : forall k, In k (atom_consts a) -> In k cs).
  { intros k Hk. unfold cs, consts. apply in_or_app; right. apply in_flat_map. exists r; split; [exact Hr|].
    apply in_flat_map. exists a; split; [apply in_or_app; right; exact Ha | exact Hk]. }
  assert (Hvar : forall x, In x (atom_vars a) -> In (s x) cs).
  { intros x Hx. destruct (safe_rule_concl r Hsr a x Ha Hx) as [p [Hp Hxp]].
    assert (Hin : In (sub_atom s p) (universe rules facts)) by (apply Hms; apply in_map; exact Hp).
    destruct p as [[ps pp] po]. simpl in Hin. apply In_triples in Hin as [H1 [H2 H3]]. fold cs in H1, H2, H3.
    simpl in Hxp.
    assert (Ht : forall t, In x (term_vars t) -> In (sub_term s t) cs -> In (s x) cs).
    { intros [y|k] Hy Hi; simpl in Hy; [destruct Hy as [->|[]]; exact Hi | destruct Hy]. }
    apply in_app_or in Hxp as [Hxp|Hxp]; [apply (Ht ps Hxp H1)|].
    apply in_app_or in Hxp as [Hxp|Hxp]; [apply (Ht pp Hxp H2) | apply (Ht po Hxp H3)]. }
  destruct a as [[ts tp] to]. simpl. apply In_triples. fold cs. simpl in Hconst, Hvar.
  repeat split; (apply sub_term_in; [intros k Hk; apply Hconst | intros x Hx; apply Hvar]; rewrite !in_app_iff; auto).
Qed.

(* ---- what all three instances share --------------------------------------------------------------------------- *)
Section InferTerm.
  Context {K : Type} (P : provenance K).
  Variables (rules : list rule) (facts : list fact) (seeds : list (fact * Q)).
  Hypothesis Hsafe : safe rules = true.
  Hypothesis Hnd : NoDup facts.
  Variables (h : K -> nat) (hmax : nat) (inv : K -> Prop).
  Hypothesis h_plus_l : forall a b, (h a <= h (plus P a b))%nat.
  Hypothesis h_plus_r : forall a b, (h b <= h (plus P a b))%nat.
  Hypothesis h_eqb : forall a b, eqb P a b = true -> h a = h b.
  Hypothesis h_strict : forall a b, inv a -> inv b -> eqb P a (plus P a b) = false -> (h a < h (plus P a b))%nat.
  Hypothesis h_max : forall a, inv a -> (h a <= hmax)%nat.
  Hypothesis inv_one : inv (one P).
  Hypothesis inv_seed : forall p i, In p (map snd seeds) -> i < N.of_nat (length seeds) -> inv (from_prob P p i).
  Hypothesis inv_plus : forall a b, inv a -> inv b -> inv (plus P a b).
  Hypothesis inv_times : forall a b, inv a -> inv b -> inv (times P a b).

  Definition fuel_bound : nat := S (length (universe rules facts) * S hmax).

  Theorem infer_terminates : exists res, infer P fuel_bound rules facts seeds = Some res.
  Proof.
    unfold infer, fuel_bound.
    set (ts0 := seed_store P (sort_seeds seeds) 0 []).
    apply (drive_terminates P solutions rules (solutions_spec rules Hsafe) facts (get_tag P ts0) (universe rules facts)
                            (universe_closed rules facts Hsafe) h hmax inv h_plus_l h_plus_r h_eqb h_strict h_max).
    - intros f k HG. apply (Gen_inv P rules facts (get_tag P ts0) inv) with (f := f); auto.
      intros g _. unfold ts0. apply init_inv; assumption.
    - reflexivity.
    - exact Hnd.
    - apply facts_in_universe.
  Qed.
End InferTerm.

(* ---- Boolean ---------------------------------------------------------------------------------------------------- *)
Theorem bool_terminates : forall rules facts seeds, safe rules = true -> NoDup facts ->
    exists res, infer bool_prov (S (length (universe rules facts) * 2)) rules facts seeds = Some res.
Proof.
  intros rules facts seeds Hs Hn.
  apply (infer_terminates bool_prov rules facts seeds Hs Hn (fun b : bool => if b then 1%nat else 0%nat) 1%nat (fun _ => True)); simpl; auto.
  - intros [|] [|]; simpl; lia.
  - intros [|] [|]; simpl; lia.
  - intros [|] [|]; simpl; intros H; try reflexivity; discriminate.
  - intros [|] [|] _ _; simpl; intros H; try discriminate; lia.
  - intros [|] _; lia.
Qed.

(* ---- min-max ---------------------------------------------------------------------------------------------------- *)
Definition qltb (v a : Q) : bool := negb (Qle_bool a v).
Definition mm_values (seeds : list (fact * Q)) : list Q := 0%Q :: 1%Q :: map Qclamp01 (map snd seeds).
Definition mm_height (V : list Q) (a : Q) : nat := length (filter (fun v => qltb v a) V).

Lemma qltb_spec : forall v a, qltb v a = true <-> (v < a)%Q.
Proof.
  intros v a; unfold qltb. rewrite negb_true_iff. split.
  - intros H. destruct (Qlt_le_dec v a) as [Hl|Hl]; [exact Hl|]. apply Qle_bool_iff in Hl. congruence.
  - intros H. destruct (Qle_bool a v) eqn:E; [|reflexivity]. apply Qle_bool_iff in E. lra.
Qed.

Lemma filter_length_le : forall {A} (p q : A -> bool) l, (forall x, p x = true -> q x = true) ->
    (length (filter p l) <= length (filter q l))%nat.
Proof.
  intros A p q l H; induction l as [|a l IH]; simpl; [lia|].
  destruct (p a) eqn:Ea; [rewrite (H a Ea); simpl; lia|]. destruct (q a); simpl; lia.
Qed.

Lemma filter_length_all : forall {A} (p : A -> bool) l, (length (filter p l) <= length l)%nat.
Proof. intros A p l; induction l as [|x l IH]; simpl; [lia|]. destruct (p x); simpl; lia. Qed.

Lemma mm_height_mono : forall V a b, (a <= b)%Q -> (mm_height V a <= mm_height V b)%nat.
Proof.
  intros V a b H. apply filter_length_le. intros v Hv. apply (proj1 (qltb_spec v a)) in Hv. apply (proj2 (qltb_spec v b)).
  eapply Qlt_le_trans; eauto.
Qed.

Lemma qmax_cases : forall a b, (qmax a b = b /\ (a <= b)%Q) \/ (qmax a b = a /\ (b < a)%Q).
Proof.
  intros a b; unfold qmax. destruct (Qle_bool a b) eqn:E; [left; split; [reflexivity | apply Qle_bool_iff; exact E]|].
  right; split; [reflexivity|]. destruct (Qlt_le_dec b a) as [H|H]; [exact H|]. apply Qle_bool_iff in H; congruence.
Qed.

Theorem minmax_terminates : forall rules facts seeds, safe rules = true -> NoDup facts ->
    exists res, infer minmax_prov (S (length (universe rules facts) * S (length (mm_values seeds)))) rules facts seeds = Some res.
Proof.
  intros rules facts seeds Hs Hn. set (V := mm_values seeds).
  apply (infer_terminates minmax_prov rules facts seeds Hs Hn (mm_height V) (length V) (fun a => exists v, In v V /\ (v == a)%Q)); simpl.
  - intros a b. apply mm_height_mono. destruct (qmax_cases a b) as [[-> H]|[-> H]]; lra.
  - intros a b. apply mm_height_mono. destruct (qmax_cases a b) as [[-> H]|[-> H]]; lra.
  - intros a b E. apply Qeq_bool_iff in E. unfold mm_height. f_equal. apply filter_ext. intros v.
    unfold qltb. f_equal. apply Qle_bool_compat; [exact E | reflexivity].
  - intros a b [v [Hv Ev]] _ E. destruct (qmax_cases a b) as [[Hq H]|[Hq H]]; rewrite Hq in *.
    + assert (Hlt : (a < b)%Q).
      { destruct (Qlt_le_dec a b) as [Hl|Hl]; [exact Hl|]. assert (Heq : (a == b)%Q) by lra.
        apply Qeq_bool_iff in Heq. congruence. }
      unfold mm_height. apply filter_length_lt.
      * intros x Hx. apply qltb_spec in Hx. apply qltb_spec. lra.
      * exists v. split; [exact Hv|]. split; [apply qltb_spec; lra|].
        destruct (qltb v a) eqn:Eq; [apply qltb_spec in Eq; lra | reflexivity].
    + assert (Heq : Qeq_bool a a = true) by (apply Qeq_bool_iff; reflexivity). congruence.
  - intros a _. exact (filter_length_all (fun v => qltb v a) V).
  - exists 1%Q. split; [right; left; reflexivity | reflexivity].
  - intros p i Hp _. exists (Qclamp01 p). split; [right; right; apply in_map; exact Hp | reflexivity].
  - intros a b Ha Hb. destruct (qmax_cases a b) as [[-> _]|[-> _]]; assumption.
  - intros a b Ha Hb. unfold qmin. destruct (Qle_bool a b); assumption.
Qed.

(* ---- DNF -------------------------------------------------------------------------------------------------------- *)
Definition dnf_positive (phi : dnf) : Prop := forall c, In c phi -> snd c = 0.
Definition dnf_antichain (phi : dnf) : Prop := forall c d, In c phi -> In d phi -> cl_sub c d -> c = d.
Definition dnf_inv (n : N) (phi : dnf) : Prop := dnf_bounded n phi /\ dnf_positive phi /\ dnf_antichain phi.
Definition dnf_height (ws : list N) (phi : dnf) : nat := length (filter (fun W => sem W phi) ws).

Lemma remove_subsumed_antichain : forall phi, dnf_antichain (remove_subsumed phi).
Proof.
  intros phi c d Hc Hd Hsub. unfold remove_subsumed in Hc, Hd.
  apply filter_In in Hc as [Hc _]. apply filter_In in Hd as [Hd Hfd].
  destruct (cl_eqb c d) eqn:E; [apply cl_eqb_eq; exact E|]. exfalso.
  apply negb_true_iff in Hfd.
  assert (Hex : existsb (fun c2 => negb (cl_eqb c2 d) && cl_subset c2 d) phi = true).
  { apply existsb_exists. exists c; split; [exact Hc|]. rewrite E. simpl. apply cl_subset_spec; exact Hsub. }
  congruence.
Qed.

Lemma dnf_inv_disj : forall n a b, dnf_inv n a -> dnf_inv n b -> dnf_inv n (dnf_disj a b).
Proof.
  intros n a b [A1 [A2 A3]] [B1 [B2 B3]]. split; [apply dnf_bounded_disj; assumption|]. split.
  - intros c Hc. apply remove_subsumed_incl in Hc. apply In_f_union in Hc as [Hc|Hc]; auto.
  - apply remove_subsumed_antichain.
Qed.

Lemma dnf_inv_conj : forall n a b, dnf_inv n a -> dnf_inv n b -> dnf_inv n (dnf_conj a b).
Proof.
  intros n a b [A1 [A2 A3]] [B1 [B2 B3]]. split; [apply dnf_bounded_conj; assumption|]. unfold dnf_conj.
  destruct a as [|ca a]; [split; [intros c [] | intros c d []]|].
  destruct b as [|cb b]; [split; [intros c [] | intros c d []]|].
  split; [|apply remove_subsumed_antichain].
  intros c Hc. apply remove_subsumed_incl in Hc. apply filter_In in Hc as [Hc _].
  apply In_product in Hc as [x [y [Hx [Hy ->]]]]. unfold cl_union; simpl. rewrite (A2 x Hx), (B2 y Hy). reflexivity.
Qed.

Lemma dnf_inv_one : forall n, dnf_inv n dnf_one.
Proof.
  intros n. split; [apply dnf_bounded_one|]. split.
  - intros c [<-|[]]. reflexivity.
  - intros c d [<-|[]] [<-|[]] _. reflexivity.
Qed.

Lemma dnf_inv_lit : forall n v, v < n -> dnf_inv n (dnf_lit v).
Proof.
  intros n v Hv. split; [apply dnf_bounded_lit; exact Hv|]. split.
  - intros c [<-|[]]. reflexivity.
  - intros c d [<-|[]] [<-|[]] _. reflexivity.
Qed.

Section DnfCanon.
  Variable table : list Q.
  Let n := N.of_nat (length table).
  Let ws := worlds 0 table.

  Lemma clause_world : forall c, cl_bounded n c -> snd c = 0 -> In (fst c) ws /\ sem_cl (fst c) c = true.
  Proof.
    intros c Hb Hp. split.
    - apply worlds_iff_lt. apply lt_pow2_bits. intros j Hj.
      destruct (N.testbit (fst c) j) eqn:E; [|reflexivity]. exfalso.
      assert (H := Hb j (or_introl E)). fold n in Hj. lia.
    - apply sem_cl_spec. split; intros j Hj; [exact Hj | rewrite Hp, N.bits_0 in Hj; discriminate].
  Qed.

  Lemma below_clause : forall phi psi, dnf_inv n phi -> dnf_inv n psi ->
      (forall W, In W ws -> sem W phi = true -> sem W psi = true) ->
      forall c, In c phi -> exists d, In d psi /\ cl_sub d c.
  Proof.
    intros phi psi [P1 [P2 _]] [_ [Q2 _]] Himp c Hc.
    destruct (clause_world c (P1 c Hc) (P2 c Hc)) as [HW Hs].
    assert (Hphi : sem (fst c) phi = true) by (apply sem_spec; exists c; auto).
    apply (Himp _ HW) in Hphi. apply sem_spec in Hphi as [d [Hd Hsd]]. exists d; split; [exact Hd|].
    apply sem_cl_spec in Hsd as [H1 _]. split; [exact H1|].
    intros j Hj. rewrite (Q2 d Hd), N.bits_0 in Hj. discriminate.
  Qed.

  Lemma dnf_canonical : forall phi psi, dnf_inv n phi -> dnf_inv n psi ->
      (forall W, In W ws -> sem W phi = sem W psi) -> dnf_eqb phi psi = true.
  Proof.
    assert (Hincl : forall phi psi, dnf_inv n phi -> dnf_inv n psi ->
                (forall W, In W ws -> sem W phi = sem W psi) -> f_incl phi psi = true).
    { intros phi psi Hp Hq Heq. unfold f_incl. apply forallb_forall. intros c Hc. apply f_mem_In.
      destruct (below_clause phi psi Hp Hq (fun W HW H => eq_trans (eq_sym (Heq W HW)) H) c Hc) as [d [Hd Hdc]].
      destruct (below_clause psi phi Hq Hp (fun W HW H => eq_trans (Heq W HW) H) d Hd) as [c2 [Hc2 Hc2d]].
      assert (E : c2 = c) by (apply (proj2 (proj2 Hp) c2 c Hc2 Hc); eapply cl_sub_trans; eauto).
      subst c2. rewrite (cl_sub_antisym c d Hc2d Hdc). exact Hd. }
    intros phi psi Hp Hq Heq. unfold dnf_eqb. rewrite (Hincl phi psi Hp Hq Heq).
    rewrite (Hincl psi phi Hq Hp (fun W HW => eq_sym (Heq W HW))). reflexivity.
  Qed.

  Lemma dnf_height_strict : forall a b, dnf_inv n a -> dnf_inv n b ->
      dnf_eqb a (dnf_disj a b) = false -> (dnf_height ws a < dnf_height ws (dnf_disj a b))%nat.
  Proof.
    intros a b Ha Hb E. unfold dnf_height.
    destruct (existsb (fun W => sem W (dnf_disj a b) && negb (sem W a)) ws) eqn:Ex.
    - apply existsb_exists in Ex as [W [HW H]]. apply andb_true_iff in H as [H1 H2]. apply negb_true_iff in H2.
      apply filter_length_lt.
      + intros x Hx. rewrite dnf_sem_disj, Hx. reflexivity.
      + exists W; auto.
    - exfalso. assert (Heq : forall W, In W ws -> sem W a = sem W (dnf_disj a b)).
      { intros W HW. destruct (sem W a) eqn:Sa; [rewrite dnf_sem_disj, Sa; reflexivity|].
        destruct (sem W (dnf_disj a b)) eqn:Sd; [|reflexivity].
        assert (Hc : existsb (fun W => sem W (dnf_disj a b) && negb (sem W a)) ws = true)
          by (apply existsb_exists; exists W; split; [exact HW | rewrite Sd, Sa; reflexivity]).
        congruence. }
      rewrite (dnf_canonical a (dnf_disj a b) Ha (dnf_inv_disj n a b Ha Hb) Heq) in E. discriminate.
  Qed.
End DnfCanon.

Theorem dnf_terminates : forall rules facts seeds, safe rules = true -> NoDup facts ->
    exists res, infer dnf_prov (S (length (universe rules facts) * S (length (worlds 0 (prob_table (sort_seeds seeds))))))
                      rules facts seeds = Some res.
Proof.
  intros rules facts seeds Hs Hn.
  set (table := prob_table (sort_seeds seeds)). set (ws := worlds 0 table).
  assert (Hlen : N.of_nat (length table) = N.of_nat (length seeds)).
  { unfold table, prob_table. rewrite map_length, sort_seeds_length. reflexivity. }
  apply (infer_terminates dnf_prov rules facts seeds Hs Hn (dnf_height ws) (length ws) (dnf_inv (N.of_nat (length seeds)))); simpl.
  - intros a b. apply filter_length_le. intros W H. rewrite dnf_sem_disj, H. reflexivity.
  - intros a b. apply filter_length_le. intros W H. rewrite dnf_sem_disj, H. apply orb_true_r.
  - intros a b E. unfold dnf_height. f_equal. apply filter_ext. intros W. apply dnf_sem_eqb; exact E.
  - intros a b Ha Hb E. rewrite <- Hlen in Ha, Hb. apply (dnf_height_strict table a b Ha Hb E).
  - intros a _. apply filter_length_all.
  - apply dnf_inv_one.
  - intros p i _ Hi. apply dnf_inv_lit; exact Hi.
  - apply dnf_inv_disj.
  - apply dnf_inv_conj.
Qed.
