(* A decidable, syntactic class of programs in which the single negative pass suffices: every conclusion of a rule
   with negation has a constant predicate that is the predicate of no input fact and of no conclusion of a positive
   rule, and every conclusion of a positive rule has a constant predicate.  Then no conclusion of a rule with
   negation is a fact of the positive fixpoint (hypothesis Hfresh of NegProofs). *)
Require Import KV.Prov.Model KV.Prov.Instances KV.Prov.Spec KV.Prov.Annot KV.Prov.BasicFacts KV.Prov.InstProofs
        KV.Prov.Negation KV.Prov.NegProofs.
Open Scope N_scope.

Definition fact_pred (f : fact) : N := snd (fst f).
Definition atom_pred (a : atom) : term := snd (fst a).

Definition fresh_pred (p : N) (rules : list rule) (facts : list fact) : bool :=
  forallb (fun f => negb (fact_pred f =? p)) facts &&
  forallb (fun r => forallb (fun a => match atom_pred a with C q => negb (q =? p) | V _ => false end) (concl r)) rules.

Definition neg_class (rules : list rule) (nrules : list nrule) (facts : list fact) : bool :=
  forallb (fun r => forallb (fun a => match atom_pred a with C p => fresh_pred p rules facts | V _ => false end)
                            (concl (nbase r))) nrules.

Lemma sub_atom_pred : forall s a q, atom_pred a = C q -> fact_pred (sub_atom s a) = q.
Proof. intros s [[ts tp] to] q H; unfold atom_pred in H; simpl in H. rewrite H. reflexivity. Qed.

Lemma fresh_not_derivable : forall p rules facts c,
    fresh_pred p rules facts = true -> Deriv rules (fun g => In g facts) c -> fact_pred c <> p.
Proof.
  intros p rules facts c Hf HD. unfold fresh_pred in Hf. apply andb_true_iff in Hf as [H1 H2].
  rewrite forallb_forall in H1, H2.
  destruct HD as [f Hfin|ms cs c HGI _ Hc].
  - specialize (H1 f Hfin). apply negb_true_iff, N.eqb_neq in H1. exact H1.
  - destruct HGI as [r [s [Hr [_ ->]]]]. apply in_map_iff in Hc as [a [<- Ha]].
    specialize (H2 r Hr). rewrite forallb_forall in H2. specialize (H2 a Ha).
    destruct (atom_pred a) as [x|q] eqn:Ep; [discriminate|].
    rewrite (sub_atom_pred s a q Ep). apply negb_true_iff, N.eqb_neq in H2. exact H2.
Qed.

Theorem neg_class_fresh : forall rules nrules facts (all : list fact),
    neg_class rules nrules facts = true ->
    (forall f, In f all -> Deriv rules (fun g => In g facts) f) ->
    forall r s c, In r nrules -> In c (map (sub_atom s) (concl (nbase r))) -> ~ In c all.
Proof.
  intros rules nrules facts all Hc Hall r s c Hr Hin Hmem.
  unfold neg_class in Hc. rewrite forallb_forall in Hc. specialize (Hc r Hr). rewrite forallb_forall in Hc.
  apply in_map_iff in Hin as [a [<- Ha]]. specialize (Hc a Ha).
  destruct (atom_pred a) as [x|p] eqn:Ep; [discriminate|].
  apply (fresh_not_derivable p rules facts (sub_atom s a) Hc (Hall _ Hmem)). apply sub_atom_pred; exact Ep.
Qed.

Theorem dnf_neg_exact_class :
  forall fuel rules nrules facts seeds all (ts : tstore) all' (ts' : tstore),
    safe rules = true -> (forall r, In r nrules -> safe_nrule r = true) -> NoDup (map fst seeds) ->
    neg_class rules nrules facts = true ->
    infer dnf_prov fuel rules facts seeds = Some (all, ts) ->
    infer_neg dnf_prov dnf_negate fuel rules nrules facts seeds = Some (all', ts') ->
    (forall f, In f all -> In f all' /\ get_tag dnf_prov ts' f = get_tag dnf_prov ts f) /\
    (forall c, In c all' -> ~ In c all ->
       forall d : N -> bool,
         (forall W, In W (worlds 0 (prob_table (sort_seeds seeds))) ->
                    (d W = true <-> neg_derivable rules nrules (in_world facts (sort_seeds seeds) W) c)) ->
         (fact_prob dnf_prov seeds ts' c == world_prob (prob_table (sort_seeds seeds)) (fun W => ind (d W)))%Q).
Proof.
  intros fuel rules nrules facts seeds all ts all' ts' Hs Hns Hnd Hcl H0 H1.
  apply (dnf_neg_exact fuel rules nrules facts seeds all ts all' ts' Hs Hns Hnd H0 H1).
  apply (neg_class_fresh rules nrules facts all Hcl).
  intros f Hf. apply (dnf_facts fuel rules facts seeds all ts Hs Hnd H0 f). exact Hf.
Qed.
