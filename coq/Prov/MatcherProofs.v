(* The model's nested-loop matcher satisfies the specification the generic theorems assume about the join
   (Annot.sols_spec): for a safe rule, [solutions r all delta] is exactly the set of ground instances of r
   whose premises are all among [all] and at least one of which is in [delta]. *)
Require Import KV.Prov.Model KV.Prov.Spec KV.Prov.Annot KV.Prov.BasicFacts.

(* ---- bindings ------------------------------------------------------------------------------------- *)
Definition ext (b b' : bind) : Prop := forall x v, lookup x b = Some v -> lookup x b' = Some v.
Definition agrees (b : bind) (s : N -> N) : Prop := forall x v, lookup x b = Some v -> s x = v.
Definition bound (b : bind) (x : N) : Prop := lookup x b <> None.

Lemma ext_refl : forall b, ext b b. Proof. intros b x v H; exact H. Qed.
Lemma ext_trans : forall a b c, ext a b -> ext b c -> ext a c. Proof. intros a b c H1 H2 x v H; auto. Qed.
Lemma bound_ext : forall b b' x, ext b b' -> bound b x -> bound b' x.
Proof. intros b b' x H Hb. unfold bound in *. destruct (lookup x b) as [v|] eqn:E; [rewrite (H x v E); discriminate | congruence]. Qed.

Lemma lookup_cons : forall x y v b, lookup x ((y, v) :: b) = if x =? y then Some v else lookup x b.
Proof. reflexivity. Qed.

(* what a successful match of one term establishes, and that it succeeds whenever a total substitution
   compatible with the row sends the term to the value *)
Lemma match_term_sound : forall t v b b', match_term t v b = Some b' ->
    ext b b' /\ (forall x, In x (term_vars t) -> bound b' x) /\ (forall b'', ext b' b'' -> subst_term b'' t = v).
Proof.
  intros [x|c] v b b' H; simpl in H.
  - destruct (lookup x b) as [v'|] eqn:E.
    + destruct (v' =? v) eqn:Ev; [|discriminate]. apply N.eqb_eq in Ev; subst v'. inversion H; subst b'.
      split; [apply ext_refl|]. split.
      * intros y [<-|[]]. unfold bound; rewrite E; discriminate.
      * intros b'' Hb. simpl. rewrite (Hb x v E). reflexivity.
    + inversion H; subst b'. split; [|split].
      * intros y w Hy. rewrite lookup_cons. destruct (y =? x) eqn:Eyx; [apply N.eqb_eq in Eyx; subst; congruence | exact Hy].
      * intros y [<-|[]]. unfold bound. rewrite lookup_cons, N.eqb_refl. discriminate.
      * intros b'' Hb. simpl. rewrite (Hb x v); [reflexivity|]. rewrite lookup_cons, N.eqb_refl. reflexivity.
  - destruct (c =? v) eqn:Ec; [|discriminate]. apply N.eqb_eq in Ec; subst c. inversion H; subst b'.
    split; [apply ext_refl|]. split; [intros y []|]. intros; reflexivity.
Qed.

Lemma match_term_complete : forall t v b s, agrees b s -> sub_term s t = v ->
    exists b', match_term t v b = Some b' /\ agrees b' s.
Proof.
  intros [x|c] v b s Ha Hs; simpl in *.
  - destruct (lookup x b) as [v'|] eqn:E.
    + rewrite <- (Ha x v' E), Hs, N.eqb_refl. exists b; auto.
    + exists ((x, v) :: b); split; [reflexivity|].
      intros y w Hy. rewrite lookup_cons in Hy. destruct (y =? x) eqn:Eyx; [apply N.eqb_eq in Eyx; subst; congruence | apply Ha; exact Hy].
  - subst c. rewrite N.eqb_refl. exists b; auto.
Qed.

Definition covers (b : bind) (a : atom) : Prop := forall x, In x (atom_vars a) -> bound b x.
Definition stable (b : bind) (a : atom) (f : fact) : Prop := forall b', ext b b' -> subst_atom b' a = f.

Lemma match_atom_sound : forall a f b b', match_atom a f b = Some b' -> ext b b' /\ covers b' a /\ stable b' a f.
Proof.
  intros [[ts tp] to] [[s p] o] b b' H; simpl in H.
  destruct (match_term ts s b) as [b1|] eqn:E1; [|discriminate].
  destruct (match_term tp p b1) as [b2|] eqn:E2; [|discriminate].
  destruct (match_term_sound _ _ _ _ E1) as [X1 [C1 S1]].
  destruct (match_term_sound _ _ _ _ E2) as [X2 [C2 S2]].
  destruct (match_term_sound _ _ _ _ H) as [X3 [C3 S3]].
  split; [eapply ext_trans; [exact X1 | eapply ext_trans; eauto]|]. split.
  - intros x Hx. simpl in Hx. apply in_app_or in Hx as [Hx|Hx]; [|apply in_app_or in Hx as [Hx|Hx]].
    + apply (bound_ext b1 b' x); [eapply ext_trans; [exact X2 | exact X3] | apply C1; exact Hx].
    + apply (bound_ext b2 b' x); [exact X3 | apply C2; exact Hx].
    + apply C3; exact Hx.
  - intros b'' Hb. simpl. rewrite (S1 b''), (S2 b''), (S3 b''); [reflexivity | exact Hb | |].
    + eapply ext_trans; [exact X3 | exact Hb].
    + eapply ext_trans; [exact X2 | eapply ext_trans; [exact X3 | exact Hb]].
Qed.

Lemma match_atom_complete : forall a f b s, agrees b s -> sub_atom s a = f ->
    exists b', match_atom a f b = Some b' /\ agrees b' s.
Proof.
  intros [[ts tp] to] [[s0 p] o] b s Ha Hs; simpl in Hs. inversion Hs; subst; clear Hs. simpl.
  destruct (match_term_complete ts _ b s Ha eq_refl) as [b1 [E1 A1]]. rewrite E1.
  destruct (match_term_complete tp _ b1 s A1 eq_refl) as [b2 [E2 A2]]. rewrite E2.
  apply (match_term_complete to _ b2 s A2 eq_refl).
Qed.

(* ---- joins ------------------------------------------------------------------------------------------ *)
Lemma In_join : forall a facts bs b', In b' (join a facts bs) <->
    exists f b, In f facts /\ In b bs /\ match_atom a f b = Some b'.
Proof.
  intros a facts bs b'; unfold join. rewrite in_flat_map. split.
  - intros [f [Hf H]]. apply in_flat_map in H as [b [Hb H]].
    destruct (match_atom a f b) as [b1|] eqn:E; [|destruct H]. destruct H as [<-|[]]. exists f, b; auto.
  - intros [f [b [Hf [Hb E]]]]. exists f; split; [exact Hf|]. apply in_flat_map. exists b; split; [exact Hb|].
    rewrite E; left; reflexivity.
Qed.

Lemma fold_join_sound : forall all L bs0 b', In b' (fold_left (fun bs a => join a all bs) L bs0) ->
    exists b0, In b0 bs0 /\ ext b0 b' /\ forall a, In a L -> covers b' a /\ exists f, In f all /\ stable b' a f.
Proof.
  intros all L; induction L as [|a L IH]; intros bs0 b' H; simpl in H.
  - exists b'; split; [exact H|]. split; [apply ext_refl | intros a []].
  - destruct (IH _ _ H) as [b1 [H1 [X1 HL]]]. apply In_join in H1 as [f [b0 [Hf [Hb0 E]]]].
    destruct (match_atom_sound _ _ _ _ E) as [X0 [C0 S0]].
    exists b0; split; [exact Hb0|]. split; [eapply ext_trans; eauto|].
    intros a' [<-|Ha']; [|apply HL; exact Ha'].
    split; [intros x Hx; eapply bound_ext; [exact X1 | apply C0; exact Hx]|].
    exists f; split; [exact Hf|]. intros b'' Hb. apply S0. eapply ext_trans; eauto.
Qed.

Lemma fold_join_complete : forall all L s bs0 b0, In b0 bs0 -> agrees b0 s ->
    (forall a, In a L -> In (sub_atom s a) all) ->
    exists b', In b' (fold_left (fun bs a => join a all bs) L bs0) /\ agrees b' s.
Proof.
  intros all L s; induction L as [|a L IH]; intros bs0 b0 Hb0 Ha HL; simpl.
  - exists b0; auto.
  - destruct (match_atom_complete a _ b0 s Ha eq_refl) as [b1 [E A1]].
    apply (IH (join a all bs0) b1); [|exact A1 | intros; apply HL; right; assumption].
    apply In_join. exists (sub_atom s a), b0. split; [apply HL; left; reflexivity | auto].
Qed.

Lemma nth_error_split' : forall {A} (l : list A) i a, nth_error l i = Some a ->
    l = firstn i l ++ a :: skipn (S i) l.
Proof.
  intros A l; induction l as [|x l IH]; intros [|i] a H; simpl in *; try discriminate.
  - inversion H; reflexivity.
  - f_equal. apply IH; exact H.
Qed.

Lemma In_remove_nth : forall {A} (l : list A) i a x, nth_error l i = Some a -> In x l -> x = a \/ In x (remove_nth i l).
Proof.
  intros A l i a x H Hx. rewrite (nth_error_split' l i a H) in Hx. unfold remove_nth.
  apply in_app_or in Hx as [Hx|[Hx|Hx]]; [right; apply in_or_app; auto | left; auto | right; apply in_or_app; auto].
Qed.

Lemma remove_nth_incl : forall {A} (l : list A) i x, In x (remove_nth i l) -> In x l.
Proof.
  intros A l i x H. unfold remove_nth in H. apply in_app_or in H as [H|H].
  - rewrite <- (firstn_skipn i l). apply in_or_app; left; exact H.
  - rewrite <- (firstn_skipn (S i) l). apply in_or_app; right; exact H.
Qed.

(* every row found at premise index i covers all premises, each premise is sent to a fact of [all], premise i to
   a fact of [delta] *)
Lemma sols_at_sound : forall ps all delta i b, incl delta all -> In b (sols_at ps all delta i) ->
    (forall a, In a ps -> covers b a /\ In (subst_atom b a) all) /\
    (exists a, nth_error ps i = Some a /\ In (subst_atom b a) delta).
Proof.
  intros ps all delta i b Hd H. unfold sols_at in H. destruct (nth_error ps i) as [ai|] eqn:Ei; [|destruct H].
  destruct (fold_join_sound _ _ _ _ H) as [b0 [Hb0 [X0 HL]]].
  apply In_join in Hb0 as [f [b00 [Hf [_ E]]]]. destruct (match_atom_sound _ _ _ _ E) as [_ [C0 S0]].
  assert (Hi : covers b ai /\ subst_atom b ai = f).
  { split; [intros x Hx; eapply bound_ext; [exact X0 | apply C0; exact Hx] | apply S0; exact X0]. }
  split.
  - intros a Ha. destruct (In_remove_nth ps i ai a Ei Ha) as [->|Hr].
    + destruct Hi as [Hc He]. split; [exact Hc | rewrite He; apply Hd; exact Hf].
    + destruct (HL a Hr) as [Hc [f' [Hf' Hs]]]. split; [exact Hc | rewrite (Hs b (ext_refl b)); exact Hf'].
  - exists ai; split; [reflexivity|]. destruct Hi as [_ He]. rewrite He; exact Hf.
Qed.

Lemma sols_at_complete : forall ps all delta i a s, nth_error ps i = Some a ->
    In (sub_atom s a) delta -> (forall a', In a' ps -> In (sub_atom s a') all) ->
    exists b, In b (sols_at ps all delta i) /\ agrees b s.
Proof.
  intros ps all delta i a s Ei Hd Hall. unfold sols_at. rewrite Ei.
  destruct (match_atom_complete a (sub_atom s a) [] s) as [b0 [E A0]]; [intros x v H; discriminate | reflexivity|].
  apply (fold_join_complete all (remove_nth i ps) s (join a delta [[]]) b0); [|exact A0|].
  - apply In_join. exists (sub_atom s a), []. split; [exact Hd|]. split; [left; reflexivity | exact E].
  - intros a' Ha'. apply Hall. eapply remove_nth_incl; eauto.
Qed.

(* a row that covers an atom and agrees with s instantiates it like s *)
Lemma subst_agrees : forall b s a, agrees b s -> covers b a -> subst_atom b a = sub_atom s a.
Proof.
  intros b s [[ts tp] to] Ha Hc; simpl.
  assert (Ht : forall t, (forall x, In x (term_vars t) -> bound b x) -> subst_term b t = sub_term s t).
  { intros [x|c] Hb; simpl; [|reflexivity]. destruct (lookup x b) as [v|] eqn:E; [symmetry; apply Ha; exact E|].
    exfalso. apply (Hb x); [left; reflexivity | exact E]. }
  rewrite (Ht ts), (Ht tp), (Ht to); [reflexivity | | |]; intros x Hx; apply Hc; simpl; rewrite !in_app_iff; auto.
Qed.

Definition total_of (b : bind) : N -> N := fun x => match lookup x b with Some v => v | None => 0 end.
Lemma subst_total : forall b a, subst_atom b a = sub_atom (total_of b) a.
Proof. intros b [[[x|c] [y|d]] [z|e]]; reflexivity. Qed.

(* ---- seen_derivations ---------------------------------------------------------------------------------- *)
Lemma facts_eqb_eq : forall l m, facts_eqb l m = true <-> l = m.
Proof.
  induction l as [|f l IH]; intros [|g m]; simpl; split; intros H; try discriminate; try reflexivity.
  - apply andb_true_iff in H as [H1 H2]. apply fact_eqb_eq in H1. apply IH in H2. subst; reflexivity.
  - inversion H; subst. rewrite fact_eqb_refl. simpl. apply IH; reflexivity.
Qed.

Lemma memL_In : forall k seen, memL k seen = true <-> In k seen.
Proof.
  intros k seen; induction seen as [|k' seen IH]; simpl; [split; [discriminate | intros []]|].
  rewrite orb_true_iff, facts_eqb_eq, IH. split; intros [H|H]; auto.
Qed.

Lemma dedup_incl : forall l seen s, In s (dedup seen l) -> In s l.
Proof.
  induction l as [|s0 l IH]; intros seen s H; simpl in H; [destruct H|].
  destruct (memL (fst s0) seen); [right; eapply IH; eauto|].
  destruct H as [<-|H]; [left; reflexivity | right; eapply IH; eauto].
Qed.

Lemma dedup_complete : forall l seen s, In s l -> ~ In (fst s) seen -> exists s', In s' (dedup seen l) /\ fst s' = fst s.
Proof.
  induction l as [|s0 l IH]; intros seen s Hs Hn; [destruct Hs|]. simpl.
  destruct (memL (fst s0) seen) eqn:E.
  - apply memL_In in E. destruct Hs as [->|Hs]; [contradiction | apply IH; assumption].
  - destruct (list_eq_dec fact_eq_dec (fst s0) (fst s)) as [Heq|Hne].
    + exists s0; split; [left; reflexivity | exact Heq].
    + destruct Hs as [->|Hs]; [congruence|].
      destruct (IH (fst s0 :: seen) s Hs) as [s' [H1 H2]]; [intros [H|H]; [congruence | contradiction]|].
      exists s'; split; [right; exact H1 | exact H2].
Qed.

(* ---- the specification ------------------------------------------------------------------------------------ *)
Definition raw_solutions (r : rule) (all delta : list fact) : list sol :=
  flat_map (fun i => map (fun b => (map (subst_atom b) (prem r), map (subst_atom b) (concl r)))
                         (sols_at (prem r) all delta i))
           (seq 0 (length (prem r))).

Lemma solutions_raw : forall r all delta, solutions r all delta = dedup [] (raw_solutions r all delta).
Proof. reflexivity. Qed.

Lemma In_raw : forall r all delta s, In s (raw_solutions r all delta) <->
    exists i b, (i < length (prem r))%nat /\ In b (sols_at (prem r) all delta i) /\
                s = (map (subst_atom b) (prem r), map (subst_atom b) (concl r)).
Proof.
  intros r all delta s; unfold raw_solutions. rewrite in_flat_map. split.
  - intros [i [Hi H]]. apply in_seq in Hi. apply in_map_iff in H as [b [<- Hb]]. exists i, b. split; [lia | auto].
  - intros [i [b [Hi [Hb ->]]]]. exists i; split; [apply in_seq; lia|]. apply in_map_iff. exists b; auto.
Qed.

Lemma safe_rule_concl : forall r, safe_rule r = true ->
    forall c x, In c (concl r) -> In x (atom_vars c) -> exists a, In a (prem r) /\ In x (atom_vars a).
Proof.
  intros r H c x Hc Hx. unfold safe_rule in H. apply andb_true_iff in H as [_ H]. rewrite forallb_forall in H.
  assert (Hin : In x (flat_map atom_vars (concl r))) by (apply in_flat_map; exists c; auto).
  specialize (H x Hin). unfold nmem in H. apply existsb_exists in H as [y [Hy E]]. apply N.eqb_eq in E; subst y.
  apply in_flat_map in Hy. exact Hy.
Qed.

Theorem solutions_sound : forall r, sols_sound solutions r.
Proof.
  intros r all delta ms cs Hd H. rewrite solutions_raw in H. apply dedup_incl in H.
  apply In_raw in H as [i [b [Hi [Hb E]]]]. inversion E; subst ms cs; clear E.
  destruct (sols_at_sound _ _ _ _ _ Hd Hb) as [Hall _]. split.
  - exists (total_of b). split; apply map_ext; intros a; apply subst_total.
  - intros m Hm. apply in_map_iff in Hm as [a [<- Ha]]. apply Hall; exact Ha.
Qed.

Theorem solutions_complete : forall r, safe_rule r = true -> sols_complete solutions r.
Proof.
  intros r Hsafe all delta ms cs [s [Hms Hcs]] Hinc [m [Hm Hmd]].
  subst ms. apply in_map_iff in Hm as [a [Ha1 Ha]]. subst m.
  apply In_nth_error in Ha as [i Ei].
  assert (Hall : forall a', In a' (prem r) -> In (sub_atom s a') all).
  { intros a' Ha'. apply Hinc. apply in_map; exact Ha'. }
  destruct (sols_at_complete (prem r) all delta i a s Ei Hmd Hall) as [b [Hb Hag]].
  assert (Hd : incl delta all -> True) by auto.
  (* the row b covers every premise: it was produced by sols_at *)
  assert (Hcov : forall a', In a' (prem r) -> covers b a').
  { unfold sols_at in Hb. rewrite Ei in Hb.
    destruct (fold_join_sound _ _ _ _ Hb) as [b0 [Hb0 [X0 HL]]].
    apply In_join in Hb0 as [f [b00 [_ [_ E]]]]. destruct (match_atom_sound _ _ _ _ E) as [_ [C0 _]].
    intros a' Ha'. destruct (In_remove_nth (prem r) i a a' Ei Ha') as [->|Hr].
    - intros x Hx; eapply bound_ext; [exact X0 | apply C0; exact Hx].
    - apply HL; exact Hr. }
  assert (Hprem : map (subst_atom b) (prem r) = map (sub_atom s) (prem r)).
  { apply map_ext_in. intros a' Ha'. apply subst_agrees; [exact Hag | apply Hcov; exact Ha']. }
  assert (Hconcl : forall b2, (forall a', In a' (prem r) -> covers b2 a') ->
                              map (subst_atom b2) (prem r) = map (sub_atom s) (prem r) ->
                              map (subst_atom b2) (concl r) = map (sub_atom s) (concl r)).
  { intros b2 Hcov2 Heq. apply map_ext_in. intros c Hc.
    assert (Hag2 : forall x, (exists a', In a' (prem r) /\ In x (atom_vars a')) -> lookup x b2 = Some (s x)).
    { intros x [a' [Ha' Hx]].
      assert (E : subst_atom b2 a' = sub_atom s a').
      { assert (H := f_equal (fun l => nth_error l 0) (eq_refl (map (subst_atom b2) (prem r)))). clear H.
        apply In_nth_error in Ha' as [k Ek].
        assert (H1 := map_nth_error (subst_atom b2) k (prem r) Ek).
        assert (H2 := map_nth_error (sub_atom s) k (prem r) Ek). rewrite Heq in H1. congruence. }
      assert (Hbx : bound b2 x). { apply In_nth_error in Ha' as [k Ek]. apply (Hcov2 a'); [eapply nth_error_In; eauto | exact Hx]. }
      unfold bound in Hbx. destruct (lookup x b2) as [v|] eqn:El; [|congruence]. f_equal.
      destruct a' as [[ts tp] to]. simpl in E. inversion E as [[E1 E2 E3]]. simpl in Hx.
      assert (Ht : forall t, In x (term_vars t) -> subst_term b2 t = sub_term s t -> v = s x).
      { intros [y|c'] Hy Hst; simpl in Hy; [|destruct Hy]. destruct Hy as [->|[]]. simpl in Hst. rewrite El in Hst. exact Hst. }
      apply in_app_or in Hx as [Hx|Hx]; [apply (Ht ts Hx E1)|]. apply in_app_or in Hx as [Hx|Hx]; [apply (Ht tp Hx E2) | apply (Ht to Hx E3)]. }
    destruct c as [[ts tp] to]. simpl.
    assert (Ht : forall t, (forall x, In x (term_vars t) -> In x (atom_vars (ts, tp, to))) -> subst_term b2 t = sub_term s t).
    { intros [y|c'] Hy; simpl; [|reflexivity]. rewrite (Hag2 y); [reflexivity|].
      apply (safe_rule_concl r Hsafe (ts, tp, to) y Hc). apply Hy. left; reflexivity. }
    rewrite (Ht ts), (Ht tp), (Ht to); [reflexivity | | |]; intros x Hx; simpl; rewrite !in_app_iff; auto. }
  (* membership after dedup *)
  assert (Hraw : In (map (sub_atom s) (prem r), cs) (raw_solutions r all delta)).
  { apply In_raw. exists i, b. split; [apply nth_error_Some; congruence|]. split; [exact Hb|].
    rewrite Hprem, (Hconcl b Hcov Hprem), Hcs. reflexivity. }
  rewrite solutions_raw.
  destruct (dedup_complete _ [] _ Hraw (fun H => H)) as [[ms' cs'] [H1 H2]]. simpl in H2. subst ms'.
  assert (H1' := dedup_incl _ _ _ H1). apply In_raw in H1' as [i2 [b2 [Hi2 [Hb2 E]]]]. inversion E as [[E1 E2]].
  assert (Hcov2 : forall a', In a' (prem r) -> covers b2 a').
  { unfold sols_at in Hb2. destruct (nth_error (prem r) i2) as [a2|] eqn:Ei2; [|destruct Hb2].
    destruct (fold_join_sound _ _ _ _ Hb2) as [b0 [Hb0 [X0 HL]]].
    apply In_join in Hb0 as [f [b00 [_ [_ E0]]]]. destruct (match_atom_sound _ _ _ _ E0) as [_ [C0 _]].
    intros a' Ha'. destruct (In_remove_nth (prem r) i2 a2 a' Ei2 Ha') as [->|Hr].
    - intros x Hx; eapply bound_ext; [exact X0 | apply C0; exact Hx].
    - apply HL; exact Hr. }
  rewrite (Hconcl b2 Hcov2 (eq_sym E1)) in E2. rewrite Hcs. rewrite <- E2. exact H1.
Qed.

Theorem solutions_spec : forall rules, safe rules = true -> sols_spec solutions rules.
Proof.
  intros rules H r Hr. split; [apply solutions_sound | apply solutions_complete].
  unfold safe in H. rewrite forallb_forall in H. apply H; exact Hr.
Qed.
