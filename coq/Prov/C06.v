(* C06 - Probabilities attached to derived facts equal their possible-worlds probability.
   This file contains only the property theorems; each is closed by `exact <lemma>` and followed by
   Print Assumptions.  The lemmas live in DnfProofs, WmcProofs, ProvProofs, HomProofs, MatcherProofs, InstProofs.

   Reading guide (see notes/C06.md):
     infer P fuel rules facts seeds = Some (all, ts)
         the model of Reasoner::infer_new_facts_with_provenance returned: `all` are the facts in the store,
         `ts` the tag store; `fact_prob P seeds ts f` is recover_probability(get_tag(f)).
     facts          every input fact (certain and uncertain); seeds : the uncertain ones with their probability
     sort_seeds     the deterministic seed numbering (sorted by triple); a world W is the set of seed numbers present
     in_world facts sorted W g     g is an input fact present in world W
     Deriv rules base f            f is derivable from the facts satisfying `base` by ground instances of the rules
     world_prob table g            sum over all 2^n worlds W of weight(W) * g W, weight(W) = prod (p_i | 1 - p_i)
   Sections (1)-(4) are partial-correctness statements about a returned result (the driver loop is modelled with
   fuel); section (5) proves that the driver does return, with an explicit fuel bound, for the Boolean, min-max and DNF
   structures (and for any structure with a bounded height function).  The model is exact rational arithmetic. *)
Require Import KV.Prov.Model KV.Prov.Instances KV.Prov.Spec KV.Prov.Annot KV.Prov.ProvProofs KV.Prov.HomProofs
        KV.Prov.DnfProofs KV.Prov.SpecFacts KV.Prov.WmcProofs KV.Prov.SeedProofs KV.Prov.MatcherProofs KV.Prov.InstProofs
        KV.Prov.Negation KV.Prov.NegProofs KV.Prov.NegClass KV.Prov.SpecProofs KV.Prov.TTProofs KV.Prov.TermProofs KV.Prov.TermInst.
Open Scope N_scope.

(* ===== (1) every DNF operation denotes the Boolean operation, in every world ============================== *)
Theorem C06_dnf_sem_disjunction : forall W a b, sem W (dnf_disj a b) = sem W a || sem W b.
Proof. exact dnf_sem_disj. Qed.
Print Assumptions C06_dnf_sem_disjunction.

Theorem C06_dnf_sem_conjunction : forall W a b, sem W (dnf_conj a b) = sem W a && sem W b.
Proof. exact dnf_sem_conj. Qed.
Print Assumptions C06_dnf_sem_conjunction.

Theorem C06_dnf_sem_negate : forall W a, sem W (dnf_negate a) = negb (sem W a).
Proof. exact dnf_sem_negate. Qed.
Print Assumptions C06_dnf_sem_negate.

Theorem C06_dnf_sem_remove_subsumed : forall W phi, sem W (remove_subsumed phi) = sem W phi.
Proof. exact dnf_sem_remove_subsumed. Qed.
Print Assumptions C06_dnf_sem_remove_subsumed.

Theorem C06_dnf_sem_remove_contradictory : forall W phi, sem W (remove_contradictory phi) = sem W phi.
Proof. exact dnf_sem_remove_contradictory. Qed.
Print Assumptions C06_dnf_sem_remove_contradictory.

(* set equality of formulas (the test behind update_disjunction's "changed") implies equal denotation *)
Theorem C06_dnf_sem_eqb : forall W a b, dnf_eqb a b = true -> sem W a = sem W b.
Proof. exact dnf_sem_eqb. Qed.
Print Assumptions C06_dnf_sem_eqb.

(* ===== (2) Shannon expansion computes the weighted model count =============================================== *)
Theorem C06_shannon_wmc_correct : forall table phi,
    dnf_bounded (N.of_nat (length table)) phi ->
    (wmc (length table) table phi == world_prob table (fun W => ind (sem W phi)))%Q.
Proof. exact wmc_correct. Qed.
Print Assumptions C06_shannon_wmc_correct.

(* world_prob is the explicit sum over all worlds; it agrees with the variable-by-variable expectation, the weights
   add up to one *)
Theorem C06_world_prob_total : forall table, (world_prob table (fun _ => 1) == 1)%Q.
Proof. exact world_prob_total. Qed.
Print Assumptions C06_world_prob_total.

(* the worlds the sum ranges over are exactly the 2^n subsets of the n uncertain inputs, each once *)
Theorem C06_worlds_enumeration : forall table,
    NoDup (worlds 0 table) /\ forall W, In W (worlds 0 table) <-> W < 2 ^ N.of_nat (length table).
Proof. intros table; split; [apply worlds_nodup | apply worlds_iff_lt]. Qed.
Print Assumptions C06_worlds_enumeration.

(* ===== (3) the generic semiring theorem ========================================================================= *)
(* For ANY tag structure and any join satisfying sols_spec: when the driver returns, every stored tag is generated
   from the initial tags by sums of (non-zero) products along ground rule instances ... *)
Theorem C06_semiring_sound :
  forall (K : Type) (SR : semiring K) (sols : matcher) (rules : list rule),
    sols_spec sols rules ->
    forall (all0 : list fact) (tag0 : fact -> K) (fuel : nat) (ts0 : tstore) (all' : list fact) (ts' : tstore),
      (forall f, In f all0 -> get_tag SR ts0 f = tag0 f) ->
      drive SR sols fuel rules all0 init_strat ts0 = Some (all', ts') ->
      forall f, In f all' -> Gen SR rules all0 tag0 f (get_tag SR ts' f).
Proof. exact @drive_sound. Qed.
Print Assumptions C06_semiring_sound.

(* ... and the tags are closed under the annotated consequence operator, for any preorder in which plus is an upper
   bound and which the equality test respects (rules have at least one premise) *)
Theorem C06_semiring_complete :
  forall (K : Type) (SR : semiring K) (sols : matcher) (rules : list rule),
    sols_spec sols rules ->
    forall le : K -> K -> Prop,
      (forall a, le a a) -> (forall a b c, le a b -> le b c -> le a c) ->
      (forall a b, le a (plus SR a b)) -> (forall a b, le b (plus SR a b)) ->
      (forall a b, eqb SR a b = true -> le a b /\ le b a) ->
      forall (fuel : nat) (all0 : list fact) (ts0 : tstore) (all' : list fact) (ts' : tstore),
        nonempty_prems rules ->
        drive SR sols fuel rules all0 init_strat ts0 = Some (all', ts') ->
        incl all0 all' /\
        (forall f, In f all0 -> le (get_tag SR ts0 f) (get_tag SR ts' f)) /\
        (forall ms cs, GI rules ms cs -> incl ms all' ->
                       eqb SR (conj_tags SR ts' ms) (zero SR) = false ->
                       forall c, In c cs -> In c all' /\ le (conj_tags SR ts' ms) (get_tag SR ts' c)).
Proof. exact @drive_complete. Qed.
Print Assumptions C06_semiring_complete.

(* together: for an idempotent semiring order (plus = least upper bound, times monotone, zero least and
   annihilating) the reported annotation (stored tag, zero elsewhere) is the LEAST pre-fixpoint of the annotated
   consequence operator, i.e. the sum over derivation trees of the product over their leaves *)
Theorem C06_semiring_fixpoint :
  forall (K : Type) (SR : semiring K) (sols : matcher) (rules : list rule),
    sols_spec sols rules ->
    forall le : K -> K -> Prop,
      (forall a, le a a) -> (forall a b c, le a b -> le b c -> le a c) ->
      (forall a b, le a (plus SR a b)) -> (forall a b, le b (plus SR a b)) ->
      (forall a b c, le a c -> le b c -> le (plus SR a b) c) ->
      (forall a a' b b', le a a' -> le b b' -> le (times SR a b) (times SR a' b')) ->
      (forall a, le (zero SR) a) ->
      (forall a, le (times SR a (zero SR)) (zero SR)) -> (forall a, le (times SR (zero SR) a) (zero SR)) ->
      (forall a b, eqb SR a b = true -> le a b /\ le b a) ->
      forall (all0 : list fact) (tag0 : fact -> K) (fuel : nat) (ts0 : tstore) (all' : list fact) (ts' : tstore),
        nonempty_prems rules ->
        (forall f, In f all0 -> get_tag SR ts0 f = tag0 f) ->
        drive SR sols fuel rules all0 init_strat ts0 = Some (all', ts') ->
        prefix SR rules all0 tag0 le (tagx SR all' ts') /\
        (forall T, prefix SR rules all0 tag0 le T -> forall f, le (tagx SR all' ts' f) (T f)).
Proof. exact @semiring_fixpoint. Qed.
Print Assumptions C06_semiring_fixpoint.

(* the model's matcher satisfies the join specification for safe rule sets *)
Theorem C06_matcher_spec : forall rules, safe rules = true -> sols_spec solutions rules.
Proof. exact solutions_spec. Qed.
Print Assumptions C06_matcher_spec.

(* ===== (4) instances ============================================================================================= *)
(* --- DNF model counting: the tag of a stored fact is true in world W exactly when the fact is derivable in W --- *)
Theorem C06_dnf_worlds :
  forall fuel rules facts seeds all (ts : tstore),
    safe rules = true -> NoDup (map fst seeds) ->
    infer dnf_prov fuel rules facts seeds = Some (all, ts) ->
    forall W f, (In f all /\ sem W (get_tag dnf_prov ts f) = true) <->
                Deriv rules (in_world facts (sort_seeds seeds) W) f.
Proof. exact dnf_worlds. Qed.
Print Assumptions C06_dnf_worlds.

(* the stored facts are exactly the facts derivable from the input facts, whatever their probabilities (0 included) *)
Theorem C06_dnf_facts :
  forall fuel rules facts seeds all (ts : tstore),
    safe rules = true -> NoDup (map fst seeds) ->
    infer dnf_prov fuel rules facts seeds = Some (all, ts) ->
    forall f, In f all <-> Deriv rules (fun g => In g facts) f.
Proof. exact dnf_facts. Qed.
Print Assumptions C06_dnf_facts.

(* the reported probability is the total weight of the worlds in which the fact is derivable
   (d is any Boolean function that decides derivability of f in a world; recursion and shared evidence included) *)
Theorem C06_exact_dnf :
  forall fuel rules facts seeds all (ts : tstore),
    safe rules = true -> NoDup (map fst seeds) ->
    infer dnf_prov fuel rules facts seeds = Some (all, ts) ->
    forall f, In f all ->
    forall d : N -> bool,
      (forall W, In W (worlds 0 (prob_table (sort_seeds seeds))) ->
                 (d W = true <-> Deriv rules (in_world facts (sort_seeds seeds) W) f)) ->
      (fact_prob dnf_prov seeds ts f == world_prob (prob_table (sort_seeds seeds)) (fun W => ind (d W)))%Q.
Proof. exact dnf_exact. Qed.
Print Assumptions C06_exact_dnf.

(* the same with the decider instantiated by the executable brute-force oracle of Spec.v (naive closure in every
   world; the hypothesis only says that its fuel was sufficient): the reported probability equals the literal
   enumeration of all worlds that the correspondence check also evaluates *)
Theorem C06_exact_dnf_bruteforce :
  forall fuel rules facts seeds all (ts : tstore),
    safe rules = true -> NoDup (map fst seeds) ->
    infer dnf_prov fuel rules facts seeds = Some (all, ts) ->
    forall fuel',
      (forall W, In W (worlds 0 (prob_table (sort_seeds seeds))) ->
                 naive_close fuel' rules (filter (in_worldb facts (sort_seeds seeds) W) facts) <> None) ->
      forall f, In f all -> (fact_prob dnf_prov seeds ts f == spec_prob fuel' rules facts seeds f)%Q.
Proof. exact dnf_exact_bruteforce. Qed.
Print Assumptions C06_exact_dnf_bruteforce.

(* --- decision-diagram model counting: the same three statements for ANY provenance whose tags represent Boolean
   functions exactly (exact_bf: the operations denote or / and, equal tags denote equal functions, seed i is the
   literal x_i, recover is the weighted model count).  For SddProvenance these hypotheses are property C07's
   theorems about the SDD manager; they are not re-proved here.  The DNF structure is an instance (dnf_exact_bf). --- *)
Theorem C06_exact_sdd :
  forall (K : Type) (P : provenance K) fuel rules facts seeds all (ts : tstore),
    safe rules = true -> NoDup (map fst seeds) ->
    infer P fuel rules facts seeds = Some (all, ts) ->
    forall (den : N -> K -> bool) (inv : K -> Prop),
      exact_bf P (N.of_nat (length seeds)) (prob_table (sort_seeds seeds)) den inv ->
      forall f, In f all ->
      forall d : N -> bool,
        (forall W, In W (worlds 0 (prob_table (sort_seeds seeds))) ->
                   (d W = true <-> Deriv rules (in_world facts (sort_seeds seeds) W) f)) ->
        (fact_prob P seeds ts f == world_prob (prob_table (sort_seeds seeds)) (fun W => ind (d W)))%Q.
Proof. exact @bf_exact. Qed.
Print Assumptions C06_exact_sdd.

Theorem C06_sdd_worlds :
  forall (K : Type) (P : provenance K) fuel rules facts seeds all (ts : tstore),
    safe rules = true -> NoDup (map fst seeds) ->
    infer P fuel rules facts seeds = Some (all, ts) ->
    forall (den : N -> K -> bool) (inv : K -> Prop),
      exact_bf P (N.of_nat (length seeds)) (prob_table (sort_seeds seeds)) den inv ->
      (forall W, In W (worlds 0 (prob_table (sort_seeds seeds))) ->
                 forall f, (In f all /\ den W (get_tag P ts f) = true) <->
                           Deriv rules (in_world facts (sort_seeds seeds) W) f) /\
      (forall f, In f all <-> Deriv rules (fun g => In g facts) f).
Proof.
  intros K P fuel rules facts seeds all ts Hs Hn Hr den inv E.
  split; [exact (bf_worlds P fuel rules facts seeds all ts Hs Hn Hr den inv E)
         | exact (bf_facts P fuel rules facts seeds all ts Hs Hn Hr den inv E)].
Qed.
Print Assumptions C06_sdd_worlds.

(* the hypothesis of C06_exact_sdd is satisfiable: DNF model counting is an exact Boolean-function structure *)
Theorem C06_dnf_is_exact_bf : forall table, table_ok table ->
    exact_bf dnf_prov (N.of_nat (length table)) table sem (dnf_bounded (N.of_nat (length table))).
Proof. exact dnf_exact_bf. Qed.
Print Assumptions C06_dnf_is_exact_bf.

(* ... and so are truth tables over the seed variables (Instances.tt_prov), the executable stand-in for the SDD mode
   in the correspondence check *)
Theorem C06_tt_is_exact_bf : forall table, table_ok table ->
    exact_bf (tt_prov (N.of_nat (length table))) (N.of_nat (length table)) table (fun W t => N.testbit t W) (fun _ => True).
Proof. exact tt_exact_bf. Qed.
Print Assumptions C06_tt_is_exact_bf.

(* --- rules with negation (single negative stratum pass), exact modes.  In the class where one pass suffices - no
   conclusion of a rule with negation is a fact of the positive fixpoint (in particular when those conclusions use a
   predicate that occurs nowhere else) - the pass leaves the positive fixpoint's tags untouched, and a fact it adds is
   reported with the total weight of the worlds in which some rule with negation derives it: all positive premises
   derivable in that world, no negated atom derivable in that world (neg_derivable).  Stated for DNF model counting;
   NegProofs.bf_neg_exact is the same statement for any exact Boolean-function structure whose negate denotes `not`. --- *)
Theorem C06_exact_dnf_negation :
  forall fuel rules nrules facts seeds all (ts : tstore) all' (ts' : tstore),
    safe rules = true -> (forall r, In r nrules -> safe_nrule r = true) -> NoDup (map fst seeds) ->
    infer dnf_prov fuel rules facts seeds = Some (all, ts) ->
    infer_neg dnf_prov dnf_negate fuel rules nrules facts seeds = Some (all', ts') ->
    (forall r s c, In r nrules -> In c (map (sub_atom s) (concl (nbase r))) -> ~ In c all) ->
    (forall f, In f all -> In f all' /\ get_tag dnf_prov ts' f = get_tag dnf_prov ts f) /\
    (forall c, In c all' -> ~ In c all ->
       forall d : N -> bool,
         (forall W, In W (worlds 0 (prob_table (sort_seeds seeds))) ->
                    (d W = true <-> neg_derivable rules nrules (in_world facts (sort_seeds seeds) W) c)) ->
         (fact_prob dnf_prov seeds ts' c == world_prob (prob_table (sort_seeds seeds)) (fun W => ind (d W)))%Q).
Proof. exact dnf_neg_exact. Qed.
Print Assumptions C06_exact_dnf_negation.

(* the same under a decidable syntactic class (neg_class): every conclusion of a rule with negation has a constant
   predicate that is the predicate of no input fact and of no positive rule's conclusion *)
Theorem C06_exact_dnf_negation_class :
  forall fuel rules nrules facts seeds all (ts : tstore) all' (ts' : tstore),
    safe rules = true -> (forall r, In r nrules -> safe_nrule r = true) -> NoDup (map fst seeds) ->
    neg_class rules nrules facts = true ->
    infer dnf_prov fuel rules facts seeds = Some (all, ts) ->
    infer_neg dnf_prov dnf_negate fuel rules nrules facts seeds = Some (all', ts') ->
    (forall f, In f all -> In f all' /\ get_tag dnf_prov ts' f = get_tag dnf_prov ts f) /\
    (forall c, In c all' -> ~ In c all ->
       forall d : N -> bool,
         (forall W, In W (worlds 0 (prob_table (sort_seeds seeds))) ->
                    (d W = true <-> neg_derivable rules nrules (in_world facts (sort_seeds seeds) W) c)) ->
         (fact_prob dnf_prov seeds ts' c == world_prob (prob_table (sort_seeds seeds)) (fun W => ind (d W)))%Q).
Proof. exact dnf_neg_exact_class. Qed.
Print Assumptions C06_exact_dnf_negation_class.

(* --- min-max: for every threshold t in (0,1], a fact is stored with a value >= t exactly when it has a derivation
   all of whose input facts have probability >= t ... --- *)
Theorem C06_minmax :
  forall fuel rules facts seeds all (ts : tstore),
    safe rules = true -> NoDup (map fst seeds) ->
    infer minmax_prov fuel rules facts seeds = Some (all, ts) ->
    forall t, (0 < t /\ t <= 1)%Q -> forall f,
      (In f all /\ (t <= fact_prob minmax_prov seeds ts f)%Q) <->
      Deriv rules (fun g => In g facts /\ (t <= prob_of (sort_seeds seeds) g)%Q) f.
Proof. exact minmax_threshold. Qed.
Print Assumptions C06_minmax.

(* ... hence the reported value is the best derivation's weakest input: it is attained by some derivation and no
   derivation is stronger.  (A fact all of whose derivations use an input of probability 0 has value 0; it is either
   absent or, if it is an input fact itself, stored with 0 - the statement is about positive values.) *)
Theorem C06_minmax_best :
  forall fuel rules facts seeds all (ts : tstore),
    safe rules = true -> NoDup (map fst seeds) ->
    infer minmax_prov fuel rules facts seeds = Some (all, ts) ->
    forall f, In f all -> (0 < fact_prob minmax_prov seeds ts f)%Q ->
      Deriv rules (fun g => In g facts /\ (fact_prob minmax_prov seeds ts f <= prob_of (sort_seeds seeds) g)%Q) f /\
      (forall t, (0 < t /\ t <= 1)%Q ->
                 Deriv rules (fun g => In g facts /\ (t <= prob_of (sort_seeds seeds) g)%Q) f ->
                 (t <= fact_prob minmax_prov seeds ts f)%Q).
Proof. exact minmax_best. Qed.
Print Assumptions C06_minmax_best.

(* --- Boolean mode reports plain derivability -- provided no input fact carries probability 0
   (known class has_zero_seed, finding C06-zero-probability-boolean) --- *)
Theorem C06_boolean :
  forall fuel rules facts seeds all (ts : tstore),
    safe rules = true -> NoDup (map fst seeds) ->
    infer bool_prov fuel rules facts seeds = Some (all, ts) ->
    has_zero_seed seeds = false ->
    forall f, (In f all <-> Deriv rules (fun g => In g facts) f) /\
              (In f all -> get_tag bool_prov ts f = true /\ (fact_prob bool_prov seeds ts f == 1)%Q).
Proof. exact bool_plain. Qed.
Print Assumptions C06_boolean.

(* the strongest statement that holds for all probabilities: the facts tagged true are exactly the facts derivable
   from the input facts of positive probability, and every stored fact is an input fact or tagged true *)
Theorem C06_boolean_positive :
  forall fuel rules facts seeds all (ts : tstore),
    safe rules = true -> NoDup (map fst seeds) ->
    infer bool_prov fuel rules facts seeds = Some (all, ts) ->
    forall f, ((In f all /\ get_tag bool_prov ts f = true) <->
               Deriv rules (fun g => In g facts /\ (0 < prob_of (sort_seeds seeds) g)%Q) f) /\
              (In f all -> In f facts \/ get_tag bool_prov ts f = true).
Proof.
  intros fuel rules facts seeds all ts Hs Hn Hr f.
  split; [exact (bool_positive fuel rules facts seeds all ts Hs Hn Hr f)
         | exact (bool_stored fuel rules facts seeds all ts Hs Hr f)].
Qed.
Print Assumptions C06_boolean_positive.

(* ===== (5) termination: the driver returns ======================================================================= *)
(* Generic ("idempotent + finite height"): U is a finite universe of facts closed under the ground rule instances, h a
   height on tags that plus never decreases, that the equality test respects, that strictly increases whenever
   update_disjunction reports a change (for tags satisfying an invariant of all generated tags) and is bounded by hmax.
   Every round that does not end the loop strictly increases (number of stored facts + sum of the heights of their
   tags) <= |U| * (hmax + 1); hence fuel |U| * (hmax + 1) + 1 suffices. *)
Theorem C06_driver_terminates :
  forall (K : Type) (SR : semiring K) (sols : matcher) (rules : list rule),
    sols_spec sols rules ->
    forall (all0 : list fact) (tag0 : fact -> K) (U : list fact),
      (forall ms cs, GI rules ms cs -> incl ms U -> incl cs U) ->
      forall (h : K -> nat) (hmax : nat) (inv : K -> Prop),
        (forall a b, (h a <= h (plus SR a b))%nat) ->
        (forall a b, (h b <= h (plus SR a b))%nat) ->
        (forall a b, eqb SR a b = true -> h a = h b) ->
        (forall a b, inv a -> inv b -> eqb SR a (plus SR a b) = false -> (h a < h (plus SR a b))%nat) ->
        (forall a, inv a -> (h a <= hmax)%nat) ->
        (forall f k, Gen SR rules all0 tag0 f k -> inv k) ->
        forall ts0 : tstore,
          (forall f, In f all0 -> get_tag SR ts0 f = tag0 f) -> NoDup all0 -> incl all0 U ->
          exists res, drive SR sols (S (length U * S hmax)) rules all0 init_strat ts0 = Some res.
Proof. exact @drive_terminates. Qed.
Print Assumptions C06_driver_terminates.

(* the universe: all triples over the constants of the rules and of the input facts (|consts|^3 facts); it contains the
   input facts and is closed under the ground instances of safe rules *)
Theorem C06_universe :
  forall rules facts, safe rules = true ->
    incl facts (universe rules facts) /\
    (forall ms cs, GI rules ms cs -> incl ms (universe rules facts) -> incl cs (universe rules facts)) /\
    length (universe rules facts) =
      (length (consts rules facts) * (length (consts rules facts) * length (consts rules facts)))%nat.
Proof.
  intros rules facts Hs. split; [apply facts_in_universe|]. split; [apply universe_closed; exact Hs | apply triples_length].
Qed.
Print Assumptions C06_universe.

(* Boolean tags have height 1 *)
Theorem C06_boolean_terminates :
  forall rules facts seeds, safe rules = true -> NoDup facts ->
    exists res, infer bool_prov (S (length (universe rules facts) * 2)) rules facts seeds = Some res.
Proof. exact bool_terminates. Qed.
Print Assumptions C06_boolean_terminates.

(* min-max tags range over {0, 1} and the (clamped) seed probabilities: height <= number of these values *)
Theorem C06_minmax_terminates :
  forall rules facts seeds, safe rules = true -> NoDup facts ->
    exists res, infer minmax_prov (S (length (universe rules facts) * S (length (mm_values seeds)))) rules facts seeds = Some res.
Proof. exact minmax_terminates. Qed.
Print Assumptions C06_minmax_terminates.

(* DNF tags over n seeds: every stored tag is an antichain of positive clauses over the seed variables; for such formulas
   equal denotation on all 2^n worlds implies equal clause sets (so a reported change is a strict semantic increase), and
   the height "number of worlds in which the tag is true" is at most 2^n (a crude bound) *)
Theorem C06_dnf_terminates :
  forall rules facts seeds, safe rules = true -> NoDup facts ->
    exists res, infer dnf_prov (S (length (universe rules facts) * S (length (worlds 0 (prob_table (sort_seeds seeds))))))
                      rules facts seeds = Some res.
Proof. exact dnf_terminates. Qed.
Print Assumptions C06_dnf_terminates.

(* total correctness for the DNF mode: with that fuel the run returns, its facts are the derivable facts and every
   reported probability is the possible-worlds probability *)
Theorem C06_exact_dnf_total :
  forall rules facts seeds, safe rules = true -> NoDup facts -> NoDup (map fst seeds) ->
    exists all (ts : tstore),
      infer dnf_prov (S (length (universe rules facts) * S (length (worlds 0 (prob_table (sort_seeds seeds))))))
            rules facts seeds = Some (all, ts) /\
      (forall f, In f all <-> Deriv rules (fun g => In g facts) f) /\
      (forall f, In f all ->
       forall d : N -> bool,
         (forall W, In W (worlds 0 (prob_table (sort_seeds seeds))) ->
                    (d W = true <-> Deriv rules (in_world facts (sort_seeds seeds) W) f)) ->
         (fact_prob dnf_prov seeds ts f == world_prob (prob_table (sort_seeds seeds)) (fun W => ind (d W)))%Q).
Proof.
  intros rules facts seeds Hs Hn Hnd. destruct (dnf_terminates rules facts seeds Hs Hn) as [[all ts] Hrun].
  exists all, ts. split; [exact Hrun|]. split.
  - exact (dnf_facts _ rules facts seeds all ts Hs Hnd Hrun).
  - exact (dnf_exact _ rules facts seeds all ts Hs Hnd Hrun).
Qed.
Print Assumptions C06_exact_dnf_total.

Theorem C06_dnf_canonical :
  forall table phi psi,
    dnf_inv (N.of_nat (length table)) phi -> dnf_inv (N.of_nat (length table)) psi ->
    (forall W, In W (worlds 0 table) -> sem W phi = sem W psi) -> dnf_eqb phi psi = true.
Proof. exact dnf_canonical. Qed.
Print Assumptions C06_dnf_canonical.

(* the full statement "Boolean mode reports plain derivability for all probabilities in [0,1]" is FALSE for the model
   (and for the code: known finding C06-zero-probability-boolean): with `A related B` at probability 0 and
   `B related C` at 9/10, `A related C` is derivable from the input facts but is not stored *)
Definition w_rules := [Rule [(V 0, C 3, V 1); (V 1, C 3, V 2)] [(V 0, C 3, V 2)]].
Definition w_facts : list fact := [(0, 3, 1); (1, 3, 2)].
Definition w_seeds : list (fact * Q) := [((0, 3, 1), 0%Q); ((1, 3, 2), (9 # 10)%Q)].

Theorem C06_boolean_zero_refuted :
  exists all (ts : tstore) f,
    safe w_rules = true /\ NoDup (map fst w_seeds) /\ has_zero_seed w_seeds = true /\
    infer bool_prov 10 w_rules w_facts w_seeds = Some (all, ts) /\
    Deriv w_rules (fun g => In g w_facts) f /\ ~ In f all.
Proof.
  exists [(0, 3, 1); (1, 3, 2)], [((0, 3, 1), false)], (0, 3, 2).
  split; [reflexivity|]. split; [repeat constructor; simpl; intuition congruence|]. split; [reflexivity|].
  split; [vm_compute; reflexivity|]. split.
  - apply (d_rule w_rules _ [(0, 3, 1); (1, 3, 2)] [(0, 3, 2)] (0, 3, 2)).
    + exists (Rule [(V 0, C 3, V 1); (V 1, C 3, V 2)] [(V 0, C 3, V 2)]), (fun x => x).
      split; [left; reflexivity | split; reflexivity].
    + intros m Hm. apply d_base. exact Hm.
    + left; reflexivity.
  - simpl. intuition congruence.
Qed.
Print Assumptions C06_boolean_zero_refuted.

(* the DNF mode stores the same fact with probability 0 on the same input *)
Example C06_dnf_keeps_zero_probability_fact :
  exists all (ts : tstore),
    infer dnf_prov 10 w_rules w_facts w_seeds = Some (all, ts) /\ In (0, 3, 2) all /\
    (fact_prob dnf_prov w_seeds ts (0, 3, 2)%N == 0)%Q.
Proof.
  eexists; eexists. split; [vm_compute; reflexivity|]. split; [simpl; auto | vm_compute; reflexivity].
Qed.

(* non-vacuity: a recursive program with shared evidence on which every hypothesis holds; the reported
   probability of `a q c` (two proofs sharing no seed: x1, x0 & x2) is 17/32 in the exact modes, 1/2 in min-max *)
Definition e_rules := [Rule [(V 0, C 5, V 1)] [(V 0, C 6, V 1)]; Rule [(V 0, C 6, V 1); (V 1, C 5, V 2)] [(V 0, C 6, V 2)]].
Definition e_facts : list fact := [(0, 5, 1); (0, 5, 2); (1, 5, 2); (2, 5, 3)].
Definition e_seeds : list (fact * Q) := [((0, 5, 1), (1 # 2)%Q); ((1, 5, 2), (3 # 4)%Q); ((0, 5, 2), (1 # 4)%Q)].

Example C06_example :
  safe e_rules = true /\ NoDup (map fst e_seeds) /\ has_zero_seed e_seeds = false /\
  (exists all ts, infer dnf_prov 20 e_rules e_facts e_seeds = Some (all, ts) /\ In (0, 6, 3) all /\
                  (fact_prob dnf_prov e_seeds ts (0, 6, 3)%N == 17 # 32)%Q) /\
  (exists all ts, infer minmax_prov 20 e_rules e_facts e_seeds = Some (all, ts) /\
                  (fact_prob minmax_prov e_seeds ts (0, 6, 3)%N == 1 # 2)%Q) /\
  (exists all ts, infer bool_prov 20 e_rules e_facts e_seeds = Some (all, ts) /\ In (0, 6, 3) all).
Proof.
  split; [reflexivity|]. split; [repeat constructor; simpl; intuition congruence|]. split; [reflexivity|].
  split; [|split].
  - eexists; eexists. split; [vm_compute; reflexivity|]. split; [simpl; tauto | vm_compute; reflexivity].
  - eexists; eexists. split; [vm_compute; reflexivity | vm_compute; reflexivity].
  - eexists; eexists. split; [vm_compute; reflexivity | simpl; tauto].
Qed.
