(* Facts about the possible-worlds sum of Spec.v:
     world_prob table g  ==  pw_sum 0 table g     (expectation computed variable by variable),
     it is monotone / extensional in g, world_prob table (fun _ => 1) == 1 (the weights of all worlds add up to one),
     and 0 <= world_prob table g <= 1 for 0 <= g <= 1 when every table entry lies in [0,1]. *)
Require Import Lqa.
Require Import KV.Prov.Model KV.Prov.Instances KV.Prov.Spec.
Open Scope Q_scope.

Lemma sumQ_plain : forall l, sumQ l == fold_right Qplus 0 l.
Proof.
  induction l as [|x l IH]; [reflexivity|].
  change (sumQ (x :: l)) with (Qred (x + sumQ l)). rewrite Qred_correct, IH. reflexivity.
Qed.

Lemma sumQ_cons : forall x l, sumQ (x :: l) == x + sumQ l.
Proof. intros. change (sumQ (x :: l)) with (Qred (x + sumQ l)). apply Qred_correct. Qed.

Lemma sumQ_app : forall l m, sumQ (l ++ m) == sumQ l + sumQ m.
Proof.
  induction l as [|x l IH]; intros m.
  - simpl app. change (sumQ []) with 0. ring.
  - simpl app. rewrite !sumQ_cons, IH. ring.
Qed.

Lemma sumQ_map_ext : forall {A} (f g : A -> Q) l, (forall x, In x l -> f x == g x) -> sumQ (map f l) == sumQ (map g l).
Proof.
  intros A f g l; induction l as [|x l IH]; intros H; [reflexivity|].
  simpl map. rewrite !sumQ_cons, IH, (H x); [reflexivity | left; reflexivity | intros; apply H; right; assumption].
Qed.

Lemma sumQ_map_scale : forall {A} (c : Q) (f : A -> Q) l, sumQ (map (fun x => c * f x) l) == c * sumQ (map f l).
Proof.
  intros A c f l; induction l as [|x l IH]; [change (sumQ (map _ [])) with 0; change (sumQ (map f [])) with 0; ring|].
  simpl map. rewrite !sumQ_cons, IH. ring.
Qed.

(* expectation, one variable at a time (variable i first) *)
Fixpoint pw_sum (i : N) (ps : list Q) (g : N -> Q) : Q :=
  match ps with
  | [] => g 0%N
  | p :: ps' => p * pw_sum (N.succ i) ps' (fun W => g (N.setbit W i))
                + (1 - p) * pw_sum (N.succ i) ps' (fun W => g (N.clearbit W i))
  end.

Lemma pw_sum_ext : forall ps i g g', (forall W, g W == g' W) -> pw_sum i ps g == pw_sum i ps g'.
Proof.
  induction ps as [|p ps IH]; intros i g g' H; simpl; [apply H|].
  rewrite (IH (N.succ i) (fun W => g (N.setbit W i)) (fun W => g' (N.setbit W i))) by (intros; apply H).
  rewrite (IH (N.succ i) (fun W => g (N.clearbit W i)) (fun W => g' (N.clearbit W i))) by (intros; apply H).
  reflexivity.
Qed.

Lemma pw_sum_const : forall ps i c, pw_sum i ps (fun _ => c) == c.
Proof. induction ps as [|p ps IH]; intros i c; simpl; [reflexivity|]. rewrite !IH. ring. Qed.

Definition table_ok (ps : list Q) : Prop := forall p, In p ps -> 0 <= p <= 1.

Lemma pw_sum_bounds : forall ps i g, table_ok ps -> (forall W, 0 <= g W <= 1) -> 0 <= pw_sum i ps g <= 1.
Proof.
  induction ps as [|p ps IH]; intros i g Hok Hg; simpl; [apply Hg|].
  assert (Hp : 0 <= p <= 1) by (apply Hok; left; reflexivity).
  assert (Hok' : table_ok ps) by (intros q Hq; apply Hok; right; exact Hq).
  destruct (IH (N.succ i) (fun W => g (N.setbit W i)) Hok' (fun W => Hg _)) as [A0 A1].
  destruct (IH (N.succ i) (fun W => g (N.clearbit W i)) Hok' (fun W => Hg _)) as [B0 B1].
  set (A := pw_sum (N.succ i) ps (fun W => g (N.setbit W i))) in *.
  set (B := pw_sum (N.succ i) ps (fun W => g (N.clearbit W i))) in *.
  destruct Hp as [P0 P1]. split.
  - apply Qle_trans with (0 + 0); [discriminate|]. apply Qplus_le_compat; apply Qmult_le_0_compat; auto; lra.
  - assert (H1 : A * p <= 1 * p) by (apply Qmult_le_compat_r; auto).
    assert (H2 : B * (1 - p) <= 1 * (1 - p)) by (apply Qmult_le_compat_r; [auto | lra]).
    lra.
Qed.

(* ---- worlds and weights ------------------------------------------------------------------------------ *)
Lemma weight_agree : forall ps i W W',
    (forall j, (i <= j)%N -> N.testbit W j = N.testbit W' j) -> weight i ps W = weight i ps W'.
Proof.
  induction ps as [|p ps IH]; intros i W W' H; simpl; [reflexivity|].
  rewrite (H i (N.le_refl i)). rewrite (IH (N.succ i) W W'); [reflexivity|].
  intros j Hj. apply H. apply N.le_trans with (N.succ i); [apply N.le_succ_diag_r | exact Hj].
Qed.

Lemma worlds_low : forall ps i W, In W (worlds i ps) -> forall j, (j < i)%N -> N.testbit W j = false.
Proof.
  induction ps as [|p ps IH]; intros i W HW j Hj; simpl in HW.
  - destruct HW as [<-|[]]. apply N.bits_0.
  - apply in_app_or in HW as [HW|HW].
    + apply in_map_iff in HW as [W0 [<- HW0]]. rewrite N.setbit_neq by (intros ->; apply (N.lt_irrefl _ Hj)).
      apply (IH (N.succ i) W0 HW0). apply N.lt_trans with i; [exact Hj | apply N.lt_succ_diag_r].
    + apply (IH (N.succ i) W HW). apply N.lt_trans with i; [exact Hj | apply N.lt_succ_diag_r].
Qed.

Lemma clearbit_clear : forall W i, N.testbit W i = false -> N.clearbit W i = W.
Proof.
  intros W i H. apply N.bits_inj; intros j. rewrite N.clearbit_eqb.
  destruct (N.eqb_spec i j) as [->|Hne]; simpl; [rewrite H; reflexivity | apply andb_true_r].
Qed.

Definition world_sum (i : N) (ps : list Q) (g : N -> Q) : Q :=
  sumQ (map (fun W => weight i ps W * g W) (worlds i ps)).

Lemma world_sum_pw : forall ps i g, world_sum i ps g == pw_sum i ps g.
Proof.
  induction ps as [|p ps IH]; intros i g; unfold world_sum.
  - cbn [worlds map weight pw_sum]. rewrite sumQ_cons. change (sumQ []) with 0. ring.
  - cbn [worlds pw_sum]. rewrite map_app, sumQ_app, map_map.
    rewrite <- (IH (N.succ i) (fun W => g (N.setbit W i))), <- (IH (N.succ i) (fun W => g (N.clearbit W i))).
    unfold world_sum. rewrite <- !sumQ_map_scale.
    apply Qplus_comp.
    + apply sumQ_map_ext. intros W HW. cbn [weight]. rewrite N.setbit_eq.
      rewrite (weight_agree ps (N.succ i) (N.setbit W i) W).
      * ring.
      * intros j Hj. apply N.setbit_neq. intros ->. apply (N.nle_succ_diag_l _ Hj).
    + apply sumQ_map_ext. intros W HW. cbn [weight].
      assert (Hb : N.testbit W i = false) by (apply (worlds_low ps (N.succ i) W HW); apply N.lt_succ_diag_r).
      rewrite Hb, (clearbit_clear W i Hb). ring.
Qed.

Theorem world_prob_pw : forall table g, world_prob table g == pw_sum 0 table g.
Proof. intros; apply (world_sum_pw table 0%N g). Qed.

Lemma world_prob_ext : forall table g g', (forall W, g W == g' W) -> world_prob table g == world_prob table g'.
Proof. intros. rewrite !world_prob_pw. apply pw_sum_ext; assumption. Qed.

Lemma world_prob_total : forall table, world_prob table (fun _ => 1) == 1.
Proof. intros. rewrite world_prob_pw. apply pw_sum_const. Qed.

Lemma world_prob_bounds : forall table g, table_ok table -> (forall W, 0 <= g W <= 1) -> 0 <= world_prob table g <= 1.
Proof. intros table g H1 H2. rewrite world_prob_pw. apply pw_sum_bounds; assumption. Qed.

Lemma ind_bounds : forall b, 0 <= ind b <= 1.
Proof. intros [|]; simpl; split; discriminate. Qed.

(* clamping *)
Lemma Qclamp01_id : forall x, 0 <= x <= 1 -> Qclamp01 x == x.
Proof.
  intros x [H0 H1]; unfold Qclamp01.
  destruct (Qle_bool x 0) eqn:E0; [apply Qle_bool_iff in E0; lra|].
  destruct (Qle_bool 1 x) eqn:E1; [apply Qle_bool_iff in E1; lra | reflexivity].
Qed.

Lemma Qclamp01_range : forall x, 0 <= Qclamp01 x <= 1.
Proof.
  intros x; unfold Qclamp01.
  destruct (Qle_bool x 0) eqn:E0; [split; discriminate|].
  destruct (Qle_bool 1 x) eqn:E1; [split; discriminate|].
  split.
  - destruct (Qlt_le_dec x 0) as [H|H]; [|exact H]. apply Qlt_le_weak in H. apply Qle_bool_iff in H. congruence.
  - destruct (Qlt_le_dec 1 x) as [H|H]; [|exact H]. apply Qlt_le_weak in H. apply Qle_bool_iff in H. congruence.
Qed.

Lemma Qle_bool_compat : forall a b a' b', a == a' -> b == b' -> Qle_bool a b = Qle_bool a' b'.
Proof.
  intros a b a' b' Ha Hb. apply Bool.eq_iff_eq_true. rewrite !Qle_bool_iff, Ha, Hb. reflexivity.
Qed.

Lemma Qclamp01_compat : forall x y, x == y -> Qclamp01 x == Qclamp01 y.
Proof.
  intros x y H; unfold Qclamp01.
  rewrite (Qle_bool_compat x 0 y 0 H (Qeq_refl 0)), (Qle_bool_compat 1 x 1 y (Qeq_refl 1) H).
  destruct (Qle_bool y 0); [reflexivity|]. destruct (Qle_bool 1 y); [reflexivity | exact H].
Qed.

Lemma world_prob_ext_in : forall table g g',
    (forall W, In W (worlds 0 table) -> g W == g' W) -> world_prob table g == world_prob table g'.
Proof.
  intros table g g' H. unfold world_prob. apply sumQ_map_ext. intros W HW. rewrite (H W HW). reflexivity.
Qed.

(* the world in which every uncertain input is present *)
Fixpoint top_world (i : N) (ps : list Q) : N :=
  match ps with [] => 0%N | _ :: ps' => N.setbit (top_world (N.succ i) ps') i end.

Lemma top_world_in : forall ps i, In (top_world i ps) (worlds i ps).
Proof.
  induction ps as [|p ps IH]; intros i; simpl; [left; reflexivity|].
  apply in_or_app; left. apply in_map_iff. exists (top_world (N.succ i) ps); split; [reflexivity | apply IH].
Qed.

Lemma top_world_bits : forall ps i j, (i <= j < i + N.of_nat (length ps))%N -> N.testbit (top_world i ps) j = true.
Proof.
  induction ps as [|p ps IH]; intros i j Hj; simpl in *; [lia|].
  destruct (N.eq_dec i j) as [->|Hne]; [apply N.setbit_eq|].
  rewrite N.setbit_neq by exact Hne. apply IH. lia.
Qed.
