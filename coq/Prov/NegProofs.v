(* The negative stratum pass, for tag structures that represent Boolean functions exactly (exact_bf) and whose
   negate denotes Boolean negation: provided no conclusion of a rule with negation is a fact of the positive
   fixpoint (the class in which a single pass suffices), after the pass
     - the tags of the positive fixpoint are untouched,
     - a new fact c is stored with a tag true in world W exactly when some instance of a rule with negation
       concludes c, has all its positive premises derivable in W and none of its negated atoms derivable in W,
     - hence its reported probability is the total weight of those worlds. *)
Require Import KV.Prov.Model KV.Prov.Instances KV.Prov.Spec KV.Prov.Annot KV.Prov.BasicFacts KV.Prov.ProvProofs
        KV.Prov.HomProofs KV.Prov.DnfProofs KV.Prov.SpecFacts KV.Prov.SeedProofs KV.Prov.MatcherProofs KV.Prov.InstProofs KV.Prov.Negation.
Open Scope N_scope.

Definition safe_nrule (r : nrule) : bool :=
  forallb (fun x => nmem x (flat_map atom_vars (prem (nbase r))))
          (flat_map atom_vars (concl (nbase r)) ++ flat_map atom_vars (nneg r)).

(* c is derivable by one application of a rule with negation over the positive closure of [base] *)
Definition neg_derivable (rules : list rule) (nrules : list nrule) (base : fact -> Prop) (c : fact) : Prop :=
  exists r s, In r nrules /\ In c (map (sub_atom s) (concl (nbase r))) /\
              (forall m, In m (map (sub_atom s) (prem (nbase r))) -> Deriv rules base m) /\
              (forall m, In m (map (sub_atom s) (nneg r)) -> ~ Deriv rules base m).

Lemma atom_bound_covers : forall b a, atom_bound b a = true <-> covers b a.
Proof.
  intros b a; unfold atom_bound, covers, bound. rewrite forallb_forall. split; intros H x Hx; specialize (H x Hx).
  - destruct (lookup x b); [discriminate | discriminate].
  - destruct (lookup x b); [reflexivity | congruence].
Qed.

Lemma safe_nrule_covers : forall r b, safe_nrule r = true -> (forall a, In a (prem (nbase r)) -> covers b a) ->
    (forall a, In a (concl (nbase r)) -> covers b a) /\ (forall a, In a (nneg r) -> covers b a).
Proof.
  intros r b Hs Hc. unfold safe_nrule in Hs. rewrite forallb_forall in Hs.
  assert (H : forall x, In x (flat_map atom_vars (concl (nbase r)) ++ flat_map atom_vars (nneg r)) -> bound b x).
  { intros x Hx. specialize (Hs x Hx). unfold nmem in Hs. apply existsb_exists in Hs as [y [Hy E]]. apply N.eqb_eq in E; subst y.
    apply in_flat_map in Hy as [a [Ha Hxa]]. apply (Hc a Ha x Hxa). }
  split; intros a Ha x Hx; apply H; apply in_or_app; [left | right]; apply in_flat_map; exists a; auto.
Qed.

Section NegExact.
  Context {K : Type} (P : provenance K) (neg : K -> K).
  Variables (rules : list rule) (nrules : list nrule) (facts : list fact) (sorted : list (fact * Q)) (table : list Q).
  Variables (all : list fact) (ts : tstore (K:=K)).          (* the positive fixpoint *)
  Variables (n : N) (den : N -> K -> bool) (inv : K -> Prop).
  Hypothesis E : exact_bf P n table den inv.
  Hypothesis den_neg : forall W a, In W (worlds 0 table) -> den W (neg a) = negb (den W a).
  Hypothesis inv_neg : forall a, inv a -> inv (neg a).
  Hypothesis inv_zero : inv (zero P).

  (* what the positive stage established (C06_sdd_worlds) *)
  Hypothesis Hworlds : forall W, In W (worlds 0 table) -> forall f,
        (In f all /\ den W (get_tag P ts f) = true) <-> Deriv rules (in_world facts sorted W) f.
  Hypothesis Hinv : forall f, In f all -> inv (get_tag P ts f).
  (* the class: conclusions of rules with negation are not facts of the positive fixpoint *)
  Hypothesis Hfresh : forall r s c, In r nrules -> In c (map (sub_atom s) (concl (nbase r))) -> ~ In c all.
  Hypothesis Hsafe : forall r, In r nrules -> safe_nrule r = true.

  Variable W : N.
  Hypothesis HW : In W (worlds 0 table).

  Notation tag := (get_tag P).
  Let DW := Deriv rules (in_world facts sorted W).

  Lemma den_update : forall ts1 c k,
      den W (tag (fst (update_disjunction P ts1 c k)) c) = den W (tag ts1 c) || den W k.
  Proof.
    intros ts1 c k. unfold update_disjunction.
    destruct (eqb P (tag ts1 c) (plus P (tag ts1 c) k)) eqn:Eq; simpl.
    - rewrite (bf_eqb _ _ _ _ _ E W _ _ HW Eq) at 1. apply (bf_plus _ _ _ _ _ E W _ _ HW).
    - rewrite get_tag_set_tag, fact_eqb_refl.
      destruct (eqb P (plus P (tag ts1 c) k) (one P)) eqn:E1.
      + rewrite <- (bf_eqb _ _ _ _ _ E W _ _ HW E1). apply (bf_plus _ _ _ _ _ E W _ _ HW).
      + apply (bf_plus _ _ _ _ _ E W _ _ HW).
  Qed.

  Lemma update_other : forall ts1 c k g, g <> c -> tag (fst (update_disjunction P ts1 c k)) g = tag ts1 g.
  Proof.
    intros ts1 c k g Hne. unfold update_disjunction.
    destruct (eqb P (tag ts1 c) (plus P (tag ts1 c) k)); simpl; [reflexivity | apply get_tag_set_tag_other; exact Hne].
  Qed.

  Lemma inv_update : forall ts1 c k, inv (tag ts1 c) -> inv k -> inv (tag (fst (update_disjunction P ts1 c k)) c).
  Proof.
    intros ts1 c k H1 H2. unfold update_disjunction.
    destruct (eqb P (tag ts1 c) (plus P (tag ts1 c) k)); simpl; [exact H1|].
    rewrite get_tag_set_tag, fact_eqb_refl.
    destruct (eqb P (plus P (tag ts1 c) k) (one P)); [apply (bf_inv_one _ _ _ _ _ E) | apply (bf_inv_plus _ _ _ _ _ E); assumption].
  Qed.

  (* ---- accumulated meaning of the pass state ---------------------------------------------------------- *)
  Record Acc (S : fact -> Prop) (st : nstate (K:=K)) : Prop := {
    acc_frame : forall f, In f all -> tag (fst st) f = tag ts f;
    acc_disj : forall c, In c (snd st) -> ~ In c all;
    acc_sem : forall c, ~ In c all -> ((In c (snd st) /\ den W (tag (fst st) c) = true) <-> S c);
    acc_inv : forall c, In c (snd st) -> inv (tag (fst st) c)
  }.

  Lemma Acc_ext : forall S S' st, (forall c, S c <-> S' c) -> Acc S st -> Acc S' st.
  Proof. intros S S' st H [A1 A2 A3 A4]; constructor; auto. intros c Hc. rewrite (A3 c Hc). apply H. Qed.

  Lemma neg_concl_acc : forall S st ctag c0, ~ In c0 all -> inv ctag -> Acc S st ->
      Acc (fun c => S c \/ (c = c0 /\ den W ctag = true)) (neg_concl P all ctag st c0).
  Proof.
    intros S [ts1 nd] ctag c0 Hn Hi [A1 A2 A3 A4]; simpl in *. unfold neg_concl.
    assert (Em : mem c0 all = false) by (apply mem_false; exact Hn). rewrite Em. simpl negb. simpl andb.
    destruct (mem c0 nd) eqn:End; simpl.
    - apply mem_In in End. constructor; simpl.
      + intros f Hf. rewrite update_other; [apply A1; exact Hf | intros ->; contradiction].
      + exact A2.
      + intros c Hc. destruct (fact_eq_dec c c0) as [->|Hne].
        * rewrite den_update, orb_true_iff. rewrite <- (A3 c0 Hc). tauto.
        * rewrite update_other by exact Hne. rewrite (A3 c Hc). intuition congruence.
      + intros c Hc. destruct (fact_eq_dec c c0) as [->|Hne]; [apply inv_update; auto | rewrite update_other by exact Hne; auto].
    - apply mem_false in End. constructor; simpl.
      + intros f Hf. rewrite get_tag_set_tag_other; [apply A1; exact Hf | intros ->; contradiction].
      + intros c Hc. apply in_app_or in Hc as [Hc|[<-|[]]]; auto.
      + intros c Hc. destruct (fact_eq_dec c c0) as [->|Hne].
        * rewrite get_tag_set_tag, fact_eqb_refl.
          assert (Hd : den W (if eqb P ctag (one P) then one P else ctag) = den W ctag).
          { destruct (eqb P ctag (one P)) eqn:E1; [symmetry; apply (bf_eqb _ _ _ _ _ E W _ _ HW E1) | reflexivity]. }
          rewrite Hd. split.
          -- intros [_ H]; right; auto.
          -- intros [H|[_ H]]; [apply (A3 c0 Hc) in H as [H _]; contradiction | split; [apply in_or_app; right; left; reflexivity | exact H]].
        * rewrite get_tag_set_tag_other by exact Hne. rewrite <- (A3 c Hc). rewrite in_app_iff. simpl. intuition congruence.
      + intros c Hc. destruct (fact_eq_dec c c0) as [->|Hne].
        * rewrite get_tag_set_tag, fact_eqb_refl. destruct (eqb P ctag (one P)); [apply (bf_inv_one _ _ _ _ _ E) | exact Hi].
        * rewrite get_tag_set_tag_other by exact Hne. apply A4. apply in_app_or in Hc as [Hc|[Hc|[]]]; [exact Hc | congruence].
  Qed.

  Lemma fold_concl_acc : forall ctag cs S st, (forall c, In c cs -> ~ In c all) -> inv ctag -> Acc S st ->
      Acc (fun c => S c \/ (In c cs /\ den W ctag = true)) (fold_left (neg_concl P all ctag) cs st).
  Proof.
    intros ctag cs; induction cs as [|c0 cs IH]; intros S st Hn Hi HA; simpl.
    - eapply Acc_ext; [|exact HA]. intros c; tauto.
    - eapply Acc_ext; [|apply IH; [intros; apply Hn; right; assumption | exact Hi | apply neg_concl_acc; [apply Hn; left; reflexivity | exact Hi | exact HA]]].
      intros c; simpl. intuition (subst; auto).
  Qed.

  (* ---- one binding ------------------------------------------------------------------------------------------ *)
  (* the conclusion tag computed against the positive fixpoint *)
  Definition ctag_of (r : nrule) (b : bind) : K :=
    times P (conj_tags P ts (map (subst_atom b) (prem (nbase r)))) (neg_fold P neg all ts b (one P) (nneg r)).

  Lemma neg_contrib_frame : forall ts1 b a, (forall f, In f all -> tag ts1 f = tag ts f) ->
      neg_contrib P neg all ts1 b a = neg_contrib P neg all ts b a.
  Proof.
    intros ts1 b a Hf. unfold neg_contrib. destruct (atom_bound b a); [|reflexivity].
    destruct (mem (subst_atom b a) all) eqn:Em; [|reflexivity]. apply mem_In in Em. rewrite (Hf _ Em). reflexivity.
  Qed.

  Lemma neg_fold_frame : forall ts1 b negs acc, (forall f, In f all -> tag ts1 f = tag ts f) ->
      neg_fold P neg all ts1 b acc negs = neg_fold P neg all ts b acc negs.
  Proof.
    intros ts1 b negs; induction negs as [|a negs IH]; intros acc Hf; simpl; [reflexivity|].
    rewrite (neg_contrib_frame ts1 b a Hf). destruct (eqb P _ (zero P)); [reflexivity | apply IH; exact Hf].
  Qed.

  Lemma den_neg_fold : forall b negs acc,
      den W (neg_fold P neg all ts b acc negs) = den W acc && forallb (fun a => den W (neg_contrib P neg all ts b a)) negs.
  Proof.
    intros b negs; induction negs as [|a negs IH]; intros acc; simpl; [rewrite andb_true_r; reflexivity|].
    destruct (eqb P (times P acc (neg_contrib P neg all ts b a)) (zero P)) eqn:Ez.
    - rewrite (bf_eqb _ _ _ _ _ E W _ _ HW Ez), (bf_zero _ _ _ _ _ E W HW).
      assert (H0 : den W (times P acc (neg_contrib P neg all ts b a)) = false)
        by (rewrite (bf_eqb _ _ _ _ _ E W _ _ HW Ez); apply (bf_zero _ _ _ _ _ E W HW)).
      rewrite (bf_times _ _ _ _ _ E W _ _ HW) in H0. rewrite andb_assoc, H0. reflexivity.
    - rewrite IH, (bf_times _ _ _ _ _ E W _ _ HW), andb_assoc. reflexivity.
  Qed.

  Lemma inv_conj_tags : forall ms, incl ms all -> inv (conj_tags P ts ms).
  Proof.
    intros ms Hinc. unfold conj_tags. assert (H1 : inv (one P)) by apply (bf_inv_one _ _ _ _ _ E). revert H1. generalize (one P) as acc.
    induction ms as [|m ms IH]; intros acc Hacc; simpl; [exact Hacc|].
    apply IH; [intros x Hx; apply Hinc; right; exact Hx|].
    apply (bf_inv_times _ _ _ _ _ E); [exact Hacc | apply Hinv; apply Hinc; left; reflexivity].
  Qed.

  Lemma inv_neg_contrib : forall b a, inv (neg_contrib P neg all ts b a).
  Proof.
    intros b a. unfold neg_contrib. destruct (atom_bound b a); [|exact inv_zero].
    destruct (mem (subst_atom b a) all) eqn:Em; [|apply (bf_inv_one _ _ _ _ _ E)].
    apply inv_neg, Hinv. apply mem_In; exact Em.
  Qed.

  Lemma inv_neg_fold : forall b negs acc, inv acc -> inv (neg_fold P neg all ts b acc negs).
  Proof.
    intros b negs; induction negs as [|a negs IH]; intros acc Hacc; simpl; [exact Hacc|].
    assert (H : inv (times P acc (neg_contrib P neg all ts b a))) by (apply (bf_inv_times _ _ _ _ _ E); [exact Hacc | apply inv_neg_contrib]).
    destruct (eqb P _ (zero P)); [exact H | apply IH; exact H].
  Qed.

  Definition fires (r : nrule) (b : bind) (c : fact) : Prop :=
    In c (map (subst_atom b) (concl (nbase r))) /\ den W (ctag_of r b) = true.

  Lemma neg_binding_acc : forall r b S st, In r nrules ->
      incl (map (subst_atom b) (prem (nbase r))) all ->
      Acc S st -> Acc (fun c => S c \/ fires r b c) (neg_binding P neg all r st b).
  Proof.
    intros r b S st Hr Hinc HA. unfold neg_binding.
    assert (Hfr := acc_frame _ _ HA).
    assert (Hpos : conj_tags P (fst st) (map (subst_atom b) (prem (nbase r))) = conj_tags P ts (map (subst_atom b) (prem (nbase r)))).
    { apply conj_tags_ext. intros m Hm. apply Hfr. apply Hinc; exact Hm. }
    rewrite Hpos, (neg_fold_frame (fst st) b (nneg r) (one P) Hfr). fold (ctag_of r b).
    assert (Hnofire : den W (ctag_of r b) = false -> Acc (fun c => S c \/ fires r b c) st).
    { intros H0. eapply Acc_ext; [|exact HA]. intros c. unfold fires. rewrite H0. intuition discriminate. }
    destruct (eqb P (conj_tags P ts (map (subst_atom b) (prem (nbase r)))) (zero P)) eqn:Ez.
    - apply Hnofire. unfold ctag_of. rewrite (bf_times _ _ _ _ _ E W _ _ HW), (bf_eqb _ _ _ _ _ E W _ _ HW Ez), (bf_zero _ _ _ _ _ E W HW). reflexivity.
    - destruct (eqb P (ctag_of r b) (zero P)) eqn:Ec.
      + apply Hnofire. rewrite (bf_eqb _ _ _ _ _ E W _ _ HW Ec). apply (bf_zero _ _ _ _ _ E W HW).
      + eapply Acc_ext; [|apply fold_concl_acc; [| |exact HA]].
        * intros c. unfold fires. tauto.
        * intros c Hc. rewrite (map_ext _ _ (subst_total b)) in Hc. apply (Hfresh r (total_of b) c Hr Hc).
        * unfold ctag_of. apply (bf_inv_times _ _ _ _ _ E); [apply inv_conj_tags; exact Hinc | apply inv_neg_fold, (bf_inv_one _ _ _ _ _ E)].
  Qed.

  Lemma fold_binding_acc : forall r bs S st, In r nrules ->
      (forall b, In b bs -> incl (map (subst_atom b) (prem (nbase r))) all) ->
      Acc S st -> Acc (fun c => S c \/ exists b, In b bs /\ fires r b c) (fold_left (neg_binding P neg all r) bs st).
  Proof.
    intros r bs; induction bs as [|b bs IH]; intros S st Hr Hb HA; simpl.
    - eapply Acc_ext; [|exact HA]. intros c; split; [auto | intros [H|[b [[] _]]]; exact H].
    - eapply Acc_ext; [|apply IH; [exact Hr | intros; apply Hb; right; assumption | apply neg_binding_acc; [exact Hr | apply Hb; left; reflexivity | exact HA]]].
      intros c; simpl. split.
      + intros [[H|H]|[b' [H1 H2]]]; [auto | right; exists b; auto | right; exists b'; auto].
      + intros [H|[b' [[<-|H1] H2]]]; [auto | auto | right; exists b'; auto].
  Qed.

  Lemma all_bindings_sound : forall ps b, In b (all_bindings ps all) ->
      forall a, In a ps -> covers b a /\ In (subst_atom b a) all.
  Proof.
    intros ps b Hb a Ha. unfold all_bindings in Hb. destruct (fold_join_sound _ _ _ _ Hb) as [b0 [_ [_ HL]]].
    destruct (HL a Ha) as [Hc [f [Hf Hs]]]. split; [exact Hc | rewrite (Hs b (ext_refl b)); exact Hf].
  Qed.

  Lemma pass_acc : forall rs S st, incl rs nrules -> Acc S st ->
      Acc (fun c => S c \/ exists r b, In r rs /\ In b (all_bindings (prem (nbase r)) all) /\ fires r b c)
          (fold_left (neg_rule P neg all) rs st).
  Proof.
    induction rs as [|r rs IH]; intros S st Hrs HA; simpl.
    - eapply Acc_ext; [|exact HA]. intros c; split; [auto | intros [H|[r [b [[] _]]]]; exact H].
    - assert (Hr : In r nrules) by (apply Hrs; left; reflexivity).
      eapply Acc_ext; [|apply IH; [intros x Hx; apply Hrs; right; exact Hx|]].
      2:{ unfold neg_rule. apply fold_binding_acc; [exact Hr | | exact HA].
          intros b Hb m Hm. apply in_map_iff in Hm as [a [<- Ha]]. apply (all_bindings_sound _ b Hb a Ha). }
      intros c; simpl. split.
      + intros [[H|[b [H1 H2]]]|[r' [b [H1 [H2 H3]]]]]; [auto | right; exists r, b; auto | right; exists r', b; auto].
      + intros [H|[r' [b [[<-|H1] [H2 H3]]]]]; [auto | left; right; exists b; auto | right; exists r', b; auto].
  Qed.

  (* ---- meaning of one firing ----------------------------------------------------------------------------------- *)
  Lemma den_contrib : forall b a, covers b a ->
      (den W (neg_contrib P neg all ts b a) = true <-> ~ DW (subst_atom b a)).
  Proof.
    intros b a Hc. unfold neg_contrib. rewrite (proj2 (atom_bound_covers b a) Hc).
    destruct (mem (subst_atom b a) all) eqn:Em.
    - apply mem_In in Em. rewrite den_neg by exact HW. rewrite negb_true_iff. unfold DW.
      rewrite <- (Hworlds W HW (subst_atom b a)). split.
      + intros H [_ H']. congruence.
      + intros H. destruct (den W (tag ts (subst_atom b a))) eqn:Ed; [exfalso; apply H; auto | reflexivity].
    - apply mem_false in Em. rewrite (bf_one _ _ _ _ _ E W HW). split; [|reflexivity].
      intros _ HD. apply Em. apply (Hworlds W HW (subst_atom b a)). exact HD.
  Qed.

  Lemma fires_spec : forall r b c, In r nrules -> In b (all_bindings (prem (nbase r)) all) ->
      (fires r b c <->
       In c (map (subst_atom b) (concl (nbase r))) /\
       (forall m, In m (map (subst_atom b) (prem (nbase r))) -> DW m) /\
       (forall m, In m (map (subst_atom b) (nneg r)) -> ~ DW m)).
  Proof.
    intros r b c Hr Hb. unfold fires, ctag_of.
    rewrite (bf_times _ _ _ _ _ E W _ _ HW), andb_true_iff, den_neg_fold, (bf_one _ _ _ _ _ E W HW), andb_true_l.
    assert (Hcov : forall a, In a (prem (nbase r)) -> covers b a) by (intros a Ha; apply (all_bindings_sound _ b Hb a Ha)).
    destruct (safe_nrule_covers r b (Hsafe r Hr) Hcov) as [_ Hcn].
    assert (Hpos : den W (conj_tags P ts (map (subst_atom b) (prem (nbase r)))) = true <->
                   forall m, In m (map (subst_atom b) (prem (nbase r))) -> DW m).
    { rewrite conj_tags_prod.
      rewrite (den_prod P N (fun W => In W (worlds 0 table)) den (bf_one _ _ _ _ _ E) (bf_times _ _ _ _ _ E) W _ _ HW).
      rewrite forallb_forall. split.
      - intros H m Hm. apply (Hworlds W HW m). split; [|apply H; exact Hm].
        apply in_map_iff in Hm as [a [<- Ha]]. apply (all_bindings_sound _ b Hb a Ha).
      - intros H m Hm. apply (Hworlds W HW m). apply H; exact Hm. }
    assert (Hneg : forallb (fun a => den W (neg_contrib P neg all ts b a)) (nneg r) = true <->
                   forall m, In m (map (subst_atom b) (nneg r)) -> ~ DW m).
    { rewrite forallb_forall. split.
      - intros H m Hm. apply in_map_iff in Hm as [a [<- Ha]]. apply (den_contrib b a (Hcn a Ha)). apply H; exact Ha.
      - intros H a Ha. apply (den_contrib b a (Hcn a Ha)). apply H. apply in_map; exact Ha. }
    rewrite Hpos, Hneg. tauto.
  Qed.

  (* ---- the pass -------------------------------------------------------------------------------------------------- *)
  Theorem neg_pass_exact : forall ts' nd, neg_pass P neg nrules all ts = (ts', nd) ->
      (forall f, In f all -> tag ts' f = tag ts f) /\
      (forall c, In c nd -> ~ In c all /\ inv (tag ts' c)) /\
      (forall c, ~ In c all -> ((In c nd /\ den W (tag ts' c) = true) <-> neg_derivable rules nrules (in_world facts sorted W) c)).
  Proof.
    intros ts' nd Hrun. unfold neg_pass in Hrun.
    assert (H0 : Acc (fun _ => False) (ts, [])).
    { constructor; simpl; [reflexivity | intros c [] | intros c _; tauto | intros c []]. }
    pose proof (pass_acc nrules _ _ (incl_refl _) H0) as [A1 A2 A3 A4]. rewrite Hrun in *. simpl in *.
    split; [exact A1|]. split; [intros c Hc; split; [apply A2 | apply A4]; exact Hc|].
    intros c Hc. rewrite (A3 c Hc). split.
    - intros [[]|[r [b [Hr [Hb Hf]]]]]. apply (fires_spec r b c Hr Hb) in Hf as [F1 [F2 F3]].
      exists r, (total_of b). rewrite <- !(map_ext _ _ (subst_total b)). auto.
    - intros [r [s [Hr [Hc1 [Hp Hn]]]]]. right.
      (* a binding that agrees with s *)
      assert (Hall : forall a, In a (prem (nbase r)) -> In (sub_atom s a) all).
      { intros a Ha. apply (Hworlds W HW (sub_atom s a)). apply Hp. apply in_map; exact Ha. }
      destruct (fold_join_complete all (prem (nbase r)) s [[]] [] (or_introl eq_refl)) as [b [Hb Hag]];
        [intros x v H; discriminate | exact Hall|].
      fold (all_bindings (prem (nbase r)) all) in Hb.
      assert (Hcov : forall a, In a (prem (nbase r)) -> covers b a) by (intros a Ha; apply (all_bindings_sound _ b Hb a Ha)).
      destruct (safe_nrule_covers r b (Hsafe r Hr) Hcov) as [Hcc Hcn].
      assert (Hm1 : map (subst_atom b) (prem (nbase r)) = map (sub_atom s) (prem (nbase r)))
        by (apply map_ext_in; intros a Ha; apply subst_agrees; auto).
      assert (Hm2 : map (subst_atom b) (concl (nbase r)) = map (sub_atom s) (concl (nbase r)))
        by (apply map_ext_in; intros a Ha; apply subst_agrees; auto).
      assert (Hm3 : map (subst_atom b) (nneg r) = map (sub_atom s) (nneg r))
        by (apply map_ext_in; intros a Ha; apply subst_agrees; auto).
      exists r, b. split; [exact Hr|]. split; [exact Hb|]. apply (fires_spec r b c Hr Hb). rewrite Hm1, Hm2, Hm3. auto.
  Qed.
End NegExact.

(* ================= the whole run with negation ============================================================== *)
Section NegRun.
  Context {K : Type} (P : provenance K) (neg : K -> K).
  Variables (fuel : nat) (rules : list rule) (nrules : list nrule) (facts : list fact) (seeds : list (fact * Q)).
  Variables (all : list fact) (ts : tstore (K:=K)) (all' : list fact) (ts' : tstore (K:=K)).
  Hypothesis Hsafe : safe rules = true.
  Hypothesis Hnsafe : forall r, In r nrules -> safe_nrule r = true.
  Hypothesis Hnd : NoDup (map fst seeds).
  Hypothesis Hrun0 : infer P fuel rules facts seeds = Some (all, ts).
  Hypothesis Hrun : infer_neg P neg fuel rules nrules facts seeds = Some (all', ts').
  Hypothesis Hfresh : forall r s c, In r nrules -> In c (map (sub_atom s) (concl (nbase r))) -> ~ In c all.

  Let sorted := sort_seeds seeds.
  Let table := prob_table sorted.

  Variables (den : N -> K -> bool) (inv : K -> Prop).
  Hypothesis E : exact_bf P (N.of_nat (length seeds)) table den inv.
  Hypothesis den_neg : forall W a, In W (worlds 0 table) -> den W (neg a) = negb (den W a).
  Hypothesis inv_neg : forall a, inv a -> inv (neg a).
  Hypothesis inv_zero : inv (zero P).

  Lemma neg_run_shape : exists nd, all' = all ++ nd /\
      (forall f, In f all -> get_tag P ts' f = get_tag P ts f) /\
      (forall c, In c nd -> ~ In c all /\ inv (get_tag P ts' c)) /\
      (forall W, In W (worlds 0 table) -> forall c, ~ In c all ->
         ((In c nd /\ den W (get_tag P ts' c) = true) <-> neg_derivable rules nrules (in_world facts sorted W) c)).
  Proof.
    unfold infer_neg in Hrun. rewrite Hrun0 in Hrun.
    destruct nrules as [|r0 rs] eqn:En.
    - inversion Hrun; subst all' ts'. exists []. rewrite app_nil_r. split; [reflexivity|]. split; [reflexivity|].
      split; [intros c []|]. intros W HW c Hc. split; [intros [[] _] | intros [r [s [[] _]]]].
    - rewrite <- En in *. destruct (neg_pass P neg nrules all ts) as [ts1 nd] eqn:Ep. inversion Hrun; subst all' ts'. clear Hrun.
      exists nd. split; [reflexivity|].
      assert (Hw := bf_worlds P fuel rules facts seeds all ts Hsafe Hnd Hrun0 den inv E).
      assert (Hi := stored_inv P fuel rules facts seeds all ts Hsafe Hrun0 den inv E).
      assert (HT : In (top_world 0 table) (worlds 0 table)) by apply top_world_in.
      destruct (neg_pass_exact P neg rules nrules facts sorted table all ts _ den inv E den_neg inv_neg inv_zero Hw Hi Hfresh Hnsafe
                               _ HT ts1 nd Ep) as [F1 [F2 _]].
      split; [exact F1|]. split; [exact F2|].
      intros W HW c Hc.
      destruct (neg_pass_exact P neg rules nrules facts sorted table all ts _ den inv E den_neg inv_neg inv_zero Hw Hi Hfresh Hnsafe
                               W HW ts1 nd Ep) as [_ [_ F3]].
      apply F3; exact Hc.
  Qed.

  (* the facts of the positive fixpoint keep their tags (hence their exact probabilities, C06_exact_sdd) ... *)
  Theorem bf_neg_frame : forall f, In f all -> In f all' /\ get_tag P ts' f = get_tag P ts f.
  Proof.
    destruct neg_run_shape as [nd [-> [F1 _]]]. intros f Hf. split; [apply in_or_app; left; exact Hf | apply F1; exact Hf].
  Qed.

  (* ... and a fact added by the negative pass is reported with the total weight of the worlds in which some rule
     with negation derives it from the positive closure of that world *)
  Theorem bf_neg_exact : forall c, In c all' -> ~ In c all ->
      forall d : N -> bool,
        (forall W, In W (worlds 0 table) -> (d W = true <-> neg_derivable rules nrules (in_world facts sorted W) c)) ->
        (fact_prob P seeds ts' c == world_prob table (fun W => ind (d W)))%Q.
  Proof.
    destruct neg_run_shape as [nd [-> [_ [F2 F3]]]]. intros c Hc Hn d Hd.
    assert (Hcn : In c nd) by (apply in_app_or in Hc as [Hc|Hc]; [contradiction | exact Hc]).
    unfold fact_prob. fold sorted. fold table.
    rewrite (bf_wmc _ _ _ _ _ E _ (proj2 (F2 c Hcn))).
    apply world_prob_ext_in. intros W HW.
    assert (Heq : den W (get_tag P ts' c) = d W).
    { apply Bool.eq_iff_eq_true. rewrite (Hd W HW), <- (F3 W HW c Hn). tauto. }
    rewrite Heq. reflexivity.
  Qed.
End NegRun.

(* the DNF structure satisfies the additional hypotheses *)
Lemma dnf_bounded_neg_clause : forall n c, cl_bounded n c -> dnf_bounded n (neg_clause c).
Proof.
  intros n c Hc y Hy j Hj. unfold neg_clause in Hy.
  apply in_app_or in Hy as [Hy|Hy]; apply in_map_iff in Hy as [v [<- Hv]]; apply In_bits in Hv; cbn [fst snd] in Hj.
  - destruct Hj as [Hj|Hj]; [rewrite N.bits_0 in Hj; discriminate|].
    rewrite bit_spec in Hj. apply N.eqb_eq in Hj; subst. apply Hc; left; exact Hv.
  - destruct Hj as [Hj|Hj]; [|rewrite N.bits_0 in Hj; discriminate].
    rewrite bit_spec in Hj. apply N.eqb_eq in Hj; subst. apply Hc; right; exact Hv.
Qed.

Lemma dnf_bounded_negate : forall n a, dnf_bounded n a -> dnf_bounded n (dnf_negate a).
Proof.
  intros n a Ha. unfold dnf_negate. destruct a as [|c0 a0]; [apply dnf_bounded_one|].
  set (phi := c0 :: a0) in *. destruct (f_mem cl_empty phi); [intros c []|].
  assert (H : forall cs res, (forall c, In c cs -> cl_bounded n c) -> dnf_bounded n res ->
              dnf_bounded n (fold_left (fun r c => match r with [] => [] | _ => dnf_conj r (neg_clause c) end) cs res)).
  { induction cs as [|c cs IH]; intros res Hcs Hres; simpl; [exact Hres|].
    apply IH; [intros; apply Hcs; right; assumption|].
    destruct res as [|x res]; [intros y []|].
    apply dnf_bounded_conj; [exact Hres | apply dnf_bounded_neg_clause; apply Hcs; left; reflexivity]. }
  apply H; [exact Ha | apply dnf_bounded_one].
Qed.

Theorem dnf_neg_exact :
  forall fuel rules nrules facts seeds all (ts : tstore) all' (ts' : tstore),
    safe rules = true -> (forall r, In r nrules -> safe_nrule r = true) -> NoDup (map fst seeds) ->
    infer dnf_prov fuel rules facts seeds = Some (all, ts) ->
    infer_neg dnf_prov dnf_negate fuel rules nrules facts seeds = Some (all', ts') ->
    (forall r s c, In r nrules -> In c (map (sub_atom s) (concl (nbase r))) -> ~ In c all) ->
    (forall f, In f all -> In f all' /\ get_tag dnf_prov ts' f = get_tag dnf_prov ts f) /\
    (forall c, In c all' -> ~ In c all ->
       forall d : N -> bool,
         (forall W, In W (worlds 0 (prob_table (sort_seeds seeds))) ->
                    (d W = true <-> neg_derivable rules nrules (in_world facts (sort_seeds seeds) W) c)) ->
         (fact_prob dnf_prov seeds ts' c == world_prob (prob_table (sort_seeds seeds)) (fun W => ind (d W)))%Q).
Proof.
  intros fuel rules nrules facts seeds all ts all' ts' Hs Hns Hnd H0 H1 Hf.
  assert (E := dnf_bf seeds).
  split.
  - apply (bf_neg_frame dnf_prov dnf_negate fuel rules nrules facts seeds all ts all' ts' Hs Hns Hnd H0 H1 Hf sem _ E).
    + intros W a _. apply dnf_sem_negate.
    + apply dnf_bounded_negate.
    + intros c [].
  - apply (bf_neg_exact dnf_prov dnf_negate fuel rules nrules facts seeds all ts all' ts' Hs Hns Hnd H0 H1 Hf sem _ E).
    + intros W a _. apply dnf_sem_negate.
    + apply dnf_bounded_negate.
    + intros c [].
Qed.
