(* The executable brute-force oracle of Spec.v decides derivability: when the naive closure terminates within its
   fuel, its result is exactly the set of facts derivable from the given facts.  Consequently the reported
   probability of the exact modes equals [spec_prob], the literal enumeration of all worlds that the
   correspondence check also runs. *)
Require Import KV.Prov.Model KV.Prov.Instances KV.Prov.Spec KV.Prov.Annot KV.Prov.BasicFacts KV.Prov.SpecFacts
        KV.Prov.SeedProofs KV.Prov.MatcherProofs KV.Prov.InstProofs.
Open Scope N_scope.

Lemma add_new_spec : forall cs acc,
    exists ext, add_new acc cs = acc ++ ext /\ (forall c, In c ext -> In c cs) /\
                (ext = [] -> forall c, In c cs -> In c acc).
Proof.
  induction cs as [|c cs IH]; intros acc; simpl.
  - exists []. rewrite app_nil_r. split; [reflexivity|]. split; [intros c [] | intros _ c []].
  - unfold add_new; simpl. fold (add_new (if mem c acc then acc else acc ++ [c]) cs).
    destruct (mem c acc) eqn:Em.
    + destruct (IH acc) as [ext [H1 [H2 H3]]]. exists ext. split; [exact H1|]. split; [intros x Hx; right; apply H2; exact Hx|].
      intros He x [<-|Hx]; [apply mem_In; exact Em | apply H3; assumption].
    + destruct (IH (acc ++ [c])) as [ext [H1 [H2 H3]]]. exists (c :: ext). split; [rewrite H1, <- app_assoc; reflexivity|].
      split; [intros x [<-|Hx]; [left; reflexivity | right; apply H2; exact Hx] | discriminate].
Qed.

(* one pass over a list of solutions *)
Lemma fold_add_spec : forall (L : list sol) acc,
    exists ext, fold_left (fun a s => add_new a (snd s)) L acc = acc ++ ext /\
                (forall c, In c ext -> exists s, In s L /\ In c (snd s)) /\
                (ext = [] -> forall s c, In s L -> In c (snd s) -> In c acc).
Proof.
  induction L as [|s L IH]; intros acc; simpl.
  - exists []. rewrite app_nil_r. split; [reflexivity|]. split; [intros c [] | intros _ s c []].
  - destruct (add_new_spec (snd s) acc) as [e1 [A1 [A2 A3]]]. rewrite A1.
    destruct (IH (acc ++ e1)) as [e2 [B1 [B2 B3]]]. exists (e1 ++ e2). split; [rewrite B1, app_assoc; reflexivity|]. split.
    + intros c Hc. apply in_app_or in Hc as [Hc|Hc]; [exists s; split; [left; reflexivity | apply A2; exact Hc]|].
      destruct (B2 c Hc) as [s' [H1 H2]]. exists s'; split; [right; exact H1 | exact H2].
    + intros He. apply app_eq_nil in He as [He1 He2]. subst e1. rewrite app_nil_r in B3.
      intros s' c [<-|Hs'] Hc; [apply A3; auto | apply (B3 He2 s' c Hs' Hc)].
Qed.

Lemma naive_step_spec : forall rules facts,
    exists ext, naive_step rules facts = facts ++ ext /\
                (forall c, In c ext -> exists r s, In r rules /\ In s (solutions r facts facts) /\ In c (snd s)) /\
                (ext = [] -> forall r s c, In r rules -> In s (solutions r facts facts) -> In c (snd s) -> In c facts).
Proof.
  intros rules facts. unfold naive_step.
  assert (H : forall rs acc, exists ext,
               fold_left (fun acc r => fold_left (fun acc' s => add_new acc' (snd s)) (solutions r facts facts) acc) rs acc = acc ++ ext /\
               (forall c, In c ext -> exists r s, In r rs /\ In s (solutions r facts facts) /\ In c (snd s)) /\
               (ext = [] -> forall r s c, In r rs -> In s (solutions r facts facts) -> In c (snd s) -> In c acc)).
  { induction rs as [|r rs IH]; intros acc; simpl.
    - exists []. rewrite app_nil_r. split; [reflexivity|]. split; [intros c [] | intros _ r s c []].
    - destruct (fold_add_spec (solutions r facts facts) acc) as [e1 [A1 [A2 A3]]]. rewrite A1.
      destruct (IH (acc ++ e1)) as [e2 [B1 [B2 B3]]]. exists (e1 ++ e2). split; [rewrite B1, app_assoc; reflexivity|]. split.
      + intros c Hc. apply in_app_or in Hc as [Hc|Hc].
        * destruct (A2 c Hc) as [s [H1 H2]]. exists r, s. split; [left; reflexivity | auto].
        * destruct (B2 c Hc) as [r' [s [H1 [H2 H3]]]]. exists r', s. split; [right; exact H1 | auto].
      + intros He. apply app_eq_nil in He as [He1 He2]. subst e1. rewrite app_nil_r in B3.
        intros r' s c [<-|Hr'] Hs Hc; [apply (A3 eq_refl s c Hs Hc) | apply (B3 He2 r' s c Hr' Hs Hc)]. }
  apply H.
Qed.

Section Naive.
  Variable rules : list rule.
  Hypothesis Hsafe : safe rules = true.

  Lemma step_sound : forall facts (base : fact -> Prop),
      (forall f, In f facts -> Deriv rules base f) -> forall f, In f (naive_step rules facts) -> Deriv rules base f.
  Proof.
    intros facts base H f Hf. destruct (naive_step_spec rules facts) as [ext [E1 [E2 _]]]. rewrite E1 in Hf.
    apply in_app_or in Hf as [Hf|Hf]; [apply H; exact Hf|].
    destruct (E2 f Hf) as [r [[ms cs] [Hr [Hs Hc]]]]. simpl in Hc.
    destruct (solutions_sound r facts facts ms cs (incl_refl _) Hs) as [HG Hinc].
    apply (d_rule rules base ms cs f); [apply GI_GI1; exists r; auto | intros m Hm; apply H; apply Hinc; exact Hm | exact Hc].
  Qed.

  Lemma closed_complete : forall facts0 L, incl facts0 L ->
      (forall r s c, In r rules -> In s (solutions r L L) -> In c (snd s) -> In c L) ->
      forall f, Deriv rules (fun g => In g facts0) f -> In f L.
  Proof.
    intros facts0 L Hinc Hcl f HD. induction HD as [f Hf|ms cs c HGI Hm IH Hc]; [apply Hinc; exact Hf|].
    apply GI_GI1 in HGI as [r [Hr HG1]].
    assert (Hsr : safe_rule r = true) by (unfold safe in Hsafe; rewrite forallb_forall in Hsafe; apply Hsafe; exact Hr).
    assert (Hne : prem r <> []) by (apply (safe_nonempty rules Hsafe r Hr)).
    assert (Hex : exists m, In m ms /\ In m L).
    { destruct HG1 as [s [-> _]]. destruct (prem r) as [|a ps]; [congruence|].
      exists (sub_atom s a). split; [left; reflexivity | apply IH; left; reflexivity]. }
    apply (Hcl r (ms, cs) c Hr); [|exact Hc].
    apply (solutions_complete r Hsr L L ms cs HG1 (fun m Hm' => IH m Hm') Hex).
  Qed.

  Lemma naive_close_correct : forall fuel facts0 facts L,
      incl facts0 facts -> (forall f, In f facts -> Deriv rules (fun g => In g facts0) f) ->
      naive_close fuel rules facts = Some L ->
      forall f, In f L <-> Deriv rules (fun g => In g facts0) f.
  Proof.
    induction fuel as [|fuel IH]; intros facts0 facts L Hinc Hs Hrun f; simpl in Hrun; [discriminate|].
    destruct (naive_step_spec rules facts) as [ext [E1 [E2 E3]]].
    destruct (Nat.eqb (length (naive_step rules facts)) (length facts)) eqn:El.
    - inversion Hrun; subst L. apply Nat.eqb_eq in El. rewrite E1, app_length in El.
      assert (He : ext = []) by (destruct ext; [reflexivity | simpl in El; lia]).
      split; [apply Hs | apply (closed_complete facts0 facts Hinc (E3 He))].
    - apply (IH facts0 (naive_step rules facts) L); [| |exact Hrun].
      + rewrite E1. intros x Hx. apply in_or_app; left; apply Hinc; exact Hx.
      + apply step_sound; exact Hs.
  Qed.

  Theorem derivable_b_correct : forall fuel facts f, naive_close fuel rules facts <> None ->
      (derivable_b fuel rules facts f = true <-> Deriv rules (fun g => In g facts) f).
  Proof.
    intros fuel facts f Hn. unfold derivable_b. destruct (naive_close fuel rules facts) as [L|] eqn:E; [|congruence].
    rewrite mem_In. apply (naive_close_correct fuel facts facts L (incl_refl _)); [intros g Hg; apply d_base; exact Hg | exact E].
  Qed.
End Naive.

(* the exact modes report the brute-force possible-worlds probability *)
Theorem bf_exact_bruteforce :
  forall (K : Type) (P : provenance K) fuel rules facts seeds all (ts : tstore),
    safe rules = true -> NoDup (map fst seeds) ->
    infer P fuel rules facts seeds = Some (all, ts) ->
    forall (den : N -> K -> bool) (inv : K -> Prop),
      exact_bf P (N.of_nat (length seeds)) (prob_table (sort_seeds seeds)) den inv ->
      forall fuel',
        (forall W, In W (worlds 0 (prob_table (sort_seeds seeds))) ->
                   naive_close fuel' rules (filter (in_worldb facts (sort_seeds seeds) W) facts) <> None) ->
        forall f, In f all ->
                  (fact_prob P seeds ts f == spec_prob fuel' rules facts seeds f)%Q.
Proof.
  intros K P fuel rules facts seeds all ts Hs Hnd Hrun den inv E fuel' Hterm f Hf. unfold spec_prob.
  apply (bf_exact P fuel rules facts seeds all ts Hs Hnd Hrun den inv E f Hf
                  (fun W => derivable_b fuel' rules (filter (in_worldb facts (sort_seeds seeds) W) facts) f)).
  intros W HW. rewrite (derivable_b_correct rules Hs fuel' _ f (Hterm W HW)).
  split; apply Deriv_ext; intros g Hg; unfold in_world in *.
  - apply filter_In in Hg. apply Hg.
  - apply filter_In. split; [|exact Hg]. unfold in_worldb in Hg. apply andb_true_iff in Hg as [Hg _]. apply mem_In; exact Hg.
Qed.

Theorem dnf_exact_bruteforce :
  forall fuel rules facts seeds all (ts : tstore),
    safe rules = true -> NoDup (map fst seeds) ->
    infer dnf_prov fuel rules facts seeds = Some (all, ts) ->
    forall fuel',
      (forall W, In W (worlds 0 (prob_table (sort_seeds seeds))) ->
                 naive_close fuel' rules (filter (in_worldb facts (sort_seeds seeds) W) facts) <> None) ->
      forall f, In f all -> (fact_prob dnf_prov seeds ts f == spec_prob fuel' rules facts seeds f)%Q.
Proof.
  intros fuel rules facts seeds all ts Hs Hnd Hrun fuel' Hterm f Hf.
  exact (bf_exact_bruteforce dnf dnf_prov fuel rules facts seeds all ts Hs Hnd Hrun sem _ (dnf_bf seeds) fuel' Hterm f Hf).
Qed.
