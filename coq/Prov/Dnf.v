(* DnfWmcProvenance (shared/src/provenance.rs): tags are DNF formulas
       WmcFormula = BTreeSet<WmcClause>,  WmcClause = BTreeSet<(u32 seed id, bool polarity)>.
   Model: a clause (a set of signed literals) is the pair (set of positively occurring ids, set of
   negatively occurring ids), each set a bit mask in N -- a bijective re-encoding of BTreeSet<(u32,bool)>
   under which set equality of clauses is structural equality; a formula is a list of clauses without
   repetition, compared as a set ([dnf_eqb] = BTreeSet equality).  Operations as in the code:
       disjunction  = remove_subsumed (a ∪ b)
       conjunction  = zero if either is empty, else remove_subsumed (remove_contradictory {ca ∪ cb})
       negate       = one if empty; zero if it contains the empty clause; else the fold of conjunction over
                      the clause-wise De Morgan complements, stopping at zero
       remove_subsumed keeps c1 unless another clause c2 <> c1 with c2 ⊆ c1 exists. *)
Require Export KV.Prov.Syntax.

Definition clause := (N * N)%type.       (* (positive ids, negative ids) *)
Definition dnf := list clause.

Definition cl_eqb (c d : clause) : bool := (fst c =? fst d) && (snd c =? snd d).
(* c ⊆ d *)
Definition cl_subset (c d : clause) : bool :=
  (N.ldiff (fst c) (fst d) =? 0) && (N.ldiff (snd c) (snd d) =? 0).
Definition cl_union (c d : clause) : clause := (N.lor (fst c) (fst d), N.lor (snd c) (snd d)).
(* contains (v,true) and (v,false) for some v *)
Definition cl_contra (c : clause) : bool := negb (N.land (fst c) (snd c) =? 0).
Definition cl_empty : clause := (0, 0).

Definition f_mem (c : clause) (phi : dnf) : bool := existsb (cl_eqb c) phi.
Definition f_add (c : clause) (phi : dnf) : dnf := if f_mem c phi then phi else phi ++ [c].
Definition f_union (a b : dnf) : dnf := fold_left (fun acc c => f_add c acc) b a.
Definition f_incl (a b : dnf) : bool := forallb (fun c => f_mem c b) a.
Definition dnf_eqb (a b : dnf) : bool := f_incl a b && f_incl b a.

Definition remove_subsumed (phi : dnf) : dnf :=
  filter (fun c1 => negb (existsb (fun c2 => negb (cl_eqb c2 c1) && cl_subset c2 c1) phi)) phi.
Definition remove_contradictory (phi : dnf) : dnf := filter (fun c => negb (cl_contra c)) phi.

Definition dnf_zero : dnf := [].
Definition dnf_one : dnf := [cl_empty].

Definition dnf_disj (a b : dnf) : dnf := remove_subsumed (f_union a b).

Definition product (a b : dnf) : dnf :=
  fold_left (fun acc ca => fold_left (fun acc' cb => f_add (cl_union ca cb) acc') b acc) a [].

Definition dnf_conj (a b : dnf) : dnf :=
  match a, b with
  | [], _ => dnf_zero
  | _, [] => dnf_zero
  | _, _ => remove_subsumed (remove_contradictory (product a b))
  end.

(* the ids in a bit mask, ascending *)
Fixpoint pos_bits (p : positive) (i : N) : list N :=
  match p with
  | xH => [i]
  | xO p' => pos_bits p' (N.succ i)
  | xI p' => i :: pos_bits p' (N.succ i)
  end.
Definition bits (n : N) : list N := match n with N0 => [] | Npos p => pos_bits p 0 end.

Definition bit (v : N) : N := N.shiftl 1 v.
(* De Morgan complement of one clause: one single-literal clause per literal, polarity flipped *)
Definition neg_clause (c : clause) : dnf :=
  map (fun v => (0, bit v)) (bits (fst c)) ++ map (fun v => (bit v, 0)) (bits (snd c)).

Definition dnf_negate (a : dnf) : dnf :=
  match a with
  | [] => dnf_one
  | _ => if f_mem cl_empty a then dnf_zero
         else fold_left (fun res c => match res with [] => [] | _ => dnf_conj res (neg_clause c) end) a dnf_one
  end.

(* tag_from_probability_with_id: {{(id, true)}} *)
Definition dnf_lit (id : N) : dnf := [(bit id, 0)].

(* ---- denotation: a world is the set of true variables, as a bit mask ------------------------- *)
Definition sem_cl (W : N) (c : clause) : bool := (N.ldiff (fst c) W =? 0) && (N.land (snd c) W =? 0).
Definition sem (W : N) (phi : dnf) : bool := existsb (sem_cl W) phi.
