(* The provenance structures of the property (shared/src/provenance.rs), as instances of Semiring.provenance.

   BooleanProvenance   bool, || , &&, tag_from_probability p = (p > 0.0), recover = 1.0 / 0.0
   MinMaxProbability   f64 -> Q, max, min, tag_from_probability = clamp(0,1), recover = identity;
                       is_saturated (|old - new| < 1e-9) and the `== zero` / `== one` tests are modelled by
                       equality of rationals (generated probabilities are multiples of 1/8, far apart)
   DnfWmcProvenance    Dnf.v / Wmc.v; tag_from_probability_with_id ignores the probability for the tag
                       (it goes to the table), recover = clamp(shannon_wmc)
   SddProvenance is not modelled operationally (the SDD manager is property C07); C06_exact_sdd is stated
   for any tag structure that represents Boolean functions exactly (HomProofs.exact_bf), of which the DNF
   structure and the truth-table structure [tt_prov] below are proved instances. *)
Require Export KV.Prov.Model KV.Prov.Dnf KV.Prov.Wmc.

Definition bool_prov : provenance bool :=
  Provenance bool (Semiring bool false true orb andb Bool.eqb)
             (fun p _ => negb (Qle_bool p 0))
             (fun _ b => if b then 1%Q else 0%Q).

Definition qmax (a b : Q) : Q := if Qle_bool a b then b else a.
Definition qmin (a b : Q) : Q := if Qle_bool a b then a else b.
Definition minmax_prov : provenance Q :=
  Provenance Q (Semiring Q 0%Q 1%Q qmax qmin Qeq_bool)
             (fun p _ => Qclamp01 p)
             (fun _ t => t).

Definition dnf_prov : provenance dnf :=
  Provenance dnf (Semiring dnf dnf_zero dnf_one dnf_disj dnf_conj dnf_eqb)
             (fun _ id => dnf_lit id)
             dnf_recover.

(* Truth tables over n variables as bit masks of length 2^n (bit W = value in world W): a second exact
   representation of Boolean functions, canonical by construction.  Used as the executable stand-in for
   the SDD mode in the correspondence check and as a witness that the hypotheses of C06_exact_sdd are
   satisfiable by something other than the DNF structure. *)
Section TT.
  Variable n : N.                       (* number of seed variables *)
  Definition tt_full : N := N.ones (N.shiftl 1 n).
  (* worlds in which variable v is true *)
  Definition tt_lit_aux (v : N) : N :=
    N.recursion 0 (fun W acc => if N.testbit W v then N.setbit acc W else acc) (N.shiftl 1 n).
  Definition tt_sem (W : N) (t : N) : bool := N.testbit t W.
End TT.

(* world weights and the weighted count of a truth table *)
Fixpoint weight (i : N) (ps : list Q) (W : N) : Q :=
  match ps with
  | [] => 1
  | p :: ps' => (if N.testbit W i then p else 1 - p) * weight (N.succ i) ps' W
  end%Q.

Definition tt_wmc (table : list Q) (t : N) : Q :=
  N.recursion 0%Q (fun W acc => if N.testbit t W then Qred (acc + weight 0 table W)%Q else acc)
              (N.shiftl 1 (N.of_nat (length table))).

Definition tt_prov (n : N) : provenance N :=
  Provenance N (Semiring N 0 (tt_full n) N.lor N.land N.eqb)
             (fun _ id => tt_lit_aux n id)
             (fun table t => Qclamp01 (tt_wmc table t)).
