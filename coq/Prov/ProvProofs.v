(* The generic theorem about the provenance semi-naive materialisation, for an arbitrary tag structure:

   drive_sound     when the driver returns, every stored fact's tag is generated (Gen) -- tags contain
                   nothing but sums of products along derivations from the initial tags;
   drive_complete  when the driver returns, the tags are closed under the annotated consequence operator:
                   for every ground instance whose premises are stored and whose product of premise tags is
                   not zero, every conclusion is stored and its tag is above the product (for any preorder
                   in which plus is an upper bound and which the equality test respects); initial tags are
                   below the final ones;
   semiring_fixpoint (section Fixpoint) the two together: the final tags, extended by zero outside the stored
                   facts, are the least pre-fixpoint of the annotated consequence operator.
   Termination is not claimed (fuel): the statements are about a returned result. *)
Require Import KV.Prov.Model KV.Prov.Spec KV.Prov.Annot KV.Prov.BasicFacts.

Section Generic.
  Context {K : Type} (SR : semiring K) (sols : matcher) (rules : list rule).
  Hypothesis Hspec : sols_spec sols rules.

  Notation tag := (get_tag SR).
  Notation rstate := (rstate (K:=K)).

  (* ================= soundness: every tag is generated ======================================= *)
  Section Sound.
    Variables (all0 : list fact) (tag0 : fact -> K).
    Notation Gen := (Gen SR rules all0 tag0).

    Definition TSok (ts : tstore) (F : list fact) : Prop := forall f, In f F -> Gen f (tag ts f).

    Lemma set_tag_ok : forall ts F c k, TSok ts F -> Gen c k -> TSok (set_tag SR ts c k) (F ++ [c]).
    Proof.
      intros ts F c k Hok Hk f Hf. rewrite get_tag_set_tag.
      destruct (fact_eqb f c) eqn:E.
      - apply fact_eqb_eq in E; subst f.
        destruct (eqb SR k (one SR)) eqn:E1; [eapply gen_one; eauto | exact Hk].
      - apply fact_eqb_neq in E. apply in_app_or in Hf as [Hf|[Hf|[]]]; [apply Hok; exact Hf | congruence].
    Qed.

    Lemma set_tag_ok_in : forall ts F c k, TSok ts F -> Gen c k -> TSok (set_tag SR ts c k) F.
    Proof.
      intros ts F c k Hok Hk f Hf. apply (set_tag_ok ts F c k Hok Hk). apply in_or_app; left; exact Hf.
    Qed.

    Lemma do_concl_ok : forall all ctag st c,
        TSok (rs_ts st) (all ++ rs_new st) -> Gen c ctag ->
        TSok (rs_ts (do_concl SR all ctag st c)) (all ++ rs_new (do_concl SR all ctag st c)).
    Proof.
      intros all ctag st c Hok Hc. unfold do_concl.
      destruct (negb (mem c all) && negb (mem c (rs_new st))) eqn:Enew.
      - simpl. rewrite app_assoc. apply set_tag_ok; assumption.
      - assert (Hin : In c (all ++ rs_new st)).
        { apply andb_false_iff in Enew as [E|E]; apply negb_false_iff, mem_In in E; apply in_or_app; auto. }
        unfold update_disjunction.
        destruct (eqb SR (tag (rs_ts st) c) (plus SR (tag (rs_ts st) c) ctag)) eqn:Esat.
        + simpl. exact Hok.
        + assert (Hok' : TSok (set_tag SR (rs_ts st) c (plus SR (tag (rs_ts st) c) ctag)) (all ++ rs_new st)).
          { apply set_tag_ok_in; [exact Hok|]. apply gen_plus; [apply Hok; exact Hin | exact Hc]. }
          destruct (true && negb (negb (mem c all))); simpl; exact Hok'.
    Qed.

    Lemma fold_concl_ok : forall all ctag cs st,
        TSok (rs_ts st) (all ++ rs_new st) -> (forall c, In c cs -> Gen c ctag) ->
        let st' := fold_left (do_concl SR all ctag) cs st in TSok (rs_ts st') (all ++ rs_new st').
    Proof.
      intros all ctag cs; induction cs as [|c cs IH]; intros st Hok Hc; simpl; [exact Hok|].
      apply IH; [apply do_concl_ok; [exact Hok | apply Hc; left; reflexivity] | intros; apply Hc; right; assumption].
    Qed.

    Lemma do_sol_ok : forall all st ms cs,
        TSok (rs_ts st) (all ++ rs_new st) -> GI rules ms cs -> incl ms all ->
        let st' := do_sol SR all st (ms, cs) in TSok (rs_ts st') (all ++ rs_new st').
    Proof.
      intros all st ms cs Hok HGI Hinc. unfold do_sol; simpl.
      destruct (eqb SR (conj_tags SR (rs_ts st) ms) (zero SR)) eqn:Ez; [exact Hok|].
      apply fold_concl_ok; [exact Hok|]. intros c Hc. rewrite conj_tags_prod.
      eapply gen_rule; eauto. intros m Hm. apply Hok. apply in_or_app; left; apply Hinc; exact Hm.
    Qed.

    Lemma fold_sol_ok : forall all L st,
        TSok (rs_ts st) (all ++ rs_new st) -> (forall s, In s L -> GI rules (fst s) (snd s) /\ incl (fst s) all) ->
        let st' := fold_left (do_sol SR all) L st in TSok (rs_ts st') (all ++ rs_new st').
    Proof.
      intros all L; induction L as [|[ms cs] L IH]; intros st Hok HL; simpl; [exact Hok|].
      apply IH; [|intros; apply HL; right; assumption].
      destruct (HL (ms, cs) (or_introl eq_refl)) as [H1 H2]. apply do_sol_ok; assumption.
    Qed.

    Lemma sols_in_GI : forall r all delta s, In r rules -> incl delta all -> In s (sols r all delta) ->
                                             GI rules (fst s) (snd s) /\ incl (fst s) all.
    Proof.
      intros r all delta [ms cs] Hr Hd Hs. destruct (Hspec r Hr) as [Hsound _].
      destruct (Hsound all delta ms cs Hd Hs) as [H1 H2]. split; [|exact H2].
      apply GI_GI1; exists r; auto.
    Qed.

    Lemma fold_rule_ok : forall all delta rs st,
        incl rs rules -> incl delta all -> TSok (rs_ts st) (all ++ rs_new st) ->
        let st' := fold_left (do_rule SR sols all delta) rs st in TSok (rs_ts st') (all ++ rs_new st').
    Proof.
      intros all delta rs; induction rs as [|r rs IH]; intros st Hrs Hd Hok; simpl; [exact Hok|].
      apply IH; [intros x Hx; apply Hrs; right; exact Hx | exact Hd |].
      unfold do_rule. apply fold_sol_ok; [exact Hok|].
      intros s Hs. eapply sols_in_GI; eauto. apply Hrs; left; reflexivity.
    Qed.

    Lemma round_ok : forall all delta ts,
        incl delta all -> TSok ts all ->
        let st := round SR sols rules all delta ts in TSok (rs_ts st) (all ++ rs_new st).
    Proof.
      intros all delta ts Hd Hok. unfold round. apply fold_rule_ok; [apply incl_refl | exact Hd |].
      simpl. rewrite app_nil_r. exact Hok.
    Qed.
  End Sound.

  (* ================= bookkeeping of one round ================================================== *)
  Section Complete.
    Variable le : K -> K -> Prop.
    Hypothesis le_refl : forall a, le a a.
    Hypothesis le_trans : forall a b c, le a b -> le b c -> le a c.
    Hypothesis le_plus_l : forall a b, le a (plus SR a b).
    Hypothesis le_plus_r : forall a b, le b (plus SR a b).
    Hypothesis eqb_le : forall a b, eqb SR a b = true -> le a b /\ le b a.

    (* how a later state of the same round relates to an earlier one *)
    Record Ext (all : list fact) (st st' : rstate) : Prop := {
      ext_mono : forall f, In f (all ++ rs_new st) -> le (tag (rs_ts st) f) (tag (rs_ts st') f);
      ext_track : forall f, In f all -> tag (rs_ts st') f = tag (rs_ts st) f \/ In f (rs_impr st');
      ext_new : incl (rs_new st) (rs_new st');
      ext_impr : incl (rs_impr st) (rs_impr st')
    }.

    Definition WF (all : list fact) (st : rstate) : Prop :=
      incl (rs_impr st) all /\ (rs_changed st = false -> rs_impr st = []).

    Lemma Ext_refl : forall all st, Ext all st st.
    Proof. intros; constructor; auto using incl_refl. Qed.

    Lemma Ext_trans : forall all a b c, Ext all a b -> Ext all b c -> Ext all a c.
    Proof.
      intros all a b c [M1 T1 N1 I1] [M2 T2 N2 I2]; constructor.
      - intros f Hf. eapply le_trans; [apply M1; exact Hf|]. apply M2.
        apply in_app_or in Hf as [Hf|Hf]; apply in_or_app; [left; exact Hf | right; apply N1; exact Hf].
      - intros f Hf. destruct (T2 f Hf) as [E2|H2]; [|right; exact H2].
        destruct (T1 f Hf) as [E1|H1]; [left; congruence | right; apply I2; exact H1].
      - eapply incl_tran; eauto.
      - eapply incl_tran; eauto.
    Qed.

    Lemma set_tag_le : forall ts c k, le k (tag (set_tag SR ts c k) c).
    Proof.
      intros. rewrite get_tag_set_tag, fact_eqb_refl.
      destruct (eqb SR k (one SR)) eqn:E; [apply eqb_le in E; apply E | apply le_refl].
    Qed.

    Lemma do_concl_ext : forall all ctag st c,
        WF all st ->
        let st' := do_concl SR all ctag st c in
        Ext all st st' /\ WF all st' /\ In c (all ++ rs_new st') /\ le ctag (tag (rs_ts st') c).
    Proof.
      intros all ctag [ts new ch impr] c [Wi Wc]. unfold do_concl. cbn [rs_ts rs_new rs_changed rs_impr] in *.
      set (st := RState ts new ch impr).
      destruct (negb (mem c all) && negb (mem c new)) eqn:Enew.
      - apply andb_true_iff in Enew as [E1 E2].
        apply negb_true_iff, mem_false in E1. apply negb_true_iff, mem_false in E2.
        simpl. split; [|split; [|split]].
        + constructor; simpl.
          * intros f Hf. rewrite get_tag_set_tag_other; [apply le_refl|].
            intros ->. apply in_app_or in Hf as [Hf|Hf]; contradiction.
          * intros f Hf. left. apply get_tag_set_tag_other. intros ->; contradiction.
          * apply incl_appl, incl_refl.
          * apply incl_refl.
        + split; assumption.
        + rewrite app_assoc. apply in_or_app; right; left; reflexivity.
        + apply set_tag_le.
      - assert (Hin : In c (all ++ rs_new st)).
        { apply andb_false_iff in Enew as [E|E]; apply negb_false_iff, mem_In in E; apply in_or_app; auto. }
        unfold update_disjunction.
        set (old := tag ts c). set (comb := plus SR old ctag).
        destruct (eqb SR old comb) eqn:Esat.
        + simpl. split; [apply Ext_refl|]. split; [split; assumption|]. split; [exact Hin|].
          apply eqb_le in Esat as [_ Hle]. eapply le_trans; [apply le_plus_r | exact Hle].
        + assert (Hmono : forall f, le (tag (rs_ts st) f) (tag (set_tag SR (rs_ts st) c comb) f)).
          { intros f. destruct (fact_eq_dec f c) as [->|Hne].
            - eapply le_trans; [apply (le_plus_l old ctag) | apply set_tag_le].
            - rewrite get_tag_set_tag_other; [apply le_refl | exact Hne]. }
          assert (Hc : le ctag (tag (set_tag SR ts c comb) c)).
          { eapply le_trans; [apply (le_plus_r old ctag) | apply set_tag_le]. }
          destruct (mem c all) eqn:Emem; simpl.
          * apply mem_In in Emem. split; [|split; [|split]]; simpl.
            -- constructor; simpl.
               ++ intros f _; apply Hmono.
               ++ intros f Hf. destruct (fact_eq_dec f c) as [->|Hne].
                  ** right. apply in_or_app; right; left; reflexivity.
                  ** left. apply get_tag_set_tag_other; exact Hne.
               ++ apply incl_refl.
               ++ apply incl_appl, incl_refl.
            -- split; simpl; [|discriminate].
               intros f Hf. apply in_app_or in Hf as [Hf|[<-|[]]]; [apply Wi; exact Hf | exact Emem].
            -- exact Hin.
            -- exact Hc.
          * apply mem_false in Emem. split; [|split; [|split]]; simpl.
            -- constructor; simpl.
               ++ intros f _; apply Hmono.
               ++ intros f Hf. left. apply get_tag_set_tag_other. intros ->; contradiction.
               ++ apply incl_refl.
               ++ apply incl_refl.
            -- split; assumption.
            -- exact Hin.
            -- exact Hc.
    Qed.

    Lemma fold_concl_ext : forall all ctag cs st,
        WF all st ->
        let st' := fold_left (do_concl SR all ctag) cs st in
        Ext all st st' /\ WF all st' /\ forall c, In c cs -> In c (all ++ rs_new st') /\ le ctag (tag (rs_ts st') c).
    Proof.
      intros all ctag cs; induction cs as [|c cs IH]; intros st Hwf; simpl.
      - split; [apply Ext_refl|]. split; [exact Hwf | intros c []].
      - destruct (do_concl_ext all ctag st c Hwf) as [E1 [W1 [I1 L1]]].
        destruct (IH _ W1) as [E2 [W2 H2]].
        split; [eapply Ext_trans; eauto|]. split; [exact W2|].
        intros c' [<-|Hc']; [|apply H2; exact Hc'].
        split.
        + apply in_app_or in I1 as [I1|I1]; apply in_or_app; [left; exact I1 | right; apply (ext_new _ _ _ E2); exact I1].
        + eapply le_trans; [exact L1 | apply (ext_mono _ _ _ E2); exact I1].
    Qed.

    (* an instance has been accounted for in state st *)
    Definition Done (all : list fact) (st : rstate) (s : sol) : Prop :=
      (exists m, In m (fst s) /\ In m (rs_impr st)) \/
      (eqb SR (conj_tags SR (rs_ts st) (fst s)) (zero SR) = false ->
       forall c, In c (snd s) -> In c (all ++ rs_new st) /\ le (conj_tags SR (rs_ts st) (fst s)) (tag (rs_ts st) c)).

    Lemma track_all : forall all st st' ms,
        Ext all st st' -> incl ms all ->
        (forall m, In m ms -> tag (rs_ts st') m = tag (rs_ts st) m) \/ (exists m, In m ms /\ In m (rs_impr st')).
    Proof.
      intros all st st' ms E Hinc. apply forall_or_exists.
      intros m Hm. apply (ext_track _ _ _ E). apply Hinc; exact Hm.
    Qed.

    Lemma Done_ext : forall all st st' s, incl (fst s) all -> Done all st s -> Ext all st st' -> Done all st' s.
    Proof.
      intros all st st' [ms cs] Hinc HD E; simpl in *.
      destruct HD as [[m [Hm Hi]]|HD].
      - left; exists m; split; [exact Hm | apply (ext_impr _ _ _ E); exact Hi].
      - destruct (track_all all st st' ms E Hinc) as [Hsame|Hex]; [|left; exact Hex].
        right; simpl. rewrite (conj_tags_ext SR _ _ ms Hsame). intros Hz c Hc.
        destruct (HD Hz c Hc) as [H1 H2]. split.
        + apply in_app_or in H1 as [H1|H1]; apply in_or_app; [left; exact H1 | right; apply (ext_new _ _ _ E); exact H1].
        + eapply le_trans; [exact H2 | apply (ext_mono _ _ _ E); exact H1].
    Qed.

    Lemma do_sol_ext : forall all st s,
        WF all st -> incl (fst s) all ->
        let st' := do_sol SR all st s in Ext all st st' /\ WF all st' /\ Done all st' s.
    Proof.
      intros all st [ms cs] Hwf Hinc; unfold do_sol; simpl in *.
      destruct (eqb SR (conj_tags SR (rs_ts st) ms) (zero SR)) eqn:Ez.
      - split; [apply Ext_refl|]. split; [exact Hwf|]. right; simpl. rewrite Ez; discriminate.
      - destruct (fold_concl_ext all (conj_tags SR (rs_ts st) ms) cs st Hwf) as [E [W H]].
        split; [exact E|]. split; [exact W|].
        destruct (track_all all st _ ms E Hinc) as [Hsame|Hex]; [|left; exact Hex].
        right; simpl. rewrite (conj_tags_ext SR _ _ ms Hsame). intros _ c Hc. apply H; exact Hc.
    Qed.

    Lemma fold_sol_ext : forall all L st,
        WF all st -> (forall s, In s L -> incl (fst s) all) ->
        let st' := fold_left (do_sol SR all) L st in
        Ext all st st' /\ WF all st' /\ forall s, In s L -> Done all st' s.
    Proof.
      intros all L; induction L as [|s L IH]; intros st Hwf HL; simpl.
      - split; [apply Ext_refl|]. split; [exact Hwf | intros s []].
      - destruct (do_sol_ext all st s Hwf (HL s (or_introl eq_refl))) as [E1 [W1 D1]].
        destruct (IH _ W1 (fun s' Hs' => HL s' (or_intror Hs'))) as [E2 [W2 D2]].
        split; [eapply Ext_trans; eauto|]. split; [exact W2|].
        intros s' [<-|Hs']; [|apply D2; exact Hs'].
        eapply Done_ext; eauto. apply HL; left; reflexivity.
    Qed.

    Lemma fold_rule_ext : forall all delta rs st,
        incl rs rules -> incl delta all -> WF all st ->
        let st' := fold_left (do_rule SR sols all delta) rs st in
        Ext all st st' /\ WF all st' /\ forall r s, In r rs -> In s (sols r all delta) -> Done all st' s.
    Proof.
      intros all delta rs; induction rs as [|r rs IH]; intros st Hrs Hd Hwf; simpl.
      - split; [apply Ext_refl|]. split; [exact Hwf | intros r s []].
      - assert (Hr : In r rules) by (apply Hrs; left; reflexivity).
        assert (HL : forall s, In s (sols r all delta) -> incl (fst s) all).
        { intros s Hs. eapply sols_in_GI; eauto. }
        destruct (fold_sol_ext all (sols r all delta) st Hwf HL) as [E1 [W1 D1]].
        destruct (IH _ (fun x Hx => Hrs x (or_intror Hx)) Hd W1) as [E2 [W2 D2]].
        split; [eapply Ext_trans; eauto|]. split; [exact W2|].
        intros r' s [<-|Hr'] Hs; [|eapply D2; eauto].
        eapply Done_ext; [apply HL; exact Hs | apply D1; exact Hs | exact E2].
    Qed.

    (* ---- between rounds ------------------------------------------------------------------------ *)
    (* every ground instance over the stored facts either still has a premise in the pending delta D or is
       accounted for by the current tags *)
    Definition Pend (all : list fact) (ts : tstore) (D : list fact) : Prop :=
      forall ms cs, GI rules ms cs -> incl ms all ->
        (exists m, In m ms /\ In m D) \/
        (eqb SR (conj_tags SR ts ms) (zero SR) = false ->
         forall c, In c cs -> In c all /\ le (conj_tags SR ts ms) (tag ts c)).

    Lemma round_pend : forall all D ts,
        incl D all -> Pend all ts D ->
        let st := round SR sols rules all D ts in
        Pend (all ++ rs_new st) (rs_ts st) (rs_new st ++ rs_impr st) /\ WF all st /\
        (forall f, In f all -> le (tag ts f) (tag (rs_ts st) f)).
    Proof.
      intros all D ts HD HP st.
      set (st0 := RState ts [] false []).
      assert (W0 : WF all st0) by (split; [intros x [] | reflexivity]).
      destruct (fold_rule_ext all D rules st0 (incl_refl _) HD W0) as [E [W Dn]].
      fold (round SR sols rules all D ts) in E, W, Dn. fold st in E, W, Dn.
      split; [|split; [exact W|]].
      2:{ intros f Hf. apply (ext_mono _ _ _ E). simpl. rewrite app_nil_r; exact Hf. }
      intros ms cs HGI Hinc.
      assert (Hconv : Done all st (ms, cs) ->
                      (exists m, In m ms /\ In m (rs_new st ++ rs_impr st)) \/
                      (eqb SR (conj_tags SR (rs_ts st) ms) (zero SR) = false ->
                       forall c, In c cs -> In c (all ++ rs_new st) /\ le (conj_tags SR (rs_ts st) ms) (tag (rs_ts st) c))).
      { intros [[m [Hm Hi]]|Hr]; [left; exists m; split; [exact Hm | apply in_or_app; right; exact Hi] | right; exact Hr]. }
      destruct (forall_or_exists (fun m => In m all) (fun m => In m (rs_new st)) ms) as [Hall|[m [Hm Hn]]].
      { intros m Hm. apply in_app_or. apply Hinc; exact Hm. }
      2:{ left; exists m; split; [exact Hm | apply in_or_app; left; exact Hn]. }
      apply Hconv.
      destruct (HP ms cs HGI Hall) as [[m [Hm HmD]]|Himp].
      - apply GI_GI1 in HGI as [r [Hr HG1]]. destruct (Hspec r Hr) as [_ Hcomp].
        apply (Dn r (ms, cs) Hr). apply Hcomp; [exact HG1 | exact Hall | exists m; auto].
      - apply (Done_ext all st0 st (ms, cs)); [exact Hall | | exact E].
        right; simpl. intros Hz c Hc. destruct (Himp Hz c Hc) as [H1 H2]. split; [rewrite app_nil_r; exact H1 | exact H2].
    Qed.

    Lemma skipn_app_length : forall {A} (l m : list A), skipn (length l) (l ++ m) = m.
    Proof. induction l; simpl; auto. Qed.

    Lemma drive_inv : forall fuel all st ts all' ts',
        incl (eff_delta st all) all -> Pend all ts (eff_delta st all) ->
        drive SR sols fuel rules all st ts = Some (all', ts') ->
        incl all all' /\ (forall f, In f all -> le (tag ts f) (tag ts' f)) /\ Pend all' ts' [].
    Proof.
      induction fuel as [|fuel IH]; intros all st ts all' ts' HD HP Hrun; simpl in Hrun; [discriminate|].
      destruct (round_pend all (eff_delta st all) ts HD HP) as [HP' [[Wi Wc] Hmono]].
      set (r := round SR sols rules all (eff_delta st all) ts) in *.
      assert (Hnext : drive SR sols fuel rules (all ++ rs_new r) (Strat false (length all) (rs_impr r)) (rs_ts r) = Some (all', ts') ->
                      incl all all' /\ (forall f, In f all -> le (tag ts f) (tag ts' f)) /\ Pend all' ts' []).
      { intros Hrec.
        assert (Hd : eff_delta (Strat false (length all) (rs_impr r)) (all ++ rs_new r) = rs_new r ++ rs_impr r).
        { unfold eff_delta; simpl. rewrite skipn_app_length; reflexivity. }
        destruct (IH (all ++ rs_new r) (Strat false (length all) (rs_impr r)) (rs_ts r) all' ts') as [I1 [M1 P1]]; [| |exact Hrec|].
        - rewrite Hd. apply incl_app; [apply incl_appr, incl_refl | apply incl_appl; exact Wi].
        - rewrite Hd. exact HP'.
        - split; [eapply incl_tran; [apply incl_appl, incl_refl | exact I1]|]. split; [|exact P1].
          intros f Hf. eapply le_trans; [apply Hmono; exact Hf | apply M1; apply in_or_app; left; exact Hf]. }
      destruct (rs_new r) as [|n new] eqn:En.
      - destruct (rs_changed r) eqn:Ec; [apply Hnext; exact Hrun|].
        inversion Hrun; subst all' ts'; clear Hrun.
        split; [apply incl_appl, incl_refl|]. split; [exact Hmono|].
        rewrite (Wc eq_refl) in HP'. simpl in HP'. exact HP'.
      - apply Hnext; exact Hrun.
    Qed.

    (* rules with at least one premise: needed for the first round (delta = all facts) *)
    Definition nonempty_prems : Prop := forall r, In r rules -> prem r <> [].

    Theorem drive_complete : forall fuel all0 ts0 all' ts',
        nonempty_prems ->
        drive SR sols fuel rules all0 init_strat ts0 = Some (all', ts') ->
        incl all0 all' /\
        (forall f, In f all0 -> le (tag ts0 f) (tag ts' f)) /\
        (forall ms cs, GI rules ms cs -> incl ms all' ->
                       eqb SR (conj_tags SR ts' ms) (zero SR) = false ->
                       forall c, In c cs -> In c all' /\ le (conj_tags SR ts' ms) (tag ts' c)).
    Proof.
      intros fuel all0 ts0 all' ts' Hne Hrun.
      destruct (drive_inv fuel all0 init_strat ts0 all' ts') as [H1 [H2 H3]]; [apply incl_refl | | exact Hrun |].
      - intros ms cs HGI Hinc. left. simpl.
        apply GI_GI1 in HGI as [r [Hr [s [Hms _]]]].
        destruct ms as [|m ms]; [|exists m; split; [left; reflexivity | apply Hinc; left; reflexivity]].
        exfalso. apply (Hne r Hr). destruct (prem r); [reflexivity | discriminate].
      - split; [exact H1|]. split; [exact H2|].
        intros ms cs HGI Hinc Hz c Hc. destruct (H3 ms cs HGI Hinc) as [[m [_ []]]|Himp]. apply Himp; assumption.
    Qed.
  End Complete.

  (* ================= the driver returns generated tags ========================================= *)
  Section DriveSound.
    Variables (all0 : list fact) (tag0 : fact -> K).
    Notation Gen := (Gen SR rules all0 tag0).

    Lemma round_impr : forall all D ts, incl D all -> incl (rs_impr (round SR sols rules all D ts)) all.
    Proof.
      intros all D ts HD.
      destruct (fold_rule_ext (fun _ _ => True) (fun _ => I) (fun _ _ _ _ _ => I) (fun _ _ => I) (fun _ _ => I)
                              (fun _ _ _ => conj I I) all D rules (RState ts [] false []) (incl_refl _) HD)
        as [_ [[W _] _]]; [split; [intros x [] | reflexivity]|]. exact W.
    Qed.

    Lemma drive_sound_inv : forall fuel all st ts all' ts',
        incl (eff_delta st all) all -> TSok all0 tag0 ts all ->
        drive SR sols fuel rules all st ts = Some (all', ts') -> TSok all0 tag0 ts' all'.
    Proof.
      induction fuel as [|fuel IH]; intros all st ts all' ts' HD Hok Hrun; simpl in Hrun; [discriminate|].
      pose proof (round_ok all0 tag0 all (eff_delta st all) ts HD Hok) as Hok'.
      pose proof (round_impr all (eff_delta st all) ts HD) as Himpr.
      set (r := round SR sols rules all (eff_delta st all) ts) in *.
      assert (Hnext : drive SR sols fuel rules (all ++ rs_new r) (Strat false (length all) (rs_impr r)) (rs_ts r) = Some (all', ts') ->
                      TSok all0 tag0 ts' all').
      { intros Hrec. eapply IH; [|exact Hok'|exact Hrec].
        unfold eff_delta; simpl. rewrite skipn_app_length.
        apply incl_app; [apply incl_appr, incl_refl | apply incl_appl; exact Himpr]. }
      destruct (rs_new r) as [|n new] eqn:En.
      - destruct (rs_changed r) eqn:Ec; [apply Hnext; exact Hrun|].
        inversion Hrun; subst all' ts'. cbv zeta in Hok'. rewrite En in Hok'. exact Hok'.
      - apply Hnext; exact Hrun.
    Qed.

    Theorem drive_sound : forall fuel ts0 all' ts',
        (forall f, In f all0 -> tag ts0 f = tag0 f) ->
        drive SR sols fuel rules all0 init_strat ts0 = Some (all', ts') ->
        forall f, In f all' -> Gen f (tag ts' f).
    Proof.
      intros fuel ts0 all' ts' H0 Hrun.
      apply (drive_sound_inv fuel all0 init_strat ts0 all' ts'); [apply incl_refl | | exact Hrun].
      intros f Hf. rewrite (H0 f Hf). apply gen_in; exact Hf.
    Qed.
  End DriveSound.

  (* ================= least fixpoint of the annotated consequence operator ====================== *)
  Section LeastFix.
    Variable le : K -> K -> Prop.
    Hypothesis le_refl : forall a, le a a.
    Hypothesis le_trans : forall a b c, le a b -> le b c -> le a c.
    Hypothesis le_plus_l : forall a b, le a (plus SR a b).
    Hypothesis le_plus_r : forall a b, le b (plus SR a b).
    Hypothesis le_plus_lub : forall a b c, le a c -> le b c -> le (plus SR a b) c.
    Hypothesis times_mono : forall a a' b b', le a a' -> le b b' -> le (times SR a b) (times SR a' b').
    Hypothesis le_zero : forall a, le (zero SR) a.
    Hypothesis times_zero_r : forall a, le (times SR a (zero SR)) (zero SR).
    Hypothesis times_zero_l : forall a, le (times SR (zero SR) a) (zero SR).
    Hypothesis eqb_le : forall a b, eqb SR a b = true -> le a b /\ le b a.

    Variables (all0 : list fact) (tag0 : fact -> K).

    (* the reported annotation: the stored tag on stored facts, zero elsewhere *)
    Definition tagx (all : list fact) (ts : tstore) (f : fact) : K := if mem f all then tag ts f else zero SR.

    Lemma fold_mono : forall (tg T : fact -> K) ms a a',
        (forall m, In m ms -> le (tg m) (T m)) -> le a a' ->
        le (fold_left (fun acc m => times SR acc (tg m)) ms a) (fold_left (fun acc m => times SR acc (T m)) ms a').
    Proof.
      intros tg T ms; induction ms as [|m ms IH]; intros a a' H Ha; simpl; [exact Ha|].
      apply IH; [intros; apply H; right; assumption|]. apply times_mono; [exact Ha | apply H; left; reflexivity].
    Qed.

    Lemma fold_zero_acc : forall (tg : fact -> K) ms a, le a (zero SR) ->
        le (fold_left (fun acc m => times SR acc (tg m)) ms a) (zero SR).
    Proof.
      intros tg ms; induction ms as [|m ms IH]; intros a Ha; simpl; [exact Ha|].
      apply IH. eapply le_trans; [apply times_mono; [exact Ha | apply le_refl] | apply times_zero_l].
    Qed.

    Lemma fold_zero_factor : forall (tg : fact -> K) ms a, (exists m, In m ms /\ tg m = zero SR) ->
        le (fold_left (fun acc m => times SR acc (tg m)) ms a) (zero SR).
    Proof.
      intros tg ms; induction ms as [|m ms IH]; intros a [x [Hx Hz]]; [destruct Hx|]; simpl.
      destruct Hx as [->|Hx].
      - apply fold_zero_acc. rewrite Hz. apply times_zero_r.
      - apply IH. exists x; auto.
    Qed.

    Lemma Gen_le : forall T, prefix SR rules all0 tag0 le T -> forall f k, Gen SR rules all0 tag0 f k -> le k (T f).
    Proof.
      intros T [P1 P2] f k HG; induction HG as [f Hf|ms cs c tg HGI Hm IH Hc Hz|f a b _ IHa _ IHb|f a _ IH E].
      - apply P1; exact Hf.
      - eapply le_trans; [|apply (P2 ms cs c HGI Hc)].
        unfold prod_tags. apply fold_mono; [exact IH | apply le_refl].
      - apply le_plus_lub; assumption.
      - apply eqb_le in E as [_ E]. eapply le_trans; eauto.
    Qed.

    Theorem semiring_fixpoint : forall fuel ts0 all' ts',
        nonempty_prems ->
        (forall f, In f all0 -> tag ts0 f = tag0 f) ->
        drive SR sols fuel rules all0 init_strat ts0 = Some (all', ts') ->
        prefix SR rules all0 tag0 le (tagx all' ts') /\
        (forall T, prefix SR rules all0 tag0 le T -> forall f, le (tagx all' ts' f) (T f)).
    Proof.
      intros fuel ts0 all' ts' Hne H0 Hrun.
      destruct (drive_complete le le_refl le_trans le_plus_l le_plus_r eqb_le fuel all0 ts0 all' ts' Hne Hrun)
        as [Hinc [Hmono Hclosed]].
      pose proof (drive_sound all0 tag0 fuel ts0 all' ts' H0 Hrun) as Hgen.
      split; [split|].
      - intros f Hf. unfold tagx. assert (Hf' := Hinc f Hf). apply mem_In in Hf'. rewrite Hf'.
        rewrite <- (H0 f Hf). apply Hmono; exact Hf.
      - intros ms cs c HGI Hc.
        destruct (forall_or_exists (fun m => In m all') (fun m => ~ In m all') ms) as [Hall|[m [Hm Hn]]].
        { intros m _. destruct (mem m all') eqn:E; [left; apply mem_In; exact E | right; apply mem_false; exact E]. }
        + assert (Heq : prod_tags SR (tagx all' ts') ms = conj_tags SR ts' ms).
          { rewrite conj_tags_prod. unfold prod_tags. generalize (one SR) as acc.
            clear HGI. induction ms as [|m ms IH]; intros acc; simpl; [reflexivity|].
            unfold tagx at 2. assert (Hm := Hall m (or_introl eq_refl)). apply mem_In in Hm; rewrite Hm.
            apply IH. intros; apply Hall; right; assumption. }
          rewrite Heq. destruct (eqb SR (conj_tags SR ts' ms) (zero SR)) eqn:Ez.
          * apply eqb_le in Ez as [Ez _]. eapply le_trans; [exact Ez | apply le_zero].
          * destruct (Hclosed ms cs HGI Hall Ez c Hc) as [Hin Hle].
            unfold tagx. apply mem_In in Hin; rewrite Hin. exact Hle.
        + eapply le_trans; [|apply le_zero]. apply fold_zero_factor.
          exists m; split; [exact Hm|]. unfold tagx. apply mem_false in Hn; rewrite Hn; reflexivity.
      - intros T HT f. unfold tagx. destruct (mem f all') eqn:E; [|apply le_zero].
        apply mem_In in E. apply (Gen_le T HT). apply Hgen; exact E.
    Qed.
  End LeastFix.
End Generic.
