(* shannon_wmc_correct: on a formula whose variables are below the length of the probability table, the Shannon
   expansion of the code computes exactly the total weight of the worlds satisfying the formula:
       wmc (length table) table phi == world_prob table (fun W => ind (sem W phi)). *)
Require Import Lqa.
Require Import KV.Prov.Dnf KV.Prov.Wmc KV.Prov.Instances KV.Prov.Spec KV.Prov.DnfProofs KV.Prov.SpecFacts.
Open Scope N_scope.

(* ---- lowest set bit ------------------------------------------------------------------------------------ *)
Lemma ctz_spec : forall p, N.testbit (Npos p) (ctz p) = true /\ forall j, j < ctz p -> N.testbit (Npos p) j = false.
Proof.
  induction p as [p IH|p IH|]; simpl ctz.
  - split; [reflexivity | intros j Hj; destruct (N.nlt_0_r _ Hj)].
  - destruct IH as [H1 H2]. change (Npos p~0) with (2 * Npos p). split.
    + rewrite N.double_bits_succ. exact H1.
    + intros j Hj. destruct (N.eq_0_gt_0_cases j) as [->|Hpos]; [apply N.testbit_even_0|].
      rewrite <- (N.succ_pred_pos j Hpos). rewrite N.double_bits_succ. apply H2.
      apply N.succ_lt_mono. rewrite (N.succ_pred_pos j Hpos). exact Hj.
  - split; [reflexivity | intros j Hj; destruct (N.nlt_0_r _ Hj)].
Qed.

Definition mentions (c : clause) (j : N) : Prop := N.testbit (fst c) j = true \/ N.testbit (snd c) j = true.

Lemma mask_bit : forall c j, N.testbit (cl_mask c) j = true <-> mentions c j.
Proof. intros c j; unfold cl_mask, mentions. rewrite N.lor_spec. apply orb_true_iff. Qed.

Lemma cl_minvar_none : forall c, cl_minvar c = None -> c = cl_empty.
Proof.
  intros [a b]; unfold cl_minvar. destruct (cl_mask (a, b)) eqn:E; [|discriminate]. intros _.
  unfold cl_mask in E; simpl in E. apply N.lor_eq_0_iff in E as [-> ->]. reflexivity.
Qed.

Lemma cl_minvar_some : forall c x, cl_minvar c = Some x -> mentions c x /\ forall j, j < x -> ~ mentions c j.
Proof.
  intros c x; unfold cl_minvar. destruct (cl_mask c) as [|p] eqn:E; [discriminate|]. intros H; inversion H; subst x.
  destruct (ctz_spec p) as [H1 H2]. rewrite <- E in *. split.
  - apply mask_bit; exact H1.
  - intros j Hj Hm. apply mask_bit in Hm. rewrite (H2 j Hj) in Hm. discriminate.
Qed.

Lemma minvar_none : forall phi, minvar phi = None -> forall c, In c phi -> c = cl_empty.
Proof.
  induction phi as [|d phi IH]; intros H c Hc; [destruct Hc|]. simpl in H.
  destruct (cl_minvar d) eqn:Ed; destruct (minvar phi) eqn:Ep; simpl in H; try discriminate.
  destruct Hc as [<-|Hc]; [apply cl_minvar_none; exact Ed | apply IH; auto].
Qed.

Lemma minvar_some : forall phi x, minvar phi = Some x ->
    (exists c, In c phi /\ mentions c x) /\ forall c j, In c phi -> j < x -> ~ mentions c j.
Proof.
  induction phi as [|d phi IH]; intros x H; [discriminate|]. simpl in H.
  destruct (cl_minvar d) as [xd|] eqn:Ed; destruct (minvar phi) as [xp|] eqn:Ep; simpl in H; inversion H; subst x; clear H.
  - destruct (cl_minvar_some d xd Ed) as [D1 D2]. destruct (IH xp eq_refl) as [[c [Hc Hm]] P2].
    split.
    + destruct (N.min_spec xd xp) as [[_ ->]|[_ ->]]; [exists d; split; [left; reflexivity | exact D1] | exists c; split; [right; exact Hc | exact Hm]].
    + intros c' j [<-|Hc'] Hj.
      * apply D2. apply N.lt_le_trans with (N.min xd xp); [exact Hj | apply N.le_min_l].
      * apply (P2 c' j Hc'). apply N.lt_le_trans with (N.min xd xp); [exact Hj | apply N.le_min_r].
  - destruct (cl_minvar_some d xd Ed) as [D1 D2]. split; [exists d; split; [left; reflexivity | exact D1]|].
    intros c' j [<-|Hc'] Hj; [apply D2; exact Hj|].
    rewrite (minvar_none phi Ep c' Hc'). intros [Hm|Hm]; cbn [cl_empty fst snd] in Hm; rewrite N.bits_0 in Hm; discriminate.
  - destruct (IH xp eq_refl) as [[c [Hc Hm]] P2]. split; [exists c; split; [right; exact Hc | exact Hm]|].
    intros c' j [<-|Hc'] Hj; [|apply (P2 c' j Hc' Hj)].
    rewrite (cl_minvar_none d Ed). intros [Hm'|Hm']; cbn [cl_empty fst snd] in Hm'; rewrite N.bits_0 in Hm'; discriminate.
Qed.

(* ---- worlds that agree on the variables of a clause ---------------------------------------------------------- *)
Lemma sem_cl_agree : forall W W' c, (forall j, mentions c j -> N.testbit W j = N.testbit W' j) -> sem_cl W c = sem_cl W' c.
Proof.
  assert (Hdir : forall W W' c, (forall j, mentions c j -> N.testbit W j = N.testbit W' j) -> cl_holds W c -> cl_holds W' c).
  { intros W W' c H [H1 H2]; split; intros j Hj.
    - rewrite <- (H j (or_introl Hj)). apply H1; exact Hj.
    - rewrite <- (H j (or_intror Hj)). apply H2; exact Hj. }
  intros W W' c H. apply Bool.eq_iff_eq_true. rewrite !sem_cl_spec. split; apply Hdir; [exact H | intros j Hj; symmetry; apply H; exact Hj].
Qed.

Lemma sem_agree : forall W W' phi, (forall c j, In c phi -> mentions c j -> N.testbit W j = N.testbit W' j) -> sem W phi = sem W' phi.
Proof.
  intros W W' phi H. apply Bool.eq_iff_eq_true. rewrite !sem_spec.
  split; intros [c [Hc Hs]]; exists c; split; auto;
    [rewrite <- (sem_cl_agree W W' c) | rewrite (sem_cl_agree W W' c)]; auto; intros j Hj; apply (H c j Hc Hj).
Qed.

(* ---- conditioning --------------------------------------------------------------------------------------------- *)
Lemma In_fold_add : forall (h : clause -> clause) y l acc,
    In y (fold_left (fun a c => f_add (h c) a) l acc) <-> In y acc \/ exists c, In c l /\ y = h c.
Proof.
  intros h y l; induction l as [|d l IH]; intros acc; simpl.
  - split; [auto | intros [H|[c [[] _]]]; exact H].
  - rewrite IH, In_f_add. split.
    + intros [[->|H]|[c [H1 H2]]]; [right; exists d; auto | auto | right; exists c; auto].
    + intros [H|[c [[<-|H1] H2]]]; [auto | auto | right; exists c; auto].
Qed.

Lemma In_cond : forall y phi x b,
    In y (cond phi x b) <-> exists c, In c phi /\ N.testbit (if b then snd c else fst c) x = false /\ y = cl_clear x c.
Proof.
  intros y phi x b; unfold cond. rewrite In_fold_add. split.
  - intros [[]|[c [Hc ->]]]. apply filter_In in Hc as [Hc Hb]. apply negb_true_iff in Hb. exists c; auto.
  - intros [c [Hc [Hb ->]]]. right; exists c; split; [|reflexivity]. apply filter_In; split; [exact Hc | rewrite Hb; reflexivity].
Qed.

Lemma clear_mentions : forall x c j, mentions (cl_clear x c) j <-> mentions c j /\ x <> j.
Proof.
  intros x c j; unfold mentions, cl_clear; simpl. rewrite !N.clearbit_iff. tauto.
Qed.

Lemma cond_sem : forall W phi x b,
    sem W (cond phi x b) = sem (if b then N.setbit W x else N.clearbit W x) phi.
Proof.
  intros W phi x b. set (W' := if b then N.setbit W x else N.clearbit W x).
  assert (Hx : N.testbit W' x = b) by (unfold W'; destruct b; [apply N.setbit_eq | apply N.clearbit_eq]).
  assert (Hother : forall j, x <> j -> N.testbit W' j = N.testbit W j)
    by (intros j Hj; unfold W'; destruct b; [apply N.setbit_neq | apply N.clearbit_neq]; exact Hj).
  apply Bool.eq_iff_eq_true. rewrite !sem_spec. split.
  - intros [y [Hy Hs]]. apply In_cond in Hy as [c [Hc [Hb ->]]]. exists c; split; [exact Hc|].
    apply sem_cl_spec in Hs as [H1 H2]. apply sem_cl_spec. split; intros j Hj.
    + destruct (N.eq_dec x j) as [<-|Hne].
      * rewrite Hx. destruct b; [reflexivity | congruence].
      * rewrite (Hother j Hne). apply H1. simpl. apply N.clearbit_iff; auto.
    + destruct (N.eq_dec x j) as [<-|Hne].
      * rewrite Hx. destruct b; [congruence | reflexivity].
      * rewrite (Hother j Hne). apply H2. simpl. apply N.clearbit_iff; auto.
  - intros [c [Hc Hs]]. apply sem_cl_spec in Hs as [H1 H2].
    assert (Hb : N.testbit (if b then snd c else fst c) x = false).
    { destruct b.
      - destruct (N.testbit (snd c) x) eqn:E; [|reflexivity]. specialize (H2 x E). congruence.
      - destruct (N.testbit (fst c) x) eqn:E; [|reflexivity]. specialize (H1 x E). congruence. }
    exists (cl_clear x c); split; [apply In_cond; exists c; auto|].
    apply sem_cl_spec. split; intros j Hj; simpl in Hj; apply N.clearbit_iff in Hj as [Hj Hne];
      rewrite <- (Hother j Hne); [apply H1 | apply H2]; exact Hj.
Qed.

(* ---- variable ranges ---------------------------------------------------------------------------------------------- *)
Definition vars_in (lo hi : N) (phi : dnf) : Prop := forall c j, In c phi -> mentions c j -> lo <= j < hi.

Lemma vars_in_cond : forall x hi phi b, vars_in x hi phi -> vars_in (N.succ x) hi (cond phi x b).
Proof.
  intros x hi phi b H y j Hy Hm. apply In_cond in Hy as [c [Hc [_ ->]]].
  apply clear_mentions in Hm as [Hm Hne]. destruct (H c j Hc Hm) as [H1 H2]. split; [|exact H2].
  apply N.le_succ_l. apply N.le_neq; split; [exact H1 | exact Hne].
Qed.

(* ---- unfolding wmc ------------------------------------------------------------------------------------------------ *)
Open Scope Q_scope.

Lemma wmc_nil : forall fuel t, wmc fuel t [] = 0.
Proof. destruct fuel; reflexivity. Qed.
Lemma wmc_top : forall fuel t phi, phi <> [] -> f_mem cl_empty phi = true -> wmc fuel t phi = 1.
Proof. intros fuel t [|c phi] H1 H2; [congruence|]. destruct fuel; cbn [wmc]; rewrite H2; reflexivity. Qed.
Lemma wmc_step : forall fuel t phi, phi <> [] -> f_mem cl_empty phi = false ->
    wmc (S fuel) t phi = match minvar phi with
                         | None => 0
                         | Some x => Qred (table_get t x * wmc fuel t (cond phi x true)
                                           + (1 - table_get t x) * wmc fuel t (cond phi x false))
                         end.
Proof. intros fuel t [|c phi] H1 H2; [congruence|]. cbn [wmc]; rewrite H2; reflexivity. Qed.

Lemma table_get_app : forall pre p ps, table_get (pre ++ p :: ps) (N.of_nat (length pre)) = p.
Proof.
  intros; unfold table_get. rewrite Nat2N.id, app_nth2, Nat.sub_diag by apply Nat.le_refl. reflexivity.
Qed.

Lemma sem_top : forall W phi, f_mem cl_empty phi = true -> sem W phi = true.
Proof. intros W phi H. apply sem_spec. exists cl_empty; split; [apply f_mem_In; exact H | apply sem_cl_empty]. Qed.

Lemma wmc_pw : forall ps pre fuel phi,
    (length ps <= fuel)%nat ->
    vars_in (N.of_nat (length pre)) (N.of_nat (length pre + length ps)) phi ->
    wmc fuel (pre ++ ps) phi == pw_sum (N.of_nat (length pre)) ps (fun W => ind (sem W phi)).
Proof.
  induction ps as [|p ps IH]; intros pre fuel phi Hfuel Hvars.
  - (* no variable left: every clause is empty *)
    cbn [pw_sum]. destruct phi as [|c phi]; [rewrite wmc_nil; reflexivity|].
    assert (Hall : forall d, In d (c :: phi) -> d = cl_empty).
    { intros [a b] Hd. unfold cl_empty. f_equal; apply N.bits_inj_0; intros j.
      - destruct (N.testbit a j) eqn:E; [|reflexivity]. destruct (Hvars (a, b) j Hd (or_introl E)) as [H1 H2].
        rewrite Nat.add_0_r in H2. exfalso. apply (N.lt_irrefl j). eapply N.lt_le_trans; eauto.
      - destruct (N.testbit b j) eqn:E; [|reflexivity]. destruct (Hvars (a, b) j Hd (or_intror E)) as [H1 H2].
        rewrite Nat.add_0_r in H2. exfalso. apply (N.lt_irrefl j). eapply N.lt_le_trans; eauto. }
    assert (Hm : f_mem cl_empty (c :: phi) = true).
    { apply f_mem_In. left. apply Hall; left; reflexivity. }
    rewrite wmc_top by (congruence || exact Hm). rewrite (sem_top 0%N _ Hm). reflexivity.
  - destruct phi as [|c phi].
    { rewrite wmc_nil. rewrite (pw_sum_ext (p :: ps) _ _ (fun _ => 0)); [rewrite pw_sum_const; reflexivity | intros; reflexivity]. }
    set (phi0 := c :: phi) in *.
    destruct (f_mem cl_empty phi0) eqn:Hm.
    { rewrite wmc_top by (unfold phi0; congruence || exact Hm).
      rewrite (pw_sum_ext (p :: ps) _ _ (fun _ => 1)); [rewrite pw_sum_const; reflexivity|].
      intros W. rewrite (sem_top W _ Hm). reflexivity. }
    destruct fuel as [|fuel]; [simpl in Hfuel; lia|].
    rewrite wmc_step by (unfold phi0; congruence || exact Hm).
    assert (Hlen : N.of_nat (length (pre ++ [p])) = N.succ (N.of_nat (length pre))).
    { rewrite app_length; simpl. rewrite Nat.add_1_r, Nat2N.inj_succ. reflexivity. }
    assert (Hlen2 : (length (pre ++ [p]) + length ps = length pre + length (p :: ps))%nat).
    { rewrite app_length; simpl. lia. }
    assert (Htab : pre ++ p :: ps = (pre ++ [p]) ++ ps) by (rewrite <- app_assoc; reflexivity).
    destruct (minvar phi0) as [x|] eqn:Emin.
    2:{ exfalso. assert (E := minvar_none phi0 Emin c (or_introl eq_refl)).
        assert (f_mem cl_empty phi0 = true) by (apply f_mem_In; left; exact E). congruence. }
    destruct (minvar_some phi0 x Emin) as [[c0 [Hc0 Hm0]] Hlow].
    destruct (Hvars c0 x Hc0 Hm0) as [Hx1 Hx2].
    cbn [pw_sum]. set (i := N.of_nat (length pre)) in *.
    destruct (N.eq_dec x i) as [->|Hne].
    + (* Shannon step on variable i *)
      assert (Hp : table_get (pre ++ p :: ps) i = p) by (unfold i; apply table_get_app).
      rewrite Qred_correct, !Hp.
      rewrite Htab.
      rewrite (IH (pre ++ [p]) fuel (cond phi0 i true)), (IH (pre ++ [p]) fuel (cond phi0 i false)).
      * rewrite Hlen. fold i.
        rewrite (pw_sum_ext ps (N.succ i) (fun W => ind (sem W (cond phi0 i true))) (fun W => ind (sem (N.setbit W i) phi0)))
          by (intros W; rewrite (cond_sem W phi0 i true); reflexivity).
        rewrite (pw_sum_ext ps (N.succ i) (fun W => ind (sem W (cond phi0 i false))) (fun W => ind (sem (N.clearbit W i) phi0)))
          by (intros W; rewrite (cond_sem W phi0 i false); reflexivity).
        reflexivity.
      * simpl in Hfuel; lia.
      * rewrite Hlen, Hlen2. fold i. apply vars_in_cond. exact Hvars.
      * simpl in Hfuel; lia.
      * rewrite Hlen, Hlen2. fold i. apply vars_in_cond. exact Hvars.
    + (* variable i does not occur: both branches equal the value of the formula itself *)
      assert (Hgt : (i < x)%N) by (apply N.le_neq; split; [exact Hx1 | intros E; apply Hne; symmetry; exact E]).
      assert (Hvars' : vars_in (N.of_nat (length (pre ++ [p]))) (N.of_nat (length (pre ++ [p]) + length ps)) phi0).
      { rewrite Hlen, Hlen2. fold i. intros d j Hd Hmj. destruct (Hvars d j Hd Hmj) as [H1 H2]. split; [|exact H2].
        apply N.le_succ_l. destruct (N.lt_ge_cases i j) as [Hlt|Hge]; [exact Hlt|].
        exfalso. apply (Hlow d j Hd); [eapply N.le_lt_trans; eauto | exact Hmj]. }
      assert (Hsame : forall (h : N -> N), (forall W j, i <> j -> N.testbit (h W) j = N.testbit W j) ->
                  pw_sum (N.succ i) ps (fun W => ind (sem (h W) phi0)) == wmc (S fuel) (pre ++ p :: ps) phi0).
      { intros h Hh. rewrite Htab, (IH (pre ++ [p]) (S fuel) phi0); [| simpl in Hfuel; lia | exact Hvars'].
        rewrite Hlen. fold i. apply pw_sum_ext. intros W. rewrite (sem_agree (h W) W phi0); [reflexivity|].
        intros d j Hd Hmj. apply Hh. intros <-. apply (Hlow d i Hd Hgt Hmj). }
      rewrite (Hsame (fun W => N.setbit W i)) by (intros W j Hj; apply N.setbit_neq; exact Hj).
      rewrite (Hsame (fun W => N.clearbit W i)) by (intros W j Hj; apply N.clearbit_neq; exact Hj).
      assert (Hw : wmc (S fuel) (pre ++ p :: ps) phi0 =
                   Qred (table_get (pre ++ p :: ps) x * wmc fuel (pre ++ p :: ps) (cond phi0 x true)
                         + (1 - table_get (pre ++ p :: ps) x) * wmc fuel (pre ++ p :: ps) (cond phi0 x false))).
      { rewrite wmc_step by (unfold phi0; congruence || exact Hm). rewrite Emin. reflexivity. }
      rewrite <- Hw. ring.
Qed.

Theorem wmc_correct : forall table phi,
    dnf_bounded (N.of_nat (length table)) phi ->
    wmc (length table) table phi == world_prob table (fun W => ind (sem W phi)).
Proof.
  intros table phi Hb. rewrite world_prob_pw.
  apply (wmc_pw table [] (length table) phi); [apply Nat.le_refl|].
  intros c j Hc Hm. split; [apply N.le_0_l | apply (Hb c Hc j Hm)].
Qed.
