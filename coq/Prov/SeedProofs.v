(* Seeding (Reasoner::infer_new_facts_with_provenance): the sorted seed list is a rearrangement of the seeds,
   and the initial tag store gives every input fact either its seed tag or `one`. *)
Require Import Permutation.
Require Import KV.Prov.Model KV.Prov.Spec KV.Prov.Annot KV.Prov.BasicFacts.

Lemma seed_insert_perm : forall s l, Permutation (s :: l) (seed_insert s l).
Proof.
  intros s l; induction l as [|t l IH]; simpl; [apply Permutation_refl|].
  destruct (fact_ltb (fst s) (fst t)); [apply Permutation_refl|].
  eapply Permutation_trans; [apply perm_swap | apply perm_skip; exact IH].
Qed.

Lemma sort_seeds_perm : forall l, Permutation l (sort_seeds l).
Proof.
  induction l as [|s l IH]; simpl; [apply Permutation_refl|].
  eapply Permutation_trans; [apply perm_skip; exact IH | apply seed_insert_perm].
Qed.

Lemma sort_seeds_nodup : forall l, NoDup (map fst l) -> NoDup (map fst (sort_seeds l)).
Proof. intros l H. eapply Permutation_NoDup; [apply Permutation_map, sort_seeds_perm | exact H]. Qed.

Lemma sort_seeds_length : forall l, length (sort_seeds l) = length l.
Proof. intros; symmetry; apply Permutation_length, sort_seeds_perm. Qed.

Lemma sort_seeds_in : forall l x, In x (sort_seeds l) <-> In x l.
Proof. intros; split; apply Permutation_in; [apply Permutation_sym|]; apply sort_seeds_perm. Qed.

Lemma seed_find_none : forall sorted f i, ~ In f (map fst sorted) -> seed_find sorted f i = None.
Proof.
  induction sorted as [|[g p] rest IH]; intros f i H; simpl; [reflexivity|].
  destruct (fact_eqb f g) eqn:E; [apply fact_eqb_eq in E; subst; exfalso; apply H; left; reflexivity|].
  apply IH. intros Hin; apply H; right; exact Hin.
Qed.

Lemma seed_find_some : forall sorted f i j p, seed_find sorted f i = Some (j, p) ->
    In (f, p) sorted /\ i <= j < i + N.of_nat (length sorted).
Proof.
  induction sorted as [|[g q] rest IH]; intros f i j p H; simpl in H; [discriminate|].
  destruct (fact_eqb f g) eqn:E.
  - apply fact_eqb_eq in E; subst g. inversion H; subst. split; [left; reflexivity|]. simpl length. lia.
  - destruct (IH f (N.succ i) j p H) as [H1 H2]. split; [right; exact H1|]. simpl length. lia.
Qed.

Section Seed.
  Context {K : Type} (P : provenance K).
  Notation tag := (get_tag P).

  (* structural description of an initial tag: untouched, a seed tag, or `one` (a seed tag equal to one) *)
  Lemma seed_store_tag : forall sorted id ts g,
      tag (seed_store P sorted id ts) g = tag ts g \/
      exists i p, In (g, p) sorted /\ id <= i < id + N.of_nat (length sorted) /\
                  (tag (seed_store P sorted id ts) g = from_prob P p i \/ tag (seed_store P sorted id ts) g = one P).
  Proof.
    induction sorted as [|[f p] rest IH]; intros id ts g; simpl; [left; reflexivity|].
    destruct (IH (N.succ id) (set_tag P ts f (from_prob P p id)) g) as [H|[i [q [H1 [H2 H3]]]]].
    - rewrite H, get_tag_set_tag. destruct (fact_eqb g f) eqn:E; [|left; reflexivity].
      apply fact_eqb_eq in E; subst f. right. exists id, p. split; [left; reflexivity|]. split; [lia|].
      destruct (eqb P (from_prob P p id) (one P)); auto.
    - right. exists i, q. split; [right; exact H1|]. split; [lia | exact H3].
  Qed.

  Section Den.
    Variables (W : Type) (okw : W -> Prop) (den : W -> K -> bool).
    Hypothesis den_one : forall w, okw w -> den w (one P) = true.
    Hypothesis den_eqb : forall w a b, okw w -> eqb P a b = true -> den w a = den w b.

    Lemma seed_store_den : forall sorted id ts g w, okw w -> NoDup (map fst sorted) ->
        den w (tag (seed_store P sorted id ts) g) =
        match seed_find sorted g id with
        | Some (i, p) => den w (from_prob P p i)
        | None => den w (tag ts g)
        end.
    Proof.
      induction sorted as [|[f p] rest IH]; intros id ts g w Hw Hnd; simpl; [reflexivity|].
      inversion Hnd as [|x l Hnotin Hnd']; subst. rewrite (IH _ _ _ w Hw Hnd').
      destruct (fact_eqb g f) eqn:E.
      - apply fact_eqb_eq in E; subst f. rewrite (seed_find_none rest g _ Hnotin).
        rewrite get_tag_set_tag, fact_eqb_refl.
        destruct (eqb P (from_prob P p id) (one P)) eqn:E1; [|reflexivity].
        symmetry. apply den_eqb; assumption.
      - destruct (seed_find rest g (N.succ id)) as [[i q]|]; [reflexivity|].
        rewrite get_tag_set_tag, E. reflexivity.
    Qed.

    Lemma init_den : forall seeds g w, okw w -> NoDup (map fst seeds) ->
        den w (tag (seed_store P (sort_seeds seeds) 0 []) g) =
        match seed_find (sort_seeds seeds) g 0 with
        | Some (i, p) => den w (from_prob P p i)
        | None => true
        end.
    Proof.
      intros seeds g w Hw Hnd. rewrite (seed_store_den _ _ _ _ w Hw (sort_seeds_nodup _ Hnd)).
      destruct (seed_find (sort_seeds seeds) g 0) as [[i p]|]; [reflexivity|].
      unfold get_tag; simpl. apply den_one; exact Hw.
    Qed.
  End Den.

  (* an invariant of the seed tags and of `one` holds for every initial tag *)
  Lemma init_inv : forall (Pinv : K -> Prop) seeds g,
      Pinv (one P) -> (forall p i, In p (map snd seeds) -> i < N.of_nat (length seeds) -> Pinv (from_prob P p i)) ->
      Pinv (tag (seed_store P (sort_seeds seeds) 0 []) g).
  Proof.
    intros Pinv seeds g H1 H2.
    destruct (seed_store_tag (sort_seeds seeds) 0 [] g) as [H|[i [p [Hin [Hi [H|H]]]]]]; rewrite H.
    - exact H1.
    - apply H2.
      + apply (proj1 (sort_seeds_in _ _)) in Hin. apply in_map_iff. exists (g, p); split; [reflexivity | exact Hin].
      + rewrite sort_seeds_length in Hi. lia.
    - exact H1.
  Qed.
End Seed.

(* ---- generic helpers ------------------------------------------------------------------------------- *)
Lemma Gen_inv : forall {K} (SR : semiring K) rules all0 tag0 (Pinv : K -> Prop),
    (forall f, In f all0 -> Pinv (tag0 f)) -> Pinv (one SR) ->
    (forall a b, Pinv a -> Pinv b -> Pinv (plus SR a b)) ->
    (forall a b, Pinv a -> Pinv b -> Pinv (times SR a b)) ->
    forall f k, Gen SR rules all0 tag0 f k -> Pinv k.
Proof.
  intros K SR rules all0 tag0 Pinv H0 H1 Hp Ht f k HG.
  induction HG as [f Hf|ms cs c tg HGI Hm IH Hc Hz|f a b _ IHa _ IHb|f a _ IH E]; auto.
  unfold prod_tags. assert (Hacc : Pinv (one SR)) by exact H1. revert Hacc. generalize (one SR) as acc.
  clear HGI Hm Hz. induction ms as [|m ms IHm]; intros acc Hacc; simpl; [exact Hacc|].
  apply IHm; [intros; apply IH; right; assumption |].
  apply Ht; [exact Hacc | apply IH; left; reflexivity].
Qed.

Lemma Deriv_ext : forall rules (b1 b2 : fact -> Prop), (forall g, b1 g -> b2 g) ->
    forall f, Deriv rules b1 f -> Deriv rules b2 f.
Proof.
  intros rules b1 b2 H f HD; induction HD as [f Hf|ms cs c HGI Hm IH Hc]; [apply d_base; auto | eapply d_rule; eauto].
Qed.

Lemma safe_nonempty : forall rules, safe rules = true -> forall r, In r rules -> prem r <> [].
Proof.
  intros rules H r Hr. unfold safe in H. rewrite forallb_forall in H. specialize (H r Hr).
  unfold safe_rule in H. apply andb_true_iff in H as [H _]. destruct (prem r); [discriminate | discriminate].
Qed.
