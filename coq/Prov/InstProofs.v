(* The instances of the generic theorem named by property C06:
     exact Boolean-function tag structures (DNF model counting; decision diagrams by hypothesis; truth tables),
     the Boolean structure, the min-max structure. *)
Require Import Lqa.
Require Import KV.Prov.Model KV.Prov.Instances KV.Prov.Spec KV.Prov.Annot KV.Prov.BasicFacts KV.Prov.ProvProofs
        KV.Prov.HomProofs KV.Prov.DnfProofs KV.Prov.SpecFacts KV.Prov.WmcProofs KV.Prov.SeedProofs KV.Prov.MatcherProofs.
Open Scope N_scope.

Lemma Gen_derivable : forall {K} (SR : semiring K) rules all0 tag0 f k,
    Gen SR rules all0 tag0 f k -> Deriv rules (fun g => In g all0) f.
Proof.
  intros K SR rules all0 tag0 f k HG.
  induction HG as [f Hf|ms cs c tg HGI Hm IH Hc Hz|f a b _ IHa _ IHb|f a _ IH E]; auto.
  - apply d_base; exact Hf.
  - eapply d_rule; eauto.
Qed.

(* ================= exact Boolean-function tag structures ================================================= *)
(* [den W k] is the truth value of tag k in world W; [inv] an invariant of the tags that occur (e.g. "mentions
   only variables below n").  For SddProvenance these are the statements of property C07 (apply denotes the
   Boolean operation, equal handles denote equal functions, wmc is the weighted model count). *)
Record exact_bf {K} (P : provenance K) (n : N) (table : list Q) (den : N -> K -> bool) (inv : K -> Prop) : Prop := {
  bf_zero : forall W, In W (worlds 0 table) -> den W (zero P) = false;
  bf_one : forall W, In W (worlds 0 table) -> den W (one P) = true;
  bf_plus : forall W a b, In W (worlds 0 table) -> den W (plus P a b) = den W a || den W b;
  bf_times : forall W a b, In W (worlds 0 table) -> den W (times P a b) = den W a && den W b;
  bf_eqb : forall W a b, In W (worlds 0 table) -> eqb P a b = true -> den W a = den W b;
  bf_lit : forall W p i, In W (worlds 0 table) -> i < n -> den W (from_prob P p i) = N.testbit W i;
  bf_inv_one : inv (one P);
  bf_inv_lit : forall p i, i < n -> inv (from_prob P p i);
  bf_inv_plus : forall a b, inv a -> inv b -> inv (plus P a b);
  bf_inv_times : forall a b, inv a -> inv b -> inv (times P a b);
  bf_wmc : forall k, inv k -> (recover P table k == world_prob table (fun W => ind (den W k)))%Q
}.

Section ExactBF.
  Context {K : Type} (P : provenance K).
  Variables (fuel : nat) (rules : list rule) (facts : list fact) (seeds : list (fact * Q))
            (all : list fact) (ts : tstore (K:=K)).
  Hypothesis Hsafe : safe rules = true.
  Hypothesis Hnd : NoDup (map fst seeds).
  Hypothesis Hrun : infer P fuel rules facts seeds = Some (all, ts).

  Let sorted := sort_seeds seeds.
  Let table := prob_table sorted.
  Let n := N.of_nat (length seeds).
  Let ts0 : tstore (K:=K) := seed_store P sorted 0 [].

  Variables (den : N -> K -> bool) (inv : K -> Prop).
  Hypothesis E : exact_bf P n table den inv.

  Let okw (W : N) : Prop := In W (worlds 0 table).

  Lemma run_drive : drive P solutions fuel rules facts init_strat ts0 = Some (all, ts).
  Proof. exact Hrun. Qed.

  Lemma base_in_world : forall W g, okw W ->
      (In g facts /\ den W (get_tag P ts0 g) = true) <-> in_world facts sorted W g.
  Proof.
    intros W g HW. unfold in_world, in_worldb. rewrite andb_true_iff, mem_In.
    unfold ts0, sorted. rewrite (init_den P N okw den (bf_one _ _ _ _ _ E) (bf_eqb _ _ _ _ _ E) seeds g W HW Hnd).
    destruct (seed_find (sort_seeds seeds) g 0) as [[i p]|] eqn:Ef; [|tauto].
    destruct (seed_find_some _ _ _ _ _ Ef) as [_ Hi]. rewrite sort_seeds_length in Hi.
    rewrite (bf_lit _ _ _ _ _ E W p i HW); [tauto | unfold n; lia].
  Qed.

  Theorem bf_worlds : forall W, okw W -> forall f,
      (In f all /\ den W (get_tag P ts f) = true) <-> Deriv rules (in_world facts sorted W) f.
  Proof.
    intros W HW f.
    rewrite (hom_exact P solutions rules (solutions_spec rules Hsafe) (safe_nonempty rules Hsafe) N okw den
                       (bf_zero _ _ _ _ _ E) (bf_one _ _ _ _ _ E) (bf_plus _ _ _ _ _ E) (bf_times _ _ _ _ _ E)
                       (bf_eqb _ _ _ _ _ E) fuel facts ts0 all ts run_drive W HW f).
    split; apply Deriv_ext; intros g Hg; [apply (base_in_world W g HW) | apply (base_in_world W g HW)]; exact Hg.
  Qed.

  Lemma stored_inv : forall f, In f all -> inv (get_tag P ts f).
  Proof.
    intros f Hf.
    apply (Gen_inv P rules facts (get_tag P ts0) inv) with (f := f).
    - intros g _. unfold ts0, sorted. apply init_inv; [apply (bf_inv_one _ _ _ _ _ E)|].
      intros p i _ Hi. apply (bf_inv_lit _ _ _ _ _ E). exact Hi.
    - apply (bf_inv_one _ _ _ _ _ E).
    - apply (bf_inv_plus _ _ _ _ _ E).
    - apply (bf_inv_times _ _ _ _ _ E).
    - apply (stored_tag_generated P solutions rules (solutions_spec rules Hsafe) fuel facts ts0 all ts run_drive f Hf).
  Qed.

  (* the stored facts are the facts derivable from the input facts (whatever their probabilities) *)
  Theorem bf_facts : forall f, In f all <-> Deriv rules (fun g => In g facts) f.
  Proof.
    intros f; split.
    - intros Hf. eapply Gen_derivable.
      apply (stored_tag_generated P solutions rules (solutions_spec rules Hsafe) fuel facts ts0 all ts run_drive f Hf).
    - intros HD.
      assert (HW : okw (top_world 0 table)) by apply top_world_in.
      apply (bf_worlds _ HW f). revert HD. apply Deriv_ext. intros g Hg.
      unfold in_world, in_worldb. apply andb_true_iff; split; [apply mem_In; exact Hg|].
      destruct (seed_find sorted g 0) as [[i p]|] eqn:Ef; [|reflexivity].
      destruct (seed_find_some _ _ _ _ _ Ef) as [_ Hi]. apply top_world_bits.
      unfold table, prob_table. rewrite map_length. exact Hi.
  Qed.

  (* the reported probability is the total weight of the worlds in which the fact is derivable *)
  Theorem bf_exact : forall f, In f all ->
      forall d : N -> bool, (forall W, okw W -> (d W = true <-> Deriv rules (in_world facts sorted W) f)) ->
      (fact_prob P seeds ts f == world_prob table (fun W => ind (d W)))%Q.
  Proof.
    intros f Hf d Hd. unfold fact_prob. fold sorted. fold table.
    rewrite (bf_wmc _ _ _ _ _ E _ (stored_inv f Hf)).
    apply world_prob_ext_in. intros W HW.
    assert (Heq : den W (get_tag P ts f) = d W).
    { apply Bool.eq_iff_eq_true. rewrite (Hd W HW), <- (bf_worlds W HW f). tauto. }
    rewrite Heq. reflexivity.
  Qed.
End ExactBF.

(* ================= DNF model counting is such a structure =============================================== *)
Lemma prob_table_ok : forall sorted, table_ok (prob_table sorted).
Proof.
  intros sorted p Hp. unfold prob_table in Hp. apply in_map_iff in Hp as [s [<- _]]. apply Qclamp01_range.
Qed.

Lemma dnf_exact_bf : forall table, table_ok table ->
    exact_bf dnf_prov (N.of_nat (length table)) table sem (dnf_bounded (N.of_nat (length table))).
Proof.
  intros table Hok. constructor; simpl.
  - intros W _; apply (dnf_sem_zero W).
  - intros W _; apply (dnf_sem_one W).
  - intros; apply dnf_sem_disj.
  - intros; apply dnf_sem_conj.
  - intros; apply dnf_sem_eqb; assumption.
  - intros; apply dnf_sem_lit.
  - apply dnf_bounded_one.
  - intros; apply dnf_bounded_lit; assumption.
  - apply dnf_bounded_disj.
  - apply dnf_bounded_conj.
  - intros k Hk. unfold dnf_recover. rewrite (Qclamp01_compat _ _ (wmc_correct table k Hk)).
    apply Qclamp01_id. apply world_prob_bounds; [exact Hok | intros; apply ind_bounds].
Qed.

Section Dnf.
  Variables (fuel : nat) (rules : list rule) (facts : list fact) (seeds : list (fact * Q))
            (all : list fact) (ts : tstore (K:=dnf)).
  Hypothesis Hsafe : safe rules = true.
  Hypothesis Hnd : NoDup (map fst seeds).
  Hypothesis Hrun : infer dnf_prov fuel rules facts seeds = Some (all, ts).

  Lemma dnf_bf : exact_bf dnf_prov (N.of_nat (length seeds)) (prob_table (sort_seeds seeds)) sem
                          (dnf_bounded (N.of_nat (length seeds))).
  Proof.
    assert (H := dnf_exact_bf (prob_table (sort_seeds seeds)) (prob_table_ok _)).
    unfold prob_table in H at 1 3. rewrite map_length, sort_seeds_length in H. exact H.
  Qed.

  Theorem dnf_worlds : forall W f,
      (In f all /\ sem W (get_tag dnf_prov ts f) = true) <-> Deriv rules (in_world facts (sort_seeds seeds) W) f.
  Proof.
    (* the denotation laws of the DNF structure hold in every world, so no restriction on W is needed *)
    intros W f.
    rewrite (hom_exact dnf_prov solutions rules (solutions_spec rules Hsafe) (safe_nonempty rules Hsafe) N (fun _ => True) sem
                       (fun W _ => dnf_sem_zero W) (fun W _ => dnf_sem_one W) (fun W a b _ => dnf_sem_disj W a b)
                       (fun W a b _ => dnf_sem_conj W a b) (fun W a b _ => dnf_sem_eqb W a b)
                       fuel facts (seed_store dnf_prov (sort_seeds seeds) 0 []) all ts Hrun W I f).
    assert (Hb : forall g, (In g facts /\ sem W (get_tag dnf_prov (seed_store dnf_prov (sort_seeds seeds) 0 []) g) = true)
                           <-> in_world facts (sort_seeds seeds) W g).
    { intros g. unfold in_world, in_worldb. rewrite andb_true_iff, mem_In.
      rewrite (init_den dnf_prov N (fun _ => True) sem (fun W _ => dnf_sem_one W) (fun W a b _ => dnf_sem_eqb W a b) seeds g W I Hnd).
      destruct (seed_find (sort_seeds seeds) g 0) as [[i p]|]; [|tauto]. change (from_prob dnf_prov p i) with (dnf_lit i). rewrite dnf_sem_lit. tauto. }
    split; apply Deriv_ext; intros g Hg; apply Hb; exact Hg.
  Qed.

  Theorem dnf_facts : forall f, In f all <-> Deriv rules (fun g => In g facts) f.
  Proof. exact (bf_facts dnf_prov fuel rules facts seeds all ts Hsafe Hnd Hrun sem _ dnf_bf). Qed.

  Theorem dnf_exact : forall f, In f all ->
      forall d : N -> bool,
        (forall W, In W (worlds 0 (prob_table (sort_seeds seeds))) ->
                   (d W = true <-> Deriv rules (in_world facts (sort_seeds seeds) W) f)) ->
        (fact_prob dnf_prov seeds ts f == world_prob (prob_table (sort_seeds seeds)) (fun W => ind (d W)))%Q.
  Proof. exact (bf_exact dnf_prov fuel rules facts seeds all ts Hsafe Hnd Hrun sem _ dnf_bf). Qed.
End Dnf.

(* ================= Boolean provenance ==================================================================== *)
Section Bool.
  Variables (fuel : nat) (rules : list rule) (facts : list fact) (seeds : list (fact * Q))
            (all : list fact) (ts : tstore (K:=bool)).
  Hypothesis Hsafe : safe rules = true.
  Hypothesis Hnd : NoDup (map fst seeds).
  Hypothesis Hrun : infer bool_prov fuel rules facts seeds = Some (all, ts).

  Let sorted := sort_seeds seeds.
  Let ts0 : tstore (K:=bool) := seed_store bool_prov sorted 0 [].

  (* input facts of positive probability (certain facts included) *)
  Definition positive_input (g : fact) : Prop := In g facts /\ (0 < prob_of sorted g)%Q.

  Lemma clamp_pos : forall p, negb (Qle_bool p 0) = true <-> (0 < Qclamp01 p)%Q.
  Proof.
    intros p. rewrite negb_true_iff. unfold Qclamp01. destruct (Qle_bool p 0) eqn:E0.
    - split; [discriminate | intros H; exfalso; apply (Qlt_irrefl 0); exact H].
    - split; [intros _ | reflexivity]. destruct (Qle_bool 1 p) eqn:E1; [reflexivity|].
      destruct (Qlt_le_dec 0 p) as [H|H]; [exact H|]. apply Qle_bool_iff in H. congruence.
  Qed.

  Lemma bool_base : forall g, (In g facts /\ get_tag bool_prov ts0 g = true) <-> positive_input g.
  Proof.
    intros g. unfold positive_input, prob_of, ts0, sorted.
    rewrite (init_den bool_prov unit (fun _ => True) (fun _ b => b) (fun _ _ => eq_refl)
                      (fun _ a b _ H => proj1 (Bool.eqb_true_iff a b) H) seeds g tt I Hnd).
    destruct (seed_find (sort_seeds seeds) g 0) as [[i p]|]; simpl.
    - rewrite clamp_pos. tauto.
    - split; intros [H _]; split; auto. reflexivity.
  Qed.

  Theorem bool_positive : forall f,
      (In f all /\ get_tag bool_prov ts f = true) <-> Deriv rules positive_input f.
  Proof.
    intros f.
    rewrite (hom_exact bool_prov solutions rules (solutions_spec rules Hsafe) (safe_nonempty rules Hsafe) unit (fun _ => True)
                       (fun _ b => b) (fun _ _ => eq_refl) (fun _ _ => eq_refl) (fun _ _ _ _ => eq_refl) (fun _ _ _ _ => eq_refl)
                       (fun _ a b _ H => proj1 (Bool.eqb_true_iff a b) H) fuel facts ts0 all ts Hrun tt I f).
    split; apply Deriv_ext; intros g Hg; apply bool_base; exact Hg.
  Qed.

  (* a stored fact is an input fact or carries the tag true *)
  Theorem bool_stored : forall f, In f all -> In f facts \/ get_tag bool_prov ts f = true.
  Proof.
    intros f Hf.
    assert (HG := stored_tag_generated bool_prov solutions rules (solutions_spec rules Hsafe) fuel facts ts0 all ts Hrun f Hf).
    remember (get_tag bool_prov ts f) as k eqn:Ek. clear Ek.
    induction HG as [f0 Hf0|ms cs c tg HGI Hm IH Hc Hz|f0 a b _ IHa _ IHb|f0 a _ IH E]; auto.
    - right. change (Bool.eqb (prod_tags bool_prov tg ms) false = false) in Hz.
      destruct (prod_tags bool_prov tg ms); [reflexivity | discriminate Hz].
    - destruct (IHa Hf) as [H|H]; [left; exact H | right; simpl; rewrite H; reflexivity].
  Qed.

  Theorem bool_recover : forall f, fact_prob bool_prov seeds ts f = if get_tag bool_prov ts f then 1%Q else 0%Q.
  Proof. reflexivity. Qed.

  Section NoZero.
    Hypothesis Hnz : has_zero_seed seeds = false.

    Lemma all_positive : forall g, In g facts -> positive_input g.
    Proof.
      intros g Hg. split; [exact Hg|]. unfold prob_of.
      destruct (seed_find sorted g 0) as [[i p]|] eqn:Ef; [|reflexivity].
      destruct (seed_find_some _ _ _ _ _ Ef) as [Hin _]. apply (proj1 (sort_seeds_in _ _)) in Hin.
      apply clamp_pos. unfold has_zero_seed in Hnz.
      destruct (Qle_bool p 0) eqn:E; [|reflexivity]. exfalso.
      assert (Hex : existsb (fun s => Qle_bool (snd s) 0) seeds = true) by (apply existsb_exists; exists (g, p); auto).
      congruence.
    Qed.

    (* Boolean mode reports plain derivability *)
    Theorem bool_plain : forall f,
        (In f all <-> Deriv rules (fun g => In g facts) f) /\
        (In f all -> get_tag bool_prov ts f = true /\ (fact_prob bool_prov seeds ts f == 1)%Q).
    Proof.
      intros f.
      assert (Htrue : In f all -> get_tag bool_prov ts f = true).
      { intros Hf. destruct (bool_stored f Hf) as [Hin|H]; [|exact H].
        apply (bool_positive f). apply d_base. apply all_positive; exact Hin. }
      split; [split|].
      - intros Hf. assert (HD : Deriv rules positive_input f) by (apply bool_positive; split; auto).
        revert HD. apply Deriv_ext. intros g [Hg _]; exact Hg.
      - intros HD. apply (bool_positive f). revert HD. apply Deriv_ext. apply all_positive.
      - intros Hf. split; [apply Htrue; exact Hf|]. rewrite bool_recover, (Htrue Hf). reflexivity.
    Qed.
  End NoZero.
End Bool.

(* ================= min-max provenance ===================================================================== *)
Section MinMax.
  Variables (fuel : nat) (rules : list rule) (facts : list fact) (seeds : list (fact * Q))
            (all : list fact) (ts : tstore (K:=Q)).
  Hypothesis Hsafe : safe rules = true.
  Hypothesis Hnd : NoDup (map fst seeds).
  Hypothesis Hrun : infer minmax_prov fuel rules facts seeds = Some (all, ts).

  Let sorted := sort_seeds seeds.
  Let ts0 : tstore (K:=Q) := seed_store minmax_prov sorted 0 [].

  Definition okt (t : Q) : Prop := (0 < t /\ t <= 1)%Q.
  Definition dent (t : Q) (k : Q) : bool := Qle_bool t k.

  Lemma dent_zero : forall t, okt t -> dent t 0%Q = false.
  Proof. intros t [H _]. unfold dent. destruct (Qle_bool t 0) eqn:E; [|reflexivity]. apply Qle_bool_iff in E. lra. Qed.
  Lemma dent_one : forall t, okt t -> dent t 1%Q = true.
  Proof. intros t [_ H]. apply Qle_bool_iff; exact H. Qed.
  Lemma dent_plus : forall t a b, okt t -> dent t (qmax a b) = dent t a || dent t b.
  Proof.
    intros t a b _. unfold dent, qmax. apply Bool.eq_iff_eq_true. rewrite orb_true_iff.
    destruct (Qle_bool a b) eqn:E; rewrite !Qle_bool_iff.
    - apply Qle_bool_iff in E. split; [auto | intros [H|H]; lra].
    - assert (b < a)%Q. { destruct (Qlt_le_dec b a) as [H|H]; [exact H|]. apply Qle_bool_iff in H; congruence. }
      split; [auto | intros [H'|H']; lra].
  Qed.
  Lemma dent_times : forall t a b, okt t -> dent t (qmin a b) = dent t a && dent t b.
  Proof.
    intros t a b _. unfold dent, qmin. apply Bool.eq_iff_eq_true. rewrite andb_true_iff.
    destruct (Qle_bool a b) eqn:E; rewrite !Qle_bool_iff.
    - apply Qle_bool_iff in E. split; [intros; split; lra | tauto].
    - assert (b < a)%Q. { destruct (Qlt_le_dec b a) as [H|H]; [exact H|]. apply Qle_bool_iff in H; congruence. }
      split; [intros; split; lra | tauto].
  Qed.
  Lemma dent_eqb : forall t a b, okt t -> Qeq_bool a b = true -> dent t a = dent t b.
  Proof. intros t a b _ H. apply Qeq_bool_iff in H. unfold dent. apply Qle_bool_compat; [reflexivity | exact H]. Qed.

  (* input facts whose probability is at least t *)
  Definition input_ge (t : Q) (g : fact) : Prop := In g facts /\ (t <= prob_of sorted g)%Q.

  Lemma minmax_base : forall t g, okt t -> (In g facts /\ dent t (get_tag minmax_prov ts0 g) = true) <-> input_ge t g.
  Proof.
    intros t g Ht. unfold input_ge, prob_of, ts0, sorted.
    rewrite (init_den minmax_prov Q okt dent dent_one dent_eqb seeds g t Ht Hnd).
    destruct (seed_find (sort_seeds seeds) g 0) as [[i p]|]; simpl.
    - unfold dent. rewrite Qle_bool_iff. tauto.
    - destruct Ht as [_ Ht]. tauto.
  Qed.

  (* threshold form of "the best derivation's weakest input": for every threshold t in (0,1], a fact is stored with
     a value of at least t exactly when it has a derivation all of whose input facts have probability at least t *)
  Theorem minmax_threshold : forall t, okt t -> forall f,
      (In f all /\ (t <= get_tag minmax_prov ts f)%Q) <-> Deriv rules (input_ge t) f.
  Proof.
    intros t Ht f.
    assert (H := hom_exact minmax_prov solutions rules (solutions_spec rules Hsafe) (safe_nonempty rules Hsafe) Q okt dent
                           dent_zero dent_one dent_plus dent_times dent_eqb fuel facts ts0 all ts Hrun t Ht f).
    unfold dent at 1 in H. rewrite Qle_bool_iff in H. rewrite H.
    split; apply Deriv_ext; intros g Hg; apply (minmax_base t g Ht); exact Hg.
  Qed.

  Lemma minmax_le_one : forall f, In f all -> (get_tag minmax_prov ts f <= 1)%Q.
  Proof.
    intros f Hf.
    apply (Gen_inv minmax_prov rules facts (get_tag minmax_prov ts0) (fun k => (k <= 1)%Q)) with (f := f).
    - intros g _. unfold ts0, sorted. apply init_inv; [simpl; lra|]. intros p i _ _. simpl. apply Qclamp01_range.
    - simpl; lra.
    - intros a b Ha Hb. simpl. unfold qmax. destruct (Qle_bool a b); assumption.
    - intros a b Ha Hb. simpl. unfold qmin. destruct (Qle_bool a b); assumption.
    - apply (stored_tag_generated minmax_prov solutions rules (solutions_spec rules Hsafe) fuel facts ts0 all ts Hrun f Hf).
  Qed.

  (* the reported value is attained by a derivation, and no derivation is stronger *)
  Theorem minmax_best : forall f, In f all -> (0 < get_tag minmax_prov ts f)%Q ->
      Deriv rules (input_ge (get_tag minmax_prov ts f)) f /\
      (forall t, okt t -> Deriv rules (input_ge t) f -> (t <= get_tag minmax_prov ts f)%Q).
  Proof.
    intros f Hf Hpos. split.
    - apply (minmax_threshold _ (conj Hpos (minmax_le_one f Hf)) f). split; [exact Hf | apply Qle_refl].
    - intros t Ht HD. apply (minmax_threshold t Ht f). exact HD.
  Qed.

  Theorem minmax_recover : forall f, fact_prob minmax_prov seeds ts f = get_tag minmax_prov ts f.
  Proof. reflexivity. Qed.
End MinMax.
