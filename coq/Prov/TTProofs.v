(* Truth tables over the n seed variables (bit W of the table = value in world W) form an exact Boolean-function
   structure: a second witness, besides DNF model counting, that the hypotheses of C06_exact_sdd are satisfiable, and
   the justification for using [tt_prov] as the executable stand-in for the SDD mode in the correspondence check. *)
Require Import Permutation Lqa.
Require Import KV.Prov.Model KV.Prov.Instances KV.Prov.Spec KV.Prov.Annot KV.Prov.BasicFacts KV.Prov.SpecFacts KV.Prov.InstProofs.
Open Scope N_scope.

(* ---- the worlds are the numbers below 2^n ------------------------------------------------------------------ *)
Lemma lt_pow2_bits : forall W m, W < 2 ^ m <-> forall j, m <= j -> N.testbit W j = false.
Proof.
  intros W m; split.
  - intros H j Hj. destruct (N.eq_0_gt_0_cases W) as [->|Hpos]; [apply N.bits_0|].
    apply N.bits_above_log2. apply N.lt_le_trans with m; [apply N.log2_lt_pow2; assumption | exact Hj].
  - intros H. destruct (N.lt_ge_cases W (2 ^ m)) as [Hlt|Hge]; [exact Hlt|]. exfalso.
    assert (Hpos : 0 < W) by (eapply N.lt_le_trans; [|exact Hge]; apply N.neq_0_lt_0, N.pow_nonzero; discriminate).
    assert (Hl : m <= N.log2 W) by (apply N.log2_le_pow2; assumption).
    assert (Hne : W <> 0) by (intros ->; apply (N.lt_irrefl 0 Hpos)).
    pose proof (N.bit_log2 W Hne) as Hb. rewrite (H (N.log2 W) Hl) in Hb. discriminate.
Qed.

Lemma worlds_high : forall ps i W, In W (worlds i ps) -> forall j, i + N.of_nat (length ps) <= j -> N.testbit W j = false.
Proof.
  induction ps as [|p ps IH]; intros i W HW j Hj; simpl in HW.
  - destruct HW as [<-|[]]. apply N.bits_0.
  - simpl length in Hj. apply in_app_or in HW as [HW|HW].
    + apply in_map_iff in HW as [W0 [<- HW0]]. rewrite N.setbit_neq by lia. apply (IH (N.succ i) W0 HW0). lia.
    + apply (IH (N.succ i) W HW). lia.
Qed.

Lemma worlds_complete : forall ps i W,
    (forall j, j < i -> N.testbit W j = false) -> (forall j, i + N.of_nat (length ps) <= j -> N.testbit W j = false) ->
    In W (worlds i ps).
Proof.
  induction ps as [|p ps IH]; intros i W Hlo Hhi; simpl.
  - left. symmetry. apply N.bits_inj_0. intros j. destruct (N.lt_ge_cases j i) as [H|H]; [apply Hlo; exact H | apply Hhi; simpl; lia].
  - simpl length in Hhi. apply in_or_app. destruct (N.testbit W i) eqn:Eb.
    + left. apply in_map_iff. exists (N.clearbit W i). split.
      * apply N.bits_inj. intros j. rewrite N.setbit_eqb, N.clearbit_eqb.
        destruct (N.eqb_spec i j) as [<-|Hne]; simpl; [symmetry; exact Eb | rewrite andb_true_r; reflexivity].
      * apply IH.
        -- intros j Hj. rewrite N.clearbit_eqb. destruct (N.eqb_spec i j) as [<-|Hne]; simpl; [apply andb_false_r|].
           rewrite andb_true_r. apply Hlo. lia.
        -- intros j Hj. rewrite N.clearbit_eqb. rewrite Hhi by lia. reflexivity.
    + right. apply IH.
      * intros j Hj. destruct (N.eq_dec j i) as [->|Hne]; [exact Eb | apply Hlo; lia].
      * intros j Hj. apply Hhi. lia.
Qed.

Lemma worlds_iff_lt : forall table W, In W (worlds 0 table) <-> W < 2 ^ N.of_nat (length table).
Proof.
  intros table W. rewrite lt_pow2_bits. split.
  - intros H j Hj. apply (worlds_high table 0 W H j). lia.
  - intros H. apply worlds_complete; [intros j Hj; lia | intros j Hj; apply H; lia].
Qed.

Lemma NoDup_app' : forall {A} (l m : list A), NoDup l -> NoDup m -> (forall x, In x l -> ~ In x m) -> NoDup (l ++ m).
Proof.
  induction l as [|a l IH]; intros m Hl Hm Hd; simpl; [exact Hm|].
  inversion Hl as [|a' l' Hn Hl']; subst. constructor.
  - intros Hin. apply in_app_or in Hin as [Hin|Hin]; [contradiction | apply (Hd a (or_introl eq_refl) Hin)].
  - apply IH; [exact Hl' | exact Hm | intros x Hx; apply Hd; right; exact Hx].
Qed.

Lemma NoDup_map_inj : forall {A B} (f : A -> B) (l : list A),
    (forall x y, In x l -> In y l -> f x = f y -> x = y) -> NoDup l -> NoDup (map f l).
Proof.
  induction l as [|a l IH]; intros Hinj Hl; simpl; [constructor|].
  inversion Hl as [|a' l' Hn Hl']; subst. constructor.
  - intros Hin. apply in_map_iff in Hin as [x [Hx Hxl]]. apply Hn.
    rewrite <- (Hinj x a (or_intror Hxl) (or_introl eq_refl) Hx). exact Hxl.
  - apply IH; [intros x y Hx Hy; apply Hinj; right; assumption | exact Hl'].
Qed.

Lemma worlds_nodup : forall ps i, NoDup (worlds i ps).
Proof.
  induction ps as [|p ps IH]; intros i; simpl; [constructor; [intros [] | constructor]|].
  assert (Hclr : forall W, In W (worlds (N.succ i) ps) -> N.testbit W i = false)
    by (intros W HW; apply (worlds_low ps (N.succ i) W HW); lia).
  apply NoDup_app'.
  - apply NoDup_map_inj; [|apply IH]. intros x y Hx Hy E.
    rewrite <- (clearbit_clear x i (Hclr x Hx)), <- (clearbit_clear y i (Hclr y Hy)).
    apply N.bits_inj. intros j. rewrite !N.clearbit_eqb.
    destruct (N.eqb_spec i j) as [<-|Hne]; simpl; [rewrite !andb_false_r; reflexivity|].
    rewrite !andb_true_r. rewrite <- (N.setbit_neq x i j Hne), <- (N.setbit_neq y i j Hne), E. reflexivity.
  - apply IH.
  - intros W HW Hin. apply in_map_iff in HW as [W0 [<- _]]. apply Hclr in Hin. rewrite N.setbit_eq in Hin. discriminate.
Qed.

(* ---- sums over 0 .. m-1 ------------------------------------------------------------------------------------------- *)
Definition rangeN (m : N) : list N := N.recursion [] (fun W l => l ++ [W]) m.

Lemma rangeN_succ : forall m, rangeN (N.succ m) = rangeN m ++ [m].
Proof. intros m. unfold rangeN. rewrite N.recursion_succ; [reflexivity | reflexivity | intros a b -> l l' ->; reflexivity]. Qed.

Lemma In_rangeN : forall m W, In W (rangeN m) <-> W < m.
Proof.
  induction m as [|m IH] using N.peano_ind; intros W.
  - unfold rangeN. rewrite N.recursion_0. split; [intros [] | intros H; destruct (N.nlt_0_r _ H)].
  - rewrite rangeN_succ, in_app_iff, IH. simpl. split; [intros [H|[<-|[]]]; lia | intros H; destruct (N.eq_dec W m); [right; left; auto | left; lia]].
Qed.

Lemma rangeN_nodup : forall m, NoDup (rangeN m).
Proof.
  induction m as [|m IH] using N.peano_ind.
  - unfold rangeN. rewrite N.recursion_0. constructor.
  - rewrite rangeN_succ. apply NoDup_app'; [exact IH | constructor; [intros [] | constructor]|].
    intros x Hx [<-|[]]. apply In_rangeN in Hx. lia.
Qed.

Open Scope Q_scope.

Lemma sumQ_perm : forall l m, Permutation l m -> sumQ l == sumQ m.
Proof.
  intros l m H; induction H as [|x l m _ IH|x y l|l m k _ IH1 _ IH2].
  - reflexivity.
  - rewrite !sumQ_cons. rewrite IH. reflexivity.
  - rewrite !sumQ_cons. ring.
  - eapply Qeq_trans; eauto.
Qed.

Lemma tt_wmc_sum : forall table t,
    tt_wmc table t == sumQ (map (fun W => weight 0 table W * ind (N.testbit t W)) (rangeN (N.shiftl 1 (N.of_nat (length table))))).
Proof.
  intros table t. unfold tt_wmc. generalize (N.shiftl 1 (N.of_nat (length table))) as m.
  induction m as [|m IH] using N.peano_ind.
  - unfold rangeN. rewrite !N.recursion_0. reflexivity.
  - rewrite rangeN_succ, map_app, sumQ_app. simpl map. rewrite sumQ_cons. change (sumQ []) with 0.
    rewrite (N.recursion_succ (@eq Q)); [| reflexivity | intros a b -> x y ->; reflexivity].
    rewrite <- IH. destruct (N.testbit t m); simpl ind; [rewrite Qred_correct|]; ring.
Qed.

Theorem tt_wmc_correct : forall table t,
    tt_wmc table t == world_prob table (fun W => ind (N.testbit t W)).
Proof.
  intros table t. rewrite tt_wmc_sum. unfold world_prob. apply sumQ_perm. apply Permutation_map.
  apply NoDup_Permutation; [apply rangeN_nodup | apply worlds_nodup|].
  intros W. rewrite In_rangeN, worlds_iff_lt, N.shiftl_1_l. reflexivity.
Qed.

(* ---- the literal tables ------------------------------------------------------------------------------------------- *)
Open Scope N_scope.

Lemma rec_set_bits : forall (p : N -> bool) m j,
    N.testbit (N.recursion 0 (fun W acc => if p W then N.setbit acc W else acc) m) j = (j <? m) && p j.
Proof.
  intros p m j; induction m as [|m IH] using N.peano_ind.
  - rewrite N.recursion_0, N.bits_0. destruct (N.ltb_spec j 0); [lia | reflexivity].
  - rewrite N.recursion_succ; [| reflexivity | intros a b -> x y ->; reflexivity].
    destruct (p m) eqn:Epm.
    + rewrite N.setbit_eqb, IH. destruct (N.eqb_spec m j) as [<-|Hne]; simpl.
      * rewrite Epm. destruct (N.ltb_spec m (N.succ m)); [reflexivity | lia].
      * destruct (N.ltb_spec j m), (N.ltb_spec j (N.succ m)); try reflexivity; lia.
    + rewrite IH. destruct (N.ltb_spec j m), (N.ltb_spec j (N.succ m)); try reflexivity; try lia.
      assert (j = m) by lia. subst. rewrite Epm. reflexivity.
Qed.

Lemma tt_lit_bits : forall n v W, W < 2 ^ n -> N.testbit (tt_lit_aux n v) W = N.testbit W v.
Proof.
  intros n v W HW. unfold tt_lit_aux. rewrite rec_set_bits, N.shiftl_1_l.
  destruct (N.ltb_spec W (2 ^ n)); [reflexivity | lia].
Qed.

Theorem tt_exact_bf : forall table, table_ok table ->
    exact_bf (tt_prov (N.of_nat (length table))) (N.of_nat (length table)) table (fun W t => N.testbit t W) (fun _ => True).
Proof.
  intros table Hok. set (n := N.of_nat (length table)).
  constructor; simpl.
  - intros W _. apply (N.bits_0 W).
  - intros W HW. apply worlds_iff_lt in HW. unfold tt_full. rewrite N.shiftl_1_l. apply N.ones_spec_low. exact HW.
  - intros W a b _. apply N.lor_spec.
  - intros W a b _. apply N.land_spec.
  - intros W a b _ E. apply N.eqb_eq in E. subst; reflexivity.
  - intros W p i HW _. apply tt_lit_bits. apply worlds_iff_lt; exact HW.
  - exact I.
  - intros; exact I.
  - intros; exact I.
  - intros; exact I.
  - intros k _. rewrite (Qclamp01_compat _ _ (tt_wmc_correct table k)).
    apply Qclamp01_id. apply world_prob_bounds; [exact Hok | intros; apply ind_bounds].
Qed.
