(* The interface the provenance materialisation is generic in (shared/src/provenance.rs, trait Provenance):
   a tag type with zero, one, disjunction (plus), conjunction (times) and the equality test used by
   TagStore::update_disjunction (is_saturated) and by the `== zero` / `== one` tests.
   [from_prob p id] is tag_from_probability_with_id, [recover table tag] is recover_probability
   (the table is the probability table the DNF / SDD provenances fill while seeding). *)
Require Export QArith.
Require Export KV.Prov.Syntax.

Record semiring (K : Type) := Semiring {
  zero : K;
  one : K;
  plus : K -> K -> K;
  times : K -> K -> K;
  eqb : K -> K -> bool
}.
Arguments zero {K}. Arguments one {K}. Arguments plus {K}. Arguments times {K}. Arguments eqb {K}.

Record provenance (K : Type) := Provenance {
  sr :> semiring K;
  from_prob : Q -> N -> K;
  recover : list Q -> K -> Q
}.
Arguments sr {K}. Arguments from_prob {K}. Arguments recover {K}.

(* f64::clamp(0.0, 1.0) on exact rationals *)
Definition Qclamp01 (p : Q) : Q := if Qle_bool p 0 then 0 else if Qle_bool 1 p then 1 else p.
