(* Entry points for the correspondence check on programs that also contain rules with negation, and the
   executable Spec for them (one application of the rules with negation over the positive closure, per world). *)
Require Import KV.Prov.Model KV.Prov.Instances KV.Prov.Spec KV.Prov.Run KV.Prov.Negation.

Section Render.
  Context {K : Type} (P : provenance K) (neg : K -> K) (rtag : K -> list (N * N)).
  Definition run_mode_neg (fuel : nat) (rules : list rule) (nrules : list nrule) (facts : list fact) (seeds : list (fact * Q)) :=
    match infer_neg P neg fuel rules nrules facts seeds with
    | None => None
    | Some (all, ts) =>
        Some (all, map fst ts,
              map (fun f => (f, rq (fact_prob P seeds ts f), rtag (get_tag P ts f))) all)
    end.
End Render.

Definition run_bool_neg := run_mode_neg bool_prov negb (fun b => [(if b then 1 else 0, 0)]).
Definition run_minmax_neg := run_mode_neg minmax_prov (fun a => (1 - a)%Q) (fun _ => []).
Definition run_dnf_neg := run_mode_neg dnf_prov dnf_negate (fun t => t).
Definition run_tt_neg fuel rules nrules facts (seeds : list (fact * Q)) :=
  let n := N.of_nat (length seeds) in
  (* the table itself is not rendered: reading back and printing 2^n-bit numbers dominates the run time for n >= 10 *)
  run_mode_neg (tt_prov n) (fun t => N.ldiff (tt_full n) t) (fun _ => []) fuel rules nrules facts seeds.

(* Spec: the facts of one world *)
Definition neg_step (closure : list fact) (nrules : list nrule) : list fact :=
  fold_left (fun acc r =>
               fold_left (fun acc' b =>
                            if forallb (fun a => negb (mem (subst_atom b a) closure)) (nneg r)
                            then add_new acc' (map (subst_atom b) (concl (nbase r))) else acc')
                         (all_bindings (prem (nbase r)) closure) acc)
            nrules [].

Definition world_facts_neg (fuel : nat) (rules : list rule) (nrules : list nrule) (facts : list fact) : list fact :=
  match naive_close fuel rules facts with
  | Some cl => cl ++ filter (fun c => negb (mem c cl)) (neg_step cl nrules)
  | None => []
  end.

Definition spec_prob_neg fuel rules nrules facts (seeds : list (fact * Q)) (f : fact) : Q :=
  let sorted := sort_seeds seeds in
  world_prob (prob_table sorted)
             (fun W => ind (mem f (world_facts_neg fuel rules nrules (filter (in_worldb facts sorted W) facts)))).

Definition spec_probs_neg fuel rules nrules facts seeds (fs : list fact) :=
  map (fun f => (f, rq (spec_prob_neg fuel rules nrules facts seeds f))) fs.
