(* Termination of the driver (the "idempotent + finite height" argument), generic part.

   Setting: a finite universe U of facts closed under the ground rule instances; a height function h on tags that
   never decreases under plus, is respected by the equality test, strictly increases whenever update_disjunction
   reports a change (on tags satisfying an invariant that all generated tags satisfy), and is bounded by hmax.
   Then every round that does not end the loop strictly increases
        mu = (number of stored facts) + (sum of the heights of the stored tags)  <=  |U| * (hmax + 1),
   so the driver returns with fuel |U| * (hmax + 1) + 1. *)
Require Import KV.Prov.Model KV.Prov.Spec KV.Prov.Annot KV.Prov.BasicFacts KV.Prov.ProvProofs.

Lemma NoDup_snoc : forall {A} (l : list A) c, NoDup l -> ~ In c l -> NoDup (l ++ [c]).
Proof.
  induction l as [|a l IH]; intros c Hl Hc; simpl; [constructor; [intros [] | constructor]|].
  inversion Hl as [|a' l' Hn Hl']; subst. constructor.
  - intros Hin. apply in_app_or in Hin as [Hin|[<-|[]]]; [contradiction | apply Hc; left; reflexivity].
  - apply IH; [exact Hl' | intros H; apply Hc; right; exact H].
Qed.

Definition sumf {A} (g : A -> nat) (l : list A) : nat := fold_right (fun x acc => (g x + acc)%nat) 0%nat l.

Lemma sumf_app : forall {A} (g : A -> nat) l m, sumf g (l ++ m) = (sumf g l + sumf g m)%nat.
Proof. induction l as [|x l IH]; intros m; simpl; [reflexivity | rewrite IH; lia]. Qed.

Lemma sumf_le : forall {A} (g g' : A -> nat) l, (forall x, In x l -> (g x <= g' x)%nat) -> (sumf g l <= sumf g' l)%nat.
Proof.
  induction l as [|x l IH]; intros H; simpl; [lia|].
  assert (H1 := H x (or_introl eq_refl)). assert (H2 := IH (fun y Hy => H y (or_intror Hy))). lia.
Qed.

Lemma sumf_lt : forall {A} (g g' : A -> nat) l, (forall x, In x l -> (g x <= g' x)%nat) ->
    (exists x, In x l /\ (g x < g' x)%nat) -> (sumf g l < sumf g' l)%nat.
Proof.
  induction l as [|x l IH]; intros H [y [Hy Hlt]]; [destruct Hy|]. simpl.
  assert (H1 := H x (or_introl eq_refl)).
  assert (H2 := sumf_le g g' l (fun z Hz => H z (or_intror Hz))).
  destruct Hy as [->|Hy]; [lia|].
  assert (H3 := IH (fun z Hz => H z (or_intror Hz)) (ex_intro _ y (conj Hy Hlt))). lia.
Qed.

Lemma sumf_bound : forall {A} (g : A -> nat) l b, (forall x, In x l -> (g x <= b)%nat) -> (sumf g l <= length l * b)%nat.
Proof.
  induction l as [|x l IH]; intros b H; simpl; [lia|].
  assert (H1 := H x (or_introl eq_refl)). assert (H2 := IH b (fun y Hy => H y (or_intror Hy))). lia.
Qed.

Section Term.
  Context {K : Type} (SR : semiring K) (sols : matcher) (rules : list rule).
  Hypothesis Hspec : sols_spec sols rules.
  Variables (all0 : list fact) (tag0 : fact -> K).
  Variable U : list fact.
  Hypothesis Uclosed : forall ms cs, GI rules ms cs -> incl ms U -> incl cs U.
  Variables (h : K -> nat) (hmax : nat) (inv : K -> Prop).
  Hypothesis h_plus_l : forall a b, (h a <= h (plus SR a b))%nat.
  Hypothesis h_plus_r : forall a b, (h b <= h (plus SR a b))%nat.
  Hypothesis h_eqb : forall a b, eqb SR a b = true -> h a = h b.
  Hypothesis h_strict : forall a b, inv a -> inv b -> eqb SR a (plus SR a b) = false -> (h a < h (plus SR a b))%nat.
  Hypothesis h_max : forall a, inv a -> (h a <= hmax)%nat.
  Hypothesis inv_gen : forall f k, Gen SR rules all0 tag0 f k -> inv k.

  Notation tag := (get_tag SR).
  Notation TSok := (TSok SR rules all0 tag0).
  Notation Gen := (Gen SR rules all0 tag0).

  Definition hle (a b : K) : Prop := (h a <= h b)%nat.
  Lemma hle_refl : forall a, hle a a. Proof. intros; unfold hle; lia. Qed.
  Lemma hle_trans : forall a b c, hle a b -> hle b c -> hle a c. Proof. unfold hle; intros; lia. Qed.
  Lemma hle_eqb : forall a b, eqb SR a b = true -> hle a b /\ hle b a.
  Proof. intros a b E; unfold hle; rewrite (h_eqb a b E); lia. Qed.

  Section Round.
    Variables (all : list fact) (ts0 : tstore (K:=K)).
    Hypothesis HallU : incl all U.

    Definition Mono0 (st : rstate) : Prop := forall f, In f all -> (h (tag ts0 f) <= h (tag (rs_ts st) f))%nat.
    Definition StrictP (st : rstate) : Prop :=
      rs_changed st = true -> exists f, In f all /\ (h (tag ts0 f) < h (tag (rs_ts st) f))%nat.

    Record Good (st : rstate) : Prop := {
      g_wf : WF all st;
      g_ok : TSok (rs_ts st) (all ++ rs_new st);
      g_mono : Mono0 st;
      g_nodup : NoDup (all ++ rs_new st);
      g_univ : incl (rs_new st) U;
      g_strict : StrictP st
    }.

    Lemma do_concl_good : forall ctag st c, Good st -> Gen c ctag -> In c U -> Good (do_concl SR all ctag st c).
    Proof.
      intros ctag st c [Gw Gk Gm Gn Gu Gs] Hc HcU.
      destruct (do_concl_ext SR hle hle_refl hle_trans h_plus_l h_plus_r hle_eqb all ctag st c Gw) as [E [W' _]].
      assert (Hk' := do_concl_ok SR rules all0 tag0 all ctag st c Gk Hc).
      assert (Hm' : Mono0 (do_concl SR all ctag st c)).
      { intros f Hf. eapply Nat.le_trans; [apply Gm; exact Hf|]. apply (ext_mono _ _ _ _ _ E). apply in_or_app; left; exact Hf. }
      constructor; try assumption; clear E W' Hk' Hm'.
      - (* NoDup *)
        destruct st as [ts new ch impr]; unfold do_concl; cbn [rs_ts rs_new rs_changed rs_impr] in *.
        destruct (negb (mem c all) && negb (mem c new)) eqn:En.
        + cbn [rs_new]. rewrite app_assoc. apply NoDup_snoc; [exact Gn|].
          apply andb_true_iff in En as [E1 E2]. apply negb_true_iff, mem_false in E1. apply negb_true_iff, mem_false in E2.
          intros Hin. apply in_app_or in Hin as [H|H]; contradiction.
        + destruct (update_disjunction SR ts c ctag) as [ts' chf]. destruct (chf && negb (negb (mem c all))); exact Gn.
      - (* universe *)
        destruct st as [ts new ch impr]; unfold do_concl; cbn [rs_ts rs_new rs_changed rs_impr] in *.
        destruct (negb (mem c all) && negb (mem c new)) eqn:En.
        + cbn [rs_new]. intros x Hx. apply in_app_or in Hx as [Hx|[<-|[]]]; [apply Gu; exact Hx | exact HcU].
        + destruct (update_disjunction SR ts c ctag) as [ts' chf]. destruct (chf && negb (negb (mem c all))); exact Gu.
      - (* strict *)
        destruct st as [ts new ch impr]; unfold do_concl, StrictP in *; cbn [rs_ts rs_new rs_changed rs_impr] in *.
        destruct (negb (mem c all) && negb (mem c new)) eqn:En.
        + cbn [rs_ts rs_changed]. intros Hch. destruct (Gs Hch) as [f [Hf Hlt]]. exists f; split; [exact Hf|].
          apply andb_true_iff in En as [E1 _]. apply negb_true_iff, mem_false in E1.
          rewrite get_tag_set_tag_other; [exact Hlt | intros ->; contradiction].
        + assert (Hin : In c (all ++ new)).
          { apply andb_false_iff in En as [E|E]; apply negb_false_iff, mem_In in E; apply in_or_app; auto. }
          unfold update_disjunction. set (old := tag ts c). set (comb := plus SR old ctag).
          destruct (eqb SR old comb) eqn:Esat.
          * cbn. exact Gs.
          * assert (Hnew : h (tag (set_tag SR ts c comb) c) = h comb).
            { rewrite get_tag_set_tag, fact_eqb_refl. destruct (eqb SR comb (one SR)) eqn:E1; [symmetry; apply h_eqb; exact E1 | reflexivity]. }
            destruct (mem c all) eqn:Em; cbn.
            -- intros _. apply mem_In in Em. exists c; split; [exact Em|]. rewrite Hnew.
               eapply Nat.le_lt_trans; [apply (Gm c Em)|]. cbn [rs_ts]. fold old.
               apply h_strict; [apply (inv_gen c); apply Gk; exact Hin | apply (inv_gen c); exact Hc | exact Esat].
            -- intros Hch. apply mem_false in Em. destruct (Gs Hch) as [f [Hf Hlt]]. exists f; split; [exact Hf|].
               rewrite get_tag_set_tag_other; [exact Hlt | intros ->; contradiction].
    Qed.

    Lemma fold_concl_good : forall ctag cs st, Good st -> (forall c, In c cs -> Gen c ctag /\ In c U) ->
        Good (fold_left (do_concl SR all ctag) cs st).
    Proof.
      intros ctag cs; induction cs as [|c cs IH]; intros st Hg Hc; simpl; [exact Hg|].
      apply IH; [|intros; apply Hc; right; assumption].
      destruct (Hc c (or_introl eq_refl)) as [H1 H2]. apply do_concl_good; assumption.
    Qed.

    Lemma do_sol_good : forall st ms cs, Good st -> GI rules ms cs -> incl ms all -> Good (do_sol SR all st (ms, cs)).
    Proof.
      intros st ms cs Hg HGI Hinc. unfold do_sol; cbn [fst snd].
      destruct (eqb SR (conj_tags SR (rs_ts st) ms) (zero SR)) eqn:Ez; [exact Hg|].
      apply fold_concl_good; [exact Hg|]. intros c Hc. split.
      - rewrite conj_tags_prod. eapply gen_rule; eauto.
        intros m Hm. apply (g_ok _ Hg). apply in_or_app; left; apply Hinc; exact Hm.
      - apply (Uclosed ms cs HGI); [|exact Hc]. intros m Hm. apply HallU, Hinc; exact Hm.
    Qed.

    Lemma fold_sol_good : forall L st, Good st -> (forall s, In s L -> GI rules (fst s) (snd s) /\ incl (fst s) all) ->
        Good (fold_left (do_sol SR all) L st).
    Proof.
      induction L as [|[ms cs] L IH]; intros st Hg HL; simpl; [exact Hg|].
      apply IH; [|intros; apply HL; right; assumption].
      destruct (HL (ms, cs) (or_introl eq_refl)) as [H1 H2]. apply do_sol_good; assumption.
    Qed.

    Lemma fold_rule_good : forall delta rs st, incl rs rules -> incl delta all -> Good st ->
        Good (fold_left (do_rule SR sols all delta) rs st).
    Proof.
      intros delta rs; induction rs as [|r rs IH]; intros st Hrs Hd Hg; simpl; [exact Hg|].
      apply IH; [intros x Hx; apply Hrs; right; exact Hx | exact Hd|].
      unfold do_rule. apply fold_sol_good; [exact Hg|].
      intros s Hs. apply (sols_in_GI sols rules Hspec r all delta s); [apply Hrs; left; reflexivity | exact Hd | exact Hs].
    Qed.
  End Round.

  Lemma round_good : forall all delta ts, incl all U -> incl delta all -> TSok ts all -> NoDup all ->
      Good all ts (round SR sols rules all delta ts).
  Proof.
    intros all delta ts HU Hd Hok Hnd. unfold round. apply fold_rule_good; [exact HU | apply incl_refl | exact Hd|].
    constructor; cbn.
    - split; [intros x [] | reflexivity].
    - rewrite app_nil_r; exact Hok.
    - intros f _; apply Nat.le_refl.
    - rewrite app_nil_r; exact Hnd.
    - intros x [].
    - intros H; discriminate.
  Qed.

  (* ---- the measure ---------------------------------------------------------------------------------- *)
  Definition mu (all : list fact) (ts : tstore) : nat := (length all + sumf (fun f => h (tag ts f)) all)%nat.
  Definition bound : nat := (length U * S hmax)%nat.

  Lemma mu_bound : forall all ts, NoDup all -> incl all U -> TSok ts all -> (mu all ts <= bound)%nat.
  Proof.
    intros all ts Hnd HU Hok. unfold mu, bound.
    assert (H1 : (length all <= length U)%nat) by (apply NoDup_incl_length; assumption).
    assert (H2 : (sumf (fun f => h (tag ts f)) all <= length all * hmax)%nat).
    { apply sumf_bound. intros f Hf. apply h_max. apply (inv_gen f). apply Hok; exact Hf. }
    nia.
  Qed.

  Lemma drive_terminates_inv : forall fuel all st ts,
      incl (eff_delta st all) all -> TSok ts all -> NoDup all -> incl all U ->
      (bound - mu all ts < fuel)%nat ->
      exists res, drive SR sols fuel rules all st ts = Some res.
  Proof.
    induction fuel as [|fuel IH]; intros all st ts Hd Hok Hnd HU Hf; [lia|]. simpl.
    pose proof (round_good all (eff_delta st all) ts HU Hd Hok Hnd) as [Gw Gk Gm Gn Gu Gs].
    set (r := round SR sols rules all (eff_delta st all) ts) in *.
    assert (Hmu0 : (mu all ts <= bound)%nat) by (apply mu_bound; assumption).
    assert (Hnext : (mu all ts < mu (all ++ rs_new r) (rs_ts r))%nat ->
                    exists res, drive SR sols fuel rules (all ++ rs_new r) (Strat false (length all) (rs_impr r)) (rs_ts r) = Some res).
    { intros Hlt.
      assert (HU' : incl (all ++ rs_new r) U) by (apply incl_app; assumption).
      assert (Hmu1 := mu_bound (all ++ rs_new r) (rs_ts r) Gn HU' Gk).
      apply IH; try assumption; [|lia].
      unfold eff_delta; cbn. rewrite skipn_app_length.
      apply incl_app; [apply incl_appr, incl_refl | apply incl_appl; apply (proj1 Gw)]. }
    assert (Hsum : (sumf (fun f => h (tag ts f)) all <= sumf (fun f => h (tag (rs_ts r) f)) all)%nat)
      by (apply sumf_le; intros f Hf'; apply Gm; exact Hf').
    destruct (rs_new r) as [|n new] eqn:En.
    - destruct (rs_changed r) eqn:Ec; [|eexists; reflexivity].
      apply Hnext. unfold mu. rewrite app_nil_r.
      assert (Hs : (sumf (fun f => h (tag ts f)) all < sumf (fun f => h (tag (rs_ts r) f)) all)%nat).
      { apply sumf_lt; [intros f Hf'; apply Gm; exact Hf' | apply Gs; exact Ec]. }
      lia.
    - apply Hnext. unfold mu. rewrite app_length, sumf_app. simpl length. lia.
  Qed.

  Theorem drive_terminates : forall ts0,
      (forall f, In f all0 -> tag ts0 f = tag0 f) -> NoDup all0 -> incl all0 U ->
      exists res, drive SR sols (S bound) rules all0 init_strat ts0 = Some res.
  Proof.
    intros ts0 H0 Hnd HU. apply drive_terminates_inv; [apply incl_refl | | exact Hnd | exact HU | lia].
    intros f Hf. rewrite (H0 f Hf). apply gen_in; exact Hf.
  Qed.
End Term.
