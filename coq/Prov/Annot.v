(* Specification-level notions for the generic (semiring) theorem.

   GI1 r ms cs        (ms, cs) is a ground instance of rule r
   sols_spec          what the theorems assume about the join ([sols r all delta] returns exactly the ground
                      instances of r whose premises are all among [all] and one of which is in [delta]);
                      proved for the model's nested-loop matcher in MatcherProofs.v
   Gen f k            k is a value the annotated consequence operator can produce for f: the initial tag of an
                      input fact, the product (in the code's fold order) of values generated for the premises
                      of a ground instance concluding f (provided the product is not zero: the round skips
                      zero products), a sum of two such values, or [one] for a value equal to one (TagStore
                      stores `one` implicitly)
   prefix T           T is a pre-fixpoint of the annotated consequence operator, for an order [le] *)
Require Export KV.Prov.Model KV.Prov.Spec.

Definition GI1 (r : rule) (ms cs : list fact) : Prop :=
  exists s, ms = map (sub_atom s) (prem r) /\ cs = map (sub_atom s) (concl r).

Lemma GI_GI1 : forall rules ms cs, GI rules ms cs <-> exists r, In r rules /\ GI1 r ms cs.
Proof.
  unfold GI, GI1; intros; split.
  - intros [r [s [H1 [H2 H3]]]]; exists r; split; [exact H1 | exists s; auto].
  - intros [r [H1 [s [H2 H3]]]]; exists r, s; auto.
Qed.

Definition matcher := rule -> list fact -> list fact -> list sol.
Definition sols_sound (sols : matcher) (r : rule) : Prop :=
  forall all delta ms cs, incl delta all -> In (ms, cs) (sols r all delta) -> GI1 r ms cs /\ incl ms all.
Definition sols_complete (sols : matcher) (r : rule) : Prop :=
  forall all delta ms cs, GI1 r ms cs -> incl ms all -> (exists m, In m ms /\ In m delta) ->
                          In (ms, cs) (sols r all delta).
Definition sols_spec (sols : matcher) (rules : list rule) : Prop :=
  forall r, In r rules -> sols_sound sols r /\ sols_complete sols r.

Section Gen.
  Context {K : Type} (SR : semiring K) (rules : list rule) (all0 : list fact) (tag0 : fact -> K).

  Definition prod_tags (tg : fact -> K) (ms : list fact) : K :=
    fold_left (fun acc m => times SR acc (tg m)) ms (one SR).

  Inductive Gen : fact -> K -> Prop :=
  | gen_in : forall f, In f all0 -> Gen f (tag0 f)
  | gen_rule : forall ms cs c (tg : fact -> K),
      GI rules ms cs -> (forall m, In m ms -> Gen m (tg m)) -> In c cs ->
      eqb SR (prod_tags tg ms) (zero SR) = false ->
      Gen c (prod_tags tg ms)
  | gen_plus : forall f a b, Gen f a -> Gen f b -> Gen f (plus SR a b)
  | gen_one : forall f a, Gen f a -> eqb SR a (one SR) = true -> Gen f (one SR).

  (* pre-fixpoints of the annotated consequence operator w.r.t. an order *)
  Definition prefix (le : K -> K -> Prop) (T : fact -> K) : Prop :=
    (forall f, In f all0 -> le (tag0 f) (T f)) /\
    (forall ms cs c, GI rules ms cs -> In c cs -> le (prod_tags T ms) (T c)).
End Gen.

Lemma conj_tags_prod : forall {K} (SR : semiring K) ts ms, conj_tags SR ts ms = prod_tags SR (get_tag SR ts) ms.
Proof. reflexivity. Qed.
