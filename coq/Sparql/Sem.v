(* Denotation of logical plans (independent of the physical choices), the variables a plan may / must bind,
   and the side condition under which feeding rows into a plan equals joining with its denotation. *)
Require Import KV.Sparql.Base KV.Sparql.Syntax KV.Sparql.Algebra KV.Sparql.Engine KV.Sparql.PlanEquiv.

(* sem st ev active l : what l yields from the unit row under the given context *)
Fixpoint sem (st : dataset) (ev : eview) (active : option term) (l : lop) {struct l} : list mu :=
  match l with
  | LUnit => [[]]
  | LScan q => scan_row st ev active q []
  | LUnion bs => (fix go (bs : list lop) : list mu := match bs with [] => [] | b :: r => sem st ev active b ++ go r end) bs
  | LGraph i g =>
      match g with
      | GDefault => sem st ev None i
      | GNamed n => if is_named_visible ev n && graph_exists st n then sem st ev (Some n) i else []
      | GVar x => flat_map (fun n => join [[(x, n)]] (sem st ev (Some n) i)) (visible_graphs st ev)
      end
  | LSelection i c => filter (cond_eval c) (sem st ev active i)
  | LJoin a b => join (sem st ev active a) (sem st ev active b)
  | LSubquery i s => finalize_subquery s (sem st ev active i)
  | LBind i args v => flat_map (ebind args v) (sem st ev active i)
  | LValues vs rows => map (values_row vs) rows
  end.

Definition tm_vars (t : tm) : list var := match t with TV x => [x] | TC _ => [] end.
Definition tp_vars (p : tp) : list var := let '(s, pr, o) := p in tm_vars s ++ tm_vars pr ++ tm_vars o.
Definition qpat_vars (q : qpat) : list var :=
  tp_vars (fst q) ++ match snd q with GVar x => [x] | _ => [] end.
Fixpoint expr_vars (e : expr) : list var :=
  match e with
  | ECmp _ l r => l :: tm_vars r
  | EAnd a b | EOr a b => expr_vars a ++ expr_vars b
  | ENot a => expr_vars a
  end.
Definition barg_vars (args : list barg) : list var :=
  flat_map (fun a => match a with BV x => [x] | BC _ => [] end) args.

Definition inter (a b : list var) : list var := filter (fun x => mem_var x b) a.

(* a sub-select whose modifiers are insensitive to the order of its input: a projection (explicit or SELECT star),
   no aggregation, no cut *)
Definition simple_sub (s : subspec) : bool :=
  match aggs_of (ss_proj s), ss_group s, ss_limit s with
  | [], [], None => true
  | _, _, _ => false
  end.

(* a sub-select that aggregates in the legal SPARQL shape and does not cut: an explicit projection of group keys and
   aggregate aliases, the aliases pairwise different and no group key.  Its result, as a multiset, does not depend on the
   order of its input either (AggProofs.v). *)
Definition alias_of (a : aggk * var * var) : var := snd a.
Fixpoint nodup_v (l : list var) : bool := match l with [] => true | x :: r => negb (mem_var x r) && nodup_v r end.
Definition agg_shape (pr : option (list pitem)) (gb : list var) : bool :=
  match pr with
  | None => false
  | Some items =>
      let als := map alias_of (aggs_of pr) in
      nodup_v als && forallb (fun al => negb (mem_var al gb)) als
      && forallb (fun i => match i with PVar x => mem_var x gb | PAgg _ _ _ => true end) items
  end.
Definition pcols (pr : option (list pitem)) : list var :=
  match pr with Some items => map (fun i => match i with PVar x => x | PAgg _ _ al => al end) items | None => [] end.
Definition agg_sub (s : subspec) : bool :=
  agg_shape (ss_proj s) (ss_group s) && match ss_limit s with None => true | Some _ => false end.
Definition order_free (s : subspec) : bool := simple_sub s || agg_sub s.

(* variables some solution may bind *)
Fixpoint poss (l : lop) : list var :=
  match l with
  | LUnit => []
  | LScan q => qpat_vars q
  | LUnion bs => (fix go (bs : list lop) : list var := match bs with [] => [] | b :: r => poss b ++ go r end) bs
  | LGraph i g => match g with GVar x => x :: poss i | _ => poss i end
  | LSelection i _ => poss i
  | LJoin a b => poss a ++ poss b
  | LSubquery i s => match proj_vars (ss_proj s) with Some vs => if simple_sub s then inter (poss i) vs else vs | None => poss i end
  | LBind i _ v => v :: poss i
  | LValues vs _ => vs
  end.

(* variables every solution binds *)
Fixpoint cert (l : lop) : list var :=
  match l with
  | LUnit => []
  | LScan q => qpat_vars q
  | LUnion bs =>
      (fix go (bs : list lop) : list var :=
         match bs with
         | [] => []
         | [b] => cert b
         | b :: r => inter (cert b) (go r)
         end) bs
  | LGraph i g => match g with GVar x => x :: cert i | _ => cert i end
  | LSelection i _ => cert i
  | LJoin a b => cert a ++ cert b
  | LSubquery i s => if simple_sub s then match proj_vars (ss_proj s) with Some vs => inter (cert i) vs | None => cert i end else []
  | LBind i args v => if forallb (fun x => mem_var x (cert i)) (barg_vars args) then v :: cert i else cert i
  | LValues vs rows =>
      filter (fun v => forallb (fun row => match lookup (values_row vs row) v with Some _ => true | None => false end) rows) vs
  end.

(* ok_in inb l: rows that bind at most the variables of inb may be fed into (any implementation of) l, and the
   result is their join with sem l.  A FILTER / BIND argument variable must be certainly bound by the filtered
   plan or not bound by any incoming row (class C01-undef-filter-sibling otherwise); a sub-select must be order-insensitive.
   (Since 1fdcd07 a BIND joins with an incoming binding of its target, so the target may be bound by an incoming row.) *)
Fixpoint ok_in (inb : list var) (l : lop) {struct l} : bool :=
  match l with
  | LUnit | LScan _ | LValues _ _ => true
  | LUnion bs => (fix go (bs : list lop) : bool := match bs with [] => true | b :: r => ok_in inb b && go r end) bs
  | LGraph i g => match g with GVar x => ok_in (x :: inb) i | _ => ok_in inb i end
  | LSelection i c =>
      ok_in inb i && forallb (fun x => mem_var x (cert i) || negb (mem_var x inb)) (expr_vars c)
  | LJoin a b => ok_in inb a && ok_in (inb ++ poss a) b
  | LSubquery i s => order_free s && ok_in [] i
  | LBind i args v =>
      ok_in inb i && forallb (fun x => mem_var x (cert i) || negb (mem_var x inb)) (barg_vars args)
  end.
