(* The join of solution multisets: commutative, associative, unit, distributes over union — up to Permutation. *)
Require Import KV.Sparql.Base KV.Sparql.MuProofs.
Require Import Lia Permutation.

Notation "a ≡ₚ b" := (Permutation a b) (at level 70).

Lemma flat_map_perm {A B} (f : A -> list B) : forall l l', Permutation l l' -> Permutation (flat_map f l) (flat_map f l').
Proof.
  induction 1; cbn; auto.
  - apply Permutation_app_head; auto.
  - rewrite !app_assoc. apply Permutation_app_tail. apply Permutation_app_comm.
  - eapply perm_trans; eauto.
Qed.

Lemma flat_map_ext_perm {A B} (f g : A -> list B) : forall l,
  (forall a, In a l -> Permutation (f a) (g a)) -> Permutation (flat_map f l) (flat_map g l).
Proof.
  induction l as [|x r IH]; intros H; cbn; auto.
  apply Permutation_app; [apply H; left; auto | apply IH; intros; apply H; right; auto].
Qed.

Lemma flat_map_ext_in {A B} (f g : A -> list B) : forall l,
  (forall a, In a l -> f a = g a) -> flat_map f l = flat_map g l.
Proof.
  induction l as [|x r IH]; intros H; cbn; auto.
  rewrite H by (left; auto). rewrite IH; auto. intros; apply H; right; auto.
Qed.

Lemma flat_map_app_inner {A B} (f g : A -> list B) : forall l,
  Permutation (flat_map (fun a => f a ++ g a) l) (flat_map f l ++ flat_map g l).
Proof.
  induction l as [|x r IH]; cbn; auto.
  rewrite <- !app_assoc. apply Permutation_app_head.
  eapply perm_trans; [apply Permutation_app_head; exact IH|].
  rewrite !app_assoc. apply Permutation_app_tail. apply Permutation_app_comm.
Qed.

Lemma flat_map_nil_inner {A B} : forall (l : list A), flat_map (fun _ => @nil B) l = [].
Proof. induction l; cbn; auto. Qed.

Lemma flat_map_swap {A B C} (f : A -> B -> list C) : forall la lb,
  Permutation (flat_map (fun a => flat_map (fun b => f a b) lb) la)
              (flat_map (fun b => flat_map (fun a => f a b) la) lb).
Proof.
  induction la as [|x r IH]; intros lb; cbn.
  - rewrite flat_map_nil_inner. auto.
  - eapply perm_trans; [apply Permutation_app_head; apply IH|].
    apply Permutation_sym. apply flat_map_app_inner.
Qed.

Lemma flat_map_flat_map {A B C} (f : B -> list C) (g : A -> list B) : forall l,
  flat_map f (flat_map g l) = flat_map (fun x => flat_map f (g x)) l.
Proof. induction l as [|x r IH]; cbn; auto. rewrite flat_map_app, IH. reflexivity. Qed.

Lemma flat_map_single {A B} (f : A -> list B) x : flat_map f [x] = f x.
Proof. cbn. apply app_nil_r. Qed.

Lemma in_flat_map_iff {A B} (f : A -> list B) l y : In y (flat_map f l) <-> exists x, In x l /\ In y (f x).
Proof. apply in_flat_map. Qed.

(* ---- join ---- *)
Definition mjoin (a : mu) (B : list mu) : list mu := flat_map (fun b => opt_list (merge_rows a b)) B.

Lemma join_unfold : forall A B, join A B = flat_map (fun a => mjoin a B) A.
Proof. reflexivity. Qed.

Lemma join_nil_l : forall B, join [] B = [].
Proof. reflexivity. Qed.
Lemma join_nil_r : forall A, join A [] = [].
Proof. intro A. unfold join. cbn. apply flat_map_nil_inner. Qed.

Lemma join_app_l : forall A A' B, join (A ++ A') B = join A B ++ join A' B.
Proof. intros. unfold join. apply flat_map_app. Qed.

Lemma join_cons_l : forall a A B, join (a :: A) B = mjoin a B ++ join A B.
Proof. reflexivity. Qed.

Lemma join_app_r : forall A B B', join A (B ++ B') ≡ₚ join A B ++ join A B'.
Proof.
  intros. unfold join.
  eapply perm_trans; [|apply flat_map_app_inner].
  apply flat_map_ext_perm. intros a _. rewrite flat_map_app. auto.
Qed.

Lemma join_perm_l : forall A A' B, A ≡ₚ A' -> join A B ≡ₚ join A' B.
Proof. intros. unfold join. apply flat_map_perm; auto. Qed.

Lemma join_perm_r : forall A B B', B ≡ₚ B' -> join A B ≡ₚ join A B'.
Proof.
  intros. unfold join. apply flat_map_ext_perm. intros a _. apply flat_map_perm; auto.
Qed.

Lemma join_perm : forall A A' B B', A ≡ₚ A' -> B ≡ₚ B' -> join A B ≡ₚ join A' B'.
Proof. intros. eapply perm_trans; [apply join_perm_l; eauto | apply join_perm_r; auto]. Qed.

Lemma all_wf_app : forall A B, all_wf (A ++ B) <-> all_wf A /\ all_wf B.
Proof. intros. unfold all_wf. apply Forall_app. Qed.

Lemma all_wf_flat_map {X} (f : X -> list mu) l : (forall x, In x l -> all_wf (f x)) -> all_wf (flat_map f l).
Proof.
  intro H. unfold all_wf. apply Forall_forall. intros y Hy. apply in_flat_map in Hy. destruct Hy as (x & Hx & Hy).
  specialize (H x Hx). unfold all_wf in H. rewrite Forall_forall in H. auto.
Qed.

Lemma all_wf_perm : forall A B, A ≡ₚ B -> all_wf A -> all_wf B.
Proof. intros A B P H. unfold all_wf in *. eapply Permutation_Forall; eauto. Qed.

Lemma mjoin_wf : forall a B, wf a -> all_wf (mjoin a B).
Proof.
  intros a B W. apply all_wf_flat_map. intros b _. unfold all_wf.
  destruct (merge_rows a b) eqn:E; cbn; auto. constructor; auto. eapply merge_rows_wf; eauto.
Qed.

Lemma join_wf : forall A B, all_wf A -> all_wf (join A B).
Proof.
  intros A B H. apply all_wf_flat_map. intros a Ha. apply mjoin_wf.
  unfold all_wf in H. rewrite Forall_forall in H. auto.
Qed.

Lemma join_comm : forall A B, all_wf A -> all_wf B -> join A B ≡ₚ join B A.
Proof.
  intros A B WA WB. unfold join.
  eapply perm_trans; [apply flat_map_swap|].
  apply flat_map_ext_perm. intros b Hb. cbn.
  erewrite flat_map_ext_in; [apply Permutation_refl|].
  intros a Ha. cbn. rewrite merge_rows_comm; auto.
  - unfold all_wf in WA. rewrite Forall_forall in WA; auto.
  - unfold all_wf in WB. rewrite Forall_forall in WB; auto.
Qed.

Lemma join_unit_r : forall A, join A [[]] = A.
Proof.
  induction A as [|a r IH]; cbn; auto.
  rewrite merge_rows_nil_r. cbn. f_equal. exact IH.
Qed.

Lemma join_single_l : forall a B, join [a] B = mjoin a B.
Proof. intros. unfold join. cbn [flat_map]. apply app_nil_r. Qed.

Lemma join_unit_l : forall B, all_wf B -> join [[]] B = B.
Proof.
  intros B W. rewrite join_single_l. unfold mjoin.
  induction B as [|b r IH]; [reflexivity|].
  inversion W; subst. cbn [flat_map]. rewrite merge_rows_nil_l by auto. cbn [opt_list app]. f_equal. apply IH; auto.
Qed.

(* associativity holds as an equality of lists: both sides enumerate (a, b, c) in the same order *)
Lemma mjoin_join : forall a B C, wf a -> all_wf B -> all_wf C ->
  flat_map (fun ab => mjoin ab C) (mjoin a B) = mjoin a (join B C).
Proof.
  intros a B C Wa WB WC. unfold mjoin at 2 3. rewrite flat_map_flat_map.
  unfold join. rewrite flat_map_flat_map.
  apply flat_map_ext_in. intros b Hb. cbn.
  assert (Wb : wf b) by (unfold all_wf in WB; rewrite Forall_forall in WB; auto).
  unfold mjoin. rewrite flat_map_flat_map.
  destruct (merge_rows a b) as [ab|] eqn:Eab; cbn.
  - rewrite app_nil_r. apply flat_map_ext_in. intros c Hc.
    assert (Wc : wf c) by (unfold all_wf in WC; rewrite Forall_forall in WC; auto).
    pose proof (merge_rows_assoc a b c Wa Wb Wc) as H. rewrite Eab in H. rewrite H.
    destruct (merge_rows b c); cbn; [rewrite app_nil_r; auto | auto].
  - symmetry. rewrite <- (flat_map_nil_inner C). apply flat_map_ext_in. intros c Hc.
    assert (Wc : wf c) by (unfold all_wf in WC; rewrite Forall_forall in WC; auto).
    pose proof (merge_rows_assoc a b c Wa Wb Wc) as H. rewrite Eab in H.
    destruct (merge_rows b c); cbn; [rewrite <- H; auto | auto].
Qed.

Lemma join_assoc : forall A B C, all_wf A -> all_wf B -> all_wf C -> join (join A B) C = join A (join B C).
Proof.
  intros A B C WA WB WC. unfold join at 1 2. rewrite flat_map_flat_map.
  unfold join at 2. apply flat_map_ext_in. intros a Ha.
  apply mjoin_join; auto. unfold all_wf in WA; rewrite Forall_forall in WA; auto.
Qed.

(* a multiset of solution mappings as seen through the rows' membership *)
Lemma in_join : forall A B m, In m (join A B) <-> exists a b, In a A /\ In b B /\ merge_rows a b = Some m.
Proof.
  intros. unfold join. rewrite in_flat_map. split.
  - intros (a & Ha & H). apply in_flat_map in H. destruct H as (b & Hb & H).
    destruct (merge_rows a b) eqn:E; cbn in H; [|contradiction]. destruct H as [H|[]]. subst. eauto.
  - intros (a & b & Ha & Hb & E). exists a. split; auto. apply in_flat_map. exists b. split; auto.
    rewrite E. left; auto.
Qed.
