(* Corollaries of the main engine theorem used by C02.v, and the refutation witness of the known plan dependence. *)
Require Import KV.Sparql.Base KV.Sparql.Syntax KV.Sparql.MuProofs KV.Sparql.JoinProofs KV.Sparql.Algebra KV.Sparql.Engine
        KV.Sparql.PlanEquiv KV.Sparql.Sem KV.Sparql.ScanProofs KV.Sparql.BgpProofs KV.Sparql.HashProofs KV.Sparql.SemProofs
        KV.Sparql.ExecLemmas KV.Sparql.IdemProofs KV.Sparql.GroupProofs KV.Sparql.EngineProofs.
Require Import Permutation.

Lemma plan_independent :
  forall st ev, named_nodup ev -> store_sets st ->
  forall l p1 p2, implementsb l p1 = true -> implementsb l p2 = true -> ok_in [] l = true ->
  forall active, exec st ev active p1 [[]] ≡ₚ exec st ev active p2 [[]].
Proof.
  intros st ev ND SS l p1 p2 I1 I2 OK active.
  assert (W : all_wf [[]]) by (constructor; [exact I | constructor]).
  assert (D : dom_in [] [[]]) by (intros a x w [Ha|[]] L; subst; discriminate).
  eapply perm_trans; [eapply (exec_sem st ev ND SS l p1 I1 [] active [[]] OK W D)|].
  apply Permutation_sym. eapply (exec_sem st ev ND SS l p2 I2 [] active [[]] OK W D).
Qed.

Lemma implements_sem :
  forall st ev, named_nodup ev -> store_sets st ->
  forall l p, implementsb l p = true -> ok_in [] l = true ->
  forall active, exec st ev active p [[]] ≡ₚ sem st ev active l.
Proof.
  intros st ev ND SS l p I1 OK active.
  assert (W : all_wf [[]]) by (constructor; [exact I | constructor]).
  assert (D : dom_in [] [[]]) by (intros a x w [Ha|[]] L; subst; discriminate).
  rewrite <- (join_unit_l (sem st ev active l)) by apply sem_wf.
  eapply (exec_sem st ev ND SS l p I1 [] active [[]] OK W D).
Qed.

(* The three join algorithms agree on every pair of sub-plans (bind join = nested loop = hash join). *)
Lemma three_joins_agree :
  forall st ev, named_nodup ev -> store_sets st ->
  forall l1 l2 p1 p2, scan_scope (LJoin l1 l2) = None ->
    implementsb l1 p1 = true -> implementsb l2 p2 = true ->
  forall inb active inc, ok_in inb (LJoin l1 l2) = true -> all_wf inc -> dom_in inb inc ->
    exec st ev active (XBindJoin p1 p2) inc ≡ₚ exec st ev active (XNLJoin p1 p2) inc /\
    exec st ev active (XHashJoin p1 p2) inc ≡ₚ exec st ev active (XNLJoin p1 p2) inc.
Proof.
  intros st ev ND SS l1 l2 p1 p2 ES I1 I2 inb active inc OK W D.
  assert (IB : implementsb (LJoin l1 l2) (XBindJoin p1 p2) = true) by (cbn [implementsb]; rewrite ES, I1, I2; reflexivity).
  assert (IH : implementsb (LJoin l1 l2) (XHashJoin p1 p2) = true) by (cbn [implementsb]; rewrite ES, I1, I2; reflexivity).
  assert (IN : implementsb (LJoin l1 l2) (XNLJoin p1 p2) = true) by (cbn [implementsb]; rewrite ES, I1, I2; reflexivity).
  split.
  - eapply perm_trans; [eapply (exec_sem st ev ND SS _ _ IB inb active inc OK W D)|].
    apply Permutation_sym. eapply (exec_sem st ev ND SS _ _ IN inb active inc OK W D).
  - eapply perm_trans; [eapply (exec_sem st ev ND SS _ _ IH inb active inc OK W D)|].
    apply Permutation_sym. eapply (exec_sem st ev ND SS _ _ IN inb active inc OK W D).
Qed.

(* ---- the known plan dependence, on the model: the witness of C02-undef-filter-plan-dependence ----
   { VALUES ?a {1} } { { VALUES (?a ?b) {(UNDEF 2)} } FILTER(?a = 1) } : the bind join returns one row, the hash and
   nested-loop joins none. *)
Definition wit_l : lop :=
  LJoin (LValues [0%N] [[Some "1"%string]])
        (LSelection (LValues [0%N; 1%N] [[None; Some "2"%string]]) (ECmp OEq 0%N (TC "1"%string))).
Definition wit_p (mk : pop -> pop -> pop) : pop :=
  mk (XValues [0%N] [[Some "1"%string]])
     (XFilter (XValues [0%N; 1%N] [[None; Some "2"%string]]) (ECmp OEq 0%N (TC "1"%string))).
Definition wit_st : dataset := {| d_default := []; d_named := [] |}.
Definition wit_ev : eview := mk_eview wit_st [] [].

Lemma undef_filter_plan_dependence_refuted :
  implementsb wit_l (wit_p XBindJoin) = true /\ implementsb wit_l (wit_p XHashJoin) = true /\
  implementsb wit_l (wit_p XNLJoin) = true /\ ok_in [] wit_l = false /\
  exec wit_st wit_ev None (wit_p XBindJoin) [[]] = [[(0%N, "1"%string); (1%N, "2"%string)]] /\
  exec wit_st wit_ev None (wit_p XHashJoin) [[]] = [] /\
  exec wit_st wit_ev None (wit_p XNLJoin) [[]] = [].
Proof. vm_compute. repeat split; reflexivity. Qed.

Lemma plan_dependence_refuted :
  exists st ev l p1 p2, implementsb l p1 = true /\ implementsb l p2 = true /\ ok_in [] l = false /\
                        ~ (exec st ev None p1 [[]] ≡ₚ exec st ev None p2 [[]]).
Proof.
  exists wit_st, wit_ev, wit_l, (wit_p XBindJoin), (wit_p XHashJoin).
  destruct undef_filter_plan_dependence_refuted as (H1 & H2 & _ & H4 & H5 & H6 & _).
  repeat split; auto. rewrite H5, H6. intro P. apply Permutation_sym in P. apply Permutation_nil in P. discriminate.
Qed.
