(* The three join executors agree: the hash join (keyed / unkeyed build table, "a partially bound left row probes
   everything") and the nested loop produce the same multiset; the nested loop is the algebra's Join. *)
Require Import KV.Sparql.Base KV.Sparql.Syntax KV.Sparql.MuProofs KV.Sparql.JoinProofs KV.Sparql.Algebra KV.Sparql.Engine.
Require Import Lia Permutation.

Lemma nl_join_eq_join : forall L R, nl_join L R = join L R.
Proof.
  intros [|l L] [|r R]; cbn [nl_join]; auto. symmetry. apply join_nil_r.
Qed.

Lemma tkey_eqb_eq : forall a b, tkey_eqb a b = true <-> a = b.
Proof.
  induction a as [|x r IH]; intros [|y r']; cbn; try (split; [discriminate | intro H; inversion H]); [tauto|].
  rewrite andb_true_iff, term_eqb_eq, IH. split; [intros [? ?]; subst; auto | intro H; inversion H; auto].
Qed.

Lemma tkey_eqb_refl : forall k, tkey_eqb k k = true.
Proof. intro k. apply tkey_eqb_eq. reflexivity. Qed.

Lemma table_get_add : forall t k k' row,
  table_get k (table_add k' row t) = if tkey_eqb k k' then table_get k t ++ [row] else table_get k t.
Proof.
  induction t as [|[k0 rows] r IH]; intros k k' row.
  - cbn. destruct (tkey_eqb k k'); reflexivity.
  - cbn [table_add]. destruct (tkey_eqb k' k0) eqn:E0; cbn [table_get].
    + apply tkey_eqb_eq in E0. subst k0. destruct (tkey_eqb k k') eqn:E; reflexivity.
    + destruct (tkey_eqb k k0) eqn:E1.
      * destruct (tkey_eqb k k') eqn:E; auto. apply tkey_eqb_eq in E. apply tkey_eqb_eq in E1. subst.
        rewrite tkey_eqb_refl in E0. discriminate.
      * apply IH.
Qed.

Definition key_is (ks : list var) (k : list term) (r : mu) : bool :=
  match join_key r ks with Some k' => tkey_eqb k k' | None => false end.

Lemma table_get_fold : forall ks R t k,
  table_get k (fold_left (fun t r => match join_key r ks with Some k => table_add k r t | None => t end) R t)
  = table_get k t ++ filter (key_is ks k) R.
Proof.
  intros ks R. induction R as [|r R IH]; intros t k; cbn [fold_left filter].
  - rewrite app_nil_r. reflexivity.
  - rewrite IH. unfold key_is at 2. destruct (join_key r ks) as [k'|] eqn:E.
    + rewrite table_get_add. destruct (tkey_eqb k k'); [rewrite <- app_assoc|]; reflexivity.
    + reflexivity.
Qed.

(* two rows with different fully bound keys are incompatible *)
Lemma join_key_lookup : forall ks r k, join_key r ks = Some k ->
  forall i v, nth_error ks i = Some v -> exists w, lookup r v = Some w /\ nth_error k i = Some w.
Proof.
  induction ks as [|x ks IH]; intros r k H i v Hi; cbn in *.
  - destruct i; discriminate.
  - destruct (lookup r x) eqn:E; [|discriminate]. destruct (join_key r ks) eqn:E'; [|discriminate].
    inversion H; subst. destruct i; cbn in *.
    + inversion Hi; subst. eauto.
    + eapply IH; eauto.
Qed.

Lemma keys_differ : forall ks l r k k', wf l -> join_key l ks = Some k -> join_key r ks = Some k' -> k <> k' ->
  merge_rows l r = None.
Proof.
  intros ks l r k k' Wl Hl Hr D. unfold merge_rows. destruct (compatible l r) eqn:C; auto. exfalso. apply D.
  clear D. revert k k' Hl Hr. induction ks as [|x ks IH]; intros k k' Hl Hr; cbn in *.
  - congruence.
  - destruct (lookup l x) eqn:El; [|discriminate]. destruct (join_key l ks) eqn:El'; [|discriminate].
    destruct (lookup r x) eqn:Er; [|discriminate]. destruct (join_key r ks) eqn:Er'; [|discriminate].
    inversion Hl; inversion Hr; subst. f_equal.
    + eapply (proj1 (compatible_spec l r Wl) C); eauto.
    + apply IH; auto.
Qed.

Definition unkeyed_row (ks : list var) (r : mu) : bool :=
  match join_key r ks with Some _ => false | None => true end.

Lemma hash_candidates : forall ks k l R, wf l -> join_key l ks = Some k ->
  flat_map (fun r => opt_list (merge_rows l r)) (filter (key_is ks k) R ++ filter (unkeyed_row ks) R)
  ≡ₚ flat_map (fun r => opt_list (merge_rows l r)) R.
Proof.
  intros ks k l R Wl Hk. induction R as [|r R IH]; [reflexivity|].
  cbn [filter]. unfold key_is at 1, unkeyed_row at 1.
  destruct (join_key r ks) as [k'|] eqn:Er.
  - destruct (tkey_eqb k k') eqn:E.
    + cbn [app flat_map]. apply Permutation_app_head. exact IH.
    + cbn [flat_map]. rewrite (keys_differ ks l r k k' Wl Hk Er).
      * cbn [opt_list app]. exact IH.
      * intro H. subst. rewrite tkey_eqb_refl in E. discriminate.
  - cbn [flat_map].
    eapply perm_trans; [apply flat_map_perm; apply Permutation_sym; apply Permutation_middle|].
    cbn [flat_map]. apply Permutation_app_head. exact IH.
Qed.

Theorem hash_join_eq_nested : forall L R, all_wf L -> all_wf R -> hash_join L R ≡ₚ nl_join L R.
Proof.
  intros L R WL WR. rewrite nl_join_eq_join. unfold hash_join.
  destruct L as [|l0 L']; [reflexivity|]. destruct R as [|r0 R']; [rewrite join_nil_r; reflexivity|].
  set (L := l0 :: L') in *. set (R := r0 :: R') in *.
  destruct (shared_variables L R) as [|k0 ks'] eqn:Eks.
  - rewrite nl_join_eq_join. reflexivity.
  - set (ks := k0 :: ks') in *.
    unfold join. apply flat_map_ext_perm. intros l Hl.
    assert (Wl : wf l) by (unfold all_wf in WL; rewrite Forall_forall in WL; auto).
    destruct (join_key l ks) as [k|] eqn:Ek; [|reflexivity].
    rewrite (table_get_fold ks R [] k). cbn [table_get app].
    apply (hash_candidates ks k l R Wl Ek).
Qed.
