(* The main theorem about the engine model: executing ANY physical plan the optimizer may emit for a logical plan l,
   from any incoming rows, yields the join of the incoming rows with the denotation of l (input propagation
   and plan independence in one statement). *)
Require Import KV.Sparql.Base KV.Sparql.Syntax KV.Sparql.MuProofs KV.Sparql.JoinProofs KV.Sparql.Algebra KV.Sparql.Engine
        KV.Sparql.PlanEquiv KV.Sparql.Sem KV.Sparql.ScanProofs KV.Sparql.HashProofs KV.Sparql.SemProofs KV.Sparql.ExecLemmas
        KV.Sparql.BridgeProofs KV.Sparql.ModifierProofs KV.Sparql.AggProofs KV.Sparql.IdemProofs KV.Sparql.GroupProofs.
Require Import Lia Permutation.

(* the incoming rows bind at most the variables of inb *)
Definition dom_in (inb : list var) (rows : list mu) : Prop :=
  forall a x w, In a rows -> lookup a x = Some w -> In x inb.

Section Main.
  Variables (st : dataset) (ev : eview).
  Hypothesis ND : named_nodup ev.
  Hypothesis SS : store_sets st.

  Lemma dom_in_join : forall inb l active inc inb0, ok_in inb0 l = true -> dom_in inb inc ->
    forall rows, rows ≡ₚ join inc (sem st ev active l) -> dom_in (inb ++ poss l) rows.
  Proof.
    intros inb l active inc inb0 OK D rows P a x w Ha L.
    assert (Ha' : In a (join inc (sem st ev active l))) by (eapply Permutation_in; eauto).
    apply in_join in Ha'. destruct Ha' as (r & s & Hr & Hs & M).
    rewrite (merge_rows_lookup _ _ _ x M) in L. apply in_or_app.
    destruct (lookup r x) eqn:E; [left; eapply D; eauto | right; eapply sem_poss; eauto].
  Qed.

  Theorem exec_sem : forall l p, implementsb l p = true ->
    forall inb active inc, ok_in inb l = true -> all_wf inc -> dom_in inb inc ->
    exec st ev active p inc ≡ₚ join inc (sem st ev active l).
  Proof.
    induction l using lop_ind'; intros p IMP inb active inc OK W D.
    - (* Unit *)
      destruct p; try discriminate. rewrite exec_XUnit. cbn [sem]. rewrite join_unit_r. auto.
    - (* Scan *)
      cbn [implementsb] in IMP. destruct p; try discriminate; apply qpat_eqb_eq in IMP; subst.
      + rewrite exec_XTableScan. apply scan_seed; auto.
      + rewrite exec_XIndexScan. apply scan_seed; auto.
    - (* Union *)
      destruct p; try discriminate. rewrite exec_XUnion, sem_LUnion. unfold sem_union.
      eapply perm_trans; [|apply Permutation_sym; apply join_flat_map_r].
      rewrite ok_in_LUnion in OK. cbn [implementsb] in IMP.
      revert bs0 IMP OK. induction H as [|b r Hb Hr IH]; intros ps IMP OK.
      + destruct ps; [reflexivity | discriminate].
      + destruct ps as [|p ps]; [discriminate|].
        apply andb_true_iff in IMP. destruct IMP as [I1 I2].
        cbn [forallb] in OK. apply andb_true_iff in OK. destruct OK as [O1 O2].
        cbn [flat_map]. apply Permutation_app; [eapply Hb; eauto | apply IH; auto].
    - (* Graph *)
      destruct p; try discriminate. cbn [implementsb] in IMP. apply andb_true_iff in IMP. destruct IMP as [Eg IMP].
      apply gterm_eqb_eq in Eg. subst g0. cbn [ok_in] in OK.
      destruct g as [|n|x].
      + rewrite exec_XGraph_default. cbn [sem]. eapply IHl; eauto.
      + rewrite exec_XGraph_named. cbn [sem].
        destruct (is_named_visible ev n && graph_exists st n); [eapply IHl; eauto | rewrite join_nil_r; auto].
      + rewrite exec_XGraph_var. cbn [sem]. unfold join at 1. apply flat_map_ext_perm. intros row Hrow.
        assert (Wrow : wf row) by (eapply all_wf_in; eauto).
        fold (mjoin row (flat_map (fun n => join [[(x, n)]] (sem st ev (Some n) l)) (visible_graphs st ev))).
        rewrite mjoin_flat_map.
        assert (R : forall n, mjoin row (join [[(x, n)]] (sem st ev (Some n) l))
                              = flat_map (fun s => mjoin s (sem st ev (Some n) l)) (mjoin row [[(x, n)]])).
        { intro n. rewrite join_single_l. apply mjoin_mjoin; auto; [apply wf_single | apply sem_wf]. }
        assert (IHrow : forall n s, wf s -> (forall y w, lookup s y = Some w -> In y (x :: inb)) ->
                                    exec st ev (Some n) p [s] ≡ₚ mjoin s (sem st ev (Some n) l)).
        { intros n s Ws Ds. rewrite <- join_single_l. eapply IHl; eauto.
          - constructor; [exact Ws | constructor].
          - intros a y w [Ha|[]] L. subst. eauto. }
        assert (Drow : forall y w, lookup row y = Some w -> In y (x :: inb)).
        { intros y w L. right. eapply D; eauto. }
        destruct (lookup row x) as [b|] eqn:E.
        * destruct (is_named_visible ev b && graph_exists st b) eqn:V.
          -- eapply perm_trans; [apply IHrow; auto|]. apply Permutation_sym.
             apply andb_true_iff in V.
             eapply perm_trans.
             ++ apply (flat_map_only _ b); [apply visible_graphs_nodup; auto | apply in_visible_graphs; auto |].
                intros n Hn. rewrite R, (mjoin_single_bound row x n b Wrow E).
                destruct (term_eqb b n) eqn:Eb; [apply term_eqb_eq in Eb; congruence | reflexivity].
             ++ rewrite R, (mjoin_single_bound row x b b Wrow E), term_eqb_refl. cbn [flat_map]. rewrite app_nil_r. auto.
          -- rewrite flat_map_none; auto. intros n Hn. rewrite R, (mjoin_single_bound row x n b Wrow E).
             destruct (term_eqb b n) eqn:Eb; [|reflexivity]. apply term_eqb_eq in Eb. subst.
             apply in_visible_graphs in Hn. destruct Hn as [H1 H2]. rewrite H1, H2 in V. discriminate.
        * apply flat_map_ext_perm. intros n Hn. rewrite R, (mjoin_single_fresh row x n Wrow E).
          cbn [flat_map]. rewrite app_nil_r. apply IHrow; [apply wf_insert; auto|].
          intros y w L. rewrite lookup_insert in L. destruct (N.eqb_spec x y); [left; auto | eauto].
    - (* Selection *)
      destruct p; try discriminate. cbn [implementsb] in IMP. apply andb_true_iff in IMP. destruct IMP as [Ec IMP].
      apply expr_eqb_eq in Ec. subst c0. cbn [ok_in] in OK.
      apply andb_true_iff in OK. destruct OK as [OK1 OK2].
      rewrite exec_XFilter. cbn [sem].
      eapply perm_trans; [apply perm_filter; eapply IHl; eauto|].
      rewrite filter_join_r; auto.
      intros a b m Ha Hb M. apply cond_eval_ext. intros x Hx.
      apply (merge_agree a b m x); auto; [eapply all_wf_in; eauto|].
      rewrite forallb_forall in OK2. specialize (OK2 x Hx). apply orb_true_iff in OK2. destruct OK2 as [Hc|Hn].
      + left. eapply sem_cert; eauto. apply mem_var_in. exact Hc.
      + right. destruct (lookup a x) eqn:E; auto. exfalso. apply negb_true_iff in Hn.
        assert (In x inb) by (eapply D; eauto). apply mem_var_in in H. congruence.
    - (* Join *)
      cbn [implementsb] in IMP.
      destruct (scan_scope (LJoin l1 l2)) as [sc|] eqn:ES.
      + (* a same-scope scan group *)
        eapply perm_trans; [|apply join_perm_r; apply Permutation_sym; eapply sem_group; eauto].
        destruct (left_deep_scans p) as [qs|] eqn:EL.
        * eapply perm_trans; [eapply exec_left_deep; eauto|]. apply join_perm_r. apply bj_perm; auto.
          apply Permutation_sym. apply perm_b_perm. exact IMP.
        * destruct (star_plan p) as [[[v pats] rest]|] eqn:EP; [|discriminate].
          apply andb_true_iff in IMP. destruct IMP as [_ IMP].
          eapply perm_trans; [eapply exec_star_plan; eauto|]. apply join_perm_r.
          eapply star_ok_bj; eauto.
      + cbn [ok_in] in OK. apply andb_true_iff in OK. destruct OK as [OK1 OK2].
        assert (Wsa : all_wf (sem st ev active l1)) by apply sem_wf.
        assert (Wsb : all_wf (sem st ev active l2)) by apply sem_wf.
        cbn [sem]. rewrite <- join_assoc by auto.
        assert (Common : forall a' b', implementsb l1 a' = true -> implementsb l2 b' = true ->
                   exec st ev active a' inc ≡ₚ join inc (sem st ev active l1) /\
                   all_wf (exec st ev active a' inc) /\
                   dom_in (inb ++ poss l1) (exec st ev active a' inc) /\
                   exec st ev active b' [[]] ≡ₚ sem st ev active l2 /\
                   all_wf (exec st ev active b' [[]])).
        { intros a' b' I1 I2.
          assert (PA : exec st ev active a' inc ≡ₚ join inc (sem st ev active l1)) by (eapply IHl1; eauto).
          assert (PB : exec st ev active b' [[]] ≡ₚ sem st ev active l2).
          { rewrite <- (join_unit_l (sem st ev active l2)) by auto. eapply (IHl2 b' I2 []); eauto.
            - eapply ok_in_nil; eauto.
            - constructor; [exact I | constructor].
            - intros a x w [Ha|[]] L. subst. discriminate. }
          repeat split; auto.
          - eapply all_wf_perm; [apply Permutation_sym; exact PA|]. apply join_wf; auto.
          - eapply dom_in_join; eauto.
          - eapply all_wf_perm; [apply Permutation_sym; exact PB|]. auto. }
        destruct p; try discriminate; apply andb_true_iff in IMP; destruct IMP as [I1 I2];
          destruct (Common _ _ I1 I2) as (PA & WA & DA & PB & WB).
        * rewrite exec_XBindJoin. eapply perm_trans; [eapply (IHl2 p2 I2 (inb ++ poss l1)); eauto|].
          apply join_perm_l. exact PA.
        * rewrite exec_XHashJoin. eapply perm_trans; [apply hash_join_eq_nested; auto|].
          rewrite nl_join_eq_join. apply join_perm; auto.
        * rewrite exec_XNLJoin. rewrite nl_join_eq_join. apply join_perm; auto.
    - (* Subquery *)
      destruct p; try discriminate. cbn [implementsb] in IMP. apply andb_true_iff in IMP. destruct IMP as [Es IMP].
      apply subspec_eqb_eq in Es. subst s0. cbn [ok_in] in OK.
      apply andb_true_iff in OK. destruct OK as [SSub OK].
      rewrite exec_XSubquery. cbn [sem]. apply join_perm_r.
      assert (PI : exec st ev active p [[]] ≡ₚ sem st ev active l).
      { rewrite <- (join_unit_l (sem st ev active l)) by apply sem_wf.
        eapply (IHl p IMP []); eauto.
        + constructor; [exact I | constructor].
        + intros a x w [Ha|[]] L. subst. discriminate. }
      apply order_free_finalize_perm; auto.
      eapply all_wf_perm; [apply Permutation_sym; exact PI | apply sem_wf].
    - (* Bind *)
      destruct p; try discriminate. cbn [implementsb] in IMP.
      apply andb_true_iff in IMP. destruct IMP as [IMP0 IMP]. apply andb_true_iff in IMP0. destruct IMP0 as [Ea Ev].
      apply (list_eqb_eq _ barg_eqb_eq) in Ea. apply N.eqb_eq in Ev. subst args0 v0.
      cbn [ok_in] in OK.
      apply andb_true_iff in OK. destruct OK as [OK1 OK3].
      rewrite exec_XBind. cbn [sem].
      eapply perm_trans; [apply flat_map_perm; eapply IHl; eauto|].
      rewrite flat_map_join_r; auto.
      intros a b Ha Hb.
      assert (Wa : wf a) by (eapply all_wf_in; eauto).
      assert (Wb : wf b) by (eapply all_wf_in; [apply sem_wf | eauto]).
      apply ebind_merge; auto.
      intros x Hx. rewrite forallb_forall in OK3. specialize (OK3 x Hx). apply orb_true_iff in OK3. destruct OK3 as [Hc|Hn].
      + left. eapply sem_cert; eauto. apply mem_var_in. exact Hc.
      + right. destruct (lookup a x) eqn:E; auto. exfalso. apply negb_true_iff in Hn.
        assert (In x inb) by (eapply D; eauto). apply mem_var_in in H. congruence.
    - (* Values *)
      destruct p; try discriminate. cbn [implementsb] in IMP. apply andb_true_iff in IMP. destruct IMP as [E1 E2].
      apply (list_eqb_eq _ N.eqb_eq) in E1. apply rows_eqb_eq in E2. subst.
      rewrite exec_XValues. cbn [sem]. auto.
  Qed.
End Main.
