(* Unfolding lemmas for exec, and the algebraic facts the main theorem needs about filter / map / dedup under join. *)
Require Import KV.Sparql.Base KV.Sparql.Syntax KV.Sparql.MuProofs KV.Sparql.JoinProofs KV.Sparql.Algebra KV.Sparql.Engine
        KV.Sparql.PlanEquiv KV.Sparql.Sem KV.Sparql.ScanProofs KV.Sparql.HashProofs KV.Sparql.SemProofs.
Require Import Lia Permutation.

Lemma exec_nil : forall st ev active p, exec st ev active p [] = [].
Proof. intros. destruct p; reflexivity. Qed.

Lemma scan_nil : forall st ev active q, scan st ev active q [] = [].
Proof. reflexivity. Qed.

Section Unfold.
  Variables (st : dataset) (ev : eview).

  Lemma exec_XUnit : forall active inc, exec st ev active XUnit inc = inc.
  Proof. intros active [|a r]; reflexivity. Qed.
  Lemma exec_XTableScan : forall active q inc, exec st ev active (XTableScan q) inc = scan st ev active q inc.
  Proof. intros active q [|a r]; reflexivity. Qed.
  Lemma exec_XIndexScan : forall active q inc, exec st ev active (XIndexScan q) inc = scan st ev active q inc.
  Proof. intros active q [|a r]; reflexivity. Qed.
  Lemma exec_XUnion : forall active bs inc, exec st ev active (XUnion bs) inc = flat_map (fun b => exec st ev active b inc) bs.
  Proof.
    intros active bs [|a r].
    - cbn [exec]. symmetry. apply flat_map_none. intros; apply exec_nil.
    - cbn [exec]. induction bs as [|b bs IH]; cbn [flat_map]; [reflexivity|]. rewrite <- IH. reflexivity.
  Qed.
  Lemma exec_XGraph_default : forall active i inc, exec st ev active (XGraph i GDefault) inc = exec st ev None i inc.
  Proof. intros active i [|a r]; [rewrite !exec_nil|]; reflexivity. Qed.
  Lemma exec_XGraph_named : forall active i n inc,
    exec st ev active (XGraph i (GNamed n)) inc =
    if is_named_visible ev n && graph_exists st n then exec st ev (Some n) i inc else [].
  Proof. intros active i n [|a r]; [rewrite !exec_nil; destruct (_ && _)|]; reflexivity. Qed.
  Lemma exec_XGraph_var : forall active i x inc,
    exec st ev active (XGraph i (GVar x)) inc =
    flat_map (fun row => match lookup row x with
                         | Some b => if is_named_visible ev b && graph_exists st b then exec st ev (Some b) i [row] else []
                         | None => flat_map (fun n => exec st ev (Some n) i [insert x n row]) (visible_graphs st ev)
                         end) inc.
  Proof. intros active i x [|a r]; reflexivity. Qed.
  Lemma exec_XFilter : forall active i c inc, exec st ev active (XFilter i c) inc = filter (cond_eval c) (exec st ev active i inc).
  Proof. intros active i c [|a r]; [rewrite !exec_nil|]; reflexivity. Qed.
  Lemma exec_XBindJoin : forall active l r inc, exec st ev active (XBindJoin l r) inc = exec st ev active r (exec st ev active l inc).
  Proof. intros active l r [|a r']; [rewrite !exec_nil|]; reflexivity. Qed.
  Lemma exec_XHashJoin : forall active l r inc,
    exec st ev active (XHashJoin l r) inc = hash_join (exec st ev active l inc) (exec st ev active r [[]]).
  Proof.
    intros active l r [|a r']; [rewrite !exec_nil; reflexivity|]. cbn [exec].
    destruct (exec st ev active l (a :: r')); reflexivity.
  Qed.
  Lemma exec_XNLJoin : forall active l r inc,
    exec st ev active (XNLJoin l r) inc = nl_join (exec st ev active l inc) (exec st ev active r [[]]).
  Proof.
    intros active l r [|a r']; [rewrite !exec_nil; reflexivity|]. cbn [exec].
    destruct (exec st ev active l (a :: r')); reflexivity.
  Qed.
  Lemma exec_XStar : forall active v pats inc,
    exec st ev active (XStar v pats) inc = fold_left (fun rows t => scan st ev active (t, GDefault) rows) pats inc.
  Proof.
    intros active v pats [|a r]; [|reflexivity]. cbn [exec]. induction pats; cbn; auto.
  Qed.
  Lemma exec_XSubquery : forall active i s inc,
    exec st ev active (XSubquery i s) inc = join inc (finalize_subquery s (exec st ev active i [[]])).
  Proof. intros active i s [|a r]; [reflexivity|]. cbn [exec]. apply nl_join_eq_join. Qed.
  Lemma exec_XBind : forall active i args v inc,
    exec st ev active (XBind i args v) inc = flat_map (ebind args v) (exec st ev active i inc).
  Proof. intros active i args v [|a r]; [rewrite !exec_nil|]; reflexivity. Qed.
  Lemma exec_XValues : forall active vs rows inc,
    exec st ev active (XValues vs rows) inc = join inc (map (values_row vs) rows).
  Proof. intros active vs rows [|a r]; [reflexivity|]. cbn [exec]. apply nl_join_eq_join. Qed.
End Unfold.

(* ---- reflection of the equality tests ---- *)
Lemma tm_eqb_eq : forall a b, tm_eqb a b = true <-> a = b.
Proof.
  intros [x|c] [y|d]; cbn; try (split; [discriminate | intro H; inversion H]).
  - rewrite N.eqb_eq. split; [intro; subst; auto | intro H; inversion H; auto].
  - rewrite term_eqb_eq. split; [intro; subst; auto | intro H; inversion H; auto].
Qed.
Lemma tp_eqb_eq : forall a b, tp_eqb a b = true <-> a = b.
Proof.
  intros [[s p] o] [[s' p'] o']. unfold tp_eqb. rewrite !andb_true_iff, !tm_eqb_eq.
  split; [intros [[? ?] ?]; subst; auto | intro H; inversion H; auto].
Qed.
Lemma gterm_eqb_eq : forall a b, gterm_eqb a b = true <-> a = b.
Proof.
  intros [|n|x] [|m|y]; cbn; try (split; [discriminate | intro H; inversion H]); try tauto.
  - rewrite term_eqb_eq. split; [intro; subst; auto | intro H; inversion H; auto].
  - rewrite N.eqb_eq. split; [intro; subst; auto | intro H; inversion H; auto].
Qed.
Lemma qpat_eqb_eq : forall a b, qpat_eqb a b = true <-> a = b.
Proof.
  intros [p g] [p' g']. unfold qpat_eqb. cbn [fst snd]. rewrite andb_true_iff, tp_eqb_eq, gterm_eqb_eq.
  split; [intros [? ?]; subst; auto | intro H; inversion H; auto].
Qed.
Lemma cmpop_eqb_eq : forall a b, cmpop_eqb a b = true <-> a = b.
Proof. intros [] []; cbn; split; try discriminate; auto. Qed.
Lemma expr_eqb_eq : forall a b, expr_eqb a b = true <-> a = b.
Proof.
  induction a; intros []; cbn; try (split; [discriminate | intro H; inversion H]).
  - rewrite !andb_true_iff, cmpop_eqb_eq, N.eqb_eq, tm_eqb_eq. split; [intros [[? ?] ?]; subst; auto | intro H; inversion H; auto].
  - rewrite andb_true_iff, IHa1, IHa2. split; [intros [? ?]; subst; auto | intro H; inversion H; auto].
  - rewrite andb_true_iff, IHa1, IHa2. split; [intros [? ?]; subst; auto | intro H; inversion H; auto].
  - rewrite IHa. split; [intro; subst; auto | intro H; inversion H; auto].
Qed.
Lemma list_eqb_eq {A} (eqb : A -> A -> bool) : (forall x y, eqb x y = true <-> x = y) ->
  forall a b, list_eqb eqb a b = true <-> a = b.
Proof.
  intros E. induction a as [|x r IH]; intros [|y r']; cbn; try (split; [discriminate | intro H; inversion H]); [tauto|].
  rewrite andb_true_iff, E, IH. split; [intros [? ?]; subst; auto | intro H; inversion H; auto].
Qed.
Lemma barg_eqb_eq : forall a b, barg_eqb a b = true <-> a = b.
Proof.
  intros [x|c] [y|d]; cbn; try (split; [discriminate | intro H; inversion H]).
  - rewrite N.eqb_eq. split; [intro; subst; auto | intro H; inversion H; auto].
  - rewrite term_eqb_eq. split; [intro; subst; auto | intro H; inversion H; auto].
Qed.
Lemma opt_eqb_eq {A} (eqb : A -> A -> bool) : (forall x y, eqb x y = true <-> x = y) ->
  forall a b, opt_eqb eqb a b = true <-> a = b.
Proof.
  intros E [x|] [y|]; cbn; try (split; [discriminate | intro H; inversion H]); [|tauto].
  rewrite E. split; [intro; subst; auto | intro H; inversion H; auto].
Qed.
Lemma aggk_eqb_eq : forall a b, aggk_eqb a b = true <-> a = b.
Proof. intros [] []; cbn; split; try discriminate; auto. Qed.
Lemma pitem_eqb_eq : forall a b, pitem_eqb a b = true <-> a = b.
Proof.
  intros [x|k x al] [y|k' y al']; cbn; try (split; [discriminate | intro H; inversion H]).
  - rewrite N.eqb_eq. split; [intro; subst; auto | intro H; inversion H; auto].
  - rewrite !andb_true_iff, aggk_eqb_eq, !N.eqb_eq. split; [intros [[? ?] ?]; subst; auto | intro H; inversion H; auto].
Qed.
Lemma subspec_eqb_eq : forall a b, subspec_eqb a b = true <-> a = b.
Proof.
  intros [p1 d1 g1 o1 l1] [p2 d2 g2 o2 l2]. unfold subspec_eqb. cbn [ss_proj ss_distinct ss_group ss_order ss_limit].
  rewrite !andb_true_iff.
  rewrite (opt_eqb_eq _ (list_eqb_eq _ pitem_eqb_eq)), Bool.eqb_true_iff, (list_eqb_eq _ N.eqb_eq), (opt_eqb_eq _ N.eqb_eq).
  assert (E : forall x y : var * bool, N.eqb (fst x) (fst y) && Bool.eqb (snd x) (snd y) = true <-> x = y).
  { intros [a b] [c d]. cbn. rewrite andb_true_iff, N.eqb_eq, Bool.eqb_true_iff. split; [intros [? ?]; subst; auto | intro H; inversion H; auto]. }
  rewrite (list_eqb_eq _ E).
  split; [intros [[[[? ?] ?] ?] ?]; subst; auto | intro H; inversion H; auto 10].
Qed.
Lemma rows_eqb_eq : forall a b, rows_eqb a b = true <-> a = b.
Proof. apply list_eqb_eq. apply list_eqb_eq. apply opt_eqb_eq. apply term_eqb_eq. Qed.

(* ---- join and concatenation / filter / map on the right ---- *)
Lemma join_flat_map_r {X} (A : list mu) (f : X -> list mu) : forall l,
  join A (flat_map f l) ≡ₚ flat_map (fun x => join A (f x)) l.
Proof.
  induction l as [|x r IH]; cbn [flat_map].
  - rewrite join_nil_r. auto.
  - eapply perm_trans; [apply join_app_r|]. apply Permutation_app_head. exact IH.
Qed.

Lemma perm_filter {A} (f : A -> bool) : forall l l', l ≡ₚ l' -> filter f l ≡ₚ filter f l'.
Proof.
  induction 1; cbn; auto.
  - destruct (f x); auto.
  - destruct (f x), (f y); auto. apply perm_swap.
  - eapply perm_trans; eauto.
Qed.

Lemma filter_flat_map {A B} (f : B -> bool) (g : A -> list B) : forall l,
  filter f (flat_map g l) = flat_map (fun x => filter f (g x)) l.
Proof. induction l as [|x r IH]; cbn; auto. rewrite filter_app, IH. reflexivity. Qed.

Lemma filter_join_r : forall (f : mu -> bool) A B,
  (forall a b m, In a A -> In b B -> merge_rows a b = Some m -> f m = f b) ->
  filter f (join A B) = join A (filter f B).
Proof.
  intros f A B H. unfold join. rewrite filter_flat_map. apply flat_map_ext_in. intros a Ha.
  assert (G : forall B', (forall b, In b B' -> In b B) ->
                         filter f (flat_map (fun b => opt_list (merge_rows a b)) B') = flat_map (fun b => opt_list (merge_rows a b)) (filter f B')).
  { induction B' as [|b r IH]; intros I; cbn [flat_map filter]; auto.
    rewrite filter_app, IH by (intros; apply I; right; auto).
    destruct (merge_rows a b) as [m|] eqn:E; cbn [opt_list filter app].
    - rewrite (H a b m Ha (I b (or_introl eq_refl)) E). destruct (f b); cbn [flat_map]; [rewrite E|]; reflexivity.
    - destruct (f b); cbn [flat_map]; [rewrite E|]; reflexivity. }
  apply G. auto.
Qed.

Lemma map_join_r : forall (f : mu -> mu) A B,
  (forall a b, In a A -> In b B -> merge_rows a (f b) = option_map f (merge_rows a b)) ->
  map f (join A B) = join A (map f B).
Proof.
  intros f A B H. unfold join. rewrite (flat_map_concat_map _ A), concat_map, map_map, <- flat_map_concat_map.
  apply flat_map_ext_in. intros a Ha.
  assert (G : forall B', (forall b, In b B' -> In b B) ->
                         map f (flat_map (fun b => opt_list (merge_rows a b)) B') = flat_map (fun b => opt_list (merge_rows a b)) (map f B')).
  { induction B' as [|b r IH]; intros I; cbn [flat_map map]; auto.
    rewrite map_app, IH by (intros; apply I; right; auto). f_equal.
    rewrite (H a b Ha (I b (or_introl eq_refl))). destruct (merge_rows a b); reflexivity. }
  apply G. auto.
Qed.

Lemma dedup_perm : forall l l', l ≡ₚ l' -> dedup mu_eqb l ≡ₚ dedup mu_eqb l'.
Proof.
  intros l l' P. apply NoDup_Permutation; try (apply dedup_NoDup; apply mu_eqb_eq).
  intro x. rewrite !(dedup_In _ mu_eqb_eq). split; intro H; [eapply Permutation_in; eauto | eapply Permutation_in; [apply Permutation_sym; exact P | exact H]].
Qed.

Lemma simple_finalize_perm : forall s rows rows', simple_sub s = true -> rows ≡ₚ rows' ->
  finalize_subquery s rows ≡ₚ finalize_subquery s rows'.
Proof.
  intros s rows rows' S P. rewrite !simple_finalize by auto. cbv beta.
  assert (P1 : esort (ss_order s) rows ≡ₚ esort (ss_order s) rows').
  { eapply perm_trans; [apply esort_perm|]. eapply perm_trans; [exact P|]. apply Permutation_sym. apply esort_perm. }
  assert (P2 : (match proj_vars (ss_proj s) with Some vs => map (restrict vs) (esort (ss_order s) rows) | None => esort (ss_order s) rows end)
               ≡ₚ (match proj_vars (ss_proj s) with Some vs => map (restrict vs) (esort (ss_order s) rows') | None => esort (ss_order s) rows' end)).
  { destruct (proj_vars (ss_proj s)); auto. apply Permutation_map. auto. }
  destruct (ss_distinct s); auto. apply dedup_perm. auto.
Qed.

(* expressions depend only on the variables they mention *)
Lemma cond_eval3_ext : forall c m b, (forall x, In x (expr_vars c) -> lookup m x = lookup b x) -> cond_eval3 c m = cond_eval3 c b.
Proof.
  induction c; intros m b H; cbn [cond_eval3 expr_vars] in *.
  - rewrite (H l) by (left; auto). destruct r as [y|d]; auto.
    rewrite (H y) by (right; left; auto). reflexivity.
  - rewrite (IHc1 m b), (IHc2 m b); auto; intros; apply H; apply in_or_app; auto.
  - rewrite (IHc1 m b), (IHc2 m b); auto; intros; apply H; apply in_or_app; auto.
  - rewrite (IHc m b); auto.
Qed.
Lemma cond_eval_ext : forall c m b, (forall x, In x (expr_vars c) -> lookup m x = lookup b x) -> cond_eval c m = cond_eval c b.
Proof. intros c m b H. unfold cond_eval. rewrite (cond_eval3_ext c m b H). reflexivity. Qed.

Lemma concat_strs_ext : forall args m b, (forall x, In x (barg_vars args) -> lookup m x = lookup b x) -> concat_strs args m = concat_strs args b.
Proof.
  induction args as [|a r IH]; intros m b H; cbn [concat_strs]; auto.
  rewrite (IH m b).
  - destruct a as [x|c]; auto. rewrite (H x); auto. cbn. left; auto.
  - intros x Hx. apply H. unfold barg_vars. cbn [flat_map]. apply in_or_app. right. exact Hx.
Qed.

(* in a merged row, a variable that b binds or that a does not bind has b's value *)
Lemma merge_agree : forall a b m x, wf a -> merge_rows a b = Some m ->
  (lookup b x <> None \/ lookup a x = None) -> lookup m x = lookup b x.
Proof.
  intros a b m x Wa M H. rewrite (merge_rows_lookup _ _ _ x M).
  destruct (lookup a x) as [v|] eqn:Ea; auto. destruct H as [H|H]; [|discriminate].
  destruct (lookup b x) as [w|] eqn:Eb; [|congruence]. f_equal.
  unfold merge_rows in M. destruct (compatible a b) eqn:C; [|discriminate].
  eapply (proj1 (compatible_spec a b Wa) C); eauto.
Qed.

Lemma econcat_ext : forall args m b, (forall x, In x (barg_vars args) -> lookup m x = lookup b x) -> econcat args m = econcat args b.
Proof.
  induction args as [|a r IH]; intros m b H; cbn [econcat]; auto.
  rewrite (IH m b).
  - destruct a as [x|c]; auto. rewrite (H x); auto. cbn. left; auto.
  - intros x Hx. apply H. unfold barg_vars. cbn [flat_map]. apply in_or_app. right. exact Hx.
Qed.

Lemma flat_map_flat_map {A B C} (f : B -> list C) (g : A -> list B) : forall l,
  flat_map f (flat_map g l) = flat_map (fun a => flat_map f (g a)) l.
Proof. induction l as [|a r IH]; cbn [flat_map]; [reflexivity|]. rewrite flat_map_app, IH. reflexivity. Qed.

Lemma flat_map_join_r : forall (f : mu -> list mu) A B,
  (forall a b, In a A -> In b B ->
     flat_map (fun b' => opt_list (merge_rows a b')) (f b) = flat_map f (opt_list (merge_rows a b))) ->
  flat_map f (join A B) = join A (flat_map f B).
Proof.
  intros f A B H. unfold join. rewrite flat_map_flat_map. apply flat_map_ext_in. intros a Ha.
  assert (G : forall B', (forall b, In b B' -> In b B) ->
                flat_map f (flat_map (fun b => opt_list (merge_rows a b)) B') = flat_map (fun b => opt_list (merge_rows a b)) (flat_map f B')).
  { induction B' as [|b r IH]; intros I; cbn [flat_map]; auto.
    rewrite !flat_map_app, IH by (intros; apply I; right; auto). f_equal.
    symmetry. apply H; auto. apply I. left; auto. }
  apply G. auto.
Qed.

(* BIND commutes with merging an incoming row in, as long as the arguments read the same on both sides: the target may be
   bound by the incoming row - BIND then joins on it (since 1fdcd07) *)
Lemma ebind_merge : forall args v a b, wf a -> wf b ->
  (forall x, In x (barg_vars args) -> lookup b x <> None \/ lookup a x = None) ->
  flat_map (fun b' => opt_list (merge_rows a b')) (ebind args v b) = flat_map (ebind args v) (opt_list (merge_rows a b)).
Proof.
  intros args v a b Wa Wb Hargs.
  assert (Eargs : forall m, merge_rows a b = Some m -> econcat args m = econcat args b).
  { intros m M. apply econcat_ext. intros x Hx. apply (merge_agree a b m x Wa M); auto. }
  assert (Cins : forall c, lookup b v = None ->
            (compatible a (insert v c b) = true <-> compatible a b = true /\ (forall w, lookup a v = Some w -> w = c))).
  { intros c Lb. rewrite !(compatible_spec a _ Wa). split.
    - intros H. split.
      + intros x p q Hx Hq. eapply (H x); eauto. rewrite lookup_insert. destruct (N.eqb_spec v x); [subst; congruence | exact Hq].
      + intros w Lw. eapply (H v); eauto. rewrite lookup_insert, N.eqb_refl. reflexivity.
    - intros [H1 H2] x p q Hx Hq. rewrite lookup_insert in Hq. destruct (N.eqb_spec v x).
      + subst x. inversion Hq; subst. apply H2; auto.
      + eapply (H1 x); eauto. }
  unfold ebind at 1. destruct (merge_rows a b) as [m|] eqn:M; cbn [opt_list flat_map].
  - rewrite app_nil_r. unfold ebind. rewrite (Eargs m eq_refl).
    assert (Wm : wf m) by exact (merge_rows_wf a b m Wa M).
    destruct (econcat args b) as [c|]; [|cbn [flat_map]; rewrite M; reflexivity].
    rewrite (merge_rows_lookup _ _ _ v M).
    destruct (lookup b v) as [old|] eqn:Lb.
    + assert (Lm : match lookup a v with Some w => Some w | None => Some old end = Some old).
      { destruct (lookup a v) as [w|] eqn:La; [|reflexivity]. f_equal.
        unfold merge_rows in M. destruct (compatible a b) eqn:C; [|discriminate].
        eapply (proj1 (compatible_spec a b Wa) C); eauto. }
      rewrite Lm. destruct (term_eqb old c); cbn [flat_map]; [rewrite M|]; reflexivity.
    + cbn [flat_map]. rewrite app_nil_r.
      assert (Cab : compatible a b = true) by (unfold merge_rows in M; destruct (compatible a b); [reflexivity | discriminate]).
      assert (Em : m = merge a b) by (unfold merge_rows in M; rewrite Cab in M; inversion M; reflexivity).
      destruct (lookup a v) as [w|] eqn:La.
      * destruct (term_eqb w c) eqn:E.
        -- apply term_eqb_eq in E. subst w.
           assert (C' : compatible a (insert v c b) = true) by (apply Cins; auto; split; auto; intros w Hw; congruence).
           unfold merge_rows. rewrite C'. cbn [opt_list]. f_equal. subst m. apply mu_ext.
           ++ apply wf_merge; auto.
           ++ apply wf_merge; auto.
           ++ intro y. rewrite !lookup_merge, lookup_insert. destruct (lookup a y) eqn:Ly; [reflexivity|].
              destruct (N.eqb_spec v y); [subst; congruence | reflexivity].
        -- apply term_eqb_neq in E.
           assert (C' : compatible a (insert v c b) = false).
           { destruct (compatible a (insert v c b)) eqn:C'; [|reflexivity]. apply Cins in C'; auto. destruct C' as [_ C']. exfalso. apply E. apply C'. reflexivity. }
           unfold merge_rows. rewrite C'. reflexivity.
      * assert (C' : compatible a (insert v c b) = true) by (apply Cins; auto; split; auto; intros w Hw; congruence).
        unfold merge_rows. rewrite C'. cbn [opt_list]. f_equal. subst m. apply mu_ext.
        -- apply wf_merge; auto.
        -- apply wf_insert. apply wf_merge; auto.
        -- intro y. rewrite lookup_merge, !lookup_insert, lookup_merge.
           destruct (N.eqb_spec v y); [subst; rewrite La; reflexivity | reflexivity].
  - (* incompatible rows stay incompatible *)
    assert (Cab : compatible a b = false) by (unfold merge_rows in M; destruct (compatible a b); [discriminate | reflexivity]).
    destruct (econcat args b) as [c|]; [|cbn [flat_map]; rewrite M; reflexivity].
    destruct (lookup b v) as [old|] eqn:Lb.
    + destruct (term_eqb old c); cbn [flat_map]; [rewrite M|]; reflexivity.
    + cbn [flat_map].
      assert (C' : compatible a (insert v c b) = false).
      { destruct (compatible a (insert v c b)) eqn:C'; [|reflexivity]. apply Cins in C'; auto. destruct C'. congruence. }
      unfold merge_rows. rewrite C'. reflexivity.
Qed.

