(* Matching a triple pattern under a seed = matching it under the empty seed and merging; the quad scan of the
   engine with incoming rows = the join of the incoming rows with the scan from the unit row. *)
Require Import KV.Sparql.Base KV.Sparql.Syntax KV.Sparql.MuProofs KV.Sparql.JoinProofs KV.Sparql.Algebra KV.Sparql.Engine.
Require Import Lia Permutation.

Definition sub_mu (m m' : mu) : Prop := forall x w, lookup m x = Some w -> lookup m' x = Some w.

Lemma match_term_mono : forall t v m m', match_term t v m = Some m' -> sub_mu m m' /\ (wf m -> wf m').
Proof.
  intros t v m m' H. destruct t as [x|c]; cbn in H.
  - destruct (lookup m x) eqn:E.
    + destruct (term_eqb t v); inversion H; subst. split; auto. intros ? ? ?; auto.
    + inversion H; subst. split; [|intro; apply wf_insert; auto].
      intros y w Hy. rewrite lookup_insert. destruct (N.eqb_spec x y); auto. subst. congruence.
  - destruct (term_eqb c v); inversion H; subst. split; auto. intros ? ? ?; auto.
Qed.

Lemma incompatible_mono : forall s m m', wf s -> sub_mu m m' -> compatible s m = false -> compatible s m' = false.
Proof.
  intros s m m' Ws Hsub C. destruct (compatible s m') eqn:C'; auto.
  rewrite <- C. symmetry. apply (compatible_spec s m Ws).
  intros x v w Hx Hw. eapply (proj1 (compatible_spec s m' Ws) C'); eauto.
Qed.

Lemma match_term_seed : forall t v s m, wf s -> wf m -> compatible s m = true ->
  match_term t v (merge s m) =
  match match_term t v m with
  | None => None
  | Some m' => if compatible s m' then Some (merge s m') else None
  end.
Proof.
  intros t v s m Ws Wm C. destruct t as [x|c]; cbn.
  - rewrite lookup_merge. destruct (lookup m x) as [w|] eqn:Em.
    + assert (Hl : match lookup s x with Some v0 => Some v0 | None => Some w end = Some w).
      { destruct (lookup s x) eqn:Es; auto. f_equal. eapply (proj1 (compatible_spec s m Ws) C); eauto. }
      rewrite Hl. destruct (term_eqb w v); auto. rewrite C. reflexivity.
    + destruct (lookup s x) as [sv|] eqn:Es.
      * (* bound in the seed only *)
        assert (Hc : compatible s (insert x v m) = term_eqb sv v).
        { apply eq_true_iff_eq. rewrite (compatible_spec s (insert x v m) Ws), term_eqb_eq. split.
          - intro H. eapply (H x); eauto. rewrite lookup_insert, N.eqb_refl. reflexivity.
          - intros E y a b Hy Hb. rewrite lookup_insert in Hb. destruct (N.eqb_spec x y).
            + subst. congruence.
            + eapply (proj1 (compatible_spec s m Ws) C); eauto. }
        rewrite Hc. destruct (term_eqb sv v) eqn:E; auto. apply term_eqb_eq in E. subst. f_equal.
        apply mu_ext; try (apply wf_merge; auto). intro y. rewrite !lookup_merge, lookup_insert.
        destruct (lookup s y) eqn:Ey; auto. destruct (N.eqb_spec x y); auto. subst. congruence.
      * (* fresh *)
        assert (Hc : compatible s (insert x v m) = true).
        { apply (compatible_spec s (insert x v m) Ws). intros y a b Hy Hb. rewrite lookup_insert in Hb.
          destruct (N.eqb_spec x y); [subst; congruence|]. eapply (proj1 (compatible_spec s m Ws) C); eauto. }
        rewrite Hc. f_equal. apply mu_ext; try (apply wf_insert); try (apply wf_merge; auto).
        intro y. rewrite lookup_insert, !lookup_merge, lookup_insert.
        destruct (N.eqb_spec x y); auto. subst. rewrite Es. reflexivity.
  - destruct (term_eqb c v); auto. rewrite C. reflexivity.
Qed.

Definition seeded (s : mu) (o : option mu) : option mu :=
  match o with None => None | Some m' => if compatible s m' then Some (merge s m') else None end.

Lemma match_term_seeded_none : forall t v s m m', wf s -> match_term t v m = Some m' -> compatible s m = false ->
  seeded s (Some m') = None.
Proof.
  intros t v s m m' Ws H C. cbn. destruct (match_term_mono _ _ _ _ H) as [Hsub _].
  rewrite (incompatible_mono s m m' Ws Hsub C). reflexivity.
Qed.

(* the general form: continuing a match from (merge s m) is continuing it from m and merging with s at the end *)
Lemma match_triple_seed_gen : forall p t s m, wf s -> wf m -> compatible s m = true ->
  match_triple p t (merge s m) = seeded s (match_triple p t m).
Proof.
  intros [[ps pp] po] [[ts tp'] to] s m Ws Wm C. cbn [match_triple].
  rewrite (match_term_seed ps ts s m Ws Wm C).
  destruct (match_term ps ts m) as [m1|] eqn:E1; [|reflexivity].
  destruct (match_term_mono _ _ _ _ E1) as [S1 W1]. specialize (W1 Wm).
  destruct (compatible s m1) eqn:C1.
  - rewrite (match_term_seed pp tp' s m1 Ws W1 C1).
    destruct (match_term pp tp' m1) as [m2|] eqn:E2; [|reflexivity].
    destruct (match_term_mono _ _ _ _ E2) as [S2 W2]. specialize (W2 W1).
    destruct (compatible s m2) eqn:C2.
    + rewrite (match_term_seed po to s m2 Ws W2 C2). reflexivity.
    + destruct (match_term po to m2) as [m3|] eqn:E3; [|reflexivity].
      symmetry. eapply match_term_seeded_none; eauto.
  - destruct (match_term pp tp' m1) as [m2|] eqn:E2; [|reflexivity].
    destruct (match_term_mono _ _ _ _ E2) as [S2 W2].
    pose proof (incompatible_mono s m1 m2 Ws S2 C1) as C2.
    destruct (match_term po to m2) as [m3|] eqn:E3; [|reflexivity].
    symmetry. eapply match_term_seeded_none; eauto.
Qed.

Lemma match_triple_seed : forall p t s, wf s ->
  match_triple p t s = match match_triple p t [] with None => None | Some m0 => merge_rows s m0 end.
Proof.
  intros p t s Ws. pose proof (match_triple_seed_gen p t s [] Ws I (compatible_nil_r s)) as H.
  rewrite merge_nil_r in H. rewrite H. unfold seeded, merge_rows. reflexivity.
Qed.

Lemma match_triple_wf : forall p t m m', wf m -> match_triple p t m = Some m' -> wf m'.
Proof.
  intros [[ps pp] po] [[ts tp'] to] m m' W H. cbn [match_triple] in H.
  destruct (match_term ps ts m) as [m1|] eqn:E1; [|discriminate].
  destruct (match_term pp tp' m1) as [m2|] eqn:E2; [|discriminate].
  apply match_term_mono in E1. apply match_term_mono in E2. apply match_term_mono in H. tauto.
Qed.

Lemma match_triple_sub : forall p t m m', match_triple p t m = Some m' -> sub_mu m m'.
Proof.
  intros [[ps pp] po] [[ts tp'] to] m m' H. cbn [match_triple] in H.
  destruct (match_term ps ts m) as [m1|] eqn:E1; [|discriminate].
  destruct (match_term pp tp' m1) as [m2|] eqn:E2; [|discriminate].
  apply match_term_mono in E1. apply match_term_mono in E2. apply match_term_mono in H.
  intros x w Hx. apply H, E2, E1. exact Hx.
Qed.

(* all matches of a pattern over a list of triples, from a seed *)
Definition matches (p : tp) (T : list triple) (s : mu) : list mu :=
  flat_map (fun t => opt_list (match_triple p t s)) T.

Lemma extend_tp_matches : forall g p m, extend_tp g p m = matches p g m.
Proof. reflexivity. Qed.

Lemma matches_seed : forall p T s, wf s -> matches p T s = mjoin s (matches p T []).
Proof.
  intros p T s Ws. unfold matches, mjoin. rewrite flat_map_flat_map.
  apply flat_map_ext_in. intros t _. rewrite (match_triple_seed p t s Ws).
  destruct (match_triple p t []); cbn; [rewrite app_nil_r|]; reflexivity.
Qed.

Lemma matches_wf : forall p T s, wf s -> all_wf (matches p T s).
Proof.
  intros p T s Ws. apply all_wf_flat_map. intros t _. unfold all_wf.
  destruct (match_triple p t s) eqn:E; cbn; auto. constructor; auto. eapply match_triple_wf; eauto.
Qed.

Lemma flat_map_filter_irrelevant {A B} (f : A -> list B) (P : A -> bool) : forall l,
  (forall x, P x = false -> f x = []) -> flat_map f (filter P l) = flat_map f l.
Proof.
  induction l as [|x r IH]; intros H; cbn; auto.
  destruct (P x) eqn:E; cbn; rewrite IH; auto. rewrite (H x E). reflexivity.
Qed.

(* a triple rejected by the index keys cannot match *)
Lemma key_reject_term : forall t val m, key_ok (bound_term_value t m) val = false -> match_term t val m = None.
Proof.
  intros [x|c] val m H; cbn in *.
  - destruct (lookup m x); cbn in H; [rewrite H; auto | discriminate].
  - rewrite H. reflexivity.
Qed.

Lemma key_reject_sub : forall t val m m', sub_mu m m' -> key_ok (bound_term_value t m) val = false ->
  key_ok (bound_term_value t m') val = false.
Proof.
  intros [x|c] val m m' S H; cbn in *; auto.
  destruct (lookup m x) eqn:E; cbn in H; [|discriminate]. rewrite (S _ _ E). exact H.
Qed.

Lemma key_reject : forall p t m,
  (let '(ps, pp, po) := p in let '(s, pr, o) := t in
   key_ok (bound_term_value ps m) s && key_ok (bound_term_value pp m) pr && key_ok (bound_term_value po m) o) = false ->
  match_triple p t m = None.
Proof.
  intros [[ps pp] po] [[s pr] o] m H. cbn [match_triple].
  destruct (key_ok (bound_term_value ps m) s) eqn:K1.
  - destruct (match_term ps s m) as [m1|] eqn:E1; auto.
    destruct (match_term_mono _ _ _ _ E1) as [S1 _].
    destruct (key_ok (bound_term_value pp m) pr) eqn:K2.
    + destruct (match_term pp pr m1) as [m2|] eqn:E2; auto.
      destruct (match_term_mono _ _ _ _ E2) as [S2 _].
      cbn in H. apply key_reject_term. eapply key_reject_sub; [|exact H].
      intros x w Hx. apply S2, S1, Hx.
    + rewrite (key_reject_term pp pr m1); auto. eapply key_reject_sub; eauto.
  - rewrite (key_reject_term ps s m K1). reflexivity.
Qed.

Lemma query_graph_matches : forall st g p m,
  flat_map (fun t => opt_list (match_triple p t m))
           (let '(ps, pp, po) := p in query_graph st g (bound_term_value ps m) (bound_term_value pp m) (bound_term_value po m))
  = matches p (graph_triples st g) m.
Proof.
  intros st g [[ps pp] po] m. unfold query_graph, matches.
  apply flat_map_filter_irrelevant. intros [[s pr] o] H.
  rewrite (key_reject (ps, pp, po) (s, pr, o) m H). reflexivity.
Qed.

(* ---- dedup (first occurrences), for an equality test that decides Leibniz equality ---- *)
Section Dedup.
  Context {A : Type} (eqb : A -> A -> bool) (eqb_eq : forall x y, eqb x y = true <-> x = y).

  Lemma eqb_refl' : forall x, eqb x x = true.
  Proof. intro x. apply eqb_eq. reflexivity. Qed.

  Lemma existsb_eqb_in : forall l t, existsb (eqb t) l = true <-> In t l.
  Proof.
    intros l t. rewrite existsb_exists. split.
    - intros (y & Hy & E). apply eqb_eq in E. subst. auto.
    - intro H. exists t. split; auto. apply eqb_refl'.
  Qed.

  Lemma dedup_In : forall l x, In x (dedup eqb l) <-> In x l.
  Proof.
    induction l as [|y r IH]; intros x; cbn; [tauto|].
    rewrite filter_In, IH. split.
    - intros [H|[H _]]; auto.
    - intros [H|H]; auto. destruct (eqb y x) eqn:E.
      + apply eqb_eq in E. auto.
      + right. split; auto.
  Qed.

  Lemma dedup_NoDup : forall l, NoDup (dedup eqb l).
  Proof.
    induction l as [|y r IH]; cbn; [constructor|].
    constructor.
    - rewrite filter_In. intros [_ H]. rewrite eqb_refl' in H. discriminate.
    - apply NoDup_filter. exact IH.
  Qed.

  Lemma dedup_id : forall l, NoDup l -> dedup eqb l = l.
  Proof.
    induction l as [|y r IH]; intro N; cbn; auto. inversion N; subst. rewrite IH by auto. f_equal.
    clear IH N. induction r as [|z r' IHr]; cbn; auto.
    destruct (eqb y z) eqn:E.
    - apply eqb_eq in E. subst. exfalso. apply H1. left; auto.
    - cbn. f_equal. apply IHr; [intro; apply H1; right; auto | inversion H2; auto].
  Qed.
End Dedup.

Lemma NoDup_app_intro {A} : forall (l l' : list A), NoDup l -> NoDup l' -> (forall x, In x l -> In x l' -> False) -> NoDup (l ++ l').
Proof.
  induction l as [|x r IH]; intros l' N N' D; cbn; auto.
  inversion N; subst. constructor.
  - rewrite in_app_iff. intros [H|H]; [contradiction | eapply D; eauto; left; auto].
  - apply IH; auto. intros y Hy1 Hy2. eapply D; eauto. right; auto.
Qed.

Lemma triple_eqb_eq : forall a b, triple_eqb a b = true <-> a = b.
Proof.
  intros [[s p] o] [[s' p'] o']. unfold triple_eqb. rewrite !andb_true_iff, !term_eqb_eq.
  split; [intros [[? ?] ?]; subst; auto | intro H; inversion H; auto].
Qed.

(* the triples scan_query_default examines: graph by graph, skipping what was seen *)
Fixpoint sdg_triples (st : dataset) (K : triple -> bool) (gs : list (option term)) (seen : list triple) : list triple :=
  match gs with
  | [] => []
  | g :: r =>
      let fresh := filter (fun t => negb (existsb (triple_eqb t) seen)) (dedup triple_eqb (filter K (graph_triples st g))) in
      fresh ++ sdg_triples st K r (seen ++ fresh)
  end.

Definition keysof (p : tp) (m : mu) (t : triple) : bool :=
  let '(ps, pp, po) := p in let '(s, pr, o) := t in
  key_ok (bound_term_value ps m) s && key_ok (bound_term_value pp m) pr && key_ok (bound_term_value po m) o.

Lemma scan_default_graphs_triples : forall st p row gs seen,
  scan_default_graphs st p row gs seen = matches p (sdg_triples st (keysof p row) gs seen) row.
Proof.
  intros st p row gs. induction gs as [|g r IH]; intros seen; [reflexivity|].
  destruct p as [[ps pp] po]. cbn [scan_default_graphs sdg_triples]. unfold matches. rewrite flat_map_app.
  f_equal. apply IH.
Qed.

Lemma sdg_triples_spec : forall st K gs seen,
  NoDup (sdg_triples st K gs seen) /\ forall t, In t (sdg_triples st K gs seen) <->
            (K t = true /\ ~ In t seen /\ exists g, In g gs /\ In t (graph_triples st g)).
Proof.
  intros st K gs. induction gs as [|g r IH]; intros seen.
  - split; [constructor|]. intro t. cbn. split; [tauto|]. intros (_ & _ & g & [] & _).
  - cbn [sdg_triples].
    set (fresh := filter (fun t => negb (existsb (triple_eqb t) seen)) (dedup triple_eqb (filter K (graph_triples st g)))).
    destruct (IH (seen ++ fresh)) as [N M].
    assert (Hf : forall t, In t fresh <-> (K t = true /\ ~ In t seen /\ In t (graph_triples st g))).
    { intro t. unfold fresh. rewrite filter_In, (dedup_In _ triple_eqb_eq), filter_In, negb_true_iff.
      split.
      - intros [[H1 H2] H3]. repeat split; auto. intro H. apply (existsb_eqb_in _ triple_eqb_eq) in H. congruence.
      - intros (H1 & H2 & H3). repeat split; auto. destruct (existsb (triple_eqb t) seen) eqn:E; auto.
        apply (existsb_eqb_in _ triple_eqb_eq) in E. contradiction. }
    split.
    + apply NoDup_app_intro; auto.
      * unfold fresh. apply NoDup_filter. apply dedup_NoDup. apply triple_eqb_eq.
      * intros t H1 H2. apply M in H2. destruct H2 as (_ & H2 & _). apply H2. apply in_or_app. auto.
    + intro t. rewrite in_app_iff, Hf, M. split.
      * intros [(H1 & H2 & H3)|(H1 & H2 & g' & H3 & H4)].
        -- repeat split; auto. exists g. split; [left|]; auto.
        -- repeat split; auto. { intro H. apply H2. apply in_or_app. auto. } exists g'. split; [right|]; auto.
      * intros (H1 & H2 & g' & [H3|H3] & H4).
        -- subst. left. auto.
        -- destruct (existsb (triple_eqb t) (graph_triples st g)) eqn:Ein.
           ++ apply (existsb_eqb_in _ triple_eqb_eq) in Ein. left. auto.
           ++ assert (Hnin : ~ In t (graph_triples st g)).
              { intro H. apply (existsb_eqb_in _ triple_eqb_eq) in H. congruence. }
              right. repeat split; auto.
              ** intro H. apply in_app_or in H. destruct H as [H|H]; [contradiction|]. apply Hf in H. tauto.
              ** exists g'. auto.
Qed.

(* ---- scan_one_graph ---- *)
Lemma query_graph_matches_sub : forall st g p m m', sub_mu m m' ->
  flat_map (fun t => opt_list (match_triple p t m'))
           (let '(ps, pp, po) := p in query_graph st g (bound_term_value ps m) (bound_term_value pp m) (bound_term_value po m))
  = matches p (graph_triples st g) m'.
Proof.
  intros st g [[ps pp] po] m m' S. unfold query_graph, matches.
  apply flat_map_filter_irrelevant. intros [[s pr] o] H.
  rewrite (key_reject (ps, pp, po) (s, pr, o) m'); [reflexivity|]. cbn in *.
  apply andb_false_iff in H. destruct H as [H|H].
  - apply andb_false_iff in H. destruct H as [H|H].
    + rewrite (key_reject_sub ps s m m' S H). reflexivity.
    + rewrite (key_reject_sub pp pr m m' S H). rewrite andb_false_r. reflexivity.
  - rewrite (key_reject_sub po o m m' S H). apply andb_false_r.
Qed.

Lemma sub_mu_refl : forall m, sub_mu m m.
Proof. intros m x w H; exact H. Qed.

Lemma scan_one_graph_none : forall st p n row,
  scan_one_graph st p (inl n) None row = matches p (graph_triples st (Some n)) row.
Proof.
  intros st [[ps pp] po] n row. unfold scan_one_graph.
  apply (query_graph_matches_sub st (Some n) (ps, pp, po) row row (sub_mu_refl row)).
Qed.

Lemma mjoin_single_bound : forall row x gv e, wf row -> lookup row x = Some e ->
  mjoin row [[(x, gv)]] = if term_eqb e gv then [row] else [].
Proof.
  intros row x gv e W H. unfold mjoin. cbn [flat_map]. rewrite app_nil_r. unfold merge_rows.
  assert (C : compatible row [(x, gv)] = term_eqb e gv).
  { apply eq_true_iff_eq. rewrite (compatible_spec row [(x, gv)] W), term_eqb_eq. split.
    - intro Hc. eapply (Hc x); eauto. cbn. rewrite N.eqb_refl. reflexivity.
    - intros E y a b Hy Hb. cbn in Hb. destruct (N.eqb_spec x y); [|discriminate]. subst. congruence. }
  rewrite C. destruct (term_eqb e gv) eqn:E; [|reflexivity]. apply term_eqb_eq in E. subst.
  cbn [opt_list]. f_equal. apply merge_absorb; auto. { apply wf_single. }
  intros y v Hy. cbn in Hy. destruct (N.eqb_spec x y); [|discriminate]. subst. congruence.
Qed.

Lemma mjoin_single_fresh : forall row x gv, wf row -> lookup row x = None ->
  mjoin row [[(x, gv)]] = [insert x gv row].
Proof.
  intros row x gv W H. unfold mjoin. cbn [flat_map]. rewrite app_nil_r. unfold merge_rows.
  assert (C : compatible row [(x, gv)] = true).
  { apply (compatible_spec row [(x, gv)] W). intros y a b Hy Hb. cbn in Hb.
    destruct (N.eqb_spec x y); [|discriminate]. subst. congruence. }
  rewrite C. cbn [opt_list]. rewrite merge_single_insert; auto.
Qed.

Lemma scan_one_graph_some : forall st p n x gv row, wf row ->
  scan_one_graph st p (inl n) (Some (x, gv)) row
  = flat_map (matches p (graph_triples st (Some n))) (mjoin row [[(x, gv)]]).
Proof.
  intros st [[ps pp] po] n x gv row W. unfold scan_one_graph.
  destruct (lookup row x) as [e|] eqn:E.
  - rewrite (mjoin_single_bound row x gv e W E). destruct (term_eqb e gv).
    + cbn [flat_map]. rewrite app_nil_r.
      apply (query_graph_matches_sub st (Some n) (ps, pp, po) row row (sub_mu_refl row)).
    + cbn. apply flat_map_nil_inner.
  - rewrite (mjoin_single_fresh row x gv W E). cbn [flat_map]. rewrite app_nil_r.
    apply (query_graph_matches_sub st (Some n) (ps, pp, po) row (insert x gv row)).
    intros y w Hy. rewrite lookup_insert. destruct (N.eqb_spec x y); auto. subst. congruence.
Qed.

(* flat_map over a duplicate-free list in which only one index contributes *)
Lemma flat_map_only {A B} (f : A -> list B) (b : A) : forall l, NoDup l -> In b l ->
  (forall n, n <> b -> f n = []) -> flat_map f l ≡ₚ f b.
Proof.
  induction l as [|y r IH]; intros N I H; [contradiction|]. inversion N; subst. cbn.
  destruct I as [I|I].
  - subst. assert (E : flat_map f r = []).
    { rewrite <- (flat_map_nil_inner r). apply flat_map_ext_in. intros n Hn. apply H. intro; subst; contradiction. }
    rewrite E, app_nil_r. auto.
  - rewrite (H y) by (intro; subst; contradiction). cbn. apply IH; auto.
Qed.

Lemma flat_map_none {A B} (f : A -> list B) : forall l, (forall n, In n l -> f n = []) -> flat_map f l = [].
Proof.
  intros l H. rewrite <- (flat_map_nil_inner l). apply flat_map_ext_in. exact H.
Qed.

Lemma mjoin_flat_map {X} (a : mu) (g : X -> list mu) (l : list X) :
  mjoin a (flat_map g l) = flat_map (fun x => mjoin a (g x)) l.
Proof. unfold mjoin. apply flat_map_flat_map. Qed.

Lemma mjoin_mjoin : forall a b C, wf a -> wf b -> all_wf C ->
  mjoin a (mjoin b C) = flat_map (fun ab => mjoin ab C) (mjoin a [b]).
Proof.
  intros a b C Wa Wb WC.
  rewrite (mjoin_join a [b] C Wa) by (auto; constructor; auto).
  rewrite join_single_l. reflexivity.
Qed.

Definition named_nodup (ev : eview) : Prop := NoDup (ev_named ev).

Lemma visible_graphs_nodup : forall st ev, named_nodup ev -> NoDup (visible_graphs st ev).
Proof. intros. unfold visible_graphs. apply NoDup_filter. exact H. Qed.

Lemma in_visible_graphs : forall st ev b, In b (visible_graphs st ev) <-> (is_named_visible ev b = true /\ graph_exists st b = true).
Proof.
  intros. unfold visible_graphs, is_named_visible. rewrite filter_In. split.
  - intros [H1 H2]. split; auto. apply existsb_exists. exists b. split; auto. apply term_eqb_refl.
  - intros [H1 H2]. split; auto. apply existsb_exists in H1. destruct H1 as (y & Hy & E). apply term_eqb_eq in E. subst. auto.
Qed.

(* the triples the default scope denotes (active graph, or the merged default graph) *)
Definition default_triples (st : dataset) (ev : eview) : list triple :=
  dedup triple_eqb (flat_map (graph_triples st) (ev_default ev)).

Lemma scan_default_perm : forall st ev p row,
  scan_default_graphs st p row (ev_default ev) [] ≡ₚ matches p (default_triples st ev) row.
Proof.
  intros st ev p row. rewrite scan_default_graphs_triples.
  destruct (sdg_triples_spec st (keysof p row) (ev_default ev) []) as [N M].
  assert (P : sdg_triples st (keysof p row) (ev_default ev) [] ≡ₚ filter (keysof p row) (default_triples st ev)).
  { apply NoDup_Permutation; auto.
    - apply NoDup_filter. apply dedup_NoDup. apply triple_eqb_eq.
    - intro t. rewrite M, filter_In. unfold default_triples. rewrite (dedup_In _ triple_eqb_eq), in_flat_map.
      split.
      + intros (H1 & _ & g & H2 & H3). split; eauto.
      + intros [(g & H2 & H3) H1]. repeat split; eauto. }
  eapply perm_trans; [unfold matches; apply flat_map_perm; exact P|].
  unfold matches. rewrite flat_map_filter_irrelevant; auto.
  intros t H. rewrite (key_reject p t row); auto.
Qed.

(* what a scan yields from the unit row, per graph scope *)
Theorem scan_row_seed : forall st ev active q row, wf row -> named_nodup ev ->
  scan_row st ev active q row ≡ₚ mjoin row (scan_row st ev active q []).
Proof.
  intros st ev active [p g] row W ND. unfold scan_row.
  destruct g as [|n|x].
  - destruct active as [a|].
    + rewrite !scan_one_graph_none. rewrite (matches_seed p _ row W). auto.
    + eapply perm_trans; [apply scan_default_perm|].
      rewrite (matches_seed p _ row W). unfold mjoin. apply flat_map_perm.
      apply Permutation_sym. apply scan_default_perm.
  - destruct (is_named_visible ev n && graph_exists st n).
    + rewrite !scan_one_graph_none. rewrite (matches_seed p _ row W). auto.
    + reflexivity.
  - cbn [lookup].
    (* from the unit row: every visible graph, binding x *)
    assert (R : forall n, scan_one_graph st p (inl n) (Some (x, n)) [] = mjoin [(x, n)] (matches p (graph_triples st (Some n)) [])).
    { intro n. rewrite scan_one_graph_some by exact I. rewrite (mjoin_single_fresh [] x n I eq_refl).
      cbn [flat_map insert]. rewrite app_nil_r. apply matches_seed. apply wf_single. }
    rewrite mjoin_flat_map.
    assert (S : forall n, mjoin row (scan_one_graph st p (inl n) (Some (x, n)) []) = scan_one_graph st p (inl n) (Some (x, n)) row).
    { intro n. rewrite R, scan_one_graph_some by auto.
      rewrite mjoin_mjoin; auto; [| apply wf_single | apply matches_wf; exact I].
      apply flat_map_ext_in. intros s Hs.
      symmetry. apply matches_seed.
      assert (Hw : all_wf (mjoin row [[(x, n)]])) by (apply mjoin_wf; auto).
      unfold all_wf in Hw. rewrite Forall_forall in Hw. auto. }
    destruct (lookup row x) as [b|] eqn:E.
    + destruct (is_named_visible ev b && graph_exists st b) eqn:V.
      * apply andb_true_iff in V.
        apply Permutation_sym. eapply perm_trans.
        -- apply (flat_map_only _ b); [apply visible_graphs_nodup; auto | apply in_visible_graphs; auto |].
           intros n Hn. rewrite S, scan_one_graph_some by auto.
           rewrite (mjoin_single_bound row x n b W E).
           destruct (term_eqb b n) eqn:Eb; [apply term_eqb_eq in Eb; congruence | reflexivity].
        -- rewrite S. auto.
      * rewrite flat_map_none; auto. intros n Hn. rewrite S, scan_one_graph_some by auto.
        rewrite (mjoin_single_bound row x n b W E).
        destruct (term_eqb b n) eqn:Eb; [|reflexivity]. apply term_eqb_eq in Eb. subst.
        apply in_visible_graphs in Hn. destruct Hn as [H1 H2]. rewrite H1, H2 in V. discriminate.
    + erewrite flat_map_ext_in; [apply Permutation_refl|]. intros n _. cbn. symmetry. apply S.
Qed.

Lemma scan_row_wf : forall st ev active q row, wf row -> all_wf (scan_row st ev active q row).
Proof.
  intros st ev active [p g] row W. unfold scan_row.
  assert (H1 : forall n gb, all_wf (scan_one_graph st p (inl n) gb row)).
  { intros n [[x gv]|].
    - rewrite scan_one_graph_some by auto. apply all_wf_flat_map. intros s Hs. apply matches_wf.
      assert (Hw : all_wf (mjoin row [[(x, gv)]])) by (apply mjoin_wf; auto).
      unfold all_wf in Hw. rewrite Forall_forall in Hw. auto.
    - rewrite scan_one_graph_none. apply matches_wf; auto. }
  destruct g as [|n|x].
  - destruct active; [apply H1|]. rewrite scan_default_graphs_triples. apply matches_wf; auto.
  - destruct (is_named_visible ev n && graph_exists st n); [apply H1 | constructor].
  - destruct (lookup row x).
    + destruct (is_named_visible ev t && graph_exists st t); [apply H1 | constructor].
    + apply all_wf_flat_map. intros; apply H1.
Qed.

Theorem scan_seed : forall st ev active q incoming, all_wf incoming -> named_nodup ev ->
  scan st ev active q incoming ≡ₚ join incoming (scan_row st ev active q []).
Proof.
  intros st ev active q incoming W ND. unfold scan, join.
  apply flat_map_ext_perm. intros row Hr. apply scan_row_seed; auto.
  unfold all_wf in W. rewrite Forall_forall in W. auto.
Qed.
