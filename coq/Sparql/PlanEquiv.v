(* MODEL (C02): the relation "physical plan p is one the optimizer may emit for logical plan l under ANY statistics"
   (optimizer.rs: reorder_logical / greedy_order_scans / find_best_plan_recursive / is_star_query /
   build_star_join_from_patterns / choose_best_scan), as a boolean checker.  The cost model is not modelled:
   every choice the cost model makes is left open (any permutation of a homogeneous same-scope scan group,
   rebuilt left-deep; any of the three algorithms per join node; table or index scan; the star rewrite). *)
Require Import KV.Sparql.Base KV.Sparql.Syntax KV.Sparql.Algebra KV.Sparql.Engine.

Definition tm_eqb (a b : tm) : bool :=
  match a, b with
  | TV x, TV y => N.eqb x y
  | TC c, TC d => term_eqb c d
  | _, _ => false
  end.
Definition tp_eqb (a b : tp) : bool :=
  let '(s, p, o) := a in let '(s', p', o') := b in tm_eqb s s' && tm_eqb p p' && tm_eqb o o'.
Definition gterm_eqb (a b : gterm) : bool :=
  match a, b with
  | GDefault, GDefault => true
  | GNamed x, GNamed y => term_eqb x y
  | GVar x, GVar y => N.eqb x y
  | _, _ => false
  end.
Definition qpat_eqb (a b : qpat) : bool := tp_eqb (fst a) (fst b) && gterm_eqb (snd a) (snd b).
Definition cmpop_eqb (a b : cmpop) : bool :=
  match a, b with
  | OEq, OEq | ONe, ONe | OLt, OLt | OLe, OLe | OGt, OGt | OGe, OGe => true
  | _, _ => false
  end.
Fixpoint expr_eqb (a b : expr) : bool :=
  match a, b with
  | ECmp o l r, ECmp o' l' r' => cmpop_eqb o o' && N.eqb l l' && tm_eqb r r'
  | EAnd x y, EAnd x' y' => expr_eqb x x' && expr_eqb y y'
  | EOr x y, EOr x' y' => expr_eqb x x' && expr_eqb y y'
  | ENot x, ENot x' => expr_eqb x x'
  | _, _ => false
  end.
Fixpoint list_eqb {A} (eqb : A -> A -> bool) (a b : list A) : bool :=
  match a, b with
  | [], [] => true
  | x :: r, y :: r' => eqb x y && list_eqb eqb r r'
  | _, _ => false
  end.
Definition barg_eqb (a b : barg) : bool :=
  match a, b with
  | BV x, BV y => N.eqb x y
  | BC c, BC d => term_eqb c d
  | _, _ => false
  end.
Definition aggk_eqb (a b : aggk) : bool :=
  match a, b with ASum, ASum | AMin, AMin | AMax, AMax | AAvg, AAvg => true | _, _ => false end.
Definition pitem_eqb (a b : pitem) : bool :=
  match a, b with
  | PVar x, PVar y => N.eqb x y
  | PAgg k x al, PAgg k' x' al' => aggk_eqb k k' && N.eqb x x' && N.eqb al al'
  | _, _ => false
  end.
Definition opt_eqb {A} (eqb : A -> A -> bool) (a b : option A) : bool :=
  match a, b with None, None => true | Some x, Some y => eqb x y | _, _ => false end.
Definition subspec_eqb (a b : subspec) : bool :=
  opt_eqb (list_eqb pitem_eqb) (ss_proj a) (ss_proj b) && Bool.eqb (ss_distinct a) (ss_distinct b)
  && list_eqb N.eqb (ss_group a) (ss_group b)
  && list_eqb (fun x y => N.eqb (fst x) (fst y) && Bool.eqb (snd x) (snd y)) (ss_order a) (ss_order b)
  && opt_eqb N.eqb (ss_limit a) (ss_limit b).
Definition rows_eqb := list_eqb (list_eqb (opt_eqb term_eqb)).

(* optimizer.rs: homogeneous_scan_scope / flatten_scan_group *)
Fixpoint scan_scope (l : lop) : option gterm :=
  match l with
  | LScan q => Some (snd q)
  | LJoin a b =>
      match scan_scope a, scan_scope b with
      | Some x, Some y => if gterm_eqb x y then Some x else None
      | _, _ => None
      end
  | _ => None
  end.
Fixpoint flatten_scans (l : lop) : list qpat :=
  match l with
  | LScan q => [q]
  | LJoin a b => flatten_scans a ++ flatten_scans b
  | _ => []
  end.

(* the leaves of a left-deep physical join tree over scans (None when p is not one) *)
Fixpoint left_deep_scans (p : pop) : option (list qpat) :=
  match p with
  | XTableScan q | XIndexScan q => Some [q]
  | XBindJoin l (XTableScan q) | XBindJoin l (XIndexScan q)
  | XHashJoin l (XTableScan q) | XHashJoin l (XIndexScan q)
  | XNLJoin l (XTableScan q) | XNLJoin l (XIndexScan q) =>
      match left_deep_scans l with Some qs => Some (qs ++ [q]) | None => None end
  | _ => None
  end.

(* multiset equality of two pattern lists *)
Fixpoint remove_one (q : qpat) (l : list qpat) : option (list qpat) :=
  match l with
  | [] => None
  | x :: r => if qpat_eqb q x then Some r else option_map (cons x) (remove_one q r)
  end.
Fixpoint perm_b (a b : list qpat) : bool :=
  match a with
  | [] => match b with [] => true | _ => false end
  | x :: r => match remove_one x b with Some b' => perm_b r b' | None => false end
  end.

(* build_star_join_from_patterns: StarJoin over patterns with the centre variable as subject, the remaining
   patterns bind-joined as index scans.  Because the star patterns are located with `position`, a pattern that
   occurs twice is marked used once and appended again: the plan's patterns are those of the group, possibly
   with extra copies of patterns that occur at least twice in the group. *)
Fixpoint star_plan (p : pop) : option (var * list tp * list tp) :=
  match p with
  | XStar v pats => Some (v, pats, [])
  | XBindJoin l (XIndexScan (t, GDefault)) =>
      match star_plan l with Some (v, pats, rest) => Some (v, pats, rest ++ [t]) | None => None end
  | _ => None
  end.
Definition incl_b (a b : list qpat) : bool := forallb (fun x => existsb (qpat_eqb x) b) a.
(* remove every pattern of `group` once from `all`: what is left over are the extra copies *)
Definition remove_group (group all : list qpat) : option (list qpat) :=
  fold_left (fun acc q => match acc with Some l => remove_one q l | None => None end) group (Some all).
Definition count_q (q : qpat) (l : list qpat) : nat := List.length (filter (qpat_eqb q) l).
Definition star_ok (group : list qpat) (v : var) (pats rest : list tp) : bool :=
  let all := map (fun t => (t, GDefault)) (pats ++ rest) in
  (3 <=? List.length pats)%nat
  && forallb (fun t => match t with (TV x, _, _) => N.eqb x v | _ => false end) pats
  && match remove_group group all with
     | Some extra => forallb (fun q => (2 <=? count_q q group)%nat) extra   (* only repeated patterns are appended again *)
     | None => false
     end.

Fixpoint implementsb (l : lop) (p : pop) {struct l} : bool :=
  match l with
  | LUnit => match p with XUnit => true | _ => false end
  | LScan q => match p with XTableScan q' | XIndexScan q' => qpat_eqb q q' | _ => false end
  | LUnion bs =>
      match p with
      | XUnion ps =>
          (fix go (bs : list lop) (ps : list pop) : bool :=
             match bs, ps with
             | [], [] => true
             | b :: r, q :: r' => implementsb b q && go r r'
             | _, _ => false
             end) bs ps
      | _ => false
      end
  | LGraph i g => match p with XGraph i' g' => gterm_eqb g g' && implementsb i i' | _ => false end
  | LSelection i c => match p with XFilter i' c' => expr_eqb c c' && implementsb i i' | _ => false end
  | LJoin a b =>
      match scan_scope l with
      | Some sc =>
          (* a homogeneous scan group: any order, rebuilt left-deep, any join algorithm per node; or the star rewrite *)
          let group := flatten_scans l in
          match left_deep_scans p with
          | Some qs => perm_b group qs
          | None =>
              match star_plan p with
              | Some (v, pats, rest) => gterm_eqb sc GDefault && star_ok group v pats rest
              | None => false
              end
          end
      | None =>
          match p with
          | XBindJoin a' b' | XHashJoin a' b' | XNLJoin a' b' => implementsb a a' && implementsb b b'
          | _ => false
          end
      end
  | LSubquery i s => match p with XSubquery i' s' => subspec_eqb s s' && implementsb i i' | _ => false end
  | LBind i args v => match p with XBind i' args' v' => list_eqb barg_eqb args args' && N.eqb v v' && implementsb i i' | _ => false end
  | LValues vs rows => match p with XValues vs' rows' => list_eqb N.eqb vs vs' && rows_eqb rows rows' | _ => false end
  end.
