(* MODEL of optimizer.rs: serialize_filter_expression (the filter part of create_memo_key).
   Since the repair 276543a a comparison is rendered `{var}{op}{value:?}`: Rust's Debug of a str wraps it in double
   quotes and escapes the double quote and the backslash (the control / non-printable characters that Debug also escapes are outside the
   modelled alphabet).  `ser_expr` models exactly that and is proved injective (even prefix-free) on the filter
   expressions of the modelled fragment.  `ser_expr_unescaped` is the serialization before the repair
   (`{var}{op}'{value}'`), kept with its collision as a regression lemma.
   The whole plan key (serialize_logical_plan) is modelled and proved injective in MemoKeyPlan.v. *)
Require Import KV.Sparql.Base KV.Sparql.Syntax KV.Sparql.PlanEquiv.
Require Import Ascii DecimalString Decimal DecimalN.
Local Open Scope string_scope.

(* variable names as the parser keeps them: `?` followed by name characters; here ?v<decimal> *)
Definition show_var (x : var) : string := append "?v" (NilEmpty.string_of_uint (N.to_uint x)).
Definition show_op (o : cmpop) : string :=
  match o with OEq => "=" | ONe => "!=" | OLt => "<" | OLe => "<=" | OGt => ">" | OGe => ">=" end.
(* the `value` field of ConditionExpression::Comparison: a variable's text or the resolved constant *)
Definition valstr (r : tm) : string := match r with TV y => show_var y | TC c => c end.

(* ---- before the repair ---- *)
Fixpoint ser_expr_unescaped (e : expr) : string :=
  match e with
  | ECmp op l r => append (show_var l) (append (show_op op) (append "'" (append (valstr r) "'")))
  | EAnd a b => append "(" (append (ser_expr_unescaped a) (append " AND " (append (ser_expr_unescaped b) ")")))
  | EOr a b => append "(" (append (ser_expr_unescaped a) (append " OR " (append (ser_expr_unescaped b) ")")))
  | ENot a => append "NOT(" (append (ser_expr_unescaped a) ")")
  end.

(* two different conditions whose constants contain an apostrophe (coll1 / coll2 below) *)
Definition coll1 : expr := EAnd (ECmp OEq 0%N (TC "a' AND ?v1='b")) (ECmp OEq 2%N (TC "c")).
Definition coll2 : expr := EAnd (ECmp OEq 0%N (TC "a")) (ECmp OEq 1%N (TC "b' AND ?v2='c")).

Lemma unescaped_key_collision : expr_eqb coll1 coll2 = false /\ ser_expr_unescaped coll1 = ser_expr_unescaped coll2.
Proof. vm_compute. split; reflexivity. Qed.

(* ---- after the repair: {:?} of the constant ---- *)
Definition dq : ascii := """"%char.
Definition bs : ascii := "\"%char.
Definition esc_char (c : ascii) : string :=
  if Ascii.eqb c dq then String bs (String dq EmptyString)
  else if Ascii.eqb c bs then String bs (String bs EmptyString)
  else String c EmptyString.
Fixpoint esc (s : string) : string :=
  match s with EmptyString => EmptyString | String c r => append (esc_char c) (esc r) end.
Definition dbg (s : string) : string := String dq (append (esc s) (String dq EmptyString)).

Fixpoint ser_expr (e : expr) : string :=
  match e with
  | ECmp op l r => append (show_var l) (append (show_op op) (dbg (valstr r)))
  | EAnd a b => append "(" (append (ser_expr a) (append " AND " (append (ser_expr b) ")")))
  | EOr a b => append "(" (append (ser_expr a) (append " OR " (append (ser_expr b) ")")))
  | ENot a => append "NOT(" (append (ser_expr a) ")")
  end.

Lemma repaired_key_separates : ser_expr coll1 <> ser_expr coll2.
Proof. vm_compute. discriminate. Qed.

(* ---- injectivity ---- *)
Lemma append_assoc : forall a b c : string, append (append a b) c = append a (append b c).
Proof. induction a; intros; cbn; [reflexivity | rewrite IHa; reflexivity]. Qed.

(* Debug of a string is self-delimiting *)
Lemma esc_prefix : forall s s' t t',
  append (esc s) (String dq t) = append (esc s') (String dq t') -> s = s' /\ t = t'.
Proof.
  induction s as [|c r IH]; intros [|c' r'] t t' H.
  - cbn in H. inversion H. auto.
  - exfalso. cbn [esc] in H. unfold esc_char in H.
    destruct (Ascii.eqb c' dq) eqn:E1; [cbn in H; inversion H|].
    destruct (Ascii.eqb c' bs) eqn:E2; [cbn in H; inversion H|].
    cbn in H. inversion H. subst c'. rewrite Ascii.eqb_refl in E1. discriminate.
  - exfalso. cbn [esc] in H. unfold esc_char in H.
    destruct (Ascii.eqb c dq) eqn:E1; [cbn in H; inversion H|].
    destruct (Ascii.eqb c bs) eqn:E2; [cbn in H; inversion H|].
    cbn in H. inversion H. subst c. rewrite Ascii.eqb_refl in E1. discriminate.
  - cbn [esc] in H. rewrite !append_assoc in H. unfold esc_char in H.
    destruct (Ascii.eqb c dq) eqn:E1; destruct (Ascii.eqb c' dq) eqn:F1.
    + apply Ascii.eqb_eq in E1. apply Ascii.eqb_eq in F1. subst. cbn in H. inversion H as [H1].
      destruct (IH _ _ _ H1). subst. auto.
    + exfalso. destruct (Ascii.eqb c' bs) eqn:F2; cbn in H; inversion H.
      subst c'. rewrite Ascii.eqb_refl in F2. discriminate.
    + exfalso. destruct (Ascii.eqb c bs) eqn:E2; cbn in H; inversion H.
      subst c. rewrite Ascii.eqb_refl in E2. discriminate.
    + destruct (Ascii.eqb c bs) eqn:E2; destruct (Ascii.eqb c' bs) eqn:F2.
      * apply Ascii.eqb_eq in E2. apply Ascii.eqb_eq in F2. subst. cbn in H. inversion H as [H1].
        destruct (IH _ _ _ H1). subst. auto.
      * exfalso. cbn in H. inversion H. subst c'. rewrite Ascii.eqb_refl in F2. discriminate.
      * exfalso. cbn in H. inversion H. subst c. rewrite Ascii.eqb_refl in E2. discriminate.
      * cbn in H. inversion H as [[H0 H1]]. destruct (IH _ _ _ H1). subst. auto.
Qed.

Lemma dbg_prefix : forall s s' t t', append (dbg s) t = append (dbg s') t' -> s = s' /\ t = t'.
Proof.
  intros s s' t t' H. unfold dbg in H. cbn [append] in H. inversion H as [H1].
  rewrite !append_assoc in H1. cbn [append] in H1. apply esc_prefix in H1. exact H1.
Qed.

(* name characters versus the delimiters that follow a name *)
Definition is_digit (c : ascii) : bool :=
  existsb (Ascii.eqb c) ["0"; "1"; "2"; "3"; "4"; "5"; "6"; "7"; "8"; "9"]%char.
Definition op_start (c : ascii) : bool := existsb (Ascii.eqb c) ["="; "!"; "<"; ">"]%char.

Fixpoint all_digits (s : string) : bool :=
  match s with EmptyString => true | String c r => is_digit c && all_digits r end.

Lemma uint_digits : forall d, all_digits (NilEmpty.string_of_uint d) = true.
Proof. induction d; cbn; auto. Qed.

Lemma digits_prefix : forall u u' c t c' t', all_digits u = true -> all_digits u' = true ->
  is_digit c = false -> is_digit c' = false ->
  append u (String c t) = append u' (String c' t') -> u = u' /\ String c t = String c' t'.
Proof.
  induction u as [|a r IH]; intros [|a' r'] c t c' t' D D' N N' H; cbn in *.
  - auto.
  - exfalso. inversion H. subst. apply andb_true_iff in D'. destruct D'. congruence.
  - exfalso. inversion H. subst. apply andb_true_iff in D. destruct D. congruence.
  - inversion H. subst. apply andb_true_iff in D. apply andb_true_iff in D'.
    destruct (IH r' c t c' t') as [E1 E2]; try tauto. subst. auto.
Qed.

Lemma show_var_inj_prefix : forall x y c t c' t', is_digit c = false -> is_digit c' = false ->
  append (show_var x) (String c t) = append (show_var y) (String c' t') -> x = y /\ String c t = String c' t'.
Proof.
  intros x y c t c' t' N N' H. unfold show_var in H. cbn [append] in H. inversion H as [H1].
  apply digits_prefix in H1; auto using uint_digits. destruct H1 as [E1 E2]. split; auto.
  assert (E : NilEmpty.uint_of_string (NilEmpty.string_of_uint (N.to_uint x)) = NilEmpty.uint_of_string (NilEmpty.string_of_uint (N.to_uint y)))
    by (rewrite E1; reflexivity).
  rewrite !NilEmpty.usu in E. inversion E as [E'].
  rewrite <- (Unsigned.of_to x), <- (Unsigned.of_to y), E'. reflexivity.
Qed.

Lemma show_var_inj : forall x y, show_var x = show_var y -> x = y.
Proof.
  intros x y H. assert (H' : append (show_var x) "=" = append (show_var y) "=") by (rewrite H; reflexivity).
  apply show_var_inj_prefix in H'; [tauto | reflexivity | reflexivity].
Qed.

Lemma op_dbg_prefix : forall o o' s s' t t',
  append (show_op o) (append (dbg s) t) = append (show_op o') (append (dbg s') t') -> o = o' /\ s = s' /\ t = t'.
Proof.
  intros o o' s s' t t' H.
  destruct o, o'; cbn [show_op append] in H; unfold dbg in H; cbn [append] in H;
    try (inversion H; fail);
    (inversion H as [H1]; split; [reflexivity|];
     apply (dbg_prefix s s' t t'); unfold dbg; cbn [append]; f_equal; exact H1).
Qed.

(* a constant is not mistaken for a variable: the engine itself reads a `value` that starts with `?` as a variable, so
   a constant with that shape IS the same condition; the statement is about constants that do not start with `?` *)
Definition const_ok (r : tm) : bool :=
  match r with TC (String c _) => negb (Ascii.eqb c "?"%char) | _ => true end.
Fixpoint consts_ok (e : expr) : bool :=
  match e with
  | ECmp _ _ r => const_ok r
  | EAnd a b | EOr a b => consts_ok a && consts_ok b
  | ENot a => consts_ok a
  end.

Lemma valstr_inj : forall r r', const_ok r = true -> const_ok r' = true -> valstr r = valstr r' -> r = r'.
Proof.
  intros [x|c] [y|d] K K' H; cbn in *.
  - apply show_var_inj in H. subst. reflexivity.
  - exfalso. subst d. unfold show_var in K'. cbn in K'. discriminate.
  - exfalso. subst c. unfold show_var in K. cbn in K. discriminate.
  - subst. reflexivity.
Qed.

(* the serialization is prefix-free, hence injective *)
Theorem ser_expr_prefix_free : forall e e' t t', consts_ok e = true -> consts_ok e' = true ->
  append (ser_expr e) t = append (ser_expr e') t' -> e = e' /\ t = t'.
Proof.
  induction e as [op l r|a IHa b IHb|a IHa b IHb|a IHa]; intros e' t t' K K' H.
  - destruct e' as [op' l' r'|a' b'|a' b'|a']; cbn [ser_expr] in H.
    + rewrite !append_assoc in H.
      assert (Hs : forall o s u, exists c w, append (show_op o) (append (dbg s) u) = String c w /\ is_digit c = false).
      { intros o s u. destruct o; cbn; eexists; eexists; split; reflexivity. }
      destruct (Hs op (valstr r) t) as (c & w & E1 & N1). destruct (Hs op' (valstr r') t') as (c' & w' & E2 & N2).
      rewrite E1, E2 in H. apply show_var_inj_prefix in H; auto. destruct H as [El H]. subst l'.
      rewrite <- E1, <- E2 in H. apply op_dbg_prefix in H. destruct H as (Eo & Ev & Et). subst.
      apply valstr_inj in Ev; auto. subst. auto.
    + exfalso. unfold show_var in H. cbn in H. inversion H.
    + exfalso. unfold show_var in H. cbn in H. inversion H.
    + exfalso. unfold show_var in H. cbn in H. inversion H.
  - cbn [consts_ok] in K. apply andb_true_iff in K. destruct K as [Ka Kb].
    destruct e' as [op' l' r'|a' b'|a' b'|a']; cbn [ser_expr] in H.
    + exfalso. unfold show_var in H. cbn in H. inversion H.
    + cbn [consts_ok] in K'. apply andb_true_iff in K'. destruct K' as [Ka' Kb'].
      rewrite !append_assoc in H. cbn [append] in H. inversion H as [H1].
      apply IHa in H1; auto. destruct H1 as [Ea H1]. subst a'. cbn [append] in H1. inversion H1 as [H2].
      apply IHb in H2; auto. destruct H2 as [Eb H2]. subst b'. cbn [append] in H2. inversion H2. auto.
    + exfalso. cbn [consts_ok] in K'. apply andb_true_iff in K'. destruct K' as [Ka' Kb'].
      rewrite !append_assoc in H. cbn [append] in H. inversion H as [H1].
      apply IHa in H1; auto. destruct H1 as [_ H1]. cbn [append] in H1. inversion H1.
    + exfalso. cbn in H. inversion H.
  - cbn [consts_ok] in K. apply andb_true_iff in K. destruct K as [Ka Kb].
    destruct e' as [op' l' r'|a' b'|a' b'|a']; cbn [ser_expr] in H.
    + exfalso. unfold show_var in H. cbn in H. inversion H.
    + exfalso. cbn [consts_ok] in K'. apply andb_true_iff in K'. destruct K' as [Ka' Kb'].
      rewrite !append_assoc in H. cbn [append] in H. inversion H as [H1].
      apply IHa in H1; auto. destruct H1 as [_ H1]. cbn [append] in H1. inversion H1.
    + cbn [consts_ok] in K'. apply andb_true_iff in K'. destruct K' as [Ka' Kb'].
      rewrite !append_assoc in H. cbn [append] in H. inversion H as [H1].
      apply IHa in H1; auto. destruct H1 as [Ea H1]. subst a'. cbn [append] in H1. inversion H1 as [H2].
      apply IHb in H2; auto. destruct H2 as [Eb H2]. subst b'. cbn [append] in H2. inversion H2. auto.
    + exfalso. cbn in H. inversion H.
  - cbn [consts_ok] in K.
    destruct e' as [op' l' r'|a' b'|a' b'|a']; cbn [ser_expr] in H.
    + exfalso. unfold show_var in H. cbn in H. inversion H.
    + exfalso. cbn in H. inversion H.
    + exfalso. cbn in H. inversion H.
    + cbn [consts_ok] in K'. rewrite !append_assoc in H. cbn [append] in H. inversion H as [H1].
      apply IHa in H1; auto. destruct H1 as [Ea H1]. subst a'. cbn [append] in H1. inversion H1. auto.
Qed.

Theorem ser_expr_injective : forall e e', consts_ok e = true -> consts_ok e' = true -> ser_expr e = ser_expr e' -> e = e'.
Proof.
  intros e e' K K' H.
  assert (H' : append (ser_expr e) "" = append (ser_expr e') "") by (rewrite H; reflexivity).
  apply ser_expr_prefix_free in H'; tauto.
Qed.
