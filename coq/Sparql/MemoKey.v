(* MODEL of optimizer.rs: serialize_filter_expression (the filter part of create_memo_key), and a collision.
   Comparison(var, op, value) is rendered `{var}{op}'{value}'` with the constant spliced in unescaped, so a constant that
   contains an apostrophe can imitate the rest of the key: two DIFFERENT conditions over the same sub-plan get the same
   memo key, and find_best_plan_recursive returns the first one's physical plan for the second. *)
Require Import KV.Sparql.Base KV.Sparql.Syntax KV.Sparql.PlanEquiv.
Require Import DecimalString Decimal.
Local Open Scope string_scope.

Definition show_var (x : var) : string := append "?v" (NilZero.string_of_uint (N.to_uint x)).
Definition show_op (o : cmpop) : string :=
  match o with OEq => "=" | ONe => "!=" | OLt => "<" | OLe => "<=" | OGt => ">" | OGe => ">=" end.

Fixpoint ser_expr (e : expr) : string :=
  match e with
  | ECmp op l r => append (show_var l) (append (show_op op) (append "'" (append (match r with TV y => show_var y | TC c => c end) "'")))
  | EAnd a b => append "(" (append (ser_expr a) (append " AND " (append (ser_expr b) ")")))
  | EOr a b => append "(" (append (ser_expr a) (append " OR " (append (ser_expr b) ")")))
  | ENot a => append "NOT(" (append (ser_expr a) ")")
  end.

(* FILTER(?v0 = "a' AND ?v1='b" && ?v2 = "c")   versus   FILTER(?v0 = "a" && ?v1 = "b' AND ?v2='c") *)
Definition coll1 : expr := EAnd (ECmp OEq 0%N (TC "a' AND ?v1='b")) (ECmp OEq 2%N (TC "c")).
Definition coll2 : expr := EAnd (ECmp OEq 0%N (TC "a")) (ECmp OEq 1%N (TC "b' AND ?v2='c")).

Lemma memo_key_collision : expr_eqb coll1 coll2 = false /\ ser_expr coll1 = ser_expr coll2.
Proof. vm_compute. split; reflexivity. Qed.
