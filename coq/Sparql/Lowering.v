(* MODEL of the path from the syntax tree to the logical plan:
   - `shape`: the tree the parser builds (kolibrie/src/parser.rs: parse_group_graph_pattern / sparql_group_primary):
     every triple statement is its own Bgp element, and a group with 0 / 1 / n elements becomes Unit / that
     element itself / Join(elements);
   - `lower`: utils.rs: build_logical_plan_from_group_in_scope (filters deferred to the end of their group,
     BIND applied in place, graph scope carried on scans, append_join dropping Unit operands). *)
Require Import KV.Sparql.Base KV.Sparql.Syntax KV.Sparql.Algebra KV.Sparql.Engine.

(* shared::query::GroupGraphPattern *)
Inductive ggp :=
| GUnit
| GBgp (tps : list tp)
| GJoin (ps : list ggp)
| GUnion (ps : list ggp)
| GGraph (g : tm) (p : ggp)
| GFilter (e : expr)
| GBindP (args : list barg) (v : var)
| GValues (vs : list var) (rows : list (list (option term)))
| GSub (distinct : bool) (proj : option (list pitem)) (w : ggp) (gb : list var) (ob : list (var * bool)) (lim : option N).

Definition collapse (joined : list ggp) : ggp :=
  match joined with
  | [] => GUnit
  | [x] => x
  | _ => GJoin joined
  end.

Fixpoint shape (p : pat) {struct p} : ggp :=
  match p with
  | PBgp tps => collapse (map (fun t => GBgp [t]) tps)
  | PGroup es =>
      collapse ((fix go (es : list pat) : list ggp :=
                   match es with
                   | [] => []
                   | e :: r => (match e with
                                | PBgp tps => map (fun t => GBgp [t]) tps     (* one element per triple statement *)
                                | _ => [shape e]
                                end) ++ go r
                   end) es)
  | PUnion gs =>
      match gs with
      | [g] => shape g
      | _ => GUnion ((fix go (gs : list pat) : list ggp := match gs with [] => [] | g :: r => shape g :: go r end) gs)
      end
  | PGraph g q => GGraph g (shape q)
  | PFilter e => GFilter e
  | PBind args v => GBindP args v
  | PValues vs rows => GValues vs rows
  | PSub s => match s with Sel d pr w gb ob lim => GSub d pr (shape w) gb ob lim end
  end.

(* utils.rs: append_join *)
Definition append_join (l r : lop) : lop :=
  match l, r with
  | LUnit, _ => r
  | _, LUnit => l
  | _, _ => LJoin l r
  end.

(* compile_graph_term *)
Definition compile_graph (g : tm) : gterm := match g with TV x => GVar x | TC c => GNamed c end.

Fixpoint lower (g : ggp) (scope : gterm) {struct g} : lop :=
  match g with
  | GUnit => LUnit
  | GBgp tps => fold_left (fun plan t => append_join plan (LScan (t, scope))) tps LUnit
  | GJoin ps =>
      (fix go (ps : list ggp) (plan : lop) (filters : list expr) {struct ps} : lop :=
         match ps with
         | [] => fold_left (fun pl f => LSelection pl f) filters plan
         | p :: r =>
             match p with
             | GFilter f => go r plan (filters ++ [f])
             | GBindP args v => go r (LBind plan args v) filters
             | _ => go r (append_join plan (lower p scope)) filters
             end
         end) ps LUnit []
  | GUnion bs => LUnion ((fix go (bs : list ggp) : list lop := match bs with [] => [] | b :: r => lower b scope :: go r end) bs)
  | GGraph name q => let gt := compile_graph name in LGraph (lower q gt) gt
  | GFilter f => LSelection LUnit f
  | GBindP args v => LBind LUnit args v
  | GValues vs rows => LValues vs rows
  | GSub d pr w gb ob lim =>
      LSubquery (lower w scope) {| ss_proj := pr; ss_distinct := d; ss_group := gb; ss_order := ob; ss_limit := lim |}
  end.

Definition lower_query (s : sel) : lop := lower (shape (sel_where s)) GDefault.

(* a canonical implementation: scans as index scans, every join a bind join (what the cost model picks almost always) *)
Fixpoint default_impl (l : lop) : pop :=
  match l with
  | LUnit => XUnit
  | LScan q => XIndexScan q
  | LUnion bs => XUnion ((fix go (bs : list lop) : list pop := match bs with [] => [] | b :: r => default_impl b :: go r end) bs)
  | LGraph i g => XGraph (default_impl i) g
  | LSelection i c => XFilter (default_impl i) c
  | LJoin l r => XBindJoin (default_impl l) (default_impl r)
  | LSubquery i s => XSubquery (default_impl i) s
  | LBind i args v => XBind (default_impl i) args v
  | LValues vs rows => XValues vs rows
  end.
