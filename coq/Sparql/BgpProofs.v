(* Spec level: a basic graph pattern is the join of its triple patterns, in any order. *)
Require Import KV.Sparql.Base KV.Sparql.Syntax KV.Sparql.MuProofs KV.Sparql.JoinProofs KV.Sparql.Algebra KV.Sparql.Engine
        KV.Sparql.ScanProofs.
Require Import Lia Permutation.

Section BigJoin.
  Context {K : Type} (Sf : K -> list mu) (Swf : forall k, all_wf (Sf k)).

  Definition bigjoin (ks : list K) : list mu := fold_right (fun k acc => join (Sf k) acc) [[]] ks.

  Lemma bigjoin_wf : forall ks, all_wf (bigjoin ks).
  Proof. induction ks as [|k r IH]; cbn; [constructor; [exact I | constructor] | apply join_wf; apply Swf]. Qed.

  Lemma bigjoin_app : forall a b, bigjoin (a ++ b) ≡ₚ join (bigjoin a) (bigjoin b).
  Proof.
    induction a as [|k r IH]; intros b; cbn [app bigjoin fold_right].
    - rewrite join_unit_l by apply bigjoin_wf. auto.
    - fold (bigjoin (r ++ b)). fold (bigjoin r).
      eapply perm_trans; [apply join_perm_r; apply IH|].
      rewrite join_assoc; auto using bigjoin_wf.
  Qed.

  Lemma bigjoin_perm : forall a b, Permutation a b -> bigjoin a ≡ₚ bigjoin b.
  Proof.
    induction 1; cbn [bigjoin fold_right]; auto.
    - apply join_perm_r. exact IHPermutation.
    - fold (bigjoin l). rewrite <- !join_assoc; auto using bigjoin_wf.
      apply join_perm_l. apply join_comm; apply Swf.
    - eapply perm_trans; eauto.
  Qed.

  Lemma bigjoin_snoc : forall a k, bigjoin (a ++ [k]) ≡ₚ join (bigjoin a) (Sf k).
  Proof.
    intros. eapply perm_trans; [apply bigjoin_app|]. cbn. rewrite join_unit_r. auto.
  Qed.
End BigJoin.

Lemma eval_bgp_from : forall T tps rows, all_wf rows ->
  fold_left (fun rows p => flat_map (extend_tp T p) rows) tps rows
  ≡ₚ join rows (bigjoin (fun p => matches p T []) tps).
Proof.
  intros T. induction tps as [|p r IH]; intros rows W; cbn [fold_left bigjoin fold_right].
  - rewrite join_unit_r. auto.
  - fold (bigjoin (fun p => matches p T []) r).
    assert (E : flat_map (extend_tp T p) rows ≡ₚ join rows (matches p T [])).
    { unfold join. apply flat_map_ext_perm. intros m Hm. rewrite extend_tp_matches.
      rewrite (matches_seed p T m) by (eapply Forall_forall in W; eauto). auto. }
    assert (W1 : all_wf (flat_map (extend_tp T p) rows)).
    { eapply all_wf_perm; [apply Permutation_sym; exact E|]. apply join_wf; auto. }
    eapply perm_trans; [apply IH; auto|].
    eapply perm_trans; [apply join_perm_l; exact E|].
    rewrite join_assoc; auto.
    + apply matches_wf. exact I.
    + apply bigjoin_wf. intro k. apply matches_wf. exact I.
Qed.

Theorem eval_bgp_bigjoin : forall T tps, eval_bgp tps T ≡ₚ bigjoin (fun p => matches p T []) tps.
Proof.
  intros T tps. unfold eval_bgp. eapply perm_trans; [apply eval_bgp_from|].
  - constructor; [exact I | constructor].
  - rewrite join_unit_l; auto. apply bigjoin_wf. intro k. apply matches_wf. exact I.
Qed.

Theorem eval_bgp_perm : forall T tps tps', Permutation tps tps' -> eval_bgp tps T ≡ₚ eval_bgp tps' T.
Proof.
  intros T tps tps' P.
  eapply perm_trans; [apply eval_bgp_bigjoin|].
  eapply perm_trans; [|apply Permutation_sym; apply eval_bgp_bigjoin].
  apply bigjoin_perm; auto. intro k. apply matches_wf. exact I.
Qed.

Lemma eval_bgp_wf : forall T tps, all_wf (eval_bgp tps T).
Proof.
  intros. eapply all_wf_perm; [apply Permutation_sym; apply eval_bgp_bigjoin|].
  apply bigjoin_wf. intro k. apply matches_wf. exact I.
Qed.
