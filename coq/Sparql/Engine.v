(* MODEL of kolibrie/src/streamertail_optimizer: the logical and physical operators (operators/*.rs), the
   execution engine (execution/engine.rs: execute_with_ids_and_input and its helpers, clause by clause),
   the two-valued filter evaluation (types.rs: evaluate_filter_with_ids) and the final SELECT modifiers
   (execute_query.rs: finalize_select; engine.rs: finalize_subquery).  No proofs here.
   Dictionary ids are replaced by the lexical strings they denote; HashMap rows are sorted association lists;
   rayon's ordered collect / par_chunks are modelled by their sequential meaning. *)
Require Import KV.Sparql.Base KV.Sparql.Syntax KV.Sparql.Algebra.

(* shared::dataset_index::GraphTerm *)
Inductive gterm := GDefault | GNamed (g : term) | GVar (x : var).
(* shared::dataset_index::QuadPattern *)
Definition qpat := (tp * gterm)%type.

(* types.rs: SubquerySpec *)
Record subspec := { ss_proj : option (list pitem); ss_distinct : bool; ss_group : list var;
                    ss_order : list (var * bool); ss_limit : option N }.

(* operators/logical.rs (the operators the lowering of a group graph pattern produces) *)
Inductive lop :=
| LUnit
| LScan (q : qpat)
| LUnion (bs : list lop)
| LGraph (i : lop) (g : gterm)
| LSelection (i : lop) (c : expr)
| LJoin (l r : lop)
| LSubquery (i : lop) (s : subspec)
| LBind (i : lop) (args : list barg) (v : var)
| LValues (vs : list var) (rows : list (list (option term))).

(* operators/physical.rs *)
Inductive pop :=
| XUnit
| XTableScan (q : qpat)
| XIndexScan (q : qpat)
| XUnion (bs : list pop)
| XGraph (i : pop) (g : gterm)
| XFilter (i : pop) (c : expr)
| XBindJoin (l r : pop)
| XHashJoin (l r : pop)
| XNLJoin (l r : pop)
| XStar (v : var) (pats : list tp)
| XSubquery (i : pop) (s : subspec)
| XBind (i : pop) (args : list barg) (v : var)
| XValues (vs : list var) (rows : list (list (option term))).

(* engine.rs: DatasetView (graph ids of the store; None = GraphId::Default) *)
Record eview := { ev_default : list (option term); ev_named : list term }.

Definition opt_term_eqb (a b : option term) : bool :=
  match a, b with
  | None, None => true
  | Some x, Some y => term_eqb x y
  | _, _ => false
  end.

(* DatasetView::from_database / DatasetView::new (execute_query.rs: build_dataset_view) *)
Definition mk_eview (st : dataset) (from from_named : list term) : eview :=
  match from, from_named with
  | [], [] => {| ev_default := [None]; ev_named := map fst (d_named st) |}
  | _, _ => {| ev_default := dedup opt_term_eqb (map Some from); ev_named := dedup term_eqb from_named |}
  end.

(* the store (shared/src/dataset_index.rs, abstracted by the C04 theorems to its quad set + catalogue) *)
Definition graph_triples (st : dataset) (g : option term) : list triple :=
  match g with
  | None => d_default st
  | Some n => match graph_of (d_named st) n with Some ts => ts | None => [] end
  end.
Definition graph_exists (st : dataset) (g : term) : bool :=
  match graph_of (d_named st) g with Some _ => true | None => false end.
Definition is_named_visible (ev : eview) (g : term) : bool := existsb (term_eqb g) (ev_named ev).

(* bound_scan_keys / bound_term_value *)
Definition bound_term_value (t : tm) (row : mu) : option term :=
  match t with TC c => Some c | TV x => lookup row x end.
Definition key_ok (k : option term) (val : term) : bool :=
  match k with Some c => term_eqb c val | None => true end.
(* DatasetIndex::query_graph(graph, s?, p?, o?): the matching triples of one graph *)
Definition query_graph (st : dataset) (g : option term) (ks kp ko : option term) : list triple :=
  filter (fun t => let '(s, p, o) := t in key_ok ks s && key_ok kp p && key_ok ko o) (graph_triples st g).

(* match_quad: constants must be equal, a variable bound in the seed (or earlier in this pattern) must agree,
   a fresh variable is bound.  (The code collects fresh bindings in a stack buffer and inserts them at the end;
   looking a variable up in seed-then-buffer is the lookup in the extended row, which is what is modelled.) *)
Definition match_quad (p : tp) (t : triple) (seed : mu) : option mu := match_triple p t seed.

(* scan_one_graph *)
Definition scan_one_graph (st : dataset) (p : tp) (g : term + unit) (gb : option (var * term)) (row : mu) : list mu :=
  let '(ps, pp, po) := p in
  let gid := match g with inl n => Some n | inr _ => None end in
  flat_map (fun t =>
              match gb with
              | Some (x, gv) =>
                  match lookup row x with
                  | Some e => if term_eqb e gv then opt_list (match_quad p t row) else []
                  | None => opt_list (match_quad p t (insert x gv row))
                  end
              | None => opt_list (match_quad p t row)
              end)
           (query_graph st gid (bound_term_value ps row) (bound_term_value pp row) (bound_term_value po row)).

(* scan_query_default: the listed default graphs in order, a triple already seen is skipped *)
Fixpoint scan_default_graphs (st : dataset) (p : tp) (row : mu) (gs : list (option term)) (seen : list triple) : list mu :=
  match gs with
  | [] => []
  | g :: r =>
      let '(ps, pp, po) := p in
      let qs := query_graph st g (bound_term_value ps row) (bound_term_value pp row) (bound_term_value po row) in
      let fresh := filter (fun t => negb (existsb (triple_eqb t) seen)) (dedup triple_eqb qs) in
      flat_map (fun t => opt_list (match_quad p t row)) fresh ++ scan_default_graphs st p row r (seen ++ fresh)
  end.

(* the visible named graphs, as the code iterates them (sorted by id there; the order is unobservable in a multiset) *)
Definition visible_graphs (st : dataset) (ev : eview) : list term :=
  filter (graph_exists st) (ev_named ev).

(* execute_quad_scan_with_ids, one incoming row *)
Definition scan_row (st : dataset) (ev : eview) (active : option term) (q : qpat) (row : mu) : list mu :=
  let '(p, g) := q in
  match g with
  | GDefault =>
      match active with
      | Some a => scan_one_graph st p (inl a) None row
      | None => scan_default_graphs st p row (ev_default ev) []
      end
  | GNamed n =>
      if is_named_visible ev n && graph_exists st n then scan_one_graph st p (inl n) None row else []
  | GVar x =>
      match lookup row x with
      | Some b =>
          if is_named_visible ev b && graph_exists st b then scan_one_graph st p (inl b) (Some (x, b)) row else []
      | None =>
          flat_map (fun n => scan_one_graph st p (inl n) (Some (x, n)) row) (visible_graphs st ev)
      end
  end.

Definition scan (st : dataset) (ev : eview) (active : option term) (q : qpat) (incoming : list mu) : list mu :=
  flat_map (scan_row st ev active q) incoming.

(* ---- types.rs: Condition::evaluate_filter_with_ids ---- *)
Definition num_or_zero (s : term) : Z := match parse_int s with Some z => z | None => 0%Z end.
(* compare_lexical *)
Definition compare_lexical (op : cmpop) (l r : term) : bool :=
  match op with
  | OEq => term_eqb l r
  | ONe => negb (term_eqb l r)
  | _ => cmp_int op (num_or_zero l) (num_or_zero r)
  end.

(* evaluate_filter_with_ids since 56f413c: three-valued (None = SPARQL's expression error: an unbound variable); `!`, `&&`, `||`
   propagate errors by the SPARQL truth tables; a FILTER keeps a solution only when the value is Some true.
   compare_lexical is total on bound values (an ordering comparison reads a non-number as 0). *)
Fixpoint cond_eval3 (e : expr) (row : mu) : option bool :=
  match e with
  | ECmp op l r =>
      match lookup row l with
      | None => None
      | Some a =>
          match r with
          | TV y => match lookup row y with None => None | Some b => Some (compare_lexical op a b) end
          | TC c => Some (compare_lexical op a c)
          end
      end
  | EAnd a b =>
      match cond_eval3 a row, cond_eval3 b row with
      | Some false, _ | _, Some false => Some false
      | Some true, Some true => Some true
      | _, _ => None
      end
  | EOr a b =>
      match cond_eval3 a row, cond_eval3 b row with
      | Some true, _ | _, Some true => Some true
      | Some false, Some false => Some false
      | _, _ => None
      end
  | ENot a => option_map negb (cond_eval3 a row)
  end.
Definition cond_eval (e : expr) (row : mu) : bool :=
  match cond_eval3 e row with Some true => true | _ => false end.

(* before 56f413c: two-valued, an unbound operand made a comparison false and `!` turned that into true
   (finding C01-not-of-error; kept for the regression lemma) *)
Fixpoint cond_eval_2v (e : expr) (row : mu) : bool :=
  match e with
  | ECmp op l r =>
      match lookup row l with
      | None => false
      | Some a =>
          match r with
          | TV y => match lookup row y with None => false | Some b => compare_lexical op a b end
          | TC c => compare_lexical op a c
          end
      end
  | EAnd a b => cond_eval_2v a row && cond_eval_2v b row
  | EOr a b => cond_eval_2v a row || cond_eval_2v b row
  | ENot a => negb (cond_eval_2v a row)
  end.

(* ---- the three join executors ---- *)
(* join_solution_sequences: the nested loop (Base.join is exactly this left-major loop over merge_rows) *)
Definition nl_join (L R : list mu) : list mu :=
  match L, R with [], _ | _, [] => [] | _, _ => join L R end.

(* shared_variables: bound by some row on both sides, sorted, no repetition *)
Fixpoint nsort_insert (x : var) (l : list var) : list var :=
  match l with
  | [] => [x]
  | y :: r => match N.compare x y with Lt => x :: l | Eq => l | Gt => y :: nsort_insert x r end
  end.
Definition shared_variables (L R : list mu) : list var :=
  let lv := flat_map dom L in
  fold_left (fun acc x => if mem_var x lv then nsort_insert x acc else acc) (flat_map dom R) [].

(* join_key: None when the row leaves a key variable unbound *)
Fixpoint join_key (row : mu) (ks : list var) : option (list term) :=
  match ks with
  | [] => Some []
  | k :: r => match lookup row k, join_key row r with Some v, Some vs => Some (v :: vs) | _, _ => None end
  end.
Fixpoint tkey_eqb (a b : list term) : bool :=
  match a, b with
  | [], [] => true
  | x :: r, y :: r' => term_eqb x y && tkey_eqb r r'
  | _, _ => false
  end.
(* the build table: key -> right rows in order of appearance *)
Fixpoint table_add (k : list term) (row : mu) (t : list (list term * list mu)) : list (list term * list mu) :=
  match t with
  | [] => [(k, [row])]
  | (k', rows) :: r => if tkey_eqb k k' then (k', rows ++ [row]) :: r else (k', rows) :: table_add k row r
  end.
Fixpoint table_get (k : list term) (t : list (list term * list mu)) : list mu :=
  match t with
  | [] => []
  | (k', rows) :: r => if tkey_eqb k k' then rows else table_get k r
  end.

(* hash_join_solution_sequences *)
Definition hash_join (L R : list mu) : list mu :=
  match L, R with
  | [], _ | _, [] => []
  | _, _ =>
      let ks := shared_variables L R in
      match ks with
      | [] => nl_join L R
      | _ =>
          let table := fold_left (fun t r => match join_key r ks with Some k => table_add k r t | None => t end) R [] in
          let unkeyed := filter (fun r => match join_key r ks with Some _ => false | None => true end) R in
          flat_map (fun l =>
                      let cands := match join_key l ks with
                                   | Some k => table_get k table ++ unkeyed   (* fully bound: its bucket plus the unhashable rows *)
                                   | None => R                                (* partially bound: probes everything *)
                                   end in
                      flat_map (fun r => opt_list (merge_rows l r)) cands) L
      end
  end.

(* ---- BIND (CONCAT branch) since 1fdcd07: an argument that is an unbound variable makes the expression an error and the row
   is kept WITHOUT binding the target; a row that already binds the target (it came in from a sibling group through input
   propagation) is kept only if the existing value equals the computed one ---- *)
Fixpoint econcat (args : list barg) (row : mu) : option term :=
  match args with
  | [] => Some EmptyString
  | a :: r =>
      match (match a with BV x => lookup row x | BC c => Some c end), econcat r row with
      | Some s, Some t => Some (append s t)
      | _, _ => None
      end
  end.
Definition ebind (args : list barg) (v : var) (row : mu) : list mu :=
  match econcat args row with
  | None => [row]
  | Some c =>
      match lookup row v with
      | Some old => if term_eqb old c then [row] else []
      | None => [insert v c row]
      end
  end.

(* before 1fdcd07: an unbound argument contributed the empty string and the target was overwritten
   (findings C01-bind-arg-unbound, C01-bind-target-sibling; kept for the regression lemmas) *)
Fixpoint concat_strs (args : list barg) (row : mu) : term :=
  match args with
  | [] => EmptyString
  | a :: r =>
      append (match a with BV x => match lookup row x with Some s => s | None => EmptyString end | BC c => c end)
             (concat_strs r row)
  end.
Definition bind_row (args : list barg) (v : var) (row : mu) : mu := insert v (concat_strs args row) row.

(* ---- finalize_subquery ---- *)
(* the order comparator of apply_subquery_order / apply_order_by: an unbound key is the empty string;
   numeric when both parse as numbers, lexical otherwise *)
Definition ekey_cmp (a b : option term) : comparison :=
  let x := match a with Some s => s | None => EmptyString end in
  let y := match b with Some s => s | None => EmptyString end in
  match parse_int x, parse_int y with
  | Some i, Some j => Z.compare i j
  | _, _ => String.compare x y
  end.
Fixpoint erow_cmp (ob : list (var * bool)) (a b : mu) : comparison :=
  match ob with
  | [] => Eq
  | (v, desc) :: r =>
      match (if desc then CompOpp (ekey_cmp (lookup a v) (lookup b v)) else ekey_cmp (lookup a v) (lookup b v)) with
      | Eq => erow_cmp r a b
      | c => c
      end
  end.
(* slice::sort_by is stable *)
Fixpoint eins_sorted (ob : list (var * bool)) (x : mu) (l : list mu) : list mu :=
  match l with
  | [] => [x]
  | y :: r => match erow_cmp ob x y with Lt => x :: l | _ => y :: eins_sorted ob x r end
  end.
Definition esort (ob : list (var * bool)) (l : list mu) : list mu :=
  fold_left (fun acc x => eins_sorted ob x acc) l [].

(* aggregate_subquery_rows / aggregate_rows: the result row of a group is its FIRST row with the aggregate
   outputs inserted (removed when the aggregate has no value); groups come out in key order in the code
   (BTreeMap over ids resp. strings) - here in order of first occurrence, the difference is unobservable
   after the sort / in a multiset *)
Definition eagg_value (k : aggk) (x : var) (ms : list mu) : option term :=
  let vals := flat_map (fun m => match lookup m x with Some t => opt_list (parse_int t) | None => [] end) ms in
  match k with
  | ASum => (* fold from 0.0 since 15674d8 (before: `sum::<f64>()`, whose empty value -0.0 printed "-0") *)
            Some (show_int (zsum vals))
  | AMin => option_map show_int (zmin vals)
  | AMax => option_map show_int (zmax vals)
  | AAvg => match vals with [] => None | _ => Some (show_avg (zsum vals) (Z.of_nat (List.length vals))) end
  end.

Definition eaggregate (always : bool) (proj : option (list pitem)) (gb : list var) (rows : list mu) : list mu :=
  let aggs := aggs_of proj in
  (* both finalize_select (since bc03712) and finalize_subquery group when an aggregate is projected or GROUP BY is
     present; `always = false` is the behaviour of finalize_select before that repair, kept for the regression lemma *)
  let skip := match aggs with [] => if always then (match gb with [] => true | _ => false end) else true | _ => false end in
  if skip then rows else
    let gs := groups_of gb rows in
    let gs := match gs, gb with [], [] => [([], [])] | _, _ => gs end in
    map (fun g =>
           fold_left (fun r a => let '(k, x, al) := a in
                                 match eagg_value k x (snd g) with Some t => insert al t r | None => remove al r end)
                     aggs (match snd g with m :: _ => m | [] => [] end)) gs.

Definition proj_vars (proj : option (list pitem)) : option (list var) :=
  option_map (map (fun i => match i with PVar x => x | PAgg _ _ al => al end)) proj.

Definition finalize_subquery (s : subspec) (rows : list mu) : list mu :=
  let rows := eaggregate true (ss_proj s) (ss_group s) rows in
  let rows := esort (ss_order s) rows in
  let rows := match proj_vars (ss_proj s) with Some vs => map (restrict vs) rows | None => rows end in
  let rows := if ss_distinct s then dedup mu_eqb rows else rows in
  match ss_limit s with Some n => firstn (N.to_nat n) rows | None => rows end.

(* ---- execute_with_ids_and_input ---- *)
Fixpoint exec (st : dataset) (ev : eview) (active : option term) (p : pop) (incoming : list mu) {struct p} : list mu :=
  match incoming with
  | [] => []
  | _ =>
    match p with
    | XUnit => incoming
    | XTableScan q => scan st ev active q incoming
    | XIndexScan q => scan st ev active q incoming
    | XUnion bs =>
        (fix go (bs : list pop) : list mu :=
           match bs with [] => [] | b :: r => exec st ev active b incoming ++ go r end) bs
    | XGraph i g =>
        match g with
        | GDefault => exec st ev None i incoming
        | GNamed n =>
            if is_named_visible ev n && graph_exists st n then exec st ev (Some n) i incoming else []
        | GVar x =>
            flat_map (fun row =>
                        match lookup row x with
                        | Some b =>
                            if is_named_visible ev b && graph_exists st b then exec st ev (Some b) i [row] else []
                        | None =>
                            flat_map (fun n => exec st ev (Some n) i [insert x n row]) (visible_graphs st ev)
                        end) incoming
        end
    | XFilter i c => filter (cond_eval c) (exec st ev active i incoming)
    | XBindJoin l r => exec st ev active r (exec st ev active l incoming)
    | XHashJoin l r =>
        match exec st ev active l incoming with
        | [] => []
        | L => hash_join L (exec st ev active r [[]])
        end
    | XNLJoin l r =>
        match exec st ev active l incoming with
        | [] => []
        | L => nl_join L (exec st ev active r [[]])
        end
    | XStar _ pats =>
        fold_left (fun rows t => scan st ev active (t, GDefault) rows) pats incoming
    | XSubquery i s => nl_join incoming (finalize_subquery s (exec st ev active i [[]]))
    | XBind i args v => flat_map (ebind args v) (exec st ev active i incoming)
    | XValues vs rows => nl_join incoming (map (values_row vs) rows)
    end
  end.

(* ---- execute_query.rs: finalize_select (on decoded rows) ----
   With GROUP BY the row of a group is its first row plus the aggregates (aggregate_rows); a projected variable that is
   not a group key would get that representative's value, which no SPARQL answer prescribes (SPARQL rejects such a
   projection), so the Spec, the generator and the corpus only project group keys and aggregate aliases. *)
Definition finalize_select (s : sel) (rows : list mu) : list (list (option term)) :=
  match s with
  | Sel distinct proj _ gb ob lim =>
      let cols := columns s in
      let rows := eaggregate true proj gb rows in
      let rows := esort ob rows in
      let rows := if distinct then dedup (fun a b => mu_eqb (restrict cols a) (restrict cols b)) rows else rows in
      let rows := match lim with Some n => firstn (N.to_nat n) rows | None => rows end in
      render cols rows
  end.
