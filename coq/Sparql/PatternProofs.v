(* Assembly: the engine model on any emitted plan = the Spec's evaluation of the WHERE pattern; refutation witnesses
   for the known classes on the model. *)
Require Import KV.Sparql.Base KV.Sparql.Syntax KV.Sparql.MuProofs KV.Sparql.JoinProofs KV.Sparql.Algebra KV.Sparql.Engine
        KV.Sparql.Lowering KV.Sparql.PlanEquiv KV.Sparql.Sem KV.Sparql.Bridge KV.Sparql.Classes KV.Sparql.ScanProofs
        KV.Sparql.BgpProofs KV.Sparql.HashProofs KV.Sparql.SemProofs KV.Sparql.ExecLemmas KV.Sparql.BridgeProofs KV.Sparql.ModifierProofs KV.Sparql.AggProofs KV.Sparql.BridgeMain
        KV.Sparql.IdemProofs KV.Sparql.Typing KV.Sparql.TypingProofs KV.Sparql.GroupProofs KV.Sparql.EngineProofs KV.Sparql.PlanProofs.
Require Import Permutation.

(* the part of the fragment decided on the query alone *)
Definition proved_fragment (q : query) : bool :=
  let s := q_sel q in
  fragB None (sel_where s) && ok_in [] (lower_query s).

Lemma lowering_is_algebra : forall ds q, dataset_ok ds ->
  let vw := mk_view ds (q_from q) (q_from_named q) in
  let ev := mk_eview ds (q_from q) (q_from_named q) in
  let w := sel_where (q_sel q) in
  fragB None w = true -> agree vw None w = true ->
  sem ds ev None (lower_query (q_sel q)) ≡ₚ eval vw None w.
Proof.
  intros ds q OK vw ev w FR AG.
  pose proof (lower_eval ds (q_from q) (q_from_named q) OK w GDefault None [] (SR_default _ _) FR AG) as H.
  rewrite !join_unit_l in H by (try apply sem_wf; try apply eval_wf). exact H.
Qed.

Lemma dataset_ok_sets : forall ds, dataset_ok ds -> store_sets ds.
Proof.
  intros ds [_ OK2] n. cbn [graph_triples]. destruct (graph_of (d_named ds) n) as [ts|] eqn:E; [|constructor].
  eapply OK2. apply graph_of_in. exact E.
Qed.

Lemma pattern_correct : forall ds q p, dataset_ok ds ->
  let vw := mk_view ds (q_from q) (q_from_named q) in
  let ev := mk_eview ds (q_from q) (q_from_named q) in
  proved_fragment q = true ->
  agree vw None (sel_where (q_sel q)) = true ->
  implementsb (lower_query (q_sel q)) p = true ->
  exec ds ev None p [[]] ≡ₚ eval vw None (sel_where (q_sel q)).
Proof.
  intros ds q p OK vw ev PF AG IMP. unfold proved_fragment in PF.
  apply andb_true_iff in PF. destruct PF as [FR OKI].
  eapply perm_trans.
  - apply implements_sem; eauto; [apply ev_named_nodup; exact OK | apply dataset_ok_sets; exact OK].
  - apply lowering_is_algebra; auto.
Qed.

(* the same with syntactic hypotheses only: noerr (outside C01-not-of-error / C01-bind-arg-unbound, BIND targets fresh) and
   typed (ordering comparisons see integers only, decided on the query and the dataset view) replace `agree` *)
Lemma pattern_correct_syntactic : forall ds q p, dataset_ok ds ->
  let vw := mk_view ds (q_from q) (q_from_named q) in
  let ev := mk_eview ds (q_from q) (q_from_named q) in
  let w := sel_where (q_sel q) in
  proved_fragment q = true -> noerr w = true -> typed vw w = true ->
  implementsb (lower_query (q_sel q)) p = true ->
  exec ds ev None p [[]] ≡ₚ eval vw None w.
Proof.
  intros ds q p OK vw ev w PF NE TY IMP. apply pattern_correct; auto.
  apply agree_of_noerr_typed; auto. unfold proved_fragment in PF. apply andb_true_iff in PF. tauto.
Qed.

Lemma not_perm_witness {A} : forall (l l' : list A) r, In r l -> ~ In r l' -> ~ Permutation l l'.
Proof. intros l l' r H1 H2 P. apply H2. eapply Permutation_in; eauto. Qed.

Lemma not_perm_length {A} : forall (l l' : list A), List.length l <> List.length l' -> ~ Permutation l l'.
Proof. intros l l' H P. apply H. apply Permutation_length. exact P. Qed.

Local Open Scope string_scope.
Definition E (s : string) : term := append "http://e/" s.
Definition wds1 : dataset :=
  {| d_default := [(E "s1", E "p1", E "s2"); (E "s1", E "p3", "5")];
     d_named := [(E "g1", [(E "s1", E "p1", E "s2")]); (E "g2", [(E "s3", E "p1", E "s1")])] |}.
Definition wds0 : dataset := {| d_default := []; d_named := [] |}.
Definition mkq (w : pat) : query := {| q_from := []; q_from_named := []; q_sel := Sel false None w [] [] None |}.

(* the witnesses of the five known findings (variables: a=0 b=1 c=2 f=5 g=6) *)
Definition wq_a := mkq (PGroup [PGraph (TV 6%N) (PGroup [PSub (Sel false (Some [PVar 0%N]) (PGroup [PBgp [(TV 0%N, TC (E "p1"), TV 1%N)]]) [] [] None)])]).
Definition wq_b := mkq (PGroup [PGroup [PValues [0%N] [[Some "1"]]];
                                PGroup [PGroup [PValues [0%N; 1%N] [[None; Some "2"]]]; PFilter (ECmp OEq 0%N (TC "1"))]]).
Definition wq_c := mkq (PGroup [PBgp [(TV 0%N, TC (E "p1"), TV 1%N)]; PGroup [PBind [BC "zz"] 1%N]]).
Definition wq_d := mkq (PGroup [PUnion [PGroup [PBgp [(TV 0%N, TC (E "p1"), TV 1%N)]]; PGroup [PBgp [(TV 0%N, TC (E "p3"), TV 2%N)]]];
                                PFilter (ENot (ECmp OEq 1%N (TC (E "s2"))))]).
Definition wq_e := mkq (PGroup [PValues [0%N] [[Some "zz"]; [None]]; PBind [BV 0%N; BC "x"] 5%N]).

Definition wrun (ds : dataset) (q : query) : list mu :=
  exec ds (mk_eview ds [] []) None (default_impl (lower_query (q_sel q))) [[]].
Definition wspec (ds : dataset) (q : query) : list mu := eval (mk_view ds [] []) None (sel_where (q_sel q)).
Definition wimpl (q : query) : bool := implementsb (lower_query (q_sel q)) (default_impl (lower_query (q_sel q))).
Definition in_class (k : N) (q : query) : bool := existsb (N.eqb k) (fst (classify q)) && snd (classify q).

Lemma refuted_a : wimpl wq_a = true /\ in_class 1 wq_a = true /\ ~ Permutation (wrun wds1 wq_a) (wspec wds1 wq_a).
Proof. split; [vm_compute; reflexivity|]. split; [vm_compute; reflexivity|]. apply not_perm_length. vm_compute. discriminate. Qed.
Lemma refuted_b : wimpl wq_b = true /\ in_class 2 wq_b = true /\ ~ Permutation (wrun wds0 wq_b) (wspec wds0 wq_b).
Proof. split; [vm_compute; reflexivity|]. split; [vm_compute; reflexivity|]. apply not_perm_length. vm_compute. discriminate. Qed.
(* the witnesses of the three repaired findings (1fdcd07: BIND, 56f413c: three-valued FILTER): inside the hypotheses of
   pattern_correct now, and the model's answer is the algebra's; the pre-fix behaviour of the repaired component differs *)
Lemma fixed_c :
  wimpl wq_c = true /\ proved_fragment wq_c = true /\ agree (mk_view wds1 [] []) None (sel_where (q_sel wq_c)) = true /\
  wrun wds1 wq_c = wspec wds1 wq_c /\ wspec wds1 wq_c = [] /\
  ebind [BC "zz"] 1%N [(0%N, E "s1"); (1%N, E "s2")] = [] /\
  bind_row [BC "zz"] 1%N [(0%N, E "s1"); (1%N, E "s2")] = [(0%N, E "s1"); (1%N, "zz")].
Proof. vm_compute. repeat split; reflexivity. Qed.
Lemma fixed_d :
  wimpl wq_d = true /\ proved_fragment wq_d = true /\ agree (mk_view wds1 [] []) None (sel_where (q_sel wq_d)) = true /\
  wrun wds1 wq_d = wspec wds1 wq_d /\ wspec wds1 wq_d = [] /\
  let f := ENot (ECmp OEq 1%N (TC (E "s2"))) in let row := [(0%N, E "s1"); (2%N, "5")] in
  cond_eval f row = false /\ holds f row = false /\ cond_eval_2v f row = true.
Proof. vm_compute. repeat split; reflexivity. Qed.
Lemma fixed_e :
  wimpl wq_e = true /\ proved_fragment wq_e = true /\ agree (mk_view wds0 [] []) None (sel_where (q_sel wq_e)) = true /\
  wrun wds0 wq_e = wspec wds0 wq_e /\ wspec wds0 wq_e = [[(0%N, "zz"); (5%N, "zzx")]; []] /\
  ebind [BV 0%N; BC "x"] 5%N [] = [[]] /\ bind_row [BV 0%N; BC "x"] 5%N [] = [(5%N, "x")].
Proof. vm_compute. repeat split; reflexivity. Qed.

(* the two open witnesses lie outside the hypotheses of pattern_correct *)
Lemma witnesses_outside : proved_fragment wq_a = false /\ proved_fragment wq_b = false.
Proof. vm_compute. split; reflexivity. Qed.

(* non-vacuity: a query with GRAPH ?g, UNION, VALUES/UNDEF, FILTER, BIND and a sub-select inside the proved fragment *)
Definition wq_ok := mkq (PGroup [PGraph (TV 6%N) (PGroup [PBgp [(TV 0%N, TC (E "p1"), TV 1%N)]]);
                                 PUnion [PGroup [PValues [2%N] [[Some "5"]; [None]]]; PGroup [PBgp [(TV 0%N, TC (E "p3"), TV 2%N)]]];
                                 PBind [BV 0%N; BC "x"] 5%N;
                                 PSub (Sel true (Some [PVar 0%N]) (PGroup [PBgp [(TV 0%N, TV 3%N, TV 4%N)]]) [] [(0%N, true)] None);
                                 PFilter (EOr (ECmp ONe 0%N (TC (E "s9"))) (ECmp OEq 1%N (TV 0%N)))]).
Lemma example_ok :
  proved_fragment wq_ok = true /\ agree (mk_view wds1 [] []) None (sel_where (q_sel wq_ok)) = true /\
  wimpl wq_ok = true /\ List.length (wspec wds1 wq_ok) = 3%nat.
Proof. vm_compute. repeat split; reflexivity. Qed.

(* non-vacuity of the two extensions: a nested group consisting of a single BIND of constants, and a SELECT star sub-select *)
Definition wq_ok2 := mkq (PGroup [PBgp [(TV 0%N, TC (E "p1"), TV 1%N)];
                                  PGroup [PBind [BC "k"; BC "x"] 5%N];
                                  PSub (Sel true None (PGroup [PBgp [(TV 0%N, TC (E "p3"), TV 2%N)]; PFilter (ECmp OLt 2%N (TC "7"))]) [] [(2%N, false)] None)]).
Lemma example_ok2 :
  proved_fragment wq_ok2 = true /\ noerr (sel_where (q_sel wq_ok2)) = true /\ typed (mk_view wds1 [] []) (sel_where (q_sel wq_ok2)) = true /\
  wimpl wq_ok2 = true /\ wspec wds1 wq_ok2 = [[(0%N, E "s1"); (1%N, E "s2"); (2%N, "5"%string); (5%N, "kx"%string)]].
Proof. vm_compute. repeat split; reflexivity. Qed.

(* ... and a GROUP BY sub-select with SUM and MIN in the legal shape *)
Definition wq_ok3 := mkq (PGroup [PBgp [(TV 0%N, TC (E "p1"), TV 1%N)];
                                  PSub (Sel false (Some [PVar 0%N; PAgg ASum 2%N 10%N; PAgg AMin 2%N 11%N])
                                            (PGroup [PBgp [(TV 0%N, TC (E "p3"), TV 2%N)]]) [0%N] [(10%N, true)] None)]).
Lemma example_ok3 :
  proved_fragment wq_ok3 = true /\ noerr (sel_where (q_sel wq_ok3)) = true /\ typed (mk_view wds1 [] []) (sel_where (q_sel wq_ok3)) = true /\
  wimpl wq_ok3 = true /\ wspec wds1 wq_ok3 = [[(0%N, E "s1"); (1%N, E "s2"); (10%N, "5"%string); (11%N, "5"%string)]].
Proof. vm_compute. repeat split; reflexivity. Qed.

(* the pieces behind them, as statements about the algebra *)
Lemma eval_scope : forall vw p active m x t, In m (eval vw active p) -> lookup m x = Some t -> In x (sposs p).
Proof. intros vw p active m x t Hm L. exact (eval_poss vw p active m Hm x t L). Qed.

Lemma const_bind_group : forall vw active args v G, barg_vars args = [] -> all_wf G ->
  join G (eval vw active (PGroup [PBind args v])) = flat_map (ebind args v) G.
Proof. intros vw active args v G Hc WG. change (eval vw active (PGroup [PBind args v])) with [extend args v []]. apply join_const_bind; auto. Qed.

Lemma select_star_id : forall vw active w m, In m (eval vw active w) -> restrict (star_cols w []) m = m.
Proof.
  intros vw active w m Hm. apply restrict_id; [eapply all_wf_in; [apply eval_wf | exact Hm]|].
  intros x t L. apply sposs_star_cols. right. eapply eval_poss; eauto.
Qed.

(* regression for the repaired C01-group-by-without-aggregate: three solutions in two groups; finalize_select now returns
   the algebra's two rows (before bc03712 - eaggregate false - it returned three) *)
Definition wsel_gb : sel := Sel false (Some [PVar 0%N]) (PGroup [PBgp [(TV 0%N, TC (E "p3"), TV 1%N)]]) [0%N] [] None.
Definition wrows_gb : list mu := [[(0%N, E "s1"); (1%N, "1")]; [(0%N, E "s1"); (1%N, "2")]; [(0%N, E "s2"); (1%N, "3")]].
Lemma group_by_regression :
  finalize_select wsel_gb wrows_gb = render (columns wsel_gb) (modifiers wsel_gb wrows_gb) /\
  List.length (finalize_select wsel_gb wrows_gb) = 2%nat /\
  List.length (eaggregate false (Some [PVar 0%N]) [0%N] wrows_gb) = 3%nat.
Proof. vm_compute. repeat split; reflexivity. Qed.

(* regression for the repaired C01-empty-sum-negative-zero: a SUM over no values is "0" in the model as in the algebra
   (before 15674d8 the engine printed "-0", a different term) *)
Lemma empty_sum_regression : forall x, eagg_value ASum x [] = Some "0" /\ agg_value ASum x [] = Some "0" /\ "-0" <> "0".
Proof. intro x. repeat split. discriminate. Qed.
