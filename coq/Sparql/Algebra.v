(* SPEC: the SPARQL 1.1 algebra (section 18) on the supported fragment, executable.
   eval  : dataset view -> active graph -> graph pattern -> multiset (list) of solution mappings
   answer: the solution sequence of a SELECT query (columns, rows before LIMIT, LIMIT).
   No reference to plans, operators or the engine: this is what the property C01 talks about. *)
Require Import KV.Sparql.Base KV.Sparql.Syntax.

(* ---- dataset view (section 13): default graph = RDF merge (a set) of the listed graphs, named = visible catalogued graphs ---- *)
Definition triple_eqb (a b : triple) : bool :=
  let '(s, p, o) := a in let '(s', p', o') := b in term_eqb s s' && term_eqb p p' && term_eqb o o'.

Fixpoint dedup {A} (eqb : A -> A -> bool) (l : list A) : list A :=
  match l with
  | [] => []
  | x :: r => x :: filter (fun y => negb (eqb x y)) (dedup eqb r)
  end.

Record view := { v_default : list triple; v_named : list (term * list triple) }.

Fixpoint graph_of (named : list (term * list triple)) (g : term) : option (list triple) :=
  match named with
  | [] => None
  | (n, ts) :: r => if term_eqb n g then Some ts else graph_of r g
  end.

Definition mk_view (ds : dataset) (from from_named : list term) : view :=
  match from, from_named with
  | [], [] => {| v_default := dedup triple_eqb (d_default ds); v_named := d_named ds |}
  | _, _ =>
      {| v_default := dedup triple_eqb (flat_map (fun g => match graph_of (d_named ds) g with Some ts => ts | None => [] end) from);
         v_named := filter (fun nt => existsb (term_eqb (fst nt)) from_named) (d_named ds) |}
  end.

Definition active_triples (vw : view) (active : option term) : list triple :=
  match active with
  | None => v_default vw
  | Some g => match graph_of (v_named vw) g with Some ts => dedup triple_eqb ts | None => [] end
  end.

(* ---- expressions: three-valued (Some true / Some false / None = error) ---- *)
Definition tm_val (m : mu) (t : tm) : option term :=
  match t with TV x => lookup m x | TC c => Some c end.

Definition cmp_int (op : cmpop) (a b : Z) : bool :=
  match op with
  | OEq => Z.eqb a b | ONe => negb (Z.eqb a b)
  | OLt => Z.ltb a b | OLe => Z.leb a b | OGt => Z.ltb b a | OGe => Z.leb b a
  end.

Definition eval_cmp (op : cmpop) (l r : term) : option bool :=
  match op with
  | OEq => Some (term_eqb l r)
  | ONe => Some (negb (term_eqb l r))
  | _ => match parse_int l, parse_int r with
         | Some a, Some b => Some (cmp_int op a b)
         | _, _ => None                         (* ordering is defined on integers only *)
         end
  end.

Fixpoint eval_expr (e : expr) (m : mu) : option bool :=
  match e with
  | ECmp op l r =>
      match lookup m l, tm_val m r with
      | Some a, Some b => eval_cmp op a b
      | _, _ => None                            (* an unbound variable is an error *)
      end
  | EAnd a b =>
      match eval_expr a m, eval_expr b m with
      | Some false, _ | _, Some false => Some false
      | Some true, Some true => Some true
      | _, _ => None
      end
  | EOr a b =>
      match eval_expr a m, eval_expr b m with
      | Some true, _ | _, Some true => Some true
      | Some false, Some false => Some false
      | _, _ => None
      end
  | ENot a => option_map negb (eval_expr a m)
  end.

Definition holds (e : expr) (m : mu) : bool :=
  match eval_expr e m with Some true => true | _ => false end.

(* ---- basic graph patterns ---- *)
Definition match_term (t : tm) (val : term) (m : mu) : option mu :=
  match t with
  | TC c => if term_eqb c val then Some m else None
  | TV x => match lookup m x with
            | Some w => if term_eqb w val then Some m else None
            | None => Some (insert x val m)
            end
  end.

Definition match_triple (p : tp) (t : triple) (m : mu) : option mu :=
  let '(ps, pp, po) := p in let '(s, pr, o) := t in
  match match_term ps s m with
  | Some m1 => match match_term pp pr m1 with
               | Some m2 => match_term po o m2
               | None => None
               end
  | None => None
  end.

(* the solutions of one triple pattern extending m, over a graph (a set of triples) *)
Definition extend_tp (g : list triple) (p : tp) (m : mu) : list mu :=
  flat_map (fun t => opt_list (match_triple p t m)) g.

Definition eval_bgp (tps : list tp) (g : list triple) : list mu :=
  fold_left (fun rows p => flat_map (extend_tp g p) rows) tps [[]].

(* ---- BIND(CONCAT(args) AS v): Extend ---- *)
Fixpoint concat_args (args : list barg) (m : mu) : option term :=
  match args with
  | [] => Some EmptyString
  | a :: r =>
      match (match a with BV x => lookup m x | BC c => Some c end), concat_args r m with
      | Some s, Some t => Some (append s t)
      | _, _ => None                            (* an unbound argument is an error: v stays unbound *)
      end
  end.

Definition extend (args : list barg) (v : var) (m : mu) : mu :=
  match lookup m v, concat_args args m with
  | None, Some t => insert v t m
  | _, _ => m
  end.

(* ---- VALUES ---- *)
Fixpoint values_row (vs : list var) (row : list (option term)) : mu :=
  match vs, row with
  | v :: vs', Some t :: row' => insert v t (values_row vs' row')
  | _ :: vs', None :: row' => values_row vs' row'
  | _, _ => []
  end.

(* ---- solution modifiers ---- *)
Definition key_cmp (a b : option term) : comparison :=
  match a, b with
  | None, None => Eq
  | None, Some _ => Lt
  | Some _, None => Gt
  | Some x, Some y =>
      match parse_int x, parse_int y with
      | Some i, Some j => Z.compare i j
      | _, _ => String.compare x y
      end
  end.

Fixpoint row_cmp (ob : list (var * bool)) (a b : mu) : comparison :=
  match ob with
  | [] => Eq
  | (v, desc) :: r =>
      match key_cmp (lookup a v) (lookup b v) with
      | Eq => row_cmp r a b
      | c => if desc then CompOpp c else c
      end
  end.

(* stable insertion sort *)
Fixpoint ins_sorted (ob : list (var * bool)) (x : mu) (l : list mu) : list mu :=
  match l with
  | [] => [x]
  | y :: r => match row_cmp ob x y with Lt => x :: l | _ => y :: ins_sorted ob x r end
  end.
Definition order_rows (ob : list (var * bool)) (l : list mu) : list mu :=
  fold_left (fun acc x => ins_sorted ob x acc) l [].

Definition group_key (gb : list var) (m : mu) : list (option term) := map (lookup m) gb.

Fixpoint key_eqb (a b : list (option term)) : bool :=
  match a, b with
  | [], [] => true
  | None :: r, None :: r' => key_eqb r r'
  | Some x :: r, Some y :: r' => term_eqb x y && key_eqb r r'
  | _, _ => false
  end.

(* groups in order of first occurrence *)
Fixpoint add_to_groups (k : list (option term)) (m : mu) (gs : list (list (option term) * list mu)) :=
  match gs with
  | [] => [(k, [m])]
  | (k', ms) :: r => if key_eqb k k' then (k', ms ++ [m]) :: r else (k', ms) :: add_to_groups k m r
  end.
Definition groups_of (gb : list var) (rows : list mu) :=
  fold_left (fun gs m => add_to_groups (group_key gb m) m gs) rows [].

Definition int_values (x : var) (ms : list mu) : list Z :=
  flat_map (fun m => match lookup m x with Some t => opt_list (parse_int t) | None => [] end) ms.

Definition zsum (l : list Z) : Z := fold_left Z.add l 0%Z.
Definition zmin (l : list Z) : option Z := match l with [] => None | x :: r => Some (fold_left Z.min r x) end.
Definition zmax (l : list Z) : option Z := match l with [] => None | x :: r => Some (fold_left Z.max r x) end.

(* the exact average n/d in lowest terms, written "n" or "n/d" *)
Definition show_avg (s : Z) (n : Z) : term :=
  let g := Z.gcd s n in
  let g := if Z.eqb g 0 then 1%Z else g in
  let a := Z.div s g in let b := Z.div n g in
  if Z.eqb b 1 then show_int a else append (show_int a) (append "/"%string (show_int b)).

Definition agg_value (k : aggk) (x : var) (ms : list mu) : option term :=
  let vals := int_values x ms in
  match k with
  | ASum => Some (show_int (zsum vals))
  | AMin => option_map show_int (zmin vals)
  | AMax => option_map show_int (zmax vals)
  | AAvg => match vals with [] => None | _ => Some (show_avg (zsum vals) (Z.of_nat (List.length vals))) end
  end.

Fixpoint key_row (gb : list var) (k : list (option term)) : mu :=
  match gb, k with
  | v :: gb', Some t :: k' => insert v t (key_row gb' k')
  | _ :: gb', None :: k' => key_row gb' k'
  | _, _ => []
  end.

Definition aggs_of (proj : option (list pitem)) : list (aggk * var * var) :=
  match proj with
  | None => []
  | Some items => flat_map (fun i => match i with PAgg k x a => [(k, x, a)] | PVar _ => [] end) items
  end.

Definition aggregate (proj : option (list pitem)) (gb : list var) (rows : list mu) : list mu :=
  let aggs := aggs_of proj in
  match aggs, gb with
  | [], [] => rows
  | _, _ =>
      let gs := groups_of gb rows in
      let gs := match gs, gb with [], [] => [([], [])] | _, _ => gs end in
      map (fun g =>
             fold_left (fun r a => let '(k, x, al) := a in
                                   match agg_value k x (snd g) with Some t => insert al t r | None => r end)
                       aggs (key_row gb (fst g))) gs
  end.

(* variables in order of first syntactic occurrence: the columns of SELECT * *)
Definition push (x : var) (l : list var) : list var := if mem_var x l then l else l ++ [x].
Definition tm_push (t : tm) (l : list var) := match t with TV x => push x l | TC _ => l end.

Fixpoint star_cols (p : pat) (acc : list var) {struct p} : list var :=
  match p with
  | PBgp tps => fold_left (fun a t => let '(s, pr, o) := t in tm_push o (tm_push pr (tm_push s a))) tps acc
  | PGroup es => (fix go es acc := match es with [] => acc | e :: r => go r (star_cols e acc) end) es acc
  | PUnion gs => (fix go es acc := match es with [] => acc | e :: r => go r (star_cols e acc) end) gs acc
  | PGraph g q => star_cols q (tm_push g acc)
  | PFilter _ => acc
  | PBind _ v => push v acc
  | PValues vs _ => fold_left (fun a v => push v a) vs acc
  | PSub s =>
      match s with
      | Sel _ None w _ _ _ => star_cols w acc
      | Sel _ (Some items) _ _ _ _ =>
          fold_left (fun a i => match i with PVar x => push x a | PAgg _ _ al => push al a end) items acc
      end
  end.

Definition columns (s : sel) : list var :=
  match s with
  | Sel _ None w _ _ _ => star_cols w []
  | Sel _ (Some items) _ _ _ _ => map (fun i => match i with PVar x => x | PAgg _ _ al => al end) items
  end.


(* everything after the pattern: aggregate, order, project, distinct; the cut is applied last *)
Definition modifiers_nolimit (s : sel) (rows : list mu) : list mu :=
  match s with
  | Sel distinct proj _ gb ob _ =>
      let rows := aggregate proj gb rows in
      let rows := order_rows ob rows in
      let rows := map (restrict (columns s)) rows in
      if distinct then dedup mu_eqb rows else rows
  end.

Definition apply_limit (lim : option N) (rows : list mu) : list mu :=
  match lim with Some n => firstn (N.to_nat n) rows | None => rows end.

Definition modifiers (s : sel) (rows : list mu) : list mu :=
  match s with Sel _ _ _ _ _ lim => apply_limit lim (modifiers_nolimit s rows) end.

(* ---- evaluation of graph patterns (18.5) with the translation of groups (18.2.2) folded in ---- *)
Fixpoint eval (vw : view) (active : option term) (p : pat) {struct p} : list mu :=
  match p with
  | PBgp tps => eval_bgp tps (active_triples vw active)
  | PGroup es =>
      (* G := Z; filters collected; BIND extends what precedes it; everything else is joined; filters last *)
      (fix go (es : list pat) (G : list mu) (fs : list expr) {struct es} : list mu :=
         match es with
         | [] => filter (fun m => forallb (fun f => holds f m) fs) G
         | e :: r =>
             match e with
             | PFilter f => go r G (fs ++ [f])
             | PBind args v => go r (map (extend args v) G) fs
             | _ => go r (join G (eval vw active e)) fs
             end
         end) es [[]] []
  | PUnion gs =>
      (fix go (gs : list pat) : list mu :=
         match gs with [] => [] | g :: r => eval vw active g ++ go r end) gs
  | PGraph (TC g) q =>
      match graph_of (v_named vw) g with
      | Some _ => eval vw (Some g) q
      | None => []
      end
  | PGraph (TV x) q =>
      (fix go (gs : list (term * list triple)) : list mu :=
         match gs with
         | [] => []
         | (g, _) :: r => join (eval vw (Some g) q) [[(x, g)]] ++ go r
         end) (v_named vw)
  | PFilter f => filter (holds f) [[]]               (* the group { FILTER(f) } *)
  | PBind args v => [extend args v []]               (* the group { BIND(..) } *)
  | PValues vs rows => map (values_row vs) rows
  | PSub s =>
      match s with
      | Sel d pr w gb ob lim => modifiers (Sel d pr w gb ob lim) (eval vw active w)
      end
  end.

Definition eval_sel (vw : view) (active : option term) (s : sel) : list mu :=
  modifiers s (eval vw active (sel_where s)).

(* The answer of a query: its columns, the full solution sequence before the cut, and the cut. *)
Definition render (cols : list var) (rows : list mu) : list (list (option term)) :=
  map (fun m => map (lookup m) cols) rows.

Definition answer_full (ds : dataset) (q : query) : list var * list (list (option term)) :=
  let vw := mk_view ds (q_from q) (q_from_named q) in
  let s := q_sel q in
  (columns s, render (columns s) (modifiers_nolimit s (eval vw None (sel_where s)))).

Definition sel_limit (s : sel) : option N := match s with Sel _ _ _ _ _ l => l end.
