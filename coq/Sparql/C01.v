(* C01 - SELECT answers equal the SPARQL algebra over the stored dataset.  (theorems are added below as they are proved) *)
Require Import KV.Sparql.Base KV.Sparql.Syntax KV.Sparql.Algebra.
