(* C01 - SELECT answers equal the SPARQL algebra over the stored dataset.
   Only the property theorems: each is closed by `exact <lemma>` and followed by Print Assumptions.
   Spec:  Algebra.v (`eval`, `modifiers`, `answer_full`: SPARQL 1.1 section 18 on the fragment).
   Model: Lowering.v (`shape` = the parser's tree, `lower` = build_logical_plan_from_group_in_scope), PlanEquiv.v
          (`implementsb` = the plans the optimizer may emit), Engine.v (`exec` = execute_with_ids_and_input,
          `finalize_select`).  The check validates the model against the implementation on every run.

   Staging (what is proved / what is covered by the correspondence against the executable Spec only):
   - stage 1+2 PROVED: C01_pattern for BGP / group / UNION / GRAPH iri|var / VALUES+UNDEF / FILTER / BIND / nested groups
     consisting of a single BIND of constants / sub-selects without LIMIT - explicit projection or SELECT
     star with [DISTINCT] [ORDER BY], or GROUP BY + SUM / MIN / MAX / AVG in the legal shape (group keys and aggregate aliases
     projected) -, FROM / FROM NAMED, any emitted plan; its hypotheses are the fragment (fragB, ok_in: outside the two open
     classes), BIND targets fresh in their group (legal SPARQL) and a typing condition on the dataset view for ORDERING comparisons
     (C01_agree_syntactic, C01_pattern_syntactic) - since the repairs 1fdcd07 / 56f413c the engine's FILTER and BIND evaluation
     coincide with the algebra's otherwise (C01_filter_is_algebra, C01_bind_is_algebra);
   - stage 3 PROVED: C01_answer (SELECT [DISTINCT] .. [ORDER BY] without LIMIT / aggregates: multiset of rows and key
     order), C01_answer_agg (the same with GROUP BY / aggregates in the legal shape), C01_answer_limit (LIMIT with or without
     ORDER BY is a legal cut), the aggregate values (the C01_agg theorems), C01_cut_determined / C01_cut_is_algebra (sub-select with
     ORDER BY + LIMIT over keys that determine the row), C01_order_by, C01_distinct, C01_limit, C01_groups;
   - NOT proved (_partial, correspondence against the executable Spec only), exactly:
     (p1) sub-selects with a LIMIT as part of C01_pattern: C01_cut_determined / C01_cut_is_algebra state the result under
          conditions on the solutions (transitive comparator, keys determine the projected row, the two comparators agree) that
          are not syntactic, so fragB / ok_in keep excluding LIMIT; sub-selects that aggregate outside the legal shape (a projected
          variable that is neither a group key nor an alias, SELECT star with GROUP BY, repeated aliases); LIMIT together with
          aggregates at top level (C01_answer_limit is for queries without aggregates); the decimal rendering of AVG (model and
          Spec carry the exact rational; compared numerically, 1e-9, top level only, in the check);
     (p2) FILTER / BIND inside GRAPH ?g that mention ?g while the group's own pattern binds ?g (when it does not, such a
          FILTER is not wellscoped and outside the property);
     (p3) single-element groups nested twice or more around a lone BIND ({ { BIND } } as an element of a group); the other
          cases of single-element groups are settled: a nested group consisting of a single BIND of constants is proved whatever
          binds its target (the repaired C01-bind-target-sibling), with a variable argument - or consisting of a single
          FILTER, which always mentions a variable - it is not wellscoped (the group binds nothing) and outside the property;
     (p4) ORDER BY keys over columns that mix numbers with other terms or are partly unbound (C01_answer_sorted,
          C01_answer_limit and C01_cut_* assume the comparator transitive on the solutions at hand: trans_on, decidable,
          C01_example_sorted), ordering comparisons on non-integers, aggregated variables with non-integer values. *)
Require Import KV.Sparql.Base KV.Sparql.Syntax KV.Sparql.MuProofs KV.Sparql.JoinProofs KV.Sparql.Algebra KV.Sparql.Engine
        KV.Sparql.Lowering KV.Sparql.PlanEquiv KV.Sparql.Sem KV.Sparql.Bridge KV.Sparql.Classes KV.Sparql.ScanProofs
        KV.Sparql.SemProofs KV.Sparql.ExecLemmas KV.Sparql.BridgeProofs KV.Sparql.IdemProofs KV.Sparql.Typing KV.Sparql.TypingProofs KV.Sparql.EngineProofs KV.Sparql.PlanProofs
        KV.Sparql.PatternProofs KV.Sparql.ModifierProofs KV.Sparql.AggProofs KV.Sparql.CutProofs KV.Sparql.BridgeMain.
Require Import Permutation Sorted.

(* Stage 1, the input-propagation lemma: executing any plan the optimizer may emit for l on incoming rows that bind at
   most `inb` is joining those rows with the denotation of l.  (ok_in: the complement of the class
   C01-undef-filter-sibling, computed on the lowered query; a BIND target may be bound by an incoming row since 1fdcd07.) *)
Theorem C01_exec_input_join :
  forall st ev, named_nodup ev -> store_sets st ->
  forall l p, implementsb l p = true ->
  forall inb active inc, ok_in inb l = true -> all_wf inc -> dom_in inb inc ->
    exec st ev active p inc ≡ₚ join inc (sem st ev active l).
Proof. exact exec_sem. Qed.
Print Assumptions C01_exec_input_join.

(* The lowering (parser tree + build_logical_plan_from_group_in_scope: filters deferred to the end of their group, BIND
   in place, graph scope carried on scans) denotes the algebra's evaluation of the syntax tree, over the dataset view
   (default graph = duplicate-free merge of the FROM graphs, named = visible catalogued graphs, GRAPH ?g ranging over
   every visible graph including empty ones).
   fragB: no sub-select under GRAPH ?g (class C01-subselect-in-graph-var), sub-selects without aggregate / GROUP BY / LIMIT,
   nested single-element groups only of a constant BIND with a fresh target, see Bridge.v.
   agree: the engine's FILTER evaluation and its BIND agree with the algebra's on the rows the algebra feeds them.  Since the
   repairs 56f413c (three-valued FILTER) and 1fdcd07 (CONCAT) this only fails when an ordering comparison sees a non-integer
   (the engine reads it as 0, the algebra raises a type error) or when a BIND target is already in scope in its own group (not
   legal SPARQL, not wellscoped): C01_agree_syntactic below. *)
Theorem C01_lowering_is_algebra : forall ds q, dataset_ok ds ->
  let vw := mk_view ds (q_from q) (q_from_named q) in
  let ev := mk_eview ds (q_from q) (q_from_named q) in
  let w := sel_where (q_sel q) in
  fragB None w = true -> agree vw None w = true ->
  sem ds ev None (lower_query (q_sel q)) ≡ₚ eval vw None w.
Proof. exact lowering_is_algebra. Qed.
Print Assumptions C01_lowering_is_algebra.

(* C01_pattern: for every dataset and every query of the proved fragment, EVERY physical plan the optimizer may emit
   produces exactly the solution multiset the SPARQL algebra assigns to the WHERE pattern. *)
Theorem C01_pattern : forall ds q p, dataset_ok ds ->
  let vw := mk_view ds (q_from q) (q_from_named q) in
  let ev := mk_eview ds (q_from q) (q_from_named q) in
  proved_fragment q = true ->
  agree vw None (sel_where (q_sel q)) = true ->
  implementsb (lower_query (q_sel q)) p = true ->
  exec ds ev None p [[]] ≡ₚ eval vw None (sel_where (q_sel q)).
Proof. exact pattern_correct. Qed.
Print Assumptions C01_pattern.

(* The semantic hypothesis `agree` follows from syntactic ones: noerr (all that is left of it: a BIND target is not in scope
   before the BIND in its own group - SPARQL's restriction on BIND) and typed (ordering comparisons see integers only: integer constants, and every
   binding occurrence of a compared variable is the object of a pattern whose constant predicate has only integer objects in
   the dataset view, or an integer / UNDEF VALUES column). *)
Theorem C01_agree_syntactic : forall vw w, fragB None w = true -> noerr w = true -> typed vw w = true -> agree vw None w = true.
Proof. exact agree_of_noerr_typed. Qed.
Print Assumptions C01_agree_syntactic.

(* C01_pattern with decidable syntactic hypotheses on the query plus the typing condition on the dataset view *)
Theorem C01_pattern_syntactic : forall ds q p, dataset_ok ds ->
  let vw := mk_view ds (q_from q) (q_from_named q) in
  let ev := mk_eview ds (q_from q) (q_from_named q) in
  let w := sel_where (q_sel q) in
  proved_fragment q = true -> noerr w = true -> typed vw w = true ->
  implementsb (lower_query (q_sel q)) p = true ->
  exec ds ev None p [[]] ≡ₚ eval vw None w.
Proof. exact pattern_correct_syntactic. Qed.
Print Assumptions C01_pattern_syntactic.

(* Scoping: a solution of a pattern binds only variables the pattern can bind (`sposs`: the in-scope variables). *)
Theorem C01_scope : forall vw p active m x t, In m (eval vw active p) -> lookup m x = Some t -> In x (sposs p).
Proof. exact eval_scope. Qed.
Print Assumptions C01_scope.

(* The nested group { BIND(CONCAT(constants) AS ?v) }: the parser flattens it into the enclosing group, where the engine
   binds ?v in place or - when a row binds ?v already - keeps the row only if the values agree (since 1fdcd07); that IS the
   algebra's join with the group's one-row answer, whatever the rows bind (the repaired finding C01-bind-target-sibling).
   Used by C01_pattern through fragB / lone_bind_ok. *)
Theorem C01_const_bind_group : forall vw active args v G,
  barg_vars args = [] -> all_wf G ->
  join G (eval vw active (PGroup [PBind args v])) = flat_map (ebind args v) G.
Proof. exact const_bind_group. Qed.
Print Assumptions C01_const_bind_group.

(* SELECT star in a sub-select: the projection on the variables of the pattern (in order of first occurrence) changes no
   solution - which is why the engine, which does not project there, agrees.  Used by C01_pattern through simple_sel. *)
Theorem C01_select_star : forall vw active w m, In m (eval vw active w) -> restrict (star_cols w []) m = m.
Proof. exact select_star_id. Qed.
Print Assumptions C01_select_star.

(* The two open findings, on the model: each witness is implemented by the default plan, lies in its class, and the
   model's answer is NOT the algebra's. *)
Theorem C01_subselect_in_graph_var_refuted :
  wimpl wq_a = true /\ in_class 1 wq_a = true /\ ~ Permutation (wrun wds1 wq_a) (wspec wds1 wq_a).
Proof. exact refuted_a. Qed.
Print Assumptions C01_subselect_in_graph_var_refuted.
Theorem C01_undef_filter_sibling_refuted :
  wimpl wq_b = true /\ in_class 2 wq_b = true /\ ~ Permutation (wrun wds0 wq_b) (wspec wds0 wq_b).
Proof. exact refuted_b. Qed.
Print Assumptions C01_undef_filter_sibling_refuted.

(* Regressions for the repaired findings C01-bind-target-sibling, C01-bind-arg-unbound (fix 1fdcd07) and C01-not-of-error (fix
   56f413c): each witness is now inside the hypotheses of C01_pattern, the model's answer is the algebra's, and the repaired
   component differs from its pre-fix variant (bind_row: CONCAT read an unbound argument as "" and overwrote the target;
   cond_eval_2v: two-valued FILTER evaluation, `!` of an erroring comparison true). *)
Theorem C01_bind_target_sibling_regression :
  wimpl wq_c = true /\ proved_fragment wq_c = true /\ agree (mk_view wds1 [] []) None (sel_where (q_sel wq_c)) = true /\
  wrun wds1 wq_c = wspec wds1 wq_c /\ wspec wds1 wq_c = [] /\
  ebind [BC "zz"%string] 1%N [(0%N, E "s1"); (1%N, E "s2")] = [] /\
  bind_row [BC "zz"%string] 1%N [(0%N, E "s1"); (1%N, E "s2")] = [(0%N, E "s1"); (1%N, "zz"%string)].
Proof. exact fixed_c. Qed.
Print Assumptions C01_bind_target_sibling_regression.
Theorem C01_not_of_error_regression :
  wimpl wq_d = true /\ proved_fragment wq_d = true /\ agree (mk_view wds1 [] []) None (sel_where (q_sel wq_d)) = true /\
  wrun wds1 wq_d = wspec wds1 wq_d /\ wspec wds1 wq_d = [] /\
  let f := ENot (ECmp OEq 1%N (TC (E "s2"))) in let row := [(0%N, E "s1"); (2%N, "5"%string)] in
  cond_eval f row = false /\ holds f row = false /\ cond_eval_2v f row = true.
Proof. exact fixed_d. Qed.
Print Assumptions C01_not_of_error_regression.
Theorem C01_bind_arg_unbound_regression :
  wimpl wq_e = true /\ proved_fragment wq_e = true /\ agree (mk_view wds0 [] []) None (sel_where (q_sel wq_e)) = true /\
  wrun wds0 wq_e = wspec wds0 wq_e /\ wspec wds0 wq_e = [[(0%N, "zz"%string); (5%N, "zzx"%string)]; []] /\
  ebind [BV 0%N; BC "x"%string] 5%N [] = [[]] /\ bind_row [BV 0%N; BC "x"%string] 5%N [] = [(5%N, "x"%string)].
Proof. exact fixed_e. Qed.
Print Assumptions C01_bind_arg_unbound_regression.

(* The engine's three-valued FILTER evaluation IS the algebra's wherever ordering comparisons see integers only (the engine
   reads a non-number as 0 in an ordering comparison, the algebra raises a type error) ... *)
Theorem C01_filter_is_algebra : forall e m,
  (forall x t, In x (ord_vars_e e) -> lookup m x = Some t -> is_int t = true) -> ord_consts_e e = true ->
  cond_eval3 e m = eval_expr e m.
Proof. exact expr_agree3. Qed.
Print Assumptions C01_filter_is_algebra.

(* ... and BIND on a row that does not bind the target is the algebra's extend - including the error case: an unbound
   argument leaves the target unbound. *)
Theorem C01_bind_is_algebra : forall args v m, lookup m v = None -> ebind args v m = [extend args v m].
Proof. exact ebind_extend. Qed.
Print Assumptions C01_bind_is_algebra.

(* Regression for the repaired finding C01-group-by-without-aggregate (fix bc03712): a top-level GROUP BY without an
   aggregate yields one row per group, the algebra's answer; the pre-fix behaviour (no grouping) yields three rows. *)
Theorem C01_group_by_regression :
  finalize_select wsel_gb wrows_gb = render (columns wsel_gb) (modifiers wsel_gb wrows_gb) /\
  List.length (finalize_select wsel_gb wrows_gb) = 2%nat /\
  List.length (eaggregate false (Some [PVar 0%N]) [0%N] wrows_gb) = 3%nat.
Proof. exact group_by_regression. Qed.
Print Assumptions C01_group_by_regression.

(* Regression for the repaired finding C01-empty-sum-negative-zero (fix 15674d8). *)
Theorem C01_empty_sum_regression : forall x, eagg_value ASum x [] = Some "0"%string /\ agg_value ASum x [] = Some "0"%string /\ "-0"%string <> "0"%string.
Proof. exact empty_sum_regression. Qed.
Print Assumptions C01_empty_sum_regression.

(* ... and each open witness violates a hypothesis of C01_pattern *)
Theorem C01_witnesses_outside : proved_fragment wq_a = false /\ proved_fragment wq_b = false.
Proof. exact witnesses_outside. Qed.
Print Assumptions C01_witnesses_outside.

(* Stage 3.  The final answer of SELECT [DISTINCT] cols .. [ORDER BY] (no aggregate, no cut), as finalize_select computes
   it from solutions that are a permutation of the algebra's, is the algebra's answer as a multiset of rows ... *)
Theorem C01_answer : forall s rows rows', plain_sel s = true -> rows ≡ₚ rows' ->
  finalize_select s rows ≡ₚ render (columns s) (modifiers s rows').
Proof. exact answer_nolimit. Qed.
Print Assumptions C01_answer.

(* ... and its row sequence is sorted by the ORDER BY keys.  trans_on ob rows: the comparator is transitive on the solutions at
   hand - it is not on arbitrary rows (numbers compare numerically, everything else lexically), it is on homogeneous key columns;
   trans_onb decides it (C01_trans_decidable), C01_example_sorted is an instance. *)
Theorem C01_answer_sorted : forall s rows, plain_sel s = true ->
  let ob := match s with Sel _ _ _ _ ob _ => ob end in
  trans_on ob rows ->
  exists seq, finalize_select s rows = render (columns s) seq /\ StronglySorted (ob_le ob) seq.
Proof. exact answer_sorted. Qed.
Print Assumptions C01_answer_sorted.

Theorem C01_trans_decidable : forall ob l, trans_onb ob l = true -> trans_on ob l.
Proof. exact trans_onb_spec. Qed.
Print Assumptions C01_trans_decidable.

(* ... and with LIMIT (with or without ORDER BY; without, the comparator is trivially transitive: ob_le_nil_trans): the rows
   returned are the first min(n, total) rows of SOME sequence that is sorted by the keys and is, rendered, a permutation of the
   algebra's full answer before the cut - a legal cut. *)
Theorem C01_answer_limit : forall s rows rows', noagg_sel s = true -> rows ≡ₚ rows' ->
  let ob := match s with Sel _ _ _ _ ob _ => ob end in
  let lim := match s with Sel _ _ _ _ _ l => l end in
  trans_on ob rows ->
  exists seq,
    finalize_select s rows = apply_limit_rows lim (render (columns s) seq) /\
    render (columns s) seq ≡ₚ render (columns s) (modifiers (nolimit_sel s) rows') /\
    StronglySorted (ob_le ob) seq.
Proof. exact answer_limit. Qed.
Print Assumptions C01_answer_limit.

Theorem C01_no_order_transitive : forall l, trans_on [] l.
Proof. exact ob_le_nil_trans. Qed.
Print Assumptions C01_no_order_transitive.

(* ---- aggregation: GROUP BY + SUM / MIN / MAX (AVG: see the end of this comment) in the legal SPARQL shape ----
   agg_shape pr gb: an explicit projection of group keys and aggregate aliases; aliases pairwise different and no group key.
   What the aggregates are: folds over the integer values of the group ... *)
Theorem C01_agg_value_folds : forall x ms,
  agg_value ASum x ms = Some (show_int (fold_left Z.add (int_values x ms) 0%Z)) /\
  agg_value AMin x ms = option_map show_int (match int_values x ms with [] => None | v :: r => Some (fold_left Z.min r v) end) /\
  agg_value AMax x ms = option_map show_int (match int_values x ms with [] => None | v :: r => Some (fold_left Z.max r v) end).
Proof. exact agg_value_folds. Qed.
Print Assumptions C01_agg_value_folds.

(* ... the engine's row of a group (its FIRST row with the aggregate outputs inserted, or removed when there is no value)
   holds, under every alias, that fold over the group, and under every group key the key value (C01_groups: the groups are
   the classes of equal key, one row per group) ... *)
Theorem C01_agg_group_row : forall aggs gb, NoDup (map alias_of aggs) -> (forall a, In a aggs -> ~ In (alias_of a) gb) ->
  forall k ms,
    (forall kk x al, In (kk, x, al) aggs -> lookup (erow aggs (k, ms)) al = agg_value kk x ms) /\
    (forall v, In v gb -> lookup (erow aggs (k, ms)) v = lookup (match ms with m :: _ => m | [] => [] end) v).
Proof. exact erow_values. Qed.
Print Assumptions C01_agg_group_row.

(* ... so on the projected columns the engine's aggregated rows ARE the algebra's (same input sequence; the representative
   row only shows through the group keys, which are equal throughout the group) ... *)
Theorem C01_agg_same_input : forall pr gb rows, agg_shape pr gb = true -> all_wf rows ->
  map (restrict (pcols pr)) (eaggregate true pr gb rows) = map (restrict (pcols pr)) (aggregate pr gb rows).
Proof. exact agg_same_input. Qed.
Print Assumptions C01_agg_same_input.

(* ... the algebra's aggregated rows do not depend on the order of the solutions ... *)
Theorem C01_aggregate_order_independent : forall pr gb cols rows rows', rows ≡ₚ rows' ->
  map (restrict cols) (aggregate pr gb rows) ≡ₚ map (restrict cols) (aggregate pr gb rows').
Proof. exact aggregate_perm. Qed.
Print Assumptions C01_aggregate_order_independent.

(* ... hence the final answer with GROUP BY / aggregates (no LIMIT) is the algebra's as a multiset of rows, and so is the
   result of a sub-select (which is why such sub-selects are inside fragB / ok_in, i.e. inside C01_pattern).
   AVG: model and Spec carry the exact rational; the implementation's decimal rendering is compared with it numerically
   (1e-9, top level only) in the correspondence check - not a theorem. *)
Theorem C01_answer_agg : forall s rows rows', agg_sel s = true -> all_wf rows -> rows ≡ₚ rows' ->
  finalize_select s rows ≡ₚ render (columns s) (modifiers s rows').
Proof. exact answer_agg. Qed.
Print Assumptions C01_answer_agg.

Theorem C01_subselect_agg : forall d pr w gb ob rows rows', agg_shape pr gb = true -> all_wf rows -> rows ≡ₚ rows' ->
  finalize_subquery {| ss_proj := pr; ss_distinct := d; ss_group := gb; ss_order := ob; ss_limit := None |} rows
  ≡ₚ modifiers (Sel d pr w gb ob None) rows'.
Proof. exact subquery_agg. Qed.
Print Assumptions C01_subselect_agg.

(* ---- a sub-select with ORDER BY + LIMIT whose keys are projected variables and determine the projected row ----
   cut_sub s: explicit projection, no aggregation, every ORDER BY key projected.  On solutions where the engine's comparator
   is transitive and two projected rows that compare Eq are equal, the sorted sequence of projected rows is unique: the result
   does not depend on the order of the input (i.e. on the plan) ... *)
Theorem C01_cut_determined : forall s rows rows', cut_sub s = true -> rows ≡ₚ rows' ->
  trans_on (ss_order s) rows ->
  (forall x y, In x (map (restrict (pcols (ss_proj s))) rows) -> In y (map (restrict (pcols (ss_proj s))) rows) ->
               erow_cmp (ss_order s) x y = Eq -> x = y) ->
  finalize_subquery s rows = finalize_subquery s rows'.
Proof. exact cut_determined. Qed.
Print Assumptions C01_cut_determined.

(* ... and, where the algebra's comparator agrees with the engine's on the solutions, it is the algebra's
   Slice(Distinct(Project(OrderBy ...))) as a SEQUENCE. *)
Theorem C01_cut_is_algebra : forall d items w ob lim rows rows',
  let s := {| ss_proj := Some items; ss_distinct := d; ss_group := []; ss_order := ob; ss_limit := lim |} in
  cut_sub s = true -> rows ≡ₚ rows' ->
  trans_on ob rows ->
  (forall x y, In x (map (restrict (pcols (Some items))) rows) -> In y (map (restrict (pcols (Some items))) rows) ->
               erow_cmp ob x y = Eq -> x = y) ->
  (forall a b, In a rows' -> In b rows' -> row_cmp ob a b = erow_cmp ob a b) ->
  finalize_subquery s rows = modifiers (Sel d (Some items) w [] ob lim) rows'.
Proof. exact cut_is_algebra. Qed.
Print Assumptions C01_cut_is_algebra.

(* ORDER BY (apply_order_by / apply_subquery_order): a permutation of its input in which no row sorts after its successor. *)
Theorem C01_order_by : forall ob l, esort ob l ≡ₚ l /\ Sorted (ob_le ob) (esort ob l).
Proof. exact (fun ob l => conj (esort_perm ob l) (esort_sorted ob l)). Qed.
Print Assumptions C01_order_by.

(* DISTINCT on the projected columns: pairwise different projections, a sub-list of the input, every input row represented. *)
Theorem C01_distinct : forall cols rows,
  let out := dedup (proj_eq cols) rows in
  NoDup (map (restrict cols) out) /\
  (forall r, In r out -> In r rows) /\
  (forall r, In r rows -> exists r', In r' out /\ restrict cols r' = restrict cols r).
Proof. exact distinct_spec. Qed.
Print Assumptions C01_distinct.

(* LIMIT n: the first min(n, length) rows of the (ordered, distinct-ed) sequence - a legal cut of it. *)
Theorem C01_limit : forall n (l : list mu),
  exists rest, l = firstn n l ++ rest /\ List.length (firstn n l) = Nat.min n (List.length l).
Proof. exact (@limit_prefix mu). Qed.
Print Assumptions C01_limit.

(* GROUP BY: the groups are exactly the non-empty classes of input rows with equal key, each in input order (the
   aggregates are folds over these lists: eagg_value / agg_value). *)
Theorem C01_groups : forall gb rows k ms,
  In (k, ms) (groups_of gb rows) <-> (ms <> [] /\ ms = filter (fun m => key_eqb (group_key gb m) k) rows).
Proof. exact groups_of_spec. Qed.
Print Assumptions C01_groups.

(* non-vacuity of C01_pattern: GRAPH ?g, UNION, VALUES with UNDEF, FILTER, BIND and a DISTINCT / ORDER BY sub-select *)
Example C01_example :
  proved_fragment wq_ok = true /\ agree (mk_view wds1 [] []) None (sel_where (q_sel wq_ok)) = true /\
  wimpl wq_ok = true /\ List.length (wspec wds1 wq_ok) = 3%nat.
Proof. exact example_ok. Qed.

(* non-vacuity of the extensions: a nested constant-BIND group and a DISTINCT / ORDER BY sub-select with SELECT star and an
   ordering FILTER satisfy the syntactic hypotheses of C01_pattern_syntactic *)
Example C01_example_extensions :
  proved_fragment wq_ok2 = true /\ noerr (sel_where (q_sel wq_ok2)) = true /\ typed (mk_view wds1 [] []) (sel_where (q_sel wq_ok2)) = true /\
  wimpl wq_ok2 = true /\ wspec wds1 wq_ok2 = [[(0%N, E "s1"); (1%N, E "s2"); (2%N, "5"%string); (5%N, "kx"%string)]].
Proof. exact example_ok2. Qed.

(* non-vacuity: a GROUP BY sub-select with SUM and MIN in the legal shape is inside the proved fragment *)
Example C01_example_aggregate :
  proved_fragment wq_ok3 = true /\ noerr (sel_where (q_sel wq_ok3)) = true /\ typed (mk_view wds1 [] []) (sel_where (q_sel wq_ok3)) = true /\
  wimpl wq_ok3 = true /\ wspec wds1 wq_ok3 = [[(0%N, E "s1"); (1%N, E "s2"); (10%N, "5"%string); (11%N, "5"%string)]].
Proof. exact example_ok3. Qed.

(* non-vacuity of the hypotheses on the comparator: integer keys - transitive, Eq only between equal projected rows, and the
   algebra's comparator agrees *)
Example C01_example_sorted :
  let rows := [[(0%N, "10"); (1%N, E "s1")]; [(0%N, "9"); (1%N, E "s2")]; [(0%N, "10"); (1%N, E "s3")]]%string in
  let ob := [(0%N, false)] in
  trans_on ob rows /\
  (forall x y, In x (map (restrict [0%N]) rows) -> In y (map (restrict [0%N]) rows) -> erow_cmp ob x y = Eq -> x = y) /\
  (forall a b, In a rows -> In b rows -> row_cmp ob a b = erow_cmp ob a b).
Proof.
  cbv zeta. split; [apply trans_onb_spec; vm_compute; reflexivity|]. split.
  - intros x y Hx Hy. cbn in Hx, Hy. destruct Hx as [<-|[<-|[<-|[]]]]; destruct Hy as [<-|[<-|[<-|[]]]]; vm_compute; intro H; try reflexivity; discriminate H.
  - intros a b Ha Hb. cbn in Ha, Hb. destruct Ha as [<-|[<-|[<-|[]]]]; destruct Hb as [<-|[<-|[<-|[]]]]; vm_compute; reflexivity.
Qed.
