(* Solution mappings, compatibility, merge and the join of two solution multisets.
   Shared by the Spec (Algebra.v) and the model (Engine.v).
   A term is its lexical string: Kolibrie's dictionary keeps no term kinds, and the dictionary itself is
   abstracted to an injective map (justified by the C15 theorems), so ids are replaced by what they denote.
   A solution mapping is an association list sorted by variable number without repeated keys (`wf`),
   so that equal mappings are equal lists and multisets of mappings are lists up to Permutation. *)
Require Export List NArith ZArith String Bool.
Export ListNotations.

Definition var := N.
Definition term := string.
Definition term_eqb : term -> term -> bool := String.eqb.

Definition mu := list (var * term).

Fixpoint lookup (m : mu) (x : var) : option term :=
  match m with
  | [] => None
  | (k, v) :: r => if N.eqb k x then Some v else lookup r x
  end.

(* sorted insertion; an existing binding of x is replaced *)
Fixpoint insert (x : var) (t : term) (m : mu) : mu :=
  match m with
  | [] => [(x, t)]
  | (k, v) :: r =>
      match N.compare x k with
      | Lt => (x, t) :: m
      | Eq => (x, t) :: r
      | Gt => (k, v) :: insert x t r
      end
  end.

Fixpoint remove (x : var) (m : mu) : mu :=
  match m with
  | [] => []
  | (k, v) :: r => if N.eqb k x then remove x r else (k, v) :: remove x r
  end.

Definition dom (m : mu) : list var := map fst m.
Definition bound (m : mu) (x : var) : bool := match lookup m x with Some _ => true | None => false end.

(* two mappings are compatible when they agree on every shared variable *)
Fixpoint compatible (a b : mu) : bool :=
  match a with
  | [] => true
  | (k, v) :: r =>
      match lookup b k with
      | Some w => term_eqb v w && compatible r b
      | None => compatible r b
      end
  end.

(* a ∪ b for compatible a, b: a's bindings, then those of b that a lacks *)
Definition merge (a b : mu) : mu :=
  fold_left (fun acc kv => match lookup acc (fst kv) with Some _ => acc | None => insert (fst kv) (snd kv) acc end) b a.

Definition merge_rows (a b : mu) : option mu :=
  if compatible a b then Some (merge a b) else None.

Definition opt_list {A} (o : option A) : list A := match o with Some x => [x] | None => [] end.

(* Join(Ω1, Ω2) = { merge μ1 μ2 | μ1 in Ω1, μ2 in Ω2 compatible }, with multiplicities *)
Definition join (A B : list mu) : list mu :=
  flat_map (fun a => flat_map (fun b => opt_list (merge_rows a b)) B) A.

(* keep the bindings of the listed variables *)
Definition restrict (vs : list var) (m : mu) : mu :=
  filter (fun kv => existsb (N.eqb (fst kv)) vs) m.

Definition mem_var (x : var) (vs : list var) : bool := existsb (N.eqb x) vs.

Fixpoint mu_eqb (a b : mu) : bool :=
  match a, b with
  | [], [] => true
  | (k, v) :: r, (k', v') :: r' => N.eqb k k' && term_eqb v v' && mu_eqb r r'
  | _, _ => false
  end.

(* numbers: integer literals in decimal notation (the f64 of the implementation is modelled by Z
   on the integers the generated cases use) *)
Require Import DecimalString Decimal.
Definition parse_int (s : term) : option Z := option_map Z.of_int (NilZero.int_of_string s).
Definition show_int (z : Z) : term := NilZero.string_of_int (Z.to_int z).
