(* Same-scope scan groups: their denotation is the join of the scans in any order; a left-deep physical tree over
   the scans (any join algorithm per node) and the star plan compute that join from any incoming rows. *)
Require Import KV.Sparql.Base KV.Sparql.Syntax KV.Sparql.MuProofs KV.Sparql.JoinProofs KV.Sparql.Algebra KV.Sparql.Engine
        KV.Sparql.PlanEquiv KV.Sparql.Sem KV.Sparql.ScanProofs KV.Sparql.HashProofs KV.Sparql.SemProofs KV.Sparql.ExecLemmas KV.Sparql.IdemProofs.
Require Import Lia Permutation.

Section Groups.
  Variables (st : dataset) (ev : eview) (active : option term).
  Hypothesis ND : named_nodup ev.
  Hypothesis SS : store_sets st.

  Definition S (q : qpat) : list mu := scan_row st ev active q [].
  Definition bj (qs : list qpat) : list mu := fold_right (fun q acc => join (S q) acc) [[]] qs.

  Lemma S_wf : forall q, all_wf (S q).
  Proof. intro q. apply scan_row_wf. exact I. Qed.

  Lemma bj_wf : forall qs, all_wf (bj qs).
  Proof. induction qs as [|q r IH]; cbn; [constructor; [exact I | constructor] | apply join_wf; apply S_wf]. Qed.

  Lemma bj_app : forall a b, bj (a ++ b) ≡ₚ join (bj a) (bj b).
  Proof.
    induction a as [|q r IH]; intros b; cbn [app bj fold_right].
    - rewrite join_unit_l by apply bj_wf. auto.
    - fold (bj (r ++ b)). fold (bj r).
      eapply perm_trans; [apply join_perm_r; apply IH|].
      rewrite join_assoc; auto using S_wf, bj_wf.
  Qed.

  Lemma bj_perm : forall a b, Permutation a b -> bj a ≡ₚ bj b.
  Proof.
    induction 1; cbn [bj fold_right]; auto.
    - apply join_perm_r. exact IHPermutation.
    - fold (bj l).
      rewrite <- !join_assoc; auto using S_wf, bj_wf.
      apply join_perm_l. apply join_comm; apply S_wf.
    - eapply perm_trans; eauto.
  Qed.

  Lemma bj_single : forall q, bj [q] = S q.
  Proof. intro q. cbn. apply join_unit_r. Qed.

  (* the denotation of a scan group *)
  Lemma sem_group : forall l sc, scan_scope l = Some sc -> sem st ev active l ≡ₚ bj (flatten_scans l).
  Proof.
    induction l; intros sc H; cbn [scan_scope] in H; try discriminate.
    - cbn [sem flatten_scans]. rewrite bj_single. auto.
    - destruct (scan_scope l1) eqn:E1; [|discriminate]. destruct (scan_scope l2) eqn:E2; [|discriminate].
      cbn [sem flatten_scans]. eapply perm_trans; [|apply Permutation_sym; apply bj_app].
      apply join_perm; eauto.
  Qed.

  (* permutation test *)
  Lemma remove_one_perm : forall q l l', remove_one q l = Some l' -> Permutation l (q :: l').
  Proof.
    induction l as [|x r IH]; intros l' H; cbn in H; [discriminate|].
    destruct (qpat_eqb q x) eqn:E.
    - apply qpat_eqb_eq in E. inversion H; subst. auto.
    - destruct (remove_one q r) as [r'|] eqn:Er; [|discriminate]. inversion H; subst.
      eapply perm_trans; [apply perm_skip; apply IH; reflexivity | apply perm_swap].
  Qed.

  Lemma perm_b_perm : forall a b, perm_b a b = true -> Permutation a b.
  Proof.
    induction a as [|x r IH]; intros b H; cbn in H.
    - destruct b; [auto | discriminate].
    - destruct (remove_one x b) as [b'|] eqn:E; [|discriminate].
      eapply perm_trans; [apply perm_skip; apply IH; exact H|]. apply Permutation_sym. apply remove_one_perm. exact E.
  Qed.

  (* executing a scan with incoming rows *)
  Lemma exec_scan_rows : forall q inc, all_wf inc -> scan st ev active q inc ≡ₚ join inc (S q).
  Proof. intros. apply scan_seed; auto. Qed.

  Lemma scan_unit : forall q, scan st ev active q [[]] = S q.
  Proof. intro q. unfold scan. cbn [flat_map]. apply app_nil_r. Qed.

  Lemma is_scan_exec : forall p q inc, (p = XTableScan q \/ p = XIndexScan q) -> exec st ev active p inc = scan st ev active q inc.
  Proof. intros p q inc [E|E]; subst; [apply exec_XTableScan | apply exec_XIndexScan]. Qed.

  (* one more scan joined to what a plan already computes, by any of the three algorithms *)
  Lemma join_step : forall (mk : pop -> pop -> pop) l r q qs inc,
    (mk = XBindJoin \/ mk = XHashJoin \/ mk = XNLJoin) ->
    (r = XTableScan q \/ r = XIndexScan q) ->
    all_wf inc ->
    exec st ev active l inc ≡ₚ join inc (bj qs) ->
    exec st ev active (mk l r) inc ≡ₚ join inc (bj (qs ++ [q])).
  Proof.
    intros mk l r q qs inc Hmk Hr W IH.
    assert (WL : all_wf (exec st ev active l inc)).
    { eapply all_wf_perm; [apply Permutation_sym; exact IH|]. apply join_wf; auto. }
    assert (G : join (exec st ev active l inc) (S q) ≡ₚ join inc (bj (qs ++ [q]))).
    { eapply perm_trans; [apply join_perm_l; exact IH|].
      rewrite join_assoc; auto using S_wf, bj_wf. apply join_perm_r.
      eapply perm_trans; [|apply Permutation_sym; apply bj_app]. rewrite bj_single. auto. }
    destruct Hmk as [E|[E|E]]; subst mk.
    - rewrite exec_XBindJoin, (is_scan_exec r q _ Hr).
      eapply perm_trans; [apply exec_scan_rows; auto | exact G].
    - rewrite exec_XHashJoin, (is_scan_exec r q _ Hr), scan_unit.
      eapply perm_trans; [apply hash_join_eq_nested; auto using S_wf|]. rewrite nl_join_eq_join. exact G.
    - rewrite exec_XNLJoin, (is_scan_exec r q _ Hr), scan_unit. rewrite nl_join_eq_join. exact G.
  Qed.

  Lemma exec_left_deep : forall p qs, left_deep_scans p = Some qs ->
    forall inc, all_wf inc -> exec st ev active p inc ≡ₚ join inc (bj qs).
  Proof.
    induction p; intros qs H inc W; cbn [left_deep_scans] in H; try discriminate.
    - inversion H; subst. rewrite exec_XTableScan, bj_single. apply exec_scan_rows; auto.
    - inversion H; subst. rewrite exec_XIndexScan, bj_single. apply exec_scan_rows; auto.
    - destruct p2; try discriminate;
        (destruct (left_deep_scans p1) as [qs1|] eqn:E; [|discriminate]; inversion H; subst;
         apply (join_step XBindJoin); auto).
    - destruct p2; try discriminate;
        (destruct (left_deep_scans p1) as [qs1|] eqn:E; [|discriminate]; inversion H; subst;
         apply (join_step XHashJoin); auto).
    - destruct p2; try discriminate;
        (destruct (left_deep_scans p1) as [qs1|] eqn:E; [|discriminate]; inversion H; subst;
         apply (join_step XNLJoin); auto).
  Qed.

  (* the star plan *)
  Lemma exec_star_fold : forall pats inc, all_wf inc ->
    fold_left (fun rows t => scan st ev active (t, GDefault) rows) pats inc ≡ₚ join inc (bj (map (fun t => (t, GDefault)) pats)).
  Proof.
    induction pats as [|t r IH]; intros inc W; cbn [fold_left map bj fold_right].
    - rewrite join_unit_r. auto.
    - fold (bj (map (fun t => (t, GDefault)) r)).
      assert (W1 : all_wf (scan st ev active (t, GDefault) inc)).
      { eapply all_wf_perm; [apply Permutation_sym; apply exec_scan_rows; auto|]. apply join_wf; auto. }
      eapply perm_trans; [apply IH; auto|].
      eapply perm_trans; [apply join_perm_l; apply exec_scan_rows; auto|].
      rewrite join_assoc; auto using S_wf, bj_wf.
  Qed.

  Lemma exec_star_plan : forall p v pats rest, star_plan p = Some (v, pats, rest) ->
    forall inc, all_wf inc -> exec st ev active p inc ≡ₚ join inc (bj (map (fun t => (t, GDefault)) (pats ++ rest))).
  Proof.
    induction p; intros v0 pats0 rest H inc W; cbn [star_plan] in H; try discriminate.
    - destruct p2; try discriminate. destruct q as [t g]. destruct g; try discriminate.
      destruct (star_plan p1) as [[[v1 pats1] rest1]|] eqn:E; [|discriminate]. inversion H; subst.
      rewrite app_assoc, map_app. cbn [map].
      apply (join_step XBindJoin); auto. eapply IHp1; eauto.
    - inversion H; subst. rewrite app_nil_r. rewrite exec_XStar. apply exec_star_fold; auto.
  Qed.

  (* a pattern of the group may be listed again: joining a scan with itself changes nothing *)
  Lemma S_idem : forall q, join (S q) (S q) ≡ₚ S q.
  Proof. intro q. apply scan_idem; auto. Qed.

  Lemma bj_dup : forall g q, In q g -> bj (g ++ [q]) ≡ₚ bj g.
  Proof.
    intros g q Hq. apply in_split in Hq. destruct Hq as (g1 & g2 & E). subst g.
    assert (P : Permutation (g1 ++ q :: g2) (q :: g1 ++ g2)) by (apply Permutation_sym; apply Permutation_middle).
    eapply perm_trans; [apply bj_app|]. rewrite bj_single.
    eapply perm_trans; [apply join_perm_l; apply bj_perm; exact P|].
    eapply perm_trans; [|apply bj_perm; apply Permutation_sym; exact P].
    cbn [bj fold_right]. fold (bj (g1 ++ g2)).
    eapply perm_trans; [apply join_comm; [apply join_wf; apply S_wf | apply S_wf]|].
    rewrite <- join_assoc by (auto using S_wf, bj_wf).
    apply join_perm_l. apply S_idem.
  Qed.

  Lemma bj_absorb : forall extra g, (forall q, In q extra -> In q g) -> bj (g ++ extra) ≡ₚ bj g.
  Proof.
    induction extra as [|q e IH]; intros g H; [rewrite app_nil_r; auto|].
    change (g ++ q :: e) with (g ++ [q] ++ e). rewrite app_assoc.
    eapply perm_trans; [apply IH|].
    - intros q' Hq'. apply in_or_app. left. apply H. right; auto.
    - apply bj_dup. apply H. left; auto.
  Qed.

  Lemma count_q_in : forall q l, (1 <= count_q q l)%nat -> In q l.
  Proof.
    intros q l H. unfold count_q in H. destruct (filter (qpat_eqb q) l) as [|x r] eqn:E; [cbn in H; lia|].
    assert (Hx : In x (filter (qpat_eqb q) l)) by (rewrite E; left; auto).
    apply filter_In in Hx. destruct Hx as [Hx Hq]. apply qpat_eqb_eq in Hq. subst. exact Hx.
  Qed.

  Lemma remove_group_perm : forall group all extra, remove_group group all = Some extra -> Permutation all (group ++ extra).
  Proof.
    unfold remove_group. induction group as [|q r IH]; intros all extra H; cbn [fold_left] in H.
    - inversion H; subst. auto.
    - destruct (remove_one q all) as [all'|] eqn:E.
      + eapply perm_trans; [apply remove_one_perm; exact E|]. cbn. apply perm_skip. apply IH. exact H.
      + exfalso. clear - H. induction r as [|x r IHr]; cbn in H; [discriminate | auto].
  Qed.

  Lemma star_ok_bj : forall group v pats rest, star_ok group v pats rest = true ->
    bj (map (fun t => (t, GDefault)) (pats ++ rest)) ≡ₚ bj group.
  Proof.
    intros group v pats rest H. unfold star_ok in H. apply andb_true_iff in H. destruct H as [_ H].
    destruct (remove_group group (map (fun t => (t, GDefault)) (pats ++ rest))) as [extra|] eqn:E; [|discriminate].
    apply remove_group_perm in E.
    eapply perm_trans; [apply bj_perm; exact E|]. apply bj_absorb.
    intros q Hq. rewrite forallb_forall in H. specialize (H q Hq). apply Nat.leb_le in H. apply count_q_in. lia.
  Qed.
End Groups.
