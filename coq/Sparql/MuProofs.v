(* Lemmas about solution mappings (sorted association lists), compatibility and merge. *)
Require Import KV.Sparql.Base.
Require Import Lia Permutation.

(* keys strictly increasing *)
Fixpoint wf (m : mu) : Prop :=
  match m with
  | [] => True
  | (k, _) :: r => (forall k', In k' (dom r) -> (k < k')%N) /\ wf r
  end.

Lemma term_eqb_eq : forall a b, term_eqb a b = true <-> a = b.
Proof. intros. apply String.eqb_eq. Qed.
Lemma term_eqb_refl : forall a, term_eqb a a = true.
Proof. intros. apply String.eqb_refl. Qed.
Lemma term_eqb_neq : forall a b, term_eqb a b = false <-> a <> b.
Proof. intros. apply String.eqb_neq. Qed.

Lemma lookup_notin : forall m x, ~ In x (dom m) -> lookup m x = None.
Proof.
  induction m as [|[k v] r IH]; intros x H; cbn in *; auto.
  destruct (N.eqb_spec k x); [exfalso; apply H; auto | apply IH; intro; apply H; auto].
Qed.

Lemma lookup_in_dom : forall m x v, lookup m x = Some v -> In x (dom m).
Proof.
  induction m as [|[k w] r IH]; intros x v H; cbn in *; [discriminate|].
  destruct (N.eqb_spec k x); [left; auto | right; eapply IH; eauto].
Qed.

Lemma in_dom_lookup : forall m x, In x (dom m) -> exists v, lookup m x = Some v.
Proof.
  induction m as [|[k w] r IH]; intros x H; cbn in *; [contradiction|].
  destruct (N.eqb_spec k x); [eauto|]. destruct H; [congruence | auto].
Qed.

Lemma lookup_insert : forall m x t y,
  lookup (insert x t m) y = if N.eqb x y then Some t else lookup m y.
Proof.
  induction m as [|[k v] r IH]; intros x t y; cbn.
  - reflexivity.
  - destruct (N.compare_spec x k) as [E|L|G]; cbn.
    + subst. destruct (N.eqb_spec k y); auto.
    + reflexivity.
    + rewrite IH. destruct (N.eqb_spec k y); destruct (N.eqb_spec x y); subst; auto; lia.
Qed.

Lemma dom_insert : forall m x t y, In y (dom (insert x t m)) <-> y = x \/ In y (dom m).
Proof.
  induction m as [|[k v] r IH]; intros x t y; cbn.
  - intuition.
  - destruct (N.compare_spec x k) as [E|L|G]; cbn.
    + subst. intuition.
    + intuition.
    + rewrite IH. intuition.
Qed.

Lemma wf_insert : forall m x t, wf m -> wf (insert x t m).
Proof.
  induction m as [|[k v] r IH]; intros x t W; cbn in *.
  - split; auto. intros ? [].
  - destruct W as [W1 W2]. destruct (N.compare_spec x k) as [E|L|G]; cbn.
    + subst. split; auto.
    + split; [|split; auto]. intros k' [H|H]; [subst; auto|]. specialize (W1 _ H). lia.
    + split; [|apply IH; auto]. intros k' H. apply dom_insert in H. destruct H; [subst; auto | auto].
Qed.

Lemma wf_tail : forall k v r, wf ((k, v) :: r) -> wf r.
Proof. intros k v r [_ W]; exact W. Qed.

Lemma wf_head_notin : forall k v r, wf ((k, v) :: r) -> lookup r k = None.
Proof.
  intros k v r [W _]. apply lookup_notin. intro H. specialize (W _ H). lia.
Qed.

(* extensionality: well-formed mappings with the same lookups are equal *)
Lemma mu_ext : forall a b, wf a -> wf b -> (forall x, lookup a x = lookup b x) -> a = b.
Proof.
  induction a as [|[k v] r IH]; intros b Wa Wb H.
  - destruct b as [|[k' v'] r']; auto. specialize (H k'). cbn in H. rewrite N.eqb_refl in H. discriminate.
  - destruct b as [|[k' v'] r'].
    + specialize (H k). cbn in H. rewrite N.eqb_refl in H. discriminate.
    + assert (Hk : k = k').
      { destruct (N.lt_trichotomy k k') as [L|[E|G]]; auto.
        - pose proof (H k) as Hk. cbn in Hk. rewrite N.eqb_refl in Hk.
          destruct (N.eqb_spec k' k); [lia|]. symmetry in Hk. apply lookup_in_dom in Hk.
          destruct Wb as [Wb _]. specialize (Wb _ Hk). lia.
        - pose proof (H k') as Hk. cbn in Hk. rewrite N.eqb_refl in Hk.
          destruct (N.eqb_spec k k'); [lia|]. apply lookup_in_dom in Hk.
          destruct Wa as [Wa _]. specialize (Wa _ Hk). lia. }
      subst k'.
      assert (Hv : v = v'). { specialize (H k). cbn in H. rewrite N.eqb_refl in H. congruence. }
      subst v'. f_equal. apply IH; [eapply wf_tail; eauto | eapply wf_tail; eauto |].
      intro x. specialize (H x). cbn in H.
      destruct (N.eqb_spec k x); auto. subst x.
      rewrite (wf_head_notin _ _ _ Wa), (wf_head_notin _ _ _ Wb). reflexivity.
Qed.

(* merge *)
Definition merge_step (acc : mu) (kv : var * term) : mu :=
  match lookup acc (fst kv) with Some _ => acc | None => insert (fst kv) (snd kv) acc end.

Lemma merge_unfold : forall a b, merge a b = fold_left merge_step b a.
Proof. reflexivity. Qed.

Lemma lookup_merge : forall b a x,
  lookup (merge a b) x = match lookup a x with Some v => Some v | None => lookup b x end.
Proof.
  unfold merge. induction b as [|[k v] r IH]; intros a x; cbn.
  - destruct (lookup a x); auto.
  - rewrite IH. destruct (lookup a k) eqn:Ek.
    + destruct (lookup a x) eqn:Ex; auto. destruct (N.eqb_spec k x); auto. subst. congruence.
    + rewrite lookup_insert. destruct (N.eqb_spec k x).
      * subst. rewrite Ek. reflexivity.
      * reflexivity.
Qed.

Lemma wf_merge : forall b a, wf a -> wf (merge a b).
Proof.
  unfold merge. induction b as [|[k v] r IH]; intros a W; cbn; auto.
  apply IH. destruct (lookup a k); auto. apply wf_insert; auto.
Qed.

Lemma merge_nil_r : forall a, merge a [] = a.
Proof. reflexivity. Qed.

Lemma merge_nil_l : forall b, wf b -> merge [] b = b.
Proof.
  intros b W. apply mu_ext; auto.
  - apply wf_merge. exact I.
  - intro x. rewrite lookup_merge. reflexivity.
Qed.

(* compatibility *)
Lemma compatible_spec : forall a b, wf a ->
  (compatible a b = true <-> forall x v w, lookup a x = Some v -> lookup b x = Some w -> v = w).
Proof.
  induction a as [|[k v] r IH]; intros b W; cbn.
  - split; auto. intros _ x v w H; discriminate.
  - pose proof (wf_head_notin _ _ _ W) as Hk. pose proof (wf_tail _ _ _ W) as Wr.
    destruct (lookup b k) eqn:Eb.
    + rewrite andb_true_iff, term_eqb_eq, (IH b Wr). split.
      * intros [E H] x v' w Hx Hw. destruct (N.eqb_spec k x); [subst; congruence | eauto].
      * intro H. split.
        -- eapply (H k); eauto. rewrite N.eqb_refl. reflexivity.
        -- intros x v' w Hx Hw. eapply (H x); eauto.
           destruct (N.eqb_spec k x); auto. subst. congruence.
    + rewrite (IH b Wr). split.
      * intros H x v' w Hx Hw. destruct (N.eqb_spec k x); [subst; congruence | eauto].
      * intros H x v' w Hx Hw. eapply (H x); eauto.
        destruct (N.eqb_spec k x); auto. subst. congruence.
Qed.

Lemma compatible_sym : forall a b, wf a -> wf b -> compatible a b = compatible b a.
Proof.
  intros a b Wa Wb. apply eq_true_iff_eq. rewrite (compatible_spec a b Wa), (compatible_spec b a Wb).
  split; intros H x v w Hx Hw; symmetry; eapply H; eauto.
Qed.

Lemma compatible_nil_r : forall a, compatible a [] = true.
Proof. induction a as [|[k v] r IH]; cbn; auto. Qed.

Lemma merge_comm : forall a b, wf a -> wf b -> compatible a b = true -> merge a b = merge b a.
Proof.
  intros a b Wa Wb C. apply mu_ext; try (apply wf_merge; auto).
  intro x. rewrite !lookup_merge.
  destruct (lookup a x) eqn:Ea, (lookup b x) eqn:Eb; auto.
  f_equal. eapply (proj1 (compatible_spec a b Wa)); eauto.
Qed.

Lemma merge_rows_comm : forall a b, wf a -> wf b -> merge_rows a b = merge_rows b a.
Proof.
  intros a b Wa Wb. unfold merge_rows. rewrite (compatible_sym a b Wa Wb).
  destruct (compatible b a) eqn:C; auto. f_equal. apply merge_comm; auto.
  rewrite compatible_sym; auto.
Qed.

Lemma merge_rows_wf : forall a b m, wf a -> merge_rows a b = Some m -> wf m.
Proof.
  unfold merge_rows. intros a b m W H. destruct (compatible a b); inversion H. apply wf_merge; auto.
Qed.

(* compatibility of a merge *)
Lemma compatible_merge_l : forall a b c, wf a -> wf b -> wf c -> compatible a b = true ->
  compatible (merge a b) c = compatible a c && compatible b c.
Proof.
  intros a b c Wa Wb Wc Cab. apply eq_true_iff_eq.
  rewrite andb_true_iff, (compatible_spec (merge a b) c (wf_merge b a Wa)), (compatible_spec a c Wa), (compatible_spec b c Wb).
  split.
  - intro H. split; intros x v w Hx Hw.
    + eapply (H x); eauto. rewrite lookup_merge, Hx. reflexivity.
    + eapply (H x); eauto. rewrite lookup_merge. destruct (lookup a x) eqn:Ea; auto.
      f_equal. eapply (proj1 (compatible_spec a b Wa)); eauto.
  - intros [H1 H2] x v w Hx Hw. rewrite lookup_merge in Hx.
    destruct (lookup a x) eqn:Ea; [inversion Hx; subst; eapply H1; eauto | eapply H2; eauto].
Qed.

Lemma compatible_merge_r : forall a b c, wf a -> wf b -> wf c -> compatible b c = true ->
  compatible a (merge b c) = compatible a b && compatible a c.
Proof.
  intros a b c Wa Wb Wc C.
  rewrite (compatible_sym a (merge b c) Wa (wf_merge c b Wb)), compatible_merge_l; auto.
  rewrite (compatible_sym b a), (compatible_sym c a); auto.
Qed.

Lemma merge_assoc : forall a b c, wf a -> merge (merge a b) c = merge a (merge b c).
Proof.
  intros a b c Wa. apply mu_ext; try (repeat apply wf_merge; auto).
  intro x. rewrite !lookup_merge. destruct (lookup a x); auto.
Qed.

(* (a ⋈ b) ⋈ c = a ⋈ (b ⋈ c), as partial operations *)
Lemma merge_rows_assoc : forall a b c, wf a -> wf b -> wf c ->
  match merge_rows a b with Some ab => merge_rows ab c | None => None end =
  match merge_rows b c with Some bc => merge_rows a bc | None => None end.
Proof.
  intros a b c Wa Wb Wc. unfold merge_rows.
  destruct (compatible a b) eqn:Cab; destruct (compatible b c) eqn:Cbc.
  - rewrite compatible_merge_l, compatible_merge_r, Cab, Cbc by auto.
    rewrite andb_true_r. cbn. destruct (compatible a c); auto. rewrite merge_assoc; auto.
  - rewrite compatible_merge_l, Cbc by auto. rewrite andb_false_r. reflexivity.
  - rewrite compatible_merge_r, Cab by auto. reflexivity.
  - reflexivity.
Qed.

Lemma merge_rows_nil_r : forall a, merge_rows a [] = Some a.
Proof. intro a. unfold merge_rows. rewrite compatible_nil_r. reflexivity. Qed.
Lemma merge_rows_nil_l : forall b, wf b -> merge_rows [] b = Some b.
Proof. intros b W. unfold merge_rows. cbn. rewrite merge_nil_l; auto. Qed.

(* merging a mapping into one that already contains it *)
Lemma merge_absorb : forall a b, wf a -> wf b ->
  (forall x v, lookup b x = Some v -> lookup a x = Some v) -> merge a b = a.
Proof.
  intros a b Wa Wb H. apply mu_ext; auto; [apply wf_merge; auto|].
  intro x. rewrite lookup_merge. destruct (lookup a x) eqn:Ea; auto.
  destruct (lookup b x) eqn:Eb; auto. apply H in Eb. congruence.
Qed.

Lemma wf_single : forall x t, wf [(x, t)].
Proof. intros. cbn. split; auto. intros ? []. Qed.

Lemma merge_single_insert : forall a x t, wf a -> lookup a x = None -> merge a [(x, t)] = insert x t a.
Proof. intros a x t W H. unfold merge. cbn. rewrite H. reflexivity. Qed.

Lemma lookup_remove : forall m x y, lookup (remove x m) y = if N.eqb x y then None else lookup m y.
Proof.
  induction m as [|[k v] r IH]; intros x y; cbn.
  - destruct (N.eqb x y); auto.
  - destruct (N.eqb_spec k x).
    + subst. rewrite IH. destruct (N.eqb_spec x y); auto.
    + cbn. rewrite IH. destruct (N.eqb_spec k y); destruct (N.eqb_spec x y); subst; auto; congruence.
Qed.

Definition all_wf (l : list mu) : Prop := Forall wf l.
