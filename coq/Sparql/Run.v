(* Entry points for the correspondence checks (evaluated with vm_compute; results are numbers, strings, lists, booleans). *)
Require Import KV.Sparql.Base KV.Sparql.Syntax KV.Sparql.Algebra KV.Sparql.Engine KV.Sparql.Lowering KV.Sparql.PlanEquiv.

(* the Spec's answer: (columns, rows before LIMIT); unbound = None *)
Definition spec_run (ds : dataset) (q : query) := answer_full ds q.

(* the Spec's solutions of the WHERE pattern (before the SELECT modifiers) *)
Definition spec_pattern_run (ds : dataset) (q : query) : list mu :=
  eval (mk_view ds (q_from q) (q_from_named q)) None (sel_where (q_sel q)).

(* equality of logical plans (the lowering model against the plan the implementation built) *)
Fixpoint lop_eqb (a b : lop) {struct a} : bool :=
  match a, b with
  | LUnit, LUnit => true
  | LScan q, LScan q' => qpat_eqb q q'
  | LUnion bs, LUnion bs' =>
      (fix go (x : list lop) (y : list lop) : bool :=
         match x, y with [], [] => true | u :: r, v :: r' => lop_eqb u v && go r r' | _, _ => false end) bs bs'
  | LGraph i g, LGraph i' g' => gterm_eqb g g' && lop_eqb i i'
  | LSelection i c, LSelection i' c' => expr_eqb c c' && lop_eqb i i'
  | LJoin l r, LJoin l' r' => lop_eqb l l' && lop_eqb r r'
  | LSubquery i s, LSubquery i' s' => subspec_eqb s s' && lop_eqb i i'
  | LBind i a v, LBind i' a' v' => list_eqb barg_eqb a a' && N.eqb v v' && lop_eqb i i'
  | LValues vs rows, LValues vs' rows' => list_eqb N.eqb vs vs' && rows_eqb rows rows'
  | _, _ => false
  end.

(* (the lowering model reproduces the implementation's logical plan, the implementation's physical plan is in the relation) *)
Definition plan_run (q : query) (impl_logical : lop) (impl_physical : pop) : bool * bool :=
  (lop_eqb (lower_query (q_sel q)) impl_logical, implementsb (lower_query (q_sel q)) impl_physical).

Definition implements_run (q : query) (impl_physical : pop) : bool := implementsb (lower_query (q_sel q)) impl_physical.

(* the model's execution of a given physical plan: solutions of the pattern, and the final answer *)
Definition model_pattern_run (ds : dataset) (q : query) (p : pop) : list mu :=
  exec ds (mk_eview ds (q_from q) (q_from_named q)) None p [[]].
Definition model_answer_run (ds : dataset) (q : query) (p : pop) : list (list (option term)) :=
  finalize_select (q_sel q) (model_pattern_run ds q p).

(* the classifier of the known findings (Classes.v) and the hypotheses of C01_pattern, per case *)
Require Import KV.Sparql.Sem KV.Sparql.Bridge KV.Sparql.Classes KV.Sparql.Typing KV.Sparql.PatternProofs.
Definition classify_run (q : query) : list N * bool := classify q.
Definition coverage_run (ds : dataset) (q : query) : bool * bool :=
  (proved_fragment q, agree (mk_view ds (q_from q) (q_from_named q)) None (sel_where (q_sel q))).

(* the syntactic hypotheses of C01_pattern_syntactic: (noerr, typed) *)
Definition syntactic_run (ds : dataset) (q : query) : bool * bool :=
  (noerr (sel_where (q_sel q)), typed (mk_view ds (q_from q) (q_from_named q)) (sel_where (q_sel q))).

(* ---- the plan-cache keys (MemoKeyPlan.v) against the keys of the real optimizer's memo ----
   For every node of the implementation's logical plan that find_best_plan_recursive keys (every node except those strictly
   inside a homogeneous scan group, which reorder_logical permutes and the star rewrite may plan as a whole; and except a scan
   group directly under a Selection, which the star rule plans together with the Selection): the keys of all its variants under
   reorder_logical (every permutation of every scan group, rebuilt left-deep).  The check requires one of them in the memo.
   A node with more than 200 variants yields the empty list (not compared). *)
Require Import KV.Sparql.MemoKey KV.Sparql.MemoKeyPlan.

Fixpoint ins_all {A} (x : A) (l : list A) : list (list A) :=
  match l with [] => [[x]] | y :: r => (x :: y :: r) :: map (cons y) (ins_all x r) end.
Fixpoint perms {A} (l : list A) : list (list A) :=
  match l with [] => [[]] | x :: r => flat_map (ins_all x) (perms r) end.
Definition left_deep (qs : list qpat) : lop :=
  match qs with [] => LUnit | q :: r => fold_left (fun acc q' => LJoin acc (LScan q')) r (LScan q) end.
Fixpoint fact (n : nat) : N := match n with O => 1%N | S k => (N.of_nat (S k) * fact k)%N end.

Fixpoint nvariants (l : lop) {struct l} : N :=
  match l with
  | LJoin a b => match scan_scope l with Some _ => fact (List.length (flatten_scans l)) | None => (nvariants a * nvariants b)%N end
  | LUnion bs => (fix go (bs : list lop) : N := match bs with [] => 1%N | b :: r => (nvariants b * go r)%N end) bs
  | LGraph i _ | LSelection i _ | LSubquery i _ | LBind i _ _ => nvariants i
  | _ => 1%N
  end.
Fixpoint variants (l : lop) {struct l} : list lop :=
  match l with
  | LJoin a b =>
      match scan_scope l with
      | Some _ => map left_deep (perms (flatten_scans l))
      | None => flat_map (fun a' => map (LJoin a') (variants b)) (variants a)
      end
  | LUnion bs =>
      map LUnion ((fix go (bs : list lop) : list (list lop) :=
                     match bs with [] => [[]] | b :: r => flat_map (fun b' => map (cons b') (go r)) (variants b) end) bs)
  | LGraph i g => map (fun i' => LGraph i' g) (variants i)
  | LSelection i c => map (fun i' => LSelection i' c) (variants i)
  | LSubquery i s => map (fun i' => LSubquery i' s) (variants i)
  | LBind i args v => map (fun i' => LBind i' args v) (variants i)
  | _ => [l]
  end.
Definition is_group (l : lop) : bool :=
  match l with LJoin _ _ => match scan_scope l with Some _ => true | None => false end | _ => false end.
Fixpoint knodes (l : lop) {struct l} : list lop :=
  l :: match l with
       | LJoin a b => if is_group l then [] else knodes a ++ knodes b
       | LUnion bs => (fix go (bs : list lop) : list lop := match bs with [] => [] | b :: r => knodes b ++ go r end) bs
       | LSelection i _ => if is_group i then [] else knodes i
       | LGraph i _ | LSubquery i _ | LBind i _ _ => knodes i
       | _ => []
       end.

Definition enc_of (dict : list (term * N)) (t : term) : N :=
  match find (fun p => term_eqb (fst p) t) dict with Some p => snd p | None => 0%N end.
Definition vn_of (names : list (var * string)) (x : var) : string :=
  match find (fun p => N.eqb (fst p) x) names with Some p => snd p | None => show_var x end.

Definition memo_keys_run (names : list (var * string)) (dict : list (term * N)) (l : lop) : list (list string) :=
  map (fun n => if (nvariants n <=? 200)%N then map (plan_key (vn_of names) (enc_of dict)) (variants n) else []) (knodes l).

(* the same, decided in Coq against the keys found in the real memo: Some true = one of the node's variant keys is there *)
Definition memo_check_run (names : list (var * string)) (dict : list (term * N)) (l : lop) (real : list string) : list (option bool) :=
  map (fun ks => match ks with [] => None | _ => Some (existsb (fun k => existsb (String.eqb k) real) ks) end)
      (memo_keys_run names dict l).
