(* Entry points for the correspondence checks (evaluated with vm_compute; results are numbers, strings, lists, booleans). *)
Require Import KV.Sparql.Base KV.Sparql.Syntax KV.Sparql.Algebra KV.Sparql.Engine KV.Sparql.Lowering KV.Sparql.PlanEquiv.

(* the Spec's answer: (columns, rows before LIMIT); unbound = None *)
Definition spec_run (ds : dataset) (q : query) := answer_full ds q.

(* the Spec's solutions of the WHERE pattern (before the SELECT modifiers) *)
Definition spec_pattern_run (ds : dataset) (q : query) : list mu :=
  eval (mk_view ds (q_from q) (q_from_named q)) None (sel_where (q_sel q)).

(* equality of logical plans (the lowering model against the plan the implementation built) *)
Fixpoint lop_eqb (a b : lop) {struct a} : bool :=
  match a, b with
  | LUnit, LUnit => true
  | LScan q, LScan q' => qpat_eqb q q'
  | LUnion bs, LUnion bs' =>
      (fix go (x : list lop) (y : list lop) : bool :=
         match x, y with [], [] => true | u :: r, v :: r' => lop_eqb u v && go r r' | _, _ => false end) bs bs'
  | LGraph i g, LGraph i' g' => gterm_eqb g g' && lop_eqb i i'
  | LSelection i c, LSelection i' c' => expr_eqb c c' && lop_eqb i i'
  | LJoin l r, LJoin l' r' => lop_eqb l l' && lop_eqb r r'
  | LSubquery i s, LSubquery i' s' => subspec_eqb s s' && lop_eqb i i'
  | LBind i a v, LBind i' a' v' => list_eqb barg_eqb a a' && N.eqb v v' && lop_eqb i i'
  | LValues vs rows, LValues vs' rows' => list_eqb N.eqb vs vs' && rows_eqb rows rows'
  | _, _ => false
  end.

(* (the lowering model reproduces the implementation's logical plan, the implementation's physical plan is in the relation) *)
Definition plan_run (q : query) (impl_logical : lop) (impl_physical : pop) : bool * bool :=
  (lop_eqb (lower_query (q_sel q)) impl_logical, implementsb (lower_query (q_sel q)) impl_physical).

Definition implements_run (q : query) (impl_physical : pop) : bool := implementsb (lower_query (q_sel q)) impl_physical.

(* the model's execution of a given physical plan: solutions of the pattern, and the final answer *)
Definition model_pattern_run (ds : dataset) (q : query) (p : pop) : list mu :=
  exec ds (mk_eview ds (q_from q) (q_from_named q)) None p [[]].
Definition model_answer_run (ds : dataset) (q : query) (p : pop) : list (list (option term)) :=
  finalize_select (q_sel q) (model_pattern_run ds q p).

(* the classifier of the known findings (Classes.v) and the hypotheses of C01_pattern, per case *)
Require Import KV.Sparql.Sem KV.Sparql.Bridge KV.Sparql.Classes KV.Sparql.Typing KV.Sparql.PatternProofs.
Definition classify_run (q : query) : list N * bool := classify q.
Definition coverage_run (ds : dataset) (q : query) : bool * bool :=
  (proved_fragment q, agree (mk_view ds (q_from q) (q_from_named q)) None (sel_where (q_sel q))).

(* the syntactic hypotheses of C01_pattern_syntactic: (noerr, typed) *)
Definition syntactic_run (ds : dataset) (q : query) : bool * bool :=
  (noerr (sel_where (q_sel q)), typed (mk_view ds (q_from q) (q_from_named q)) (sel_where (q_sel q))).
