(* Aggregation (GROUP BY + SUM / MIN / MAX / AVG) of the engine model against the algebra's, for the legal SPARQL shape:
   the projection consists of group keys and aggregate aliases.
   - the engine's row of a group is the group's FIRST row with the aggregate outputs inserted (removed when there is no value),
     the algebra's is the key row with the aggregate outputs inserted: they agree on every group key and on every alias
     (`row_agree`), hence on the projected columns (`agg_same_input`);
   - the algebra's aggregated rows, projected, do not depend on the order of the input solutions (`aggregate_perm`);
   - so the final answer / the result of a sub-select is the algebra's as a multiset (`answer_agg`, `subquery_agg`).
   AVG: model and Spec carry the exact rational (show_avg); the implementation's decimal rendering is compared with it
   numerically in the correspondence check only. *)
Require Import KV.Sparql.Base KV.Sparql.Syntax KV.Sparql.MuProofs KV.Sparql.JoinProofs KV.Sparql.Algebra KV.Sparql.Engine
        KV.Sparql.PlanEquiv KV.Sparql.Sem KV.Sparql.ScanProofs KV.Sparql.SemProofs KV.Sparql.ExecLemmas KV.Sparql.BridgeProofs KV.Sparql.ModifierProofs.
Require Import Permutation Sorted Lia ZArith.

Definition step_e (ms : list mu) (r : mu) (a : aggk * var * var) : mu :=
  let '(k, x, al) := a in match eagg_value k x ms with Some t => insert al t r | None => remove al r end.
Definition step_s (ms : list mu) (r : mu) (a : aggk * var * var) : mu :=
  let '(k, x, al) := a in match agg_value k x ms with Some t => insert al t r | None => r end.
Definition erow (aggs : list (aggk * var * var)) (g : list (option term) * list mu) : mu :=
  fold_left (step_e (snd g)) aggs (match snd g with m :: _ => m | [] => [] end).
Definition srow (aggs : list (aggk * var * var)) (gb : list var) (g : list (option term) * list mu) : mu :=
  fold_left (step_s (snd g)) aggs (key_row gb (fst g)).
Definition adj (gb : list var) (gs : list (list (option term) * list mu)) :=
  match gs, gb with [], [] => [([], [])] | _, _ => gs end.

Lemma eagg_value_eq : forall k x ms, eagg_value k x ms = agg_value k x ms.
Proof. reflexivity. Qed.

(* what the aggregates are: folds over the integer values of the group *)
Lemma agg_value_folds : forall x ms,
  agg_value ASum x ms = Some (show_int (fold_left Z.add (int_values x ms) 0%Z)) /\
  agg_value AMin x ms = option_map show_int (match int_values x ms with [] => None | v :: r => Some (fold_left Z.min r v) end) /\
  agg_value AMax x ms = option_map show_int (match int_values x ms with [] => None | v :: r => Some (fold_left Z.max r v) end).
Proof. intros. repeat split; reflexivity. Qed.

Lemma eaggregate_unfold : forall pr gb rows, (aggs_of pr <> [] \/ gb <> []) ->
  eaggregate true pr gb rows = map (erow (aggs_of pr)) (adj gb (groups_of gb rows)).
Proof.
  intros pr gb rows H. unfold eaggregate, adj, erow, step_e.
  destruct (aggs_of pr) eqn:Ea; destruct gb eqn:Eg; try reflexivity. destruct H; congruence.
Qed.
Lemma aggregate_unfold : forall pr gb rows, (aggs_of pr <> [] \/ gb <> []) ->
  aggregate pr gb rows = map (srow (aggs_of pr) gb) (adj gb (groups_of gb rows)).
Proof.
  intros pr gb rows H. unfold aggregate, adj, srow, step_s.
  destruct (aggs_of pr) eqn:Ea; destruct gb eqn:Eg; try reflexivity. destruct H; congruence.
Qed.

(* ---- lookups in the folded rows ---- *)
Lemma fold_e_other : forall ms aggs r y, (forall a, In a aggs -> alias_of a <> y) ->
  lookup (fold_left (step_e ms) aggs r) y = lookup r y.
Proof.
  intros ms. induction aggs as [|[[k x] al] rest IH]; intros r y H; cbn [fold_left]; [reflexivity|].
  rewrite IH by (intros; apply H; right; auto).
  assert (D : al <> y) by (apply (H (k, x, al)); left; auto).
  unfold step_e. destruct (eagg_value k x ms); [rewrite lookup_insert | rewrite lookup_remove];
    destruct (N.eqb_spec al y); congruence.
Qed.
Lemma fold_s_other : forall ms aggs r y, (forall a, In a aggs -> alias_of a <> y) ->
  lookup (fold_left (step_s ms) aggs r) y = lookup r y.
Proof.
  intros ms. induction aggs as [|[[k x] al] rest IH]; intros r y H; cbn [fold_left]; [reflexivity|].
  rewrite IH by (intros; apply H; right; auto).
  assert (D : al <> y) by (apply (H (k, x, al)); left; auto).
  unfold step_s. destruct (agg_value k x ms); [rewrite lookup_insert|reflexivity].
  destruct (N.eqb_spec al y); congruence.
Qed.

Lemma fold_e_alias : forall ms aggs r k x al, NoDup (map alias_of aggs) -> In (k, x, al) aggs ->
  lookup (fold_left (step_e ms) aggs r) al = agg_value k x ms.
Proof.
  intros ms. induction aggs as [|[[k0 x0] al0] rest IH]; intros r k x al N H; [contradiction|].
  cbn [map alias_of snd] in N. inversion N as [|? ? Hn N']; subst. cbn [fold_left]. destruct H as [H|H].
  - inversion H; subst. rewrite fold_e_other.
    + unfold step_e. rewrite eagg_value_eq. destruct (agg_value k x ms); [rewrite lookup_insert | rewrite lookup_remove]; rewrite N.eqb_refl; reflexivity.
    + intros a Ha E. apply Hn. apply in_map_iff. exists a. auto.
  - apply IH; auto.
Qed.
Lemma fold_s_alias : forall ms aggs r k x al, NoDup (map alias_of aggs) -> In (k, x, al) aggs ->
  (forall a, In a aggs -> lookup r (alias_of a) = None) ->
  lookup (fold_left (step_s ms) aggs r) al = agg_value k x ms.
Proof.
  intros ms. induction aggs as [|[[k0 x0] al0] rest IH]; intros r k x al N H Z; [contradiction|].
  cbn [map alias_of snd] in N. inversion N as [|? ? Hn N']; subst. cbn [fold_left]. destruct H as [H|H].
  - inversion H; subst. rewrite fold_s_other.
    + unfold step_s. destruct (agg_value k x ms); [rewrite lookup_insert, N.eqb_refl; reflexivity|].
      apply (Z (k, x, al)). left; auto.
    + intros a Ha E. apply Hn. apply in_map_iff. exists a. auto.
  - apply IH; auto. intros a Ha. unfold step_s.
    assert (D : al0 <> alias_of a) by (intro E; apply Hn; apply in_map_iff; exists a; auto).
    destruct (agg_value k0 x0 ms); [rewrite lookup_insert; destruct (N.eqb_spec al0 (alias_of a)); [congruence|]|]; apply Z; right; auto.
Qed.

Lemma fold_e_wf : forall ms aggs r, wf r -> wf (fold_left (step_e ms) aggs r).
Proof.
  intros ms. induction aggs as [|[[k x] al] rest IH]; intros r W; cbn [fold_left]; auto.
  apply IH. unfold step_e. destruct (eagg_value k x ms); [apply wf_insert | apply wf_remove]; auto.
Qed.
Lemma fold_s_wf : forall ms aggs r, wf r -> wf (fold_left (step_s ms) aggs r).
Proof.
  intros ms. induction aggs as [|[[k x] al] rest IH]; intros r W; cbn [fold_left]; auto.
  apply IH. unfold step_s. destruct (agg_value k x ms); [apply wf_insert|]; auto.
Qed.

Lemma key_row_wf : forall gb k, wf (key_row gb k).
Proof.
  induction gb as [|v gb IH]; intros k; cbn [key_row]; [exact I|]. destruct k as [|[t|] k]; [exact I | apply wf_insert; apply IH | apply IH].
Qed.
Lemma lookup_key_row_notin : forall gb k y, ~ In y gb -> lookup (key_row gb k) y = None.
Proof.
  induction gb as [|v gb IH]; intros k y H; cbn [key_row]; [reflexivity|]. destruct k as [|[t|] k]; [reflexivity| |].
  - rewrite lookup_insert. destruct (N.eqb_spec v y); [exfalso; apply H; left; auto|]. apply IH. intro; apply H; right; auto.
  - apply IH. intro; apply H; right; auto.
Qed.
Lemma lookup_key_row : forall gb m y, In y gb -> lookup (key_row gb (group_key gb m)) y = lookup m y.
Proof.
  induction gb as [|v gb IH]; intros m y H; [contradiction|]. cbn [group_key map key_row]. fold (group_key gb m).
  destruct (lookup m v) eqn:E.
  - rewrite lookup_insert. destruct (N.eqb_spec v y); [subst; auto|]. destruct H as [H|H]; [congruence|]. apply IH; auto.
  - destruct (N.eq_dec v y) as [->|D].
    + rewrite E. destruct (in_dec N.eq_dec y gb) as [I|I]; [rewrite IH; auto | apply lookup_key_row_notin; auto].
    + destruct H as [H|H]; [congruence|]. apply IH; auto.
Qed.

(* ---- the row of one group ---- *)
Section Row.
  Variables (aggs : list (aggk * var * var)) (gb cols : list var).
  Hypothesis Hnd : NoDup (map alias_of aggs).
  Hypothesis Hdisj : forall a, In a aggs -> ~ In (alias_of a) gb.
  Hypothesis Hcols : forall y, In y cols -> In y gb \/ In y (map alias_of aggs).

  Lemma row_agree : forall k ms,
    wf (match ms with m :: _ => m | [] => [] end) ->
    (forall y, In y gb -> lookup (match ms with m :: _ => m | [] => [] end) y = lookup (key_row gb k) y) ->
    restrict cols (erow aggs (k, ms)) = restrict cols (srow aggs gb (k, ms)).
  Proof.
    intros k ms W B. unfold erow, srow. cbn [fst snd].
    apply mu_ext; [apply wf_restrict; apply fold_e_wf; exact W | apply wf_restrict; apply fold_s_wf; apply key_row_wf|].
    intro y. rewrite !lookup_restrict. destruct (mem_var y cols) eqn:E; [|reflexivity]. apply mem_var_in in E.
    destruct (in_dec N.eq_dec y (map alias_of aggs)) as [I|I].
    - apply in_map_iff in I. destruct I as ([[kk x] al] & Ey & Ia). cbn in Ey. subst al.
      rewrite (fold_e_alias ms aggs _ kk x y Hnd Ia), (fold_s_alias ms aggs _ kk x y Hnd Ia); [reflexivity|].
      intros a Ha. apply lookup_key_row_notin. apply Hdisj; auto.
    - destruct (Hcols y E) as [G|G]; [|contradiction].
      rewrite fold_e_other, fold_s_other; [apply B; exact G | |]; intros a Ha Ea; apply I; apply in_map_iff; exists a; auto.
  Qed.

  (* the value theorem: in the engine's row of a group every alias holds its aggregate over the group, every key its key value *)
  Lemma erow_values : forall k ms,
    (forall kk x al, In (kk, x, al) aggs -> lookup (erow aggs (k, ms)) al = agg_value kk x ms) /\
    (forall v, In v gb -> lookup (erow aggs (k, ms)) v = lookup (match ms with m :: _ => m | [] => [] end) v).
  Proof.
    intros k ms. unfold erow. cbn [snd]. split.
    - intros kk x al H. apply fold_e_alias; auto.
    - intros v Hv. apply fold_e_other. intros a Ha E. apply (Hdisj a Ha). rewrite E. exact Hv.
  Qed.
End Row.

(* ---- the same input: the engine's aggregated rows are the algebra's on the projected columns ---- *)
Lemma nodup_v_spec : forall l, nodup_v l = true -> NoDup l.
Proof.
  induction l as [|x r IH]; intro H; [constructor|]. cbn in H. apply andb_true_iff in H. destruct H as [H1 H2].
  constructor; [|auto]. intro I. apply mem_var_in in I. rewrite I in H1. discriminate.
Qed.

Lemma agg_shape_spec : forall pr gb, agg_shape pr gb = true ->
  NoDup (map alias_of (aggs_of pr)) /\ (forall a, In a (aggs_of pr) -> ~ In (alias_of a) gb) /\
  (forall y, In y (pcols pr) -> In y gb \/ In y (map alias_of (aggs_of pr))).
Proof.
  intros [items|] gb H; [|discriminate]. unfold agg_shape in H. apply andb_true_iff in H. destruct H as [H H3].
  apply andb_true_iff in H. destruct H as [H1 H2]. split; [apply nodup_v_spec; exact H1|]. split.
  - intros a Ha I. rewrite forallb_forall in H2. assert (Q : In (alias_of a) (map alias_of (aggs_of (Some items)))) by (apply in_map; auto).
    apply H2 in Q. apply mem_var_in in I. rewrite I in Q. discriminate.
  - intros y Hy. unfold pcols in Hy. apply in_map_iff in Hy. destruct Hy as (i & E & Hi). rewrite forallb_forall in H3. specialize (H3 i Hi).
    destruct i as [x|k x al]; subst y.
    + left. apply mem_var_in. exact H3.
    + right. apply in_map_iff. exists (k, x, al). split; [reflexivity|]. cbn [aggs_of]. apply in_flat_map. exists (PAgg k x al). split; auto. left; auto.
Qed.

Lemma group_head : forall gb rows k ms, In (k, ms) (groups_of gb rows) ->
  exists m0 r, ms = m0 :: r /\ In m0 rows /\ group_key gb m0 = k.
Proof.
  intros gb rows k ms H. apply groups_of_spec in H. destruct H as [N E]. destruct ms as [|m0 r]; [congruence|].
  exists m0, r. split; auto. assert (I : In m0 (filter (fun m => key_eqb (group_key gb m) k) rows)) by (rewrite <- E; left; auto).
  apply filter_In in I. destruct I as [I1 I2]. apply key_eqb_eq in I2. auto.
Qed.

Theorem agg_same_input : forall pr gb rows, agg_shape pr gb = true -> all_wf rows ->
  map (restrict (pcols pr)) (eaggregate true pr gb rows) = map (restrict (pcols pr)) (aggregate pr gb rows).
Proof.
  intros pr gb rows S W. destruct (agg_shape_spec _ _ S) as (Hnd & Hdisj & Hcols).
  destruct (aggs_of pr) eqn:Ea; [destruct gb as [|v gb'] eqn:Eg|].
  - unfold eaggregate, aggregate. rewrite Ea. reflexivity.
  - rewrite eaggregate_unfold, aggregate_unfold by (right; discriminate). rewrite Ea in *. rewrite !map_map.
    assert (A : adj (v :: gb') (groups_of (v :: gb') rows) = groups_of (v :: gb') rows) by (unfold adj; destruct (groups_of (v :: gb') rows); reflexivity).
    rewrite A. apply map_ext_in. intros [k ms] Hg. destruct (group_head _ _ _ _ Hg) as (m0 & r & -> & I & K).
    apply (row_agree [] (v :: gb') (pcols pr) Hnd Hdisj Hcols); [eapply all_wf_in; eauto|].
    intros y Hy. subst k. symmetry. apply lookup_key_row. exact Hy.
  - rewrite eaggregate_unfold, aggregate_unfold by (left; rewrite Ea; discriminate). rewrite Ea in *. rewrite !map_map.
    apply map_ext_in. intros [k ms] Hg.
    assert (Hcase : (k = [] /\ ms = [] /\ gb = []) \/ In (k, ms) (groups_of gb rows)).
    { unfold adj in Hg. destruct (groups_of gb rows) eqn:G; [destruct gb; [destruct Hg as [Hg|[]]; inversion Hg; auto | contradiction] | right; exact Hg]. }
    destruct Hcase as [(-> & -> & ->)|Hg'].
    + apply (row_agree _ [] (pcols pr) Hnd Hdisj Hcols); [exact I | intros y []].
    + destruct (group_head _ _ _ _ Hg') as (m0 & r & -> & I & K).
      apply (row_agree _ gb (pcols pr) Hnd Hdisj Hcols); [eapply all_wf_in; eauto|].
      intros y Hy. subst k. symmetry. apply lookup_key_row. exact Hy.
Qed.

(* ---- the algebra's aggregation does not depend on the order of the solutions ---- *)
Lemma zsum_perm : forall l l', Permutation l l' -> zsum l = zsum l'.
Proof.
  assert (S : forall l a, fold_left Z.add l a = (a + fold_left Z.add l 0)%Z).
  { induction l as [|x r IH]; intros a; cbn [fold_left]; [lia|]. rewrite IH, (IH (0 + x)%Z). lia. }
  unfold zsum. induction 1; cbn [fold_left]; auto.
  - rewrite (S l), (S l'), IHPermutation. reflexivity.
  - rewrite (S l (0 + y + x)%Z), (S l (0 + x + y)%Z). lia.
  - congruence.
Qed.

Lemma fold_min_spec : forall r x, In (fold_left Z.min r x) (x :: r) /\ (forall y, In y (x :: r) -> (fold_left Z.min r x <= y)%Z).
Proof.
  induction r as [|a r IH]; intros x; cbn [fold_left].
  - split; [left; auto | intros y [<-|[]]; lia].
  - destruct (IH (Z.min x a)) as [I L]. split.
    + destruct I as [I|I]; [|right; right; auto]. rewrite <- I. destruct (Z.min_spec x a) as [[_ E]|[_ E]]; rewrite E; [left | right; left]; auto.
    + intros y [<-|[<-|Hy]].
      * specialize (L (Z.min x a) (or_introl eq_refl)). lia.
      * specialize (L (Z.min x a) (or_introl eq_refl)). lia.
      * apply L. right; auto.
Qed.
Lemma fold_max_spec : forall r x, In (fold_left Z.max r x) (x :: r) /\ (forall y, In y (x :: r) -> (y <= fold_left Z.max r x)%Z).
Proof.
  induction r as [|a r IH]; intros x; cbn [fold_left].
  - split; [left; auto | intros y [<-|[]]; lia].
  - destruct (IH (Z.max x a)) as [I L]. split.
    + destruct I as [I|I]; [|right; right; auto]. rewrite <- I. destruct (Z.max_spec x a) as [[_ E]|[_ E]]; rewrite E; [right; left | left]; auto.
    + intros y [<-|[<-|Hy]].
      * specialize (L (Z.max x a) (or_introl eq_refl)). lia.
      * specialize (L (Z.max x a) (or_introl eq_refl)). lia.
      * apply L. right; auto.
Qed.
Lemma zmin_perm : forall l l', Permutation l l' -> zmin l = zmin l'.
Proof.
  intros l l' P. destruct l as [|x r]; destruct l' as [|x' r'].
  - reflexivity.
  - apply Permutation_nil in P. discriminate.
  - apply Permutation_sym in P. apply Permutation_nil in P. discriminate.
  - unfold zmin. f_equal. destruct (fold_min_spec r x) as [I L]. destruct (fold_min_spec r' x') as [I' L'].
    assert (A : (fold_left Z.min r x <= fold_left Z.min r' x')%Z) by (apply L; eapply Permutation_in; [apply Permutation_sym; exact P | exact I']).
    assert (B : (fold_left Z.min r' x' <= fold_left Z.min r x)%Z) by (apply L'; eapply Permutation_in; [exact P | exact I]).
    lia.
Qed.
Lemma zmax_perm : forall l l', Permutation l l' -> zmax l = zmax l'.
Proof.
  intros l l' P. destruct l as [|x r]; destruct l' as [|x' r'].
  - reflexivity.
  - apply Permutation_nil in P. discriminate.
  - apply Permutation_sym in P. apply Permutation_nil in P. discriminate.
  - unfold zmax. f_equal. destruct (fold_max_spec r x) as [I L]. destruct (fold_max_spec r' x') as [I' L'].
    assert (A : (fold_left Z.max r' x' <= fold_left Z.max r x)%Z) by (apply L; eapply Permutation_in; [apply Permutation_sym; exact P | exact I']).
    assert (B : (fold_left Z.max r x <= fold_left Z.max r' x')%Z) by (apply L'; eapply Permutation_in; [exact P | exact I]).
    lia.
Qed.

Lemma agg_value_perm : forall k x ms ms', Permutation ms ms' -> agg_value k x ms = agg_value k x ms'.
Proof.
  intros k x ms ms' P. unfold agg_value.
  assert (Pv : Permutation (int_values x ms) (int_values x ms')) by (unfold int_values; apply flat_map_perm; exact P).
  destruct k.
  - rewrite (zsum_perm _ _ Pv). reflexivity.
  - rewrite (zmin_perm _ _ Pv). reflexivity.
  - rewrite (zmax_perm _ _ Pv). reflexivity.
  - destruct (int_values x ms) as [|a r] eqn:E; destruct (int_values x ms') as [|a' r'] eqn:E'.
    + reflexivity.
    + apply Permutation_nil in Pv. discriminate.
    + apply Permutation_sym in Pv. apply Permutation_nil in Pv. discriminate.
    + rewrite (zsum_perm _ _ Pv), (Permutation_length Pv). reflexivity.
Qed.

Lemma srow_perm : forall aggs gb k ms ms', Permutation ms ms' -> srow aggs gb (k, ms) = srow aggs gb (k, ms').
Proof.
  intros aggs gb k ms ms' P. unfold srow. cbn [fst snd]. generalize (key_row gb k).
  induction aggs as [|[[kk x] al] rest IH]; intros r; cbn [fold_left]; [reflexivity|].
  unfold step_s at 2 4. rewrite (agg_value_perm kk x ms ms' P). apply IH.
Qed.

Lemma groups_keys_nodup : forall gb rows, NoDup (map fst (groups_of gb rows)).
Proof.
  intros gb rows. unfold groups_of.
  assert (G : forall rows gs, NoDup (map fst gs) -> NoDup (map fst (fold_left (fun gs m => add_to_groups (group_key gb m) m gs) rows gs))).
  { clear rows. induction rows as [|r rows IH]; intros gs N; cbn [fold_left]; auto. apply IH. apply keys_add_nodup. exact N. }
  apply G. constructor.
Qed.

Definition gfilter (gb : list var) (rows : list mu) (k : list (option term)) : list mu :=
  filter (fun m => key_eqb (group_key gb m) k) rows.

Lemma groups_keys_in : forall gb rows k, In k (map fst (groups_of gb rows)) <-> exists r, In r rows /\ group_key gb r = k.
Proof.
  intros gb rows k. split.
  - intro H. apply in_map_iff in H. destruct H as ([k' ms] & E & H). cbn in E. subst k'.
    destruct (group_head _ _ _ _ H) as (m0 & r & _ & I & K). eauto.
  - intros (r & I & K). apply in_map_iff. exists (k, gfilter gb rows k). split; [reflexivity|].
    apply groups_of_spec. split; [|reflexivity].
    intro F. assert (Q : In r (filter (fun m => key_eqb (group_key gb m) k) rows)) by (apply filter_In; split; auto; subst k; apply key_eqb_refl).
    unfold gfilter in F. rewrite F in Q. contradiction.
Qed.

Lemma groups_as_map : forall gb rows,
  groups_of gb rows = map (fun k => (k, gfilter gb rows k)) (map fst (groups_of gb rows)).
Proof.
  intros gb rows.
  assert (H : forall l : list (list (option term) * list mu), (forall p, In p l -> snd p = gfilter gb rows (fst p)) ->
                    l = map (fun k => (k, gfilter gb rows k)) (map fst l)).
  { induction l as [|[k ms] l IH]; intros Hl; cbn [map fst]; [reflexivity|].
    pose proof (Hl (k, ms) (or_introl eq_refl)) as E. cbn [fst snd] in E. subst ms. f_equal. apply IH. intros; apply Hl; right; auto. }
  apply H. intros [k ms] Hp. apply groups_of_spec in Hp. destruct Hp as [_ E]. exact E.
Qed.

Lemma groups_rows_map : forall {B} (f : list (option term) * list mu -> B) gb rows,
  map f (groups_of gb rows) = map (fun k => f (k, gfilter gb rows k)) (map fst (groups_of gb rows)).
Proof. intros. rewrite (groups_as_map gb rows) at 1. rewrite map_map. reflexivity. Qed.

Lemma adj_nonnil : forall gb gs, gs <> [] -> adj gb gs = gs.
Proof. intros gb [|g gs] H; [contradiction | reflexivity]. Qed.

Lemma aggregate_perm_ne : forall pr gb cols rows rows', (aggs_of pr <> [] \/ gb <> []) -> Permutation rows rows' ->
  Permutation (map (restrict cols) (aggregate pr gb rows)) (map (restrict cols) (aggregate pr gb rows')).
Proof.
  intros pr gb cols rows rows' Hne P. rewrite !aggregate_unfold by exact Hne.
  assert (PK : Permutation (map fst (groups_of gb rows)) (map fst (groups_of gb rows'))).
  { apply NoDup_Permutation; try apply groups_keys_nodup. intro k. rewrite !groups_keys_in. split; intros (r & I & K); exists r; split; auto.
    - eapply Permutation_in; eauto.
    - eapply Permutation_in; [apply Permutation_sym; exact P | exact I]. }
  destruct (groups_of gb rows) as [|g0 G0] eqn:G.
  - cbn [map] in PK. apply Permutation_nil in PK. destruct (groups_of gb rows') as [|g0' G0'] eqn:G'; [|discriminate]. apply Permutation_refl.
  - assert (N' : groups_of gb rows' <> []).
    { intro E. rewrite E in PK. cbn [map] in PK. apply Permutation_sym in PK. apply Permutation_nil in PK. discriminate. }
    rewrite <- G in *. rewrite (adj_nonnil gb (groups_of gb rows)) by (rewrite G; discriminate). rewrite (adj_nonnil gb _ N').
    rewrite !map_map. rewrite (groups_rows_map (fun x => restrict cols (srow (aggs_of pr) gb x)) gb rows).
    rewrite (groups_rows_map (fun x => restrict cols (srow (aggs_of pr) gb x)) gb rows').
    eapply perm_trans; [apply Permutation_map; exact PK|].
    assert (E : forall k, restrict cols (srow (aggs_of pr) gb (k, gfilter gb rows k)) = restrict cols (srow (aggs_of pr) gb (k, gfilter gb rows' k))).
    { intro k. f_equal. apply srow_perm. unfold gfilter. apply perm_filter. exact P. }
    rewrite (map_ext _ _ E). apply Permutation_refl.
Qed.

Theorem aggregate_perm : forall pr gb cols rows rows', Permutation rows rows' ->
  Permutation (map (restrict cols) (aggregate pr gb rows)) (map (restrict cols) (aggregate pr gb rows')).
Proof.
  intros pr gb cols rows rows' P.
  destruct (aggs_of pr) eqn:Ea; [destruct gb as [|v gb']|].
  - unfold aggregate. rewrite Ea. apply Permutation_map. exact P.
  - apply aggregate_perm_ne; auto. right; discriminate.
  - apply aggregate_perm_ne; auto. left; rewrite Ea; discriminate.
Qed.

(* ---- the final answer and the result of a sub-select, with aggregation, without a cut ---- *)
Definition agg_sel (s : sel) : bool :=
  match s with Sel _ pr _ gb _ lim => agg_shape pr gb && match lim with None => true | Some _ => false end end.

Lemma agg_rows_perm : forall pr gb ob rows rows', agg_shape pr gb = true -> all_wf rows -> Permutation rows rows' ->
  Permutation (map (restrict (pcols pr)) (esort ob (eaggregate true pr gb rows)))
              (map (restrict (pcols pr)) (order_rows ob (aggregate pr gb rows'))).
Proof.
  intros pr gb ob rows rows' S W P.
  eapply perm_trans; [apply Permutation_map; apply esort_perm|].
  rewrite (agg_same_input pr gb rows S W).
  eapply perm_trans; [apply aggregate_perm; exact P|].
  apply Permutation_map. apply Permutation_sym. apply order_rows_perm.
Qed.

Theorem answer_agg : forall s rows rows', agg_sel s = true -> all_wf rows -> Permutation rows rows' ->
  Permutation (finalize_select s rows) (render (columns s) (modifiers s rows')).
Proof.
  intros [d pr w gb ob lim] rows rows' AS W P. unfold agg_sel in AS. apply andb_true_iff in AS. destruct AS as [S L].
  destruct lim; [discriminate|].
  assert (Ec : columns (Sel d pr w gb ob None) = pcols pr).
  { destruct pr as [items|]; [reflexivity | discriminate S]. }
  unfold finalize_select, modifiers, modifiers_nolimit, apply_limit. rewrite Ec.
  pose proof (agg_rows_perm pr gb ob rows rows' S W P) as P1.
  destruct d.
  - rewrite <- (render_restrict (pcols pr) (dedup _ _)).
    rewrite (dedup_map_commute (restrict (pcols pr)) (fun a b => mu_eqb (restrict (pcols pr) a) (restrict (pcols pr) b)) mu_eqb (fun x y => eq_refl)).
    unfold render. apply Permutation_map. apply dedup_perm. exact P1.
  - rewrite <- (render_restrict (pcols pr) (esort ob _)). unfold render. apply Permutation_map. exact P1.
Qed.

(* a sub-select: finalize_subquery against the algebra's modifiers *)
Theorem subquery_agg : forall d pr w gb ob rows rows', agg_shape pr gb = true -> all_wf rows -> Permutation rows rows' ->
  Permutation (finalize_subquery {| ss_proj := pr; ss_distinct := d; ss_group := gb; ss_order := ob; ss_limit := None |} rows)
              (modifiers (Sel d pr w gb ob None) rows').
Proof.
  intros d pr w gb ob rows rows' S W P.
  assert (Ec : columns (Sel d pr w gb ob None) = pcols pr) by (destruct pr as [items|]; [reflexivity | discriminate S]).
  assert (Ep : proj_vars pr = Some (pcols pr)) by (destruct pr as [items|]; [reflexivity | discriminate S]).
  unfold finalize_subquery, modifiers, modifiers_nolimit, apply_limit.
  cbn [ss_proj ss_distinct ss_group ss_order ss_limit]. rewrite Ec, Ep.
  pose proof (agg_rows_perm pr gb ob rows rows' S W P) as P1.
  destruct d; [apply dedup_perm|]; exact P1.
Qed.

(* finalize_subquery of an order-free sub-select (no aggregation and no cut, or aggregation in the legal shape and no cut)
   does not depend on the order of its input *)
Theorem order_free_finalize_perm : forall s rows rows', order_free s = true -> all_wf rows -> Permutation rows rows' ->
  Permutation (finalize_subquery s rows) (finalize_subquery s rows').
Proof.
  intros s rows rows' O W P. unfold order_free in O. destruct (simple_sub s) eqn:S; [apply simple_finalize_perm; auto|].
  cbn [orb] in O. unfold agg_sub in O. apply andb_true_iff in O. destruct O as [Sh L].
  destruct s as [pr d gb ob lim]. cbn [ss_proj ss_group ss_limit] in *. destruct lim; [discriminate|].
  eapply perm_trans; [apply (subquery_agg d pr (PBgp []) gb ob rows rows Sh W (Permutation_refl _))|].
  apply Permutation_sym. apply (subquery_agg d pr (PBgp []) gb ob rows' rows Sh); [eapply all_wf_perm; eauto | apply Permutation_sym; exact P].
Qed.
