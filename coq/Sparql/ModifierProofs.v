(* Stage 3: the solution modifiers of the engine model (finalize_select / finalize_subquery components). *)
Require Import KV.Sparql.Base KV.Sparql.Syntax KV.Sparql.MuProofs KV.Sparql.JoinProofs KV.Sparql.Algebra KV.Sparql.Engine
        KV.Sparql.ScanProofs KV.Sparql.SemProofs KV.Sparql.ExecLemmas KV.Sparql.BridgeProofs.
Require Import Permutation Sorted Lia.

(* ---- ORDER BY ---- *)
Lemma ekey_cmp_antisym : forall a b, ekey_cmp a b = CompOpp (ekey_cmp b a).
Proof.
  intros a b. unfold ekey_cmp.
  set (x := match a with Some s => s | None => EmptyString end).
  set (y := match b with Some s => s | None => EmptyString end).
  destruct (parse_int x), (parse_int y); try apply String.compare_antisym. apply Z.compare_antisym.
Qed.

Lemma erow_cmp_antisym : forall ob a b, erow_cmp ob a b = CompOpp (erow_cmp ob b a).
Proof.
  induction ob as [|[v desc] r IH]; intros a b; cbn [erow_cmp]; [reflexivity|].
  rewrite (ekey_cmp_antisym (lookup a v) (lookup b v)).
  destruct desc; destruct (ekey_cmp (lookup b v) (lookup a v)); cbn; auto.
Qed.

(* "a does not sort after b" *)
Definition ob_le (ob : list (var * bool)) (a b : mu) : Prop := erow_cmp ob a b <> Gt.

Lemma eins_sorted_sorted : forall ob x l, Sorted (ob_le ob) l -> Sorted (ob_le ob) (eins_sorted ob x l).
Proof.
  intros ob x. induction l as [|y r IH]; intros S; cbn [eins_sorted].
  - constructor; constructor.
  - inversion S as [|? ? Sr Hd]; subst.
    destruct (erow_cmp ob x y) eqn:E.
    + (* equal keys: x goes after y (stable) *)
      constructor; [apply IH; auto|].
      destruct r as [|z r']; cbn [eins_sorted].
      * constructor. unfold ob_le. rewrite erow_cmp_antisym, E. discriminate.
      * inversion Hd; subst. destruct (erow_cmp ob x z); constructor; auto;
          unfold ob_le; rewrite erow_cmp_antisym, E; discriminate.
    + constructor; auto. constructor. unfold ob_le. rewrite E. discriminate.
    + constructor; [apply IH; auto|].
      destruct r as [|z r']; cbn [eins_sorted].
      * constructor. unfold ob_le. rewrite erow_cmp_antisym, E. discriminate.
      * inversion Hd; subst. destruct (erow_cmp ob x z); constructor; auto;
          unfold ob_le; rewrite erow_cmp_antisym, E; discriminate.
Qed.

Lemma esort_sorted : forall ob l, Sorted (ob_le ob) (esort ob l).
Proof.
  intros ob l. unfold esort.
  assert (G : forall acc, Sorted (ob_le ob) acc -> Sorted (ob_le ob) (fold_left (fun acc x => eins_sorted ob x acc) l acc)).
  { induction l as [|x r IH]; intros acc S; cbn; auto. apply IH. apply eins_sorted_sorted; auto. }
  apply G. constructor.
Qed.

(* The comparator is NOT transitive on arbitrary rows (numbers compare numerically, anything else lexically: "10" < "1x" < "2"
   but "2" < "10"), so transitivity is a hypothesis about the rows at hand: it holds on homogeneous key columns (all integers,
   or all non-numeric strings).  trans_onb decides it for a given list. *)
Definition trans_on (ob : list (var * bool)) (l : list mu) : Prop :=
  forall a b c, In a l -> In b l -> In c l -> ob_le ob a b -> ob_le ob b c -> ob_le ob a c.
Definition ob_leb (ob : list (var * bool)) (a b : mu) : bool := match erow_cmp ob a b with Gt => false | _ => true end.
Definition trans_onb (ob : list (var * bool)) (l : list mu) : bool :=
  forallb (fun a => forallb (fun b => forallb (fun c => negb (ob_leb ob a b && ob_leb ob b c) || ob_leb ob a c) l) l) l.
Lemma ob_leb_spec : forall ob a b, ob_leb ob a b = true <-> ob_le ob a b.
Proof. intros. unfold ob_leb, ob_le. destruct (erow_cmp ob a b); split; intro H; try reflexivity; try discriminate; exfalso; apply H; reflexivity. Qed.
Lemma trans_onb_spec : forall ob l, trans_onb ob l = true -> trans_on ob l.
Proof.
  intros ob l H a b c Ha Hb Hc L1 L2. unfold trans_onb in H. rewrite forallb_forall in H. specialize (H a Ha).
  rewrite forallb_forall in H. specialize (H b Hb). rewrite forallb_forall in H. specialize (H c Hc).
  apply ob_leb_spec in L1. apply ob_leb_spec in L2. rewrite L1, L2 in H. cbn in H. apply ob_leb_spec. exact H.
Qed.
Lemma trans_on_perm : forall ob l l', Permutation l l' -> trans_on ob l -> trans_on ob l'.
Proof.
  intros ob l l' P T a b c Ha Hb Hc. apply T; eapply Permutation_in; try (apply Permutation_sym; exact P); assumption.
Qed.

Lemma Sorted_SS_on {A} (R : A -> A -> Prop) : forall l, Sorted R l ->
  (forall a b c, In a l -> In b l -> In c l -> R a b -> R b c -> R a c) -> StronglySorted R l.
Proof.
  induction 1 as [|a r S IH Hd]; intros T; constructor.
  - apply IH. intros x y z Hx Hy Hz. apply T; right; auto.
  - assert (SSr : StronglySorted R r) by (apply IH; intros x y z Hx Hy Hz; apply T; right; auto).
    destruct r as [|b r']; [constructor|]. inversion Hd as [|? ? Rab]; subst. inversion SSr as [|? ? _ Fb]; subst.
    constructor; [exact Rab|]. rewrite Forall_forall in *. intros c Hc.
    apply (T a b c); [left; auto | right; left; auto | right; right; auto | exact Rab | apply Fb; exact Hc].
Qed.

(* on rows where the comparator is transitive, every earlier row sorts before every later one *)
Lemma esort_strongly_sorted : forall ob l, trans_on ob l -> StronglySorted (ob_le ob) (esort ob l).
Proof.
  intros ob l T. apply Sorted_SS_on; [apply esort_sorted|].
  intros a b c Ha Hb Hc. apply T; (eapply Permutation_in; [apply esort_perm|]); eassumption.
Qed.

(* ---- DISTINCT on the projected columns ---- *)
Lemma dedup_map_commute {A B} (f : A -> B) (eqa : A -> A -> bool) (eqb' : B -> B -> bool) :
  (forall x y, eqa x y = eqb' (f x) (f y)) ->
  forall l, map f (dedup eqa l) = dedup eqb' (map f l).
Proof.
  intros H. induction l as [|x r IH]; cbn; auto. f_equal. rewrite <- IH.
  generalize (dedup eqa r). intro d. induction d as [|y d IHd]; cbn; auto.
  rewrite H. destruct (eqb' (f x) (f y)); cbn; [apply IHd | f_equal; apply IHd].
Qed.

Definition proj_eq (cols : list var) (a b : mu) : bool := mu_eqb (restrict cols a) (restrict cols b).

Lemma distinct_spec : forall cols rows,
  let out := dedup (proj_eq cols) rows in
  NoDup (map (restrict cols) out) /\
  (forall r, In r out -> In r rows) /\
  (forall r, In r rows -> exists r', In r' out /\ restrict cols r' = restrict cols r).
Proof.
  intros cols rows out. unfold out.
  pose proof (dedup_map_commute (restrict cols) (proj_eq cols) mu_eqb (fun x y => eq_refl) rows) as E.
  split; [rewrite E; apply dedup_NoDup; apply mu_eqb_eq|]. split.
  - clear E out. induction rows as [|x r IH]; cbn; [tauto|]. intros y [H|H]; [left; auto|].
    apply filter_In in H. destruct H as [H _]. right. apply IH. exact H.
  - intros r Hr. assert (H : In (restrict cols r) (map (restrict cols) (dedup (proj_eq cols) rows))).
    { rewrite E. apply (dedup_In _ mu_eqb_eq). apply in_map. exact Hr. }
    apply in_map_iff in H. destruct H as (r' & E' & H'). eauto.
Qed.

(* ---- LIMIT ---- *)
Lemma limit_prefix {A} : forall n (l : list A), exists rest, l = firstn n l ++ rest /\ List.length (firstn n l) = Nat.min n (List.length l).
Proof. intros n l. exists (skipn n l). split; [symmetry; apply firstn_skipn | apply firstn_length]. Qed.

(* ---- GROUP BY: a group is exactly the input rows with its key, in input order ---- *)
Lemma key_eqb_eq : forall a b, key_eqb a b = true <-> a = b.
Proof.
  induction a as [|[x|] r IH]; intros [|[y|] r']; cbn; try (split; [discriminate | intro H; inversion H]); try tauto.
  - rewrite andb_true_iff, term_eqb_eq, IH. split; [intros [? ?]; subst; auto | intro H; inversion H; auto].
  - rewrite IH. split; [intro; subst; auto | intro H; inversion H; auto].
Qed.

Lemma key_eqb_refl : forall k, key_eqb k k = true.
Proof. intro k. apply key_eqb_eq. reflexivity. Qed.
Lemma key_eqb_sym : forall a b, key_eqb a b = key_eqb b a.
Proof.
  intros a b. destruct (key_eqb a b) eqn:E.
  - apply key_eqb_eq in E. subst. symmetry. apply key_eqb_refl.
  - destruct (key_eqb b a) eqn:E'; auto. apply key_eqb_eq in E'. subst. rewrite key_eqb_refl in E. discriminate.
Qed.

Fixpoint glookup (gs : list (list (option term) * list mu)) (k : list (option term)) : list mu :=
  match gs with
  | [] => []
  | (k0, ms) :: r => if key_eqb k k0 then ms else glookup r k
  end.

Lemma glookup_add : forall k m gs k',
  glookup (add_to_groups k m gs) k' = if key_eqb k' k then glookup gs k ++ [m] else glookup gs k'.
Proof.
  intros k m. induction gs as [|[k0 ms0] gs IH]; intros k'; cbn [add_to_groups glookup].
  - destruct (key_eqb k' k); reflexivity.
  - destruct (key_eqb k k0) eqn:E; cbn [glookup].
    + apply key_eqb_eq in E. subst k0. destruct (key_eqb k' k); reflexivity.
    + rewrite IH. destruct (key_eqb k' k0) eqn:E1.
      * apply key_eqb_eq in E1. subst k0. rewrite key_eqb_sym, E. reflexivity.
      * reflexivity.
Qed.

Lemma keys_add : forall k m gs k', In k' (map fst (add_to_groups k m gs)) <-> k' = k \/ In k' (map fst gs).
Proof.
  intros k m. induction gs as [|[k0 ms0] gs IH]; intros k'; cbn [add_to_groups map fst In].
  - intuition.
  - destruct (key_eqb k k0) eqn:E; cbn [map fst In].
    + apply key_eqb_eq in E. subst. intuition.
    + rewrite IH. intuition.
Qed.

Lemma keys_add_nodup : forall k m gs, NoDup (map fst gs) -> NoDup (map fst (add_to_groups k m gs)).
Proof.
  intros k m. induction gs as [|[k0 ms0] gs IH]; intros N; cbn [add_to_groups map fst].
  - constructor; [intros [] | constructor].
  - inversion N; subst. destruct (key_eqb k k0) eqn:E; cbn [map fst]; [constructor; auto|].
    constructor; [|apply IH; auto]. intro H. apply keys_add in H. destruct H as [H|H]; [|contradiction].
    subst. rewrite key_eqb_refl in E. discriminate.
Qed.

Lemma in_groups_lookup : forall gs k ms, NoDup (map fst gs) ->
  (In (k, ms) gs <-> In k (map fst gs) /\ glookup gs k = ms).
Proof.
  induction gs as [|[k0 ms0] gs IH]; intros k ms N; cbn [In map fst glookup]; [tauto|].
  inversion N; subst. destruct (key_eqb k k0) eqn:E.
  - apply key_eqb_eq in E. subst k0. split.
    + intros [H|H]; [inversion H; subst; auto|]. exfalso. apply H1. apply in_map_iff. exists (k, ms). auto.
    + intros [_ H]. subst. left; auto.
  - assert (D : k0 <> k) by (intro; subst; rewrite key_eqb_refl in E; discriminate).
    rewrite (IH k ms H2). split.
    + intros [H|H]; [inversion H; congruence | tauto].
    + intros [[H|H] H']; [congruence | right; auto].
Qed.

Theorem groups_of_spec : forall gb rows k ms,
  In (k, ms) (groups_of gb rows) <-> (ms <> [] /\ ms = filter (fun m => key_eqb (group_key gb m) k) rows).
Proof.
  intros gb rows. unfold groups_of.
  assert (G : forall rows gs, NoDup (map fst gs) ->
     let out := fold_left (fun gs m => add_to_groups (group_key gb m) m gs) rows gs in
     NoDup (map fst out) /\
     (forall k, In k (map fst out) <-> In k (map fst gs) \/ exists r, In r rows /\ group_key gb r = k) /\
     (forall k, glookup out k = glookup gs k ++ filter (fun m => key_eqb (group_key gb m) k) rows)).
  { clear rows. induction rows as [|r rows IH]; intros gs N; cbn [fold_left filter].
    - split; [exact N|]. split.
      + intro k. split; [auto|]. intros [H|(r & [] & _)]. exact H.
      + intro k. rewrite app_nil_r. reflexivity.
    - destruct (IH (add_to_groups (group_key gb r) r gs) (keys_add_nodup _ _ _ N)) as (I1 & I2 & I3).
      split; [exact I1|]. split.
      + intro k. rewrite I2, keys_add. split.
        * intros [[H|H]|(r' & H & E)]; [right; exists r; split; [left|]; auto | left; auto | right; exists r'; split; [right|]; auto].
        * intros [H|(r' & [H|H] & E)]; [left; right; auto | subst; left; left; auto | right; eauto].
      + intro k. rewrite I3, glookup_add. rewrite (key_eqb_sym k (group_key gb r)).
        destruct (key_eqb (group_key gb r) k) eqn:E.
        * apply key_eqb_eq in E. subst. rewrite <- app_assoc. reflexivity.
        * reflexivity. }
  intros k ms. destruct (G rows [] (NoDup_nil _)) as (N & K & L). cbv zeta in *.
  rewrite (in_groups_lookup _ k ms N), K, L. cbn [map glookup app In]. split.
  - intros [[[]|(r & Hr & E)] H]. subst ms. split; auto.
    intro F. assert (In r (filter (fun m => key_eqb (group_key gb m) k) rows)).
    { apply filter_In. split; auto. subst k. apply key_eqb_refl. }
    rewrite F in H. contradiction.
  - intros [H1 H2]. split; auto. right.
    destruct (filter (fun m => key_eqb (group_key gb m) k) rows) as [|r l] eqn:F; [congruence|].
    assert (Hr : In r (filter (fun m => key_eqb (group_key gb m) k) rows)) by (rewrite F; left; auto).
    apply filter_In in Hr. destruct Hr as [Hr E]. apply key_eqb_eq in E. eauto.
Qed.

(* ---- the final answer of a SELECT without aggregation and without a cut ---- *)
Lemma render_restrict : forall cols rows, render cols (map (restrict cols) rows) = render cols rows.
Proof.
  intros cols rows. unfold render. rewrite map_map. apply map_ext. intro m.
  apply map_ext_in. intros x Hx. rewrite lookup_restrict. rewrite (proj2 (mem_var_in x cols) Hx). reflexivity.
Qed.

Definition plain_sel (s : sel) : bool :=
  match s with
  | Sel _ pr _ gb _ lim =>
      match aggs_of pr, gb, lim with [], [], None => true | _, _, _ => false end
  end.

Theorem answer_nolimit : forall s rows rows', plain_sel s = true -> rows ≡ₚ rows' ->
  finalize_select s rows ≡ₚ render (columns s) (modifiers s rows').
Proof.
  intros [d pr w gb ob lim] rows rows' PS P. unfold plain_sel in PS.
  destruct (aggs_of pr) eqn:Ea; [|discriminate]. destruct gb; [|discriminate]. destruct lim; [discriminate|].
  unfold finalize_select, modifiers, modifiers_nolimit, apply_limit, eaggregate, aggregate. rewrite Ea.
  set (cols := columns (Sel d pr w [] ob None)).
  assert (P1 : map (restrict cols) (esort ob rows) ≡ₚ map (restrict cols) (order_rows ob rows')).
  { apply Permutation_map. eapply perm_trans; [apply esort_perm|]. eapply perm_trans; [exact P|].
    apply Permutation_sym. apply order_rows_perm. }
  destruct d.
  - rewrite <- (render_restrict cols (dedup _ _)).
    rewrite (dedup_map_commute (restrict cols) (fun a b => mu_eqb (restrict cols a) (restrict cols b)) mu_eqb (fun x y => eq_refl)).
    unfold render. apply Permutation_map. apply dedup_perm. exact P1.
  - rewrite <- (render_restrict cols (esort ob rows)). unfold render. apply Permutation_map. exact P1.
Qed.

Lemma SS_filter {A} (R : A -> A -> Prop) (f : A -> bool) : forall l, StronglySorted R l -> StronglySorted R (filter f l).
Proof.
  induction l as [|x r IH]; intros S; cbn; [constructor|]. inversion S; subst.
  destruct (f x); [|auto]. constructor; auto. rewrite Forall_forall in *. intros y Hy. apply filter_In in Hy. apply H2. tauto.
Qed.

Lemma SS_dedup {A} (R : A -> A -> Prop) (eqb : A -> A -> bool) : forall l, StronglySorted R l -> StronglySorted R (dedup eqb l).
Proof.
  induction l as [|x r IH]; intros S; cbn; [constructor|]. inversion S; subst.
  constructor; [apply SS_filter; auto|]. rewrite Forall_forall in *. intros y Hy. apply filter_In in Hy. destruct Hy as [Hy _].
  apply H2. clear - Hy. induction r as [|z r IHr]; cbn in *; [contradiction|]. destruct Hy as [Hy|Hy]; [left; auto|].
  apply filter_In in Hy. right. apply IHr. tauto.
Qed.

(* the sequence finalize_select renders is sorted by the keys: every earlier row sorts before every later one, on key
   columns where the comparator is transitive on the solutions at hand (homogeneous columns: all integers, or all non-numeric strings) *)
Theorem answer_sorted : forall s rows, plain_sel s = true ->
  let ob := match s with Sel _ _ _ _ ob _ => ob end in
  trans_on ob rows ->
  exists seq, finalize_select s rows = render (columns s) seq /\ StronglySorted (ob_le ob) seq.
Proof.
  intros [d pr w gb ob lim] rows PS ob' T. unfold plain_sel in PS. subst ob'.
  destruct (aggs_of pr) eqn:Ea; [|discriminate]. destruct gb; [|discriminate]. destruct lim; [discriminate|].
  unfold finalize_select, eaggregate. rewrite Ea.
  destruct d; eexists; (split; [reflexivity|]).
  - apply SS_dedup. apply esort_strongly_sorted. exact T.
  - apply esort_strongly_sorted. exact T.
Qed.

(* ---- LIMIT: the answer is a legal cut ---- *)
Definition nolimit_sel (s : sel) : sel := match s with Sel d pr w gb ob _ => Sel d pr w gb ob None end.
Definition noagg_sel (s : sel) : bool :=
  match s with Sel _ pr _ gb _ _ => match aggs_of pr, gb with [], [] => true | _, _ => false end end.

Definition apply_limit_rows {A} (l : option N) (r : list A) : list A :=
  match l with Some n => firstn (N.to_nat n) r | None => r end.

Lemma firstn_map {A B} (f : A -> B) : forall n l, firstn n (map f l) = map f (firstn n l).
Proof. induction n; intros [|x l]; cbn; auto. f_equal. apply IHn. Qed.

Lemma ob_le_nil_trans : forall l, trans_on [] l.
Proof. intros l a b c _ _ _ _ _. unfold ob_le. cbn. discriminate. Qed.

(* SELECT [DISTINCT] cols .. [ORDER BY keys] [LIMIT n] without aggregates: what finalize_select returns is the first
   min(n, total) rows of SOME sequence that (i) is a permutation of the algebra's full answer (before the cut) and
   (ii) is sorted by the keys - a legal cut.  Without ORDER BY the comparator is trivially transitive (ob_le_nil_trans). *)
Theorem answer_limit : forall s rows rows', noagg_sel s = true -> rows ≡ₚ rows' ->
  let ob := match s with Sel _ _ _ _ ob _ => ob end in
  let lim := match s with Sel _ _ _ _ _ l => l end in
  trans_on ob rows ->
  exists seq,
    finalize_select s rows = apply_limit_rows lim (render (columns s) seq) /\
    render (columns s) seq ≡ₚ render (columns s) (modifiers (nolimit_sel s) rows') /\
    StronglySorted (ob_le ob) seq.
Proof.
  intros [d pr w gb ob lim] rows rows' NA P ob' lim' T. subst ob' lim'. unfold noagg_sel in NA.
  destruct (aggs_of pr) eqn:Ea; [|discriminate]. destruct gb; [|discriminate].
  assert (PS : plain_sel (Sel d pr w [] ob None) = true) by (unfold plain_sel; rewrite Ea; reflexivity).
  destruct (answer_sorted (Sel d pr w [] ob None) rows PS T) as (seq & E & S).
  exists seq. split; [|split; auto].
  - unfold finalize_select, eaggregate in E. rewrite Ea in E.
    unfold finalize_select, eaggregate. rewrite Ea.
    change (columns (Sel d pr w [] ob lim)) with (columns (Sel d pr w [] ob None)).
    unfold apply_limit_rows. destruct lim as [n|]; [|exact E].
    etransitivity; [|apply (f_equal (firstn (N.to_nat n))); exact E].
    unfold render. rewrite firstn_map. reflexivity.
  - change (columns (Sel d pr w [] ob lim)) with (columns (Sel d pr w [] ob None)). cbn [nolimit_sel].
    rewrite <- E. apply (answer_nolimit (Sel d pr w [] ob None) rows rows' PS P).
Qed.
