(* The syntactic classes of the known findings of C01 / C02, as boolean functions on the syntax tree (evaluated by the
   check as the classifier of known findings, and compared on every case with the Python classifier of
   checks/c01_lib.py).  Each names a mechanism:
     1 subselect-in-graph-var : a sub-select occurs inside GRAPH ?var
     2 undef-filter-sibling   : a FILTER / BIND argument of a group mentions a variable its own group does not
                                certainly bind while a pattern joined before that group (or the enclosing GRAPH ?var) may bind it
   (the former classes 3 bind-target-sibling, 4 not-of-error, 5 bind-arg-unbound were repaired by 1fdcd07 / 56f413c)
   `wellscoped`: FILTER / BIND expressions only mention variables in scope of their own group (the property's quantifier). *)
Require Import KV.Sparql.Base KV.Sparql.Syntax KV.Sparql.Algebra KV.Sparql.Engine KV.Sparql.PlanEquiv KV.Sparql.Sem.

Definition union_v (a b : list var) : list var := fold_left (fun acc x => if mem_var x acc then acc else acc ++ [x]) b a.
Definition subset_v (a b : list var) : bool := forallb (fun x => mem_var x b) a.

(* (certainly bound, in scope) of a pattern *)
Fixpoint pscope (p : pat) {struct p} : list var * list var :=
  match p with
  | PBgp tps => let vs := fold_left (fun acc t => union_v acc (tp_vars t)) tps [] in (vs, vs)
  | PGroup es =>
      (fix go (es : list pat) (cert poss : list var) {struct es} : list var * list var :=
         match es with
         | [] => (cert, poss)
         | e :: r =>
             match e with
             | PFilter _ => go r cert poss
             | PBind args v =>
                 let cert' := if subset_v (barg_vars args) cert && negb (mem_var v poss) then union_v cert [v] else cert in
                 go r cert' (union_v poss [v])
             | _ => let '(c, q) := pscope e in go r (union_v cert c) (union_v poss q)
             end
         end) es [] []
  | PUnion gs =>
      (fix go (gs : list pat) (first : bool) (cert poss : list var) {struct gs} : list var * list var :=
         match gs with
         | [] => (cert, poss)
         | g :: r => let '(c, q) := pscope g in go r false (if first then c else inter cert c) (union_v poss q)
         end) gs true [] []
  | PGraph g q => let '(c, s) := pscope q in
                  match g with TV x => (union_v c [x], union_v s [x]) | TC _ => (c, s) end
  | PFilter _ => ([], [])
  | PBind _ v => ([], [v])
  | PValues vs rows =>
      (filter (fun v => forallb (fun row => match lookup (values_row vs row) v with Some _ => true | None => false end) rows) vs, vs)
  | PSub s =>
      match s with
      | Sel _ None w _ _ _ => pscope w
      | Sel _ (Some items) w gb _ _ =>
          let '(ci, _) := pscope w in
          fold_left (fun acc i =>
                       let '(c, q) := acc in
                       match i with
                       | PVar x => ((if mem_var x ci then union_v c [x] else c), union_v q [x])
                       | PAgg k x al =>
                           ((match k with
                             | ASum => union_v c [al]
                             | _ => match gb with [] => c | _ => if mem_var x ci then union_v c [al] else c end
                             end), union_v q [al])
                       end) items ([], [])
      end
  end.

Definition minus_v (a b : list var) : list var := filter (fun x => negb (mem_var x b)) a.

(* classes hit (codes 1..2, with repetitions) and wellscopedness *)
Fixpoint classes (p : pat) (inb : list var) (uvg : bool) {struct p} : list N * bool :=
  match p with
  | PBgp _ | PValues _ _ => ([], true)
  | PGroup es =>
      (fix go (es : list pat) (cert poss : list var) (fs : list expr) (acc : list N) (ws : bool) {struct es} : list N * bool :=
         match es with
         | [] =>
             fold_left (fun r f =>
                          let '(acc, ws) := r in
                          let vs := expr_vars f in
                          (acc ++ (if existsb (fun v => negb (mem_var v cert) && mem_var v inb) vs then [2%N] else []),
                           ws && subset_v vs poss)) fs (acc, ws)
         | e :: r =>
             match e with
             | PFilter f => go r cert poss (fs ++ [f]) acc ws
             | PBind args v =>
                 let avs := barg_vars args in
                 let acc' := acc ++ (if existsb (fun a => negb (mem_var a cert) && mem_var a inb) avs then [2%N] else []) in
                 let ws' := ws && subset_v avs poss && negb (mem_var v poss) in
                 let cert' := if subset_v avs cert && negb (mem_var v poss) then union_v cert [v] else cert in
                 go r cert' (union_v poss [v]) fs acc' ws'
             | _ =>
                 let '(a, w) := classes e (union_v inb poss) uvg in
                 let '(c, q) := pscope e in
                 go r (union_v cert c) (union_v poss q) fs (acc ++ a) (ws && w)
             end
         end) es [] [] [] [] true
  | PUnion gs =>
      (fix go (gs : list pat) (acc : list N) (ws : bool) {struct gs} : list N * bool :=
         match gs with
         | [] => (acc, ws)
         | g :: r => let '(a, w) := classes g inb uvg in go r (acc ++ a) (ws && w)
         end) gs [] true
  | PGraph g q =>
      match g with
      | TV x => classes q (union_v inb [x]) true
      | TC _ => classes q inb false
      end
  | PFilter f => ([], match expr_vars f with [] => true | _ => false end)
  | PBind args v =>
      (* the group { BIND }: nothing precedes it *)
      let avs := barg_vars args in
      ((if existsb (fun a => mem_var a inb) avs then [2%N] else []),
       subset_v avs [])
  | PSub s =>
      match s with
      | Sel _ _ w _ _ _ =>
          let '(a, ws) := classes w [] uvg in
          ((if uvg then [1%N] else []) ++ a, ws)
      end
  end.

Definition classify (q : query) : list N * bool := classes (sel_where (q_sel q)) [] false.
