(* Syntax trees of the supported SELECT fragment (what the user writes), datasets and dataset views. *)
Require Import KV.Sparql.Base.

Inductive tm := TV (x : var) | TC (c : term).
Definition tp := (tm * tm * tm)%type.

Inductive cmpop := OEq | ONe | OLt | OLe | OGt | OGe.

(* FILTER expressions: comparison of a variable with a variable or a constant, && || ! *)
Inductive expr :=
| ECmp (op : cmpop) (l : var) (r : tm)
| EAnd (a b : expr)
| EOr (a b : expr)
| ENot (a : expr).

(* BIND(CONCAT(args) AS ?v) *)
Inductive barg := BV (x : var) | BC (c : term).

Inductive aggk := ASum | AMin | AMax | AAvg.
Inductive pitem := PVar (x : var) | PAgg (k : aggk) (x : var) (alias : var).

Inductive pat :=
| PBgp (tps : list tp)                       (* a block of triple patterns *)
| PGroup (es : list pat)                     (* { e1 ... en }; PFilter / PBind occur as elements *)
| PUnion (gs : list pat)                     (* {..} UNION {..} ... *)
| PGraph (g : tm) (p : pat)                  (* GRAPH g {..} *)
| PFilter (e : expr)
| PBind (args : list barg) (v : var)
| PValues (vs : list var) (rows : list (list (option term)))
| PSub (s : sel)                             (* { SELECT ... } *)
with sel :=
| Sel (distinct : bool) (proj : option (list pitem))   (* None = SELECT * *)
      (w : pat) (group_by : list var) (order_by : list (var * bool)) (* true = DESC *)
      (limit : option N).

Definition sel_where (s : sel) : pat := match s with Sel _ _ w _ _ _ => w end.

Definition triple := (term * term * term)%type.

(* the stored dataset: the default graph and the catalogue of named graphs (possibly empty ones) *)
Record dataset := { d_default : list triple; d_named : list (term * list triple) }.

(* a query: dataset clauses + the select *)
Record query := { q_from : list term; q_from_named : list term; q_sel : sel }.
