(* The logical plan produced by the lowering denotes the algebra's evaluation of the syntax tree (on fragB). *)
Require Import KV.Sparql.Base KV.Sparql.Syntax KV.Sparql.MuProofs KV.Sparql.JoinProofs KV.Sparql.Algebra KV.Sparql.Engine
        KV.Sparql.Lowering KV.Sparql.PlanEquiv KV.Sparql.Sem KV.Sparql.Bridge KV.Sparql.ScanProofs KV.Sparql.BgpProofs
        KV.Sparql.HashProofs KV.Sparql.SemProofs KV.Sparql.ExecLemmas.
Require Import Lia Permutation.

Section PatInd.
  Variable P : pat -> Prop.
  Hypothesis HBgp : forall tps, P (PBgp tps).
  Hypothesis HGroup : forall es, Forall P es -> P (PGroup es).
  Hypothesis HUnion : forall gs, Forall P gs -> P (PUnion gs).
  Hypothesis HGraph : forall g q, P q -> P (PGraph g q).
  Hypothesis HFilter : forall f, P (PFilter f).
  Hypothesis HBind : forall args v, P (PBind args v).
  Hypothesis HValues : forall vs rows, P (PValues vs rows).
  Hypothesis HSub : forall d pr w gb ob lim, P w -> P (PSub (Sel d pr w gb ob lim)).

  Fixpoint pat_ind' (p : pat) : P p :=
    match p with
    | PBgp tps => HBgp tps
    | PGroup es => HGroup es ((fix go (es : list pat) : Forall P es :=
                                 match es with [] => Forall_nil P | e :: r => Forall_cons e (pat_ind' e) (go r) end) es)
    | PUnion gs => HUnion gs ((fix go (es : list pat) : Forall P es :=
                                 match es with [] => Forall_nil P | e :: r => Forall_cons e (pat_ind' e) (go r) end) gs)
    | PGraph g q => HGraph g q (pat_ind' q)
    | PFilter f => HFilter f
    | PBind args v => HBind args v
    | PValues vs rows => HValues vs rows
    | PSub s => match s with Sel d pr w gb ob lim => HSub d pr w gb ob lim (pat_ind' w) end
    end.
End PatInd.

(* ---- unfolding the anonymous loops ---- *)
Lemma eval_PGroup : forall vw active es, eval vw active (PGroup es) = eval_loop vw active es [[]] [].
Proof.
  intros vw active es. cbn [eval].
  match goal with |- ?f es ?G0 ?fs0 = _ => assert (H : forall es G fs, f es G fs = eval_loop vw active es G fs) end.
  { clear es. induction es as [|e r IH]; intros G fs; cbn [eval_loop]; [reflexivity|]. destruct e; apply IH. }
  apply H.
Qed.

Lemma agree_PGroup : forall vw active es, agree vw active (PGroup es) = agree_loop vw active es [[]] [].
Proof.
  intros vw active es. cbn [agree].
  match goal with |- ?f es ?G0 ?fs0 = _ => assert (H : forall es G fs, f es G fs = agree_loop vw active es G fs) end.
  { clear es. induction es as [|e r IH]; intros G fs; cbn [agree_loop]; [reflexivity|].
    destruct e; try (rewrite IH; reflexivity); apply IH. }
  apply H.
Qed.

Lemma eval_PUnion : forall vw active gs, eval vw active (PUnion gs) = flat_map (eval vw active) gs.
Proof.
  intros. cbn [eval]. induction gs as [|g r IH]; cbn [flat_map]; [reflexivity|]. rewrite <- IH. reflexivity.
Qed.

Lemma agree_PUnion : forall vw active gs, agree vw active (PUnion gs) = forallb (agree vw active) gs.
Proof.
  intros. cbn [agree]. induction gs as [|g r IH]; cbn [forallb]; [reflexivity|]. rewrite <- IH. reflexivity.
Qed.

Lemma eval_PGraph_var : forall vw active x q,
  eval vw active (PGraph (TV x) q) = flat_map (fun gt => join (eval vw (Some (fst gt)) q) [[(x, fst gt)]]) (v_named vw).
Proof.
  intros. cbn [eval]. induction (v_named vw) as [|[g ts] r IH]; cbn [flat_map fst]; [reflexivity|]. rewrite <- IH. reflexivity.
Qed.

Lemma agree_PGraph_var : forall vw active x q,
  agree vw active (PGraph (TV x) q) = forallb (fun gt => agree vw (Some (fst gt)) q) (v_named vw).
Proof.
  intros. cbn [agree]. induction (v_named vw) as [|[g ts] r IH]; cbn [forallb fst]; [reflexivity|]. rewrite <- IH. reflexivity.
Qed.

Lemma fragB_PGroup : forall gv es, fragB gv (PGroup es) = fragB_loop gv es [].
Proof.
  intros gv es. cbn [fragB].
  match goal with |- ?f es ?a = _ => assert (H : forall es pacc, f es pacc = fragB_loop gv es pacc) end.
  { clear es. induction es as [|e r IH]; intros pacc; cbn [fragB_loop]; [reflexivity|]. rewrite IH. reflexivity. }
  apply H.
Qed.

Lemma fragB_loop_elems : forall gv es pacc, fragB_loop gv es pacc = true -> forall e, In e es -> fragB gv e = true.
Proof.
  intros gv es. induction es as [|e0 r IH]; intros pacc H e He; [contradiction|]. cbn [fragB_loop] in H.
  apply andb_true_iff in H. destruct H as [H Hr]. apply andb_true_iff in H. destruct H as [H0 _].
  destruct He as [He|He]; [subst; auto | eapply IH; eauto].
Qed.

Lemma fragB_PUnion : forall gv gs, fragB gv (PUnion gs) = forallb (fragB gv) gs.
Proof.
  intros. cbn [fragB]. induction gs as [|e r IH]; cbn [forallb]; [reflexivity|]. rewrite <- IH. reflexivity.
Qed.

Lemma shape_PGroup : forall es, shape (PGroup es) = collapse (flat_elems es).
Proof.
  intros. reflexivity.
Qed.

Lemma shape_PUnion : forall gs, shape (PUnion gs) = match gs with [g] => shape g | _ => GUnion (map shape gs) end.
Proof.
  intros. destruct gs as [|g [|g' r]]; reflexivity.
Qed.

Lemma lower_GJoin : forall ps scope, lower (GJoin ps) scope = lower_loop scope ps LUnit [].
Proof.
  intros ps scope. cbn [lower].
  match goal with |- ?f ps ?p0 ?fs0 = _ => assert (H : forall ps plan fs, f ps plan fs = lower_loop scope ps plan fs) end.
  { clear ps. induction ps as [|p r IH]; intros plan fs; cbn [lower_loop]; [reflexivity|]. destruct p; apply IH. }
  apply H.
Qed.

Lemma lower_GUnion : forall bs scope, lower (GUnion bs) scope = LUnion (map (fun b => lower b scope) bs).
Proof.
  intros. reflexivity.
Qed.

Lemma append_join_unit_l : forall r, append_join LUnit r = r.
Proof. reflexivity. Qed.

Lemma lower_collapse : forall gs scope, lower (collapse gs) scope = lower_loop scope gs LUnit [].
Proof.
  intros gs scope. destruct gs as [|g [|g' r]].
  - reflexivity.
  - cbn [collapse lower_loop]. destruct g; try reflexivity.
  - cbn [collapse]. apply lower_GJoin.
Qed.

(* ---- the Spec's view and the engine's DatasetView denote the same dataset ---- *)
Lemma graph_of_in : forall l n ts, graph_of l n = Some ts -> In (n, ts) l.
Proof.
  induction l as [|[m us] r IH]; intros n ts H; cbn in H; [discriminate|].
  destruct (term_eqb m n) eqn:E; [apply term_eqb_eq in E; inversion H; subst; left; auto | right; auto].
Qed.

Lemma in_graph_of : forall l n ts, NoDup (map fst l) -> In (n, ts) l -> graph_of l n = Some ts.
Proof.
  induction l as [|[m us] r IH]; intros n ts N H; [contradiction|]. cbn in *. inversion N; subst.
  destruct H as [H|H].
  - inversion H; subst. rewrite term_eqb_refl. reflexivity.
  - destruct (term_eqb m n) eqn:E; [|apply IH; auto]. apply term_eqb_eq in E. subst.
    exfalso. apply H2. apply in_map_iff. exists (n, ts). split; auto.
Qed.

Lemma graph_of_none : forall l n, graph_of l n = None <-> ~ In n (map fst l).
Proof.
  induction l as [|[m us] r IH]; intros n; cbn; [tauto|].
  destruct (term_eqb m n) eqn:E.
  - apply term_eqb_eq in E. subst. split; [discriminate | intro H; exfalso; apply H; left; auto].
  - apply term_eqb_neq in E. rewrite IH. tauto.
Qed.

Lemma graph_of_filter : forall (P : term -> bool) l n,
  graph_of (filter (fun nt => P (fst nt)) l) n = if P n then graph_of l n else None.
Proof.
  induction l as [|[m us] r IH]; intros n; cbn; [destruct (P n); auto|].
  destruct (P m) eqn:Pm; cbn.
  - destruct (term_eqb m n) eqn:E; [apply term_eqb_eq in E; subst; rewrite Pm; auto | apply IH].
  - rewrite IH. destruct (term_eqb m n) eqn:E; auto. apply term_eqb_eq in E. subst. rewrite Pm. reflexivity.
Qed.

Lemma existsb_term_in : forall n l, existsb (term_eqb n) l = true <-> In n l.
Proof.
  intros. rewrite existsb_exists. split.
  - intros (y & Hy & E). apply term_eqb_eq in E. subst. auto.
  - intro H. exists n. split; auto. apply term_eqb_refl.
Qed.

Lemma opt_term_eqb_eq : forall a b, opt_term_eqb a b = true <-> a = b.
Proof.
  intros [a|] [b|]; cbn; try (split; [discriminate | intro H; inversion H]); [|tauto].
  rewrite term_eqb_eq. split; [intro; subst; auto | intro H; inversion H; auto].
Qed.

Section Views.
  Variables (ds : dataset) (from from_named : list term).
  Hypothesis OK : dataset_ok ds.
  Let vw := mk_view ds from from_named.
  Let ev := mk_eview ds from from_named.

  Definition no_clauses : bool := match from, from_named with [], [] => true | _, _ => false end.

  Lemma vw_named : v_named vw = if no_clauses then d_named ds
                                else filter (fun nt => existsb (term_eqb (fst nt)) from_named) (d_named ds).
  Proof. unfold vw, mk_view, no_clauses. destruct from, from_named; reflexivity. Qed.
  Lemma ev_named_eq : ev_named ev = if no_clauses then map fst (d_named ds) else dedup term_eqb from_named.
  Proof. unfold ev, mk_eview, no_clauses. destruct from, from_named; reflexivity. Qed.
  Lemma vw_default : v_default vw = if no_clauses then dedup triple_eqb (d_default ds)
     else dedup triple_eqb (flat_map (fun g => match graph_of (d_named ds) g with Some ts => ts | None => [] end) from).
  Proof. unfold vw, mk_view, no_clauses. destruct from, from_named; reflexivity. Qed.
  Lemma ev_default_eq : ev_default ev = if no_clauses then [None] else dedup opt_term_eqb (map Some from).
  Proof. unfold ev, mk_eview, no_clauses. destruct from, from_named; reflexivity. Qed.

  Lemma graph_of_vw : forall n, graph_of (v_named vw) n =
                                if is_named_visible ev n && graph_exists ds n then graph_of (d_named ds) n else None.
  Proof.
    intro n. rewrite vw_named. unfold is_named_visible, graph_exists. rewrite ev_named_eq. destruct no_clauses.
    - destruct (graph_of (d_named ds) n) eqn:E.
      + apply graph_of_in in E. assert (H : existsb (term_eqb n) (map fst (d_named ds)) = true).
        { apply existsb_term_in. apply in_map_iff. exists (n, l). split; auto. }
        rewrite H. reflexivity.
      + rewrite andb_false_r. reflexivity.
    - rewrite (graph_of_filter (fun m => existsb (term_eqb m) from_named)).
      assert (H : existsb (term_eqb n) (dedup term_eqb from_named) = existsb (term_eqb n) from_named).
      { apply eq_true_iff_eq. rewrite !existsb_term_in. apply (dedup_In _ term_eqb_eq). }
      rewrite H. destruct (existsb (term_eqb n) from_named); cbn [andb]; [|reflexivity].
      destruct (graph_of (d_named ds) n); reflexivity.
  Qed.

  Lemma vis_graph_of : forall n, is_named_visible ev n && graph_exists ds n = true ->
    exists ts, graph_of (v_named vw) n = Some ts /\ graph_triples ds (Some n) = ts /\ active_triples vw (Some n) = ts.
  Proof.
    intros n V. pose proof (graph_of_vw n) as G. rewrite V in G.
    assert (Hex : graph_exists ds n = true) by (apply andb_true_iff in V; tauto).
    unfold graph_exists in Hex. destruct (graph_of (d_named ds) n) as [ts|] eqn:E; [|discriminate].
    exists ts. repeat split; auto.
    - cbn [graph_triples]. rewrite E. reflexivity.
    - cbn [active_triples]. rewrite G. apply dedup_id; [apply triple_eqb_eq|].
      destruct OK as [_ OK2]. eapply OK2. apply graph_of_in. exact E.
  Qed.

  Lemma not_vis_graph_of : forall n, is_named_visible ev n && graph_exists ds n = false -> graph_of (v_named vw) n = None.
  Proof. intros n V. rewrite graph_of_vw, V. reflexivity. Qed.

  Lemma ev_named_nodup : named_nodup ev.
  Proof.
    unfold named_nodup. rewrite ev_named_eq. destruct no_clauses; [destruct OK; auto | apply dedup_NoDup; apply term_eqb_eq].
  Qed.

  Lemma vw_names_nodup : NoDup (map fst (v_named vw)).
  Proof.
    rewrite vw_named. destruct OK as [N _]. destruct no_clauses; auto.
    clear - N. induction (d_named ds) as [|[m us] r IH]; cbn; [constructor|]. inversion N; subst.
    cbn [fst]. destruct (existsb (term_eqb m) from_named); cbn [map fst]; [|auto]. constructor; auto.
    intro H. apply H1. apply in_map_iff in H. destruct H as (y & E & Hy). apply filter_In in Hy.
    apply in_map_iff. exists y. tauto.
  Qed.

  Lemma visible_perm : Permutation (visible_graphs ds ev) (map fst (v_named vw)).
  Proof.
    apply NoDup_Permutation; [apply visible_graphs_nodup; apply ev_named_nodup | apply vw_names_nodup |].
    intro n. rewrite in_visible_graphs. split.
    - intro V. assert (V' : is_named_visible ev n && graph_exists ds n = true) by (apply andb_true_iff; auto).
      destruct (vis_graph_of n V') as (ts & G & _). apply graph_of_in in G. apply in_map_iff. exists (n, ts). auto.
    - intro H. destruct (is_named_visible ev n && graph_exists ds n) eqn:V; [apply andb_true_iff in V; auto|].
      apply not_vis_graph_of in V. apply graph_of_none in V. contradiction.
  Qed.

  Lemma default_perm : Permutation (default_triples ds ev) (v_default vw).
  Proof.
    unfold default_triples. rewrite vw_default, ev_default_eq. destruct no_clauses.
    - cbn [flat_map graph_triples]. rewrite app_nil_r. auto.
    - apply NoDup_Permutation; try (apply dedup_NoDup; apply triple_eqb_eq).
      intro t. rewrite !(dedup_In _ triple_eqb_eq), !in_flat_map. split.
      + intros (g & Hg & Ht). apply (proj1 (dedup_In opt_term_eqb opt_term_eqb_eq _ _)) in Hg.
        apply in_map_iff in Hg. destruct Hg as (n & E & Hn). subst. exists n. split; auto.
      + intros (n & Hn & Ht). exists (Some n). split; auto. apply (proj2 (dedup_In opt_term_eqb opt_term_eqb_eq _ _)).
        apply in_map_iff. exists n. auto.
  Qed.
End Views.

(* ---- well-formedness of the Spec's rows ---- *)
Lemma wf_extend : forall args v m, wf m -> wf (extend args v m).
Proof.
  intros. unfold extend. destruct (lookup m v); auto. destruct (concat_args args m); auto. apply wf_insert; auto.
Qed.

Lemma ins_sorted_perm : forall ob x l, ins_sorted ob x l ≡ₚ x :: l.
Proof.
  induction l as [|y r IH]; cbn; auto. destruct (row_cmp ob x y); auto;
  (eapply perm_trans; [apply perm_skip; exact IH | apply perm_swap]).
Qed.

Lemma order_rows_perm : forall ob l, order_rows ob l ≡ₚ l.
Proof.
  intros ob l. unfold order_rows.
  assert (G : forall acc, fold_left (fun acc x => ins_sorted ob x acc) l acc ≡ₚ acc ++ l).
  { induction l as [|x r IH]; intros acc; cbn; [rewrite app_nil_r; auto|].
    eapply perm_trans; [apply IH|]. eapply perm_trans; [apply Permutation_app_tail; apply ins_sorted_perm|].
    cbn. apply Permutation_middle. }
  apply (G []).
Qed.

Lemma wf_key_row : forall gb k, wf (key_row gb k).
Proof. induction gb as [|v gb IH]; intros [|[t|] k]; cbn; auto. apply wf_insert. apply IH. Qed.

Lemma wf_fold_sagg : forall (aggs : list (aggk * var * var)) (ms : list mu) r, wf r ->
  wf (fold_left (fun r a => let '(k, x, al) := a in
                            match agg_value k x ms with Some t => insert al t r | None => r end) aggs r).
Proof.
  induction aggs as [|[[k x] al] aggs IH]; intros ms r W; cbn; auto.
  apply IH. destruct (agg_value k x ms); [apply wf_insert|]; auto.
Qed.

Lemma aggregate_wf : forall proj gb rows, all_wf rows -> all_wf (aggregate proj gb rows).
Proof.
  intros proj gb rows W. unfold aggregate.
  assert (G : forall gs : list (list (option term) * list mu),
             all_wf (map (fun g => fold_left (fun r a => let '(k, x, al) := a in
                                                         match agg_value k x (snd g) with Some t => insert al t r | None => r end)
                                             (aggs_of proj) (key_row gb (fst g))) gs)).
  { intro gs. unfold all_wf. apply Forall_forall. intros m Hm. apply in_map_iff in Hm. destruct Hm as (g & E & _). subst.
    apply wf_fold_sagg. apply wf_key_row. }
  destruct (aggs_of proj) as [|a aggs] eqn:Ea; destruct gb as [|g gb]; auto; rewrite <- Ea; apply G.
Qed.

Lemma modifiers_wf : forall s rows, all_wf rows -> all_wf (modifiers s rows).
Proof.
  intros [d pr w gb ob lim] rows W. unfold modifiers, modifiers_nolimit.
  assert (W1 : all_wf (map (restrict (columns (Sel d pr w gb ob lim))) (order_rows ob (aggregate pr gb rows)))).
  { apply all_wf_map; [intros; apply wf_restrict; auto|].
    eapply all_wf_perm; [apply Permutation_sym; apply order_rows_perm|]. apply aggregate_wf; auto. }
  assert (W2 : all_wf (if d then dedup mu_eqb (map (restrict (columns (Sel d pr w gb ob lim))) (order_rows ob (aggregate pr gb rows)))
                       else map (restrict (columns (Sel d pr w gb ob lim))) (order_rows ob (aggregate pr gb rows)))).
  { destruct d; auto. eapply all_wf_incl; eauto. apply dedup_incl. }
  unfold apply_limit. destruct lim; auto. eapply all_wf_incl; eauto. apply firstn_incl.
Qed.

Lemma eval_loop_wf : forall vw active es, Forall (fun e => forall active, all_wf (eval vw active e)) es ->
  forall G fs, all_wf G -> all_wf (eval_loop vw active es G fs).
Proof.
  intros vw active es H. induction H as [|e r He Hr IH]; intros G fs W; cbn [eval_loop].
  - apply all_wf_filter; auto.
  - destruct e; try (apply IH; apply join_wf; auto); [apply IH; auto|].
    apply IH. apply all_wf_map; auto. intros; apply wf_extend; auto.
Qed.

Theorem eval_wf : forall vw p active, all_wf (eval vw active p).
Proof.
  intros vw p. induction p using pat_ind'; intros active.
  - cbn [eval]. apply eval_bgp_wf.
  - rewrite eval_PGroup. apply eval_loop_wf; auto. constructor; [exact I | constructor].
  - rewrite eval_PUnion. apply all_wf_flat_map. intros g Hg. rewrite Forall_forall in H. apply H; auto.
  - destruct g as [x|c].
    + rewrite eval_PGraph_var. apply all_wf_flat_map. intros gt _. apply join_wf. auto.
    + cbn [eval]. destruct (graph_of (v_named vw) c); [auto | constructor].
  - cbn [eval]. apply all_wf_filter. constructor; [exact I | constructor].
  - cbn [eval]. constructor; [|constructor]. apply wf_extend. exact I.
  - cbn [eval]. unfold all_wf. apply Forall_forall. intros m Hm. apply in_map_iff in Hm.
    destruct Hm as (row & E & _). subst. apply wf_values_row.
  - cbn [eval]. apply modifiers_wf. auto.
Qed.

(* ---- the variables a solution may bind are in scope ---- *)
Lemma sposs_PGroup : forall es, sposs (PGroup es) = flat_map sposs es.
Proof. intros. cbn [sposs]. induction es as [|e r IH]; cbn [flat_map]; [reflexivity | rewrite <- IH; reflexivity]. Qed.
Lemma sposs_PUnion : forall es, sposs (PUnion es) = flat_map sposs es.
Proof. intros. cbn [sposs]. induction es as [|e r IH]; cbn [flat_map]; [reflexivity | rewrite <- IH; reflexivity]. Qed.

Definition bound_in (Pv : list var) (m : mu) : Prop := forall x w, lookup m x = Some w -> In x Pv.

Lemma extend_bound : forall args v m Pv, bound_in Pv m -> bound_in (Pv ++ [v]) (extend args v m).
Proof.
  intros args v m Pv H x w L. apply in_or_app. unfold extend in L.
  destruct (lookup m v) eqn:E; [left; eapply H; eauto|]. destruct (concat_args args m); [|left; eapply H; eauto].
  rewrite lookup_insert in L. destruct (N.eqb_spec v x); [subst; right; left; auto | left; eapply H; eauto].
Qed.

Lemma loop_poss : forall vw es, Forall (fun e => forall active m, In m (eval vw active e) -> bound_in (sposs e) m) es ->
  forall active G fs Pv, (forall m, In m G -> bound_in Pv m) ->
  forall m, In m (eval_loop vw active es G fs) -> bound_in (Pv ++ flat_map sposs es) m.
Proof.
  intros vw es HP. induction HP as [|e r He Hr IH]; intros active G fs Pv HG m Hm; cbn [eval_loop flat_map] in *.
  - rewrite app_nil_r. apply filter_In in Hm. apply HG. tauto.
  - assert (Other : In m (eval_loop vw active r (join G (eval vw active e)) fs) -> bound_in (Pv ++ sposs e ++ flat_map sposs r) m).
    { intro Hm'. rewrite app_assoc. eapply IH; eauto. intros m' H'. apply in_join in H'. destruct H' as (a & b & Ha & Hb & M).
      intros x w L. rewrite (merge_rows_lookup _ _ _ x M) in L. apply in_or_app.
      destruct (lookup a x) eqn:E; [left; eapply HG; eauto | right; eapply He; eauto]. }
    destruct e; try (apply Other; exact Hm).
    + cbn [sposs app]. eapply IH; eauto.
    + cbn [sposs]. replace (Pv ++ [v] ++ flat_map sposs r) with ((Pv ++ [v]) ++ flat_map sposs r) by (rewrite <- app_assoc; reflexivity).
      eapply IH; eauto. intros m' H'. apply in_map_iff in H'. destruct H' as (m0 & E & H0). subst. apply extend_bound. auto.
Qed.

Lemma in_order_rows : forall ob l m, In m (order_rows ob l) <-> In m l.
Proof.
  intros. split; intro H; [eapply Permutation_in; [apply order_rows_perm | exact H]
                         | eapply Permutation_in; [apply Permutation_sym; apply order_rows_perm | exact H]].
Qed.

Lemma push_in : forall x l y, In y (push x l) <-> y = x \/ In y l.
Proof.
  intros x l y. unfold push. destruct (mem_var x l) eqn:E.
  - apply mem_var_in in E. split; [auto | intros [H|H]; subst; auto].
  - rewrite in_app_iff. cbn. intuition.
Qed.

Lemma star_cols_PGroup : forall es acc, star_cols (PGroup es) acc = fold_left (fun a e => star_cols e a) es acc.
Proof. intros es. cbn [star_cols]. induction es as [|e r IH]; intros acc; cbn [fold_left]; [reflexivity | apply IH]. Qed.
Lemma star_cols_PUnion : forall es acc, star_cols (PUnion es) acc = fold_left (fun a e => star_cols e a) es acc.
Proof. intros es. cbn [star_cols]. induction es as [|e r IH]; intros acc; cbn [fold_left]; [reflexivity | apply IH]. Qed.

Lemma star_cols_sposs_gen : forall p acc x, In x (star_cols p acc) -> In x acc \/ In x (sposs p).
Proof.
  induction p using pat_ind'; intros acc x Hx.
  - cbn [star_cols sposs] in *. revert acc Hx. induction tps as [|[[s pr] o] r IH]; intros acc Hx; cbn [fold_left flat_map] in *; auto.
    apply IH in Hx. destruct Hx as [Hx|Hx]; [|right; apply in_or_app; auto].
    unfold tm_push in Hx.
    assert (T : forall (t : tm) l, In x (match t with TV y => push y l | TC _ => l end) -> In x l \/ In x (tm_vars t)).
    { intros [y|c] l H; cbn; [apply push_in in H; destruct H; [subst; right; left|]; auto | auto]. }
    apply T in Hx. destruct Hx as [Hx|Hx]; [|right; apply in_or_app; left; unfold tp_vars; rewrite !in_app_iff; auto].
    apply T in Hx. destruct Hx as [Hx|Hx]; [|right; apply in_or_app; left; unfold tp_vars; rewrite !in_app_iff; auto].
    apply T in Hx. destruct Hx as [Hx|Hx]; [auto | right; apply in_or_app; left; unfold tp_vars; rewrite !in_app_iff; auto].
  - rewrite star_cols_PGroup in Hx. rewrite sposs_PGroup. revert acc Hx.
    induction H as [|e r He Hr IH]; intros acc Hx; cbn [fold_left flat_map] in *; auto.
    apply IH in Hx. destruct Hx as [Hx|Hx]; [|right; apply in_or_app; auto].
    apply He in Hx. destruct Hx; [auto | right; apply in_or_app; auto].
  - rewrite star_cols_PUnion in Hx. rewrite sposs_PUnion. revert acc Hx.
    induction H as [|e r He Hr IH]; intros acc Hx; cbn [fold_left flat_map] in *; auto.
    apply IH in Hx. destruct Hx as [Hx|Hx]; [|right; apply in_or_app; auto].
    apply He in Hx. destruct Hx; [auto | right; apply in_or_app; auto].
  - cbn [star_cols sposs] in *. apply IHp in Hx. destruct Hx as [Hx|Hx]; [|right; apply in_or_app; auto].
    destruct g as [y|c]; cbn in *; [apply push_in in Hx; destruct Hx; [subst; right; left|]; auto | auto].
  - auto.
  - cbn [star_cols sposs] in *. apply push_in in Hx. destruct Hx; [subst; right; left|]; auto.
  - cbn [star_cols sposs] in *. revert acc Hx. induction vs as [|v r IH]; intros acc Hx; cbn [fold_left] in *; auto.
    apply IH in Hx. destruct Hx as [Hx|Hx]; [|right; right; auto]. apply push_in in Hx. destruct Hx; [subst; right; left|]; auto.
  - cbn [star_cols sposs] in *. destruct pr as [items|]; [|apply IHp; auto].
    revert acc Hx. induction items as [|i r IH]; intros acc Hx; cbn [fold_left map] in *; auto.
    apply IH in Hx. destruct Hx as [Hx|Hx]; [|right; right; auto].
    destruct i; apply push_in in Hx; destruct Hx; [subst; right; left; auto | auto | subst; right; left; auto | auto].
Qed.

Lemma star_cols_sposs : forall p (acc : list var) x, In x (star_cols p []) -> In x (sposs p).
Proof. intros p _ x H. apply star_cols_sposs_gen in H. destruct H as [[]|H]. exact H. Qed.

Lemma sposs_star_cols : forall p acc x, In x acc \/ In x (sposs p) -> In x (star_cols p acc).
Proof.
  induction p using pat_ind'; intros acc x Hx.
  - cbn [star_cols sposs] in *. revert acc Hx. induction tps as [|[[s pr] o] r IH]; intros acc Hx; cbn [fold_left flat_map] in *.
    + destruct Hx as [Hx|[]]; auto.
    + apply IH.
      assert (T : forall (t : tm) l, In x l \/ In x (tm_vars t) -> In x (match t with TV y => push y l | TC _ => l end)).
      { intros [y|c] l [H|H]; cbn in *; try (apply push_in); auto; try contradiction. destruct H as [H|[]]; subst; auto. }
      destruct Hx as [Hx|Hx]; [left; unfold tm_push; apply T; left; apply T; left; apply T; left; exact Hx|].
      apply in_app_or in Hx. destruct Hx as [Hx|Hx]; [left | right; exact Hx].
      unfold tp_vars in Hx. rewrite !in_app_iff in Hx. unfold tm_push.
      destruct Hx as [Hx|[Hx|Hx]].
      * apply T; left; apply T; left; apply T; right; exact Hx.
      * apply T; left; apply T; right; exact Hx.
      * apply T; right; exact Hx.
  - rewrite star_cols_PGroup. rewrite sposs_PGroup in Hx. revert acc Hx.
    induction H as [|e r He Hr IH]; intros acc Hx; cbn [fold_left flat_map] in *.
    + destruct Hx as [Hx|[]]; auto.
    + apply IH. destruct Hx as [Hx|Hx]; [left; apply He; auto|]. apply in_app_or in Hx. destruct Hx; [left; apply He; auto | right; auto].
  - rewrite star_cols_PUnion. rewrite sposs_PUnion in Hx. revert acc Hx.
    induction H as [|e r He Hr IH]; intros acc Hx; cbn [fold_left flat_map] in *.
    + destruct Hx as [Hx|[]]; auto.
    + apply IH. destruct Hx as [Hx|Hx]; [left; apply He; auto|]. apply in_app_or in Hx. destruct Hx; [left; apply He; auto | right; auto].
  - cbn [star_cols sposs] in *. apply IHp. destruct Hx as [Hx|Hx].
    + left. destruct g; [apply push_in|]; auto.
    + apply in_app_or in Hx. destruct Hx as [Hx|Hx]; [|right; auto]. left. destruct g as [y|c]; cbn in Hx; [|contradiction].
      destruct Hx as [Hx|[]]. subst. apply push_in. auto.
  - cbn [star_cols sposs] in *. destruct Hx as [Hx|[]]; auto.
  - cbn [star_cols sposs] in *. apply push_in. destruct Hx as [Hx|[Hx|[]]]; auto.
  - cbn [star_cols sposs] in *. revert acc Hx. induction vs as [|v r IH]; intros acc Hx; cbn [fold_left] in *.
    + destruct Hx as [Hx|[]]; auto.
    + apply IH. destruct Hx as [Hx|[Hx|Hx]]; [left; apply push_in; auto | left; apply push_in; auto | right; auto].
  - cbn [star_cols sposs] in *. destruct pr as [items|]; [|apply IHp; auto].
    revert acc Hx. induction items as [|i r IH]; intros acc Hx; cbn [fold_left map] in *.
    + destruct Hx as [Hx|[]]; auto.
    + apply IH. destruct Hx as [Hx|[Hx|Hx]]; [left | left | right; auto]; destruct i; apply push_in; auto.
Qed.

Lemma restrict_id : forall cols m, wf m -> bound_in cols m -> restrict cols m = m.
Proof.
  intros cols m W B. apply mu_ext; [apply wf_restrict; auto | auto |].
  intros x. rewrite lookup_restrict. destruct (mem_var x cols) eqn:E; [reflexivity|].
  destruct (lookup m x) eqn:L; [|reflexivity]. apply B in L. apply mem_var_in in L. congruence.
Qed.

Theorem eval_poss : forall vw p active m, In m (eval vw active p) -> bound_in (sposs p) m.
Proof.
  intros vw p. induction p using pat_ind'; intros active m Hm.
  - cbn [eval sposs] in *. intros x w L.
    assert (G : forall tps rows Pv, (forall m, In m rows -> bound_in Pv m) ->
                forall m, In m (fold_left (fun rows p => flat_map (extend_tp (active_triples vw active) p) rows) tps rows) ->
                          bound_in (Pv ++ flat_map tp_vars tps) m).
    { clear. induction tps as [|p r IH]; intros rows Pv H m Hm; cbn [fold_left flat_map] in *; [rewrite app_nil_r; auto|].
      rewrite app_assoc. eapply IH; eauto. intros m1 H1. apply in_flat_map in H1. destruct H1 as (m0 & H0 & H1).
      unfold extend_tp in H1. apply in_flat_map in H1. destruct H1 as (t & _ & H1).
      destruct (match_triple p t m0) eqn:E; cbn in H1; [|contradiction]. destruct H1 as [H1|[]]. subst.
      intros x w L. apply in_or_app. destruct (match_triple_bound _ _ _ _ _ _ E L) as [L0|Hx]; [left; eapply H; eauto | right; auto]. }
    apply (G tps [[]] [] (fun m0 H0 => match H0 with or_introl E => ltac:(subst; intros ? ? L0; discriminate) | or_intror F => match F with end end) m Hm x w L).
  - rewrite eval_PGroup in Hm. rewrite sposs_PGroup. change (flat_map sposs es) with ([] ++ flat_map sposs es).
    eapply loop_poss; eauto. intros m0 [H0|[]]. subst. intros x w L. discriminate.
  - rewrite eval_PUnion in Hm. rewrite sposs_PUnion. apply in_flat_map in Hm. destruct Hm as (g & Hg & Hm).
    rewrite Forall_forall in H. intros x w L. apply in_flat_map. exists g. split; auto. eapply H; eauto.
  - destruct g as [x|c].
    + rewrite eval_PGraph_var in Hm. cbn [sposs tm_vars app]. apply in_flat_map in Hm. destruct Hm as ([n ts] & _ & Hm).
      cbn [fst] in Hm. apply in_join in Hm. destruct Hm as (b & s & Hb & Hs & M). destruct Hs as [Hs|[]]. subst s.
      intros y w L. rewrite (merge_rows_lookup _ _ _ y M) in L. destruct (lookup b y) eqn:E; [right; eapply IHp; eauto|].
      cbn in L. destruct (N.eqb_spec x y); [left; auto | discriminate].
    + cbn [eval sposs tm_vars app] in *. destruct (graph_of (v_named vw) c); [|contradiction]. eapply IHp; eauto.
  - cbn [eval] in Hm. apply filter_In in Hm. destruct Hm as [[Hm|[]] _]. subst. intros x w L. discriminate.
  - cbn [eval] in Hm. destruct Hm as [Hm|[]]. subst. cbn [sposs]. change [v] with ([] ++ [v]). apply extend_bound.
    intros x w L. discriminate.
  - cbn [eval sposs] in *. apply in_map_iff in Hm. destruct Hm as (row & E & _). subst. intros x w L. eapply lookup_values_row; eauto.
  - cbn [eval] in Hm. unfold modifiers, modifiers_nolimit, apply_limit in Hm.
    set (cols := columns (Sel d pr p gb ob lim)) in *.
    assert (H1 : In m (map (restrict cols) (order_rows ob (aggregate pr gb (eval vw active p))))).
    { destruct lim as [n|]; [apply firstn_incl in Hm|]; (destruct d; [apply dedup_incl in Hm|]; exact Hm). }
    apply in_map_iff in H1. destruct H1 as (m0 & E & H0). subst m.
    intros x t L. rewrite lookup_restrict in L. destruct (mem_var x cols) eqn:Ex; [|discriminate]. apply mem_var_in in Ex.
    destruct pr as [items|]; cbn [sposs]; [exact Ex|].
    (* SELECT *: the columns are the variables of the pattern in order of first occurrence *)
    unfold cols in Ex. cbn [columns] in Ex. exact (star_cols_sposs p [] x Ex).
Qed.

Lemma bound_join : forall Pv Qv (G E : list mu), (forall b, In b G -> bound_in Pv b) -> (forall b, In b E -> bound_in Qv b) ->
  forall b, In b (join G E) -> bound_in (Pv ++ Qv) b.
Proof.
  intros Pv Qv G E HG HE b Hb. apply in_join in Hb. destruct Hb as (a & c & Ha & Hc & M).
  intros x w L. rewrite (merge_rows_lookup _ _ _ x M) in L. apply in_or_app.
  destruct (lookup a x) eqn:Ea; [left; eapply HG; eauto | right; eapply HE; eauto].
Qed.

Lemma bound_in_nil : forall Pv, bound_in Pv [].
Proof. intros Pv x w L. discriminate. Qed.

(* the engine's CONCAT is the algebra's *)
Lemma econcat_eq : forall args m, econcat args m = concat_args args m.
Proof. induction args as [|a r IH]; intros m; cbn [econcat concat_args]; [reflexivity|]. rewrite IH. reflexivity. Qed.

(* BIND from the unit row is the algebra's extension of the unit row - whatever the arguments *)
Lemma ebind_unit : forall args v, ebind args v [] = [extend args v []].
Proof. intros. unfold ebind, extend. rewrite econcat_eq. cbn [lookup]. destruct (concat_args args []); reflexivity. Qed.

(* joining with the one-row answer of the group { BIND(CONCAT(constants) AS ?v) } = BIND in place on every row: a row that binds
   ?v already is kept exactly when the values agree (this is the repaired finding C01-bind-target-sibling) *)
Lemma join_const_bind : forall args v G, barg_vars args = [] -> all_wf G ->
  join G [extend args v []] = flat_map (ebind args v) G.
Proof.
  intros args v G Hc WG. rewrite <- ebind_unit. rewrite join_unfold. apply flat_map_ext_in. intros a Ha. unfold mjoin.
  rewrite ebind_merge; [| eapply all_wf_in; eauto | exact I | rewrite Hc; intros x []].
  rewrite merge_rows_nil_r. cbn [opt_list flat_map]. apply app_nil_r.
Qed.

Lemma ebind_bound : forall args v Pv m0 m, bound_in Pv m0 -> In m (ebind args v m0) -> bound_in (Pv ++ [v]) m.
Proof.
  intros args v Pv m0 m B H x w L. apply in_or_app. apply ebind_spec in H.
  destruct (econcat args m0) as [c|]; [|subst m; left; eapply B; eauto].
  destruct (lookup m0 v) as [old|]; [destruct H as [_ ->]; left; eapply B; eauto|].
  subst m. rewrite lookup_insert in L. destruct (N.eqb_spec v x); [subst; right; left; auto | left; eapply B; eauto].
Qed.

Lemma bind_agrees_map : forall args v G, bind_agrees args v G = true -> flat_map (ebind args v) G = map (extend args v) G.
Proof.
  intros args v. induction G as [|m G IH]; intros H; cbn [flat_map map]; [reflexivity|].
  unfold bind_agrees in H. cbn [forallb] in H. apply andb_true_iff in H. destruct H as [H1 H2].
  rewrite IH by exact H2. destruct (ebind args v m) as [|m' [|m'' r]]; try discriminate H1.
  apply mu_eqb_eq in H1. rewrite H1. reflexivity.
Qed.

(* ---- conjugation by a single row ---- *)
Lemma merge_rows_sub : forall a m, wf a -> wf m -> sub_mu m a -> merge_rows a m = Some a.
Proof.
  intros a m Wa Wm S. unfold merge_rows.
  assert (C : compatible a m = true).
  { apply (compatible_spec a m Wa). intros x v w Hx Hw. apply S in Hw. congruence. }
  rewrite C. f_equal. apply merge_absorb; auto.
Qed.

Lemma J_join : forall m A B, wf m -> all_wf A -> all_wf B ->
  join [m] (join A B) = join (join [m] A) (join [m] B).
Proof.
  intros m A B Wm WA WB.
  assert (Wm1 : all_wf [m]) by (constructor; [auto | constructor]).
  rewrite <- join_assoc by auto.
  rewrite (join_unfold (join [m] A) B), (join_unfold (join [m] A) (join [m] B)).
  apply flat_map_ext_in. intros ma Hma.
  assert (Wma : wf ma) by (eapply all_wf_in; [apply join_wf; exact Wm1 | exact Hma]).
  rewrite (join_single_l m B), mjoin_mjoin by auto.
  assert (S : sub_mu m ma).
  { rewrite join_single_l in Hma. unfold mjoin in Hma. apply in_flat_map in Hma. destruct Hma as (a & _ & Ha).
    destruct (merge_rows m a) eqn:E; cbn in Ha; [|contradiction]. destruct Ha as [Ha|[]]. subst.
    intros x w Hx. rewrite (merge_rows_lookup _ _ _ x E), Hx. reflexivity. }
  unfold mjoin at 3. cbn [flat_map]. rewrite (merge_rows_sub ma m Wma Wm S). cbn [opt_list app flat_map].
  rewrite app_nil_r. reflexivity.
Qed.

Lemma sem_append_join : forall ds ev active a b,
  sem ds ev active (append_join a b) ≡ₚ join (sem ds ev active a) (sem ds ev active b).
Proof.
  intros. destruct a; try (destruct b; cbn [append_join sem]; try rewrite join_unit_r; auto; fail).
  cbn [append_join sem]. rewrite join_unit_l by apply sem_wf. auto.
Qed.

Lemma sem_fold_sel : forall ds ev active fs plan,
  sem ds ev active (fold_left (fun pl f => LSelection pl f) fs plan)
  = fold_left (fun acc f => filter (cond_eval f) acc) fs (sem ds ev active plan).
Proof. induction fs as [|f r IH]; intros plan; cbn [fold_left]; auto. rewrite IH. reflexivity. Qed.

Lemma J_filter : forall m c A, (forall y, In y (expr_vars c) -> lookup m y = None) ->
  filter (cond_eval c) (join [m] A) = join [m] (filter (cond_eval c) A).
Proof.
  intros m c A H. apply filter_join_r. intros a b r [Ha|[]] Hb M. subst a.
  apply cond_eval_ext. intros y Hy. rewrite (merge_rows_lookup _ _ _ y M), (H y Hy). reflexivity.
Qed.

Lemma J_bind : forall m args v A, wf m -> all_wf A ->
  (forall y, In y (barg_vars args) -> lookup m y = None) ->
  flat_map (ebind args v) (join [m] A) = join [m] (flat_map (ebind args v) A).
Proof.
  intros m args v A Wm WA Hargs. apply flat_map_join_r. intros a b [Ha|[]] Hb. subst a.
  apply ebind_merge; auto. { eapply all_wf_in; eauto. }
Qed.

Lemma matches_perm : forall p T T' s, Permutation T T' -> matches p T s ≡ₚ matches p T' s.
Proof. intros. unfold matches. apply flat_map_perm. auto. Qed.

Lemma scan_one_graph_unit_var : forall ds t n x,
  scan_one_graph ds t (inl n) (Some (x, n)) [] = mjoin [(x, n)] (matches t (graph_triples ds (Some n)) []).
Proof.
  intros. rewrite scan_one_graph_some by exact I. rewrite (mjoin_single_fresh [] x n I eq_refl).
  cbn [flat_map insert]. rewrite app_nil_r. apply matches_seed. apply wf_single.
Qed.

Lemma scope_rel_wf : forall ds ev scope active m, scope_rel ds ev scope active m -> wf m.
Proof. intros ds ev scope active m H. destruct H; [exact I | exact I | apply wf_single]. Qed.

Lemma gv_free_lookup : forall ds ev scope active m vs, scope_rel ds ev scope active m ->
  gv_free (gv_of scope) vs = true -> forall y, In y vs -> lookup m y = None.
Proof.
  intros ds ev scope active m vs H G y Hy. destruct H; try reflexivity.
  cbn in *. destruct (N.eqb_spec x y); auto. subst. apply negb_true_iff in G.
  apply (proj2 (mem_var_in y vs)) in Hy. congruence.
Qed.

Lemma lookup_single : forall x (n : term), lookup [(x, n)] x = Some n.
Proof. intros. cbn. rewrite N.eqb_refl. reflexivity. Qed.

Section Bridge.
  Variables (ds : dataset) (from from_named : list term).
  Hypothesis OK : dataset_ok ds.
  Let vw := mk_view ds from from_named.
  Let ev := mk_eview ds from from_named.

  (* a scan in scope, against the Spec's triple pattern over the active graph *)
  Lemma scan_spec : forall scope active m t, scope_rel ds ev scope active m ->
    join [m] (sem ds ev active (LScan (t, scope))) ≡ₚ join [m] (matches t (active_triples vw active) []).
  Proof.
    intros scope active m t H. destruct H as [|n V|x n V]; cbn [sem]; unfold scan_row.
    - apply join_perm_r. cbn [active_triples].
      eapply perm_trans; [apply scan_default_perm|]. apply matches_perm. apply default_perm; auto.
    - fold ev in V. rewrite V. rewrite scan_one_graph_none.
      destruct (vis_graph_of ds from from_named OK n V) as (ts & _ & E1 & E2).
      fold vw in E2. rewrite E1, E2. auto.
    - cbn [lookup].
      destruct (vis_graph_of ds from from_named OK n V) as (ts & _ & E1 & E2). fold vw in E2. rewrite E2.
      rewrite !join_single_l. rewrite mjoin_flat_map.
      eapply perm_trans.
      + apply (flat_map_only _ n).
        * apply visible_graphs_nodup. apply ev_named_nodup; auto.
        * apply in_visible_graphs. apply andb_true_iff in V. exact V.
        * intros n' Hn. rewrite scan_one_graph_unit_var.
          rewrite mjoin_mjoin; [|apply wf_single|apply wf_single|apply matches_wf; exact I].
          pose proof (mjoin_single_bound [(x, n)] x n' n (wf_single x n) (lookup_single x n)) as Q.
          unfold mu in *. rewrite Q.
          destruct (term_eqb n n') eqn:E; [apply term_eqb_eq in E; congruence | reflexivity].
      + rewrite scan_one_graph_unit_var.
        rewrite mjoin_mjoin; [|apply wf_single|apply wf_single|apply matches_wf; exact I].
        pose proof (mjoin_single_bound [(x, n)] x n n (wf_single x n) (lookup_single x n)) as Q.
        unfold mu in *. rewrite Q.
        rewrite term_eqb_refl. cbn [flat_map]. rewrite app_nil_r, E1. auto.
  Qed.

  Definition PB (e : pat) : Prop :=
    forall scope active m, scope_rel ds ev scope active m -> fragB (gv_of scope) e = true -> agree vw active e = true ->
      join [m] (sem ds ev active (lower (shape e) scope)) ≡ₚ join [m] (eval vw active e).

  (* the triple patterns of a block, appended one scan at a time *)
  Lemma lower_loop_bgp : forall scope tps rest plan fs,
    lower_loop scope (map (fun t => GBgp [t]) tps ++ rest) plan fs
    = lower_loop scope rest (fold_left (fun pl t => append_join pl (LScan (t, scope))) tps plan) fs.
  Proof.
    intros scope tps. induction tps as [|t r IH]; intros rest plan fs; [reflexivity|].
    cbn [map app lower_loop fold_left]. rewrite IH. reflexivity.
  Qed.

  Lemma bgp_fold : forall scope active m, scope_rel ds ev scope active m ->
    forall tps plan G, all_wf G ->
      join [m] (sem ds ev active plan) ≡ₚ join [m] G ->
      join [m] (sem ds ev active (fold_left (fun pl t => append_join pl (LScan (t, scope))) tps plan))
      ≡ₚ join [m] (join G (bigjoin (fun p => matches p (active_triples vw active) []) tps)).
  Proof.
    intros scope active m SR. pose proof (scope_rel_wf _ _ _ _ _ SR) as Wm.
    induction tps as [|t r IH]; intros plan G WG H; cbn [fold_left bigjoin fold_right].
    - rewrite join_unit_r. exact H.
    - fold (bigjoin (fun p => matches p (active_triples vw active) []) r).
      set (M := matches t (active_triples vw active) []).
      assert (WM : all_wf M) by (apply matches_wf; exact I).
      eapply perm_trans; [apply (IH _ (join G M)); [apply join_wf; auto|]|].
      + eapply perm_trans; [apply join_perm_r; apply sem_append_join|].
        rewrite J_join by (auto; apply sem_wf). rewrite (J_join m G M) by auto.
        apply join_perm; [exact H | apply scan_spec; auto].
      + apply join_perm_r. rewrite join_assoc; auto.
        apply bigjoin_wf. intro k. apply matches_wf. exact I.
  Qed.

  Lemma filters_lemma : forall m, wf m -> forall fs A B,
    (forall f y, In f fs -> In y (expr_vars f) -> lookup m y = None) ->
    join [m] A ≡ₚ join [m] B ->
    forallb (fun f => filter_agrees f B) fs = true ->
    join [m] (fold_left (fun acc f => filter (cond_eval f) acc) fs A)
    ≡ₚ join [m] (filter (fun r => forallb (fun f => holds f r) fs) B).
  Proof.
    intros m Wm. induction fs as [|f r IH]; intros A B Hfree H Ag; cbn [fold_left forallb].
    - assert (E : filter (fun _ : mu => true) B = B) by (clear; induction B; cbn; congruence).
      rewrite E. exact H.
    - cbn [forallb] in Ag. apply andb_true_iff in Ag. destruct Ag as [Ag1 Ag2].
      assert (E : filter (fun r0 => holds f r0 && forallb (fun f0 => holds f0 r0) r) B
                  = filter (fun r0 => forallb (fun f0 => holds f0 r0) r) (filter (cond_eval f) B)).
      { unfold filter_agrees in Ag1. rewrite forallb_forall in Ag1. clear - Ag1.
        induction B as [|b B IHB]; cbn; auto.
        assert (Hb : cond_eval f b = holds f b).
        { specialize (Ag1 b (or_introl eq_refl)). apply Bool.eqb_prop in Ag1. exact Ag1. }
        rewrite Hb. destruct (holds f b); cbn.
        - destruct (forallb (fun f0 => holds f0 b) r); [f_equal|]; apply IHB; intros; apply Ag1; right; auto.
        - apply IHB; intros; apply Ag1; right; auto. }
      rewrite E. apply IH.
      + intros; eapply Hfree; eauto. right; auto.
      + rewrite <- !J_filter by (intros; eapply Hfree; eauto; left; auto). apply perm_filter. exact H.
      + rewrite forallb_forall in *. intros f' Hf'. specialize (Ag2 f' Hf'). unfold filter_agrees in *.
        rewrite forallb_forall in *. intros b Hb. apply Ag2. apply filter_In in Hb. tauto.
  Qed.

  Lemma lone_default : forall scope g r plan fs, lone g = false ->
    lower_loop scope (g :: r) plan fs = lower_loop scope r (append_join plan (lower g scope)) fs.
  Proof. intros scope g r plan fs H. destruct g; try discriminate; reflexivity. Qed.

  Definition PB' (e : pat) : Prop := match e with PBgp _ => True | _ => PB e end.

  Lemma loop_lemma : forall scope active m, scope_rel ds ev scope active m ->
    forall es, Forall PB' es ->
    forall pacc, fragB_loop (gv_of scope) es pacc = true ->
    forall G plan fs, all_wf G ->
      (forall b, In b G -> bound_in pacc b) ->
      join [m] (sem ds ev active plan) ≡ₚ join [m] G ->
      forallb (fun f => gv_free (gv_of scope) (expr_vars f)) fs = true ->
      agree_loop vw active es G fs = true ->
      join [m] (sem ds ev active (lower_loop scope (flat_elems es) plan fs)) ≡ₚ join [m] (eval_loop vw active es G fs).
  Proof.
    intros scope active m SR. pose proof (scope_rel_wf _ _ _ _ _ SR) as Wm.
    intros es HP. induction HP as [|e r He Hr IH]; intros pacc FR G plan fs WG HB H GF AG.
    - cbn [flat_elems flat_map lower_loop eval_loop agree_loop] in *. rewrite sem_fold_sel.
      apply filters_lemma; auto.
      intros f y Hf Hy. rewrite forallb_forall in GF. eapply gv_free_lookup; eauto.
    - cbn [fragB_loop] in FR. apply andb_true_iff in FR. destruct FR as [FRe FR]. apply andb_true_iff in FRe. destruct FRe as [Fe Ee].
      unfold flat_elems in *. cbn [flat_map]. fold (flat_elems r).
      assert (Step : forall E, (forall b, In b E -> bound_in (sposs e) b) -> forall b, In b (join G E) -> bound_in (pacc ++ sposs e) b)
        by (intros E HE; apply bound_join; auto).
      destruct e as [tps|es'|gs|g q|f|args v|vs rows|s].
      + (* a block of triple patterns *)
        cbn [elem_shape eval_loop agree_loop] in *. rewrite lower_loop_bgp.
        apply andb_true_iff in AG. destruct AG as [_ AG].
        apply (IH (pacc ++ sposs (PBgp tps))); auto.
        * apply join_wf; auto.
        * apply Step. intros b Hb. eapply eval_poss; eauto.
        * eapply perm_trans; [apply bgp_fold; eauto|]. apply join_perm_r. apply join_perm_r.
          apply Permutation_sym. cbn [eval]. apply eval_bgp_bigjoin.
      + destruct (elem_ok (PGroup es')) eqn:EO.
        * cbn [elem_shape app]. rewrite lone_default by (apply negb_true_iff; exact EO).
          cbn [eval_loop agree_loop] in *. apply andb_true_iff in AG. destruct AG as [AGe AG].
          apply (IH (pacc ++ sposs (PGroup es'))); auto; [apply join_wf; auto | apply Step; intros b Hb; eapply eval_poss; eauto |].
          eapply perm_trans; [apply join_perm_r; apply sem_append_join|].
          rewrite J_join by (auto; apply sem_wf). rewrite (J_join m G) by (auto; apply eval_wf).
          apply join_perm; [exact H | apply He; auto].
        * (* the nested group { BIND(CONCAT(constants) AS ?v) } with ?v not in scope before: flattened into this group *)
          cbn [orb] in Ee. destruct es' as [|e0 [|e1 r']]; try discriminate Ee; [|destruct e0; cbn in Ee; discriminate Ee]. destruct e0 as [| | | | |args v| |]; try discriminate Ee.
          cbn [lone_bind_ok] in Ee.
          assert (Hc' : barg_vars args = []) by (destruct (barg_vars args); [reflexivity | discriminate]).
          rewrite fragB_PGroup in Fe. cbn [fragB_loop fragB] in Fe. apply andb_true_iff in Fe. destruct Fe as [Fe _].
          apply andb_true_iff in Fe. destruct Fe as [Fe _].
          assert (Hma : forall y, In y (barg_vars args) -> lookup m y = None) by (rewrite Hc'; intros y []).
          assert (Ev : eval vw active (PGroup [PBind args v]) = [extend args v []]) by reflexivity.
          change (elem_shape (PGroup [PBind args v])) with [GBindP args v].
          cbn [app lower_loop eval_loop agree_loop] in *. apply andb_true_iff in AG. destruct AG as [_ AG].
          rewrite Ev in *. rewrite (join_const_bind args v G Hc' WG) in *.
          apply (IH (pacc ++ [v])); auto.
          -- apply all_wf_flat_map. intros b Hb. apply Forall_forall. intros b' Hb'. eapply wf_ebind; [|exact Hb']. eapply all_wf_in; eauto.
          -- intros b Hb. apply in_flat_map in Hb. destruct Hb as (b0 & Hb0 & Hb). eapply ebind_bound; [|exact Hb]. apply HB; auto.
          -- cbn [sem]. rewrite <- !J_bind by (auto; apply sem_wf). apply flat_map_perm. exact H.
      + rewrite orb_false_r in Ee. cbn [elem_shape app]. rewrite lone_default by (apply negb_true_iff; exact Ee).
        cbn [eval_loop agree_loop] in *. apply andb_true_iff in AG. destruct AG as [AGe AG].
        apply (IH (pacc ++ sposs (PUnion gs))); auto; [apply join_wf; auto | apply Step; intros b Hb; eapply eval_poss; eauto |].
        eapply perm_trans; [apply join_perm_r; apply sem_append_join|].
        rewrite J_join by (auto; apply sem_wf). rewrite (J_join m G) by (auto; apply eval_wf).
        apply join_perm; [exact H | apply He; auto].
      + rewrite orb_false_r in Ee. cbn [elem_shape app]. rewrite lone_default by (apply negb_true_iff; exact Ee).
        cbn [eval_loop agree_loop] in *. apply andb_true_iff in AG. destruct AG as [AGe AG].
        apply (IH (pacc ++ sposs (PGraph g q))); auto; [apply join_wf; auto | apply Step; intros b Hb; eapply eval_poss; eauto |].
        eapply perm_trans; [apply join_perm_r; apply sem_append_join|].
        rewrite J_join by (auto; apply sem_wf). rewrite (J_join m G) by (auto; apply eval_wf).
        apply join_perm; [exact H | apply He; auto].
      + (* FILTER: deferred to the end of the group *)
        cbn [elem_shape app shape lower_loop eval_loop agree_loop] in *.
        apply (IH (pacc ++ sposs (PFilter f))); auto.
        * cbn [sposs]. rewrite app_nil_r. exact HB.
        * rewrite forallb_app, GF. cbn [forallb]. cbn [fragB] in Fe. rewrite Fe. reflexivity.
      + (* BIND: extends what precedes it *)
        cbn [elem_shape app shape lower_loop eval_loop agree_loop] in *.
        apply andb_true_iff in AG. destruct AG as [AGb AG].
        assert (Emap : map (extend args v) G = flat_map (ebind args v) G) by (symmetry; apply bind_agrees_map; exact AGb).
        cbn [fragB] in Fe.
        assert (Ha : forall y, In y (barg_vars args) -> lookup m y = None) by (intros; eapply gv_free_lookup; eauto; right; auto).
        apply (IH (pacc ++ sposs (PBind args v))); auto.
        * apply all_wf_map; auto. intros; apply wf_extend; auto.
        * intros b Hb. apply in_map_iff in Hb. destruct Hb as (b0 & E & Hb0). subst b. cbn [sposs]. apply extend_bound. auto.
        * cbn [sem]. rewrite Emap. rewrite <- !J_bind by (auto; apply sem_wf). apply flat_map_perm. exact H.
      + cbn [elem_shape app]. rewrite lone_default by reflexivity.
        cbn [eval_loop agree_loop] in *. apply andb_true_iff in AG. destruct AG as [AGe AG].
        apply (IH (pacc ++ sposs (PValues vs rows))); auto; [apply join_wf; auto | apply Step; intros b Hb; eapply eval_poss; eauto |].
        eapply perm_trans; [apply join_perm_r; apply sem_append_join|].
        rewrite J_join by (auto; apply sem_wf). rewrite (J_join m G) by (auto; apply eval_wf).
        apply join_perm; [exact H | apply He; auto].
      + rewrite orb_false_r in Ee. cbn [elem_shape app]. rewrite lone_default by (apply negb_true_iff; exact Ee).
        cbn [eval_loop agree_loop] in *. apply andb_true_iff in AG. destruct AG as [AGe AG].
        apply (IH (pacc ++ sposs (PSub s))); auto; [apply join_wf; auto | apply Step; intros b Hb; eapply eval_poss; eauto |].
        eapply perm_trans; [apply join_perm_r; apply sem_append_join|].
        rewrite J_join by (auto; apply sem_wf). rewrite (J_join m G) by (auto; apply eval_wf).
        apply join_perm; [exact H | apply He; auto].
  Qed.
End Bridge.
