(* lower_eval: the logical plan produced by the lowering denotes the algebra's evaluation of the syntax tree (on fragB);
   split from BridgeProofs.v because the sub-select case uses the aggregation lemmas of AggProofs.v. *)
Require Import KV.Sparql.Base KV.Sparql.Syntax KV.Sparql.MuProofs KV.Sparql.JoinProofs KV.Sparql.Algebra KV.Sparql.Engine
        KV.Sparql.Lowering KV.Sparql.PlanEquiv KV.Sparql.Sem KV.Sparql.Bridge KV.Sparql.ScanProofs KV.Sparql.BgpProofs
        KV.Sparql.HashProofs KV.Sparql.SemProofs KV.Sparql.ExecLemmas KV.Sparql.BridgeProofs KV.Sparql.ModifierProofs KV.Sparql.AggProofs.
Require Import Lia Permutation.

Section BridgeMain.
  Variables (ds : dataset) (from from_named : list term).
  Hypothesis OK : dataset_ok ds.
  Let vw := mk_view ds from from_named.
  Let ev := mk_eview ds from from_named.

  Lemma unit_rows_wf : all_wf [@nil (var * term)].
  Proof. constructor; [exact I | constructor]. Qed.

  Lemma simple_sel_spec : forall pr gb lim, simple_sel pr gb lim = true -> gb = [] /\ lim = None /\ aggs_of pr = [].
  Proof.
    intros pr gb lim H. unfold simple_sel in H.
    destruct gb; [|destruct pr; discriminate]. destruct lim; [destruct pr; discriminate|]. repeat split.
    destruct pr as [items|]; [|reflexivity].
    cbn [aggs_of]. induction items as [|[x|k x al] r IH]; cbn in *; auto; discriminate.
  Qed.

  Lemma filter_true_id : forall l : list mu, filter (fun _ => true) l = l.
  Proof. induction l; cbn; congruence. Qed.

  Theorem lower_eval : forall q, PB ds from from_named q.
  Proof.
    induction q using pat_ind'; unfold PB; intros scope active m SR FR AG;
      pose proof (scope_rel_wf _ _ _ _ _ SR) as Wm.
    - (* a block of triple patterns: the group consisting of it *)
      assert (E1 : shape (PBgp tps) = collapse (flat_elems [PBgp tps])).
      { unfold flat_elems. cbn [flat_map elem_shape]. rewrite app_nil_r. reflexivity. }
      rewrite E1, lower_collapse.
      assert (E2 : eval (mk_view ds from from_named) active (PBgp tps) ≡ₚ eval_loop (mk_view ds from from_named) active [PBgp tps] [[]] []).
      { cbn [eval_loop forallb]. cbn [eval]. rewrite filter_true_id. rewrite join_unit_l by apply eval_bgp_wf. auto. }
      eapply perm_trans; [|apply join_perm_r; apply Permutation_sym; exact E2].
      assert (HP : Forall (PB' ds from from_named) [PBgp tps]) by (constructor; [exact I | constructor]).
      apply (loop_lemma ds from from_named OK scope active m SR [PBgp tps] HP []); auto.
      + apply unit_rows_wf.
      + intros b [E|[]]; subst; apply bound_in_nil.
    - (* group *)
      rewrite shape_PGroup, lower_collapse, eval_PGroup.
      rewrite fragB_PGroup in FR. rewrite agree_PGroup in AG.
      assert (HP : Forall (PB' ds from from_named) es) by (eapply Forall_impl; [|exact H]; intros e He; destruct e; cbn; auto).
      apply (loop_lemma ds from from_named OK scope active m SR es HP []); auto.
      + apply unit_rows_wf.
      + intros b [E|[]]; subst; apply bound_in_nil.
    - (* union *)
      rewrite fragB_PUnion in FR. rewrite agree_PUnion in AG. rewrite eval_PUnion.
      assert (G : join [m] (flat_map (fun g => sem ds (mk_eview ds from from_named) active (lower (shape g) scope)) gs)
                  ≡ₚ join [m] (flat_map (eval (mk_view ds from from_named) active) gs)).
      { eapply perm_trans; [apply join_flat_map_r|]. eapply perm_trans; [|apply Permutation_sym; apply join_flat_map_r].
        apply flat_map_ext_perm. intros g Hg. rewrite Forall_forall in H. rewrite forallb_forall in FR, AG.
        apply (H g Hg); auto. }
      rewrite shape_PUnion. destruct gs as [|g0 [|g1 r]].
      + rewrite lower_GUnion. cbn [map]. rewrite sem_LUnion. unfold sem_union. cbn [flat_map]. rewrite join_nil_r. auto.
      + cbn [flat_map] in G. rewrite !app_nil_r in G. cbn [flat_map]. rewrite app_nil_r. exact G.
      + rewrite lower_GUnion, sem_LUnion. unfold sem_union.
        assert (E : forall l, flat_map (sem ds (mk_eview ds from from_named) active) (map (fun b => lower b scope) (map shape l))
                              = flat_map (fun g => sem ds (mk_eview ds from from_named) active (lower (shape g) scope)) l)
          by (induction l as [|x l IHl]; cbn [map flat_map]; [reflexivity | rewrite IHl; reflexivity]).
        rewrite E. exact G.
    - (* GRAPH *)
      cbn [shape lower]. destruct g as [y|c]; cbn [compile_graph].
      + (* variable *)
        cbn [sem]. rewrite eval_PGraph_var. rewrite agree_PGraph_var in AG. cbn [fragB] in FR.
        apply join_perm_r.
        eapply perm_trans; [apply flat_map_perm; apply (visible_perm ds from from_named OK)|].
        rewrite flat_map_concat_map, map_map, <- flat_map_concat_map.
        apply flat_map_ext_perm. intros [n ts] Hn. cbn [fst].
        assert (V : is_named_visible (mk_eview ds from from_named) n && graph_exists ds n = true).
        { assert (Hn' : In n (map fst (v_named (mk_view ds from from_named)))) by (apply in_map_iff; exists (n, ts); auto).
          eapply Permutation_in in Hn'; [|apply Permutation_sym; apply (visible_perm ds from from_named OK)].
          apply in_visible_graphs in Hn'. apply andb_true_iff. exact Hn'. }
        eapply perm_trans; [|apply join_comm; [constructor; [apply wf_single | constructor] | apply eval_wf]].
        apply (IHq (GVar y) (Some n) [(y, n)]); [constructor; exact V | exact FR |].
        rewrite forallb_forall in AG. apply (AG (n, ts) Hn).
      + (* IRI *)
        cbn [sem eval agree fragB] in *. apply join_perm_r.
        destruct (is_named_visible (mk_eview ds from from_named) c && graph_exists ds c) eqn:V.
        * destruct (vis_graph_of ds from from_named OK c V) as (ts & G & _). rewrite G in *.
          rewrite <- (join_unit_l (sem _ _ _ _)) by apply sem_wf. rewrite <- (join_unit_l (eval _ _ _)) by apply eval_wf.
          apply (IHq (GNamed c) (Some c) []); [constructor; exact V | exact FR | exact AG].
        * rewrite (not_vis_graph_of ds from from_named c V). auto.
    - (* the group { FILTER } *)
      cbn [shape lower sem eval agree] in *. apply join_perm_r.
      unfold filter_agrees in AG. cbn [forallb] in AG. apply andb_true_iff in AG. destruct AG as [AG _].
      apply Bool.eqb_prop in AG. cbn [filter]. rewrite AG. auto.
    - (* the group { BIND } *)
      cbn [shape lower sem eval] in *. apply join_perm_r. cbn [flat_map]. rewrite app_nil_r, ebind_unit. auto.
    - (* VALUES *)
      cbn [shape lower sem eval]. auto.
    - (* sub-select *)
      cbn [shape lower sem eval agree fragB] in *.
      apply andb_true_iff in FR. destruct FR as [FR0 FRw]. apply andb_true_iff in FR0. destruct FR0 as [Fgv Fs].
      assert (Em : m = []).
      { destruct SR; auto. cbn in Fgv. discriminate. }
      subst m. apply join_perm_r.
      assert (IH0 : sem ds (mk_eview ds from from_named) active (lower (shape q) scope) ≡ₚ eval (mk_view ds from from_named) active q).
      { rewrite <- (join_unit_l (sem _ _ _ _)) by apply sem_wf. rewrite <- (join_unit_l (eval _ _ _)) by apply eval_wf.
        apply (IHq scope active []); auto.
        destruct SR; cbn in *; auto; try constructor; auto. discriminate. }
      destruct (simple_sel pr gb lim) eqn:Fs1.
      2: { (* aggregation in the legal shape *)
        cbn [orb] in Fs. unfold agg_sel in Fs. apply andb_true_iff in Fs. destruct Fs as [Sh Fl]. destruct lim; [discriminate|].
        apply (subquery_agg d pr q gb ob); [exact Sh | apply sem_wf | exact IH0]. }
      clear Fs. rename Fs1 into Fs.
      destruct (simple_sel_spec _ _ _ Fs) as (E2 & E3 & E4). subst gb lim.
      assert (IH : sem ds (mk_eview ds from from_named) active (lower (shape q) scope) ≡ₚ eval (mk_view ds from from_named) active q).
      { rewrite <- (join_unit_l (sem _ _ _ _)) by apply sem_wf. rewrite <- (join_unit_l (eval _ _ _)) by apply eval_wf.
        apply (IHq scope active []); auto.
        destruct SR; cbn in *; auto; try constructor; auto. discriminate. }
      unfold finalize_subquery, eaggregate, modifiers, modifiers_nolimit, aggregate, apply_limit.
      cbn [ss_proj ss_distinct ss_group ss_order ss_limit]. rewrite E4.
      assert (P0 : esort ob (sem ds (mk_eview ds from from_named) active (lower (shape q) scope))
                   ≡ₚ order_rows ob (eval (mk_view ds from from_named) active q)).
      { eapply perm_trans; [apply esort_perm|]. eapply perm_trans; [exact IH|]. apply Permutation_sym. apply order_rows_perm. }
      destruct pr as [items|]; cbn [proj_vars option_map columns].
      + assert (P : map (restrict (map (fun i => match i with PVar x => x | PAgg _ _ al => al end) items))
                        (esort ob (sem ds (mk_eview ds from from_named) active (lower (shape q) scope)))
                    ≡ₚ map (restrict (map (fun i => match i with PVar x => x | PAgg _ _ al => al end) items))
                        (order_rows ob (eval (mk_view ds from from_named) active q))) by (apply Permutation_map; exact P0).
        destruct d; [apply dedup_perm|]; exact P.
      + (* SELECT star: the engine keeps the rows as they are, the algebra projects on all the variables of the pattern *)
        assert (E : map (restrict (star_cols q [])) (order_rows ob (eval (mk_view ds from from_named) active q))
                    = order_rows ob (eval (mk_view ds from from_named) active q)).
        { rewrite <- (map_id (order_rows ob _)) at 2. apply map_ext_in. intros r Hr. apply in_order_rows in Hr.
          apply restrict_id; [eapply all_wf_in; [apply eval_wf | exact Hr]|].
          intros x t L. apply sposs_star_cols. right. eapply eval_poss; eauto. }
        rewrite E. destruct d; [apply dedup_perm|]; exact P0.
  Qed.
End BridgeMain.
