(* Syntactic side conditions under which the engine's two-valued expression evaluation coincides with the algebra's
   three-valued one (they replace the semantic hypothesis `agree` of C01_pattern):
   - noerr q : the complement of the classes C01-not-of-error and C01-bind-arg-unbound, plus SPARQL's rule that a BIND
               target is not in scope before the BIND: every variable under a `!` is certainly bound by the filter's group,
               every BIND argument is certainly bound by what precedes the BIND;
   - typed vw q : ordering comparisons (< <= > >=) only see integers: their constants are integers and every binding
               occurrence of their variables in the query is the object of a triple pattern whose constant predicate has
               only integer objects in the dataset view, or an integer / UNDEF column of VALUES. *)
Require Import KV.Sparql.Base KV.Sparql.Syntax KV.Sparql.Algebra KV.Sparql.Engine KV.Sparql.PlanEquiv KV.Sparql.Sem KV.Sparql.Bridge KV.Sparql.Classes.

Definition is_int (t : term) : bool := match parse_int t with Some _ => true | None => false end.
Definition ordering (op : cmpop) : bool := match op with OEq | ONe => false | _ => true end.
Definition values_cert (vs : list var) (rows : list (list (option term))) : list var :=
  filter (fun v => forallb (fun row => match lookup (values_row vs row) v with Some _ => true | None => false end) rows) vs.

(* variables certainly bound *)
Fixpoint scert_go (sc : pat -> list var) (es : list pat) (acc : list var) : list var :=
  match es with
  | [] => acc
  | e :: r =>
      match e with
      | PFilter _ => scert_go sc r acc
      | PBind args v => scert_go sc r (if subset_v (barg_vars args) acc then v :: acc else acc)
      | _ => scert_go sc r (acc ++ sc e)
      end
  end.
Fixpoint scert_union (sc : pat -> list var) (gs : list pat) : list var :=
  match gs with
  | [] => []
  | [g] => sc g
  | g :: r => inter (sc g) (scert_union sc r)
  end.

Fixpoint scert (p : pat) {struct p} : list var :=
  match p with
  | PBgp tps => flat_map tp_vars tps
  | PGroup es =>
      (fix go (es : list pat) (acc : list var) {struct es} : list var :=
         match es with
         | [] => acc
         | e :: r =>
             match e with
             | PFilter _ => go r acc
             | PBind args v => go r (if subset_v (barg_vars args) acc then v :: acc else acc)
             | _ => go r (acc ++ scert e)
             end
         end) es []
  | PUnion gs =>
      (fix go (gs : list pat) : list var :=
         match gs with
         | [] => []
         | g :: r => match r with [] => scert g | _ => inter (scert g) (go r) end
         end) gs
  | PGraph g q => tm_vars g ++ scert q
  | PFilter _ | PBind _ _ => []
  | PValues vs rows => values_cert vs rows
  | PSub s => match s with
              | Sel _ (Some items) w gb _ _ =>
                  match aggs_of (Some items), gb with [], [] => inter (map item_var items) (scert w) | _, _ => [] end
              | Sel _ None w _ _ _ => scert w
              end
  end.

(* ---- expressions ---- *)
Fixpoint ord_vars_e (e : expr) : list var :=
  match e with
  | ECmp op l r => if ordering op then l :: tm_vars r else []
  | EAnd a b | EOr a b => ord_vars_e a ++ ord_vars_e b
  | ENot a => ord_vars_e a
  end.
Fixpoint ord_consts_e (e : expr) : bool :=
  match e with
  | ECmp op _ (TC c) => if ordering op then is_int c else true
  | ECmp _ _ _ => true
  | EAnd a b | EOr a b => ord_consts_e a && ord_consts_e b
  | ENot a => ord_consts_e a
  end.

(* ---- noerr ----
   What is left of it since the engine evaluates FILTER three-valued (56f413c) and CONCAT leaves its target unbound on an unbound
   argument (1fdcd07): a BIND target is not in scope before the BIND in its own group - SPARQL's syntactic restriction on BIND
   (the algebra's `extend` leaves a bound target alone, the engine compares).  cacc is threaded for the proofs only. *)
Fixpoint noerr (p : pat) {struct p} : bool :=
  match p with
  | PBgp _ | PValues _ _ | PFilter _ | PBind _ _ => true
  | PGroup es =>
      (fix go (es : list pat) (cacc pacc : list var) (fs : list expr) {struct es} : bool :=
         match es with
         | [] => true
         | e :: r =>
             match e with
             | PFilter f => go r cacc pacc (fs ++ [f])
             | PBind args v =>
                 negb (mem_var v pacc)
                 && go r (if subset_v (barg_vars args) cacc then v :: cacc else cacc) (pacc ++ [v]) fs
             | _ => noerr e && go r (cacc ++ scert e) (pacc ++ sposs e) fs
             end
         end) es [] [] []
  | PUnion gs => (fix go (gs : list pat) : bool := match gs with [] => true | g :: r => noerr g && go r end) gs
  | PGraph _ q => noerr q
  | PSub s => match s with Sel _ _ w _ _ _ => noerr w end
  end.

(* ---- typing of ordering comparisons ---- *)
Fixpoint ord_vars (p : pat) {struct p} : list var :=
  match p with
  | PBgp _ | PValues _ _ | PBind _ _ => []
  | PGroup es => (fix go (es : list pat) : list var := match es with [] => [] | e :: r => ord_vars e ++ go r end) es
  | PUnion gs => (fix go (es : list pat) : list var := match es with [] => [] | e :: r => ord_vars e ++ go r end) gs
  | PGraph _ q => ord_vars q
  | PFilter f => ord_vars_e f
  | PSub s => match s with Sel _ _ w _ _ _ => ord_vars w end
  end.
Fixpoint ord_consts (p : pat) {struct p} : bool :=
  match p with
  | PBgp _ | PValues _ _ | PBind _ _ => true
  | PGroup es => (fix go (es : list pat) : bool := match es with [] => true | e :: r => ord_consts e && go r end) es
  | PUnion gs => (fix go (es : list pat) : bool := match es with [] => true | e :: r => ord_consts e && go r end) gs
  | PGraph _ q => ord_consts q
  | PFilter f => ord_consts_e f
  | PSub s => match s with Sel _ _ w _ _ _ => ord_consts w end
  end.

Definition view_triples (vw : view) : list triple := v_default vw ++ flat_map snd (v_named vw).
(* every triple of the view with predicate p has an integer object *)
Definition int_pred (vw : view) (p : term) : bool :=
  forallb (fun t => let '(_, pr, o) := t in if term_eqb pr p then is_int o else true) (view_triples vw).

Definition tp_int_ok (vw : view) (X : list var) (t : tp) : bool :=
  let '(s, pr, o) := t in
  (match s with TV x => negb (mem_var x X) | TC _ => true end)
  && (match pr with TV x => negb (mem_var x X) | TC _ => true end)
  && (match o with
      | TV x => if mem_var x X then match pr with TC p => int_pred vw p | TV _ => false end else true
      | TC _ => true
      end).

(* every binding occurrence of a variable of X is an integer binder *)
Fixpoint int_bound (vw : view) (X : list var) (p : pat) {struct p} : bool :=
  match p with
  | PBgp tps => forallb (tp_int_ok vw X) tps
  | PGroup es => (fix go (es : list pat) : bool := match es with [] => true | e :: r => int_bound vw X e && go r end) es
  | PUnion gs => (fix go (es : list pat) : bool := match es with [] => true | e :: r => int_bound vw X e && go r end) gs
  | PGraph g q => (match g with TV x => negb (mem_var x X) | TC _ => true end) && int_bound vw X q
  | PFilter _ => true
  | PBind _ v => negb (mem_var v X)
  | PValues vs rows =>
      forallb (fun row => forallb (fun x => match lookup (values_row vs row) x with Some t => is_int t | None => true end) X) rows
  | PSub s =>
      match s with
      | Sel _ pr w _ _ _ =>
          (match pr with
           | Some items => forallb (fun i => match i with PVar _ => true | PAgg _ _ al => negb (mem_var al X) end) items
           | None => true
           end) && int_bound vw X w
      end
  end.

Definition typed (vw : view) (p : pat) : bool := ord_consts p && int_bound vw (ord_vars p) p.
