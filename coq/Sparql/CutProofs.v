(* A sub-select with ORDER BY + LIMIT whose ORDER BY keys are projected variables and determine the projected row:
   the sorted sequence of projected rows is unique, so the cut is determined - finalize_subquery does not depend on the order
   of its input (`cut_determined`) and is the algebra's Slice(Distinct(Project(OrderBy ...))) (`cut_is_algebra`).
   The hypotheses are conditions on the solutions at hand: the engine's comparator is transitive on them (homogeneous key
   columns), two projected rows that compare Eq are equal (no two lexical forms of one number, no unbound-vs-empty key), and
   the algebra's comparator agrees with the engine's on them. *)
Require Import KV.Sparql.Base KV.Sparql.Syntax KV.Sparql.MuProofs KV.Sparql.JoinProofs KV.Sparql.Algebra KV.Sparql.Engine
        KV.Sparql.PlanEquiv KV.Sparql.Sem KV.Sparql.ScanProofs KV.Sparql.SemProofs KV.Sparql.ExecLemmas KV.Sparql.BridgeProofs
        KV.Sparql.ModifierProofs KV.Sparql.AggProofs.
Require Import Permutation Sorted Lia.

Lemma erow_cmp_restrict : forall vs ob a b, (forall v, In v (map fst ob) -> In v vs) ->
  erow_cmp ob (restrict vs a) (restrict vs b) = erow_cmp ob a b.
Proof.
  intros vs. induction ob as [|[v d] r IH]; intros a b H; cbn [erow_cmp]; [reflexivity|].
  rewrite !lookup_restrict. rewrite (proj2 (mem_var_in v vs)) by (apply H; left; auto).
  rewrite IH by (intros; apply H; right; auto). reflexivity.
Qed.

Lemma SS_map {A B} (f : A -> B) (R : A -> A -> Prop) (R' : B -> B -> Prop) : (forall a b, R a b -> R' (f a) (f b)) ->
  forall l, StronglySorted R l -> StronglySorted R' (map f l).
Proof.
  intros H. induction 1 as [|a l S IH F]; cbn [map]; constructor; auto. rewrite Forall_forall in *. intros y Hy.
  apply in_map_iff in Hy. destruct Hy as (x & <- & Hx). auto.
Qed.

Lemma sorted_perm_eq {A} (le : A -> A -> Prop) : forall l l',
  StronglySorted le l -> StronglySorted le l' -> Permutation l l' ->
  (forall x y, In x l -> In y l -> le x y -> le y x -> x = y) -> l = l'.
Proof.
  induction l as [|x r IH]; intros l' S S' P Anti.
  - apply Permutation_nil in P. subst. reflexivity.
  - destruct l' as [|y r']; [apply Permutation_sym in P; apply Permutation_nil in P; discriminate|].
    inversion S as [|? ? Sr Fx]; subst. inversion S' as [|? ? Sr' Fy]; subst. rewrite Forall_forall in Fx, Fy.
    assert (E : x = y).
    { assert (Iy : In y (x :: r)) by (eapply Permutation_in; [apply Permutation_sym; exact P | left; auto]).
      assert (Ix : In x (y :: r')) by (eapply Permutation_in; [exact P | left; auto]).
      destruct Iy as [Iy|Iy]; [auto|]. destruct Ix as [Ix|Ix]; [auto|].
      apply Anti; [left; auto | right; auto | apply Fx; auto | apply Fy; auto]. }
    subst y. f_equal. apply IH; auto.
    + eapply Permutation_cons_inv; eauto.
    + intros a b Ha Hb. apply Anti; right; auto.
Qed.

Lemma ob_le_antisym_eq : forall ob a b, ob_le ob a b -> ob_le ob b a -> erow_cmp ob a b = Eq.
Proof.
  intros ob a b H1 H2. unfold ob_le in *. rewrite (erow_cmp_antisym ob b a) in H2.
  destruct (erow_cmp ob a b); [reflexivity | exfalso; apply H2; reflexivity | exfalso; apply H1; reflexivity].
Qed.

Section Cut.
  Variables (ob : list (var * bool)) (vs : list var).
  Hypothesis Hob : forall v, In v (map fst ob) -> In v vs.

  Lemma esort_proj_unique : forall rows rows', Permutation rows rows' -> trans_on ob rows ->
    (forall x y, In x (map (restrict vs) rows) -> In y (map (restrict vs) rows) -> erow_cmp ob x y = Eq -> x = y) ->
    map (restrict vs) (esort ob rows) = map (restrict vs) (esort ob rows').
  Proof.
    intros rows rows' P Htrans Det.
    assert (SSp : forall l, trans_on ob l -> StronglySorted (ob_le ob) (map (restrict vs) (esort ob l))).
    { intros l Tl. apply (SS_map (restrict vs) (ob_le ob) (ob_le ob)); [|apply esort_strongly_sorted; exact Tl].
      intros a b H. unfold ob_le in *. rewrite erow_cmp_restrict by exact Hob. exact H. }
    apply (sorted_perm_eq (ob_le ob)); [apply SSp; exact Htrans | apply SSp; eapply trans_on_perm; eauto | |].
    - apply Permutation_map. eapply perm_trans; [apply esort_perm|]. eapply perm_trans; [exact P|]. apply Permutation_sym. apply esort_perm.
    - intros x y Hx Hy L1 L2. apply Det.
      + eapply Permutation_in; [apply Permutation_map; apply esort_perm | exact Hx].
      + eapply Permutation_in; [apply Permutation_map; apply esort_perm | exact Hy].
      + apply ob_le_antisym_eq; auto.
  Qed.
End Cut.

(* the algebra's sort is the engine's when the two comparators agree on the rows *)
Lemma in_eins_sorted : forall ob x l y, In y (eins_sorted ob x l) -> y = x \/ In y l.
Proof.
  intros ob x. induction l as [|z r IH]; intros y H; cbn [eins_sorted] in H.
  - destruct H as [H|[]]; auto.
  - destruct (erow_cmp ob x z); cbn [In] in H; try (destruct H as [H|H]; [right; left; auto | destruct (IH _ H); [auto | right; right; auto]]).
    destruct H as [H|[H|H]]; [auto | right; left; auto | right; right; auto].
Qed.

Lemma ins_sorted_eq : forall ob x l, (forall z, In z l -> row_cmp ob x z = erow_cmp ob x z) -> ins_sorted ob x l = eins_sorted ob x l.
Proof.
  intros ob x. induction l as [|z r IH]; intros H; cbn [ins_sorted eins_sorted]; [reflexivity|].
  rewrite (H z) by (left; auto). destruct (erow_cmp ob x z); try reflexivity; f_equal; apply IH; intros; apply H; right; auto.
Qed.

Lemma order_rows_eq_esort : forall ob l, (forall a b, In a l -> In b l -> row_cmp ob a b = erow_cmp ob a b) ->
  order_rows ob l = esort ob l.
Proof.
  intros ob l H. unfold order_rows, esort.
  assert (G : forall l' acc, (forall a, In a l' -> In a l) -> (forall a, In a acc -> In a l) ->
                fold_left (fun acc x => ins_sorted ob x acc) l' acc = fold_left (fun acc x => eins_sorted ob x acc) l' acc).
  { induction l' as [|x r IH]; intros acc Hl Ha; cbn [fold_left]; [reflexivity|].
    rewrite ins_sorted_eq by (intros z Hz; apply H; [apply Hl; left; auto | apply Ha; auto]).
    apply IH; [intros; apply Hl; right; auto|].
    intros a Hin. apply in_eins_sorted in Hin. destruct Hin as [->|Hin]; [apply Hl; left; auto | apply Ha; auto]. }
  apply G; [auto | intros a []].
Qed.

(* a sub-select without aggregation, with an explicit projection, ORDER BY over projected variables, any LIMIT *)
Definition cut_sub (s : subspec) : bool :=
  match ss_proj s, aggs_of (ss_proj s), ss_group s with
  | Some items, [], [] => forallb (fun v => mem_var v (pcols (ss_proj s))) (map fst (ss_order s))
  | _, _, _ => false
  end.

Lemma cut_finalize : forall s rows, cut_sub s = true ->
  finalize_subquery s rows =
  (fun r2 => match ss_limit s with Some n => firstn (N.to_nat n) r2 | None => r2 end)
    ((fun r1 => if ss_distinct s then dedup mu_eqb r1 else r1) (map (restrict (pcols (ss_proj s))) (esort (ss_order s) rows))).
Proof.
  intros s rows C. unfold cut_sub in C. unfold finalize_subquery, eaggregate.
  destruct (ss_proj s) as [items|] eqn:Ep; [|discriminate]. destruct (aggs_of (Some items)); [|discriminate].
  destruct (ss_group s); [|discriminate]. reflexivity.
Qed.

Theorem cut_determined : forall s rows rows', cut_sub s = true -> Permutation rows rows' ->
  trans_on (ss_order s) rows ->
  (forall x y, In x (map (restrict (pcols (ss_proj s))) rows) -> In y (map (restrict (pcols (ss_proj s))) rows) ->
               erow_cmp (ss_order s) x y = Eq -> x = y) ->
  finalize_subquery s rows = finalize_subquery s rows'.
Proof.
  intros s rows rows' C P T Det. rewrite !cut_finalize by exact C. cbv beta.
  rewrite (esort_proj_unique (ss_order s) (pcols (ss_proj s))) with (rows' := rows'); auto.
  unfold cut_sub in C. destruct (ss_proj s) as [items|]; [|discriminate]. destruct (aggs_of (Some items)); [|discriminate].
  destruct (ss_group s); [|discriminate]. rewrite forallb_forall in C. intros v Hv. apply mem_var_in. apply C. exact Hv.
Qed.

Theorem cut_is_algebra : forall d items w ob lim rows rows',
  let s := {| ss_proj := Some items; ss_distinct := d; ss_group := []; ss_order := ob; ss_limit := lim |} in
  cut_sub s = true -> Permutation rows rows' ->
  trans_on ob rows ->
  (forall x y, In x (map (restrict (pcols (Some items))) rows) -> In y (map (restrict (pcols (Some items))) rows) ->
               erow_cmp ob x y = Eq -> x = y) ->
  (forall a b, In a rows' -> In b rows' -> row_cmp ob a b = erow_cmp ob a b) ->
  finalize_subquery s rows = modifiers (Sel d (Some items) w [] ob lim) rows'.
Proof.
  intros d items w ob lim rows rows' s C P T Det Agree.
  rewrite (cut_determined s rows rows' C P T Det). rewrite cut_finalize by exact C. cbv beta.
  unfold modifiers, modifiers_nolimit, apply_limit, aggregate. subst s. cbn [ss_proj ss_distinct ss_group ss_order ss_limit] in *.
  unfold cut_sub in C. cbn [ss_proj ss_group ss_order] in C. destruct (aggs_of (Some items)) eqn:Ea; [|discriminate].
  rewrite (order_rows_eq_esort ob rows' Agree). reflexivity.
Qed.
