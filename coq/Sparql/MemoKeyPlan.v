(* MODEL of optimizer.rs: create_memo_key = serialize_logical_plan, the key of the optimizer's plan cache (`memo`), for every
   logical operator the lowering of a group graph pattern produces (Unit, Scan, Union, Graph, Selection, Join, Subquery, Bind,
   Values; Projection / Buffer / MLPredict are not produced for the fragment), written exactly as the code writes it:

     Unit                          Unit
     Scan { pattern }              Scan({subject:?},{predicate:?},{object:?},graph={graph:?})
     Union { branches }            Union(b1,b2,...)                       (join(","))
     Graph { input, graph }        Graph({graph:?},[input])
     Selection { predicate, c }    Selection([predicate], filter)         (serialize_filter_expression: MemoKey.v)
     Join { left, right }          Join([left],[right])
     Subquery { inner, spec }      Subquery({spec:?},[inner])             (derived Debug of SubquerySpec)
     Bind { input, f, args, out }  Bind(input, f({args:?}), out)          (f = CONCAT in the fragment; out is written raw)
     Values { variables, values }  Values({variables:?}, {values:?})

   {:?} of Term is Variable("name") / Constant(id), of GraphTerm Default / Named(id) / Variable("name"), of a String its
   double-quoted escaped form (MemoKey.dbg), of a Vec `[a, b]`, of an Option Some(x) / None, of u32 / usize decimal digits.
   Constants are DICTIONARY IDS in scans, graph terms and VALUES cells (`enc`), and strings in filters and BIND arguments.
   A variable is written with its spelling `vn x` (sigil included: the code keeps `?x` / `$x` as typed).

   The serializers are written in continuation style (`k_plan l t` = the key of l followed by t), so that "prefix-free" is
   `k_plan l t = k_plan l' t' -> l = l' /\ t = t'` and composes without re-association; `plan_key l = k_plan l ""`.
   The check compares `plan_key` with the keys found in the real optimizer's `memo` after planning (checks/c02.py). *)
Require Import KV.Sparql.Base KV.Sparql.Syntax KV.Sparql.Engine KV.Sparql.PlanEquiv KV.Sparql.MemoKey KV.Sparql.SemProofs.
Require Import Ascii DecimalString Decimal DecimalN.
Local Open Scope string_scope.

(* ---- leaves ---- *)
Definition dec (n : N) : string := NilEmpty.string_of_uint (N.to_uint n).

Lemma lit_inj : forall s t t', append s t = append s t' -> t = t'.
Proof. induction s as [|c r IH]; intros t t' H; cbn in H; [exact H | inversion H; auto]. Qed.

Lemma dec_close_prefix : forall n n' t t',
  append (dec n) (String ")" t) = append (dec n') (String ")" t') -> n = n' /\ t = t'.
Proof.
  intros n n' t t' H. unfold dec in H. apply digits_prefix in H; auto using uint_digits. destruct H as [E1 E2].
  inversion E2. split; auto.
  assert (E : NilEmpty.uint_of_string (NilEmpty.string_of_uint (N.to_uint n)) = NilEmpty.uint_of_string (NilEmpty.string_of_uint (N.to_uint n')))
    by (rewrite E1; reflexivity).
  rewrite !NilEmpty.usu in E. inversion E as [E'].
  rewrite <- (Unsigned.of_to n), <- (Unsigned.of_to n'), E'. reflexivity.
Qed.

(* names: a sigil followed by characters that are none of the delimiters that can follow a raw name in a key *)
Definition delim (c : ascii) : bool := existsb (Ascii.eqb c) [")"; "="; "!"; "<"; ">"]%char.
Fixpoint no_delim (s : string) : bool :=
  match s with EmptyString => true | String c r => negb (delim c) && no_delim r end.
Definition sigil (c : ascii) : bool := Ascii.eqb c "?" || Ascii.eqb c "$".
Definition name_ok (s : string) : bool :=
  match s with String c r => sigil c && no_delim r | EmptyString => false end.

Lemma no_delim_prefix : forall u u' c t c' t', no_delim u = true -> no_delim u' = true ->
  delim c = true -> delim c' = true ->
  append u (String c t) = append u' (String c' t') -> u = u' /\ String c t = String c' t'.
Proof.
  induction u as [|a r IH]; intros [|a' r'] c t c' t' D D' N N' H; cbn in *.
  - auto.
  - exfalso. inversion H. subst. apply andb_true_iff in D'. destruct D' as [D' _]. rewrite N in D'. discriminate.
  - exfalso. inversion H. subst. apply andb_true_iff in D. destruct D as [D _]. rewrite N' in D. discriminate.
  - inversion H. subst. apply andb_true_iff in D. apply andb_true_iff in D'.
    destruct (IH r' c t c' t') as [E1 E2]; try tauto. subst. auto.
Qed.

Lemma name_head : forall u, name_ok u = true -> exists s r, u = String s r /\ sigil s = true /\ no_delim r = true.
Proof. intros [|s r] H; [discriminate|]. cbn in H. apply andb_true_iff in H. destruct H. eauto. Qed.

Lemma name_prefix : forall u u' c t c' t', name_ok u = true -> name_ok u' = true -> delim c = true -> delim c' = true ->
  append u (String c t) = append u' (String c' t') -> u = u' /\ String c t = String c' t'.
Proof.
  intros u u' c t c' t' K K' D D' H.
  destruct (name_head _ K) as (s & r & E & _ & N). destruct (name_head _ K') as (s' & r' & E' & _ & N'). subst u u'.
  cbn [append] in H. inversion H as [[Hs H1]]. apply no_delim_prefix in H1; auto. destruct H1 as [-> H1]. auto.
Qed.

Lemma is_digit_no_delim : forall c, is_digit c = true -> delim c = false.
Proof.
  intros c H. unfold is_digit in H. cbn [existsb] in H.
  repeat (apply orb_true_iff in H; destruct H as [H|H]; [apply Ascii.eqb_eq in H; subst; reflexivity|]). discriminate.
Qed.
Lemma digits_no_delim : forall u, all_digits u = true -> no_delim u = true.
Proof.
  induction u as [|c r IH]; intro H; cbn [all_digits no_delim] in *; [reflexivity|]. apply andb_true_iff in H. destruct H as [H1 H2].
  rewrite (is_digit_no_delim _ H1), (IH H2). reflexivity.
Qed.
Lemma show_var_name_ok : forall x, name_ok (show_var x) = true.
Proof. intros x. unfold show_var. cbn. apply digits_no_delim. apply uint_digits. Qed.

(* ---- Debug of a Vec, join(","): a list with a separator and a closing delimiter ---- *)
Section SerList.
  Context {A : Type}.
  Variable f : A -> string -> string.
  Variables sep close : string.
  Fixpoint ser_list (l : list A) (t : string) : string :=
    match l with
    | [] => append close t
    | a :: r => f a (match r with [] => append close t | _ :: _ => append sep (ser_list r t) end)
    end.

  Variables (cs cc : ascii) (sr cr : string).
  Hypothesis Hsep : sep = String cs sr.
  Hypothesis Hclose : close = String cc cr.
  Hypothesis Hdiff : cs <> cc.
  Variable P : A -> Prop.
  (* no element starts with the closing character *)
  Hypothesis Hhd : forall a t, P a -> exists c w, f a t = String c w /\ c <> cc.

  Lemma ser_list_pf : forall l,
    Forall (fun a => P a /\ forall a' t t', P a' -> f a t = f a' t' -> a = a' /\ t = t') l ->
    forall l' t t', Forall P l' -> ser_list l t = ser_list l' t' -> l = l' /\ t = t'.
  Proof.
    induction l as [|a r IH]; intros HF l' t t' HP H.
    - destruct l' as [|a' r']; cbn [ser_list] in H.
      + apply lit_inj in H. auto.
      + exfalso. inversion HP as [|? ? Pa' _]; subst.
        destruct (Hhd a' (match r' with [] => append close t' | _ :: _ => append sep (ser_list r' t') end) Pa') as (c & w & E & N).
        rewrite E, Hclose in H. cbn in H. inversion H. congruence.
    - inversion HF as [|? ? [Pa Ha] HFr]; subst. destruct l' as [|a' r'].
      + exfalso. cbn [ser_list] in H.
        destruct (Hhd a (match r with [] => append close t | _ :: _ => append sep (ser_list r t) end) Pa) as (c & w & E & N).
        rewrite E, Hclose in H. cbn in H. inversion H. congruence.
      + inversion HP as [|? ? Pa' HPr]; subst. cbn [ser_list] in H.
        apply Ha in H; auto. destruct H as [-> H].
        destruct r as [|b r0]; destruct r' as [|b' r0'].
        * apply lit_inj in H. auto.
        * exfalso. rewrite Hclose, Hsep in H. cbn in H. inversion H. congruence.
        * exfalso. rewrite Hclose, Hsep in H. cbn in H. inversion H. congruence.
        * apply lit_inj in H. apply (IH HFr) in H; auto. destruct H as [-> ->]. auto.
  Qed.
End SerList.

Section Key.
  Variable vn : var -> string.          (* the spelling of a variable, sigil included *)
  Variable enc : term -> N.             (* the dictionary id of a term *)

  Definition k_term (x : tm) (t : string) : string :=
    match x with
    | TV v => append "Variable(" (append (dbg (vn v)) (String ")" t))
    | TC c => append "Constant(" (append (dec (enc c)) (String ")" t))
    end.
  Definition k_gterm (g : gterm) (t : string) : string :=
    match g with
    | GDefault => append "Default" t
    | GNamed n => append "Named(" (append (dec (enc n)) (String ")" t))
    | GVar v => append "Variable(" (append (dbg (vn v)) (String ")" t))
    end.
  Definition k_cell (c : option term) (t : string) : string :=
    match c with
    | Some x => append "Some(" (append (dec (enc x)) (String ")" t))
    | None => append "None" t
    end.
  Definition k_name (x : var) (t : string) : string := append (dbg (vn x)) t.
  Definition dbg_list {A} (f : A -> string -> string) (l : list A) (t : string) : string :=
    String "[" (ser_list f ", " "]" l t).

  (* serialize_filter_expression (as MemoKey.ser_expr, with the spelling vn) *)
  Definition k_valstr (r : tm) : string := match r with TV y => vn y | TC c => c end.
  Fixpoint k_expr (e : expr) (t : string) : string :=
    match e with
    | ECmp op l r => append (vn l) (append (show_op op) (append (dbg (k_valstr r)) t))
    | EAnd a b => String "(" (k_expr a (append " AND " (k_expr b (String ")" t))))
    | EOr a b => String "(" (k_expr a (append " OR " (k_expr b (String ")" t))))
    | ENot a => append "NOT(" (k_expr a (String ")" t))
    end.

  Definition k_argstr (a : barg) : string := match a with BV x => vn x | BC c => c end.
  Definition k_arg (a : barg) (t : string) : string := append (dbg (k_argstr a)) t.

  (* derived Debug of SubqueryProjection / SortDirection / SubquerySpec *)
  Definition k_kind (k : aggk) : string := match k with ASum => "SUM" | AMin => "MIN" | AMax => "MAX" | AAvg => "AVG" end.
  Definition k_item (i : pitem) (t : string) : string :=
    match i with
    | PVar x => append "SubqueryProjection { kind: ""VAR"", variable: " (append (dbg (vn x)) (append ", alias: None }" t))
    | PAgg k x al =>
        append "SubqueryProjection { kind: " (append (dbg (k_kind k)) (append ", variable: " (append (dbg (vn x))
          (append ", alias: Some(" (append (dbg (vn al)) (append ") }" t))))))
    end.
  Definition k_ord (o : var * bool) (t : string) : string :=
    append "(" (append (dbg (vn (fst o))) (append (if snd o then ", Desc)" else ", Asc)") t)).
  Definition k_bool (b : bool) (t : string) : string := append (if b then "true" else "false") t.
  Definition k_optitems (pr : option (list pitem)) (u : string) : string :=
    match pr with None => append "None" u | Some items => append "Some(" (dbg_list k_item items (String ")" u)) end.
  Definition k_optnum (lim : option N) (u : string) : string :=
    match lim with None => append "None" u | Some n => append "Some(" (append (dec n) (String ")" u)) end.
  Definition k_spec (s : subspec) (t : string) : string :=
    append "SubquerySpec { projection: " (k_optitems (ss_proj s)
      (append ", distinct: " (k_bool (ss_distinct s)
        (append ", group_vars: " (dbg_list k_name (ss_group s)
          (append ", order_conditions: " (dbg_list k_ord (ss_order s)
            (append ", limit: " (k_optnum (ss_limit s) (append " }" t)))))))))).

  Fixpoint k_plan (l : lop) (t : string) {struct l} : string :=
    match l with
    | LUnit => append "Unit" t
    | LScan q =>
        let '(s, p, o, g) := q in
        append "Scan(" (k_term s (String "," (k_term p (String "," (k_term o (append ",graph=" (k_gterm g (String ")" t))))))))
    | LUnion bs => append "Union(" (ser_list k_plan "," ")" bs t)
    | LGraph i g => append "Graph(" (k_gterm g (append ",[" (k_plan i (append "])" t))))
    | LSelection i c => append "Selection([" (k_plan i (append "], " (k_expr c (String ")" t))))
    | LJoin a b => append "Join([" (k_plan a (append "],[" (k_plan b (append "])" t))))
    | LSubquery i s => append "Subquery(" (k_spec s (append ",[" (k_plan i (append "])" t))))
    | LBind i args v => append "Bind(" (k_plan i (append ", CONCAT(" (dbg_list k_arg args (append "), " (append (vn v) (String ")" t))))))
    | LValues vs rows => append "Values(" (dbg_list k_name vs (append ", " (dbg_list (dbg_list k_cell) rows (String ")" t))))
    end.

  Definition plan_key (l : lop) : string := k_plan l "".

  (* ---- side conditions ---- *)
  (* a constant of a filter / BIND argument that starts with a sigil IS read as a variable by the engine *)
  Definition lit_ok (c : term) : bool := match c with String a _ => negb (sigil a) | EmptyString => true end.
  Definition kconst_ok (r : tm) : bool := match r with TC c => lit_ok c | TV _ => true end.
  Fixpoint kexpr_ok (e : expr) : bool :=
    match e with
    | ECmp _ _ r => kconst_ok r
    | EAnd a b | EOr a b => kexpr_ok a && kexpr_ok b
    | ENot a => kexpr_ok a
    end.
  Definition karg_ok (a : barg) : bool := match a with BC c => lit_ok c | BV _ => true end.
  Fixpoint kplan_ok (l : lop) {struct l} : bool :=
    match l with
    | LUnit | LScan _ | LValues _ _ => true
    | LUnion bs => (fix go (bs : list lop) : bool := match bs with [] => true | b :: r => kplan_ok b && go r end) bs
    | LGraph i _ | LSubquery i _ => kplan_ok i
    | LSelection i c => kplan_ok i && kexpr_ok c
    | LJoin a b => kplan_ok a && kplan_ok b
    | LBind i args _ => kplan_ok i && forallb karg_ok args
    end.

  Hypothesis vn_ok : forall x, name_ok (vn x) = true.
  Hypothesis vn_inj : forall x y, vn x = vn y -> x = y.
  Hypothesis enc_inj : forall a b, enc a = enc b -> a = b.

  Ltac lit H := first [apply lit_inj in H | (cbn [append] in H; let H' := fresh in inversion H as [H']; clear H; rename H' into H)].
  Ltac absurd_lit H := exfalso; cbn in H; discriminate H.

  Lemma pf_term : forall x x' t t', k_term x t = k_term x' t' -> x = x' /\ t = t'.
  Proof.
    intros [v|c] [v'|c'] t t' H; unfold k_term in H; try absurd_lit H; lit H.
    - apply dbg_prefix in H. destruct H as [E H]. apply vn_inj in E. inversion H. subst. auto.
    - apply dec_close_prefix in H. destruct H as [E H]. apply enc_inj in E. subst. auto.
  Qed.

  Lemma pf_gterm : forall g g' t t', k_gterm g t = k_gterm g' t' -> g = g' /\ t = t'.
  Proof.
    intros [|n|v] [|n'|v'] t t' H; unfold k_gterm in H; try absurd_lit H; lit H.
    - auto.
    - apply dec_close_prefix in H. destruct H as [E H]. apply enc_inj in E. subst. auto.
    - apply dbg_prefix in H. destruct H as [E H]. apply vn_inj in E. inversion H. subst. auto.
  Qed.

  Lemma pf_cell : forall c c' t t', k_cell c t = k_cell c' t' -> c = c' /\ t = t'.
  Proof.
    intros [x|] [x'|] t t' H; unfold k_cell in H; try absurd_lit H; lit H.
    - apply dec_close_prefix in H. destruct H as [E H]. apply enc_inj in E. subst. auto.
    - auto.
  Qed.

  Lemma pf_name : forall x x' t t', k_name x t = k_name x' t' -> x = x' /\ t = t'.
  Proof. intros x x' t t' H. unfold k_name in H. apply dbg_prefix in H. destruct H as [E H]. apply vn_inj in E. auto. Qed.

  Lemma dbg_head : forall s t, exists w, append (dbg s) t = String dq w.
  Proof. intros. unfold dbg. cbn. eauto. Qed.

  (* Debug of a Vec whose elements are prefix-free and do not start with `]` *)
  Lemma dbg_list_pf : forall {A} (f : A -> string -> string) (P : A -> Prop),
    (forall a t, P a -> exists c w, f a t = String c w /\ c <> "]"%char) ->
    forall l, Forall (fun a => P a /\ forall a' t t', P a' -> f a t = f a' t' -> a = a' /\ t = t') l ->
    forall l' t t', Forall P l' -> dbg_list f l t = dbg_list f l' t' -> l = l' /\ t = t'.
  Proof.
    intros A f P Hhd l HF l' t t' HP H. unfold dbg_list in H. inversion H as [H1].
    eapply (ser_list_pf f ", " "]" "," "]" " " "" eq_refl eq_refl) in H1; eauto. discriminate.
  Qed.

  Lemma Forall_all : forall {A} (Q : A -> Prop) l, (forall a, Q a) -> Forall Q l.
  Proof. intros. apply Forall_forall. auto. Qed.

  Lemma pf_names : forall l l' t t', dbg_list k_name l t = dbg_list k_name l' t' -> l = l' /\ t = t'.
  Proof.
    intros l l' t t' H. eapply (dbg_list_pf k_name (fun _ => True)); eauto.
    - intros a u _. destruct (dbg_head (vn a) u) as (w & E). exists dq, w. split; [exact E | discriminate].
    - apply Forall_all. intros a. split; auto. intros a' u u' _ E. apply pf_name in E. exact E.
    - apply Forall_all. auto.
  Qed.

  Lemma pf_row : forall l l' t t', dbg_list k_cell l t = dbg_list k_cell l' t' -> l = l' /\ t = t'.
  Proof.
    intros l l' t t' H. eapply (dbg_list_pf k_cell (fun _ => True)); eauto.
    - intros [x|] u _; cbn; eexists; eexists; (split; [reflexivity | discriminate]).
    - apply Forall_all. intros a. split; auto. intros a' u u' _ E. apply pf_cell in E. exact E.
    - apply Forall_all. auto.
  Qed.

  Lemma pf_rows : forall l l' t t', dbg_list (dbg_list k_cell) l t = dbg_list (dbg_list k_cell) l' t' -> l = l' /\ t = t'.
  Proof.
    intros l l' t t' H. eapply (dbg_list_pf (dbg_list k_cell) (fun _ => True)); eauto.
    - intros a u _. unfold dbg_list. eexists; eexists; (split; [reflexivity | discriminate]).
    - apply Forall_all. intros a. split; auto. intros a' u u' _ E. apply pf_row in E. exact E.
    - apply Forall_all. auto.
  Qed.

  (* filters *)
  Lemma op_delim : forall o u, exists c w, append (show_op o) u = String c w /\ delim c = true.
  Proof. intros o u. destruct o; cbn; eexists; eexists; split; reflexivity. Qed.

  Lemma lit_not_name : forall c x, lit_ok c = true -> c <> vn x.
  Proof.
    intros c x K E. destruct (name_head _ (vn_ok x)) as (s & r & E' & S & _). rewrite E' in E. subst c. cbn in K. rewrite S in K. discriminate.
  Qed.

  Lemma k_valstr_inj : forall r r', kconst_ok r = true -> kconst_ok r' = true -> k_valstr r = k_valstr r' -> r = r'.
  Proof.
    intros [x|c] [y|d] K K' H; cbn in *.
    - apply vn_inj in H. subst. reflexivity.
    - exfalso. eapply lit_not_name; eauto.
    - exfalso. eapply lit_not_name; eauto.
    - subst. reflexivity.
  Qed.

  Lemma name_not_paren : forall x u w, append (vn x) u <> String "(" w.
  Proof.
    intros x u w E. destruct (name_head _ (vn_ok x)) as (s & r & E' & S & _). rewrite E' in E. cbn in E. inversion E. subst s. discriminate.
  Qed.
  Lemma name_not_N : forall x u w, append (vn x) u <> String "N" w.
  Proof.
    intros x u w E. destruct (name_head _ (vn_ok x)) as (s & r & E' & S & _). rewrite E' in E. cbn in E. inversion E. subst s. discriminate.
  Qed.

  Lemma pf_expr : forall e e' t t', kexpr_ok e = true -> kexpr_ok e' = true -> k_expr e t = k_expr e' t' -> e = e' /\ t = t'.
  Proof.
    induction e as [op l r|a IHa b IHb|a IHa b IHb|a IHa]; intros e' t t' K K' H.
    - destruct e' as [op' l' r'|a' b'|a' b'|a']; cbn [k_expr] in H.
      + destruct (op_delim op (append (dbg (k_valstr r)) t)) as (c & w & E1 & D1).
        destruct (op_delim op' (append (dbg (k_valstr r')) t')) as (c' & w' & E2 & D2).
        rewrite E1, E2 in H. apply name_prefix in H; auto. destruct H as [El H]. apply vn_inj in El. subst l'.
        rewrite <- E1, <- E2 in H. apply op_dbg_prefix in H. destruct H as (Eo & Ev & Et). subst.
        apply k_valstr_inj in Ev; auto. subst. auto.
      + exfalso. eapply name_not_paren; eauto.
      + exfalso. eapply name_not_paren; eauto.
      + exfalso. cbn in H. eapply name_not_N; eauto.
    - cbn [kexpr_ok] in K. apply andb_true_iff in K. destruct K as [Ka Kb].
      destruct e' as [op' l' r'|a' b'|a' b'|a']; cbn [k_expr] in H.
      + exfalso. symmetry in H. eapply name_not_paren; eauto.
      + cbn [kexpr_ok] in K'. apply andb_true_iff in K'. destruct K' as [Ka' Kb'].
        inversion H as [H1]. apply IHa in H1; auto. destruct H1 as [<- H1]. lit H1.
        apply IHb in H1; auto. destruct H1 as [<- H1]. inversion H1. auto.
      + exfalso. cbn [kexpr_ok] in K'. apply andb_true_iff in K'. destruct K' as [Ka' Kb'].
        inversion H as [H1]. apply IHa in H1; auto. destruct H1 as [_ H1]. cbn in H1. discriminate H1.
      + exfalso. cbn in H. discriminate H.
    - cbn [kexpr_ok] in K. apply andb_true_iff in K. destruct K as [Ka Kb].
      destruct e' as [op' l' r'|a' b'|a' b'|a']; cbn [k_expr] in H.
      + exfalso. symmetry in H. eapply name_not_paren; eauto.
      + exfalso. cbn [kexpr_ok] in K'. apply andb_true_iff in K'. destruct K' as [Ka' Kb'].
        inversion H as [H1]. apply IHa in H1; auto. destruct H1 as [_ H1]. cbn in H1. discriminate H1.
      + cbn [kexpr_ok] in K'. apply andb_true_iff in K'. destruct K' as [Ka' Kb'].
        inversion H as [H1]. apply IHa in H1; auto. destruct H1 as [<- H1]. lit H1.
        apply IHb in H1; auto. destruct H1 as [<- H1]. inversion H1. auto.
      + exfalso. cbn in H. discriminate H.
    - cbn [kexpr_ok] in K.
      destruct e' as [op' l' r'|a' b'|a' b'|a']; cbn [k_expr] in H.
      + exfalso. symmetry in H. cbn in H. eapply name_not_N; eauto.
      + exfalso. cbn in H. discriminate H.
      + exfalso. cbn in H. discriminate H.
      + cbn [kexpr_ok] in K'. lit H. apply IHa in H; auto. destruct H as [<- H]. inversion H. auto.
  Qed.

  (* BIND arguments *)
  Lemma k_argstr_inj : forall a a', karg_ok a = true -> karg_ok a' = true -> k_argstr a = k_argstr a' -> a = a'.
  Proof.
    intros [x|c] [y|d] K K' H; cbn in *.
    - apply vn_inj in H. subst. reflexivity.
    - exfalso. eapply lit_not_name; eauto.
    - exfalso. eapply lit_not_name; eauto.
    - subst. reflexivity.
  Qed.

  Lemma pf_args : forall l l' t t', forallb karg_ok l = true -> forallb karg_ok l' = true ->
    dbg_list k_arg l t = dbg_list k_arg l' t' -> l = l' /\ t = t'.
  Proof.
    intros l l' t t' K K' H. eapply (dbg_list_pf k_arg (fun a => karg_ok a = true)); eauto.
    - intros a u _. destruct (dbg_head (k_argstr a) u) as (w & E). exists dq, w. split; [exact E | discriminate].
    - apply Forall_forall. intros a Ha. rewrite forallb_forall in K. split; auto.
      intros a' u u' Ka' E. unfold k_arg in E. apply dbg_prefix in E. destruct E as [E1 E2]. apply k_argstr_inj in E1; auto.
    - apply Forall_forall. rewrite forallb_forall in K'. auto.
  Qed.

  (* sub-select specifications *)
  Lemma k_kind_inj : forall k k', k_kind k = k_kind k' -> k = k'.
  Proof. intros [] [] H; cbn in H; try discriminate H; reflexivity. Qed.

  Lemma pf_item : forall i i' t t', k_item i t = k_item i' t' -> i = i' /\ t = t'.
  Proof.
    intros [x|k x al] [x'|k' x' al'] t t' H; unfold k_item in H.
    - lit H. apply dbg_prefix in H. destruct H as [E H]. apply vn_inj in E. lit H. subst. auto.
    - destruct k'; absurd_lit H.
    - destruct k; absurd_lit H.
    - lit H. apply dbg_prefix in H. destruct H as [E1 H]. apply k_kind_inj in E1. lit H.
      apply dbg_prefix in H. destruct H as [E2 H]. apply vn_inj in E2. lit H.
      apply dbg_prefix in H. destruct H as [E3 H]. apply vn_inj in E3. lit H. subst. auto.
  Qed.

  Lemma pf_items : forall l l' t t', dbg_list k_item l t = dbg_list k_item l' t' -> l = l' /\ t = t'.
  Proof.
    intros l l' t t' H. eapply (dbg_list_pf k_item (fun _ => True)); eauto.
    - intros [x|k x al] u _; cbn; eexists; eexists; (split; [reflexivity | discriminate]).
    - apply Forall_all. intros a. split; auto. intros a' u u' _ E. apply pf_item in E. exact E.
    - apply Forall_all. auto.
  Qed.

  Lemma pf_ord : forall o o' t t', k_ord o t = k_ord o' t' -> o = o' /\ t = t'.
  Proof.
    intros [x d] [x' d'] t t' H. unfold k_ord in H. cbn [fst snd] in H. apply lit_inj in H. rename H into H1.
    apply dbg_prefix in H1. destruct H1 as [E H1]. apply vn_inj in E. subst x'.
    destruct d, d'; try absurd_lit H1; lit H1; subst; auto.
  Qed.

  Lemma pf_ords : forall l l' t t', dbg_list k_ord l t = dbg_list k_ord l' t' -> l = l' /\ t = t'.
  Proof.
    intros l l' t t' H. eapply (dbg_list_pf k_ord (fun _ => True)); eauto.
    - intros a u _. unfold k_ord. eexists; eexists; (split; [reflexivity | discriminate]).
    - apply Forall_all. intros a. split; auto. intros a' u u' _ E. apply pf_ord in E. exact E.
    - apply Forall_all. auto.
  Qed.

  Lemma pf_optitems : forall pr pr' t t', k_optitems pr t = k_optitems pr' t' -> pr = pr' /\ t = t'.
  Proof.
    intros [items|] [items'|] t t' H; unfold k_optitems in H; try absurd_lit H; lit H.
    - apply pf_items in H. destruct H as [-> H]. inversion H. auto.
    - auto.
  Qed.
  Lemma pf_optnum : forall n n' t t', k_optnum n t = k_optnum n' t' -> n = n' /\ t = t'.
  Proof.
    intros [n|] [n'|] t t' H; unfold k_optnum in H; try absurd_lit H; lit H.
    - apply dec_close_prefix in H. destruct H as [-> H]. auto.
    - auto.
  Qed.
  Lemma pf_bool : forall d d' t t', k_bool d t = k_bool d' t' -> d = d' /\ t = t'.
  Proof. intros [] [] t t' H; unfold k_bool in H; try absurd_lit H; lit H; auto. Qed.

  Lemma pf_spec : forall s s' t t', k_spec s t = k_spec s' t' -> s = s' /\ t = t'.
  Proof.
    intros [pr d gb ob lim] [pr' d' gb' ob' lim'] t t' H. unfold k_spec in H.
    cbn [ss_proj ss_distinct ss_group ss_order ss_limit] in H. lit H.
    apply pf_optitems in H. destruct H as [-> H]. lit H.
    apply pf_bool in H. destruct H as [-> H]. lit H.
    apply pf_names in H. destruct H as [-> H]. lit H.
    apply pf_ords in H. destruct H as [-> H]. lit H.
    apply pf_optnum in H. destruct H as [-> H]. lit H. subst. auto.
  Qed.

  (* ---- the plan key ---- *)
  Lemma kplan_ok_LUnion : forall bs, kplan_ok (LUnion bs) = forallb kplan_ok bs.
  Proof. intros. cbn [kplan_ok]. induction bs as [|b r IH]; cbn [forallb]; [reflexivity | rewrite <- IH; reflexivity]. Qed.

  Lemma k_plan_head : forall l t, exists c w, k_plan l t = String c w /\ c <> ")"%char.
  Proof. intros l t. destruct l; cbn [k_plan]; try (destruct q as [[[? ?] ?] ?]); cbn; eexists; eexists; (split; [reflexivity | discriminate]). Qed.

  Theorem k_plan_prefix_free : forall l l' t t', kplan_ok l = true -> kplan_ok l' = true ->
    k_plan l t = k_plan l' t' -> l = l' /\ t = t'.
  Proof.
    induction l using lop_ind'; intros l' t t' K K' HK.
    - destruct l'; cbn [k_plan] in HK; try (destruct q as [[[? ?] ?] ?]); try absurd_lit HK. lit HK. auto.
    - destruct q as [[[s p] o] g].
      destruct l'; cbn [k_plan] in HK; try (destruct q as [[[s' p'] o'] g']); try absurd_lit HK. lit HK.
      apply pf_term in HK. destruct HK as [-> HK]. inversion HK as [H1]. clear HK.
      apply pf_term in H1. destruct H1 as [-> HK]. inversion HK as [H1]. clear HK.
      apply pf_term in H1. destruct H1 as [-> HK]. lit HK.
      apply pf_gterm in HK. destruct HK as [-> HK]. inversion HK. auto.
    - destruct l'; cbn [k_plan] in HK; try (destruct q as [[[? ?] ?] ?]); try absurd_lit HK. lit HK.
      rewrite kplan_ok_LUnion in K, K'.
      assert (D : ","%char <> ")"%char) by discriminate.
      assert (Hhd : forall a u, kplan_ok a = true -> exists c w, k_plan a u = String c w /\ c <> ")"%char) by (intros; apply k_plan_head).
      assert (HF : Forall (fun a => kplan_ok a = true /\ forall a' t t', kplan_ok a' = true -> k_plan a t = k_plan a' t' -> a = a' /\ t = t') bs).
      { apply Forall_forall. intros b Hb. rewrite Forall_forall in H. rewrite forallb_forall in K. split; [auto|].
        intros b' u u' Kb' E. eapply H; eauto. }
      match goal with HK : ser_list _ _ _ bs _ = ser_list _ _ _ ?bs' _ |- _ =>
        assert (HP : Forall (fun b => kplan_ok b = true) bs') by (apply Forall_forall; rewrite forallb_forall in K'; auto);
        destruct (ser_list_pf k_plan "," ")" "," ")" "" "" eq_refl eq_refl D (fun b => kplan_ok b = true) Hhd bs HF _ _ _ HP HK) as [E1 E2]
      end.
      subst. auto.
    - destruct l'; cbn [k_plan] in HK; try (destruct q as [[[? ?] ?] ?]); try absurd_lit HK. lit HK.
      cbn [kplan_ok] in K, K'.
      apply pf_gterm in HK. destruct HK as [-> HK]. lit HK. apply IHl in HK; auto. destruct HK as [-> HK]. lit HK. subst. auto.
    - destruct l'; cbn [k_plan] in HK; try (destruct q as [[[? ?] ?] ?]); try absurd_lit HK. lit HK.
      cbn [kplan_ok] in K, K'. apply andb_true_iff in K. apply andb_true_iff in K'. destruct K as [K1 K2]. destruct K' as [K1' K2'].
      apply IHl in HK; auto. destruct HK as [-> HK]. lit HK. apply pf_expr in HK; auto. destruct HK as [-> HK]. inversion HK. auto.
    - destruct l'; cbn [k_plan] in HK; try (destruct q as [[[? ?] ?] ?]); try absurd_lit HK. lit HK.
      cbn [kplan_ok] in K, K'. apply andb_true_iff in K. apply andb_true_iff in K'. destruct K as [K1 K2]. destruct K' as [K1' K2'].
      apply IHl1 in HK; auto. destruct HK as [-> HK]. lit HK. apply IHl2 in HK; auto. destruct HK as [-> HK]. lit HK. subst. auto.
    - destruct l'; cbn [k_plan] in HK; try (destruct q as [[[? ?] ?] ?]); try absurd_lit HK. lit HK.
      cbn [kplan_ok] in K, K'.
      apply pf_spec in HK. destruct HK as [-> HK]. lit HK. apply IHl in HK; auto. destruct HK as [-> HK]. lit HK. subst. auto.
    - destruct l'; cbn [k_plan] in HK; try (destruct q as [[[? ?] ?] ?]); try absurd_lit HK. lit HK.
      cbn [kplan_ok] in K, K'. apply andb_true_iff in K. apply andb_true_iff in K'. destruct K as [K1 K2]. destruct K' as [K1' K2'].
      apply IHl in HK; auto. destruct HK as [-> HK]. lit HK. apply pf_args in HK; auto. destruct HK as [-> HK]. lit HK.
      apply name_prefix in HK; auto. destruct HK as [E HK]. apply vn_inj in E. inversion HK. subst. auto.
    - destruct l'; cbn [k_plan] in HK; try (destruct q as [[[? ?] ?] ?]); try absurd_lit HK. lit HK.
      apply pf_names in HK. destruct HK as [-> HK]. lit HK. apply pf_rows in HK. destruct HK as [-> HK]. inversion HK. auto.
  Qed.

  Theorem plan_key_injective : forall l l', kplan_ok l = true -> kplan_ok l' = true -> plan_key l = plan_key l' -> l = l'.
  Proof. intros l l' K K' H. unfold plan_key in H. apply k_plan_prefix_free in H; tauto. Qed.
End Key.

(* the naming ?v<n> of MemoKey.v is a legal spelling: the theorem is not vacuous in its hypotheses on names *)
Theorem plan_key_injective_show_var : forall enc, (forall a b : term, enc a = enc b -> a = b) ->
  forall l l', kplan_ok l = true -> kplan_ok l' = true -> plan_key show_var enc l = plan_key show_var enc l' -> l = l'.
Proof. intros enc Hinj. apply plan_key_injective; auto using show_var_name_ok, show_var_inj. Qed.

(* every component is in the key: e.g. two GRAPH operators over the same body with different graph terms have different keys
   (the seeded change C01/3 dropped the graph term from the key) *)
Corollary graph_term_in_key : forall vn enc, (forall x, name_ok (vn x) = true) -> (forall x y, vn x = vn y -> x = y) ->
  (forall a b : term, enc a = enc b -> a = b) ->
  forall i g g', kplan_ok (LGraph i g) = true -> plan_key vn enc (LGraph i g) = plan_key vn enc (LGraph i g') -> g = g'.
Proof.
  intros vn enc H1 H2 H3 i g g' K H. apply plan_key_injective in H; auto. inversion H. reflexivity.
Qed.
