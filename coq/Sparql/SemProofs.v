(* Well-formedness of the rows a plan denotes, and soundness of the variable analyses poss / cert. *)
Require Import KV.Sparql.Base KV.Sparql.Syntax KV.Sparql.MuProofs KV.Sparql.JoinProofs KV.Sparql.Algebra KV.Sparql.Engine
        KV.Sparql.Sem KV.Sparql.ScanProofs.
Require Import Lia Permutation.

Section LopInd.
  Variable P : lop -> Prop.
  Hypothesis HUnit : P LUnit.
  Hypothesis HScan : forall q, P (LScan q).
  Hypothesis HUnion : forall bs, Forall P bs -> P (LUnion bs).
  Hypothesis HGraph : forall i g, P i -> P (LGraph i g).
  Hypothesis HSel : forall i c, P i -> P (LSelection i c).
  Hypothesis HJoin : forall a b, P a -> P b -> P (LJoin a b).
  Hypothesis HSub : forall i s, P i -> P (LSubquery i s).
  Hypothesis HBind : forall i args v, P i -> P (LBind i args v).
  Hypothesis HValues : forall vs rows, P (LValues vs rows).

  Fixpoint lop_ind' (l : lop) : P l :=
    match l with
    | LUnit => HUnit
    | LScan q => HScan q
    | LUnion bs => HUnion bs ((fix go (bs : list lop) : Forall P bs :=
                                 match bs with [] => Forall_nil P | b :: r => Forall_cons b (lop_ind' b) (go r) end) bs)
    | LGraph i g => HGraph i g (lop_ind' i)
    | LSelection i c => HSel i c (lop_ind' i)
    | LJoin a b => HJoin a b (lop_ind' a) (lop_ind' b)
    | LSubquery i s => HSub i s (lop_ind' i)
    | LBind i args v => HBind i args v (lop_ind' i)
    | LValues vs rows => HValues vs rows
    end.
End LopInd.

(* unfolding lemmas for the nested fixpoints over union branches *)
Definition sem_union st ev active (bs : list lop) : list mu := flat_map (sem st ev active) bs.
Lemma sem_LUnion : forall st ev active bs, sem st ev active (LUnion bs) = sem_union st ev active bs.
Proof.
  intros. unfold sem_union. cbn [sem]. induction bs as [|b r IH]; cbn [flat_map]; [reflexivity|]. rewrite <- IH. reflexivity.
Qed.
Lemma poss_LUnion : forall bs, poss (LUnion bs) = flat_map poss bs.
Proof. intros. cbn [poss]. induction bs as [|b r IH]; cbn [flat_map]; [reflexivity|]. rewrite <- IH. reflexivity. Qed.
Lemma ok_in_LUnion : forall inb bs, ok_in inb (LUnion bs) = forallb (ok_in inb) bs.
Proof. intros. cbn [ok_in]. induction bs as [|b r IH]; cbn [forallb]; [reflexivity|]. rewrite <- IH. reflexivity. Qed.

Lemma mem_var_in : forall x l, mem_var x l = true <-> In x l.
Proof.
  intros. unfold mem_var. rewrite existsb_exists. split.
  - intros (y & Hy & E). apply N.eqb_eq in E. subst. auto.
  - intro H. exists x. split; auto. apply N.eqb_refl.
Qed.

Lemma inter_in : forall a b x, In x (inter a b) <-> In x a /\ In x b.
Proof. intros. unfold inter. rewrite filter_In, mem_var_in. tauto. Qed.

(* ---- wf ---- *)
Lemma wf_remove : forall m x, wf m -> wf (remove x m).
Proof.
  induction m as [|[k v] r IH]; intros x W; cbn; auto. destruct W as [W1 W2].
  destruct (N.eqb k x); [apply IH; auto|]. cbn. split; [|apply IH; auto].
  intros k' H. apply W1. clear - H. induction r as [|[k2 v2] r2 IH2]; cbn in *; auto.
  destruct (N.eqb k2 x); cbn in *; [right; auto | destruct H; auto].
Qed.

Lemma wf_restrict : forall vs m, wf m -> wf (restrict vs m).
Proof.
  intros vs. induction m as [|[k v] r IH]; intros W; cbn; auto. destruct W as [W1 W2].
  destruct (existsb (N.eqb k) vs); cbn; [|apply IH; auto]. split; [|apply IH; auto].
  intros k' H. apply W1. unfold restrict in H. unfold dom in *. rewrite in_map_iff in *.
  destruct H as (y & E & Hy). apply filter_In in Hy. exists y. tauto.
Qed.

Lemma lookup_restrict : forall vs m x, lookup (restrict vs m) x = if mem_var x vs then lookup m x else None.
Proof.
  intros vs. induction m as [|[k v] r IH]; intros x; cbn.
  - destruct (mem_var x vs); auto.
  - destruct (existsb (N.eqb k) vs) eqn:E; cbn.
    + destruct (N.eqb_spec k x); [subst; unfold mem_var; rewrite E; auto | apply IH].
    + rewrite IH. destruct (N.eqb_spec k x); auto. subst. unfold mem_var. rewrite E. reflexivity.
Qed.

Lemma wf_values_row : forall vs row, wf (values_row vs row).
Proof.
  induction vs as [|v vs IH]; intros [|[t|] row]; cbn; auto. apply wf_insert. apply IH.
Qed.

Lemma all_wf_filter : forall (f : mu -> bool) l, all_wf l -> all_wf (filter f l).
Proof. intros f l H. unfold all_wf in *. rewrite Forall_forall in *. intros x Hx. apply filter_In in Hx. apply H. tauto. Qed.

Lemma all_wf_map : forall (f : mu -> mu) l, (forall m, wf m -> wf (f m)) -> all_wf l -> all_wf (map f l).
Proof. intros f l Hf H. unfold all_wf in *. rewrite Forall_forall in *. intros x Hx. apply in_map_iff in Hx. destruct Hx as (y & E & Hy). subst. auto. Qed.

Lemma all_wf_in : forall l m, all_wf l -> In m l -> wf m.
Proof. intros l m H I. unfold all_wf in H. rewrite Forall_forall in H. auto. Qed.

Lemma all_wf_incl : forall l l', all_wf l -> (forall m, In m l' -> In m l) -> all_wf l'.
Proof. intros l l' H I. unfold all_wf in *. rewrite Forall_forall in *. auto. Qed.

Lemma eins_sorted_perm : forall ob x l, eins_sorted ob x l ≡ₚ x :: l.
Proof.
  induction l as [|y r IH]; cbn; auto. destruct (erow_cmp ob x y); auto;
  (eapply perm_trans; [apply perm_skip; exact IH | apply perm_swap]).
Qed.

Lemma esort_perm : forall ob l, esort ob l ≡ₚ l.
Proof.
  intros ob l. unfold esort.
  assert (G : forall acc, fold_left (fun acc x => eins_sorted ob x acc) l acc ≡ₚ acc ++ l).
  { induction l as [|x r IH]; intros acc; cbn; [rewrite app_nil_r; auto|].
    eapply perm_trans; [apply IH|]. eapply perm_trans; [apply Permutation_app_tail; apply eins_sorted_perm|].
    cbn. apply Permutation_middle. }
  apply (G []).
Qed.

Lemma mu_eqb_eq : forall a b, mu_eqb a b = true <-> a = b.
Proof.
  induction a as [|[k v] r IH]; intros [|[k' v'] r']; cbn; try (split; [discriminate | intro H; inversion H]); [tauto|].
  rewrite !andb_true_iff, N.eqb_eq, term_eqb_eq, IH. split; [intros [[? ?] ?]; subst; auto | intro H; inversion H; auto].
Qed.

Lemma groups_of_in : forall gb rows k ms m, In (k, ms) (groups_of gb rows) -> In m ms -> In m rows.
Proof.
  intros gb rows. unfold groups_of.
  assert (G : forall gs k ms m, In (k, ms) (fold_left (fun gs m => add_to_groups (group_key gb m) m gs) rows gs) -> In m ms ->
                                In m rows \/ exists k' ms', In (k', ms') gs /\ In m ms').
  { induction rows as [|r rows IH]; intros gs k ms m H Hm; cbn in H.
    - right. eauto.
    - destruct (IH _ _ _ _ H Hm) as [H1|(k' & ms' & H1 & H2)]; [left; right; auto|].
      clear - H1 H2. revert H1. generalize (group_key gb r). intro key.
      induction gs as [|[k0 ms0] gs IHg]; cbn; intro H1.
      + destruct H1 as [H1|[]]. inversion H1; subst. destruct H2 as [H2|[]]. subst. left; left; auto.
      + destruct (key_eqb key k0).
        * destruct H1 as [H1|H1].
          -- inversion H1; subst. apply in_app_or in H2. destruct H2 as [H2|[H2|[]]].
             ++ right. exists k', ms0. split; [left|]; auto.
             ++ subst. left; left; auto.
          -- right. exists k', ms'. split; [right|]; auto.
        * destruct H1 as [H1|H1].
          -- inversion H1; subst. right. exists k', ms'. split; [left|]; auto.
          -- destruct (IHg H1) as [H3|(k2 & ms2 & H3 & H4)]; auto. right. exists k2, ms2. split; [right|]; auto. }
  intros k ms m H Hm. destruct (G [] k ms m H Hm) as [H1|(k' & ms' & [] & _)]. exact H1.
Qed.

Lemma groups_of_nonempty : forall gb rows k ms, In (k, ms) (groups_of gb rows) -> ms <> [].
Proof.
  intros gb rows. unfold groups_of.
  assert (G : forall gs, (forall k ms, In (k, ms) gs -> ms <> []) ->
                         forall k ms, In (k, ms) (fold_left (fun gs m => add_to_groups (group_key gb m) m gs) rows gs) -> ms <> []).
  { induction rows as [|r rows IH]; intros gs Hg k ms H; cbn in H; [eapply Hg; eauto|].
    eapply IH; [|exact H]. clear - Hg. generalize (group_key gb r). intro key.
    induction gs as [|[k0 ms0] gs IHg]; cbn; intros k ms H.
    - destruct H as [H|[]]. inversion H; subst. discriminate.
    - destruct (key_eqb key k0).
      + destruct H as [H|H]; [inversion H; subst; destruct ms0; discriminate | eapply Hg; right; eauto].
      + destruct H as [H|H]; [inversion H; subst; eapply Hg; left; eauto|].
        eapply IHg; [|exact H]. intros; eapply Hg; right; eauto. }
  apply G. intros k ms [].
Qed.

Lemma wf_fold_agg : forall (aggs : list (aggk * var * var)) (ms : list mu) r, wf r ->
  wf (fold_left (fun r a => let '(k, x, al) := a in
                            match eagg_value k x ms with Some t => insert al t r | None => remove al r end) aggs r).
Proof.
  induction aggs as [|[[k x] al] aggs IH]; intros ms r W; cbn; auto.
  apply IH. destruct (eagg_value k x ms); [apply wf_insert | apply wf_remove]; auto.
Qed.

Lemma eaggregate_wf : forall always proj gb rows, all_wf rows -> all_wf (eaggregate always proj gb rows).
Proof.
  intros always proj gb rows W. unfold eaggregate.
  match goal with |- all_wf (if ?c then _ else _) => destruct c end; auto.
  unfold all_wf. apply Forall_forall. intros m Hm. apply in_map_iff in Hm. destruct Hm as ([k ms] & E & Hg). subst.
  apply wf_fold_agg. cbn [snd]. destruct ms as [|m0 ms']; [exact I|].
  assert (In (k, m0 :: ms') (groups_of gb rows)).
  { destruct (groups_of gb rows) as [|g gs] eqn:Eg.
    - destruct gb; [destruct Hg as [Hg|[]]; inversion Hg | destruct Hg].
    - destruct gb; exact Hg. }
  eapply all_wf_in; eauto. eapply groups_of_in; eauto. left; auto.
Qed.

Lemma dedup_incl : forall (l : list mu) m, In m (dedup mu_eqb l) -> In m l.
Proof. intros l m H. exact (proj1 (dedup_In mu_eqb mu_eqb_eq l m) H). Qed.

Lemma firstn_incl {A} : forall n (l : list A) x, In x (firstn n l) -> In x l.
Proof. induction n; intros [|y r] x H; cbn in *; auto; try contradiction. destruct H; auto. Qed.

Lemma finalize_subquery_wf : forall s rows, all_wf rows -> all_wf (finalize_subquery s rows).
Proof.
  intros s rows W. unfold finalize_subquery.
  assert (W1 : all_wf (esort (ss_order s) (eaggregate true (ss_proj s) (ss_group s) rows))).
  { eapply all_wf_perm; [apply Permutation_sym; apply esort_perm|]. apply eaggregate_wf; auto. }
  set (r1 := esort (ss_order s) (eaggregate true (ss_proj s) (ss_group s) rows)) in *.
  assert (W2 : all_wf (match proj_vars (ss_proj s) with Some vs => map (restrict vs) r1 | None => r1 end)).
  { destruct (proj_vars (ss_proj s)); auto. apply all_wf_map; auto. intros; apply wf_restrict; auto. }
  set (r2 := match proj_vars (ss_proj s) with Some vs => map (restrict vs) r1 | None => r1 end) in *.
  assert (W3 : all_wf (if ss_distinct s then dedup mu_eqb r2 else r2)).
  { destruct (ss_distinct s); auto. eapply all_wf_incl; eauto. apply dedup_incl. }
  destruct (ss_limit s); auto. eapply all_wf_incl; eauto. apply firstn_incl.
Qed.

Lemma wf_bind_row : forall args v m, wf m -> wf (bind_row args v m).
Proof. intros. unfold bind_row. apply wf_insert; auto. Qed.

(* the rows BIND makes of one row *)
Lemma ebind_spec : forall args v m0 m,
  In m (ebind args v m0) <->
  match econcat args m0 with
  | None => m = m0
  | Some c => match lookup m0 v with Some old => old = c /\ m = m0 | None => m = insert v c m0 end
  end.
Proof.
  intros args v m0 m. unfold ebind. destruct (econcat args m0) as [c|]; [|cbn; intuition].
  destruct (lookup m0 v) as [old|]; [|cbn; intuition].
  destruct (term_eqb old c) eqn:E.
  - apply term_eqb_eq in E. cbn. intuition.
  - apply term_eqb_neq in E. cbn. intuition.
Qed.
Lemma wf_ebind : forall args v m0 m, wf m0 -> In m (ebind args v m0) -> wf m.
Proof.
  intros args v m0 m W H. apply ebind_spec in H. destruct (econcat args m0); [|subst; auto].
  destruct (lookup m0 v); [destruct H; subst; auto | subst; apply wf_insert; auto].
Qed.
Lemma econcat_bound : forall args m, (forall x, In x (barg_vars args) -> lookup m x <> None) -> econcat args m <> None.
Proof.
  induction args as [|a r IH]; intros m H; cbn [econcat]; [discriminate|].
  assert (Hr : econcat r m <> None) by (apply IH; intros x Hx; apply H; unfold barg_vars; cbn [flat_map]; apply in_or_app; right; exact Hx).
  destruct (econcat r m); [|congruence]. destruct a as [y|c]; [|discriminate].
  assert (Hy : lookup m y <> None) by (apply H; cbn; left; auto). destruct (lookup m y); [discriminate | congruence].
Qed.

Theorem sem_wf : forall st ev l active, all_wf (sem st ev active l).
Proof.
  intros st ev l. induction l using lop_ind'; intros active.
  - cbn. constructor; [exact I | constructor].
  - cbn [sem]. apply scan_row_wf. exact I.
  - rewrite sem_LUnion. unfold sem_union. apply all_wf_flat_map. intros b Hb.
    rewrite Forall_forall in H. apply H; auto.
  - cbn [sem]. destruct g as [|n|x]; auto.
    + destruct (is_named_visible ev n && graph_exists st n); [auto | constructor].
    + apply all_wf_flat_map. intros n _. apply join_wf. constructor; [apply wf_single | constructor].
  - cbn [sem]. apply all_wf_filter. auto.
  - cbn [sem]. apply join_wf. auto.
  - cbn [sem]. apply finalize_subquery_wf. auto.
  - cbn [sem]. apply all_wf_flat_map. intros m0 H0. apply Forall_forall. intros m Hm. eapply wf_ebind; [|exact Hm]. eapply all_wf_in; [apply IHl | exact H0].
  - cbn [sem]. unfold all_wf. apply Forall_forall. intros m Hm. apply in_map_iff in Hm.
    destruct Hm as (row & E & _). subst. apply wf_values_row.
Qed.

(* ---- which variables a match binds ---- *)
Lemma match_term_bound : forall t v m m' x w, match_term t v m = Some m' -> lookup m' x = Some w ->
  lookup m x = Some w \/ In x (tm_vars t).
Proof.
  intros [y|c] v m m' x w H L; cbn in *.
  - destruct (lookup m y) eqn:E.
    + destruct (term_eqb t v); inversion H; subst; auto.
    + inversion H; subst. rewrite lookup_insert in L. destruct (N.eqb_spec y x); auto.
  - destruct (term_eqb c v); inversion H; subst; auto.
Qed.

Lemma match_term_binds : forall t v m m' x, match_term t v m = Some m' -> In x (tm_vars t) -> lookup m' x <> None.
Proof.
  intros [y|c] v m m' x H I; cbn in *; [|contradiction]. destruct I as [I|[]]. subst y.
  destruct (lookup m x) eqn:E.
  - destruct (term_eqb t v); inversion H; subst. congruence.
  - inversion H; subst. rewrite lookup_insert, N.eqb_refl. discriminate.
Qed.

Lemma match_triple_bound : forall p t m m' x w, match_triple p t m = Some m' -> lookup m' x = Some w ->
  lookup m x = Some w \/ In x (tp_vars p).
Proof.
  intros [[ps pp] po] [[s pr] o] m m' x w H L. cbn [match_triple] in H. unfold tp_vars.
  destruct (match_term ps s m) as [m1|] eqn:E1; [|discriminate].
  destruct (match_term pp pr m1) as [m2|] eqn:E2; [|discriminate].
  destruct (match_term_bound _ _ _ _ _ _ H L) as [L2|I]; [|right; rewrite !in_app_iff; auto].
  destruct (match_term_bound _ _ _ _ _ _ E2 L2) as [L1|I]; [|right; rewrite !in_app_iff; auto].
  destruct (match_term_bound _ _ _ _ _ _ E1 L1) as [L0|I]; [left; auto | right; rewrite !in_app_iff; auto].
Qed.

Lemma match_triple_binds : forall p t m m' x, match_triple p t m = Some m' -> In x (tp_vars p) -> lookup m' x <> None.
Proof.
  intros [[ps pp] po] [[s pr] o] m m' x H I. cbn [match_triple] in H. unfold tp_vars in I.
  destruct (match_term ps s m) as [m1|] eqn:E1; [|discriminate].
  destruct (match_term pp pr m1) as [m2|] eqn:E2; [|discriminate].
  destruct (match_term_mono _ _ _ _ E2) as [S2 _]. destruct (match_term_mono _ _ _ _ H) as [S3 _].
  rewrite !in_app_iff in I. destruct I as [I|[I|I]].
  - pose proof (match_term_binds _ _ _ _ _ E1 I) as B. destruct (lookup m1 x) eqn:L; [|congruence].
    rewrite (S3 _ _ (S2 _ _ L)). discriminate.
  - pose proof (match_term_binds _ _ _ _ _ E2 I) as B. destruct (lookup m2 x) eqn:L; [|congruence].
    rewrite (S3 _ _ L). discriminate.
  - eapply match_term_binds; eauto.
Qed.

Lemma in_matches : forall p T s m, In m (matches p T s) <-> exists t, In t T /\ match_triple p t s = Some m.
Proof.
  intros. unfold matches. rewrite in_flat_map. split.
  - intros (t & Ht & H). destruct (match_triple p t s) eqn:E; cbn in H; [|contradiction].
    destruct H as [H|[]]. subst. eauto.
  - intros (t & Ht & E). exists t. split; auto. rewrite E. left; auto.
Qed.

(* every row of a scan from the unit row comes from a match under the empty seed or under the graph binding *)
Lemma scan_row_unit_rows : forall st ev active p g m, In m (scan_row st ev active (p, g) []) ->
  exists t seed, match_triple p t seed = Some m /\ (seed = [] \/ exists x n, g = GVar x /\ seed = [(x, n)]).
Proof.
  intros st ev active p g m H. unfold scan_row in H. destruct g as [|n|x].
  - destruct active as [a|].
    + rewrite scan_one_graph_none in H. apply in_matches in H. destruct H as (t & _ & H). eauto.
    + rewrite scan_default_graphs_triples in H. apply in_matches in H. destruct H as (t & _ & H). eauto.
  - destruct (is_named_visible ev n && graph_exists st n); [|contradiction].
    rewrite scan_one_graph_none in H. apply in_matches in H. destruct H as (t & _ & H). eauto.
  - cbn [lookup] in H. apply in_flat_map in H. destruct H as (n & _ & H).
    rewrite scan_one_graph_some in H by exact I. rewrite (mjoin_single_fresh [] x n I eq_refl) in H.
    cbn [flat_map insert] in H. rewrite app_nil_r in H. apply in_matches in H. destruct H as (t & _ & H).
    exists t, [(x, n)]. split; auto. right. eauto.
Qed.

Lemma scan_row_unit_poss : forall st ev active q m x w, In m (scan_row st ev active q []) -> lookup m x = Some w -> In x (qpat_vars q).
Proof.
  intros st ev active [p g] m x w H L. unfold qpat_vars. cbn [fst snd]. apply in_or_app.
  destruct (scan_row_unit_rows _ _ _ _ _ _ H) as (t & seed & M & [E|(y & n & Eg & E)]); subst.
  - destruct (match_triple_bound _ _ _ _ _ _ M L) as [L0|I]; [discriminate | auto].
  - destruct (match_triple_bound _ _ _ _ _ _ M L) as [L0|I]; auto.
    cbn in L0. destruct (N.eqb_spec y x); [subst; right; left; auto | discriminate].
Qed.

Lemma scan_row_unit_cert : forall st ev active q m x, In m (scan_row st ev active q []) -> In x (qpat_vars q) -> lookup m x <> None.
Proof.
  intros st ev active [p g] m x H I. unfold qpat_vars in I. cbn [fst snd] in I. apply in_app_or in I.
  destruct (scan_row_unit_rows _ _ _ _ _ _ H) as (t & seed & M & [E|(y & n & Eg & E)]); subst.
  - destruct I as [I|I]; [eapply match_triple_binds; eauto|].
    destruct g; try contradiction. destruct I as [I|[]]. subst.
    (* a variable graph scope always goes through the seeded branch *)
    unfold scan_row in H. cbn [lookup] in H. apply in_flat_map in H. destruct H as (n & _ & H).
    rewrite scan_one_graph_some in H by exact Logic.I. rewrite (mjoin_single_fresh [] x n Logic.I eq_refl) in H.
    cbn [flat_map insert] in H. rewrite app_nil_r in H. apply in_matches in H. destruct H as (t' & _ & H).
    pose proof (match_triple_sub _ _ _ _ H x n) as S. cbn in S. rewrite N.eqb_refl in S. rewrite (S eq_refl). discriminate.
  - destruct I as [I|I]; [eapply match_triple_binds; eauto|]. destruct I as [I|[]]. subst.
    pose proof (match_triple_sub _ _ _ _ M x n) as S. cbn in S. rewrite N.eqb_refl in S. rewrite (S eq_refl). discriminate.
Qed.

Lemma lookup_values_row : forall vs row x w, lookup (values_row vs row) x = Some w -> In x vs.
Proof.
  induction vs as [|v vs IH]; intros [|[t|] row] x w H; cbn in *; try discriminate.
  - rewrite lookup_insert in H. destruct (N.eqb_spec v x); [left; auto | right; eauto].
  - right; eauto.
Qed.

Lemma merge_rows_lookup : forall a b m x, merge_rows a b = Some m ->
  lookup m x = match lookup a x with Some v => Some v | None => lookup b x end.
Proof.
  unfold merge_rows. intros a b m x H. destruct (compatible a b); inversion H. apply lookup_merge.
Qed.

Lemma simple_finalize : forall s rows, simple_sub s = true ->
  finalize_subquery s rows =
  (fun r2 => if ss_distinct s then dedup mu_eqb r2 else r2)
    (match proj_vars (ss_proj s) with Some vs => map (restrict vs) (esort (ss_order s) rows) | None => esort (ss_order s) rows end).
Proof.
  intros s rows H. unfold simple_sub in H. unfold finalize_subquery, eaggregate.
  destruct (aggs_of (ss_proj s)); [|discriminate]. destruct (ss_group s); [|discriminate].
  destruct (ss_limit s); [discriminate|]. reflexivity.
Qed.

Lemma in_esort : forall ob l m, In m (esort ob l) <-> In m l.
Proof.
  intros. split; intro H.
  - eapply Permutation_in; [apply esort_perm | exact H].
  - eapply Permutation_in; [apply Permutation_sym; apply esort_perm | exact H].
Qed.

(* rows of a simple sub-select: restrictions of rows of its pattern *)
Lemma simple_finalize_in : forall s rows m, simple_sub s = true -> In m (finalize_subquery s rows) ->
  exists m0, In m0 rows /\ m = match proj_vars (ss_proj s) with Some vs => restrict vs m0 | None => m0 end.
Proof.
  intros s rows m S H. rewrite simple_finalize in H by auto. cbv beta in H.
  assert (H' : In m (match proj_vars (ss_proj s) with Some vs => map (restrict vs) (esort (ss_order s) rows) | None => esort (ss_order s) rows end)).
  { destruct (ss_distinct s); auto. apply dedup_incl; auto. }
  destruct (proj_vars (ss_proj s)) as [vs|].
  - apply in_map_iff in H'. destruct H' as (m0 & E & H0). apply in_esort in H0. eauto.
  - apply in_esort in H'. eauto.
Qed.

(* rows of any sub-select with an explicit projection are restrictions to the projected variables *)
Lemma finalize_in_restrict : forall s vs rows m, proj_vars (ss_proj s) = Some vs -> In m (finalize_subquery s rows) ->
  exists m0, m = restrict vs m0.
Proof.
  intros s vs rows m E H. unfold finalize_subquery in H. rewrite E in H.
  assert (H1 : In m (map (restrict vs) (esort (ss_order s) (eaggregate true (ss_proj s) (ss_group s) rows)))).
  { destruct (ss_limit s); [apply firstn_incl in H|]; (destruct (ss_distinct s); [apply dedup_incl in H|]; exact H). }
  apply in_map_iff in H1. destruct H1 as (m0 & E0 & _). eauto.
Qed.

Theorem sem_poss : forall st ev l inb, ok_in inb l = true ->
  forall active m x w, In m (sem st ev active l) -> lookup m x = Some w -> In x (poss l).
Proof.
  intros st ev l. induction l using lop_ind'; intros inb OK active m x w Hm L.
  - cbn in Hm. destruct Hm as [Hm|[]]. subst. discriminate.
  - cbn [sem poss] in *. eapply scan_row_unit_poss; eauto.
  - rewrite sem_LUnion in Hm. rewrite poss_LUnion. rewrite ok_in_LUnion in OK.
    unfold sem_union in Hm. apply in_flat_map in Hm. destruct Hm as (b & Hb & Hm).
    apply in_flat_map. exists b. split; auto. rewrite Forall_forall in H. rewrite forallb_forall in OK. eapply H; eauto.
  - cbn [sem poss ok_in] in *. destruct g as [|n|y].
    + eapply IHl; eauto.
    + destruct (is_named_visible ev n && graph_exists st n); [|contradiction]. eapply IHl; eauto.
    + apply in_flat_map in Hm. destruct Hm as (n & _ & Hm). apply in_join in Hm.
      destruct Hm as (a & b & Ha & Hb & M). destruct Ha as [Ha|[]]. subst a.
      rewrite (merge_rows_lookup _ _ _ x M) in L. cbn [lookup] in L.
      destruct (N.eqb_spec y x); [left; auto|]. right. eapply IHl; eauto.
  - cbn [sem poss ok_in] in *. apply andb_true_iff in OK. destruct OK as [OK _].
    apply filter_In in Hm. destruct Hm as [Hm _]. eapply IHl; eauto.
  - cbn [sem poss ok_in] in *. apply andb_true_iff in OK. destruct OK as [OK1 OK2].
    apply in_join in Hm. destruct Hm as (a & b & Ha & Hb & M).
    rewrite (merge_rows_lookup _ _ _ x M) in L. apply in_or_app.
    destruct (lookup a x) eqn:E; [left; eapply IHl1; eauto | right; eapply IHl2; eauto].
  - cbn [sem poss ok_in] in *. apply andb_true_iff in OK. destruct OK as [S OK]. unfold order_free in S.
    destruct (simple_sub s) eqn:S1.
    + destruct (simple_finalize_in _ _ _ S1 Hm) as (m0 & H0 & E). subst m.
      destruct (proj_vars (ss_proj s)) as [vs|].
      * rewrite lookup_restrict in L. destruct (mem_var x vs) eqn:Ev; [|discriminate].
        apply inter_in. split; [eapply IHl; eauto | apply mem_var_in; auto].
      * eapply IHl; eauto.
    + cbn [orb] in S. unfold agg_sub in S. apply andb_true_iff in S. destruct S as [S _].
      destruct (ss_proj s) as [items|] eqn:Ep; [|discriminate S]. cbn [proj_vars option_map].
      destruct (finalize_in_restrict s _ (sem st ev active l) m (f_equal proj_vars Ep) Hm) as (m0 & E). subst m.
      rewrite lookup_restrict in L. destruct (mem_var x _) eqn:Ev; [|discriminate]. apply mem_var_in. exact Ev.
  - cbn [sem poss ok_in] in *. apply andb_true_iff in OK. destruct OK as [OK _].
    apply in_flat_map in Hm. destruct Hm as (m0 & H0 & Hm). apply ebind_spec in Hm.
    assert (Base : forall t, lookup m0 x = Some t -> In x (v :: poss l)) by (intros t Lt; right; eapply IHl; eauto).
    destruct (econcat args m0) as [c|]; [|subst m; eapply Base; eauto].
    destruct (lookup m0 v) as [old|]; [destruct Hm as [_ ->]; eapply Base; eauto|].
    subst m. rewrite lookup_insert in L. destruct (N.eqb_spec v x); [left; auto | eapply Base; eauto].
  - cbn [sem poss] in *. apply in_map_iff in Hm. destruct Hm as (row & E & _). subst. eapply lookup_values_row; eauto.
Qed.

Lemma cert_LUnion_in : forall bs x, In x (cert (LUnion bs)) -> forall b, In b bs -> In x (cert b).
Proof.
  intros bs x. cbn [cert]. induction bs as [|b0 r IH]; intros H b Hb; [contradiction|].
  destruct r as [|b1 r'].
  - destruct Hb as [Hb|[]]. subst. exact H.
  - apply inter_in in H. destruct H as [H1 H2]. destruct Hb as [Hb|Hb]; [subst; auto | apply IH; auto].
Qed.

Theorem sem_cert : forall st ev l inb, ok_in inb l = true ->
  forall active m x, In m (sem st ev active l) -> In x (cert l) -> lookup m x <> None.
Proof.
  intros st ev l. induction l using lop_ind'; intros inb OK active m x Hm Hx.
  - cbn in Hx. contradiction.
  - cbn [sem cert] in *. eapply scan_row_unit_cert; eauto.
  - rewrite sem_LUnion in Hm. rewrite ok_in_LUnion in OK.
    unfold sem_union in Hm. apply in_flat_map in Hm. destruct Hm as (b & Hb & Hm).
    rewrite Forall_forall in H. rewrite forallb_forall in OK. eapply H; eauto. eapply cert_LUnion_in; eauto.
  - cbn [sem cert ok_in] in *. destruct g as [|n|y].
    + eapply IHl; eauto.
    + destruct (is_named_visible ev n && graph_exists st n); [|contradiction]. eapply IHl; eauto.
    + apply in_flat_map in Hm. destruct Hm as (n & _ & Hm). apply in_join in Hm.
      destruct Hm as (a & b & Ha & Hb & M). destruct Ha as [Ha|[]]. subst a.
      rewrite (merge_rows_lookup _ _ _ x M). cbn [lookup].
      destruct (N.eqb_spec y x); [discriminate|]. destruct Hx as [Hx|Hx]; [congruence|]. eapply IHl; eauto.
  - cbn [sem cert ok_in] in *. apply andb_true_iff in OK. destruct OK as [OK _].
    apply filter_In in Hm. destruct Hm as [Hm _]. eapply IHl; eauto.
  - cbn [sem cert ok_in] in *. apply andb_true_iff in OK. destruct OK as [OK1 OK2].
    apply in_join in Hm. destruct Hm as (a & b & Ha & Hb & M).
    rewrite (merge_rows_lookup _ _ _ x M). apply in_app_or in Hx.
    destruct (lookup a x) eqn:E; [discriminate|]. destruct Hx as [Hx|Hx].
    + exfalso. eapply IHl1; eauto.
    + eapply IHl2; eauto.
  - cbn [sem cert ok_in] in *. apply andb_true_iff in OK. destruct OK as [_ OK].
    destruct (simple_sub s) eqn:S; [|contradiction].
    destruct (simple_finalize_in _ _ _ S Hm) as (m0 & H0 & E). subst m.
    destruct (proj_vars (ss_proj s)) as [vs|].
    + apply inter_in in Hx. destruct Hx as [Hx1 Hx2]. rewrite lookup_restrict.
      rewrite (proj2 (mem_var_in x vs) Hx2). eapply IHl; eauto.
    + eapply IHl; eauto.
  - cbn [sem cert ok_in] in *. apply andb_true_iff in OK. destruct OK as [OK _].
    apply in_flat_map in Hm. destruct Hm as (m0 & H0 & Hm). apply ebind_spec in Hm.
    assert (Base : forall y, In y (cert l) -> lookup m0 y <> None) by (intros y Hy; eapply IHl; eauto).
    assert (Keep : forall y, lookup m0 y <> None -> lookup m y <> None).
    { intros y Hy. destruct (econcat args m0) as [c|]; [|subst m; exact Hy].
      destruct (lookup m0 v) as [old|]; [destruct Hm as [_ ->]; exact Hy|].
      subst m. rewrite lookup_insert. destruct (N.eqb v y); [discriminate | exact Hy]. }
    destruct (forallb (fun y => mem_var y (cert l)) (barg_vars args)) eqn:Ca; [|apply Keep; apply Base; exact Hx].
    destruct Hx as [Hx|Hx]; [|apply Keep; apply Base; exact Hx]. subst x.
    assert (Ne : econcat args m0 <> None).
    { apply econcat_bound. intros y Hy. apply Base. rewrite forallb_forall in Ca. apply mem_var_in. apply Ca. exact Hy. }
    destruct (econcat args m0) as [c|]; [|congruence].
    destruct (lookup m0 v) as [old|] eqn:Lv; [destruct Hm as [_ ->]; rewrite Lv; discriminate|].
    subst m. rewrite lookup_insert, N.eqb_refl. discriminate.
  - cbn [sem cert] in *. apply in_map_iff in Hm. destruct Hm as (row & E & Hr). subst.
    apply filter_In in Hx. destruct Hx as [_ Hx]. rewrite forallb_forall in Hx. specialize (Hx row Hr).
    destruct (lookup (values_row vs row) x); [discriminate | discriminate].
Qed.

Lemma forallb_impl {A} (f g : A -> bool) l : (forall x, f x = true -> g x = true) -> forallb f l = true -> forallb g l = true.
Proof. intros H. rewrite !forallb_forall. intros F x Hx. auto. Qed.

Lemma mem_var_incl : forall x a b, (forall y, In y a -> In y b) -> mem_var x a = true -> mem_var x b = true.
Proof. intros x a b I H. apply mem_var_in. apply I. apply mem_var_in. exact H. Qed.

Theorem ok_in_mono : forall l inb inb', (forall y, In y inb' -> In y inb) -> ok_in inb l = true -> ok_in inb' l = true.
Proof.
  induction l using lop_ind'; intros inb inb' I OK; try reflexivity.
  - rewrite ok_in_LUnion in *. rewrite forallb_forall in *. rewrite Forall_forall in H. intros b Hb. eapply H; eauto.
  - cbn [ok_in] in *. destruct g as [|n|z].
    + eapply IHl; eauto.
    + eapply IHl; eauto.
    + eapply (IHl (z :: inb)); [|exact OK]. intros y [Hy|Hy]; [left; auto | right; auto].
  - cbn [ok_in] in *. apply andb_true_iff in OK. destruct OK as [OK1 OK2]. apply andb_true_iff. split; [eapply IHl; eauto|].
    eapply forallb_impl; [|exact OK2]. intros x Hx. apply orb_true_iff in Hx. apply orb_true_iff.
    destruct Hx as [Hx|Hx]; auto. right. apply negb_true_iff in Hx. apply negb_true_iff.
    destruct (mem_var x inb') eqn:E; auto. rewrite (mem_var_incl x inb' inb I E) in Hx. discriminate.
  - cbn [ok_in] in *. apply andb_true_iff in OK. destruct OK as [OK1 OK2]. apply andb_true_iff. split; [eapply IHl1; eauto|].
    eapply IHl2; [|exact OK2]. intros y Hy. apply in_app_or in Hy. apply in_or_app. destruct Hy; auto.
  - exact OK.
  - cbn [ok_in] in *. apply andb_true_iff in OK. destruct OK as [OK1 OK3].
    apply andb_true_iff; split.
    + eapply IHl; eauto.
    + eapply forallb_impl; [|exact OK3]. intros x Hx. apply orb_true_iff in Hx. apply orb_true_iff.
      destruct Hx as [Hx|Hx]; auto. right. apply negb_true_iff in Hx. apply negb_true_iff.
      destruct (mem_var x inb') eqn:E; auto. rewrite (mem_var_incl x inb' inb I E) in Hx. discriminate.
Qed.

Lemma ok_in_nil : forall l inb, ok_in inb l = true -> ok_in [] l = true.
Proof. intros. eapply ok_in_mono; [|eauto]. intros y []. Qed.
