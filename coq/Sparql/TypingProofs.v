(* noerr + typed (syntactic, Typing.v) imply `agree` (the semantic hypothesis of C01_pattern). *)
Require Import KV.Sparql.Base KV.Sparql.Syntax KV.Sparql.MuProofs KV.Sparql.JoinProofs KV.Sparql.Algebra KV.Sparql.Engine
        KV.Sparql.Lowering KV.Sparql.PlanEquiv KV.Sparql.Sem KV.Sparql.Bridge KV.Sparql.Classes KV.Sparql.Typing
        KV.Sparql.ScanProofs KV.Sparql.BgpProofs KV.Sparql.SemProofs KV.Sparql.ExecLemmas KV.Sparql.BridgeProofs KV.Sparql.ModifierProofs KV.Sparql.AggProofs KV.Sparql.IdemProofs.
Require Import Lia Permutation.

Lemma subset_v_in : forall a b, subset_v a b = true <-> forall x, In x a -> In x b.
Proof.
  intros a b. unfold subset_v. rewrite forallb_forall. split; intros H x Hx.
  - apply mem_var_in. auto.
  - apply mem_var_in. auto.
Qed.

(* ---- expressions ---- *)
Definition int_row (X : list var) (m : mu) : Prop := forall x t, In x X -> lookup m x = Some t -> is_int t = true.

Lemma holds_and : forall a b m, holds (EAnd a b) m = holds a m && holds b m.
Proof. intros. unfold holds. cbn. destruct (eval_expr a m) as [[|]|], (eval_expr b m) as [[|]|]; reflexivity. Qed.
Lemma holds_or : forall a b m, holds (EOr a b) m = holds a m || holds b m.
Proof. intros. unfold holds. cbn. destruct (eval_expr a m) as [[|]|], (eval_expr b m) as [[|]|]; reflexivity. Qed.

Lemma cmp_agree : forall op a b, (ordering op = true -> is_int a = true /\ is_int b = true) ->
  eval_cmp op a b = Some (compare_lexical op a b).
Proof.
  intros op a b H. destruct op; cbn in *; try reflexivity;
    (destruct (H eq_refl) as [Ha Hb]; unfold is_int, num_or_zero in *;
     destruct (parse_int a); [|discriminate]; destruct (parse_int b); [|discriminate]; reflexivity).
Qed.

(* on well-typed operands the engine's three-valued evaluation IS the algebra's *)
Theorem expr_agree3 : forall e m, int_row (ord_vars_e e) m -> ord_consts_e e = true -> cond_eval3 e m = eval_expr e m.
Proof.
  induction e as [op l r|a IHa b IHb|a IHa b IHb|a IHa]; intros m T K; cbn [eval_expr cond_eval3 ord_vars_e ord_consts_e] in *.
  - destruct (lookup m l) as [va|] eqn:El; [|reflexivity].
    destruct r as [y|d]; cbn [tm_val].
    + destruct (lookup m y) as [vb|] eqn:Ey; [|reflexivity].
      symmetry. apply cmp_agree. intro O. rewrite O in T. split; eapply T; eauto; [left | right; left]; auto.
    + symmetry. apply cmp_agree. intro O. rewrite O in T, K. split; [eapply T; eauto; left; auto | exact K].
  - apply andb_true_iff in K. destruct K as [Ka Kb].
    rewrite (IHa m), (IHb m); auto; intros x t Hx; apply T; apply in_or_app; auto.
  - apply andb_true_iff in K. destruct K as [Ka Kb].
    rewrite (IHa m), (IHb m); auto; intros x t Hx; apply T; apply in_or_app; auto.
  - rewrite (IHa m); auto.
Qed.

Theorem expr_agree : forall e m, int_row (ord_vars_e e) m -> ord_consts_e e = true -> cond_eval e m = holds e m.
Proof. intros e m T K. unfold cond_eval, holds. rewrite (expr_agree3 e m T K). reflexivity. Qed.

(* ---- unfolding ---- *)
Lemma scert_PGroup : forall es, scert (PGroup es) = scert_go scert es [].
Proof.
  intros es. cbn [scert].
  match goal with |- ?f es ?a0 = _ => assert (H : forall es acc, f es acc = scert_go scert es acc) end.
  { clear es. induction es as [|e r IH]; intros acc; cbn [scert_go]; [reflexivity|]. destruct e; apply IH. }
  apply H.
Qed.
Lemma scert_PUnion : forall gs, scert (PUnion gs) = scert_union scert gs.
Proof.
  intros gs. cbn [scert]. induction gs as [|g r IH]; cbn [scert_union]; [reflexivity|].
  destruct r; [reflexivity|]. rewrite <- IH. reflexivity.
Qed.
Lemma int_bound_PGroup : forall vw X es, int_bound vw X (PGroup es) = forallb (int_bound vw X) es.
Proof. intros. cbn [int_bound]. induction es as [|e r IH]; cbn [forallb]; [reflexivity | rewrite <- IH; reflexivity]. Qed.
Lemma int_bound_PUnion : forall vw X es, int_bound vw X (PUnion es) = forallb (int_bound vw X) es.
Proof. intros. cbn [int_bound]. induction es as [|e r IH]; cbn [forallb]; [reflexivity | rewrite <- IH; reflexivity]. Qed.

(* ---- what the rows of a pattern bind ---- *)
Definition row_ok (X Pv Cv : list var) (m : mu) : Prop :=
  (forall x w, lookup m x = Some w -> In x Pv) /\ (forall x, In x Cv -> lookup m x <> None) /\ int_row X m.

Lemma row_ok_nil : forall X, row_ok X [] [] [].
Proof. intro X. repeat split; intros; try discriminate; contradiction. Qed.

Lemma row_ok_weaken : forall X Pv Pv' Cv Cv' m, row_ok X Pv Cv m ->
  (forall x, In x Pv -> In x Pv') -> (forall x, In x Cv' -> In x Cv) -> row_ok X Pv' Cv' m.
Proof. intros X Pv Pv' Cv Cv' m (A & B & C) HP HC. repeat split; eauto. Qed.

Lemma row_ok_merge : forall X P1 C1 P2 C2 a b m, row_ok X P1 C1 a -> row_ok X P2 C2 b -> merge_rows a b = Some m ->
  row_ok X (P1 ++ P2) (C1 ++ C2) m.
Proof.
  intros X P1 C1 P2 C2 a b m (A1 & B1 & I1) (A2 & B2 & I2) M. repeat split.
  - intros x w L. rewrite (merge_rows_lookup _ _ _ x M) in L. apply in_or_app.
    destruct (lookup a x) eqn:E; [left; eapply A1; eauto | right; eapply A2; eauto].
  - intros x Hx. rewrite (merge_rows_lookup _ _ _ x M). apply in_app_or in Hx.
    destruct (lookup a x) eqn:E; [discriminate|]. destruct Hx as [Hx|Hx]; [exfalso; eapply B1; eauto | apply B2; auto].
  - intros x t Hx L. rewrite (merge_rows_lookup _ _ _ x M) in L.
    destruct (lookup a x) eqn:E; [inversion L; subst; eapply I1; eauto | eapply I2; eauto].
Qed.

Lemma in_view_triples_active : forall vw active t, In t (active_triples vw active) -> In t (view_triples vw).
Proof.
  intros vw [g|] t H; unfold view_triples; cbn [active_triples] in H; apply in_or_app.
  - right. destruct (graph_of (v_named vw) g) as [ts|] eqn:E; [|contradiction].
    apply (proj1 (dedup_In triple_eqb triple_eqb_eq ts t)) in H. apply graph_of_in in E.
    apply in_flat_map. exists (g, ts). split; auto.
  - left. exact H.
Qed.

Lemma int_pred_spec : forall vw p s o, int_pred vw p = true -> In (s, p, o) (view_triples vw) -> is_int o = true.
Proof.
  intros vw p s o H I. unfold int_pred in H. rewrite forallb_forall in H. specialize (H _ I). cbn in H.
  rewrite term_eqb_refl in H. exact H.
Qed.

Lemma match_triple_row : forall vw X p t m m' Pv Cv, tp_int_ok vw X p = true -> In t (view_triples vw) ->
  row_ok X Pv Cv m -> match_triple p t m = Some m' -> row_ok X (Pv ++ tp_vars p) (Cv ++ tp_vars p) m'.
Proof.
  intros vw X [[ps pp] po] [[s pr] o] m m' Pv Cv OK I (A & B & C) M. repeat split.
  - intros x w L. apply in_or_app. destruct (match_triple_bound _ _ _ _ _ _ M L) as [L0|Hx]; [left; eapply A; eauto | right; auto].
  - intros x Hx. apply in_app_or in Hx. destruct Hx as [Hx|Hx].
    + pose proof (match_triple_sub _ _ _ _ M) as S. specialize (B x Hx). destruct (lookup m x) eqn:E; [|congruence].
      rewrite (S _ _ E). discriminate.
    + eapply match_triple_binds; eauto.
  - intros x w Hx L. destruct (match_triple_bound _ _ _ _ _ _ M L) as [L0|Hv]; [eapply C; eauto|].
    destruct (lookup m x) as [w0|] eqn:E0.
    { pose proof (match_triple_sub _ _ _ _ M _ _ E0) as L1. rewrite L1 in L. inversion L; subst. eapply C; eauto. }
    destruct (match_triple_vals _ _ _ _ _ _ _ _ M) as (V1 & V2 & V3).
    unfold tp_int_ok in OK. apply andb_true_iff in OK. destruct OK as [OK O3]. apply andb_true_iff in OK. destruct OK as [O1 O2].
    pose proof (proj2 (mem_var_in x X) Hx) as Mx.
    unfold tp_vars in Hv. rewrite !in_app_iff in Hv. destruct Hv as [Hv|[Hv|Hv]].
    + destruct ps as [y|c]; cbn in Hv; [|contradiction]. destruct Hv as [Hv|[]]. subst y. rewrite Mx in O1. discriminate.
    + destruct pp as [y|c]; cbn in Hv; [|contradiction]. destruct Hv as [Hv|[]]. subst y. rewrite Mx in O2. discriminate.
    + destruct po as [y|c]; cbn in Hv; [|contradiction]. destruct Hv as [Hv|[]]. subst y. rewrite Mx in O3.
      destruct pp as [z|p]; [discriminate|]. cbn in V2, V3. inversion V2; subst pr. rewrite L in V3. inversion V3; subst w.
      eapply int_pred_spec; eauto.
Qed.

Lemma eval_bgp_rows : forall vw X tps active, forallb (tp_int_ok vw X) tps = true ->
  forall m, In m (eval_bgp tps (active_triples vw active)) -> row_ok X (flat_map tp_vars tps) (flat_map tp_vars tps) m.
Proof.
  intros vw X tps active OK. unfold eval_bgp.
  assert (G : forall tps rows Pv Cv, forallb (tp_int_ok vw X) tps = true -> (forall m, In m rows -> row_ok X Pv Cv m) ->
              forall m, In m (fold_left (fun rows p => flat_map (extend_tp (active_triples vw active) p) rows) tps rows) ->
                        row_ok X (Pv ++ flat_map tp_vars tps) (Cv ++ flat_map tp_vars tps) m).
  { clear tps OK. induction tps as [|p r IH]; intros rows Pv Cv OK H m Hm; cbn [fold_left flat_map] in *.
    - rewrite !app_nil_r. auto.
    - cbn [forallb] in OK. apply andb_true_iff in OK. destruct OK as [O1 O2].
      rewrite !app_assoc. eapply IH; eauto. intros m1 H1. apply in_flat_map in H1. destruct H1 as (m0 & H0 & H1).
      unfold extend_tp in H1. apply in_flat_map in H1. destruct H1 as (t & Ht & H1).
      destruct (match_triple p t m0) eqn:E; cbn in H1; [|contradiction]. destruct H1 as [H1|[]]. subst.
      eapply match_triple_row; eauto. eapply in_view_triples_active; eauto. }
  intros m Hm. apply (G tps [[]] [] [] OK); auto. intros m0 [H0|[]]. subst. apply row_ok_nil.
Qed.

Lemma extend_lookup : forall args v m x, lookup (extend args v m) x = lookup m x \/ (x = v /\ lookup m v = None).
Proof.
  intros. unfold extend. destruct (lookup m v) eqn:E; auto. destruct (concat_args args m); auto.
  rewrite lookup_insert. destruct (N.eqb_spec v x); auto.
Qed.

Lemma concat_args_some : forall args m, (forall x, In x (barg_vars args) -> lookup m x <> None) -> concat_args args m <> None.
Proof.
  induction args as [|a r IH]; intros m H; cbn; [discriminate|].
  assert (Hr : concat_args r m <> None).
  { apply IH. intros x Hx. apply H. unfold barg_vars. cbn [flat_map]. apply in_or_app. right. exact Hx. }
  destruct a as [y|c].
  - assert (lookup m y <> None) by (apply H; cbn; left; auto).
    destruct (lookup m y); [|congruence]. destruct (concat_args r m); congruence.
  - destruct (concat_args r m); congruence.
Qed.

Lemma extend_row : forall X Pv Cv args v m, negb (mem_var v X) = true -> row_ok X Pv Cv m ->
  row_ok X (Pv ++ [v]) (if subset_v (barg_vars args) Cv then v :: Cv else Cv) (extend args v m).
Proof.
  intros X Pv Cv args v m NX (A & B & C). repeat split.
  - intros x w L. apply in_or_app. destruct (extend_lookup args v m x) as [E|[E _]]; [rewrite E in L; left; eauto | subst; right; left; auto].
  - intros x Hx.
    assert (Keep : forall y, lookup m y <> None -> lookup (extend args v m) y <> None).
    { intros y Hy. destruct (extend_lookup args v m y) as [E|[E1 E2]]; [rewrite E; auto | subst; congruence]. }
    destruct (subset_v (barg_vars args) Cv) eqn:S; [|apply Keep; apply B; auto].
    destruct Hx as [Hx|Hx]; [subst x | apply Keep; apply B; auto].
    unfold extend. destruct (lookup m v) eqn:E; [congruence|].
    assert (concat_args args m <> None).
    { apply concat_args_some. intros y Hy. apply B. apply (proj1 (subset_v_in _ _) S). exact Hy. }
    destruct (concat_args args m); [|congruence]. rewrite lookup_insert, N.eqb_refl. discriminate.
  - intros x t Hx L. destruct (extend_lookup args v m x) as [E|[E _]]; [rewrite E in L; eapply C; eauto|].
    subst. apply negb_true_iff in NX. apply (proj2 (mem_var_in v X)) in Hx. congruence.
Qed.

Section Rows.
  Variables (vw : view) (X : list var).

  Definition PR (e : pat) : Prop := forall active m, In m (eval vw active e) -> row_ok X (sposs e) (scert e) m.

  Lemma loop_rows : forall es, Forall PR es -> forallb (int_bound vw X) es = true ->
    forall active G fs Pv Cv, (forall m, In m G -> row_ok X Pv Cv m) ->
    forall m, In m (eval_loop vw active es G fs) -> row_ok X (Pv ++ flat_map sposs es) (scert_go scert es Cv) m.
  Proof.
    intros es HP. induction HP as [|e r He Hr IH]; intros IB active G fs Pv Cv HG m Hm; cbn [eval_loop flat_map scert_go] in *.
    - rewrite app_nil_r. apply filter_In in Hm. apply HG. tauto.
    - cbn [forallb] in IB. apply andb_true_iff in IB. destruct IB as [IBe IBr].
      assert (Other : forall Ge, (forall m, In m Ge -> row_ok X (Pv ++ sposs e) (Cv ++ scert e) m) ->
                        In m (eval_loop vw active r Ge fs) ->
                        row_ok X (Pv ++ sposs e ++ flat_map sposs r) (scert_go scert r (Cv ++ scert e)) m).
      { intros Ge HGe Hm'. rewrite app_assoc. eapply IH; eauto. }
      assert (JoinRows : forall m', In m' (join G (eval vw active e)) -> row_ok X (Pv ++ sposs e) (Cv ++ scert e) m').
      { intros m' H'. apply in_join in H'. destruct H' as (a & b & Ha & Hb & M). eapply row_ok_merge; eauto. }
      destruct e; try (apply (Other _ JoinRows Hm); fail).
      + (* FILTER *) cbn [sposs app]. eapply IH; eauto.
      + (* BIND *) cbn [sposs]. cbn [int_bound] in IBe.
        replace (Pv ++ [v] ++ flat_map sposs r) with ((Pv ++ [v]) ++ flat_map sposs r) by (rewrite <- app_assoc; reflexivity).
        eapply IH; eauto. intros m' H'. apply in_map_iff in H'. destruct H' as (m0 & E & H0). subst. apply extend_row; auto.
  Qed.
End Rows.

Lemma scert_union_in : forall gs x, In x (scert_union scert gs) -> forall g, In g gs -> In x (scert g).
Proof.
  induction gs as [|g0 r IH]; intros x H g Hg; [contradiction|]. cbn [scert_union] in H.
  destruct r as [|g1 r'].
  - destruct Hg as [Hg|[]]. subst. exact H.
  - apply inter_in in H. destruct H as [H1 H2]. destruct Hg as [Hg|Hg]; [subst; auto | apply IH; auto].
Qed.


Lemma simple_modifiers_in : forall d items w ob rows m,
  forallb (fun i => match i with PVar _ => true | PAgg _ _ _ => false end) items = true ->
  In m (modifiers (Sel d (Some items) w [] ob None) rows) ->
  exists m0, In m0 rows /\ m = restrict (map item_var items) m0.
Proof.
  intros d items w ob rows m S H. unfold modifiers, modifiers_nolimit, apply_limit, aggregate in H.
  assert (Ea : aggs_of (Some items) = []).
  { cbn [aggs_of]. clear - S. induction items as [|[x|k x al] r IH]; cbn in *; auto; discriminate. }
  rewrite Ea in H. cbn [columns] in H.
  assert (Ec : map (fun i => match i with PVar x => x | PAgg _ _ al => al end) items = map item_var items) by reflexivity.
  rewrite Ec in H.
  assert (H' : In m (map (restrict (map item_var items)) (order_rows ob rows))) by (destruct d; auto; apply dedup_incl; auto).
  apply in_map_iff in H'. destruct H' as (m0 & E & H0). apply in_order_rows in H0. eauto.
Qed.

Theorem rows_sound : forall vw X p, forall gv, fragB gv p = true -> int_bound vw X p = true -> PR vw X p.
Proof.
  intros vw X p. induction p using pat_ind'; intros gv FR IB; unfold PR; intros active m Hm.
  - cbn [eval sposs scert int_bound] in *. eapply eval_bgp_rows; eauto.
  - rewrite eval_PGroup in Hm. rewrite sposs_PGroup, scert_PGroup. rewrite fragB_PGroup in FR. rewrite int_bound_PGroup in IB.
    change (flat_map sposs es) with ([] ++ flat_map sposs es).
    eapply (loop_rows vw X es); eauto.
    + rewrite Forall_forall in *. intros e He. rewrite forallb_forall in IB.
      apply (H e He gv (fragB_loop_elems _ _ _ FR e He) (IB e He)).
    + intros m0 [H0|[]]. subst. apply row_ok_nil.
  - rewrite eval_PUnion in Hm. rewrite sposs_PUnion, scert_PUnion. rewrite fragB_PUnion in FR. rewrite int_bound_PUnion in IB.
    apply in_flat_map in Hm. destruct Hm as (g & Hg & Hm). rewrite Forall_forall in H. rewrite forallb_forall in FR, IB.
    eapply row_ok_weaken; [eapply (H g Hg gv); eauto | |].
    + intros x Hx. apply in_flat_map. eauto.
    + intros x Hx. eapply scert_union_in; eauto.
  - cbn [fragB int_bound] in *. apply andb_true_iff in IB. destruct IB as [IBg IB].
    destruct g as [x|c].
    + rewrite eval_PGraph_var in Hm. cbn [sposs scert tm_vars app]. apply in_flat_map in Hm. destruct Hm as ([n ts] & _ & Hm).
      cbn [fst] in Hm. apply in_join in Hm. destruct Hm as (b & s & Hb & Hs & M). destruct Hs as [Hs|[]]. subst s.
      destruct (IHp _ FR IB (Some n) b Hb) as (A & B & C). repeat split.
      * intros y w L. rewrite (merge_rows_lookup _ _ _ y M) in L. destruct (lookup b y) eqn:E; [right; eapply A; eauto|].
        cbn in L. destruct (N.eqb_spec x y); [left; auto | discriminate].
      * intros y Hy. rewrite (merge_rows_lookup _ _ _ y M). destruct (lookup b y) eqn:E; [discriminate|].
        destruct Hy as [Hy|Hy]; [subst; cbn; rewrite N.eqb_refl; discriminate | exfalso; eapply B; eauto].
      * intros y t Hy L. rewrite (merge_rows_lookup _ _ _ y M) in L. destruct (lookup b y) eqn:E; [inversion L; subst; eapply C; eauto|].
        cbn in L. destruct (N.eqb_spec x y); [|discriminate]. subst. apply negb_true_iff in IBg.
        apply (proj2 (mem_var_in y X)) in Hy. congruence.
    + cbn [eval sposs scert tm_vars app] in *. destruct (graph_of (v_named vw) c); [|contradiction]. eapply IHp; eauto.
  - cbn [eval] in Hm. apply filter_In in Hm. destruct Hm as [[Hm|[]] _]. subst. cbn [sposs scert]. apply row_ok_nil.
  - cbn [eval] in Hm. destruct Hm as [Hm|[]]. subst. cbn [sposs scert int_bound] in *.
    change [v] with ([] ++ [v]). eapply row_ok_weaken; [apply (extend_row X [] [] args v []); auto; apply row_ok_nil | auto |].
    intros x [].
  - cbn [eval sposs scert int_bound] in *. apply in_map_iff in Hm. destruct Hm as (row & E & Hr). subst. repeat split.
    + intros x w L. eapply lookup_values_row; eauto.
    + intros x Hx. unfold values_cert in Hx. apply filter_In in Hx. destruct Hx as [_ Hx]. rewrite forallb_forall in Hx.
      specialize (Hx row Hr). destruct (lookup (values_row vs row) x); [discriminate | discriminate].
    + intros x t Hx L. rewrite forallb_forall in IB. specialize (IB row Hr). rewrite forallb_forall in IB. specialize (IB x Hx).
      rewrite L in IB. exact IB.
  - cbn [fragB] in FR. apply andb_true_iff in FR. destruct FR as [FR0 FRw]. apply andb_true_iff in FR0. destruct FR0 as [_ Fs].
    cbn [int_bound] in IB. apply andb_true_iff in IB. destruct IB as [IBa IB].
    destruct (simple_sel pr gb lim) eqn:Fs1.
    2: { (* aggregation in the legal shape: keys come from a row of the pattern, aliases are outside X *)
      cbn [orb] in Fs. unfold agg_sel in Fs. apply andb_true_iff in Fs. destruct Fs as [Sh Fl]. destruct lim; [discriminate|].
      destruct pr as [items|]; [|discriminate Sh].
      destruct (agg_shape_spec _ _ Sh) as (Hnd & Hdisj & Hcols).
      cbn [eval] in Hm. unfold modifiers, modifiers_nolimit, apply_limit in Hm.
      set (cols := columns (Sel d (Some items) p gb ob None)) in *.
      assert (H' : In m (map (restrict cols) (order_rows ob (aggregate (Some items) gb (eval vw active p))))) by (destruct d; auto; apply dedup_incl; auto).
      apply in_map_iff in H'. destruct H' as (m1 & E & H1). apply in_order_rows in H1. subst m.
      assert (Ec : cols = map item_var items) by reflexivity.
      assert (HA : forall x w, lookup (restrict cols m1) x = Some w -> In x (map item_var items)).
      { intros x w L. rewrite lookup_restrict in L. destruct (mem_var x cols) eqn:Ex; [|discriminate]. rewrite <- Ec. apply mem_var_in. exact Ex. }
      destruct (aggs_of (Some items)) as [|a0 aggs0] eqn:Ea; [destruct gb as [|v gb'] eqn:Eg|].
      - (* no aggregate, no key: the projection is empty *)
        assert (Ei : items = []).
        { destruct items as [|[x|k x al] r]; [reflexivity | | cbn in Ea; discriminate Ea].
          unfold agg_shape in Sh. apply andb_true_iff in Sh. destruct Sh as [_ Sh]. cbn in Sh. discriminate Sh. }
        subst items. cbn [sposs scert map item_var]. repeat split.
        + intros x w L. rewrite lookup_restrict in L. cbn in L. discriminate.
        + intros x Hx. cbn in Hx. contradiction.
        + intros x t Hx L. rewrite lookup_restrict in L. cbn in L. discriminate.
      - cbn [sposs scert]. rewrite Ea. repeat split; [exact HA | intros x [] |].
        intros x t Hx L. rewrite lookup_restrict in L. destruct (mem_var x cols) eqn:Ex; [|discriminate]. apply mem_var_in in Ex.
        rewrite aggregate_unfold in H1 by (right; discriminate). rewrite Ea in H1.
        assert (A : adj (v :: gb') (groups_of (v :: gb') (eval vw active p)) = groups_of (v :: gb') (eval vw active p))
          by (unfold adj; destruct (groups_of (v :: gb') (eval vw active p)); reflexivity).
        rewrite A in H1. apply in_map_iff in H1. destruct H1 as ([k ms] & E1 & Hg). subst m1.
        destruct (group_head _ _ _ _ Hg) as (m0 & r & -> & I0 & K). unfold srow in L. cbn [fold_left fst] in L.
        assert (Gx : In x (v :: gb')).
        { destruct (Hcols x Ex) as [G|G]; [exact G | contradiction]. }
        subst k. rewrite lookup_key_row in L by exact Gx.
        destruct (IHp _ FRw IB active m0 I0) as (_ & _ & C). eapply C; eauto.
      - cbn [sposs scert]. rewrite Ea. repeat split; [exact HA | (destruct gb; intros x []) |].
        intros x t Hx L. rewrite lookup_restrict in L. destruct (mem_var x cols) eqn:Ex; [|discriminate]. apply mem_var_in in Ex.
        rewrite aggregate_unfold in H1 by (left; rewrite Ea; discriminate). rewrite Ea in H1.
        apply in_map_iff in H1. destruct H1 as ([k ms] & E1 & Hg). subst m1.
        assert (NA : forall a, In a (a0 :: aggs0) -> alias_of a <> x).
        { intros [[kk y] al] Ha E. cbn in E. subst al. rewrite <- Ea in Ha. cbn [aggs_of] in Ha. apply in_flat_map in Ha.
          destruct Ha as (i & Hi & Hin). rewrite forallb_forall in IBa. specialize (IBa i Hi).
          destruct i as [z|k2 z al2]; [contradiction|]. destruct Hin as [Hin|[]]. inversion Hin; subst.
          apply negb_true_iff in IBa. apply (proj2 (mem_var_in x X)) in Hx. congruence. }
        assert (Gx : In x gb).
        { destruct (Hcols x Ex) as [G|G]; [exact G|]. apply in_map_iff in G. destruct G as (a & Ea' & Ha). exfalso. eapply NA; eauto. }
        unfold srow in L. cbn [fst snd] in L. rewrite fold_s_other in L by exact NA.
        assert (Hg' : In (k, ms) (groups_of gb (eval vw active p))).
        { unfold adj in Hg. destruct (groups_of gb (eval vw active p)); [destruct gb; [contradiction Gx | contradiction] | exact Hg]. }
        destruct (group_head _ _ _ _ Hg') as (m0 & r & -> & I0 & K). subst k. rewrite lookup_key_row in L by exact Gx.
        destruct (IHp _ FRw IB active m0 I0) as (_ & _ & C). eapply C; eauto. }
    clear Fs. rename Fs1 into Fs.
    unfold simple_sel in Fs. destruct pr as [items|]; (destruct gb; [|discriminate]); (destruct lim; [discriminate|]).
    2: { (* SELECT star *)
      cbn [eval] in Hm. unfold modifiers, modifiers_nolimit, apply_limit, aggregate in Hm. cbn [aggs_of columns] in Hm.
      assert (H' : In m (map (restrict (star_cols p [])) (order_rows ob (eval vw active p)))) by (destruct d; auto; apply dedup_incl; auto).
      apply in_map_iff in H'. destruct H' as (m0 & E & H0). apply in_order_rows in H0.
      rewrite restrict_id in E.
      - subst m0. cbn [sposs scert]. apply (IHp _ FRw IB active m H0).
      - eapply all_wf_in; [apply eval_wf | exact H0].
      - intros x t L. apply sposs_star_cols. right. eapply eval_poss; eauto. }
    assert (Ea : aggs_of (Some items) = []).
    { cbn [aggs_of]. clear - Fs. induction items as [|[x|k x al] r IH]; cbn in *; auto; discriminate. }
    cbn [eval] in Hm. destruct (simple_modifiers_in _ _ _ _ _ _ Fs Hm) as (m0 & H0 & E). subst m.
    destruct (IHp _ FRw IB active m0 H0) as (A & B & C). cbn [sposs scert]. rewrite Ea. repeat split.
    + intros x w L. rewrite lookup_restrict in L. destruct (mem_var x (map item_var items)) eqn:Ex; [|discriminate]. apply mem_var_in. exact Ex.
    + intros x Hx. apply inter_in in Hx. destruct Hx as [H1 H2]. rewrite lookup_restrict, (proj2 (mem_var_in _ _) H1). apply B. exact H2.
    + intros x t Hx L. rewrite lookup_restrict in L. destruct (mem_var x (map item_var items)); [|discriminate]. eapply C; eauto.
Qed.

(* ---- noerr + typed => agree ---- *)
Fixpoint noerr_loop (es : list pat) (cacc pacc : list var) (fs : list expr) : bool :=
  match es with
  | [] => true
  | e :: r =>
      match e with
      | PFilter f => noerr_loop r cacc pacc (fs ++ [f])
      | PBind args v =>
          negb (mem_var v pacc)
          && noerr_loop r (if subset_v (barg_vars args) cacc then v :: cacc else cacc) (pacc ++ [v]) fs
      | _ => noerr e && noerr_loop r (cacc ++ scert e) (pacc ++ sposs e) fs
      end
  end.

Lemma noerr_PGroup : forall es, noerr (PGroup es) = noerr_loop es [] [] [].
Proof.
  intros es. cbn [noerr].
  match goal with |- ?f es ?a ?b ?c = _ => assert (H : forall es ca pa fs, f es ca pa fs = noerr_loop es ca pa fs) end.
  { clear es. induction es as [|e r IH]; intros ca pa fs; cbn [noerr_loop]; [reflexivity|].
    destruct e; try (rewrite IH; reflexivity); apply IH. }
  apply H.
Qed.
Lemma noerr_PUnion : forall gs, noerr (PUnion gs) = forallb noerr gs.
Proof. intros. cbn [noerr]. induction gs as [|g r IH]; cbn [forallb]; [reflexivity | rewrite <- IH; reflexivity]. Qed.
Lemma ord_consts_PGroup : forall es, ord_consts (PGroup es) = forallb ord_consts es.
Proof. intros. cbn [ord_consts]. induction es as [|g r IH]; cbn [forallb]; [reflexivity | rewrite <- IH; reflexivity]. Qed.
Lemma ord_consts_PUnion : forall es, ord_consts (PUnion es) = forallb ord_consts es.
Proof. intros. cbn [ord_consts]. induction es as [|g r IH]; cbn [forallb]; [reflexivity | rewrite <- IH; reflexivity]. Qed.
Lemma ord_vars_PGroup : forall es, ord_vars (PGroup es) = flat_map ord_vars es.
Proof. intros. cbn [ord_vars]. induction es as [|g r IH]; cbn [flat_map]; [reflexivity | rewrite <- IH; reflexivity]. Qed.
Lemma ord_vars_PUnion : forall es, ord_vars (PUnion es) = flat_map ord_vars es.
Proof. intros. cbn [ord_vars]. induction es as [|g r IH]; cbn [flat_map]; [reflexivity | rewrite <- IH; reflexivity]. Qed.

Lemma concat_args_strs : forall args m, (forall x, In x (barg_vars args) -> lookup m x <> None) ->
  concat_args args m = Some (concat_strs args m).
Proof.
  induction args as [|a r IH]; intros m H; cbn [concat_args concat_strs]; [reflexivity|].
  rewrite IH by (intros x Hx; apply H; unfold barg_vars; cbn [flat_map]; apply in_or_app; right; exact Hx).
  destruct a as [y|c]; [|reflexivity].
  assert (lookup m y <> None) by (apply H; cbn; left; auto). destruct (lookup m y); [reflexivity | congruence].
Qed.

Lemma ebind_extend : forall args v m, lookup m v = None -> ebind args v m = [extend args v m].
Proof. intros args v m Hv. unfold ebind, extend. rewrite econcat_eq, Hv. destruct (concat_args args m); reflexivity. Qed.

Section Agree.
  Variables (vw : view) (X : list var).

  Definition HYP (e : pat) : Prop :=
    noerr e = true /\ int_bound vw X e = true /\ ord_consts e = true /\ (forall x, In x (ord_vars e) -> In x X).
  Definition PA (e : pat) : Prop := forall gv, fragB gv e = true -> HYP e -> forall active, agree vw active e = true.

  Lemma int_row_incl : forall Y m, (forall x, In x Y -> In x X) -> int_row X m -> int_row Y m.
  Proof. intros Y m I H x t Hx L. eapply H; eauto. Qed.

  Lemma loop_agree : forall gv es, Forall PA es ->
    (forall e, In e es -> fragB gv e = true) ->
    forallb (int_bound vw X) es = true -> forallb ord_consts es = true -> (forall x, In x (flat_map ord_vars es) -> In x X) ->
    forall active G fs cacc pacc, noerr_loop es cacc pacc fs = true ->
      (forall m, In m G -> row_ok X pacc cacc m) ->
      (forall f, In f fs -> ord_consts_e f = true /\ (forall x, In x (ord_vars_e f) -> In x X)) ->
      agree_loop vw active es G fs = true.
  Proof.
    intros gv es HP. induction HP as [|e r He Hr IH]; intros FR IB OC OV active G fs cacc pacc NE HG HF;
      cbn [agree_loop noerr_loop] in *.
    - apply forallb_forall. intros f Hf. unfold filter_agrees. apply forallb_forall. intros m Hm.
      destruct (HG m Hm) as (A & B & C). destruct (HF f Hf) as [K V].
      rewrite (expr_agree f m); auto; [destruct (holds f m); reflexivity|].
      eapply int_row_incl; eauto.
    - cbn [forallb] in IB, OC. assert (Fe : fragB gv e = true) by (apply FR; left; auto).
      assert (FR' : forall e', In e' r -> fragB gv e' = true) by (intros; apply FR; right; auto).
      apply andb_true_iff in IB. destruct IB as [IBe IB]. apply andb_true_iff in OC. destruct OC as [OCe OC].
      cbn [flat_map] in OV.
      assert (OVe : forall x, In x (ord_vars e) -> In x X) by (intros; apply OV; apply in_or_app; auto).
      assert (OVr : forall x, In x (flat_map ord_vars r) -> In x X) by (intros; apply OV; apply in_or_app; auto).
      assert (Other : noerr e = true -> noerr_loop r (cacc ++ scert e) (pacc ++ sposs e) fs = true ->
                      agree vw active e && agree_loop vw active r (join G (eval vw active e)) fs = true).
      { intros N1 N2. apply andb_true_iff. split.
        - apply (He gv Fe); repeat split; auto.
        - eapply IH; eauto. intros m Hm. apply in_join in Hm. destruct Hm as (a & b & Ha & Hb & M).
          eapply row_ok_merge; eauto. eapply (rows_sound vw X e gv); eauto. }
      destruct e; try (apply andb_true_iff in NE; destruct NE as [N1 N2]; apply Other; auto; fail).
      + (* FILTER *) eapply IH; eauto. intros f Hf. apply in_app_or in Hf. destruct Hf as [Hf|[Hf|[]]]; [auto|]. subst f.
        cbn [ord_consts ord_vars] in *. split; auto.
      + (* BIND *) apply andb_true_iff in NE. destruct NE as [N2 N3].
        cbn [int_bound] in IBe. apply andb_true_iff. split.
        * unfold bind_agrees. apply forallb_forall. intros m Hm. destruct (HG m Hm) as (A & B & C).
          rewrite ebind_extend; [apply mu_eqb_eq; reflexivity|].
          destruct (lookup m v) eqn:E; auto. exfalso. apply negb_true_iff in N2.
          assert (In v pacc) by (eapply A; eauto). apply (proj2 (mem_var_in v pacc)) in H. congruence.
        * eapply IH; eauto. intros m Hm. apply in_map_iff in Hm. destruct Hm as (m0 & E & H0). subst.
          exact (extend_row X pacc cacc args v m0 IBe (HG m0 H0)).
  Qed.

  Theorem agree_syn : forall p, PA p.
  Proof.
    induction p using pat_ind'; unfold PA; intros gv FR (NE & IB & OC & OV) active.
    - reflexivity.
    - rewrite agree_PGroup. rewrite fragB_PGroup in FR. rewrite noerr_PGroup in NE. rewrite int_bound_PGroup in IB.
      rewrite ord_consts_PGroup in OC. rewrite ord_vars_PGroup in OV.
      eapply (loop_agree gv es); eauto.
      + eapply fragB_loop_elems; eauto.
      + intros m [Hm|[]]. subst. apply row_ok_nil.
      + intros f [].
    - rewrite agree_PUnion. rewrite fragB_PUnion in FR. rewrite noerr_PUnion in NE. rewrite int_bound_PUnion in IB.
      rewrite ord_consts_PUnion in OC. rewrite ord_vars_PUnion in OV.
      apply forallb_forall. intros g Hg. rewrite Forall_forall in H. rewrite forallb_forall in FR, NE, IB, OC.
      apply (H g Hg gv); auto. repeat split; auto. intros x Hx. apply OV. apply in_flat_map. eauto.
    - cbn [fragB noerr int_bound ord_consts ord_vars] in *. apply andb_true_iff in IB. destruct IB as [_ IB].
      destruct g as [x|c].
      + rewrite agree_PGraph_var. apply forallb_forall. intros gt _. eapply IHp; eauto. repeat split; auto.
      + cbn [agree]. destruct (graph_of (v_named vw) c); [|reflexivity]. eapply IHp; eauto. repeat split; auto.
    - cbn [agree noerr ord_consts ord_vars] in *. unfold filter_agrees. cbn [forallb]. rewrite andb_true_r.
      assert (E : cond_eval f [] = holds f []).
      { apply (expr_agree f []); auto. unfold int_row; intros x t _ L; discriminate. }
      rewrite E. destruct (holds f []); reflexivity.
    - cbn [agree noerr] in *. unfold bind_agrees. cbn [forallb]. rewrite andb_true_r.
      rewrite ebind_extend by reflexivity. apply mu_eqb_eq. reflexivity.
    - reflexivity.
    - cbn [agree fragB noerr int_bound ord_consts ord_vars] in *.
      apply andb_true_iff in FR. destruct FR as [_ FRw]. apply andb_true_iff in IB. destruct IB as [_ IB].
      eapply IHp; eauto. repeat split; auto.
  Qed.
End Agree.

(* the syntactic package *)
Theorem agree_of_noerr_typed : forall vw w, fragB None w = true -> noerr w = true -> typed vw w = true ->
  agree vw None w = true.
Proof.
  intros vw w FR NE TY. unfold typed in TY. apply andb_true_iff in TY. destruct TY as [OC IB].
  apply (agree_syn vw (ord_vars w) w None FR). repeat split; auto.
Qed.
