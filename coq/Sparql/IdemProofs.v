(* A scan from the unit row yields pairwise different rows with one common domain, so joining a scan with itself changes
   nothing: the star plan may list a pattern of its group more than once. *)
Require Import KV.Sparql.Base KV.Sparql.Syntax KV.Sparql.MuProofs KV.Sparql.JoinProofs KV.Sparql.Algebra KV.Sparql.Engine
        KV.Sparql.PlanEquiv KV.Sparql.Sem KV.Sparql.ScanProofs KV.Sparql.SemProofs KV.Sparql.ExecLemmas.
Require Import Lia Permutation.

(* every graph of the store is a set of triples (C04) *)
Definition store_sets (st : dataset) : Prop := forall n, NoDup (graph_triples st (Some n)).

Lemma match_term_val : forall t v m m', match_term t v m = Some m' -> tm_val m' t = Some v.
Proof.
  intros [x|c] v m m' H; cbn in *.
  - destruct (lookup m x) eqn:E.
    + destruct (term_eqb t v) eqn:Et; inversion H; subst. apply term_eqb_eq in Et. subst. exact E.
    + inversion H; subst. rewrite lookup_insert, N.eqb_refl. reflexivity.
  - destruct (term_eqb c v) eqn:Et; inversion H; subst. apply term_eqb_eq in Et. subst. reflexivity.
Qed.

Lemma tm_val_sub : forall t m m' v, sub_mu m m' -> tm_val m t = Some v -> tm_val m' t = Some v.
Proof. intros [x|c] m m' v S H; cbn in *; auto. Qed.

Lemma match_triple_vals : forall ps pp po s pr o m0 m, match_triple (ps, pp, po) (s, pr, o) m0 = Some m ->
  tm_val m ps = Some s /\ tm_val m pp = Some pr /\ tm_val m po = Some o.
Proof.
  intros ps pp po s pr o m0 m H. cbn [match_triple] in H.
  destruct (match_term ps s m0) as [m1|] eqn:E1; [|discriminate].
  destruct (match_term pp pr m1) as [m2|] eqn:E2; [|discriminate].
  destruct (match_term_mono _ _ _ _ E2) as [S2 _]. destruct (match_term_mono _ _ _ _ H) as [S3 _].
  repeat split.
  - eapply tm_val_sub; [exact S3|]. eapply tm_val_sub; [exact S2|]. eapply match_term_val; eauto.
  - eapply tm_val_sub; [exact S3|]. eapply match_term_val; eauto.
  - eapply match_term_val; eauto.
Qed.

Lemma match_triple_inj : forall p t t' s m, match_triple p t s = Some m -> match_triple p t' s = Some m -> t = t'.
Proof.
  intros [[ps pp] po] [[a b] c] [[a' b'] c'] s m H H'.
  apply match_triple_vals in H. apply match_triple_vals in H'.
  destruct H as (H1 & H2 & H3). destruct H' as (H1' & H2' & H3'). congruence.
Qed.

Lemma matches_nodup : forall p T s, NoDup T -> NoDup (matches p T s).
Proof.
  intros p T s. induction T as [|t T IH]; intros N; [constructor|]. inversion N; subst.
  unfold matches. cbn [flat_map]. fold (matches p T s).
  destruct (match_triple p t s) as [m|] eqn:E; cbn [opt_list app]; [|auto].
  constructor; auto. intro H. apply in_matches in H. destruct H as (t' & Ht' & E').
  assert (t = t') by (eapply match_triple_inj; eauto). subst. contradiction.
Qed.

Lemma NoDup_flat_map {A B} (f : A -> list B) : forall l, NoDup l -> (forall a, In a l -> NoDup (f a)) ->
  (forall a b x, In a l -> In b l -> a <> b -> In x (f a) -> In x (f b) -> False) -> NoDup (flat_map f l).
Proof.
  induction l as [|a l IH]; intros N Hf D; cbn; [constructor|]. inversion N; subst.
  apply NoDup_app_intro.
  - apply Hf. left; auto.
  - apply IH; auto. { intros; apply Hf; right; auto. } intros b c x Hb Hc; apply D; right; auto.
  - intros x Hx Hx'. apply in_flat_map in Hx'. destruct Hx' as (b & Hb & Hxb).
    apply (D a b x); auto; [left; auto | right; auto | intro; subst; contradiction].
Qed.

Lemma merge_rows_self : forall a, wf a -> merge_rows a a = Some a.
Proof.
  intros a W. unfold merge_rows.
  assert (C : compatible a a = true) by (apply (compatible_spec a a W); intros; congruence).
  rewrite C. f_equal. apply merge_absorb; auto.
Qed.

Section Idem.
  Variables (st : dataset) (ev : eview) (active : option term).
  Hypothesis ND : named_nodup ev.
  Hypothesis SS : store_sets st.

  Lemma scan_unit_nodup : forall q, NoDup (scan_row st ev active q []).
  Proof.
    intros [p g]. unfold scan_row. destruct g as [|n|x].
    - destruct active as [a|].
      + rewrite scan_one_graph_none. apply matches_nodup. apply SS.
      + rewrite scan_default_graphs_triples. apply matches_nodup.
        apply (proj1 (sdg_triples_spec st (keysof p []) (ev_default ev) [])).
    - destruct (is_named_visible ev n && graph_exists st n); [|constructor].
      rewrite scan_one_graph_none. apply matches_nodup. apply SS.
    - cbn [lookup]. apply NoDup_flat_map.
      + apply visible_graphs_nodup; auto.
      + intros n _. rewrite scan_one_graph_some by exact I. rewrite (mjoin_single_fresh [] x n I eq_refl).
        cbn [flat_map insert]. rewrite app_nil_r. apply matches_nodup. apply SS.
      + intros n n' m _ _ D H H'.
        rewrite scan_one_graph_some in H, H' by exact I.
        rewrite (mjoin_single_fresh [] x n I eq_refl) in H. rewrite (mjoin_single_fresh [] x n' I eq_refl) in H'.
        cbn [flat_map insert] in H, H'. rewrite app_nil_r in H, H'.
        apply in_matches in H. apply in_matches in H'. destruct H as (t & _ & E). destruct H' as (t' & _ & E').
        pose proof (match_triple_sub _ _ _ _ E x n) as S1. pose proof (match_triple_sub _ _ _ _ E' x n') as S2.
        cbn in S1, S2. rewrite N.eqb_refl in S1, S2. specialize (S1 eq_refl). specialize (S2 eq_refl). congruence.
  Qed.

  Lemma scan_unit_same_dom : forall q m m', In m (scan_row st ev active q []) -> In m' (scan_row st ev active q []) ->
    compatible m m' = true -> m = m'.
  Proof.
    intros q m m' H H' C.
    assert (W : wf m) by (exact (all_wf_in _ _ (scan_row_wf st ev active q [] I) H)).
    assert (W' : wf m') by (exact (all_wf_in _ _ (scan_row_wf st ev active q [] I) H')).
    apply mu_ext; auto. intro x.
    destruct (lookup m x) as [v|] eqn:E.
    - assert (Hx : In x (qpat_vars q)) by (exact (scan_row_unit_poss st ev active q m x v H E)).
      pose proof (scan_row_unit_cert _ _ _ _ _ _ H' Hx) as B. destruct (lookup m' x) as [w|] eqn:E'; [|congruence].
      f_equal. eapply (proj1 (compatible_spec m m' W) C); eauto.
    - destruct (lookup m' x) as [w|] eqn:E'; auto.
      assert (Hx : In x (qpat_vars q)) by (exact (scan_row_unit_poss st ev active q m' x w H' E')).
      pose proof (scan_row_unit_cert _ _ _ _ _ _ H Hx) as B. congruence.
  Qed.

  Lemma flat_map_only_in {A B} (f : A -> list B) (b : A) : forall l, NoDup l -> In b l ->
    (forall n, In n l -> n <> b -> f n = []) -> flat_map f l ≡ₚ f b.
  Proof.
    induction l as [|y r IH]; intros N Hi H; [contradiction|]. inversion N; subst. cbn.
    destruct Hi as [Hi|Hi].
    - subst. assert (E : flat_map f r = []).
      { apply flat_map_none. intros n Hn. apply H; [right; auto | intro; subst; contradiction]. }
      rewrite E, app_nil_r. auto.
    - rewrite (H y); [|left; auto | intro; subst; contradiction]. cbn. apply IH; auto.
      intros n Hn. apply H. right; auto.
  Qed.

  Theorem scan_idem : forall q, join (scan_row st ev active q []) (scan_row st ev active q []) ≡ₚ scan_row st ev active q [].
  Proof.
    intro q. set (A := scan_row st ev active q []).
    assert (G : forall a, In a A -> mjoin a A ≡ₚ [a]).
    { intros a Ha. unfold mjoin.
      eapply perm_trans; [apply (flat_map_only_in _ a); [apply scan_unit_nodup | exact Ha |]|].
      - intros b Hin Hb. unfold merge_rows. destruct (compatible a b) eqn:C; auto.
        exfalso. apply Hb. symmetry. eapply scan_unit_same_dom; eauto.
      - assert (W : wf a) by (exact (all_wf_in _ _ (scan_row_wf st ev active q [] I) Ha)).
        rewrite (merge_rows_self a W). auto. }
    rewrite join_unfold.
    eapply perm_trans; [apply flat_map_ext_perm; exact G|].
    clear G. induction A as [|a r IH]; cbn; auto.
  Qed.
End Idem.
