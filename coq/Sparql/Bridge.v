(* Definitions for the bridge between the logical plan produced by the lowering and the Spec's evaluation:
   the fragment on which the two are proved equal, and the (semantic, decidable) condition that the engine's
   two-valued expression evaluation agrees with the algebra's three-valued one on the rows the algebra feeds it. *)
Require Import KV.Sparql.Base KV.Sparql.Syntax KV.Sparql.Algebra KV.Sparql.Engine KV.Sparql.Lowering KV.Sparql.PlanEquiv KV.Sparql.Sem.

(* the store is a set of quads with a catalogue (C04): graph names are distinct, every graph is a set of triples *)
Definition dataset_ok (ds : dataset) : Prop :=
  NoDup (map fst (d_named ds)) /\ forall n ts, In (n, ts) (d_named ds) -> NoDup ts.

(* named versions of the loops *)
Fixpoint lower_loop (scope : gterm) (ps : list ggp) (plan : lop) (filters : list expr) : lop :=
  match ps with
  | [] => fold_left (fun pl f => LSelection pl f) filters plan
  | p :: r =>
      match p with
      | GFilter f => lower_loop scope r plan (filters ++ [f])
      | GBindP args v => lower_loop scope r (LBind plan args v) filters
      | _ => lower_loop scope r (append_join plan (lower p scope)) filters
      end
  end.

Definition elem_shape (e : pat) : list ggp :=
  match e with
  | PBgp tps => map (fun t => GBgp [t]) tps
  | _ => [shape e]
  end.
Definition flat_elems (es : list pat) : list ggp := flat_map elem_shape es.

Fixpoint eval_loop (vw : view) (active : option term) (es : list pat) (G : list mu) (fs : list expr) : list mu :=
  match es with
  | [] => filter (fun m => forallb (fun f => holds f m) fs) G
  | e :: r =>
      match e with
      | PFilter f => eval_loop vw active r G (fs ++ [f])
      | PBind args v => eval_loop vw active r (map (extend args v) G) fs
      | _ => eval_loop vw active r (join G (eval vw active e)) fs
      end
  end.

(* the engine's expression evaluators agree with the algebra's on every row the algebra feeds them *)
Definition filter_agrees (f : expr) (G : list mu) : bool := forallb (fun m => Bool.eqb (cond_eval f m) (holds f m)) G.
Definition bind_agrees (args : list barg) (v : var) (G : list mu) : bool :=
  forallb (fun m => match ebind args v m with [m'] => mu_eqb (extend args v m) m' | _ => false end) G.

Fixpoint agree (vw : view) (active : option term) (p : pat) {struct p} : bool :=
  match p with
  | PBgp _ | PValues _ _ => true
  | PGroup es =>
      (fix go (es : list pat) (G : list mu) (fs : list expr) {struct es} : bool :=
         match es with
         | [] => forallb (fun f => filter_agrees f G) fs
         | e :: r =>
             match e with
             | PFilter f => go r G (fs ++ [f])
             | PBind args v => bind_agrees args v G && go r (map (extend args v) G) fs
             | _ => agree vw active e && go r (join G (eval vw active e)) fs
             end
         end) es [[]] []
  | PUnion gs => (fix go (gs : list pat) : bool := match gs with [] => true | g :: r => agree vw active g && go r end) gs
  | PGraph (TC g) q => match graph_of (v_named vw) g with Some _ => agree vw (Some g) q | None => true end
  | PGraph (TV x) q =>
      (fix go (gs : list (term * list triple)) : bool :=
         match gs with [] => true | (g, _) :: r => agree vw (Some g) q && go r end) (v_named vw)
  | PFilter f => filter_agrees f [[]]
  | PBind args v => bind_agrees args v [[]]
  | PSub s => match s with Sel _ _ w _ _ _ => agree vw active w end
  end.

Fixpoint agree_loop (vw : view) (active : option term) (es : list pat) (G : list mu) (fs : list expr) : bool :=
  match es with
  | [] => forallb (fun f => filter_agrees f G) fs
  | e :: r =>
      match e with
      | PFilter f => agree_loop vw active r G (fs ++ [f])
      | PBind args v => bind_agrees args v G && agree_loop vw active r (map (extend args v) G) fs
      | _ => agree vw active e && agree_loop vw active r (join G (eval vw active e)) fs
      end
  end.

Definition item_var (i : pitem) : var := match i with PVar x => x | PAgg _ _ al => al end.

(* variables in scope (may be bound) *)
Fixpoint sposs (p : pat) {struct p} : list var :=
  match p with
  | PBgp tps => flat_map tp_vars tps
  | PGroup es => (fix go (es : list pat) : list var := match es with [] => [] | e :: r => sposs e ++ go r end) es
  | PUnion gs => (fix go (es : list pat) : list var := match es with [] => [] | e :: r => sposs e ++ go r end) gs
  | PGraph g q => tm_vars g ++ sposs q
  | PFilter _ => []
  | PBind _ v => [v]
  | PValues vs _ => vs
  | PSub s => match s with
              | Sel _ None w _ _ _ => sposs w
              | Sel _ (Some items) _ _ _ _ => map item_var items
              end
  end.


(* the fragment on which lowering = algebra is proved *)
Definition lone (g : ggp) : bool := match g with GFilter _ | GBindP _ _ => true | _ => false end.
Definition elem_ok (e : pat) : bool :=
  match e with PFilter _ | PBind _ _ | PBgp _ => true | _ => negb (lone (shape e)) end.
Definition gv_free (gv : option var) (vs : list var) : bool :=
  match gv with Some x => negb (mem_var x vs) | None => true end.
Definition simple_sel (pr : option (list pitem)) (gb : list var) (lim : option N) : bool :=
  match pr, gb, lim with
  | Some items, [], None => forallb (fun i => match i with PVar _ => true | PAgg _ _ _ => false end) items
  | None, [], None => true              (* SELECT star: every variable of the pattern, nothing to project away *)
  | _, _, _ => false
  end.

(* a sub-select that aggregates in the legal shape (Sem.agg_shape: group keys and aggregate aliases projected) and does not cut *)
Definition agg_sel (pr : option (list pitem)) (gb : list var) (lim : option N) : bool :=
  agg_shape pr gb && match lim with None => true | Some _ => false end.

(* fragB gv p: gv = the variable of the enclosing GRAPH ?gv, if that is the nearest enclosing graph scope.
   - no sub-select under a variable graph (class C01-subselect-in-graph-var);
   - FILTER / BIND inside GRAPH ?gv do not mention ?gv (such a filter is either not wellscoped or sees a variable
     the pattern binds itself - the latter is left to the correspondence check);
   - a nested group does not consist of a single FILTER (never wellscoped: its filter mentions a variable and its group has
     none in scope) nor of a single BIND, except a BIND of constants (the parser flattens such groups into the enclosing group;
     a variable argument would not be wellscoped);
   - sub-selects have no LIMIT and either no aggregate / GROUP BY (explicit projection or SELECT star) or aggregate in the legal
     shape: group keys and aggregate aliases projected (the other sub-selects are covered by the correspondence check only). *)
(* a nested group that consists of a single BIND of constants: the parser flattens it into the enclosing group, where the engine
   (since 1fdcd07) binds the target or, when a row binds it already, keeps the row only if the values agree - the algebra's join
   with the group's one-row answer.  (pacc is kept in the signature for the loop of fragB; it is not consulted any more.) *)
Definition lone_bind_ok (e : pat) (pacc : list var) : bool :=
  match e with
  | PGroup [PBind args v] => (match barg_vars args with [] => true | _ => false end)
  | _ => false
  end.

Fixpoint fragB (gv : option var) (p : pat) {struct p} : bool :=
  match p with
  | PBgp _ | PValues _ _ => true
  | PGroup es =>
      (fix go (es : list pat) (pacc : list var) {struct es} : bool :=
         match es with
         | [] => true
         | e :: r => fragB gv e && (elem_ok e || lone_bind_ok e pacc) && go r (pacc ++ sposs e)
         end) es []
  | PUnion gs => (fix go (gs : list pat) : bool := match gs with [] => true | g :: r => fragB gv g && go r end) gs
  | PGraph g q => fragB (match g with TV x => Some x | TC _ => None end) q
  | PFilter f => gv_free gv (expr_vars f)
  | PBind args v => gv_free gv (v :: barg_vars args)
  | PSub s =>
      match s with
      | Sel _ pr w gb _ lim => (match gv with None => true | Some _ => false end) && (simple_sel pr gb lim || agg_sel pr gb lim) && fragB None w
      end
  end.

(* the scope a pattern is lowered in, the active graph it is evaluated on, and the row that conjugates the two:
   under GRAPH ?x the engine's scans carry ?x themselves, the algebra adds it afterwards *)
Inductive scope_rel (ds : dataset) (ev : eview) : gterm -> option term -> mu -> Prop :=
| SR_default : scope_rel ds ev GDefault None []
| SR_named : forall n, is_named_visible ev n && graph_exists ds n = true -> scope_rel ds ev (GNamed n) (Some n) []
| SR_var : forall x n, is_named_visible ev n && graph_exists ds n = true -> scope_rel ds ev (GVar x) (Some n) [(x, n)].

Definition gv_of (scope : gterm) : option var := match scope with GVar x => Some x | _ => None end.

Fixpoint fragB_loop (gv : option var) (es : list pat) (pacc : list var) : bool :=
  match es with
  | [] => true
  | e :: r => fragB gv e && (elem_ok e || lone_bind_ok e pacc) && fragB_loop gv r (pacc ++ sposs e)
  end.
