(* C02 - Query answers do not depend on the plan the optimizer happens to choose.
   Only the property theorems: each is closed by `exact <lemma>` and followed by Print Assumptions.
   The cost model is not part of the model: `implementsb l p` is the set of physical plans the optimizer may emit
   for the logical plan l under ANY statistics (PlanEquiv.v); the check validates every plan the real optimizer
   emits against it.  `exec` is the engine model (Engine.v), `sem` the plan-independent denotation (Sem.v). *)
Require Import KV.Sparql.Base KV.Sparql.Syntax KV.Sparql.MuProofs KV.Sparql.JoinProofs KV.Sparql.Algebra KV.Sparql.Engine
        KV.Sparql.PlanEquiv KV.Sparql.Sem KV.Sparql.ScanProofs KV.Sparql.BgpProofs KV.Sparql.HashProofs KV.Sparql.SemProofs
        KV.Sparql.ExecLemmas KV.Sparql.IdemProofs KV.Sparql.GroupProofs KV.Sparql.EngineProofs KV.Sparql.PlanProofs KV.Sparql.MemoKey KV.Sparql.MemoKeyPlan.
Require Import Permutation.

(* Join of solution multisets is commutative and associative (up to permutation / as lists). *)
Theorem C02_join_comm : forall A B, all_wf A -> all_wf B -> join A B ≡ₚ join B A.
Proof. exact join_comm. Qed.
Print Assumptions C02_join_comm.

Theorem C02_join_assoc : forall A B C, all_wf A -> all_wf B -> all_wf C -> join (join A B) C = join A (join B C).
Proof. exact join_assoc. Qed.
Print Assumptions C02_join_assoc.

(* The hash join (keyed / unkeyed build table; a partially bound left row probes everything) and the nested loop agree. *)
Theorem C02_hash_join_eq_nested : forall L R, all_wf L -> all_wf R -> hash_join L R ≡ₚ nl_join L R.
Proof. exact hash_join_eq_nested. Qed.
Print Assumptions C02_hash_join_eq_nested.

(* Input propagation (what makes the bind join a join): any plan the optimizer may emit for l, run on ANY incoming rows
   that bind at most `inb`, yields the join of those rows with the denotation of l.
   ok_in inb l: every FILTER / BIND-argument variable is certainly bound by the plan it applies to or bound by no
   incoming row, sub-selects are order-insensitive - the complement of the one remaining plan-dependent class
   C01-undef-filter-sibling (= C02-undef-filter-plan-dependence).  A BIND target may be bound by an incoming row: since
   1fdcd07 BIND joins on it (ExecLemmas.ebind_merge), which repaired C02-bind-target-plan-dependence.
   store_sets st: every graph of the store is a set of triples (C04) - what makes a scan idempotent under join, so that
   the star rewrite may list a pattern of its group again. *)
Theorem C02_exec_input_join :
  forall st ev, named_nodup ev -> store_sets st ->
  forall l p, implementsb l p = true ->
  forall inb active inc, ok_in inb l = true -> all_wf inc -> dom_in inb inc ->
    exec st ev active p inc ≡ₚ join inc (sem st ev active l).
Proof. exact exec_sem. Qed.
Print Assumptions C02_exec_input_join.

(* Two plans the optimizer may emit for the same logical plan - any order of each same-scope scan group, any of
   {bind, hash, nested-loop} at every join node, table or index scans, the star rewrite - give the same solution
   multiset; and that multiset is the plan-independent denotation. *)
Theorem C02_plan_independent :
  forall st ev, named_nodup ev -> store_sets st ->
  forall l p1 p2, implementsb l p1 = true -> implementsb l p2 = true -> ok_in [] l = true ->
  forall active, exec st ev active p1 [[]] ≡ₚ exec st ev active p2 [[]].
Proof. exact plan_independent. Qed.
Print Assumptions C02_plan_independent.

Theorem C02_implements_sem :
  forall st ev, named_nodup ev -> store_sets st ->
  forall l p, implementsb l p = true -> ok_in [] l = true ->
  forall active, exec st ev active p [[]] ≡ₚ sem st ev active l.
Proof. exact implements_sem. Qed.
Print Assumptions C02_implements_sem.

Theorem C02_bind_hash_eq_nested :
  forall st ev, named_nodup ev -> store_sets st ->
  forall l1 l2 p1 p2, scan_scope (LJoin l1 l2) = None ->
    implementsb l1 p1 = true -> implementsb l2 p2 = true ->
  forall inb active inc, ok_in inb (LJoin l1 l2) = true -> all_wf inc -> dom_in inb inc ->
    exec st ev active (XBindJoin p1 p2) inc ≡ₚ exec st ev active (XNLJoin p1 p2) inc /\
    exec st ev active (XHashJoin p1 p2) inc ≡ₚ exec st ev active (XNLJoin p1 p2) inc.
Proof. exact three_joins_agree. Qed.
Print Assumptions C02_bind_hash_eq_nested.

(* Textual order of the triple patterns of a basic graph pattern: the Spec's evaluation is invariant under permutation
   (the engine side of the same fact is part of C02_plan_independent: any order of a scan group). *)
Theorem C02_pattern_order : forall T tps tps', Permutation tps tps' -> eval_bgp tps T ≡ₚ eval_bgp tps' T.
Proof. exact eval_bgp_perm. Qed.
Print Assumptions C02_pattern_order.

(* The known plan dependence, on the model (witness of C02-undef-filter-plan-dependence):
   { VALUES ?a {1} } { { VALUES (?a ?b) {(UNDEF 2)} } FILTER(?a = 1) } - the bind join returns one row, the hash and
   nested-loop joins none; the witness violates ok_in, the hypothesis of C02_plan_independent. *)
Theorem C02_undef_filter_plan_dependence_refuted :
  exists st ev l p1 p2, implementsb l p1 = true /\ implementsb l p2 = true /\ ok_in [] l = false /\
                        ~ (exec st ev None p1 [[]] ≡ₚ exec st ev None p2 [[]]).
Proof. exact plan_dependence_refuted. Qed.
Print Assumptions C02_undef_filter_plan_dependence_refuted.

(* The memo key, filter part (create_memo_key / serialize_filter_expression after the repair 276543a: the constant is written
   with {:?}, i.e. in double quotes with the double quote and the backslash escaped): injective on the filter expressions of
   the modelled fragment, so a memo hit on a Selection is a hit for the same condition.  (consts_ok: a constant does not
   start with `?` - the engine reads such a value as a variable anyway.  The whole plan key: C02_memo_key_injective_plan below.) *)
Theorem C02_memo_key_injective : forall e e', consts_ok e = true -> consts_ok e' = true -> ser_expr e = ser_expr e' -> e = e'.
Proof. exact ser_expr_injective. Qed.
Print Assumptions C02_memo_key_injective.

(* Regression for the repaired finding C02-memo-key-collision: the serialization before the repair ({var}{op}'{value}')
   maps two different conditions to one key; the repaired one separates them. *)
Theorem C02_memo_key_unescaped_regression :
  expr_eqb coll1 coll2 = false /\ ser_expr_unescaped coll1 = ser_expr_unescaped coll2 /\ ser_expr coll1 <> ser_expr coll2.
Proof. exact (conj (proj1 unescaped_key_collision) (conj (proj2 unescaped_key_collision) repaired_key_separates)). Qed.
Print Assumptions C02_memo_key_unescaped_regression.

(* The WHOLE memo key (create_memo_key = serialize_logical_plan: Unit, Scan with its graph scope, Union, Graph with its graph
   term, Selection, Join, Subquery with its SubquerySpec, Bind, Values incl. UNDEF - MemoKeyPlan.v writes each as the code does,
   and the check compares the modelled keys with the keys of the real optimizer's memo on every generated query):
   prefix-free, hence injective, on the logical plans of the fragment - so a memo hit is a hit for the same logical plan, and
   two different sub-plans of one query never share a cache entry.
   Hypotheses: vn (the spelling of the variables, sigil included) is injective and yields names (a sigil followed by characters
   other than ) = ! < > - Bind writes its output variable raw before `)`, a filter its variable raw before the operator); enc (the
   dictionary ids of the constants of scans, graph terms and VALUES cells) is injective (C15); kplan_ok: a constant of a filter /
   BIND argument does not start with a sigil (the engine reads such a value as a variable anyway). *)
Theorem C02_memo_key_injective_plan : forall (vn : var -> string) (enc : term -> N),
  (forall x, name_ok (vn x) = true) -> (forall x y, vn x = vn y -> x = y) -> (forall a b, enc a = enc b -> a = b) ->
  forall l l', kplan_ok l = true -> kplan_ok l' = true -> plan_key vn enc l = plan_key vn enc l' -> l = l'.
Proof. exact plan_key_injective. Qed.
Print Assumptions C02_memo_key_injective_plan.

Theorem C02_memo_key_prefix_free_plan : forall (vn : var -> string) (enc : term -> N),
  (forall x, name_ok (vn x) = true) -> (forall x y, vn x = vn y -> x = y) -> (forall a b, enc a = enc b -> a = b) ->
  forall l l' t t', kplan_ok l = true -> kplan_ok l' = true -> k_plan vn enc l t = k_plan vn enc l' t' -> l = l' /\ t = t'.
Proof. exact k_plan_prefix_free. Qed.
Print Assumptions C02_memo_key_prefix_free_plan.

(* the hypotheses on names are satisfiable: the spelling ?v<n> of MemoKey.v *)
Theorem C02_memo_key_injective_plan_named : forall enc, (forall a b : term, enc a = enc b -> a = b) ->
  forall l l', kplan_ok l = true -> kplan_ok l' = true -> plan_key show_var enc l = plan_key show_var enc l' -> l = l'.
Proof. exact plan_key_injective_show_var. Qed.
Print Assumptions C02_memo_key_injective_plan_named.

(* in particular the graph term of a Graph operator is part of the key (the seeded change C01/3 dropped it) *)
Theorem C02_graph_term_in_key : forall vn enc, (forall x, name_ok (vn x) = true) -> (forall x y, vn x = vn y -> x = y) ->
  (forall a b : term, enc a = enc b -> a = b) ->
  forall i g g', kplan_ok (LGraph i g) = true -> plan_key vn enc (LGraph i g) = plan_key vn enc (LGraph i g') -> g = g'.
Proof. exact graph_term_in_key. Qed.
Print Assumptions C02_graph_term_in_key.

(* non-vacuity: a plan with all three join algorithms satisfying every hypothesis of C02_plan_independent *)
Example C02_example :
  let l := LJoin (LValues [0%N] [[Some "1"%string]; [None]]) (LValues [0%N; 1%N] [[Some "1"%string; Some "2"%string]]) in
  implementsb l (XHashJoin (XValues [0%N] [[Some "1"%string]; [None]]) (XValues [0%N; 1%N] [[Some "1"%string; Some "2"%string]])) = true /\
  ok_in [] l = true /\ named_nodup wit_ev /\ store_sets wit_st.
Proof. repeat split; try reflexivity; [constructor | intro n; constructor]. Qed.

