(* C14 - Turtle: the exported text of the default graph of a well-formed database outside the known classes loads
   back to the same set of triples. *)
Require Import List NArith Bool Lia ZifyBool ZifyN.
Import ListNotations.
Require Import KV.Codec14.Model KV.Codec14.Turtle KV.Codec14.Spec KV.Codec14.StrProofs KV.Codec14.LitProofs
               KV.Codec14.TokProofs KV.Codec14.NqProofs KV.Codec14.NtProofs KV.Codec14.QtProofs KV.Codec14.TtlTokProofs.
Open Scope N_scope.

Arguments trim : simpl never.
Arguments escape : simpl never.

(* ================================================================================================================= *)
(* 1. grouping: the BTreeMap of BTreeMaps holds exactly the triples inserted                                           *)
Definition entry := (str * list (str * list str))%type.
Definition flat_entry (e : entry) : list quad :=
  flat_map (fun pe => map (fun o => (fst e, fst pe, o, None : option str)) (snd pe)) (snd e).
Definition flat_group (g : groups) : list quad := flat_map flat_entry g.

Lemma str_cmp_eq : forall a b, str_cmp a b = Eq -> a = b.
Proof.
  induction a as [|x a IH]; destruct b as [|y b]; cbn; intro H; try discriminate; [reflexivity|].
  destruct (x ?= y) eqn:E; try discriminate. apply N.compare_eq in E. subst. f_equal. now apply IH.
Qed.

Lemma bt_upd_flat : forall {V T} (fl : str -> V -> list T) (d : V) (f : V -> V) (k : str) (t : T) (X : Prop),
  fl k d = [] ->
  (forall v, In t (fl k (f v)) <-> In t (fl k v) \/ X) ->
  forall m, In t (flat_map (fun kv => fl (fst kv) (snd kv)) (bt_upd d f k m)) <->
            In t (flat_map (fun kv => fl (fst kv) (snd kv)) m) \/ X.
Proof.
  intros V T fl d f k t X Hd Hf. induction m as [|[k' v] m IH].
  - cbn. rewrite app_nil_r, Hf, Hd. cbn. tauto.
  - cbn [bt_upd]. destruct (str_cmp k k') eqn:E.
    + apply str_cmp_eq in E. subst k'. cbn. rewrite !in_app_iff, Hf. tauto.
    + cbn. rewrite !in_app_iff, Hf, Hd. cbn. tauto.
    + cbn. rewrite !in_app_iff, IH. cbn. tauto.
Qed.

Lemma add_triple_flat : forall g s p o t,
  In t (flat_group (add_triple g (s, p, o, None))) <-> In t (flat_group g) \/ t = (s, p, o, None).
Proof.
  intros g s p o t. unfold flat_group, add_triple, qd_s, qd_p, qd_o. cbn [fst snd].
  change (flat_map flat_entry) with
    (flat_map (fun kv : entry => (fun s ps => flat_map (fun pe => map (fun o => (s, fst pe, o, None : option str)) (snd pe)) ps) (fst kv) (snd kv))).
  rewrite (bt_upd_flat (fun s ps => flat_map (fun pe => map (fun o => (s, fst pe, o, None : option str)) (snd pe)) ps)
             [] _ s t (t = (s, p, o, None))).
  - reflexivity.
  - reflexivity.
  - intro ps.
    rewrite (bt_upd_flat (fun p os => map (fun o => (s, p, o, None : option str)) os) [] _ p t (t = (s, p, o, None))).
    + reflexivity.
    + reflexivity.
    + intro os. rewrite map_app, in_app_iff. cbn. intuition congruence.
Qed.

Lemma group_flat_aux : forall ts g t, (forall q, In q ts -> is_default q = true) ->
  In t (flat_group (fold_left add_triple ts g)) <-> In t (flat_group g) \/ In t ts.
Proof.
  induction ts as [|q ts IH]; intros g t Hd.
  - cbn. tauto.
  - cbn [fold_left]. rewrite IH by (intros; apply Hd; now right).
    assert (Hq : is_default q = true) by (apply Hd; now left).
    destruct q as [[[s p] o] gr]. unfold is_default, qd_g in Hq. cbn [snd] in Hq. destruct gr; [discriminate|].
    rewrite add_triple_flat. cbn. intuition congruence.
Qed.

Lemma group_flat : forall ts t, (forall q, In q ts -> is_default q = true) -> In t (flat_group (group ts)) <-> In t ts.
Proof. intros ts t H. unfold group. rewrite group_flat_aux by assumption. cbn. tauto. Qed.

(* every entry of the map has at least one predicate, every predicate at least one object *)
Lemma bt_upd_in : forall {V} (d : V) f k m kv, In kv (bt_upd d f k m) ->
  In kv m \/ kv = (k, f d) \/ exists v, In (k, v) m /\ kv = (k, f v).
Proof.
  intros V d f k. induction m as [|[k' v] m IH]; intros kv H.
  - cbn in H. destruct H as [<-|[]]. right. now left.
  - cbn [bt_upd] in H. destruct (str_cmp k k') eqn:E.
    + apply str_cmp_eq in E. subst k'. destruct H as [<-|H]; [|left; now right].
      right. right. exists v. split; [now left|reflexivity].
    + destruct H as [<-|H]; [right; now left|now left].
    + destruct H as [<-|H]; [left; now left|]. destruct (IH kv H) as [H1|[H1|(v' & H1 & H2)]].
      * left. now right.
      * right. now left.
      * right. right. exists v'. split; [now right|assumption].
Qed.

Lemma bt_upd_nonempty : forall {V} (d : V) f k m, bt_upd d f k m <> [].
Proof. intros V d f k [|[k' v] m]; cbn; [discriminate|]. destruct (str_cmp k k'); discriminate. Qed.

Definition good_entry (e : entry) : Prop := snd e <> [] /\ forall pe, In pe (snd e) -> snd pe <> [].

Lemma add_triple_good : forall g q, (forall e, In e g -> good_entry e) -> forall e, In e (add_triple g q) -> good_entry e.
Proof.
  intros g q Hg e He. unfold add_triple in He.
  assert (Hin : forall ps pe, (forall pe', In pe' ps -> snd pe' <> []) ->
                In pe (bt_upd [] (fun os => os ++ [qd_o q]) (qd_p q) ps) -> snd pe <> []).
  { intros ps pe Hps Hpe. apply bt_upd_in in Hpe as [Hpe|[->|(os & _ & ->)]].
    - now apply Hps.
    - cbn. discriminate.
    - cbn. destruct os; discriminate. }
  apply bt_upd_in in He as [He|[->|(ps & Hps & ->)]].
  - now apply Hg.
  - split; cbn [snd]; [apply bt_upd_nonempty|]. intros pe Hpe. apply (Hin [] pe); [intros ? []|assumption].
  - split; cbn [snd]; [apply bt_upd_nonempty|]. intros pe Hpe. apply (Hin ps pe); [|assumption].
    intros pe' Hpe'. destruct (Hg _ Hps) as [_ H2]. now apply H2.
Qed.

Lemma group_good : forall ts e, In e (group ts) -> good_entry e.
Proof.
  intro ts. unfold group.
  assert (H : forall g, (forall e, In e g -> good_entry e) -> forall e, In e (fold_left add_triple ts g) -> good_entry e).
  { induction ts as [|q ts IH]; intros g Hg; [exact Hg|]. cbn [fold_left]. apply IH. now apply add_triple_good. }
  apply H. intros e [].
Qed.

(* ================================================================================================================= *)
(* 2. the text of one subject block = its tokens, each preceded by one space (after the subject)                       *)
Definition sp_all (l : list str) : str := flat_map (fun t => cSP :: t) l.

Fixpoint toks_objs (j : bool) (os : list str) : list str :=
  match os with
  | [] => []
  | o :: r => (if j then [[cCOMMA]] else []) ++ [ttl_obj o] ++ toks_objs true r
  end.
Fixpoint toks_preds (ps : list (str * list str)) : list str :=
  match ps with
  | [] => []
  | (p, os) :: r => [angle p] ++ toks_objs false os ++ [if is_nil r then [cDOT] else [cSEMI]] ++ toks_preds r
  end.
Definition toks_entry (e : entry) : list str := nt_subj (fst e) :: toks_preds (snd e).
Definition body_entry (e : entry) : str := nt_subj (fst e) ++ sp_all (toks_preds (snd e)).

Lemma sp_all_app : forall a b, sp_all (a ++ b) = sp_all a ++ sp_all b.
Proof. intros. unfold sp_all. apply flat_map_app. Qed.

Lemma ttl_objs_text : forall os j, ttl_objs j os = sp_all (toks_objs j os).
Proof.
  induction os as [|o r IH]; intro j; [reflexivity|].
  cbn [ttl_objs toks_objs]. rewrite !sp_all_app, IH. destruct j; cbn; now rewrite app_nil_r.
Qed.

Lemma ttl_preds_text : forall ps first, ps <> [] ->
  ttl_preds first ps = (if first then [] else [cSP; cSEMI]) ++ sp_all (toks_preds ps) ++ [cLF].
Proof.
  induction ps as [|[p os] r IH]; intros first Hne; [congruence|].
  cbn [ttl_preds toks_preds]. rewrite ttl_objs_text, !sp_all_app.
  destruct r as [|pe r'].
  - cbn [is_nil ttl_preds toks_preds sp_all flat_map]. unfold sCONT, sEND.
    destruct first; cbn [app]; repeat (rewrite <- app_assoc; cbn [app]); rewrite ?app_nil_r; reflexivity.
  - rewrite (IH false) by discriminate. cbn [is_nil]. unfold sCONT.
    destruct first; cbn [app sp_all flat_map]; repeat (rewrite <- app_assoc; cbn [app]); reflexivity.
Qed.

Lemma ttl_subject_text : forall e, snd e <> [] -> ttl_subject e = body_entry e ++ [cLF].
Proof.
  intros e H. unfold ttl_subject, body_entry. rewrite (ttl_preds_text _ true H). cbn [app]. now rewrite app_assoc.
Qed.

(* ================================================================================================================= *)
(* 3. the tokenizer on a block                                                                                          *)
Inductive ttok : str -> Prop :=
| TK_term : forall R v, tterm R v -> ttok R
| TK_comma : ttok [cCOMMA]
| TK_semi : ttok [cSEMI]
| TK_dot : ttok [cDOT].

Lemma tt_term_end : forall R v toks, tterm R v -> t_go (tcs toks) R = toks ++ [R].
Proof.
  intros R v toks H. destruct H as [s H|v|a b c H].
  - rewrite <- (app_nil_r (angle s)) at 1. rewrite tt_angle by assumption. cbn. reflexivity.
  - unfold quoted. cbn [app]. erewrite t_go_step by reflexivity. tsimp.
    rewrite <- (app_nil_r (escape v ++ [cDQ])). rewrite <- app_assoc. rewrite tt_lit_body. cbn [app].
    erewrite t_go_step by reflexivity. cbn [t_go].
    unfold t_push, t_set_lit, t_flush. cbn [t_toks t_cur t_dep t_uri t_lit t_esc negb app].
    change (cDQ :: escape v ++ [cDQ]) with (quoted v). rewrite trim_quoted_nonempty.
    unfold t_emit. cbn [t_toks t_cur]. now rewrite trim_quoted.
  - rewrite <- (app_nil_r (qrender (QQt a b c))) at 1. rewrite tt_qt_top by assumption. cbn. reflexivity.
Qed.

Lemma tt_tok_sp : forall x toks rest, ttok x -> t_go (tcs toks) (x ++ cSP :: rest) = t_go (tcs (toks ++ [x])) rest.
Proof.
  intros x toks rest H. destruct H as [R v H| | |].
  - now apply (tt_term_sp R v).
  - apply tt_comma_sp.
  - apply tt_semi_sp.
  - cbn [app]. erewrite t_go_step by reflexivity. tsimp. apply tt_sp_clean.
Qed.

Lemma tt_tok_end : forall x toks, ttok x -> t_go (tcs toks) x = toks ++ [x].
Proof.
  intros x toks H. destruct H as [R v H| | |]; [now apply (tt_term_end R v)|reflexivity|reflexivity|reflexivity].
Qed.

Lemma tt_sp_all : forall r x toks, ttok x -> Forall ttok r -> t_go (tcs toks) (x ++ sp_all r) = toks ++ x :: r.
Proof.
  induction r as [|y r IH]; intros x toks Hx Hr.
  - cbn. rewrite app_nil_r. now apply tt_tok_end.
  - inversion Hr as [|? ? Hy Hr']; subst. cbn [sp_all flat_map app]. fold (sp_all r).
    rewrite tt_tok_sp by assumption. rewrite IH by assumption. now rewrite <- app_assoc.
Qed.

(* ================================================================================================================= *)
(* 4. what clean_turtle_term / resolve_query_term make of a written term                                                 *)
Record tval (R v : str) : Prop := {
  tv_clean : clean_ttl R = v;
  tv_resolve : resolve v = v;
  tv_dot : str_eqb R [cDOT] = false;
  tv_semi : str_eqb R [cSEMI] = false;
  tv_comma : str_eqb R [cCOMMA] = false }.

Lemma iri_chars_resolve : forall s, forallb iri_char s = true -> resolve s = s /\ starts_with sLTLT s = false.
Proof.
  intros [|c s] H; [split; reflexivity|].
  cbn in H. apply andb_true_iff in H as [Hc _]. destruct (iri_char_basic c Hc) as (H1 & _ & H3 & _).
  unfold resolve, sLTLT. rewrite !starts_with_hd_ne by assumption. split; reflexivity.
Qed.

Lemma tval_angle : forall s, forallb iri_char s = true -> tval (angle s) s.
Proof.
  intros s H. destruct (iri_chars_resolve s H) as [H1 H2].
  split; try assumption; try reflexivity.
  unfold clean_ttl. rewrite trim_angle, angle_not_ltlt by assumption.
  rewrite ends_with_angle. cbn [angle starts_with]. rewrite N.eqb_refl. cbn [andb].
  change (cLT :: s ++ [cGT]) with (angle s). apply strip1_angle.
Qed.

Lemma ends_with_quoted : forall v, ends_with [cDQ] (quoted v) = true.
Proof. intro v. unfold quoted. change (cDQ :: escape v ++ [cDQ]) with ((cDQ :: escape v) ++ [cDQ]). apply ends_with_snoc. Qed.

Lemma clean_ttl_quoted : forall v, clean_ttl (quoted v) = v.
Proof.
  intro v. unfold clean_ttl. rewrite trim_quoted, decode_quoted. reflexivity.
Qed.

(* the annotation markers are searched after a leading literal only: nothing is found in a written term *)
Definition no_marker (O : str) : Prop := find_sub sANN_OPEN (ann_searched O) = None.

Lemma find_sub_none : forall l, forallb (fun c => negb (c =? cLBRACE)) l = true -> find_sub sANN_OPEN l = None.
Proof.
  induction l as [|c l IH]; intro H; [reflexivity|].
  cbn in H. apply andb_true_iff in H as [Hc Hl]. apply negb_true_iff in Hc.
  cbn [find_sub sANN_OPEN starts_with]. rewrite N.eqb_sym, Hc. cbn [andb]. now rewrite (IH Hl).
Qed.

Lemma tterm_no_marker : forall R v, tterm R v -> starts_with sLTLT v = false -> no_marker R.
Proof.
  intros R v [s H|v'|a b c H] Hq; [| |discriminate]; unfold no_marker, ann_searched.
  - replace (starts_with [cDQ] (angle s)) with false by reflexivity. apply find_sub_none.
    unfold angle. cbn [forallb]. rewrite forallb_app. cbn [forallb].
    replace (negb (cLT =? cLBRACE)) with true by reflexivity. replace (negb (cGT =? cLBRACE)) with true by reflexivity.
    cbn [andb]. rewrite andb_true_r. apply forallb_forall. intros c Hc. rewrite forallb_forall in H.
    specialize (H c Hc). unfold iri_char, cLT, cGT, cDQ, cLBRACE, cRBRACE, cBAR, cCARET, cBS in H.
    unfold cLBRACE. lia.
  - replace (starts_with [cDQ] (quoted v')) with true by reflexivity. rewrite decode_quoted. reflexivity.
Qed.

Lemma wf_obj_resolve : forall o, wf_obj o = true -> dd_ttl_term o = false -> resolve o = o.
Proof.
  intros o H Hd. unfold wf_obj in H. apply orb_true_iff in H as [H|H].
  - apply orb_true_iff in H as [H|H]; apply iri_chars_resolve; [now apply wf_iri_chars|now apply bnode_iri_chars].
  - unfold kind_guess_stable in H. apply andb_true_iff in H as [H Hang]. repeat (apply andb_true_iff in H as [H _]).
    apply negb_true_iff in H, Hang. unfold resolve. rewrite H, Hang. cbn [andb].
    unfold dd_ttl_term in Hd. now rewrite Hd.
Qed.

Lemma ttl_obj_tterm : forall o, wf_obj o = true -> tterm (ttl_obj o) o.
Proof.
  intros o H. unfold ttl_obj, nt_obj. rewrite (wf_obj_not_qt o H).
  destruct (starts_with sHTTP o || starts_with sHTTPS o) eqn:Hh; [|apply TT_lit].
  apply TT_angle. pose proof (http_is_abs o Hh) as Habs.
  unfold wf_obj in H. apply orb_true_iff in H as [H|H].
  - apply orb_true_iff in H as [H|H]; [now apply wf_iri_chars|now apply bnode_iri_chars].
  - unfold kind_guess_stable in H. apply andb_true_iff in H as [H _]. apply andb_true_iff in H as [_ H].
    rewrite Habs in H. discriminate.
Qed.

Lemma resolve_qt : forall a b c, resolve (qrender (QQt a b c)) = qrender (QQt a b c).
Proof.
  intros. unfold resolve. destruct (qrender_qt_shape a b c) as (_ & _ & H1 & H2). now rewrite H1, H2.
Qed.

Lemma tval_tterm : forall R o, tterm R o -> resolve o = o -> tval R o.
Proof.
  intros R o Ht Hr. destruct Ht as [s Hs|v|a b c Hs].
  - now apply tval_angle.
  - split; try assumption; try reflexivity. apply clean_ttl_quoted.
  - split; try assumption; try reflexivity. unfold clean_ttl. now rewrite qrender_trim.
Qed.

Lemma tval_obj : forall o, wf_obj o = true -> dd_ttl_term o = false -> tval (ttl_obj o) o.
Proof.
  intros o H Hd. apply tval_tterm; [now apply ttl_obj_tterm|now apply wf_obj_resolve].
Qed.

(* ================================================================================================================= *)
(* 5. the statement state machine of parse_turtle on the tokens of a block                                             *)
Section Machine.
  Variables (S s : str).
  Hypothesis HS : tval S s.

  Definition trip (p o : str) : quad := (s, p, o, None).
  Definition after_sep (last : bool) (out : list quad) : gst :=
    if last then GS None None [] true false false out None else GS (Some S) None [] false true false out None.

  (* which triple flush_object stores: verbatim when neither subject nor object is a quoted triple, through
     encode_term_star otherwise *)
  Definition flush_ok (p o : str) : Prop :=
    starts_with sLTLT s || starts_with sLTLT o = false \/ (ets s = s /\ ets p = p /\ ets o = o).

  Lemma g_flush_one : forall P p O o es ep eo out, tval P p -> tval O o -> no_marker O -> flush_ok p o ->
    g_flush (GS (Some S) (Some P) [O] es ep eo out None) = GS (Some S) (Some P) [] es ep eo (out ++ [trip p o]) None.
  Proof.
    intros P p O o es ep eo out HP HO Ha Hf. unfold g_flush.
    cbn [g_subj g_pred g_objs g_es g_ep g_eo g_out g_bad is_nil join].
    unfold no_marker in Ha. rewrite Ha. unfold g_emit.
    cbn [g_subj g_pred g_objs g_es g_ep g_eo g_out g_bad map app].
    rewrite (tv_clean _ _ HS), (tv_clean _ _ HP), (tv_clean _ _ HO).
    rewrite (tv_resolve _ _ HS), (tv_resolve _ _ HP), (tv_resolve _ _ HO).
    destruct Hf as [Hf|(E1 & E2 & E3)]; [now rewrite Hf|].
    rewrite E1, E2, E3. now destruct (starts_with sLTLT s || starts_with sLTLT o).
  Qed.

  Lemma g_step_obj : forall P O o eo out, tval O o ->
    g_step (GS (Some S) (Some P) [] false false eo out None) O = GS (Some S) (Some P) [O] false false eo out None.
  Proof.
    intros P O o eo out HO. unfold g_step. rewrite (tv_dot _ _ HO), (tv_semi _ _ HO), (tv_comma _ _ HO). reflexivity.
  Qed.

  Lemma g_step_pred : forall P p eo out, tval P p ->
    g_step (GS (Some S) None [] false true eo out None) P = GS (Some S) (Some P) [] false false true out None.
  Proof.
    intros P p eo out HP. unfold g_step. rewrite (tv_dot _ _ HP), (tv_semi _ _ HP), (tv_comma _ _ HP). reflexivity.
  Qed.

  Definition obj_ok (p o : str) : Prop := tval (ttl_obj o) o /\ no_marker (ttl_obj o) /\ flush_ok p o.

  Lemma objs_run : forall (P p : str) (last : bool) (rest : list str), tval P p ->
    forall r oprev out eo, obj_ok p oprev -> (forall o, In o r -> obj_ok p o) ->
    fold_left g_step (flat_map (fun o' => [[cCOMMA]; ttl_obj o']) r ++ (if last then [cDOT] else [cSEMI]) :: rest)
              (GS (Some S) (Some P) [ttl_obj oprev] false false eo out None)
    = fold_left g_step rest (after_sep last (out ++ map (trip p) (oprev :: r))).
  Proof.
    intros P p last rest HP. induction r as [|o' r IH]; intros oprev out eo (Hv & Ha & Hf) Hr.
    - cbn [flat_map app fold_left map]. f_equal.
      destruct last; unfold g_step; cbn [str_eqb N.eqb Pos.eqb andb];
        rewrite (g_flush_one P p _ oprev) by assumption; reflexivity.
    - cbn [flat_map app fold_left]. 
      assert (H1 : g_step (GS (Some S) (Some P) [ttl_obj oprev] false false eo out None) [cCOMMA]
                   = GS (Some S) (Some P) [] false false true (out ++ [trip p oprev]) None).
      { unfold g_step. cbn [str_eqb N.eqb Pos.eqb andb]. rewrite (g_flush_one P p _ oprev) by assumption. reflexivity. }
      rewrite H1. destruct (Hr o' (or_introl eq_refl)) as (Hv' & Ha' & Hf').
      rewrite (g_step_obj P _ o') by assumption.
      rewrite IH; [|split; [assumption|split; assumption]|intros; apply Hr; now right].
      cbn [map]. now rewrite <- app_assoc.
  Qed.

  Lemma toks_objs_true : forall r, toks_objs true r = flat_map (fun o' => [[cCOMMA]; ttl_obj o']) r.
  Proof. induction r as [|o r IH]; [reflexivity|]. cbn [toks_objs flat_map app]. now rewrite IH. Qed.

  Definition pred_ok (pe : str * list str) : Prop :=
    tval (angle (fst pe)) (fst pe) /\ snd pe <> [] /\ forall o, In o (snd pe) -> obj_ok (fst pe) o.

  Lemma preds_run : forall ps out eo, ps <> [] -> (forall pe, In pe ps -> pred_ok pe) ->
    fold_left g_step (toks_preds ps) (GS (Some S) None [] false true eo out None)
    = GS None None [] true false false (out ++ flat_map (fun pe => map (trip (fst pe)) (snd pe)) ps) None.
  Proof.
    induction ps as [|[p os] r IH]; intros out eo Hne Hok; [congruence|].
    destruct (Hok (p, os) (or_introl eq_refl)) as (HP & Hos & Hobj). cbn [fst snd] in *.
    destruct os as [|o os']; [congruence|].
    cbn [toks_preds toks_objs app fold_left]. rewrite toks_objs_true.
    rewrite (g_step_pred _ p) by assumption.
    rewrite (g_step_obj _ _ o) by (apply Hobj; now left).
    rewrite (objs_run _ p (is_nil r)); try assumption; [|apply Hobj; now left|intros; apply Hobj; now right].
    destruct r as [|pe r'].
    - cbn [is_nil after_sep toks_preds fold_left flat_map]. now rewrite app_nil_r.
    - cbn [is_nil after_sep]. rewrite IH; [|discriminate|intros; apply Hok; now right].
      cbn [flat_map fst snd]. now rewrite <- app_assoc.
  Qed.
End Machine.

(* ================================================================================================================= *)
(* 6. one block, then the document (stated on per-triple facts: covers bare terms and quoted triples alike)            *)
Definition subj_ok (s : str) : Prop := tterm (nt_subj s) s /\ resolve s = s /\ exists r, nt_subj s = cLT :: r.
Definition obj_fact (s p o : str) : Prop :=
  tterm (ttl_obj o) o /\ resolve o = o /\ no_marker (ttl_obj o) /\ flush_ok s p o.
Definition triple_ok (q : quad) : Prop :=
  subj_ok (qd_s q) /\ forallb iri_char (qd_p q) = true /\ obj_fact (qd_s q) (qd_p q) (qd_o q).
Definition entry_good (e : entry) : Prop :=
  subj_ok (fst e) /\ snd e <> [] /\
  forall pe, In pe (snd e) -> forallb iri_char (fst pe) = true /\ snd pe <> [] /\
                              forall o, In o (snd pe) -> obj_fact (fst e) (fst pe) o.

Lemma tterm_rterm : forall R v, tterm R v -> rterm R v.
Proof. intros R v [s H|v'|a b c H]; [now apply RT_angle|apply RT_lit|now apply RT_qt]. Qed.

Lemma ttok_shape : forall x, ttok x -> no_lf x = true.
Proof.
  intros x [R v H| | |]; try reflexivity.
  destruct (rterm_shape R v (tterm_rterm R v H)) as (_ & _ & _ & H4 & _). exact H4.
Qed.

Lemma sp_all_no_lf : forall l, Forall ttok l -> no_lf (sp_all l) = true.
Proof.
  induction l as [|x l IH]; intro H; [reflexivity|]. inversion H; subst.
  cbn [sp_all flat_map]. fold (sp_all l). change (cSP :: x) with ([cSP] ++ x).
  rewrite !no_lf_app, (ttok_shape x), IH by assumption. reflexivity.
Qed.

Lemma toks_objs_ttok : forall os j, (forall o, In o os -> tterm (ttl_obj o) o) -> Forall ttok (toks_objs j os).
Proof.
  induction os as [|o r IH]; intros j H; [constructor|].
  cbn [toks_objs]. apply Forall_app. split; [destruct j; [constructor; [apply TK_comma|constructor]|constructor]|].
  constructor.
  - apply (TK_term _ o). apply H. now left.
  - apply IH. intros; apply H; now right.
Qed.

Lemma toks_preds_ttok : forall ps,
  (forall pe, In pe ps -> forallb iri_char (fst pe) = true /\ forall o, In o (snd pe) -> tterm (ttl_obj o) o) ->
  Forall ttok (toks_preds ps).
Proof.
  induction ps as [|[p os] r IH]; intro H; [constructor|].
  destruct (H (p, os) (or_introl eq_refl)) as (Hp & Ho). cbn [fst snd] in *.
  cbn [toks_preds]. repeat (apply Forall_app; split).
  - constructor; [|constructor]. apply (TK_term _ p). now apply TT_angle.
  - now apply toks_objs_ttok.
  - constructor; [|constructor]. destruct r; cbn [is_nil]; [apply TK_dot|apply TK_semi].
  - apply IH. intros; apply H; now right.
Qed.

Lemma toks_preds_last : forall ps, ps <> [] -> exists l, toks_preds ps = l ++ [[cDOT]].
Proof.
  induction ps as [|[p os] r IH]; intro H; [congruence|].
  destruct r as [|pe r'].
  - exists ([angle p] ++ toks_objs false os). cbn [toks_preds is_nil]. now rewrite app_nil_r, app_assoc.
  - destruct (IH ltac:(discriminate)) as [l Hl]. exists ([angle p] ++ toks_objs false os ++ [[cSEMI]] ++ l).
    cbn [toks_preds is_nil] in *. rewrite Hl. repeat rewrite <- app_assoc. reflexivity.
Qed.

Lemma entry_line : forall e, entry_good e ->
  ttl_load_line (body_entry e) = TOk (flat_entry e) /\ no_lf (body_entry e) = true.
Proof.
  intros [s ps] ((HtS & HrS & r0 & HS0) & Hne & Hps). cbn [fst snd] in *.
  pose proof (tval_tterm _ _ HtS HrS) as HS.
  assert (Htok : Forall ttok (toks_preds ps)).
  { apply toks_preds_ttok. intros pe Hpe. destruct (Hps pe Hpe) as (H1 & _ & H3). split; [assumption|].
    intros o Ho. now destruct (H3 o Ho). }
  assert (Hbody : body_entry (s, ps) = nt_subj s ++ sp_all (toks_preds ps)) by reflexivity.
  split.
  2:{ rewrite Hbody, no_lf_app, sp_all_no_lf by assumption.
      destruct (rterm_shape _ _ (tterm_rterm _ _ HtS)) as (_ & _ & _ & H4 & _). now rewrite H4. }
  unfold ttl_load_line.
  assert (Htrim : trim (body_entry (s, ps)) = body_entry (s, ps)).
  { rewrite Hbody. destruct (toks_preds_last ps Hne) as [l Hl]. rewrite Hl, sp_all_app. cbn [sp_all flat_map app].
    apply trim_id; [rewrite HS0; reflexivity|].
    rewrite app_assoc. rewrite last_not_app by discriminate. reflexivity. }
  rewrite Htrim, Hbody.
  replace (is_comment_or_empty (nt_subj s ++ sp_all (toks_preds ps))) with false by (rewrite HS0; reflexivity).
  replace (starts_with sPREFIX1 (nt_subj s ++ sp_all (toks_preds ps))) with false by (rewrite HS0; reflexivity).
  replace (starts_with sPREFIX2 (nt_subj s ++ sp_all (toks_preds ps))) with false by (rewrite HS0; reflexivity).
  cbn [orb]. unfold tokenize_ttl. change t_init with (tcs []).
  rewrite tt_sp_all; [|now apply (TK_term _ s)|assumption].
  cbn [app fold_left].
  assert (H1 : g_step g_init (nt_subj s) = GS (Some (nt_subj s)) None [] false true false [] None).
  { unfold g_step, g_init. rewrite (tv_dot _ _ HS), (tv_semi _ _ HS), (tv_comma _ _ HS). reflexivity. }
  rewrite H1.
  rewrite (preds_run (nt_subj s) s HS ps [] false Hne).
  - cbn [g_flush g_subj g_pred g_bad g_out app]. reflexivity.
  - intros pe Hpe. destruct (Hps pe Hpe) as (Hp & Hos & Hobj). split; [now apply tval_angle|split; [assumption|]].
    intros o Ho. destruct (Hobj o Ho) as (Ht & Hr & Hm & Hf). split; [now apply tval_tterm|split; assumption].
Qed.

Lemma flat_map_ext_in : forall {A B} (f g : A -> list B) l, (forall a, In a l -> f a = g a) -> flat_map f l = flat_map g l.
Proof.
  induction l as [|a l IH]; intro H; [reflexivity|]. cbn. rewrite H by now left. f_equal. apply IH. intros; apply H; now right.
Qed.

Lemma ttl_collect_ok : forall (g : list entry) f, (forall e, In e g -> f e = TOk (flat_entry e)) ->
  ttl_collect (map f g) = TOk (flat_group g).
Proof.
  induction g as [|e g IH]; intros f H; [reflexivity|].
  cbn [map ttl_collect]. rewrite H by now left. rewrite IH by (intros; apply H; now right). reflexivity.
Qed.

Lemma in_flat_group : forall g e pe o, In e g -> In pe (snd e) -> In o (snd pe) -> In (fst e, fst pe, o, None) (flat_group g).
Proof.
  intros g e pe o He Hpe Ho. unfold flat_group. apply in_flat_map. exists e. split; [assumption|].
  unfold flat_entry. apply in_flat_map. exists pe. split; [assumption|]. apply in_map_iff. now exists o.
Qed.

Lemma ttl_roundtrip_gen : forall ts, (forall q, In q ts -> is_default q = true) -> (forall q, In q ts -> triple_ok q) ->
  exists l, load_ttl (gen_ttl_triples ts) = TOk l /\ same_set l ts.
Proof.
  intros ts Hdef Hok. set (g := group ts).
  assert (Hflat : forall t, In t (flat_group g) <-> In t ts) by (intro t; now apply group_flat).
  assert (Hgood : forall e, In e g -> entry_good e).
  { intros e He. destruct (group_good ts e He) as [Hne Hpe].
    assert (Hall : forall pe o, In pe (snd e) -> In o (snd pe) -> triple_ok (fst e, fst pe, o, None)).
    { intros pe o H1 H2. apply Hok. apply Hflat. now apply in_flat_group. }
    split; [|split; [assumption|]].
    - destruct (snd e) as [|pe ps] eqn:E; [congruence|].
      assert (Hpe0 : snd pe <> []) by (apply Hpe; now left).
      destruct (snd pe) as [|o os] eqn:E2; [congruence|].
      destruct (Hall pe o (or_introl eq_refl)) as (Hs & _); [rewrite E2; now left|]. exact Hs.
    - intros pe Hin. split; [|split; [now apply Hpe|]].
      + assert (Hpe0 : snd pe <> []) by now apply Hpe.
        destruct (snd pe) as [|o os] eqn:E2; [congruence|].
        destruct (Hall pe o Hin) as (_ & Hp & _); [rewrite E2; now left|]. exact Hp.
      + intros o Ho. destruct (Hall pe o Hin Ho) as (_ & _ & Hf). exact Hf. }
  exists (flat_group g). split; [|exact Hflat].
  unfold load_ttl, gen_ttl_triples. fold g.
  rewrite (flat_map_ext_in ttl_subject (fun e => body_entry e ++ [cLF])).
  2:{ intros e He. apply ttl_subject_text. now destruct (Hgood e He) as (_ & H & _). }
  rewrite lines_flat_map by (intros e He; now apply entry_line, Hgood).
  rewrite map_map. apply ttl_collect_ok. intros e He. now apply entry_line, Hgood.
Qed.

(* ---- bare terms ------------------------------------------------------------------------------------------------------------ *)
Lemma bare_subj_ok : forall s, wf_subj s = true -> subj_ok s.
Proof.
  intros s H. destruct (wf_subj_not_qt s H) as [H1 H2]. destruct (iri_chars_resolve s H2) as [H3 _].
  unfold subj_ok, nt_subj. rewrite H1. split; [now apply TT_angle|split; [assumption|]]. now exists (s ++ [cGT]).
Qed.

Lemma bare_obj_fact : forall s p o, wf_obj o = true -> dd_ttl_term o = false -> flush_ok s p o -> obj_fact s p o.
Proof.
  intros s p o H Hd Hf. pose proof (ttl_obj_tterm o H) as Ht.
  split; [assumption|split; [now apply wf_obj_resolve|split; [|assumption]]].
  apply (tterm_no_marker _ o); [assumption|now apply wf_obj_not_qt].
Qed.

Lemma ttl_roundtrip : forall db, wf_db db = true -> known_ttl db = false ->
  exists l, load_ttl (gen_ttl db) = TOk l /\ same_set l (default_part db).
Proof.
  intros db Hwf Hk. unfold gen_ttl. apply ttl_roundtrip_gen.
  - intros q Hq. unfold default_part in Hq. now apply filter_In in Hq.
  - intros q Hq. unfold default_part in Hq. apply filter_In in Hq as [Hq Hd].
    unfold wf_db in Hwf. rewrite forallb_forall in Hwf. pose proof (Hwf q Hq) as Hw.
    unfold wf_quad in Hw. apply andb_true_iff in Hw as [Hw _]. apply andb_true_iff in Hw as [Hw Hwo].
    apply andb_true_iff in Hw as [Hws Hwp].
    assert (Hdd : dd_ttl_term (qd_o q) = false).
    { destruct (dd_ttl_term (qd_o q)) eqn:E; [|reflexivity]. unfold known_ttl in Hk.
      assert (known_dd_ttl db = true) by (apply existsb_exists; exists q; now rewrite Hd, E). congruence. }
    split; [now apply bare_subj_ok|split; [now apply wf_iri_chars|]].
    apply bare_obj_fact; try assumption. left.
    destruct (wf_subj_not_qt _ Hws) as [-> _]. now rewrite (wf_obj_not_qt _ Hwo).
Qed.

(* ---- quoted-triple subjects / objects ---------------------------------------------------------------------------------------- *)
Lemma contains_find_sub : forall p l, contains p l = false -> find_sub p l = None.
Proof.
  intros p. induction l as [|c l IH]; intro H.
  - cbn in *. apply orb_false_iff in H as [H _]. now rewrite H.
  - cbn [contains] in H. apply orb_false_iff in H as [H1 H2]. cbn [find_sub]. now rewrite H1, (IH H2).
Qed.

Lemma tquad_triple_ok : forall q, wf_tquad q = true -> known_ttl_q_quad q = false -> is_default (tq_den q) = true ->
  triple_ok (tq_den q).
Proof.
  intros [[[s p] o] g] Hwf Hk Hdef. cbn [tq_den] in *. unfold is_default, qd_g in Hdef. cbn [snd] in Hdef.
  destruct g; [discriminate|]. cbn [wf_tquad known_ttl_q_quad] in *.
  apply andb_true_iff in Hwf as [Hwf _]. apply andb_true_iff in Hwf as [Hwf Hwo]. apply andb_true_iff in Hwf as [Hws Hwp].
  apply orb_false_iff in Hk as [Hk Hk3]. apply orb_false_iff in Hk as [Hk1 Hk2].
  unfold triple_ok, qd_s, qd_p, qd_o. cbn [fst snd].
  assert (Hflush : flush_ok (term_str s) p (term_str o)).
  { destruct (is_quoted s || is_quoted o) eqn:Eq.
    - right. cbn [andb] in Hk2. unfold known_dd_quad, qd_s, qd_p, qd_o in Hk2. cbn [tq_den fst snd] in Hk2.
      apply orb_false_iff in Hk2 as [Hk2 Hdo]. apply orb_false_iff in Hk2 as [Hds Hdp].
      destruct (tsubj_facts s Hws Hds) as (_ & _ & E1). destruct (tobj_facts o Hwo Hdo) as (_ & _ & E3).
      split; [assumption|split; [now apply ets_iri|assumption]].
    - left. apply orb_false_iff in Eq as [Es Eo]. destruct s as [vs|ts]; [|discriminate]. destruct o as [vo|to]; [|discriminate].
      cbn [term_str wf_tsubj wf_tobj] in *. destruct (wf_subj_not_qt _ Hws) as [-> _]. now rewrite (wf_obj_not_qt _ Hwo). }
  split; [|split; [now apply wf_iri_chars|]].
  - destruct s as [vs|ts]; cbn [term_str wf_tsubj] in *; [now apply bare_subj_ok|].
    destruct (qsafe_qt_inv ts Hws) as (a & b & c & -> & Hs). unfold subj_ok, nt_subj. rewrite qrender_prefix.
    split; [now apply TT_qt|split; [apply resolve_qt|]]. cbn [qrender]. now eexists.
  - destruct o as [vo|to]; cbn [term_str wf_tobj is_quoted negb andb] in *.
    + apply bare_obj_fact; assumption.
    + destruct (qsafe_qt_inv to Hwo) as (a & b & c & -> & Hs).
      unfold obj_fact, ttl_obj, nt_obj. rewrite qrender_prefix.
      split; [now apply TT_qt|split; [apply resolve_qt|split; [|assumption]]].
      unfold no_marker, ann_searched. replace (starts_with [cDQ] (qrender (QQt a b c))) with false by reflexivity.
      now apply contains_find_sub.
Qed.

Lemma ttl_roundtrip_quoted : forall db, wf_tdb db = true -> known_ttl_q db = false ->
  exists l, load_ttl (gen_ttl (tden db)) = TOk l /\ same_set l (default_part (tden db)).
Proof.
  intros db Hwf Hk. unfold gen_ttl. apply ttl_roundtrip_gen.
  - intros q Hq. unfold default_part in Hq. now apply filter_In in Hq.
  - intros q Hq. unfold default_part in Hq. apply filter_In in Hq as [Hq Hd].
    unfold tden in Hq. apply in_map_iff in Hq as (tq & <- & Hin).
    unfold wf_tdb in Hwf. rewrite forallb_forall in Hwf. apply tquad_triple_ok; [now apply Hwf| |assumption].
    destruct (known_ttl_q_quad tq) eqn:E; [|reflexivity].
    assert (known_ttl_q db = true) by (apply existsb_exists; now exists tq). congruence.
Qed.

(* ---- the Turtle known classes are real ------------------------------------------------------------------------------------ *)
Definition ttl_same (r : tres) (expected : list quad) : bool :=
  match r with TOk l => same_setb l expected | _ => false end.

Lemma same_set_same_setb : forall a b, same_set a b -> same_setb a b = true.
Proof.
  intros a b H. unfold same_setb. rewrite (same_set_subsetb a b H).
  assert (H' : same_set b a) by (intro q; symmetry; apply H). now rewrite (same_set_subsetb b a H').
Qed.

(* regression (commit e7e251c): the pre-fix loader searched the whole object text, quotes included, for the markers;
   on the written literal "a {| b c |} d" that search finds an annotation block (and on "{|}" the markers overlap,
   which made the slice panic), the repaired search finds none *)
Definition annot_lit : str := quoted [97; 32; 123; 124; 32; 98; 32; 99; 32; 124; 125; 32; 100].
Lemma annot_regression :
  (exists pre post content rest, find_sub sANN_OPEN annot_lit = Some (pre, post) /\ find_sub sANN_CLOSE post = Some (content, rest)) /\
  find_sub sANN_OPEN (ann_searched annot_lit) = None /\
  find_sub sANN_OPEN (ann_searched (quoted [123; 124; 125])) = None.
Proof. split; [|split; vm_compute; reflexivity]. do 4 eexists. split; vm_compute; reflexivity. Qed.

Lemma ttl_dd_refuted : wf_db dd_witness = true /\ known_dd_ttl dd_witness = true /\
  ~ exists l, load_ttl (gen_ttl dd_witness) = TOk l /\ same_set l (default_part dd_witness).
Proof.
  split; [vm_compute; reflexivity|split; [vm_compute; reflexivity|]]. intros (l & H1 & H2).
  apply same_set_same_setb in H2.
  assert (H3 : ttl_same (load_ttl (gen_ttl dd_witness)) (default_part dd_witness) = true) by (rewrite H1; exact H2).
  vm_compute in H3. discriminate.
Qed.
