(* C14 - N-Quads and N-Triples: the exported text of a well-formed database outside the double-decoding class
   loads back to the same list of quads. *)
Require Import List NArith Bool Lia ZifyBool ZifyN.
Import ListNotations.
Require Import KV.Codec14.Model KV.Codec14.Turtle KV.Codec14.Spec KV.Codec14.StrProofs KV.Codec14.LitProofs
               KV.Codec14.TokProofs.
Open Scope N_scope.

Arguments trim : simpl never.
Arguments escape : simpl never.

(* ---- prefixes -------------------------------------------------------------------------------------------- *)
Lemma starts_with_hd_ne : forall a p c l, (c =? a) = false -> starts_with (a :: p) (c :: l) = false.
Proof. intros a p c l H. cbn. rewrite N.eqb_sym, H. reflexivity. Qed.

Lemma starts_with_split : forall p l, starts_with p l = true -> exists r, l = p ++ r.
Proof.
  induction p as [|x p IH]; intros l H.
  - now exists l.
  - destruct l as [|y l]; [discriminate|]. cbn in H. apply andb_true_iff in H as [H1 H2].
    apply N.eqb_eq in H1. subst y. destruct (IH l H2) as [r ->]. now exists r.
Qed.

Lemma http_is_abs : forall o, starts_with sHTTP o || starts_with sHTTPS o = true -> looks_like_absolute_iri o = true.
Proof.
  intros o H. apply orb_true_iff in H as [H|H]; apply starts_with_split in H as [r ->]; reflexivity.
Qed.

(* ---- shape of rendered terms ---------------------------------------------------------------------------------- *)
Lemma iri_chars_no_lf : forall s, forallb iri_char s = true -> no_lf s = true.
Proof.
  intros s H. unfold no_lf. apply forallb_forall. intros c Hc. rewrite forallb_forall in H.
  destruct (iri_char_basic c (H c Hc)) as (_ & _ & _ & _ & _ & _ & H7). now rewrite H7.
Qed.

Lemma no_lf_app : forall a b, no_lf (a ++ b) = no_lf a && no_lf b.
Proof. intros. unfold no_lf. apply forallb_app. Qed.

Lemma pq_no_lf : forall X, forallb pq X = true -> no_lf X = true.
Proof.
  intros X H. unfold no_lf. apply forallb_forall. intros c Hc. rewrite forallb_forall in H. specialize (H c Hc).
  unfold pq in H. apply negb_true_iff in H. apply orb_false_iff in H as [_ H]. now rewrite H.
Qed.

Lemma qrender_no_lf : forall t, qsafe t = true -> no_lf (qrender t) = true.
Proof.
  induction t as [s|s|ws|a IHa b IHb c IHc]; intro Hs.
  1-3: apply pq_no_lf; now apply qleaf_pq.
  cbn [qsafe] in Hs. apply andb_true_iff in Hs as [Hs Hc]. apply andb_true_iff in Hs as [Hs _].
  apply andb_true_iff in Hs as [Hs Hb]. apply andb_true_iff in Hs as [Ha _].
  cbn [qrender]. rewrite !no_lf_app, IHa, IHb, IHc by assumption. reflexivity.
Qed.

Lemma rterm_shape : forall R v, rterm R v ->
  hd_not is_ws R = true /\ starts_with [cHASH] R = false /\ last_not is_ws R = true /\ no_lf R = true /\ R <> [].
Proof.
  intros R v H. destruct H as [s H|s H|v|a b c H].
  - unfold angle. repeat split; try reflexivity; try discriminate.
    + change (cLT :: s ++ [cGT]) with ((cLT :: s) ++ [cGT]). now rewrite last_not_app by discriminate.
    + change (cLT :: s ++ [cGT]) with ([cLT] ++ s ++ [cGT]). rewrite !no_lf_app, (iri_chars_no_lf s H). reflexivity.
  - destruct (wf_bnode_plain s H) as (Hp & Ht & Hne). destruct (wf_bnode_shape s H) as (c & r & -> & Hb).
    repeat split; try reflexivity; try discriminate.
    + change (cUS :: cCOLON :: c :: r) with ([cUS; cCOLON] ++ (c :: r)). rewrite last_not_app by discriminate.
      apply forallb_last_not with (f := bn_char); [|discriminate|assumption]. intros x Hx. now apply bn_char_facts.
    + change (cUS :: cCOLON :: c :: r) with ([cUS; cCOLON] ++ (c :: r)). rewrite no_lf_app.
      assert (Hn : no_lf (c :: r) = true).
      { unfold no_lf. apply forallb_forall. intros x Hx.
        rewrite forallb_forall in Hb. destruct (bn_char_facts x (Hb x Hx)) as (_ & _ & Hlf). now rewrite Hlf. }
      now rewrite Hn.
  - unfold quoted. repeat split; try reflexivity; try discriminate.
    + change (cDQ :: escape v ++ [cDQ]) with ((cDQ :: escape v) ++ [cDQ]). now rewrite last_not_app by discriminate.
    + change (cDQ :: escape v ++ [cDQ]) with ([cDQ] ++ escape v ++ [cDQ]). rewrite !no_lf_app.
      assert (Hn : no_lf (escape v) = true).
      { unfold no_lf. apply forallb_forall. intros c Hc. pose proof (escape_plain v) as Hp.
        rewrite forallb_forall in Hp. specialize (Hp c Hc). unfold plain_char in Hp.
        apply andb_true_iff in Hp as [Hp _]. now apply andb_true_iff in Hp as [Hp _]. }
      now rewrite Hn.
  - repeat split; try reflexivity.
    + cbn [qrender]. rewrite !app_assoc. now rewrite last_not_app by discriminate.
    + now apply qrender_no_lf.
    + cbn [qrender]. discriminate.
Qed.

(* ---- clean_ntriples_term on rendered terms ------------------------------------------------------------------------ *)
Lemma strip1_angle : forall s, strip1 (angle s) = s.
Proof. intro s. unfold strip1, angle. cbn [tl]. apply removelast_snoc. Qed.

Lemma ends_with_angle : forall s, ends_with [cGT] (angle s) = true.
Proof. intro s. unfold angle. change (cLT :: s ++ [cGT]) with ((cLT :: s) ++ [cGT]). apply ends_with_snoc. Qed.

Lemma angle_not_ltlt : forall s, forallb iri_char s = true -> starts_with sLTLT (angle s) = false.
Proof.
  intros [|c s] H; [reflexivity|]. cbn in H. apply andb_true_iff in H as [Hc _].
  destruct (iri_char_basic c Hc) as (H1 & _). unfold angle, sLTLT. cbn [app starts_with]. rewrite N.eqb_refl. cbn [andb]. rewrite N.eqb_sym, H1. reflexivity.
Qed.

Lemma clean_nt_rterm : forall R v, rterm R v -> clean_nt R = v.
Proof.
  intros R v H. unfold clean_nt. destruct H as [s H|s H|v|a b c H].
  - rewrite trim_angle, angle_not_ltlt by assumption. cbn [andb].
    rewrite ends_with_angle. cbn [angle starts_with N.eqb andb]. rewrite N.eqb_refl. cbn [andb].
    change (cLT :: s ++ [cGT]) with (angle s). apply strip1_angle.
  - destruct (wf_bnode_plain s H) as (_ & Ht & _). rewrite Ht.
    destruct (wf_bnode_shape s H) as (c & r & -> & _). reflexivity.
  - rewrite trim_quoted. rewrite decode_quoted. reflexivity.
  - rewrite qrender_trim. replace (starts_with sLTLT (qrender (QQt a b c))) with true by reflexivity.
    replace (ends_with sGTGT (qrender (QQt a b c))) with true; [reflexivity|].
    cbn [qrender]. rewrite !app_assoc. symmetry. apply ends_with_app.
Qed.

(* ---- encode_term_star is the identity on values outside the double-decoding class -------------------------------------- *)
Definition ets_ok (v : str) : bool :=
  str_eqb (trim v) v && negb (starts_with sLTLT v) && negb (starts_with [cLT] v && ends_with [cGT] v)
  && negb (starts_with [cDQ] v).

Lemma ets_id : forall v, ets_ok v = true -> ets v = v.
Proof.
  intros v H. unfold ets_ok in H. repeat (apply andb_true_iff in H as [H ?]).
  apply str_eqb_eq in H. apply negb_true_iff in H0, H1, H2.
  unfold ets. cbn [ets_fuel]. rewrite H, H2. cbn [andb]. now rewrite H1, H0.
Qed.

Lemma dd_term_false : forall v, dd_term v = false -> trim v = v /\ starts_with [cDQ] v = false.
Proof.
  intros v H. unfold dd_term in H. apply orb_false_iff in H as [H1 H2].
  apply negb_false_iff, str_eqb_eq in H2. now split.
Qed.

Lemma ets_iri : forall s, wf_iri s = true -> dd_term s = false -> ets s = s.
Proof.
  intros s H Hd. apply ets_id. destruct (dd_term_false s Hd) as [Ht Hq].
  destruct (wf_iri_hd s H) as (c & s' & -> & Ha). destruct (alpha_facts c Ha) as (H1 & H2 & _).
  unfold ets_ok. rewrite Ht, str_eqb_refl, Hq.
  unfold sLTLT. rewrite !starts_with_hd_ne by assumption. reflexivity.
Qed.

Lemma ets_bnode : forall s, wf_bnode s = true -> ets s = s.
Proof.
  intros s H. apply ets_id. destruct (wf_bnode_plain s H) as (_ & Ht & _).
  destruct (wf_bnode_shape s H) as (c & r & -> & _). unfold ets_ok. rewrite Ht, str_eqb_refl. reflexivity.
Qed.

Lemma ets_lit : forall v, kind_guess_stable v = true -> dd_term v = false -> ets v = v.
Proof.
  intros v H Hd. apply ets_id. destruct (dd_term_false v Hd) as [Ht Hq].
  unfold kind_guess_stable in H. apply andb_true_iff in H as [H Hang]. apply andb_true_iff in H as [H Habs].
  apply andb_true_iff in H as [Hqt Hbn].
  unfold ets_ok. now rewrite Ht, str_eqb_refl, Hq, Hqt, Hang.
Qed.

Lemma ets_subj : forall s, wf_subj s = true -> dd_term s = false -> ets s = s.
Proof.
  intros s H Hd. unfold wf_subj in H. apply orb_true_iff in H as [H|H]; [now apply ets_iri|now apply ets_bnode].
Qed.

Lemma ets_obj : forall o, wf_obj o = true -> dd_term o = false -> ets o = o.
Proof.
  intros o H Hd. unfold wf_obj in H. apply orb_true_iff in H as [H|H]; [|now apply ets_lit].
  apply orb_true_iff in H as [H|H]; [now apply ets_iri|now apply ets_bnode].
Qed.

(* ---- which text the N-Quads serialiser writes for a well-formed term ----------------------------------------------------- *)
Lemma bnode_prefix : forall s, wf_bnode s = true -> starts_with sLTLT s = false /\ starts_with sBN s = true.
Proof. intros s H. destruct (wf_bnode_shape s H) as (c & r & -> & _). now split. Qed.

Lemma iri_prefix : forall s, wf_iri s = true -> starts_with sLTLT s = false /\ starts_with sBN s = false.
Proof.
  intros s H. destruct (wf_iri_hd s H) as (c & s' & -> & Ha). destruct (alpha_facts c Ha) as (H1 & _ & H3 & _).
  unfold sLTLT, sBN. now rewrite !starts_with_hd_ne.
Qed.

Lemma wf_obj_not_qt : forall o, wf_obj o = true -> starts_with sLTLT o = false.
Proof.
  intros o H. unfold wf_obj in H. apply orb_true_iff in H as [H|H].
  - apply orb_true_iff in H as [H|H]; [now apply iri_prefix|now apply bnode_prefix].
  - unfold kind_guess_stable in H. repeat (apply andb_true_iff in H as [H _]). now apply negb_true_iff in H.
Qed.

(* encode_cleaned_term interns a term that does not start with "<<" verbatim *)
Lemma ect_plain : forall v, starts_with sLTLT v = false -> ect v = v.
Proof. intros v H. unfold ect. now rewrite H. Qed.

Lemma nq_subj_rterm : forall s, wf_subj s = true -> rterm (nq_subj s) s.
Proof.
  intros s H. unfold wf_subj in H. unfold nq_subj. apply orb_true_iff in H as [H|H].
  - destruct (iri_prefix s H) as [-> ->]. cbn [orb]. apply RT_angle. now apply wf_iri_chars.
  - destruct (bnode_prefix s H) as [-> ->]. cbn [orb]. now apply RT_bn.
Qed.

Lemma nq_graph_rterm : forall g, wf_iri g || wf_bnode g = true -> rterm (nq_graph g) g.
Proof.
  intros g H. unfold nq_graph. apply orb_true_iff in H as [H|H].
  - destruct (iri_prefix g H) as [_ ->]. apply RT_angle. now apply wf_iri_chars.
  - destruct (bnode_prefix g H) as [_ ->]. now apply RT_bn.
Qed.

Lemma nq_obj_rterm : forall o, wf_obj o = true -> rterm (nq_obj o) o.
Proof.
  intros o H. unfold wf_obj in H. unfold nq_obj.
  destruct (wf_iri o) eqn:Hi.
  - destruct (iri_prefix o Hi) as [-> ->]. cbn [orb].
    unfold wf_iri in Hi. apply andb_true_iff in Hi as [-> Hc]. now apply RT_angle.
  - destruct (wf_bnode o) eqn:Hb.
    + destruct (bnode_prefix o Hb) as [-> ->]. cbn [orb]. now apply RT_bn.
    + cbn [orb] in H. unfold kind_guess_stable in H. apply andb_true_iff in H as [H Hang].
      apply andb_true_iff in H as [H Habs]. apply andb_true_iff in H as [Hqt Hbn].
      apply negb_true_iff in Hqt, Hbn, Habs. rewrite Hqt, Hbn, Habs. cbn [orb]. apply RT_lit.
Qed.

(* ---- one rendered line ------------------------------------------------------------------------------------------------------ *)
Definition gpart (G : option str) : str := match G with None => [] | Some g => cSP :: g end.
Definition core (S P O : str) (G : option str) : str := S ++ cSP :: P ++ cSP :: O ++ gpart G.

Lemma core_parts : forall S P O G s p o g,
  rterm S s -> rterm P p -> rterm O o -> (match G, g with Some G', Some g' => rterm G' g' | None, None => True | _, _ => False end) ->
  parts (core S P O G) = S :: P :: O :: match G with Some G' => [G'] | None => [] end.
Proof.
  intros S P O G s p o g HS HP HO HG. unfold core, gpart. destruct G as [G'|], g as [g'|]; try contradiction.
  - now apply (tokenize_rendered_4 S P O G' s p o g').
  - rewrite app_nil_r. now apply (tokenize_rendered_3 S P O s p o).
Qed.

Lemma core_hd : forall S P O G s, rterm S s -> hd_not is_ws (core S P O G) = true /\ starts_with [cHASH] (core S P O G) = false.
Proof.
  intros S P O G s H. destruct (rterm_shape S s H) as (H1 & H2 & _ & _ & Hne). unfold core.
  destruct S as [|c S']; [congruence|]. cbn in *. now split.
Qed.

Lemma core_last : forall S P O G o g, rterm O o ->
  (match G, g with Some G', Some g' => rterm G' g' | None, None => True | _, _ => False end) ->
  last_not is_ws (core S P O G) = true.
Proof.
  intros S P O G o g HO HG. unfold core, gpart. destruct G as [G'|], g as [g'|]; try contradiction.
  - destruct (rterm_shape G' g' HG) as (_ & _ & H3 & _ & Hne).
    replace (S ++ cSP :: P ++ cSP :: O ++ cSP :: G') with ((S ++ cSP :: P ++ cSP :: O ++ [cSP]) ++ G').
    + now rewrite last_not_app.
    + repeat (rewrite <- app_assoc; cbn [app]). reflexivity.
  - rewrite app_nil_r. destruct (rterm_shape O o HO) as (_ & _ & H3 & _ & Hne).
    replace (S ++ cSP :: P ++ cSP :: O) with ((S ++ cSP :: P ++ [cSP]) ++ O).
    + now rewrite last_not_app.
    + repeat (rewrite <- app_assoc; cbn [app]). reflexivity.
Qed.

Lemma core_no_lf : forall S P O G s p o g, rterm S s -> rterm P p -> rterm O o ->
  (match G, g with Some G', Some g' => rterm G' g' | None, None => True | _, _ => False end) ->
  no_lf (core S P O G ++ [cSP; cDOT]) = true.
Proof.
  intros S P O G s p o g HS HP HO HG.
  destruct (rterm_shape S s HS) as (_ & _ & _ & H1 & _).
  destruct (rterm_shape P p HP) as (_ & _ & _ & H2 & _).
  destruct (rterm_shape O o HO) as (_ & _ & _ & H3 & _).
  unfold core, gpart. destruct G as [G'|], g as [g'|]; try contradiction.
  - destruct (rterm_shape G' g' HG) as (_ & _ & _ & H4 & _).
    change (cSP :: P ++ cSP :: O ++ cSP :: G') with ([cSP] ++ P ++ [cSP] ++ O ++ [cSP] ++ G').
    rewrite !no_lf_app, H1, H2, H3, H4. reflexivity.
  - change (cSP :: P ++ cSP :: O ++ []) with ([cSP] ++ P ++ [cSP] ++ O ++ []).
    rewrite !no_lf_app, H1, H2, H3. reflexivity.
Qed.

(* the line loop body on a rendered line: trimming, the dot, and the tokenizer *)
Lemma line_prefix : forall S P O G s p o g, rterm S s -> rterm P p -> rterm O o ->
  (match G, g with Some G', Some g' => rterm G' g' | None, None => True | _, _ => False end) ->
  let body := core S P O G ++ [cSP; cDOT] in
  trim body = body /\ is_comment_or_empty body = false /\ ends_with [cDOT] body = true /\
  trim (removelast body) = core S P O G.
Proof.
  intros S P O G s p o g HS HP HO HG body.
  destruct (core_hd S P O G s HS) as [Hh Hc]. pose proof (core_last S P O G o g HO HG) as Hl.
  assert (Hb : body = (core S P O G ++ [cSP]) ++ [cDOT]) by (unfold body; now rewrite <- app_assoc).
  repeat split.
  - apply trim_id.
    + unfold body. now apply hd_not_app.
    + rewrite Hb. now rewrite last_not_app by discriminate.
  - unfold is_comment_or_empty. destruct (core S P O G) as [|c r] eqn:E; [discriminate|].
    unfold body. cbn [app is_nil orb]. cbn in Hc. cbn. exact Hc.
  - rewrite Hb. apply ends_with_snoc.
  - rewrite Hb, removelast_snoc. unfold trim, trim_start, trim_end.
    rewrite drop_while_hd by now apply hd_not_app.
    rewrite drop_end_snoc_true by reflexivity. now apply drop_end_last.
Qed.

(* ---- N-Quads ------------------------------------------------------------------------------------------------------------------- *)
Definition nq_core (q : quad) : str :=
  core (nq_subj (qd_s q)) (angle (qd_p q)) (nq_obj (qd_o q)) (option_map nq_graph (qd_g q)).

Lemma nq_line_core : forall q, nq_line q = (nq_core q ++ [cSP; cDOT]) ++ [cLF].
Proof.
  intros [[[s p] o] g]. unfold nq_line, nq_core, core, gpart, sEND, qd_s, qd_p, qd_o, qd_g. cbn [fst snd].
  destruct g as [g|]; cbn [option_map app]; repeat (rewrite <- app_assoc; cbn [app]); reflexivity.
Qed.

Lemma wf_quad_rterms : forall q, wf_quad q = true ->
  rterm (nq_subj (qd_s q)) (qd_s q) /\ rterm (angle (qd_p q)) (qd_p q) /\ rterm (nq_obj (qd_o q)) (qd_o q) /\
  match option_map nq_graph (qd_g q), qd_g q with Some G', Some g' => rterm G' g' | None, None => True | _, _ => False end.
Proof.
  intros q H. unfold wf_quad in H. repeat (apply andb_true_iff in H as [H ?]).
  repeat split.
  - now apply nq_subj_rterm.
  - apply RT_angle. now apply wf_iri_chars.
  - now apply nq_obj_rterm.
  - destruct (qd_g q) as [g|]; cbn [option_map]; [|exact I]. now apply nq_graph_rterm.
Qed.

Lemma nq_load_rendered : forall q, wf_quad q = true -> nq_load_line (nq_core q ++ [cSP; cDOT]) = [q].
Proof.
  intros q Hwf. destruct (wf_quad_rterms q Hwf) as (HS & HP & HO & HG).
  destruct (line_prefix _ _ _ _ _ _ _ _ HS HP HO HG) as (H1 & H2 & H3 & H4). fold (nq_core q) in *.
  unfold nq_load_line. rewrite H1, H2, H3, H4.
  unfold nq_parse_line, nq_core. rewrite (core_parts _ _ _ _ _ _ _ _ HS HP HO HG).
  unfold wf_quad in Hwf. repeat (apply andb_true_iff in Hwf as [Hwf ?]).
  rewrite (clean_nt_rterm _ _ HS), (clean_nt_rterm _ _ HP), (clean_nt_rterm _ _ HO).
  assert (Es : ect (qd_s q) = qd_s q).
  { apply ect_plain. unfold wf_subj in Hwf. apply orb_true_iff in Hwf as [Hw|Hw]; [now apply iri_prefix|now apply bnode_prefix]. }
  assert (Ep : ect (qd_p q) = qd_p q) by (apply ect_plain; now apply iri_prefix).
  assert (Eo : ect (qd_o q) = qd_o q) by (apply ect_plain; now apply wf_obj_not_qt).
  destruct q as [[[s p] o] g]. unfold qd_s, qd_p, qd_o, qd_g in *. cbn [fst snd] in *.
  destruct g as [g|]; cbn [option_map] in *.
  - rewrite (clean_nt_rterm _ _ HG). now rewrite Es, Ep, Eo.
  - now rewrite Es, Ep, Eo.
Qed.

Lemma flat_map_id : forall {A} (f : str -> list A) (body : A -> str) (db : list A),
  (forall q, In q db -> f (body q) = [q]) -> flat_map f (map body db) = db.
Proof.
  induction db as [|q db IH]; intro H; [reflexivity|].
  cbn [map flat_map]. rewrite H by now left. cbn [app]. f_equal. apply IH. intros; apply H; now right.
Qed.

Lemma nq_roundtrip_list : forall db, wf_db db = true -> load_nq (gen_nq db) = db.
Proof.
  intros db Hwf. unfold load_nq, gen_nq.
  rewrite (flat_map_ext _ (fun q => (nq_core q ++ [cSP; cDOT]) ++ [cLF])) by (intro; apply nq_line_core).
  unfold wf_db in Hwf. rewrite forallb_forall in Hwf.
  rewrite lines_flat_map.
  - apply flat_map_id. intros q Hq. apply nq_load_rendered; auto.
  - intros q Hq. destruct (wf_quad_rterms q (Hwf q Hq)) as (HS & HP & HO & HG).
    unfold nq_core. now apply (core_no_lf _ _ _ _ _ _ _ _ HS HP HO HG).
Qed.

Lemma nq_roundtrip : forall db, wf_db db = true -> same_set (load_nq (gen_nq db)) db.
Proof. intros db H1 q. now rewrite nq_roundtrip_list. Qed.
