(* C14 - escape_ntriples_literal / decode_ntriples_literal are inverse on every code-point list. *)
Require Import List NArith Bool Lia.
Import ListNotations.
Require Import KV.Codec14.Model KV.Codec14.StrProofs.
Open Scope N_scope.

Lemma dec_esc_char : forall c r,
  dec_go DPlain (esc_char c ++ r) = dpush c (dec_go DPlain r).
Proof.
  intros c r. unfold esc_char.
  destruct (N.eqb_spec c cBS) as [->|Hbs]; [reflexivity|].
  destruct (N.eqb_spec c cDQ) as [->|Hdq]; [reflexivity|].
  destruct (N.eqb_spec c cLF) as [->|Hlf]; [reflexivity|].
  destruct (N.eqb_spec c cCR) as [->|Hcr]; [reflexivity|].
  destruct (N.eqb_spec c cTAB) as [->|Htab]; [reflexivity|].
  cbn [app dec_go].
  apply N.eqb_neq in Hbs, Hdq. now rewrite Hbs, Hdq.
Qed.

Lemma dec_escape : forall s rest,
  dec_go DPlain (escape s ++ cDQ :: rest) = Some (s, rest).
Proof.
  induction s as [|c s IH]; intro rest.
  - reflexivity.
  - unfold escape. cbn [flat_map]. fold (escape s). rewrite <- app_assoc.
    rewrite dec_esc_char, IH. reflexivity.
Qed.

(* decode ('"' :: escape s ++ '"' :: rest) = Some (s, rest) *)
Lemma escape_decode : forall s rest, decode (cDQ :: escape s ++ cDQ :: rest) = Some (s, rest).
Proof. intros. unfold decode. rewrite N.eqb_refl. apply dec_escape. Qed.

Lemma decode_quoted : forall s, decode (quoted s) = Some (s, []).
Proof. intro s. unfold quoted. apply escape_decode. Qed.

(* the escaped text contains no line break and no tab *)
Definition plain_char (c : N) : bool := negb (c =? cLF) && negb (c =? cCR) && negb (c =? cTAB).
Lemma esc_char_plain : forall c, forallb plain_char (esc_char c) = true.
Proof.
  intro c. unfold esc_char.
  destruct (N.eqb_spec c cBS) as [->|Hbs]; [reflexivity|].
  destruct (N.eqb_spec c cDQ) as [->|Hdq]; [reflexivity|].
  destruct (N.eqb_spec c cLF) as [->|Hlf]; [reflexivity|].
  destruct (N.eqb_spec c cCR) as [->|Hcr]; [reflexivity|].
  destruct (N.eqb_spec c cTAB) as [->|Htab]; [reflexivity|].
  cbn. unfold plain_char. apply N.eqb_neq in Hlf, Hcr, Htab. now rewrite Hlf, Hcr, Htab.
Qed.
Lemma escape_plain : forall s, forallb plain_char (escape s) = true.
Proof.
  induction s as [|c s IH]; [reflexivity|].
  unfold escape. cbn [flat_map]. rewrite forallb_app. fold (escape s). now rewrite esc_char_plain, IH.
Qed.
