(* Entry points for the correspondence check (checks/c14.py). *)
Require Import List NArith Bool.
Import ListNotations.
Require Import KV.Codec14.Model KV.Codec14.Turtle KV.Codec14.Spec.
Open Scope N_scope.

Definition b2n (b : bool) : N := if b then 1 else 0.

(* round trip of a database: `db` in all_quads order, `dflt` = default-graph triples in query order *)
Definition run_rt (db dflt : list quad) :=
  (gen_nq db, load_nq (gen_nq db), (gen_nt dflt, load_nt (gen_nt dflt)), (gen_ttl dflt, load_ttl (gen_ttl dflt))).

(* classification of a database: (wf_db, known_dd, known_dd_ttl) *)
Definition run_class (db : list quad) :=
  [b2n (wf_db db); b2n (known_dd db); b2n (known_dd_ttl db)].

Definition run_load (fmt : N) (text : str) : tres :=
  if fmt =? 0 then TOk (load_nq text) else if fmt =? 1 then TOk (load_nt text) else load_ttl text.

Definition o2l {A} (o : option A) : list A := match o with Some x => [x] | None => [] end.

(* function-level streams: every result is a list of strings (with a leading tag list where needed) *)
Definition run_fn (f : N) (x : str) : list str :=
  match f with
  | 0 => [escape x]
  | 1 => match decode x with Some (v, r) => [[1]; v; r] | None => [[0]] end
  | 2 => [[b2n (looks_like_absolute_iri x)]]
  | 3 => parts x
  | 4 => [clean_nt x]
  | 5 => match nq_parse_line x with
         | Some (s, p, o, g) => [[1]; s; p; o] ++ o2l g
         | None => [[0]]
         end
  | 6 => match nt_parse_line x with
         | Some (s, p, o) => [[1]; s; p; o]
         | None => [[0]]
         end
  | 7 => tokenize_ttl x
  | 8 => [clean_ttl x]
  | 9 => [ets x]
  | 10 => let '(a, b, c) := split_qt x in [a; b; c]
  | 11 => [resolve x]
  | _ => []
  end.
