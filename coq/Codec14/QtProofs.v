(* C14 - quoted-triple terms: split_quoted_triple_content and encode_term_star give back the bare rendering of a
   safe quoted triple (fuel adequacy included). *)
Require Import List NArith Bool Lia ZifyBool ZifyN.
Import ListNotations.
Require Import KV.Codec14.Model KV.Codec14.Turtle KV.Codec14.Spec KV.Codec14.StrProofs KV.Codec14.LitProofs
               KV.Codec14.TokProofs KV.Codec14.NqProofs KV.Codec14.NtProofs.
Open Scope N_scope.

Arguments trim : simpl never.
Arguments ends_with : simpl never.

(* ---- suffix tests on a list with a known last character ---------------------------------------------------- *)
Lemma ends1_snoc : forall a l y, ends_with [a] (l ++ [y]) = (a =? y).
Proof. intros. unfold ends_with. rewrite rev_app_distr. cbn. now rewrite andb_true_r. Qed.
Lemma ends2_snoc : forall a b l y, ends_with [a; b] (l ++ [y]) = (b =? y) && ends_with [a] l.
Proof.
  intros. unfold ends_with. rewrite rev_app_distr. cbn [rev app starts_with].
  destruct (rev l); cbn; now rewrite ?andb_true_r.
Qed.

(* ---- characters --------------------------------------------------------------------------------------------- *)
Definition qchar (c : N) : bool := negb ((c =? cLT) || (c =? cGT) || (c =? cDQ)).

Lemma word_char_facts : forall c, word_char c = true ->
  sep_char c = false /\ (c =? cLT) = false /\ (c =? cGT) = false /\ (c =? cDQ) = false /\ (c =? cBS) = false.
Proof.
  intros c H. unfold word_char in H. apply andb_true_iff in H as [H1 H2]. apply negb_true_iff in H1, H2.
  repeat (apply orb_false_iff in H2 as [H2 ?]). now repeat split.
Qed.

(* ---- one step of split_quoted_triple_content outside literals ------------------------------------------------------ *)
Definition qs (parts : list str) (cur : str) (d : N) (u : bool) : qst := QS parts cur d u false false.

Lemma q_step_push : forall parts cur d u c,
  (c =? cLT) = false -> (c =? cGT) = false -> (c =? cDQ) = false ->
  ((d =? 0) = false \/ (u = false /\ sep_char c = false)) \/ u = true ->
  q_step (qs parts cur d u) c = qs parts (cur ++ [c]) d u.
Proof.
  intros parts cur d u c H1 H2 H3 H4. unfold q_step, qs. cbn [q_esc q_lit q_uri q_dep q_cur q_parts].
  rewrite H1, H2, H3. rewrite !andb_false_r. cbn [andb negb].
  destruct (((c =? cSP) || (c =? cTAB) || (c =? cLF) || (c =? cCR)) && (d =? 0) && negb u && true) eqn:E; [|reflexivity].
  exfalso. rewrite andb_true_r in E. apply andb_true_iff in E as [E Eu]. apply andb_true_iff in E as [Ec Ed].
  apply negb_true_iff in Eu. destruct H4 as [[H4|[_ H4]]|H4]; try congruence.
  unfold sep_char in H4. congruence.
Qed.

Lemma q_run_push : forall X parts cur d u,
  forallb qchar X = true -> ((d =? 0) = false \/ (u = false /\ forallb (fun c => negb (sep_char c)) X = true)) ->
  fold_left q_step X (qs parts cur d u) = qs parts (cur ++ X) d u.
Proof.
  induction X as [|c X IH]; intros parts cur d u H Hd; [now rewrite app_nil_r|].
  cbn in H. apply andb_true_iff in H as [Hc HX]. unfold qchar in Hc. apply negb_true_iff in Hc.
  repeat (apply orb_false_iff in Hc as [Hc ?]).
  cbn [fold_left]. rewrite q_step_push; try assumption.
  - rewrite IH; try assumption.
    + now rewrite <- app_assoc.
    + destruct Hd as [Hd|[Hu Hn]]; [now left|right]. cbn in Hn. now apply andb_true_iff in Hn as [_ Hn].
  - left. destruct Hd as [Hd|[Hu Hn]]; [now left|right]. cbn in Hn. apply andb_true_iff in Hn as [Hn _].
    now apply negb_true_iff in Hn.
Qed.

(* `<<` and `>>` *)
Lemma q_step_open1 : forall parts cur d u, ends_with [cLT] cur = false -> (d =? 0) = false ->
  q_step (qs parts cur d u) cLT = qs parts (cur ++ [cLT]) d u.
Proof.
  intros parts cur d u He Hd. unfold q_step, qs. cbn [q_esc q_lit q_uri q_dep q_cur q_parts].
  replace ((cLT =? cBS) && false) with false by reflexivity. replace ((cLT =? cDQ) && negb u) with false by reflexivity.
  replace ((cLT =? cLT) && negb false) with true by reflexivity. cbn [negb andb].
  unfold sLTLT. rewrite ends2_snoc, He, Hd. cbn. reflexivity.
Qed.

Lemma q_step_open1_top : forall parts cur, ends_with [cLT] cur = false ->
  q_step (qs parts cur 0 false) cLT = qs parts (cur ++ [cLT]) 0 true.
Proof.
  intros parts cur He. unfold q_step, qs. cbn [q_esc q_lit q_uri q_dep q_cur q_parts].
  replace ((cLT =? cBS) && false) with false by reflexivity. replace ((cLT =? cDQ) && negb false) with false by reflexivity.
  replace ((cLT =? cLT) && negb false) with true by reflexivity. cbn [negb andb].
  unfold sLTLT. rewrite ends2_snoc, He. cbn. reflexivity.
Qed.

Lemma q_step_open2 : forall parts cur d u,
  q_step (qs parts (cur ++ [cLT]) d u) cLT = qs parts ((cur ++ [cLT]) ++ [cLT]) (d + 1) u.
Proof.
  intros parts cur d u. unfold q_step, qs. cbn [q_esc q_lit q_uri q_dep q_cur q_parts].
  replace ((cLT =? cBS) && false) with false by reflexivity. replace ((cLT =? cDQ) && negb u) with false by reflexivity.
  replace ((cLT =? cLT) && negb false) with true by reflexivity. cbn [negb andb].
  unfold sLTLT. rewrite ends2_snoc, ends1_snoc. cbn. reflexivity.
Qed.

Lemma q_step_close1 : forall parts cur d u,
  q_step (qs parts (cur ++ [cSP]) d u) cGT = qs parts ((cur ++ [cSP]) ++ [cGT]) d false.
Proof.
  intros parts cur d u. unfold q_step, qs. cbn [q_esc q_lit q_uri q_dep q_cur q_parts].
  replace ((cGT =? cBS) && false) with false by reflexivity. replace ((cGT =? cDQ) && negb u) with false by reflexivity.
  replace ((cGT =? cLT) && negb false) with false by reflexivity. replace ((cGT =? cGT) && negb false) with true by reflexivity.
  cbn [negb andb]. destruct u; [reflexivity|].
  unfold sGTGT. rewrite ends2_snoc, ends1_snoc. cbn. reflexivity.
Qed.

Lemma q_step_close2 : forall parts cur d,
  q_step (qs parts (cur ++ [cGT]) (d + 1) false) cGT = qs parts ((cur ++ [cGT]) ++ [cGT]) d false.
Proof.
  intros parts cur d. unfold q_step, qs. cbn [q_esc q_lit q_uri q_dep q_cur q_parts].
  replace ((cGT =? cBS) && false) with false by reflexivity. replace ((cGT =? cDQ) && negb false) with false by reflexivity.
  replace ((cGT =? cLT) && negb false) with false by reflexivity. replace ((cGT =? cGT) && negb false) with true by reflexivity.
  cbn [negb andb]. unfold sGTGT. rewrite ends2_snoc, ends1_snoc.
  replace (0 <? d + 1) with true by lia. cbn [N.eqb Pos.eqb andb]. rewrite N.eqb_refl. cbn [andb].
  now rewrite N.add_sub.
Qed.

(* ---- leaves ---------------------------------------------------------------------------------------------------------- *)
Definition leafb (t : qterm) : bool := match t with QQt _ _ _ => false | _ => true end.

Lemma iri_char_qchar : forall c, iri_char c = true -> qchar c = true.
Proof. intros c H. destruct (iri_char_basic c H) as (H1 & H2 & H3 & _). unfold qchar. now rewrite H1, H2, H3. Qed.

Lemma word_char_qchar : forall c, word_char c = true -> qchar c = true.
Proof. intros c H. destruct (word_char_facts c H) as (_ & H1 & H2 & H3 & _). unfold qchar. now rewrite H1, H2, H3. Qed.

Lemma forallb_impl : forall (f g : N -> bool) l, (forall c, f c = true -> g c = true) -> forallb f l = true -> forallb g l = true.
Proof. intros f g l H Hf. apply forallb_forall. intros c Hc. rewrite forallb_forall in Hf. auto. Qed.

Lemma join_words_qchar : forall ws, forallb word_ok ws = true -> forallb qchar (join [cSP] ws) = true.
Proof.
  induction ws as [|w ws IH]; intro H; [reflexivity|].
  cbn in H. apply andb_true_iff in H as [Hw Hws]. unfold word_ok in Hw. apply andb_true_iff in Hw as [_ Hw].
  assert (Hq : forallb qchar w = true) by (apply (forallb_impl word_char); [apply word_char_qchar|assumption]).
  destruct ws as [|w2 ws']; [exact Hq|].
  change (join [cSP] (w :: w2 :: ws')) with (w ++ [cSP] ++ join [cSP] (w2 :: ws')).
  rewrite !forallb_app, Hq, (IH Hws). reflexivity.
Qed.

Lemma leaf_qchar : forall t, qsafe t = true -> leafb t = true -> forallb qchar (qrender t) = true.
Proof.
  intros [s|s|ws|a b c] H Hl; try discriminate; cbn [qsafe qrender] in *.
  - apply andb_true_iff in H as [H _]. apply (forallb_impl iri_char); [apply iri_char_qchar|now apply wf_iri_chars].
  - apply (forallb_impl iri_char); [apply iri_char_qchar|now apply bnode_iri_chars].
  - apply andb_true_iff in H as [H _]. now apply join_words_qchar.
Qed.

(* ---- a component inside a quoted triple (depth > 0): everything is accumulated, the depth returns to its value ------------ *)
Lemma q_tail : forall A B C ua ub uc,
  (forall parts cur d u, (d =? 0) = false -> ends_with [cLT] cur = false ->
     fold_left q_step A (qs parts cur d u) = qs parts (cur ++ A) d (u && ua)) ->
  (forall parts cur d u, (d =? 0) = false -> ends_with [cLT] cur = false ->
     fold_left q_step B (qs parts cur d u) = qs parts (cur ++ B) d (u && ub)) ->
  (forall parts cur d u, (d =? 0) = false -> ends_with [cLT] cur = false ->
     fold_left q_step C (qs parts cur d u) = qs parts (cur ++ C) d (u && uc)) ->
  forall parts cur d u,
  fold_left q_step ([cSP] ++ A ++ [cSP] ++ B ++ [cSP] ++ C ++ [cSP] ++ sGTGT) (qs parts cur (d + 1) u)
  = qs parts (cur ++ [cSP] ++ A ++ [cSP] ++ B ++ [cSP] ++ C ++ [cSP] ++ sGTGT) d false.
Proof.
  intros A B C ua ub uc HA HB HC parts cur d u.
  assert (Hd : (d + 1 =? 0) = false) by lia.
  assert (Hsp : forall parts cur u, q_step (qs parts cur (d + 1) u) cSP = qs parts (cur ++ [cSP]) (d + 1) u).
  { intros. apply q_step_push; try reflexivity. left. now left. }
  rewrite !fold_left_app. cbn [fold_left]. unfold sGTGT.
  rewrite Hsp, HA by (try assumption; apply ends1_snoc).
  rewrite Hsp, HB by (try assumption; apply ends1_snoc).
  rewrite Hsp, HC by (try assumption; apply ends1_snoc).
  rewrite Hsp. cbn [fold_left]. rewrite q_step_close1, q_step_close2.
  f_equal. repeat (rewrite <- app_assoc; cbn [app]). reflexivity.
Qed.

Lemma q_inner : forall t, qsafe t = true ->
  forall parts cur d u, (d =? 0) = false -> ends_with [cLT] cur = false ->
  fold_left q_step (qrender t) (qs parts cur d u) = qs parts (cur ++ qrender t) d (u && leafb t).
Proof.
  induction t as [s|s|ws|a IHa b IHb c IHc]; intros Hs parts cur d u Hd He.
  1-3: rewrite andb_true_r; apply q_run_push; [now apply leaf_qchar|now left].
  cbn [qsafe] in Hs. repeat (apply andb_true_iff in Hs as [Hs ?]).
  cbn [qrender leafb]. rewrite andb_false_r.
  change (sLTLT ++ [cSP] ++ qrender a ++ [cSP] ++ qrender b ++ [cSP] ++ qrender c ++ [cSP] ++ sGTGT)
    with (cLT :: cLT :: ([cSP] ++ qrender a ++ [cSP] ++ qrender b ++ [cSP] ++ qrender c ++ [cSP] ++ sGTGT)).
  cbn [fold_left]. rewrite q_step_open1, q_step_open2 by assumption.
  rewrite (q_tail _ _ _ (leafb a) (leafb b) (leafb c)); auto.
  f_equal. repeat (rewrite <- app_assoc; cbn [app]). reflexivity.
Qed.

(* ---- a component at depth 0 (a top-level part of the content) ---------------------------------------------------------------- *)
Lemma q_top_qt : forall a b c parts, qsafe (QQt a b c) = true ->
  fold_left q_step (qrender (QQt a b c)) (qs parts [] 0 false) = qs parts (qrender (QQt a b c)) 0 false.
Proof.
  intros a b c parts Hs. cbn [qsafe] in Hs. repeat (apply andb_true_iff in Hs as [Hs ?]).
  cbn [qrender].
  change (sLTLT ++ [cSP] ++ qrender a ++ [cSP] ++ qrender b ++ [cSP] ++ qrender c ++ [cSP] ++ sGTGT)
    with (cLT :: cLT :: ([cSP] ++ qrender a ++ [cSP] ++ qrender b ++ [cSP] ++ qrender c ++ [cSP] ++ sGTGT)).
  cbn [fold_left]. rewrite q_step_open1_top by reflexivity. rewrite q_step_open2.
  rewrite (q_tail _ _ _ (leafb a) (leafb b) (leafb c)); try (intros; now apply q_inner).
  reflexivity.
Qed.

(* ---- the top-level parts of the content of a quoted triple ------------------------------------------------------------------------ *)
Inductive q0tok : str -> Prop :=
| Q0_word : forall w, word_ok w = true -> q0tok w
| Q0_qt : forall a b c, qsafe (QQt a b c) = true -> q0tok (qrender (QQt a b c)).

Lemma word_shape : forall w, word_ok w = true ->
  exists c r, w = c :: r /\ word_char c = true /\ forallb word_char w = true /\
              forallb (fun c => negb (sep_char c)) w = true /\ hd_not is_ws w = true /\ last_not is_ws w = true.
Proof.
  intros w H. unfold word_ok in H. apply andb_true_iff in H as [H Hc]. apply andb_true_iff in H as [Hh Hl].
  destruct w as [|c r]; [discriminate|].
  exists c, r. split; [reflexivity|]. split; [cbn in Hc; now apply andb_true_iff in Hc as [Hc _]|]. split; [assumption|].
  split; [|split].
  - apply (forallb_impl word_char); [|assumption]. intros x Hx. destruct (word_char_facts x Hx) as (Hw & _). now rewrite Hw.
  - exact Hh.
  - clear Hh Hc. revert c Hl. induction r as [|d r IH]; intros c Hl; [exact Hl|]. apply (IH d). exact Hl.
Qed.

Lemma qrender_qt_shape : forall a b c,
  hd_not is_ws (qrender (QQt a b c)) = true /\ last_not is_ws (qrender (QQt a b c)) = true /\
  starts_with sLTLT (qrender (QQt a b c)) = true /\ ends_with sGTGT (qrender (QQt a b c)) = true.
Proof.
  intros a b c. cbn [qrender]. repeat split.
  - rewrite !app_assoc. rewrite last_not_app by discriminate. reflexivity.
  - rewrite !app_assoc. apply ends_with_app.
Qed.

Lemma q0_shape : forall x, q0tok x -> trim x = x /\ is_nil x = false /\ hd_not is_ws x = true /\ last_not is_ws x = true.
Proof.
  intros x [w Hw|a b c Hs].
  - destruct (word_shape w Hw) as (c & r & -> & Hc & _ & _ & Hh & Hl).
    repeat split; try assumption. now apply trim_id.
  - destruct (qrender_qt_shape a b c) as (H1 & H2 & _ & _). repeat split; try assumption. now apply trim_id.
Qed.

Lemma q0_run : forall x parts, q0tok x -> fold_left q_step x (qs parts [] 0 false) = qs parts x 0 false.
Proof.
  intros x parts [w Hw|a b c Hs].
  - destruct (word_shape w Hw) as (c & r & E & _ & Hc & Hn & _ & _).
    rewrite q_run_push; [reflexivity| |right; now split].
    apply (forallb_impl word_char); [apply word_char_qchar|assumption].
  - now apply q_top_qt.
Qed.

Lemma q_flush_tok : forall x parts, q0tok x -> q_flush (qs parts x 0 false) = qs (parts ++ [x]) [] 0 false.
Proof.
  intros x parts H. destruct (q0_shape x H) as (Ht & Hn & _). unfold q_flush, qs. cbn [q_cur q_parts q_dep q_uri q_lit q_esc].
  now rewrite Ht, Hn.
Qed.

Lemma q_step_sp_top : forall parts cur, q_step (qs parts cur 0 false) cSP = q_flush (qs parts cur 0 false).
Proof. intros. reflexivity. Qed.

Lemma q0_join : forall l parts, Forall q0tok l ->
  q_flush (fold_left q_step (join [cSP] l) (qs parts [] 0 false)) = qs (parts ++ l) [] 0 false.
Proof.
  induction l as [|x l IH]; intros parts H.
  - cbn. now rewrite app_nil_r.
  - inversion H as [|? ? Hx Hl]; subst. destruct l as [|y r].
    + cbn [join]. rewrite q0_run by assumption. now apply q_flush_tok.
    + change (join [cSP] (x :: y :: r)) with (x ++ [cSP] ++ join [cSP] (y :: r)).
      rewrite !fold_left_app. rewrite q0_run by assumption. cbn [fold_left].
      rewrite q_step_sp_top, q_flush_tok by assumption. rewrite IH by assumption. now rewrite <- app_assoc.
Qed.

Lemma split_qt_join : forall A B toks, Forall q0tok (A :: B :: toks) ->
  split_qt (join [cSP] (A :: B :: toks)) = (A, B, join [cSP] toks).
Proof.
  intros A B toks H. unfold split_qt. change (QS [] [] 0 false false false) with (qs [] [] 0 false).
  rewrite q0_join by assumption. cbn [app qs q_parts]. destruct toks; reflexivity.
Qed.

(* the tokens of a component *)
Definition qtoks (t : qterm) : list str := match t with QLit ws => ws | _ => [qrender t] end.

Lemma no_ws_ends : forall s, s <> [] -> no_ws s = true -> hd_nows s = true /\ last_nows s = true.
Proof.
  intros s Hne H. unfold no_ws in H. split.
  - destruct s; [congruence|]. cbn in *. now apply andb_true_iff in H as [H _].
  - induction s as [|c s IH]; [congruence|]. cbn in H. apply andb_true_iff in H as [Hc Hs].
    destruct s as [|d s']; [exact Hc|]. apply IH; [discriminate|assumption].
Qed.

Lemma iri_word : forall s, wf_iri s = true -> no_ws s = true -> word_ok s = true.
Proof.
  intros s H Hn. assert (Hne : s <> []) by (destruct (wf_iri_hd s H) as (c & r & -> & _); discriminate).
  destruct (no_ws_ends s Hne Hn) as [Hh Hl]. unfold word_ok. rewrite Hh, Hl. cbn [andb].
  apply forallb_forall. intros x Hx. pose proof (wf_iri_chars _ H) as Hc. rewrite forallb_forall in Hc.
  specialize (Hc x Hx). destruct (iri_char_basic x Hc) as (H1 & H2 & H3 & H4 & H5 & H6 & H7).
  unfold iri_char in Hc. unfold word_char, sep_char. rewrite H1, H2, H3, H4, H5, H6, H7.
  apply andb_true_iff in Hc as [Hc _]. unfold cCR. replace (x =? 13) with false by lia. reflexivity.
Qed.

Lemma bn_char_word_char : forall c, bn_char c = true -> word_char c = true.
Proof.
  intros c H. unfold bn_char, is_ascii_alnum, is_ascii_alpha, is_ascii_digit, cUS, cMINUS, cDOT in H.
  unfold word_char, sep_char, cSP, cTAB, cLF, cCR, cLT, cGT, cDQ, cBS. lia.
Qed.

Lemma bnode_word : forall s, wf_bnode s = true -> word_ok s = true.
Proof.
  intros s H. destruct (wf_bnode_plain s H) as (_ & _ & Hne). destruct (rterm_shape s s (RT_bn s H)) as (Hh & _ & Hl & _).
  destruct (wf_bnode_shape s H) as (c & r & -> & Hb). unfold word_ok.
  change (hd_nows (cUS :: cCOLON :: c :: r)) with (hd_not is_ws (cUS :: cCOLON :: c :: r)). rewrite Hh. cbn [andb].
  assert (El : last_nows (cUS :: cCOLON :: c :: r) = last_not is_ws (cUS :: cCOLON :: c :: r)).
  { generalize (cUS :: cCOLON :: c :: r). induction l as [|x l IH]; [reflexivity|]. destruct l; [reflexivity|exact IH]. }
  rewrite El, Hl. cbn [andb].
  change (forallb word_char (cUS :: cCOLON :: c :: r)) with (forallb word_char (c :: r)).
  apply (forallb_impl bn_char); [apply bn_char_word_char|assumption].
Qed.

Lemma qtoks_ok : forall t, qsafe t = true -> Forall q0tok (qtoks t) /\ join [cSP] (qtoks t) = qrender t.
Proof.
  intros [s|s|ws|a b c] H; cbn [qsafe qtoks qrender] in *.
  - apply andb_true_iff in H as [H Hn]. split; [|reflexivity]. constructor; [|constructor]. apply Q0_word. now apply iri_word.
  - split; [|reflexivity]. constructor; [|constructor]. apply Q0_word. now apply bnode_word.
  - apply andb_true_iff in H as [H _]. split; [|reflexivity]. rewrite forallb_forall in H.
    apply Forall_forall. intros w Hw. apply Q0_word. now apply H.
  - split; [|reflexivity]. constructor; [|constructor]. exact (Q0_qt a b c H).
Qed.

Lemma single_tok : forall t, qsafe t = true -> q_is_subj t = true -> q0tok (qrender t).
Proof.
  intros t H Hs. destruct (qtoks_ok t H) as [Hf _]. destruct t; try discriminate; cbn [qtoks] in Hf; now inversion Hf.
Qed.

Lemma join_toks_shape : forall l, Forall q0tok l -> l <> [] ->
  hd_not is_ws (join [cSP] l) = true /\ last_not is_ws (join [cSP] l) = true.
Proof.
  induction l as [|x l IH]; intros H Hne; [congruence|]. inversion H as [|? ? Hx Hl]; subst.
  destruct (q0_shape x Hx) as (_ & Hn & Hh & Hla). destruct l as [|y r]; [now split|].
  change (join [cSP] (x :: y :: r)) with (x ++ [cSP] ++ join [cSP] (y :: r)).
  destruct (IH Hl ltac:(discriminate)) as [_ IH2]. split.
  - now apply hd_not_app.
  - rewrite app_assoc, last_not_app; [assumption|]. destruct r; cbn; destruct y; try discriminate.
    all: inversion Hl as [|? ? Hy _]; destruct (q0_shape _ Hy) as (_ & Hny & _); discriminate.
Qed.

(* the content between << and >> of a rendered safe quoted triple *)
Lemma qt_inner : forall a b c, qsafe (QQt a b c) = true ->
  let Q := qrender (QQt a b c) in
  trim (removelast (removelast (tl (tl Q)))) = join [cSP] (qrender a :: qrender b :: qtoks c) /\
  Forall q0tok (qrender a :: qrender b :: qtoks c).
Proof.
  intros a b c Hs Q. cbn [qsafe] in Hs. apply andb_true_iff in Hs as [Hs Hc]. apply andb_true_iff in Hs as [Hs Hbi].
  apply andb_true_iff in Hs as [Hs Hb]. apply andb_true_iff in Hs as [Ha Has].
  pose proof (single_tok a Ha Has) as Ta.
  assert (Tb : q0tok (qrender b)) by (apply single_tok; [assumption|destruct b; try discriminate; reflexivity]).
  destruct (qtoks_ok c Hc) as [Tc Jc].
  split; [|constructor; [exact Ta|constructor; [exact Tb|exact Tc]]].
  unfold Q. cbn [qrender]. unfold sLTLT, sGTGT. cbn [app tl].
  replace (cSP :: qrender a ++ cSP :: qrender b ++ cSP :: qrender c ++ [cSP; cGT; cGT])
    with (((cSP :: qrender a ++ cSP :: qrender b ++ cSP :: qrender c ++ [cSP]) ++ [cGT]) ++ [cGT])
    by (repeat (rewrite <- app_assoc; cbn [app]); reflexivity).
  rewrite !removelast_snoc.
  destruct (q0_shape _ Ta) as (_ & _ & Hha & _). destruct (q0_shape _ Tb) as (_ & _ & _ & Hlb).
  unfold trim, trim_start, trim_end. cbn [drop_while]. replace (is_ws cSP) with true by reflexivity.
  rewrite drop_while_hd by now apply hd_not_app.
  replace (qrender a ++ cSP :: qrender b ++ cSP :: qrender c ++ [cSP])
    with ((qrender a ++ cSP :: qrender b ++ cSP :: qrender c) ++ [cSP])
    by (repeat (rewrite <- app_assoc; cbn [app]); reflexivity).
  rewrite drop_end_snoc_true by reflexivity.
  rewrite <- Jc. destruct (qtoks c) as [|t1 r] eqn:E.
  - cbn [join]. replace (qrender a ++ cSP :: qrender b ++ [cSP]) with ((qrender a ++ cSP :: qrender b) ++ [cSP])
      by (repeat (rewrite <- app_assoc; cbn [app]); reflexivity).
    rewrite drop_end_snoc_true by reflexivity. cbn [app]. apply drop_end_last.
    replace (qrender a ++ cSP :: qrender b) with ((qrender a ++ [cSP]) ++ qrender b)
      by (repeat (rewrite <- app_assoc; cbn [app]); reflexivity).
    rewrite last_not_app; [assumption|]. destruct (q0_shape _ Tb) as (_ & Hn & _). destruct (qrender b); [discriminate|discriminate].
  - destruct (join_toks_shape (t1 :: r) Tc ltac:(discriminate)) as [_ Hl].
    change (join [cSP] (qrender a :: qrender b :: t1 :: r)) with (qrender a ++ [cSP] ++ qrender b ++ [cSP] ++ join [cSP] (t1 :: r)).
    cbn [app]. apply drop_end_last.
    replace (qrender a ++ cSP :: qrender b ++ cSP :: join [cSP] (t1 :: r))
      with ((qrender a ++ cSP :: qrender b ++ [cSP]) ++ join [cSP] (t1 :: r))
      by (repeat (rewrite <- app_assoc; cbn [app]); reflexivity).
    rewrite last_not_app; [assumption|]. destruct r; cbn; [|destruct t1; discriminate].
    inversion Tc as [|? ? Ht1 _]. destruct (q0_shape _ Ht1) as (_ & Hn & _). destruct t1; discriminate.
Qed.

(* ---- encode_term_star (then decode_any) gives back the rendering; fuel adequacy ------------------------------------------------------- *)
Fixpoint qdepth (t : qterm) : nat :=
  match t with QQt a b c => S (Nat.max (qdepth a) (Nat.max (qdepth b) (qdepth c))) | _ => O end.

Lemma ets_fuel_ok : forall f X, ets_ok X = true -> ets_fuel f X = X.
Proof.
  intros f X H. unfold ets_ok in H. repeat (apply andb_true_iff in H as [H ?]).
  apply str_eqb_eq in H. apply negb_true_iff in H0, H1, H2.
  destruct f; cbn [ets_fuel]; rewrite H, H2; cbn [andb]; now rewrite H1, H0.
Qed.

Lemma words_ets_ok : forall ws, forallb word_ok ws = true -> ets_ok (join [cSP] ws) = true.
Proof.
  intros [|w r] H; [reflexivity|].
  assert (Hf : Forall q0tok (w :: r)).
  { apply Forall_forall. intros x Hx. apply Q0_word. rewrite forallb_forall in H. now apply H. }
  destruct (join_toks_shape (w :: r) Hf ltac:(discriminate)) as [Hh Hl].
  cbn in H. apply andb_true_iff in H as [Hw _]. destruct (word_shape w Hw) as (c & w' & -> & Hc & _).
  destruct (word_char_facts c Hc) as (_ & H1 & _ & H3 & _).
  unfold ets_ok. rewrite (trim_id _ Hh Hl), str_eqb_refl.
  unfold sLTLT. destruct r as [|y r']; cbn [join app]; now rewrite !starts_with_hd_ne.
Qed.

Lemma leaf_ets_ok : forall t, qsafe t = true -> leafb t = true -> ets_ok (qrender t) = true.
Proof.
  intros t H Hl. destruct (qtoks_ok t H) as [_ J]. rewrite <- J. apply words_ets_ok.
  destruct t as [s|s|ws|a b c]; try discriminate; cbn [qsafe qtoks qrender] in *.
  - apply andb_true_iff in H as [H Hn]. cbn. now rewrite iri_word.
  - cbn. now rewrite bnode_word.
  - now apply andb_true_iff in H as [H _].
Qed.

Lemma ets_fuel_qt : forall t, qsafe t = true -> forall f, (qdepth t <= f)%nat -> ets_fuel f (qrender t) = qrender t.
Proof.
  induction t as [s|s|ws|a IHa b IHb c IHc]; intros Hs f Hf.
  1-3: apply ets_fuel_ok; now apply leaf_ets_ok.
  destruct f as [|f]; [cbn in Hf; lia|]. cbn [qdepth] in Hf.
  destruct (qrender_qt_shape a b c) as (Hh & Hl & Hst & Hen).
  destruct (qt_inner a b c Hs) as [Hin Htok]. cbn zeta in Hin.
  destruct (qtoks_ok c) as [_ Jc]; [cbn [qsafe] in Hs; now apply andb_true_iff in Hs as [_ Hs]|].
  cbn [ets_fuel]. rewrite (trim_id _ Hh Hl), Hst, Hen. cbn [andb].
  rewrite Hin, (split_qt_join _ _ _ Htok), Jc.
  cbn [qsafe] in Hs. apply andb_true_iff in Hs as [Hs Hc]. apply andb_true_iff in Hs as [Hs _].
  apply andb_true_iff in Hs as [Hs Hb]. apply andb_true_iff in Hs as [Ha _].
  rewrite IHa, IHb, IHc by (try assumption; lia). reflexivity.
Qed.

Lemma qdepth_le_length : forall t, (qdepth t <= length (qrender t))%nat.
Proof.
  induction t as [s|s|ws|a IHa b IHb c IHc]; cbn [qdepth]; try lia.
  cbn [qrender]. rewrite !app_length. cbn [length sLTLT sGTGT]. lia.
Qed.

(* the value a rendered safe quoted triple is stored (and read back) as is the rendering itself *)
Lemma ets_qt : forall t, qsafe t = true -> ets (qrender t) = qrender t.
Proof. intros t H. unfold ets. apply ets_fuel_qt; [assumption|]. pose proof (qdepth_le_length t). lia. Qed.

(* ---- the class is real: an inner literal with two spaces does not come back ------------------------------------------------------------- *)
Definition qt_bad : str :=    (* << http://a/s http://a/p a  b >> *)
  sLTLT ++ [cSP] ++ [104;116;116;112;58;47;47;97;47;115] ++ [cSP] ++ [104;116;116;112;58;47;47;97;47;112] ++ [cSP] ++ [97; 32; 32; 98] ++ [cSP] ++ sGTGT.
Definition qt_bad_db : list quad := [(qt_bad, [104;116;116;112;58;47;47;97;47;112], [111], None)].

(* ================================================================================================================= *)
(* N-Quads / N-Triples round trip stated on per-quad facts (covers bare terms and quoted triples alike)               *)
Definition graph_ok (q : quad) : Prop :=
  match option_map nq_graph (qd_g q), qd_g q with Some G', Some g' => rterm G' g' | None, None => True | _, _ => False end.
Definition nq_ok (q : quad) : Prop :=
  rterm (nq_subj (qd_s q)) (qd_s q) /\ rterm (angle (qd_p q)) (qd_p q) /\ rterm (nq_obj (qd_o q)) (qd_o q) /\ graph_ok q /\
  ect (qd_s q) = qd_s q /\ ect (qd_p q) = qd_p q /\ ect (qd_o q) = qd_o q.

Lemma nq_load_gen : forall q, nq_ok q -> nq_load_line (nq_core q ++ [cSP; cDOT]) = [q].
Proof.
  intros q (HS & HP & HO & HG & Es & Ep & Eo). unfold graph_ok in HG.
  destruct (line_prefix _ _ _ _ _ _ _ _ HS HP HO HG) as (H1 & H2 & H3 & H4). fold (nq_core q) in *.
  unfold nq_load_line. rewrite H1, H2, H3, H4.
  unfold nq_parse_line, nq_core. rewrite (core_parts _ _ _ _ _ _ _ _ HS HP HO HG).
  rewrite (clean_nt_rterm _ _ HS), (clean_nt_rterm _ _ HP), (clean_nt_rterm _ _ HO).
  destruct q as [[[s p] o] g]. unfold qd_s, qd_p, qd_o, qd_g in *. cbn [fst snd] in *.
  destruct g as [g|]; cbn [option_map] in *.
  - rewrite (clean_nt_rterm _ _ HG). now rewrite Es, Ep, Eo.
  - now rewrite Es, Ep, Eo.
Qed.

Lemma nq_roundtrip_gen : forall db, (forall q, In q db -> nq_ok q) -> load_nq (gen_nq db) = db.
Proof.
  intros db H. unfold load_nq, gen_nq.
  rewrite (flat_map_ext _ (fun q => (nq_core q ++ [cSP; cDOT]) ++ [cLF])) by (intro; apply nq_line_core).
  rewrite lines_flat_map.
  - apply flat_map_id. intros q Hq. now apply nq_load_gen, H.
  - intros q Hq. destruct (H q Hq) as (HS & HP & HO & HG & _). unfold nq_core. now apply (core_no_lf _ _ _ _ _ _ _ _ HS HP HO HG).
Qed.

Definition nt_ok (q : quad) : Prop :=
  rterm (nt_subj (qd_s q)) (qd_s q) /\ rterm (angle (qd_p q)) (qd_p q) /\ rterm (nt_obj (qd_o q)) (qd_o q) /\
  ect (qd_s q) = qd_s q /\ ect (qd_p q) = qd_p q /\ ect (qd_o q) = qd_o q.

Lemma nt_load_gen : forall q, nt_ok q -> is_default q = true -> nt_load_line (nt_core q ++ [cSP; cDOT]) = [q].
Proof.
  intros q (HS & HP & HO & Es & Ep & Eo) Hdef.
  destruct (line_prefix _ _ _ None _ _ _ None HS HP HO I) as (H1 & H2 & H3 & H4). fold (nt_core q) in *.
  unfold nt_load_line. rewrite H1, H2, H3, H4.
  unfold nt_parse_line, nt_core. rewrite (core_parts _ _ _ None _ _ _ None HS HP HO I).
  rewrite (clean_nt_rterm _ _ HS), (clean_nt_rterm _ _ HP), (clean_nt_rterm _ _ HO).
  replace (str_eqb (angle (qd_p q)) [97]) with false by reflexivity.
  rewrite Es, Ep, Eo.
  destruct q as [[[s p] o] g]. unfold is_default, qd_g in Hdef. cbn [snd] in Hdef. destruct g; [discriminate|]. reflexivity.
Qed.

Lemma nt_roundtrip_gen : forall db, (forall q, In q db -> is_default q = true -> nt_ok q) ->
  load_nt (gen_nt db) = default_part db.
Proof.
  intros db H. unfold load_nt, gen_nt.
  rewrite (flat_map_ext _ (fun q => (nt_core q ++ [cSP; cDOT]) ++ [cLF])) by (intro; apply nt_line_core).
  assert (Hin : forall q, In q (default_part db) -> In q db /\ is_default q = true).
  { intros q Hq. unfold default_part in Hq. now apply filter_In in Hq. }
  rewrite lines_flat_map.
  - apply flat_map_id. intros q Hq. destruct (Hin q Hq) as [Hq1 Hq2]. apply nt_load_gen; auto.
  - intros q Hq. destruct (Hin q Hq) as [Hq1 Hq2]. destruct (H q Hq1 Hq2) as (HS & HP & HO & _).
    unfold nt_core. now apply (core_no_lf _ _ _ None (qd_s q) (qd_p q) (qd_o q) None).
Qed.

(* ---- datasets with quoted-triple subjects / objects ------------------------------------------------------------------------------------ *)
Lemma qsafe_qt_inv : forall t, qsafe_qt t = true -> exists a b c, t = QQt a b c /\ qsafe (QQt a b c) = true.
Proof. intros [s|s|ws|a b c] H; try discriminate. now exists a, b, c. Qed.

Lemma qrender_prefix : forall a b c, starts_with sLTLT (qrender (QQt a b c)) = true.
Proof. reflexivity. Qed.

Lemma tsubj_facts : forall s, wf_tsubj s = true -> dd_term (term_str s) = false ->
  rterm (nq_subj (term_str s)) (term_str s) /\ rterm (nt_subj (term_str s)) (term_str s) /\ ets (term_str s) = term_str s.
Proof.
  intros [v|t] H Hd; cbn [wf_tsubj term_str] in *.
  - split; [now apply nq_subj_rterm|split; [now apply nt_subj_rterm|now apply ets_subj]].
  - destruct (qsafe_qt_inv t H) as (a & b & c & -> & Hs).
    unfold nq_subj, nt_subj. rewrite qrender_prefix. cbn [orb].
    split; [now apply RT_qt|split; [now apply RT_qt|now apply ets_qt]].
Qed.

Lemma tobj_facts : forall o, wf_tobj o = true -> dd_term (term_str o) = false ->
  rterm (nq_obj (term_str o)) (term_str o) /\ rterm (nt_obj (term_str o)) (term_str o) /\ ets (term_str o) = term_str o.
Proof.
  intros [v|t] H Hd; cbn [wf_tobj term_str] in *.
  - split; [now apply nq_obj_rterm|split; [now apply nt_obj_rterm|now apply ets_obj]].
  - destruct (qsafe_qt_inv t H) as (a & b & c & -> & Hs).
    unfold nq_obj, nt_obj. rewrite qrender_prefix. cbn [orb].
    split; [now apply RT_qt|split; [now apply RT_qt|now apply ets_qt]].
Qed.

Lemma ect_qt : forall a b c, qsafe (QQt a b c) = true -> ect (qrender (QQt a b c)) = qrender (QQt a b c).
Proof.
  intros a b c H. unfold ect. destruct (qrender_qt_shape a b c) as (_ & _ & H1 & H2). rewrite H1, H2. now apply ets_qt.
Qed.

Lemma tsubj_line : forall s, wf_tsubj s = true ->
  rterm (nq_subj (term_str s)) (term_str s) /\ rterm (nt_subj (term_str s)) (term_str s) /\ ect (term_str s) = term_str s.
Proof.
  intros [v|t] H; cbn [wf_tsubj term_str] in *.
  - split; [now apply nq_subj_rterm|split; [now apply nt_subj_rterm|]]. apply ect_plain. now destruct (wf_subj_not_qt _ H).
  - destruct (qsafe_qt_inv t H) as (a & b & c & -> & Hs).
    unfold nq_subj, nt_subj. rewrite qrender_prefix. cbn [orb].
    split; [now apply RT_qt|split; [now apply RT_qt|now apply ect_qt]].
Qed.

Lemma tobj_line : forall o, wf_tobj o = true ->
  rterm (nq_obj (term_str o)) (term_str o) /\ rterm (nt_obj (term_str o)) (term_str o) /\ ect (term_str o) = term_str o.
Proof.
  intros [v|t] H; cbn [wf_tobj term_str] in *.
  - split; [now apply nq_obj_rterm|split; [now apply nt_obj_rterm|]]. apply ect_plain. now apply wf_obj_not_qt.
  - destruct (qsafe_qt_inv t H) as (a & b & c & -> & Hs).
    unfold nq_obj, nt_obj. rewrite qrender_prefix. cbn [orb].
    split; [now apply RT_qt|split; [now apply RT_qt|now apply ect_qt]].
Qed.

Lemma tquad_ok : forall q, wf_tquad q = true -> nq_ok (tq_den q) /\ nt_ok (tq_den q).
Proof.
  intros [[[s p] o] g] Hwf. cbn [wf_tquad tq_den] in *.
  apply andb_true_iff in Hwf as [Hwf Hwg]. apply andb_true_iff in Hwf as [Hwf Hwo]. apply andb_true_iff in Hwf as [Hws Hwp].
  destruct (tsubj_line s Hws) as (S1 & S2 & S3). destruct (tobj_line o Hwo) as (O1 & O2 & O3).
  pose proof (RT_angle _ (wf_iri_chars _ Hwp)) as HP.
  assert (Ep : ect p = p) by (apply ect_plain; now apply iri_prefix).
  unfold nq_ok, nt_ok, graph_ok, qd_s, qd_p, qd_o, qd_g. cbn [fst snd].
  repeat split; try assumption.
  destruct g as [g|]; cbn [option_map]; [|exact I]. now apply nq_graph_rterm.
Qed.

Lemma tdb_ok : forall db, wf_tdb db = true -> forall q, In q (tden db) -> nq_ok q /\ nt_ok q.
Proof.
  intros db Hwf q Hq. unfold tden in Hq. apply in_map_iff in Hq as (tq & <- & Hin).
  unfold wf_tdb in Hwf. rewrite forallb_forall in Hwf. apply tquad_ok. now apply Hwf.
Qed.

Lemma nq_roundtrip_quoted : forall db, wf_tdb db = true -> same_set (load_nq (gen_nq (tden db))) (tden db).
Proof. intros db H1 q. rewrite nq_roundtrip_gen; [reflexivity|]. intros q' Hq'. now apply (tdb_ok db H1). Qed.

Lemma nt_roundtrip_quoted : forall db, wf_tdb db = true ->
  same_set (load_nt (gen_nt (tden db))) (default_part (tden db)).
Proof. intros db H1 q. rewrite nt_roundtrip_gen; [reflexivity|]. intros q' Hq' _. now apply (tdb_ok db H1). Qed.

(* the class C14-quoted-triple-bare-components is real: an inner literal with two spaces comes back with one *)
Lemma qt_bad_refuted :
  ~ same_set (load_nq (gen_nq qt_bad_db)) qt_bad_db /\ ~ same_set (load_nt (gen_nt qt_bad_db)) (default_part qt_bad_db).
Proof.
  split; intro H; apply same_set_subsetb in H; vm_compute in H; discriminate.
Qed.
