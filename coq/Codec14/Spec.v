(* C14 - what the property talks about: the dataset as a SET of lexical quads, the datasets the property
   quantifies over (well-formedness, `kind_guess_stable`), and the narrow known classes. Executable. *)
Require Import List NArith Bool.
Import ListNotations.
Require Export KV.Codec14.Model KV.Codec14.Turtle.
Open Scope N_scope.

(* ---- denotation: a list of quads read as a set --------------------------------------------------- *)
Definition same_set (a b : list quad) : Prop := forall q, In q a <-> In q b.

Definition ostr_eqb (a b : option str) : bool :=
  match a, b with
  | None, None => true
  | Some x, Some y => str_eqb x y
  | _, _ => false
  end.
Definition quad_eqb (a b : quad) : bool :=
  str_eqb (qd_s a) (qd_s b) && str_eqb (qd_p a) (qd_p b) && str_eqb (qd_o a) (qd_o b) && ostr_eqb (qd_g a) (qd_g b).
Definition subsetb (a b : list quad) : bool := forallb (fun q => existsb (quad_eqb q) b) a.
Definition same_setb (a b : list quad) : bool := subsetb a b && subsetb b a.

(* ---- the datasets the property quantifies over ------------------------------------------------------- *)
(* IRIREF of the N-Triples grammar: no control characters or space, none of < > { } | ^ ` \ and the double quote *)
Definition iri_char (c : N) : bool :=
  (32 <? c) && negb ((c =? cLT) || (c =? cGT) || (c =? cDQ) || (c =? cLBRACE) || (c =? cRBRACE) || (c =? cBAR)
                     || (c =? cCARET) || (c =? 96) || (c =? cBS)).
(* "syntactically valid IRI": absolute (has a scheme) and made of IRIREF characters *)
Definition wf_iri (s : str) : bool := looks_like_absolute_iri s && forallb iri_char s.
(* blank node "_:label", label a non-empty string over [A-Za-z0-9_.-] *)
Definition bn_char (c : N) : bool := is_ascii_alnum c || (c =? cUS) || (c =? cMINUS) || (c =? cDOT).
Definition wf_bnode (s : str) : bool :=
  match s with
  | a :: b :: c :: r => (a =? cUS) && (b =? cCOLON) && forallb bn_char (c :: r)
  | _ => false
  end.
(* the property's side condition on a literal value: it cannot be mistaken for a quoted triple, a blank node,
   an IRI (by the exporter's `looks_like_absolute_iri`, or by the importer's <...> test) *)
Definition kind_guess_stable (v : str) : bool :=
  negb (starts_with sLTLT v) && negb (starts_with sBN v) && negb (looks_like_absolute_iri v)
  && negb (starts_with [cLT] v && ends_with [cGT] v).

Definition wf_subj (s : str) : bool := wf_iri s || wf_bnode s.
Definition wf_obj (o : str) : bool := wf_iri o || wf_bnode o || kind_guess_stable o.
Definition wf_graph (g : option str) : bool := match g with None => true | Some g => wf_iri g || wf_bnode g end.
(* quoted-triple terms are NOT covered by wf_quad (no component starts with "<<") *)
Definition wf_quad (q : quad) : bool := wf_subj (qd_s q) && wf_iri (qd_p q) && wf_obj (qd_o q) && wf_graph (qd_g q).
Definition wf_db (db : list quad) : bool := forallb wf_quad db.

(* ---- known classes (each names one mechanism) -------------------------------------------------------- *)
(* C14-double-decoding: the importers decode a term to its value and then run the value through
   encode_term_star, which trims it and strips / decodes a leading quote again *)
Definition dd_term (v : str) : bool := starts_with [cDQ] v || negb (str_eqb (trim v) v).
Definition known_dd_quad (q : quad) : bool := dd_term (qd_s q) || dd_term (qd_p q) || dd_term (qd_o q).
Definition known_dd (db : list quad) : bool := existsb known_dd_quad db.

(* Turtle: the decoded value goes through resolve_query_term, which strips the quotes of a value that both
   starts and ends with a quote *)
Definition dd_ttl_term (v : str) : bool := starts_with [cDQ] v && ends_with [cDQ] v.
Definition known_dd_ttl (db : list quad) : bool := existsb (fun q => is_default q && dd_ttl_term (qd_o q)) db.
Definition known_ttl (db : list quad) : bool := known_dd_ttl db.

(* ---- quoted-triple terms ------------------------------------------------------------------------------------ *)
(* The stored dataset only shows a quoted triple through decode_any, i.e. as the string "<< s p o >>" of BARE
   components.  A term tree and its rendering; `qsafe` is the class of quoted triples whose bare rendering is
   unambiguous (the class checks/c14.py calls qt_safe): components are IRIs without whitespace characters, blank
   nodes, nested safe quoted triples, or - in object position - literals that are single-spaced words (see word_ok). *)
Inductive qterm := QIri (s : str) | QBn (s : str) | QLit (ws : list str) | QQt (a b c : qterm).
Fixpoint qrender (t : qterm) : str :=
  match t with
  | QIri s => s
  | QBn s => s
  | QLit ws => join [cSP] ws
  | QQt a b c => sLTLT ++ [cSP] ++ qrender a ++ [cSP] ++ qrender b ++ [cSP] ++ qrender c ++ [cSP] ++ sGTGT
  end.
(* a word: no separator of split_quoted_triple_content (space, TAB, LF, CR), no quote, angle bracket or backslash;
   other white-space characters (U+00A0, U+3000, U+2028 ...) may occur INSIDE a word but not at its ends (every part
   is trimmed) *)
Definition sep_char (c : N) : bool := (c =? cSP) || (c =? cTAB) || (c =? cLF) || (c =? cCR).
Definition word_char (c : N) : bool :=
  negb (sep_char c) && negb ((c =? cLT) || (c =? cGT) || (c =? cDQ) || (c =? cBS)).
Definition hd_nows (w : str) : bool := match w with c :: _ => negb (is_ws c) | [] => false end.
Fixpoint last_nows (w : str) : bool :=
  match w with
  | [] => false
  | [d] => negb (is_ws d)
  | _ :: r => last_nows r
  end.
Definition word_ok (w : str) : bool := hd_nows w && last_nows w && forallb word_char w.
Definition no_ws (s : str) : bool := forallb (fun c => negb (is_ws c)) s.
Definition q_is_subj (t : qterm) : bool := match t with QLit _ => false | _ => true end.
Definition q_is_iri (t : qterm) : bool := match t with QIri _ => true | _ => false end.
Fixpoint qsafe (t : qterm) : bool :=
  match t with
  | QIri s => wf_iri s && no_ws s
  | QBn s => wf_bnode s
  | QLit ws => forallb word_ok ws && kind_guess_stable (join [cSP] ws)
  | QQt a b c => qsafe a && q_is_subj a && qsafe b && q_is_iri b && qsafe c
  end.
Definition qsafe_qt (t : qterm) : bool := match t with QQt _ _ _ => qsafe t | _ => false end.

(* a subject / object of a quad: a bare term (IRI, blank node, literal) or a quoted triple *)
Inductive term := Bare (v : str) | Quoted (t : qterm).
Definition term_str (t : term) : str := match t with Bare v => v | Quoted q => qrender q end.
Definition is_quoted (t : term) : bool := match t with Quoted _ => true | Bare _ => false end.
Definition tquad := (term * str * term * option str)%type.
Definition tq_den (q : tquad) : quad :=
  match q with (s, p, o, g) => (term_str s, p, term_str o, g) end.
Definition tden (db : list tquad) : list quad := map tq_den db.      (* what decode_any shows of the dataset *)
Definition wf_tsubj (t : term) : bool := match t with Bare v => wf_subj v | Quoted q => qsafe_qt q end.
Definition wf_tobj (t : term) : bool := match t with Bare v => wf_obj v | Quoted q => qsafe_qt q end.
Definition wf_tquad (q : tquad) : bool :=
  match q with (s, p, o, g) => wf_tsubj s && wf_iri p && wf_tobj o && wf_graph g end.
Definition wf_tdb (db : list tquad) : bool := forallb wf_tquad db.

(* Turtle with quoted triples: a statement whose subject or object is a quoted triple is encoded through
   encode_term_star (the N-Quads double-decoding class applies to it), and a quoted-triple OBJECT is searched for
   the annotation marker "{|" (its components are written bare) *)
Definition known_ttl_q_quad (q : tquad) : bool :=
  match q with (s, p, o, g) =>
    match g with
    | Some _ => false
    | None => (negb (is_quoted o) && dd_ttl_term (term_str o))
              || ((is_quoted s || is_quoted o) && known_dd_quad (tq_den q))
              || (is_quoted o && contains sANN_OPEN (term_str o))
    end
  end.
Definition known_ttl_q (db : list tquad) : bool := existsb known_ttl_q_quad db.
