(* C14 - what the property talks about: the dataset as a SET of lexical quads, the datasets the property
   quantifies over (well-formedness, `kind_guess_stable`), and the narrow known classes. Executable. *)
Require Import List NArith Bool.
Import ListNotations.
Require Export KV.Codec14.Model KV.Codec14.Turtle.
Open Scope N_scope.

(* ---- denotation: a list of quads read as a set --------------------------------------------------- *)
Definition same_set (a b : list quad) : Prop := forall q, In q a <-> In q b.

Definition ostr_eqb (a b : option str) : bool :=
  match a, b with
  | None, None => true
  | Some x, Some y => str_eqb x y
  | _, _ => false
  end.
Definition quad_eqb (a b : quad) : bool :=
  str_eqb (qd_s a) (qd_s b) && str_eqb (qd_p a) (qd_p b) && str_eqb (qd_o a) (qd_o b) && ostr_eqb (qd_g a) (qd_g b).
Definition subsetb (a b : list quad) : bool := forallb (fun q => existsb (quad_eqb q) b) a.
Definition same_setb (a b : list quad) : bool := subsetb a b && subsetb b a.

(* ---- the datasets the property quantifies over ------------------------------------------------------- *)
(* IRIREF of the N-Triples grammar: no control characters or space, none of < > { } | ^ ` \ and the double quote *)
Definition iri_char (c : N) : bool :=
  (32 <? c) && negb ((c =? cLT) || (c =? cGT) || (c =? cDQ) || (c =? cLBRACE) || (c =? cRBRACE) || (c =? cBAR)
                     || (c =? cCARET) || (c =? 96) || (c =? cBS)).
(* "syntactically valid IRI": absolute (has a scheme) and made of IRIREF characters *)
Definition wf_iri (s : str) : bool := looks_like_absolute_iri s && forallb iri_char s.
(* blank node "_:label", label a non-empty string over [A-Za-z0-9_.-] *)
Definition bn_char (c : N) : bool := is_ascii_alnum c || (c =? cUS) || (c =? cMINUS) || (c =? cDOT).
Definition wf_bnode (s : str) : bool :=
  match s with
  | a :: b :: c :: r => (a =? cUS) && (b =? cCOLON) && forallb bn_char (c :: r)
  | _ => false
  end.
(* the property's side condition on a literal value: it cannot be mistaken for a quoted triple, a blank node,
   an IRI (by the exporter's `looks_like_absolute_iri`, or by the importer's <...> test) *)
Definition kind_guess_stable (v : str) : bool :=
  negb (starts_with sLTLT v) && negb (starts_with sBN v) && negb (looks_like_absolute_iri v)
  && negb (starts_with [cLT] v && ends_with [cGT] v).

Definition wf_subj (s : str) : bool := wf_iri s || wf_bnode s.
Definition wf_obj (o : str) : bool := wf_iri o || wf_bnode o || kind_guess_stable o.
Definition wf_graph (g : option str) : bool := match g with None => true | Some g => wf_iri g || wf_bnode g end.
(* quoted-triple terms are NOT covered by wf_quad (no component starts with "<<") *)
Definition wf_quad (q : quad) : bool := wf_subj (qd_s q) && wf_iri (qd_p q) && wf_obj (qd_o q) && wf_graph (qd_g q).
Definition wf_db (db : list quad) : bool := forallb wf_quad db.

(* ---- known classes (each names one mechanism) -------------------------------------------------------- *)
(* C14-double-decoding: the importers decode a term to its value and then run the value through
   encode_term_star, which trims it and strips / decodes a leading quote again *)
Definition dd_term (v : str) : bool := starts_with [cDQ] v || negb (str_eqb (trim v) v).
Definition known_dd_quad (q : quad) : bool := dd_term (qd_s q) || dd_term (qd_p q) || dd_term (qd_o q).
Definition known_dd (db : list quad) : bool := existsb known_dd_quad db.

(* Turtle: the decoded value goes through resolve_query_term, which strips the quotes of a value that both
   starts and ends with a quote *)
Definition dd_ttl_term (v : str) : bool := starts_with [cDQ] v && ends_with [cDQ] v.
Definition known_dd_ttl (db : list quad) : bool := existsb (fun q => is_default q && dd_ttl_term (qd_o q)) db.
Definition known_ttl (db : list quad) : bool := known_dd_ttl db.
