(* C14 - Exported data re-imports to the same dataset.
   Only the property theorems; each is closed by `exact <lemma>` and followed by Print Assumptions.
   Model: Model.v / Turtle.v (the codecs of kolibrie/src/sparql_database.rs at commits 74abf0c, 5932e73, e7e251c, dbe5296);
   Spec: Spec.v (a dataset is the SET of its lexical quads; well-formedness = the property's quantifier).

   Scope of the round-trip theorems: (3)-(4b) datasets whose terms are IRIs, blank nodes and literals (`wf_db`);
   (6) datasets whose subjects / objects may also be quoted triples of the safe class `qsafe` (`wf_tdb`): components are
   IRIs without whitespace characters, blank nodes, nested safe quoted triples, or - as object - literals that are
   single-spaced words free of whitespace characters, double quotes, angle brackets and backslashes.  Quoted triples
   outside that class are the open finding C14-quoted-triple-bare-components ((7): refuted on the model). *)
Require Import List NArith Bool.
Import ListNotations.
Require Import KV.Codec14.Model KV.Codec14.Turtle KV.Codec14.Spec.
Require Import KV.Codec14.LitProofs KV.Codec14.TokProofs KV.Codec14.NqProofs KV.Codec14.NtProofs KV.Codec14.QtProofs KV.Codec14.TtlProofs.
Open Scope N_scope.

(* (1) decoding an escaped literal gives back the value and the text after the closing quote, for EVERY list
   of code points (quotes, backslashes, line breaks, any Unicode, the empty string) *)
Theorem C14_escape_decode :
  forall (s rest : str), decode (cDQ :: escape s ++ cDQ :: rest) = Some (s, rest).
Proof. exact escape_decode. Qed.
Print Assumptions C14_escape_decode.

(* (2) the line tokenizer returns exactly the four (three) rendered terms of a rendered N-Quads line *)
Theorem C14_tokenize_rendered_line :
  forall q : quad, wf_quad q = true ->
    parts (nq_subj (qd_s q) ++ cSP :: angle (qd_p q) ++ cSP :: nq_obj (qd_o q) ++
           match qd_g q with Some g => cSP :: nq_graph g | None => [] end)
    = nq_subj (qd_s q) :: angle (qd_p q) :: nq_obj (qd_o q) :: match qd_g q with Some g => [nq_graph g] | None => [] end.
Proof.
  intros q H. destruct (wf_quad_rterms q H) as (HS & HP & HO & HG).
  generalize (core_parts _ _ _ _ _ _ _ _ HS HP HO HG). unfold core, gpart.
  destruct (qd_g q); exact (fun e => e).
Qed.
Print Assumptions C14_tokenize_rendered_line.

(* (3) N-Quads, all graphs: the exported text of EVERY well-formed database loads back to the same set of quads (in
   fact to the same list).  No known class is left since commit 16f77b9 (the loader interns a cleaned term verbatim). *)
Theorem C14_nquads :
  forall db : list quad, wf_db db = true -> same_set (load_nq (gen_nq db)) db.
Proof. exact nq_roundtrip. Qed.
Print Assumptions C14_nquads.

(* (4a) N-Triples, default graph *)
Theorem C14_ntriples :
  forall db : list quad, wf_db db = true -> same_set (load_nt (gen_nt db)) (default_part db).
Proof. exact nt_roundtrip. Qed.
Print Assumptions C14_ntriples.

(* (4b) Turtle, default graph, for a database with an empty prefix map: outside the Turtle double-decoding class
   (a default-graph object value that both starts and ends with a double quote) the exported text loads without
   error and gives back the same set of triples.  Literals containing the annotation markers {| |} are ordinary
   literals since commit e7e251c. *)
Theorem C14_turtle :
  forall db : list quad, wf_db db = true -> known_dd_ttl db = false ->
    exists l, load_ttl (gen_ttl db) = TOk l /\ same_set l (default_part db).
Proof. exact ttl_roundtrip. Qed.
Print Assumptions C14_turtle.

(* (5) double decoding.  Regression for the N-Quads / N-Triples half (repaired by 16f77b9): the pre-fix loader
   (`load_nq_old`: the decoded value goes through encode_term_star again) loses the one-character literal consisting of
   a double quote, the repaired loaders keep it.  The Turtle half is still open (the Turtle path is unchanged): the
   same literal is read back as the empty string. *)
Theorem C14_double_decoding_regression :
  wf_db dd_witness = true /\ known_dd dd_witness = true /\
  ~ same_set (load_nq_old (gen_nq dd_witness)) dd_witness /\ load_nq (gen_nq dd_witness) = dd_witness /\
  load_nt (gen_nt dd_witness) = dd_witness.
Proof. exact dd_regression_nq. Qed.
Print Assumptions C14_double_decoding_regression.

Theorem C14_double_decoding_refuted_turtle :
  exists db, wf_db db = true /\ known_dd_ttl db = true /\
    ~ exists l, load_ttl (gen_ttl db) = TOk l /\ same_set l (default_part db).
Proof. exists dd_witness. exact ttl_dd_refuted. Qed.
Print Assumptions C14_double_decoding_refuted_turtle.

(* regression for the repaired annotation defect (e7e251c): searching the whole written literal "a {| b c |} d" (the
   pre-fix behaviour) finds an annotation block; the repaired search (after the literal) finds none, also for "{|}" *)
Theorem C14_annotation_regression :
  (exists pre post content rest, find_sub sANN_OPEN annot_lit = Some (pre, post) /\ find_sub sANN_CLOSE post = Some (content, rest)) /\
  find_sub sANN_OPEN (ann_searched annot_lit) = None /\
  find_sub sANN_OPEN (ann_searched (quoted [123; 124; 125])) = None.
Proof. exact annot_regression. Qed.
Print Assumptions C14_annotation_regression.

(* (6) quoted-triple terms of the safe class.  `tden db` is what decode_any shows of a database whose subjects and
   objects are bare terms or quoted triples (rendered "<< s p o >>" with bare components). *)

(* fuel adequacy: encode_term_star (then decode_any) on the rendering of a safe term gives the rendering back; the
   recursion fuel `S (length term)` used by `ets` is always enough *)
Theorem C14_ets_quoted : forall t : qterm, qsafe t = true -> ets (qrender t) = qrender t.
Proof. exact ets_qt. Qed.
Print Assumptions C14_ets_quoted.

Theorem C14_nquads_quoted :
  forall db : list tquad, wf_tdb db = true -> same_set (load_nq (gen_nq (tden db))) (tden db).
Proof. exact nq_roundtrip_quoted. Qed.
Print Assumptions C14_nquads_quoted.

Theorem C14_ntriples_quoted :
  forall db : list tquad, wf_tdb db = true -> same_set (load_nt (gen_nt (tden db))) (default_part (tden db)).
Proof. exact nt_roundtrip_quoted. Qed.
Print Assumptions C14_ntriples_quoted.

(* Turtle: a statement with a quoted-triple subject or object is stored through encode_term_star (so the former N-Quads
   double-decoding class applies to that statement), and a quoted-triple OBJECT must not contain the annotation
   marker "{|" (its components are written bare, outside any literal); both are part of `known_ttl_q` *)
Theorem C14_turtle_quoted :
  forall db : list tquad, wf_tdb db = true -> known_ttl_q db = false ->
    exists l, load_ttl (gen_ttl (tden db)) = TOk l /\ same_set l (default_part (tden db)).
Proof. exact ttl_roundtrip_quoted. Qed.
Print Assumptions C14_turtle_quoted.

(* (7) the open finding C14-quoted-triple-bare-components on the model: the quoted triple whose object literal is
   `a  b` (two spaces) does not come back (it is read back with one space), N-Quads and N-Triples *)
Theorem C14_quoted_bare_components_refuted :
  exists db, ~ same_set (load_nq (gen_nq db)) db /\ ~ same_set (load_nt (gen_nt db)) (default_part db).
Proof. exists qt_bad_db. exact qt_bad_refuted. Qed.
Print Assumptions C14_quoted_bare_components_refuted.

(* non-vacuity: a well-formed database outside the known classes with every kind of term and the characters the
   property names (quote, backslash, line break, non-BMP, empty string), and its round trips *)
Definition ex_s : str := [104;116;116;112;58;47;47;97;47;115].            (* http://a/s *)
Definition ex_p : str := [104;116;116;112;58;47;47;97;47;112].            (* http://a/p *)
Definition ex_db : list quad :=
  [ (ex_s, ex_p, [104;101;32;115;97;105;100;32;34;104;105;34;92;32;10;32;101;110;100], None);   (* he said "hi"\ LF end *)
    (ex_s, ex_p, [], Some [95;58;103]);                                                          (* empty literal, graph _:g *)
    ([95;58;98], ex_p, [117;114;110;58;120;58;121], Some ex_s);                                  (* _:b  urn:x:y *)
    (ex_s, ex_p, [128512; 233; 46; 59; 44; 35; 60; 120; 62; 94; 64], None) ].
Example C14_example_wf : wf_db ex_db = true /\ known_dd_ttl ex_db = false.
Proof. split; vm_compute; reflexivity. Qed.
Example C14_example_nq : load_nq (gen_nq ex_db) = ex_db.
Proof. vm_compute. reflexivity. Qed.
Example C14_example_nt : load_nt (gen_nt ex_db) = default_part ex_db.
Proof. vm_compute. reflexivity. Qed.
(* values of the former double-decoding class: a quote, outer whitespace, a leading quote *)
Definition ex_dd_db : list quad := [ (ex_s, ex_p, [34], None); (ex_s, ex_p, [32; 120; 32], Some ex_s); (ex_s, ex_p, [34; 97; 98; 99], None) ].
Example C14_example_dd : wf_db ex_dd_db = true /\ known_dd ex_dd_db = true /\
  load_nq (gen_nq ex_dd_db) = ex_dd_db /\ load_nt (gen_nt ex_dd_db) = default_part ex_dd_db.
Proof. repeat split; vm_compute; reflexivity. Qed.
Example C14_example_ttl : known_dd_ttl ex_db = false /\ ttl_same (load_ttl (gen_ttl ex_db)) (default_part ex_db) = true.
Proof. split; vm_compute; reflexivity. Qed.
(* literals containing the annotation markers round-trip in Turtle *)
Definition ex_annot_db : list quad :=
  [ (ex_s, ex_p, [123; 124; 125], None); (ex_s, ex_p, [97; 32; 123; 124; 32; 98; 32; 99; 32; 124; 125; 32; 100], None) ].
Example C14_example_ttl_annot :
  wf_db ex_annot_db = true /\ known_dd_ttl ex_annot_db = false /\ ttl_same (load_ttl (gen_ttl ex_annot_db)) ex_annot_db = true.
Proof. repeat split; vm_compute; reflexivity. Qed.
(* Turtle grouping: one subject with two predicates (" ; ") and two objects (" , "), a second subject *)
Definition ex_p2 : str := [117;114;110;58;112;50].                         (* urn:p2 *)
Definition ex_ttl_db : list quad :=
  [ (ex_s, ex_p2, [111;50], None); (ex_s, ex_p, [111;49], None); (ex_s, ex_p2, [34;113], None); ([95;58;98], ex_p, ex_s, None) ].
Example C14_example_ttl_text :
  wf_db ex_ttl_db = true /\ known_dd_ttl ex_ttl_db = false /\
  gen_ttl ex_ttl_db =
    [60;95;58;98;62;32;60;104;116;116;112;58;47;47;97;47;112;62;32;60;104;116;116;112;58;47;47;97;47;115;62;32;46;10] ++
    [60;104;116;116;112;58;47;47;97;47;115;62;32;60;104;116;116;112;58;47;47;97;47;112;62;32;34;111;49;34;32;59;32;
     60;117;114;110;58;112;50;62;32;34;111;50;34;32;44;32;34;92;34;113;34;32;46;10] /\
  ttl_same (load_ttl (gen_ttl ex_ttl_db)) ex_ttl_db = true.
Proof. repeat split; vm_compute; reflexivity. Qed.

(* quoted triples: nested subject and object, blank node, plain multi-word and empty inner literals, named graph *)
Definition ex_q1 : qterm := QQt (QBn [95;58;98]) (QIri ex_p) (QLit [[116;119;111]; [119;111;114;100;115]]).     (* << _:b p two words >> *)
Definition ex_q2 : qterm := QQt ex_q1 (QIri ex_p) (QQt (QIri ex_s) (QIri ex_p) (QLit [])).                        (* nested, empty literal *)
Definition ex_tdb : list tquad :=
  [ (Quoted ex_q1, ex_p, Quoted ex_q2, None); (Bare ex_s, ex_p, Quoted ex_q1, Some [95;58;103]);
    (Quoted ex_q2, ex_p, Bare [113;32;123;124], None) ;  (Bare ex_s, ex_p2, Quoted ex_q1, None) ].
Example C14_example_quoted :
  wf_tdb ex_tdb = true /\ known_ttl_q ex_tdb = false /\
  load_nq (gen_nq (tden ex_tdb)) = tden ex_tdb /\ load_nt (gen_nt (tden ex_tdb)) = default_part (tden ex_tdb) /\
  ttl_same (load_ttl (gen_ttl (tden ex_tdb))) (default_part (tden ex_tdb)) = true.
Proof. repeat split; vm_compute; reflexivity. Qed.

(* a quoted triple whose literal component has white-space characters other than space/TAB/LF/CR INSIDE its words
   (U+3000 ideographic space, U+00A0 no-break space, U+2028): part of the safe class, round-trips *)
Definition ex_q3 : qterm := QQt (QIri ex_s) (QIri ex_p) (QLit [[20840; 12288; 35282]; [112; 160; 102; 8232; 120]]).
Definition ex_tdb3 : list tquad := [ (Quoted ex_q3, ex_p, Bare [111], None); (Bare ex_s, ex_p, Quoted ex_q3, Some ex_s) ].
Example C14_example_quoted_unicode_space :
  wf_tdb ex_tdb3 = true /\ known_ttl_q ex_tdb3 = false /\
  load_nq (gen_nq (tden ex_tdb3)) = tden ex_tdb3 /\ load_nt (gen_nt (tden ex_tdb3)) = default_part (tden ex_tdb3) /\
  ttl_same (load_ttl (gen_ttl (tden ex_tdb3))) (default_part (tden ex_tdb3)) = true.
Proof. repeat split; vm_compute; reflexivity. Qed.
