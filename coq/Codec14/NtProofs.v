(* C14 - N-Triples round trip (default graph) and the witnesses of the double-decoding class. *)
Require Import List NArith Bool Lia ZifyBool ZifyN.
Import ListNotations.
Require Import KV.Codec14.Model KV.Codec14.Turtle KV.Codec14.Spec KV.Codec14.StrProofs KV.Codec14.LitProofs
               KV.Codec14.TokProofs KV.Codec14.NqProofs.
Open Scope N_scope.

Arguments trim : simpl never.
Arguments escape : simpl never.

(* ---- N-Triples (default graph) ----------------------------------------------------------------------------------------------------- *)
Lemma bn_char_iri_char : forall c, bn_char c = true -> iri_char c = true.
Proof.
  intros c H. unfold bn_char, is_ascii_alnum, is_ascii_alpha, is_ascii_digit, cUS, cMINUS, cDOT in H.
  unfold iri_char, cLT, cGT, cDQ, cLBRACE, cRBRACE, cBAR, cCARET, cBS. lia.
Qed.

Lemma bnode_iri_chars : forall s, wf_bnode s = true -> forallb iri_char s = true.
Proof.
  intros s H. destruct (wf_bnode_shape s H) as (c & r & -> & Hb).
  change (forallb iri_char (cUS :: cCOLON :: c :: r)) with (forallb iri_char (c :: r)).
  apply forallb_forall. intros x Hx. rewrite forallb_forall in Hb. now apply bn_char_iri_char, Hb.
Qed.

Lemma wf_subj_not_qt : forall s, wf_subj s = true -> starts_with sLTLT s = false /\ forallb iri_char s = true.
Proof.
  intros s H. unfold wf_subj in H. apply orb_true_iff in H as [H|H].
  - split; [now apply iri_prefix|now apply wf_iri_chars].
  - split; [now apply bnode_prefix|now apply bnode_iri_chars].
Qed.

Lemma nt_subj_rterm : forall s, wf_subj s = true -> rterm (nt_subj s) s.
Proof. intros s H. destruct (wf_subj_not_qt s H) as [H1 H2]. unfold nt_subj. rewrite H1. now apply RT_angle. Qed.

Lemma nt_obj_rterm : forall o, wf_obj o = true -> rterm (nt_obj o) o.
Proof.
  intros o H. unfold nt_obj.
  assert (Hq : starts_with sLTLT o = false).
  { unfold wf_obj in H. apply orb_true_iff in H as [H|H].
    - apply orb_true_iff in H as [H|H]; [now apply iri_prefix|now apply bnode_prefix].
    - unfold kind_guess_stable in H. repeat (apply andb_true_iff in H as [H _]). now apply negb_true_iff in H. }
  rewrite Hq. destruct (starts_with sHTTP o || starts_with sHTTPS o) eqn:Hh; [|apply RT_lit].
  apply RT_angle. pose proof (http_is_abs o Hh) as Habs.
  unfold wf_obj in H. apply orb_true_iff in H as [H|H].
  - apply orb_true_iff in H as [H|H]; [now apply wf_iri_chars|now apply bnode_iri_chars].
  - unfold kind_guess_stable in H. apply andb_true_iff in H as [H _]. apply andb_true_iff in H as [_ H].
    rewrite Habs in H. discriminate.
Qed.

Definition nt_core (q : quad) : str := core (nt_subj (qd_s q)) (angle (qd_p q)) (nt_obj (qd_o q)) None.

Lemma nt_line_core : forall q, nt_line q = (nt_core q ++ [cSP; cDOT]) ++ [cLF].
Proof.
  intros [[[s p] o] g]. unfold nt_line, nt_core, core, gpart, sEND, qd_s, qd_p, qd_o. cbn [fst snd].
  cbn [app]. repeat (rewrite <- app_assoc; cbn [app]). reflexivity.
Qed.

Lemma nt_load_rendered : forall q, wf_quad q = true -> is_default q = true -> known_dd_quad q = false ->
  nt_load_line (nt_core q ++ [cSP; cDOT]) = [q].
Proof.
  intros q Hwf Hdef Hdd.
  unfold known_dd_quad in Hdd. apply orb_false_iff in Hdd as [Hdd Hdo]. apply orb_false_iff in Hdd as [Hds Hdp].
  unfold wf_quad in Hwf. apply andb_true_iff in Hwf as [Hwf Hwg]. apply andb_true_iff in Hwf as [Hwf Hwo].
  apply andb_true_iff in Hwf as [Hws Hwp].
  pose proof (nt_subj_rterm _ Hws) as HS. pose proof (RT_angle _ (wf_iri_chars _ Hwp)) as HP.
  pose proof (nt_obj_rterm _ Hwo) as HO.
  destruct (line_prefix _ _ _ None _ _ _ None HS HP HO I) as (H1 & H2 & H3 & H4). fold (nt_core q) in *.
  unfold nt_load_line. rewrite H1, H2, H3, H4.
  unfold nt_parse_line, nt_core. rewrite (core_parts _ _ _ None _ _ _ None HS HP HO I).
  rewrite (clean_nt_rterm _ _ HS), (clean_nt_rterm _ _ HP), (clean_nt_rterm _ _ HO).
  replace (str_eqb (angle (qd_p q)) [97]) with false by reflexivity.
  rewrite ets_subj, ets_iri, ets_obj by assumption.
  destruct q as [[[s p] o] g]. unfold is_default, qd_g in Hdef. cbn [snd] in Hdef. destruct g; [discriminate|]. reflexivity.
Qed.

Lemma nt_roundtrip_list : forall db, wf_db db = true -> known_dd db = false -> load_nt (gen_nt db) = default_part db.
Proof.
  intros db Hwf Hdd. unfold load_nt, gen_nt.
  rewrite (flat_map_ext _ (fun q => (nt_core q ++ [cSP; cDOT]) ++ [cLF])) by (intro; apply nt_line_core).
  unfold wf_db in Hwf. rewrite forallb_forall in Hwf.
  assert (Hk : forall q, In q db -> known_dd_quad q = false).
  { intros q Hq. unfold known_dd in Hdd. destruct (known_dd_quad q) eqn:E; [|reflexivity].
    assert (existsb known_dd_quad db = true) by (apply existsb_exists; now exists q). congruence. }
  assert (Hin : forall q, In q (default_part db) -> In q db /\ is_default q = true).
  { intros q Hq. unfold default_part in Hq. now apply filter_In in Hq. }
  rewrite lines_flat_map.
  - apply flat_map_id. intros q Hq. destruct (Hin q Hq) as [Hq1 Hq2]. apply nt_load_rendered; auto.
  - intros q Hq. destruct (Hin q Hq) as [Hq1 Hq2]. pose proof (Hwf q Hq1) as Hw.
    unfold wf_quad in Hw. apply andb_true_iff in Hw as [Hw Hwg]. apply andb_true_iff in Hw as [Hw Hwo].
    apply andb_true_iff in Hw as [Hws Hwp].
    unfold nt_core. apply (core_no_lf _ _ _ None (qd_s q) (qd_p q) (qd_o q) None).
    + now apply nt_subj_rterm.
    + apply RT_angle. now apply wf_iri_chars.
    + now apply nt_obj_rterm.
    + exact I.
Qed.

Lemma nt_roundtrip : forall db, wf_db db = true -> known_dd db = false ->
  same_set (load_nt (gen_nt db)) (default_part db).
Proof. intros db H1 H2 q. now rewrite nt_roundtrip_list. Qed.

(* ---- the double-decoding class is real ------------------------------------------------------------------------------------------------ *)
Lemma quad_eqb_refl : forall q, quad_eqb q q = true.
Proof.
  intros [[[s p] o] g]. unfold quad_eqb, qd_s, qd_p, qd_o, qd_g. cbn [fst snd]. rewrite !str_eqb_refl.
  destruct g; cbn; [apply str_eqb_refl|reflexivity].
Qed.

Lemma same_set_subsetb : forall a b, same_set a b -> subsetb b a = true.
Proof.
  intros a b H. unfold subsetb. apply forallb_forall. intros q Hq. apply existsb_exists.
  exists q. split; [now apply H|apply quad_eqb_refl].
Qed.

Definition dd_witness : list quad :=
  [([104;116;116;112;58;47;47;97;47;115], [104;116;116;112;58;47;47;97;47;112], [cDQ], None)].

Lemma dd_refuted_nq : wf_db dd_witness = true /\ known_dd dd_witness = true /\ ~ same_set (load_nq (gen_nq dd_witness)) dd_witness.
Proof.
  split; [vm_compute; reflexivity|split; [vm_compute; reflexivity|]]. intro H.
  apply same_set_subsetb in H. vm_compute in H. discriminate.
Qed.

Lemma dd_refuted_nt : wf_db dd_witness = true /\ known_dd dd_witness = true /\
  ~ same_set (load_nt (gen_nt dd_witness)) (default_part dd_witness).
Proof.
  split; [vm_compute; reflexivity|split; [vm_compute; reflexivity|]]. intro H.
  apply same_set_subsetb in H. vm_compute in H. discriminate.
Qed.
