(* C14 - N-Triples round trip (default graph) and the witnesses of the double-decoding class. *)
Require Import List NArith Bool Lia ZifyBool ZifyN.
Import ListNotations.
Require Import KV.Codec14.Model KV.Codec14.Turtle KV.Codec14.Spec KV.Codec14.StrProofs KV.Codec14.LitProofs
               KV.Codec14.TokProofs KV.Codec14.NqProofs.
Open Scope N_scope.

Arguments trim : simpl never.
Arguments escape : simpl never.

(* ---- N-Triples (default graph) ----------------------------------------------------------------------------------------------------- *)
Lemma bn_char_iri_char : forall c, bn_char c = true -> iri_char c = true.
Proof.
  intros c H. unfold bn_char, is_ascii_alnum, is_ascii_alpha, is_ascii_digit, cUS, cMINUS, cDOT in H.
  unfold iri_char, cLT, cGT, cDQ, cLBRACE, cRBRACE, cBAR, cCARET, cBS. lia.
Qed.

Lemma bnode_iri_chars : forall s, wf_bnode s = true -> forallb iri_char s = true.
Proof.
  intros s H. destruct (wf_bnode_shape s H) as (c & r & -> & Hb).
  change (forallb iri_char (cUS :: cCOLON :: c :: r)) with (forallb iri_char (c :: r)).
  apply forallb_forall. intros x Hx. rewrite forallb_forall in Hb. now apply bn_char_iri_char, Hb.
Qed.

Lemma wf_subj_not_qt : forall s, wf_subj s = true -> starts_with sLTLT s = false /\ forallb iri_char s = true.
Proof.
  intros s H. unfold wf_subj in H. apply orb_true_iff in H as [H|H].
  - split; [now apply iri_prefix|now apply wf_iri_chars].
  - split; [now apply bnode_prefix|now apply bnode_iri_chars].
Qed.

Lemma nt_subj_rterm : forall s, wf_subj s = true -> rterm (nt_subj s) s.
Proof. intros s H. destruct (wf_subj_not_qt s H) as [H1 H2]. unfold nt_subj. rewrite H1. now apply RT_angle. Qed.

Lemma nt_obj_rterm : forall o, wf_obj o = true -> rterm (nt_obj o) o.
Proof.
  intros o H. unfold nt_obj.
  assert (Hq : starts_with sLTLT o = false).
  { unfold wf_obj in H. apply orb_true_iff in H as [H|H].
    - apply orb_true_iff in H as [H|H]; [now apply iri_prefix|now apply bnode_prefix].
    - unfold kind_guess_stable in H. repeat (apply andb_true_iff in H as [H _]). now apply negb_true_iff in H. }
  rewrite Hq. destruct (starts_with sHTTP o || starts_with sHTTPS o) eqn:Hh; [|apply RT_lit].
  apply RT_angle. pose proof (http_is_abs o Hh) as Habs.
  unfold wf_obj in H. apply orb_true_iff in H as [H|H].
  - apply orb_true_iff in H as [H|H]; [now apply wf_iri_chars|now apply bnode_iri_chars].
  - unfold kind_guess_stable in H. apply andb_true_iff in H as [H _]. apply andb_true_iff in H as [_ H].
    rewrite Habs in H. discriminate.
Qed.

Definition nt_core (q : quad) : str := core (nt_subj (qd_s q)) (angle (qd_p q)) (nt_obj (qd_o q)) None.

Lemma nt_line_core : forall q, nt_line q = (nt_core q ++ [cSP; cDOT]) ++ [cLF].
Proof.
  intros [[[s p] o] g]. unfold nt_line, nt_core, core, gpart, sEND, qd_s, qd_p, qd_o. cbn [fst snd].
  cbn [app]. repeat (rewrite <- app_assoc; cbn [app]). reflexivity.
Qed.

Lemma nt_load_rendered : forall q, wf_quad q = true -> is_default q = true ->
  nt_load_line (nt_core q ++ [cSP; cDOT]) = [q].
Proof.
  intros q Hwf Hdef.
  unfold wf_quad in Hwf. apply andb_true_iff in Hwf as [Hwf Hwg]. apply andb_true_iff in Hwf as [Hwf Hwo].
  apply andb_true_iff in Hwf as [Hws Hwp].
  pose proof (nt_subj_rterm _ Hws) as HS. pose proof (RT_angle _ (wf_iri_chars _ Hwp)) as HP.
  pose proof (nt_obj_rterm _ Hwo) as HO.
  destruct (line_prefix _ _ _ None _ _ _ None HS HP HO I) as (H1 & H2 & H3 & H4). fold (nt_core q) in *.
  unfold nt_load_line. rewrite H1, H2, H3, H4.
  unfold nt_parse_line, nt_core. rewrite (core_parts _ _ _ None _ _ _ None HS HP HO I).
  rewrite (clean_nt_rterm _ _ HS), (clean_nt_rterm _ _ HP), (clean_nt_rterm _ _ HO).
  replace (str_eqb (angle (qd_p q)) [97]) with false by reflexivity.
  rewrite (ect_plain (qd_s q)) by (now destruct (wf_subj_not_qt _ Hws)).
  rewrite (ect_plain (qd_p q)) by (now apply iri_prefix).
  rewrite (ect_plain (qd_o q)) by (now apply wf_obj_not_qt).
  destruct q as [[[s p] o] g]. unfold is_default, qd_g in Hdef. cbn [snd] in Hdef. destruct g; [discriminate|]. reflexivity.
Qed.

Lemma nt_roundtrip_list : forall db, wf_db db = true -> load_nt (gen_nt db) = default_part db.
Proof.
  intros db Hwf. unfold load_nt, gen_nt.
  rewrite (flat_map_ext _ (fun q => (nt_core q ++ [cSP; cDOT]) ++ [cLF])) by (intro; apply nt_line_core).
  unfold wf_db in Hwf. rewrite forallb_forall in Hwf.
  assert (Hin : forall q, In q (default_part db) -> In q db /\ is_default q = true).
  { intros q Hq. unfold default_part in Hq. now apply filter_In in Hq. }
  rewrite lines_flat_map.
  - apply flat_map_id. intros q Hq. destruct (Hin q Hq) as [Hq1 Hq2]. apply nt_load_rendered; auto.
  - intros q Hq. destruct (Hin q Hq) as [Hq1 Hq2]. pose proof (Hwf q Hq1) as Hw.
    unfold wf_quad in Hw. apply andb_true_iff in Hw as [Hw Hwg]. apply andb_true_iff in Hw as [Hw Hwo].
    apply andb_true_iff in Hw as [Hws Hwp].
    unfold nt_core. apply (core_no_lf _ _ _ None (qd_s q) (qd_p q) (qd_o q) None).
    + now apply nt_subj_rterm.
    + apply RT_angle. now apply wf_iri_chars.
    + now apply nt_obj_rterm.
    + exact I.
Qed.

Lemma nt_roundtrip : forall db, wf_db db = true -> same_set (load_nt (gen_nt db)) (default_part db).
Proof. intros db H1 q. now rewrite nt_roundtrip_list. Qed.

(* ---- the double-decoding class is real ------------------------------------------------------------------------------------------------ *)
Lemma quad_eqb_refl : forall q, quad_eqb q q = true.
Proof.
  intros [[[s p] o] g]. unfold quad_eqb, qd_s, qd_p, qd_o, qd_g. cbn [fst snd]. rewrite !str_eqb_refl.
  destruct g; cbn; [apply str_eqb_refl|reflexivity].
Qed.

Lemma same_set_subsetb : forall a b, same_set a b -> subsetb b a = true.
Proof.
  intros a b H. unfold subsetb. apply forallb_forall. intros q Hq. apply existsb_exists.
  exists q. split; [now apply H|apply quad_eqb_refl].
Qed.

Definition dd_witness : list quad :=
  [([104;116;116;112;58;47;47;97;47;115], [104;116;116;112;58;47;47;97;47;112], [cDQ], None)].

(* regression (commit 16f77b9): before the repair the line loaders sent the decoded value through encode_term_star
   again (`ets`); that variant loses the one-character literal consisting of a double quote, the repaired one keeps it *)
Definition nq_load_line_old (raw : str) : list quad :=
  let line := trim raw in
  if is_comment_or_empty line then []
  else if ends_with [cDOT] line then
    match nq_parse_line (trim (removelast line)) with
    | Some (s, p, o, g) => [(ets s, ets p, ets o, g)]
    | None => []
    end
  else [].
Definition load_nq_old (text : str) : list quad := flat_map nq_load_line_old (lines text).

Lemma dd_regression_nq :
  wf_db dd_witness = true /\ known_dd dd_witness = true /\
  ~ same_set (load_nq_old (gen_nq dd_witness)) dd_witness /\ load_nq (gen_nq dd_witness) = dd_witness /\
  load_nt (gen_nt dd_witness) = dd_witness.
Proof.
  split; [vm_compute; reflexivity|split; [vm_compute; reflexivity|split; [|split; vm_compute; reflexivity]]].
  intro H. apply same_set_subsetb in H. vm_compute in H. discriminate.
Qed.
