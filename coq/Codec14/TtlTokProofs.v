(* C14 - tokenize_turtle_star_line on the text generate_turtle writes: terms are <...> or "escaped literal",
   separated by " ", " , ", " ; " and closed by " ." *)
Require Import List NArith Bool Lia ZifyBool ZifyN.
Import ListNotations.
Require Import KV.Codec14.Model KV.Codec14.Turtle KV.Codec14.Spec KV.Codec14.StrProofs KV.Codec14.LitProofs
               KV.Codec14.TokProofs.
Open Scope N_scope.

Arguments trim : simpl never.
Arguments escape : simpl never.

Definition tcs (toks : list str) : tst := TS toks [] 0 false false false.

Ltac tsimp1 :=
  unfold t_push, t_emit, t_flush, t_tok, t_set_dep, t_set_uri, t_set_lit, t_set_esc, tcs; cbn.
Ltac tsimp := tsimp1; repeat (progress tsimp1).

Lemma t_go_step : forall s c r s1, t_step s c (hd_error r) = (s1, false) -> t_go s (c :: r) = t_go s1 r.
Proof. intros s c r s1 H. cbn [t_go]. now rewrite H. Qed.

(* ---- <iri> ---------------------------------------------------------------------------------------------------- *)
Lemma tt_uri_body : forall body toks cur rest, forallb iri_char body = true ->
  t_go (TS toks cur 0 true false false) (body ++ cGT :: rest) =
  t_go (tcs (toks ++ [trim (cur ++ body ++ [cGT])])) rest.
Proof.
  induction body as [|c body IH]; intros toks cur rest H.
  - cbn [app]. erewrite t_go_step by reflexivity. reflexivity.
  - cbn in H. apply andb_true_iff in H as [Hc Hb].
    destruct (iri_char_basic c Hc) as (H1 & H2 & H3 & H4 & H5 & H6 & H7).
    cbn [app]. erewrite t_go_step.
    2:{ unfold t_step. tsimp. rewrite H1, H2, H3, H4, H5, H6, H7.
        destruct (c =? cSEMI), (c =? cCOMMA), (c =? cDOT), (c =? cCR); cbn; reflexivity. }
    tsimp. rewrite IH by assumption. unfold tcs. now rewrite <- app_assoc.
Qed.

Lemma tt_angle : forall s toks rest, forallb iri_char s = true ->
  t_go (tcs toks) (angle s ++ rest) = t_go (tcs (toks ++ [angle s])) rest.
Proof.
  intros s toks rest H. unfold angle. cbn [app]. rewrite <- app_assoc. cbn [app].
  assert (Hpk : peek_is cLT (hd_error (s ++ cGT :: rest)) = false).
  { destruct s as [|c s']; [reflexivity|]. cbn in H. apply andb_true_iff in H as [Hc _].
    destruct (iri_char_basic c Hc) as (H1 & _). exact H1. }
  erewrite t_go_step.
  2:{ unfold t_step. tsimp. rewrite Hpk. reflexivity. }
  tsimp. rewrite tt_uri_body by assumption. cbn [app].
  change (cLT :: s ++ [cGT]) with (angle s). now rewrite trim_angle.
Qed.

Lemma tt_sp_clean : forall toks r, t_go (tcs toks) (cSP :: r) = t_go (tcs toks) r.
Proof. intros. erewrite t_go_step; reflexivity. Qed.

(* ---- "escaped literal" ------------------------------------------------------------------------------------------- *)
Lemma tt_lit_char : forall c toks cur rest,
  t_go (TS toks cur 0 false true false) (esc_char c ++ rest) =
  t_go (TS toks (cur ++ esc_char c) 0 false true false) rest.
Proof.
  intros c toks cur rest. unfold esc_char.
  destruct (N.eqb_spec c cBS) as [->|Hbs].
  { cbn [app]. erewrite t_go_step by reflexivity. erewrite t_go_step by reflexivity. tsimp. now rewrite <- app_assoc. }
  destruct (N.eqb_spec c cDQ) as [->|Hdq].
  { cbn [app]. erewrite t_go_step by reflexivity. erewrite t_go_step by reflexivity. tsimp. now rewrite <- app_assoc. }
  destruct (N.eqb_spec c cLF) as [->|Hlf].
  { cbn [app]. erewrite t_go_step by reflexivity. erewrite t_go_step by reflexivity. tsimp. now rewrite <- app_assoc. }
  destruct (N.eqb_spec c cCR) as [->|Hcr].
  { cbn [app]. erewrite t_go_step by reflexivity. erewrite t_go_step by reflexivity. tsimp. now rewrite <- app_assoc. }
  destruct (N.eqb_spec c cTAB) as [->|Htab].
  { cbn [app]. erewrite t_go_step by reflexivity. erewrite t_go_step by reflexivity. tsimp. now rewrite <- app_assoc. }
  cbn [app]. erewrite t_go_step.
  2:{ unfold t_step. tsimp. apply N.eqb_neq in Hbs, Hdq. rewrite Hbs, Hdq.
      destruct (c =? cLT), (c =? cGT), (c =? cSEMI), (c =? cCOMMA), (c =? cDOT), (c =? cSP), (c =? cTAB), (c =? cLF), (c =? cCR);
        cbn; reflexivity. }
  reflexivity.
Qed.

Lemma tt_lit_body : forall v toks cur rest,
  t_go (TS toks cur 0 false true false) (escape v ++ rest) =
  t_go (TS toks (cur ++ escape v) 0 false true false) rest.
Proof.
  induction v as [|c v IH]; intros toks cur rest.
  - cbn. now rewrite app_nil_r.
  - unfold escape. cbn [flat_map]. fold (escape v). rewrite <- app_assoc.
    rewrite tt_lit_char, IH. now rewrite <- app_assoc.
Qed.

Lemma trim_quoted_nonempty : forall v, is_nil (trim (quoted v)) = false.
Proof. intro v. rewrite trim_quoted. reflexivity. Qed.

Lemma tt_pending_sp : forall toks cur rest, is_nil (trim cur) = false ->
  t_go (TS toks cur 0 false false false) (cSP :: rest) = t_go (tcs (toks ++ [trim cur])) rest.
Proof.
  intros toks cur rest H. erewrite t_go_step.
  2:{ unfold t_step. cbn. unfold t_flush. cbn [t_cur]. rewrite H. reflexivity. }
  reflexivity.
Qed.

Lemma tt_quoted_sp : forall v toks rest,
  t_go (tcs toks) (quoted v ++ cSP :: rest) = t_go (tcs (toks ++ [quoted v])) rest.
Proof.
  intros v toks rest. unfold quoted. cbn [app]. rewrite <- app_assoc. cbn [app].
  erewrite t_go_step by reflexivity. tsimp.
  rewrite tt_lit_body. cbn [app]. erewrite t_go_step by reflexivity.
  unfold t_push, t_set_lit. cbn [t_toks t_cur t_dep t_uri t_lit t_esc negb app].
  change (cDQ :: escape v ++ [cDQ]) with (quoted v).
  rewrite tt_pending_sp by apply trim_quoted_nonempty. now rewrite trim_quoted.
Qed.

(* ---- a rendered quoted triple: the depth counter returns to its value ------------------------------------------------------ *)
Lemma t_go_step2 : forall s c c2 r s1, t_step s c (Some c2) = (s1, true) -> t_go s (c :: c2 :: r) = t_go s1 r.
Proof. intros s c c2 r s1 H. cbn [t_go hd_error]. now rewrite H. Qed.

Lemma t_step_depth : forall toks cur d c pk, (0 <? d) = true -> pq c = true ->
  t_step (TS toks cur d false false false) c pk = (TS toks (cur ++ [c]) d false false false, false).
Proof.
  intros toks cur d c pk Hd Hc. unfold pq in Hc. apply negb_true_iff in Hc.
  apply orb_false_iff in Hc as [Hc _]. apply orb_false_iff in Hc as [Hc H3]. apply orb_false_iff in Hc as [H1 H2].
  assert (Hd0 : (d =? 0) = false) by lia.
  unfold t_step. cbn [t_esc t_lit t_uri t_dep t_cur t_toks].
  rewrite H1, H2, H3, Hd0. cbn [negb andb orb]. rewrite !andb_false_r. cbn [andb]. reflexivity.
Qed.

Lemma t_depth_plain : forall X toks cur d rest, (0 <? d) = true -> forallb pq X = true ->
  t_go (TS toks cur d false false false) (X ++ rest) = t_go (TS toks (cur ++ X) d false false false) rest.
Proof.
  induction X as [|c X IH]; intros toks cur d rest Hd H; [now rewrite app_nil_r|].
  cbn in H. apply andb_true_iff in H as [Hc HX]. cbn [app].
  erewrite t_go_step by (now apply t_step_depth). rewrite IH by assumption. now rewrite <- app_assoc.
Qed.

Lemma t_step_open : forall toks cur d,
  t_step (TS toks cur d false false false) cLT (Some cLT) = (TS toks (cur ++ [cLT] ++ [cLT]) (d + 1) false false false, true).
Proof.
  intros. unfold t_step. cbn [t_esc t_lit t_uri t_dep t_cur t_toks peek_is].
  replace (cLT =? cBS) with false by reflexivity. replace (cLT =? cDQ) with false by reflexivity.
  replace (cLT =? cLT) with true by reflexivity. cbn [negb andb]. unfold t_set_dep, t_push.
  cbn [t_esc t_lit t_uri t_dep t_cur t_toks]. now rewrite <- app_assoc.
Qed.

Lemma t_step_close : forall toks cur d,
  t_step (TS toks cur (d + 1) false false false) cGT (Some cGT) =
  (if d =? 0 then TS (toks ++ [trim (cur ++ [cGT] ++ [cGT])]) [] d false false false
   else TS toks (cur ++ [cGT] ++ [cGT]) d false false false, true).
Proof.
  intros. unfold t_step. cbn [t_esc t_lit t_uri t_dep t_cur t_toks peek_is].
  replace (cGT =? cBS) with false by reflexivity. replace (cGT =? cDQ) with false by reflexivity.
  replace (cGT =? cLT) with false by reflexivity. replace (cGT =? cGT) with true by reflexivity.
  replace (0 <? d + 1) with true by lia. cbn [negb andb].
  unfold t_set_dep, t_push, t_emit. cbn [t_esc t_lit t_uri t_dep t_cur t_toks].
  rewrite N.add_sub, <- app_assoc. destruct (d =? 0); reflexivity.
Qed.

Lemma t_depth_term : forall t, qsafe t = true -> forall toks cur d rest, (0 <? d) = true ->
  t_go (TS toks cur d false false false) (qrender t ++ rest) = t_go (TS toks (cur ++ qrender t) d false false false) rest.
Proof.
  induction t as [s|s|ws|a IHa b IHb c IHc]; intros Hs toks cur d rest Hd.
  1-3: apply t_depth_plain; [assumption|now apply qleaf_pq].
  cbn [qsafe] in Hs. apply andb_true_iff in Hs as [Hs Hc]. apply andb_true_iff in Hs as [Hs _].
  apply andb_true_iff in Hs as [Hs Hb]. apply andb_true_iff in Hs as [Ha _].
  assert (Hd1 : (0 <? d + 1) = true) by lia. assert (Hd0 : (d =? 0) = false) by lia.
  cbn [qrender]. unfold sLTLT, sGTGT. repeat (rewrite <- app_assoc; cbn [app]).
  erewrite t_go_step2 by apply t_step_open.
  erewrite t_go_step by (now apply t_step_depth). rewrite IHa by assumption.
  erewrite t_go_step by (now apply t_step_depth). rewrite IHb by assumption.
  erewrite t_go_step by (now apply t_step_depth). rewrite IHc by assumption.
  erewrite t_go_step by (now apply t_step_depth).
  erewrite t_go_step2 by apply t_step_close. rewrite Hd0.
  f_equal. f_equal. repeat (rewrite <- app_assoc; cbn [app]). reflexivity.
Qed.

Lemma tt_qt_top : forall a b c toks rest, qsafe (QQt a b c) = true ->
  t_go (tcs toks) (qrender (QQt a b c) ++ rest) = t_go (tcs (toks ++ [qrender (QQt a b c)])) rest.
Proof.
  intros a b c toks rest Hs. rewrite <- (qrender_trim a b c) at 2.
  cbn [qsafe] in Hs. apply andb_true_iff in Hs as [Hs Hc]. apply andb_true_iff in Hs as [Hs _].
  apply andb_true_iff in Hs as [Hs Hb]. apply andb_true_iff in Hs as [Ha _].
  assert (Hd1 : (0 <? 0 + 1) = true) by reflexivity.
  cbn [qrender]. unfold sLTLT, sGTGT, tcs. repeat (rewrite <- app_assoc; cbn [app]).
  erewrite t_go_step2 by apply t_step_open.
  erewrite t_go_step by (now apply t_step_depth). rewrite t_depth_term by assumption.
  erewrite t_go_step by (now apply t_step_depth). rewrite t_depth_term by assumption.
  erewrite t_go_step by (now apply t_step_depth). rewrite t_depth_term by assumption.
  erewrite t_go_step by (now apply t_step_depth).
  erewrite t_go_step2 by apply t_step_close. cbn [N.eqb].
  f_equal. f_equal. f_equal. f_equal. repeat (rewrite <- app_assoc; cbn [app]). reflexivity.
Qed.

(* ---- terms and separators ------------------------------------------------------------------------------------------ *)
Inductive tterm : str -> str -> Prop :=
| TT_angle : forall s, forallb iri_char s = true -> tterm (angle s) s
| TT_lit : forall v, tterm (quoted v) v
| TT_qt : forall a b c, qsafe (QQt a b c) = true -> tterm (qrender (QQt a b c)) (qrender (QQt a b c)).

Lemma tt_term_sp : forall R v toks rest, tterm R v ->
  t_go (tcs toks) (R ++ cSP :: rest) = t_go (tcs (toks ++ [R])) rest.
Proof.
  intros R v toks rest H. destruct H as [s H|v|a b c H].
  - rewrite tt_angle by assumption. apply tt_sp_clean.
  - apply tt_quoted_sp.
  - rewrite tt_qt_top by assumption. apply tt_sp_clean.
Qed.

Lemma tt_comma_sp : forall toks rest, t_go (tcs toks) (cCOMMA :: cSP :: rest) = t_go (tcs (toks ++ [[cCOMMA]])) rest.
Proof. intros. erewrite t_go_step by reflexivity. tsimp. apply tt_sp_clean. Qed.

Lemma tt_semi_sp : forall toks rest, t_go (tcs toks) (cSEMI :: cSP :: rest) = t_go (tcs (toks ++ [[cSEMI]])) rest.
Proof. intros. erewrite t_go_step by reflexivity. tsimp. apply tt_sp_clean. Qed.

Lemma tt_dot_end : forall toks, t_go (tcs toks) [cDOT] = toks ++ [[cDOT]].
Proof. intros. reflexivity. Qed.
