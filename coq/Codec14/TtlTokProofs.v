(* C14 - tokenize_turtle_star_line on the text generate_turtle writes: terms are <...> or "escaped literal",
   separated by " ", " , ", " ; " and closed by " ." *)
Require Import List NArith Bool Lia ZifyBool ZifyN.
Import ListNotations.
Require Import KV.Codec14.Model KV.Codec14.Turtle KV.Codec14.Spec KV.Codec14.StrProofs KV.Codec14.LitProofs
               KV.Codec14.TokProofs.
Open Scope N_scope.

Arguments trim : simpl never.
Arguments escape : simpl never.

Definition tcs (toks : list str) : tst := TS toks [] 0 false false false.

Ltac tsimp1 :=
  unfold t_push, t_emit, t_flush, t_tok, t_set_dep, t_set_uri, t_set_lit, t_set_esc, tcs; cbn.
Ltac tsimp := tsimp1; repeat (progress tsimp1).

Lemma t_go_step : forall s c r s1, t_step s c (hd_error r) = (s1, false) -> t_go s (c :: r) = t_go s1 r.
Proof. intros s c r s1 H. cbn [t_go]. now rewrite H. Qed.

(* ---- <iri> ---------------------------------------------------------------------------------------------------- *)
Lemma tt_uri_body : forall body toks cur rest, forallb iri_char body = true ->
  t_go (TS toks cur 0 true false false) (body ++ cGT :: rest) =
  t_go (tcs (toks ++ [trim (cur ++ body ++ [cGT])])) rest.
Proof.
  induction body as [|c body IH]; intros toks cur rest H.
  - cbn [app]. erewrite t_go_step by reflexivity. reflexivity.
  - cbn in H. apply andb_true_iff in H as [Hc Hb].
    destruct (iri_char_basic c Hc) as (H1 & H2 & H3 & H4 & H5 & H6 & H7).
    cbn [app]. erewrite t_go_step.
    2:{ unfold t_step. tsimp. rewrite H1, H2, H3, H4, H5, H6, H7.
        destruct (c =? cSEMI), (c =? cCOMMA), (c =? cDOT), (c =? cCR); cbn; reflexivity. }
    tsimp. rewrite IH by assumption. unfold tcs. now rewrite <- app_assoc.
Qed.

Lemma tt_angle : forall s toks rest, forallb iri_char s = true ->
  t_go (tcs toks) (angle s ++ rest) = t_go (tcs (toks ++ [angle s])) rest.
Proof.
  intros s toks rest H. unfold angle. cbn [app]. rewrite <- app_assoc. cbn [app].
  assert (Hpk : peek_is cLT (hd_error (s ++ cGT :: rest)) = false).
  { destruct s as [|c s']; [reflexivity|]. cbn in H. apply andb_true_iff in H as [Hc _].
    destruct (iri_char_basic c Hc) as (H1 & _). exact H1. }
  erewrite t_go_step.
  2:{ unfold t_step. tsimp. rewrite Hpk. reflexivity. }
  tsimp. rewrite tt_uri_body by assumption. cbn [app].
  change (cLT :: s ++ [cGT]) with (angle s). now rewrite trim_angle.
Qed.

Lemma tt_sp_clean : forall toks r, t_go (tcs toks) (cSP :: r) = t_go (tcs toks) r.
Proof. intros. erewrite t_go_step; reflexivity. Qed.

(* ---- "escaped literal" ------------------------------------------------------------------------------------------- *)
Lemma tt_lit_char : forall c toks cur rest,
  t_go (TS toks cur 0 false true false) (esc_char c ++ rest) =
  t_go (TS toks (cur ++ esc_char c) 0 false true false) rest.
Proof.
  intros c toks cur rest. unfold esc_char.
  destruct (N.eqb_spec c cBS) as [->|Hbs].
  { cbn [app]. erewrite t_go_step by reflexivity. erewrite t_go_step by reflexivity. tsimp. now rewrite <- app_assoc. }
  destruct (N.eqb_spec c cDQ) as [->|Hdq].
  { cbn [app]. erewrite t_go_step by reflexivity. erewrite t_go_step by reflexivity. tsimp. now rewrite <- app_assoc. }
  destruct (N.eqb_spec c cLF) as [->|Hlf].
  { cbn [app]. erewrite t_go_step by reflexivity. erewrite t_go_step by reflexivity. tsimp. now rewrite <- app_assoc. }
  destruct (N.eqb_spec c cCR) as [->|Hcr].
  { cbn [app]. erewrite t_go_step by reflexivity. erewrite t_go_step by reflexivity. tsimp. now rewrite <- app_assoc. }
  destruct (N.eqb_spec c cTAB) as [->|Htab].
  { cbn [app]. erewrite t_go_step by reflexivity. erewrite t_go_step by reflexivity. tsimp. now rewrite <- app_assoc. }
  cbn [app]. erewrite t_go_step.
  2:{ unfold t_step. tsimp. apply N.eqb_neq in Hbs, Hdq. rewrite Hbs, Hdq.
      destruct (c =? cLT), (c =? cGT), (c =? cSEMI), (c =? cCOMMA), (c =? cDOT), (c =? cSP), (c =? cTAB), (c =? cLF), (c =? cCR);
        cbn; reflexivity. }
  reflexivity.
Qed.

Lemma tt_lit_body : forall v toks cur rest,
  t_go (TS toks cur 0 false true false) (escape v ++ rest) =
  t_go (TS toks (cur ++ escape v) 0 false true false) rest.
Proof.
  induction v as [|c v IH]; intros toks cur rest.
  - cbn. now rewrite app_nil_r.
  - unfold escape. cbn [flat_map]. fold (escape v). rewrite <- app_assoc.
    rewrite tt_lit_char, IH. now rewrite <- app_assoc.
Qed.

Lemma trim_quoted_nonempty : forall v, is_nil (trim (quoted v)) = false.
Proof. intro v. rewrite trim_quoted. reflexivity. Qed.

Lemma tt_pending_sp : forall toks cur rest, is_nil (trim cur) = false ->
  t_go (TS toks cur 0 false false false) (cSP :: rest) = t_go (tcs (toks ++ [trim cur])) rest.
Proof.
  intros toks cur rest H. erewrite t_go_step.
  2:{ unfold t_step. cbn. unfold t_flush. cbn [t_cur]. rewrite H. reflexivity. }
  reflexivity.
Qed.

Lemma tt_quoted_sp : forall v toks rest,
  t_go (tcs toks) (quoted v ++ cSP :: rest) = t_go (tcs (toks ++ [quoted v])) rest.
Proof.
  intros v toks rest. unfold quoted. cbn [app]. rewrite <- app_assoc. cbn [app].
  erewrite t_go_step by reflexivity. tsimp.
  rewrite tt_lit_body. cbn [app]. erewrite t_go_step by reflexivity.
  unfold t_push, t_set_lit. cbn [t_toks t_cur t_dep t_uri t_lit t_esc negb app].
  change (cDQ :: escape v ++ [cDQ]) with (quoted v).
  rewrite tt_pending_sp by apply trim_quoted_nonempty. now rewrite trim_quoted.
Qed.

(* ---- terms and separators ------------------------------------------------------------------------------------------ *)
Inductive tterm : str -> str -> Prop :=
| TT_angle : forall s, forallb iri_char s = true -> tterm (angle s) s
| TT_lit : forall v, tterm (quoted v) v.

Lemma tt_term_sp : forall R v toks rest, tterm R v ->
  t_go (tcs toks) (R ++ cSP :: rest) = t_go (tcs (toks ++ [R])) rest.
Proof.
  intros R v toks rest H. destruct H as [s H|v].
  - rewrite tt_angle by assumption. apply tt_sp_clean.
  - apply tt_quoted_sp.
Qed.

Lemma tt_comma_sp : forall toks rest, t_go (tcs toks) (cCOMMA :: cSP :: rest) = t_go (tcs (toks ++ [[cCOMMA]])) rest.
Proof. intros. erewrite t_go_step by reflexivity. tsimp. apply tt_sp_clean. Qed.

Lemma tt_semi_sp : forall toks rest, t_go (tcs toks) (cSEMI :: cSP :: rest) = t_go (tcs (toks ++ [[cSEMI]])) rest.
Proof. intros. erewrite t_go_step by reflexivity. tsimp. apply tt_sp_clean. Qed.

Lemma tt_dot_end : forall toks, t_go (tcs toks) [cDOT] = toks ++ [[cDOT]].
Proof. intros. reflexivity. Qed.
