(* C14 - executable Gallina model of the export / import codecs of kolibrie/src/sparql_database.rs
   (tree at commit 74abf0c: literal escaping repaired in generate_ntriples / generate_turtle).

   Strings are lists of Unicode code points (N).  A stored term is a BARE string (IRIs without <>,
   literals without quotes; a quoted triple is seen by the serialisers only through `decode_any`, i.e. as the
   string "<< s p o >>" of bare components), so a dataset is a list of quads of strings.

   No proofs in this file. *)
Require Import List NArith Bool.
Import ListNotations.
Open Scope N_scope.

Definition str := list N.

(* ---- characters ------------------------------------------------------------------------------ *)
Definition cTAB := 9.   Definition cLF := 10.   Definition cCR := 13.  Definition cSP := 32.
Definition cDQ := 34.   Definition cHASH := 35. Definition cSQ := 39.  Definition cPLUS := 43.
Definition cCOMMA := 44. Definition cMINUS := 45. Definition cDOT := 46. Definition cCOLON := 58.
Definition cSEMI := 59. Definition cLT := 60.   Definition cGT := 62.  Definition cAT := 64.
Definition cBS := 92.   Definition cCARET := 94. Definition cUS := 95.
Definition cLBRACE := 123. Definition cBAR := 124. Definition cRBRACE := 125.

(* char::is_whitespace (Unicode White_Space) *)
Definition is_ws (c : N) : bool :=
  ((9 <=? c) && (c <=? 13)) || (c =? 32) || (c =? 133) || (c =? 160) || (c =? 5760)
  || ((8192 <=? c) && (c <=? 8202)) || (c =? 8232) || (c =? 8233) || (c =? 8239) || (c =? 8287) || (c =? 12288).

Definition is_ascii_alpha (c : N) : bool := ((65 <=? c) && (c <=? 90)) || ((97 <=? c) && (c <=? 122)).
Definition is_ascii_digit (c : N) : bool := (48 <=? c) && (c <=? 57).
Definition is_ascii_alnum (c : N) : bool := is_ascii_alpha c || is_ascii_digit c.
(* char::is_alphanumeric, exact below U+0100; code points from U+0100 on are treated as not alphanumeric
   (only reachable while scanning a language tag; the exporters never write one). *)
Definition is_alnum (c : N) : bool :=
  is_ascii_alnum c || (c =? 170) || (c =? 181) || (c =? 186) || ((192 <=? c) && (c <=? 214))
  || ((216 <=? c) && (c <=? 246)) || ((248 <=? c) && (c <=? 255))
  || (c =? 178) || (c =? 179) || (c =? 185) || ((188 <=? c) && (c <=? 190)).

(* ---- string helpers -------------------------------------------------------------------------- *)
Fixpoint str_eqb (a b : str) : bool :=
  match a, b with
  | [], [] => true
  | x :: a', y :: b' => (x =? y) && str_eqb a' b'
  | _, _ => false
  end.

Fixpoint starts_with (p l : str) : bool :=
  match p, l with
  | [], _ => true
  | x :: p', y :: l' => (x =? y) && starts_with p' l'
  | _ :: _, [] => false
  end.

Definition ends_with (p l : str) : bool := starts_with (rev p) (rev l).

Fixpoint contains (p l : str) : bool :=
  starts_with p l || match l with [] => false | _ :: l' => contains p l' end.

Definition is_nil {A} (l : list A) : bool := match l with [] => true | _ => false end.

Fixpoint drop_while (f : N -> bool) (l : str) : str :=
  match l with
  | [] => []
  | c :: r => if f c then drop_while f r else l
  end.

(* remove the longest suffix of characters satisfying f *)
Fixpoint drop_end (f : N -> bool) (l : str) : str :=
  match l with
  | [] => []
  | c :: r => match drop_end f r with
              | [] => if f c then [] else [c]
              | r' => c :: r'
              end
  end.

Definition trim_start (l : str) : str := drop_while is_ws l.
Definition trim_end (l : str) : str := drop_end is_ws l.
Definition trim (l : str) : str := trim_end (trim_start l).          (* str::trim *)
Definition trim_matches (c : N) (l : str) : str := drop_end (N.eqb c) (drop_while (N.eqb c) l).

(* s[1 .. len-1] *)
Definition strip1 (l : str) : str := removelast (tl l).

Fixpoint join (sep : str) (l : list str) : str :=
  match l with
  | [] => []
  | [x] => x
  | x :: r => x ++ sep ++ join sep r
  end.

(* str::lines: split at LF.  (A CR before the LF is also removed by `lines`; every loader trims the
   line first thing, which removes it anyway, so it is not modelled separately.) *)
Fixpoint lines (l : str) : list str :=
  match l with
  | [] => []
  | c :: r =>
      if c =? cLF then [] :: lines r
      else match r with
           | [] => [[c]]
           | _ => match lines r with
                  | [] => [[c]]
                  | x :: xs => (c :: x) :: xs
                  end
           end
  end.

(* ---- looks_like_absolute_iri ----------------------------------------------------------------- *)
(* value.split_once(':') = (scheme, _) ; scheme: ascii letter then [A-Za-z0-9+-.]* *)
Fixpoint scheme_of (l : str) : option str :=
  match l with
  | [] => None
  | c :: r => if c =? cCOLON then Some [] else option_map (cons c) (scheme_of r)
  end.
Definition scheme_char (c : N) : bool := is_ascii_alnum c || (c =? cPLUS) || (c =? cMINUS) || (c =? cDOT).
Definition looks_like_absolute_iri (v : str) : bool :=
  match scheme_of v with
  | None => false
  | Some [] => false
  | Some (c :: r) => is_ascii_alpha c && forallb scheme_char r
  end.

(* ---- escape_ntriples_literal ----------------------------------------------------------------- *)
Definition esc_char (c : N) : str :=
  if c =? cBS then [cBS; cBS]
  else if c =? cDQ then [cBS; cDQ]
  else if c =? cLF then [cBS; 110]
  else if c =? cCR then [cBS; 114]
  else if c =? cTAB then [cBS; 116]
  else [c].
Definition escape (v : str) : str := flat_map esc_char v.

(* ---- decode_ntriples_literal ----------------------------------------------------------------- *)
Inductive dmode := DPlain | DEsc | DHex (k : nat) (v : N).

Definition hexval (c : N) : option N :=
  if is_ascii_digit c then Some (c - 48)
  else if (97 <=? c) && (c <=? 102) then Some (c - 87)
  else if (65 <=? c) && (c <=? 70) then Some (c - 55)
  else None.
(* char::from_u32 *)
Definition from_u32 (v : N) : option N :=
  if ((55296 <=? v) && (v <=? 57343)) || (1114111 <? v) then None else Some v.

Definition dpush (c : N) (o : option (str * str)) : option (str * str) :=
  match o with Some (v, rest) => Some (c :: v, rest) | None => None end.

(* the loop over the body (after the opening quote): returns (value, text after the closing quote) *)
Fixpoint dec_go (m : dmode) (l : str) : option (str * str) :=
  match l with
  | [] => None
  | c :: r =>
      match m with
      | DPlain =>
          if c =? cDQ then Some ([], r)
          else if c =? cBS then dec_go DEsc r
          else dpush c (dec_go DPlain r)
      | DEsc =>
          if c =? 116 then dpush cTAB (dec_go DPlain r)
          else if c =? 98 then dpush 8 (dec_go DPlain r)
          else if c =? 110 then dpush cLF (dec_go DPlain r)
          else if c =? 114 then dpush cCR (dec_go DPlain r)
          else if c =? 102 then dpush 12 (dec_go DPlain r)
          else if c =? cDQ then dpush cDQ (dec_go DPlain r)
          else if c =? cSQ then dpush cSQ (dec_go DPlain r)
          else if c =? cBS then dpush cBS (dec_go DPlain r)
          else if c =? 117 then dec_go (DHex 4 0) r
          else if c =? 85 then dec_go (DHex 8 0) r
          else None
      | DHex k v =>
          match hexval c with
          | None => None
          | Some d =>
              let v' := v * 16 + d in
              match k with
              | O => None
              | S O => match from_u32 v' with
                       | Some ch => dpush ch (dec_go DPlain r)
                       | None => None
                       end
              | S k' => dec_go (DHex k' v') r
              end
          end
      end
  end.

Definition decode (term : str) : option (str * str) :=
  match term with
  | c :: body => if c =? cDQ then dec_go DPlain body else None
  | [] => None
  end.

(* ---- parse_ntriples_parts: the N-Triples / N-Quads line tokenizer ------------------------------ *)
Inductive pmode := PNormal | PAfterQ | PCaret | PDt | PDtUri | PLang.
Record pst := PS { p_parts : list str; p_cur : str; p_uri : bool; p_lit : bool; p_esc : bool;
                   p_dep : N; p_mode : pmode }.

Definition p_init : pst := PS [] [] false false false 0 PNormal.
Definition p_push (c : N) (s : pst) : pst :=
  PS (p_parts s) (p_cur s ++ [c]) (p_uri s) (p_lit s) (p_esc s) (p_dep s) (p_mode s).
Definition p_emit (s : pst) : pst :=          (* parts.push(current_part.trim()); current_part.clear() *)
  PS (p_parts s ++ [trim (p_cur s)]) [] (p_uri s) (p_lit s) (p_esc s) (p_dep s) (p_mode s).
Definition p_set_mode (m : pmode) (s : pst) : pst :=
  PS (p_parts s) (p_cur s) (p_uri s) (p_lit s) (p_esc s) (p_dep s) m.
Definition p_set_uri (b : bool) (s : pst) : pst :=
  PS (p_parts s) (p_cur s) b (p_lit s) (p_esc s) (p_dep s) (p_mode s).
Definition p_set_lit (b : bool) (s : pst) : pst :=
  PS (p_parts s) (p_cur s) (p_uri s) b (p_esc s) (p_dep s) (p_mode s).
Definition p_set_esc (b : bool) (s : pst) : pst :=
  PS (p_parts s) (p_cur s) (p_uri s) (p_lit s) b (p_dep s) (p_mode s).
Definition p_set_dep (d : N) (s : pst) : pst :=
  PS (p_parts s) (p_cur s) (p_uri s) (p_lit s) (p_esc s) d (p_mode s).

Definition peek_is (c : N) (pk : option N) : bool := match pk with Some x => x =? c | None => false end.

(* one iteration of the outer `while let Some(ch) = chars.next()` loop in the ordinary state;
   the boolean says that the peeked character was consumed as well *)
Definition p_normal (s : pst) (c : N) (pk : option N) : pst * bool :=
  if (c =? cLT) && negb (p_lit s) && negb (p_esc s) then
    if peek_is cLT pk && negb (p_uri s) then
      (p_set_dep (p_dep s + 1) (p_push cLT (p_push c s)), true)
    else if 0 <? p_dep s then
      if peek_is cLT pk then (p_set_dep (p_dep s + 1) (p_push cLT (p_push c s)), true)
      else (p_push c s, false)
    else (p_push c (p_set_uri true s), false)
  else if (c =? cGT) && negb (p_lit s) && negb (p_esc s) then
    if (0 <? p_dep s) && negb (p_uri s) then
      if peek_is cGT pk then
        let s1 := p_set_dep (p_dep s - 1) (p_push cGT (p_push c s)) in
        (if p_dep s1 =? 0 then p_emit s1 else s1, true)
      else (p_push c s, false)
    else if p_uri s then
      let s1 := p_push c (p_set_uri false s) in
      (if p_dep s1 =? 0 then p_emit s1 else s1, false)
    else (p_push c s, false)
  else if (c =? cDQ) && negb (p_uri s) && negb (p_esc s) then
    let s1 := p_push c (p_set_lit (negb (p_lit s)) s) in
    (if p_lit s1 then s1 else p_set_mode PAfterQ s1, false)
  else if (c =? cBS) && (p_uri s || p_lit s) && negb (p_esc s) then
    (p_push c (p_set_esc true s), false)
  else if ((c =? cSP) || (c =? cTAB)) && negb (p_uri s) && negb (p_lit s) && negb (p_esc s) && (p_dep s =? 0) then
    (if is_nil (p_cur s) then s else p_emit s, false)
  else (p_push c (p_set_esc false s), false).

(* leaving the datatype / language-tag scan that follows a closing quote *)
Definition p_close (s : pst) : pst :=
  p_set_mode PNormal (if p_dep s =? 0 then p_emit s else s).

Definition p_step (s : pst) (c : N) (pk : option N) : pst * bool :=
  match p_mode s with
  | PNormal => p_normal s c pk
  | PAfterQ =>
      if c =? cCARET then (p_set_mode PCaret (p_push c s), false)
      else if c =? cAT then (p_set_mode PLang (p_push c s), false)
      else p_normal (p_close s) c pk
  | PCaret =>
      if c =? cCARET then (p_set_mode PDt (p_push c s), false)
      else p_normal (p_close s) c pk
  | PDt =>
      if c =? cLT then (p_set_mode PDtUri (p_push c s), false)
      else if is_ws c then p_normal (p_close s) c pk
      else (p_push c s, false)
  | PDtUri =>
      if c =? cGT then (p_close (p_push c s), false) else (p_push c s, false)
  | PLang =>
      if is_alnum c || (c =? cMINUS) then (p_push c s, false)
      else p_normal (p_close s) c pk
  end.

Definition p_finish (s : pst) : list str :=
  let s1 := match p_mode s with PNormal => s | _ => p_close s end in
  if is_nil (p_cur s1) then p_parts s1 else p_parts s1 ++ [trim (p_cur s1)].

Fixpoint p_go (s : pst) (l : str) : list str :=
  match l with
  | [] => p_finish s
  | c :: r =>
      let '(s1, skip) := p_step s c (hd_error r) in
      if skip then match r with [] => p_finish s1 | _ :: r' => p_go s1 r' end
      else p_go s1 r
  end.

Definition parts (line : str) : list str := p_go p_init line.

(* ---- clean_ntriples_term ---------------------------------------------------------------------- *)
Definition sLTLT := [cLT; cLT].  Definition sGTGT := [cGT; cGT].
Definition clean_nt (term0 : str) : str :=
  let term := trim term0 in
  if starts_with sLTLT term && ends_with sGTGT term then term
  else if starts_with [cLT] term && ends_with [cGT] term then strip1 term
  else if starts_with [cDQ] term then
    match decode term with
    | Some (v, rest) =>
        if is_nil rest then v
        else if starts_with [cCARET; cCARET] rest then v
        else if starts_with [cAT] rest then v ++ rest
        else term
    | None => term
    end
  else term.

(* ---- split_quoted_triple_content -------------------------------------------------------------- *)
Record qst := QS { q_parts : list str; q_cur : str; q_dep : N; q_uri : bool; q_lit : bool; q_esc : bool }.
Definition q_flush (s : qst) : qst :=
  let t := trim (q_cur s) in
  if is_nil t then s else QS (q_parts s ++ [t]) [] (q_dep s) (q_uri s) (q_lit s) (q_esc s).
Definition q_step (s : qst) (c : N) : qst :=
  let push := QS (q_parts s) (q_cur s ++ [c]) (q_dep s) (q_uri s) (q_lit s) in
  if q_esc s then push false
  else if (c =? cBS) && q_lit s then push true
  else if (c =? cDQ) && negb (q_uri s) then
    QS (q_parts s) (q_cur s ++ [c]) (q_dep s) (q_uri s) (negb (q_lit s)) false
  else if (c =? cLT) && negb (q_lit s) then
    if ends_with sLTLT (q_cur s ++ [c]) then QS (q_parts s) (q_cur s ++ [c]) (q_dep s + 1) (q_uri s) (q_lit s) false
    else if q_dep s =? 0 then QS (q_parts s) (q_cur s ++ [c]) (q_dep s) true (q_lit s) false
    else push false
  else if (c =? cGT) && negb (q_lit s) then
    if q_uri s then QS (q_parts s) (q_cur s ++ [c]) (q_dep s) false (q_lit s) false
    else if ends_with sGTGT (q_cur s ++ [c]) && (0 <? q_dep s)
         then QS (q_parts s) (q_cur s ++ [c]) (q_dep s - 1) (q_uri s) (q_lit s) false
    else push false
  else if ((c =? cSP) || (c =? cTAB) || (c =? cLF) || (c =? cCR)) && (q_dep s =? 0) && negb (q_uri s) && negb (q_lit s)
  then q_flush s
  else push false.

Definition split_qt (content : str) : str * str * str :=
  let s := q_flush (fold_left q_step content (QS [] [] 0 false false false)) in
  match q_parts s with
  | a :: b :: c :: r => (a, b, join [cSP] (c :: r))
  | [a; b] => (a, b, [])
  | [a] => (a, [], [])
  | [] => ([], [], [])
  end.

(* ---- encode_term_star followed by decode_any: the string a term is stored (and read back) as -------- *)
(* fuel: recursion depth for quoted triples; ets term = ets_fuel (S (length term)) term *)
Fixpoint ets_fuel (fuel : nat) (term : str) : str :=
  let t := trim term in
  if starts_with sLTLT t && ends_with sGTGT t then
    match fuel with
    | O => t
    | S f =>
        (* &trimmed[2 .. len-2] *)
        let inner := trim (removelast (removelast (tl (tl t)))) in
        let '(a, b, c) := split_qt inner in
        sLTLT ++ [cSP] ++ ets_fuel f a ++ [cSP] ++ ets_fuel f b ++ [cSP] ++ ets_fuel f c ++ [cSP] ++ sGTGT
    end
  else if starts_with [cLT] t && ends_with [cGT] t then strip1 t
  else if starts_with [cDQ] t then
    match decode t with
    | Some (v, _) => v
    | None => trim_matches cDQ t
    end
  else t.
Definition ets (term : str) : str := ets_fuel (S (length term)) term.

(* encode_cleaned_term (commit 16f77b9) followed by decode_any: a term the line loaders have already cleaned is
   interned verbatim; only a term of the shape <<...>> is parsed again by encode_term_star *)
Definition ect (term : str) : str :=
  if starts_with sLTLT term && ends_with sGTGT term then ets term else term.

(* ---- datasets ---------------------------------------------------------------------------------- *)
Definition quad := (str * str * str * option str)%type.     (* graph None = default graph *)
Definition qd_s (q : quad) := fst (fst (fst q)).
Definition qd_p (q : quad) := snd (fst (fst q)).
Definition qd_o (q : quad) := snd (fst q).
Definition qd_g (q : quad) := snd q.

Definition sBN := [cUS; cCOLON].           (* "_:" *)
Definition sHTTP := [104; 116; 116; 112; 58; 47; 47].
Definition sHTTPS := [104; 116; 116; 112; 115; 58; 47; 47].
Definition angle (s : str) : str := cLT :: s ++ [cGT].
Definition quoted (s : str) : str := cDQ :: escape s ++ [cDQ].
Definition sEND := [cSP; cDOT; cLF].        (* " .\n" *)

(* generate_nquads, one quad *)
Definition nq_subj (s : str) := if starts_with sLTLT s || starts_with sBN s then s else angle s.
Definition nq_obj (o : str) :=
  if starts_with sLTLT o || starts_with sBN o then o
  else if looks_like_absolute_iri o then angle o
  else quoted o.
Definition nq_graph (g : str) := if starts_with sBN g then g else angle g.
Definition nq_line (q : quad) : str :=
  nq_subj (qd_s q) ++ [cSP] ++ angle (qd_p q) ++ [cSP] ++ nq_obj (qd_o q) ++
  match qd_g q with None => [] | Some g => [cSP] ++ nq_graph g end ++ sEND.
Definition gen_nq (db : list quad) : str := flat_map nq_line db.

(* generate_ntriples (default graph only) *)
Definition nt_subj (s : str) := if starts_with sLTLT s then s else angle s.
Definition nt_obj (o : str) :=
  if starts_with sLTLT o then o
  else if starts_with sHTTP o || starts_with sHTTPS o then angle o
  else quoted o.
Definition nt_line (q : quad) : str :=
  nt_subj (qd_s q) ++ [cSP] ++ angle (qd_p q) ++ [cSP] ++ nt_obj (qd_o q) ++ sEND.
Definition is_default (q : quad) : bool := match qd_g q with None => true | Some _ => false end.
Definition default_part (db : list quad) : list quad := filter is_default db.
Definition gen_nt (db : list quad) : str := flat_map nt_line (default_part db).

(* ---- loaders ----------------------------------------------------------------------------------- *)
Definition is_comment_or_empty (line : str) : bool := is_nil line || starts_with [cHASH] line.

(* parse_nquads_line *)
Definition nq_parse_line (line : str) : option quad :=
  match parts line with
  | [a; b; c] => Some (clean_nt a, clean_nt b, clean_nt c, None)
  | [a; b; c; d] => Some (clean_nt a, clean_nt b, clean_nt c, Some (clean_nt d))
  | _ => None
  end.

(* one iteration of the line loop of parse_nquads_and_add: the quad added (if any), as it reads back *)
Definition nq_load_line (raw : str) : list quad :=
  let line := trim raw in
  if is_comment_or_empty line then []
  else if ends_with [cDOT] line then
    match nq_parse_line (trim (removelast line)) with
    | Some (s, p, o, g) => [(ect s, ect p, ect o, g)]     (* the graph name is encoded verbatim *)
    | None => []
    end
  else [].
Definition load_nq (text : str) : list quad := flat_map nq_load_line (lines text).

Definition sRDFTYPE : str :=
  [104;116;116;112;58;47;47;119;119;119;46;119;51;46;111;114;103;47;49;57;57;57;47;48;50;47;50;50;45;114;100;102;45;
   115;121;110;116;97;120;45;110;115;35;116;121;112;101].
(* parse_ntriples_line *)
Definition nt_parse_line (line : str) : option (str * str * str) :=
  match parts line with
  | [a; b; c] => Some (clean_nt a, if str_eqb b [97] then sRDFTYPE else clean_nt b, clean_nt c)
  | _ => None
  end.
(* parse_ntriples + encode_triples + add_triple (chunking does not change the order of lines) *)
Definition nt_load_line (raw : str) : list quad :=
  let line := trim raw in
  if is_comment_or_empty line then []
  else if ends_with [cDOT] line then
    match nt_parse_line (trim (removelast line)) with
    | Some (s, p, o) => [(ect s, ect p, ect o, None)]
    | None => []
    end
  else [].
Definition load_nt (text : str) : list quad := flat_map nt_load_line (lines text).
